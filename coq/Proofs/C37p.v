From Restic Require Import Base.Prelude Model.C37m.
Import C37m.

(* ---------- list facts ---------- *)
Lemma nth_set_same {A} (l : list A) i x y : nth_error l i = Some y -> nth_error (set_nth i x l) i = Some x.
Proof.
  revert i; induction l as [|z l IH]; intros i H; [destruct i; discriminate|].
  destruct i; cbn [set_nth nth_error] in *; [reflexivity|apply IH; exact H].
Qed.

Lemma nth_set_other {A} (l : list A) i j x : i <> j -> nth_error (set_nth j x l) i = nth_error l i.
Proof.
  revert i j; induction l as [|z l IH]; intros i j H; [destruct j; reflexivity|].
  destruct j, i; cbn [set_nth nth_error]; try reflexivity; [congruence|apply IH; congruence].
Qed.

Definition b2n (b : bool) : nat := if b then 1 else 0.

Lemma count_set_nth f l i t t' :
  nth_error l i = Some t -> count f (set_nth i t' l) + b2n (f t) = count f l + b2n (f t').
Proof.
  revert i; induction l as [|z l IH]; intros i H; [destruct i; discriminate|].
  destruct i; cbn [nth_error] in H; cbn [set_nth count].
  - inversion H; subst. unfold b2n. destruct (f t), (f t'); lia.
  - specialize (IH i H). lia.
Qed.

Lemma count_le f g l : (forall t, f t = true -> g t = true) -> count f l <= count g l.
Proof.
  intros H; induction l as [|t l IH]; cbn [count]; [lia|].
  destruct (f t) eqn:E; [rewrite (H t E); lia | destruct (g t); lia].
Qed.

(* ---------- invariant ---------- *)
Definition gate_A (s : state) : Prop :=
  forall i, mx s = MThread i -> exists t, nth_error (thr s) i = Some t /\ t_pc t = PInGate.
Definition gate_B (s : state) : Prop :=
  forall i t, nth_error (thr s) i = Some t -> t_pc t = PInGate -> mx s = MThread i.
Definition Inv (s : state) : Prop := tokens s <= cap s /\ gate_A s /\ gate_B s.

Lemma cap_step s a : cap (step s a) = cap s.
Proof.
  destruct a as [i| |]; cbn [step].
  - destruct (nth_error (thr s) i) as [t|]; [|reflexivity]. unfold step_thread.
    destruct (t_pc t); try reflexivity.
    + destruct (negb (t_valid t)); [reflexivity|]. destruct (t_lock t); reflexivity.
    + destruct (Nat.ltb (tokens s) (cap s)); reflexivity.
    + destruct (mtx_is_free (mx s)); reflexivity.
  - destruct (mtx_is_free (mx s)); reflexivity.
  - destruct (mx s); reflexivity.
Qed.

Ltac tok_case H :=
  unfold tokens; cbn [thr cap];
  match goal with
  | |- count holds_token (set_nth ?i ?t' ?l) <= _ =>
      pose proof (count_set_nth holds_token l i _ t' H) as Hc
  end;
  unfold holds_token, b2n, with_pc in *; cbn [t_lock t_pc] in *.

Lemma tokens_step_thread s i t :
  nth_error (thr s) i = Some t -> tokens s <= cap s -> tokens (step_thread s i t) <= cap s.
Proof.
  intros H Hle. unfold step_thread. destruct (t_pc t) eqn:Ep.
  - destruct (negb (t_valid t)); [|destruct (t_lock t) eqn:El];
      tok_case H; rewrite Ep in Hc; unfold tokens, holds_token in Hle;
      try rewrite El in Hc; cbn in Hc; destruct (t_lock t); cbn in Hc; lia.
  - destruct (Nat.ltb (tokens s) (cap s)) eqn:E; [|exact Hle]. apply Nat.ltb_lt in E.
    tok_case H. rewrite Ep in Hc. unfold tokens, holds_token in E, Hle.
    destruct (t_lock t); cbn in Hc; lia.
  - destruct (mtx_is_free (mx s)); [|exact Hle].
    tok_case H. rewrite Ep in Hc. unfold tokens, holds_token in Hle. destruct (t_lock t); cbn in Hc; lia.
  - tok_case H. rewrite Ep in Hc. unfold tokens, holds_token in Hle. destruct (t_lock t); cbn in Hc; lia.
  - tok_case H. rewrite Ep in Hc. unfold tokens, holds_token in Hle. destruct (t_lock t); cbn in Hc; lia.
  - exact Hle.
Qed.

(* a thread step that neither starts from nor ends in the gate, and keeps the mutex *)
Lemma gate_keep s j t p :
  nth_error (thr s) j = Some t -> t_pc t <> PInGate -> p <> PInGate ->
  gate_A s -> gate_B s ->
  gate_A (mkS (cap s) (set_nth j (with_pc t p) (thr s)) (mx s))
  /\ gate_B (mkS (cap s) (set_nth j (with_pc t p) (thr s)) (mx s)).
Proof.
  intros Hj Hpc Hp HA HB. split.
  - intros i Hm. cbn [mx thr] in *. destruct (HA i Hm) as [ti [Hi Hti]].
    assert (i <> j) by (intros ->; rewrite Hj in Hi; inversion Hi; subst; contradiction).
    exists ti. rewrite nth_set_other by assumption. split; assumption.
  - intros i ti Hi Hti. cbn [mx thr] in *.
    destruct (Nat.eq_dec i j) as [->|Hne].
    + rewrite (nth_set_same _ _ _ _ Hj) in Hi. inversion Hi; subst. cbn [with_pc t_pc] in Hti. contradiction.
    + rewrite nth_set_other in Hi by assumption. eapply HB; eassumption.
Qed.

Lemma inv_step s a : Inv s -> Inv (step s a).
Proof.
  intros [Htok [HA HB]]. unfold Inv. rewrite cap_step.
  destruct a as [j| |]; cbn [step].
  - destruct (nth_error (thr s) j) as [t|] eqn:Hj; [|repeat split; assumption].
    split; [apply tokens_step_thread; assumption|].
    unfold step_thread. destruct (t_pc t) eqn:Ep.
    + destruct (negb (t_valid t)); [|destruct (t_lock t)];
        apply gate_keep; try assumption; try (rewrite Ep; discriminate); discriminate.
    + destruct (Nat.ltb (tokens s) (cap s)); [|split; assumption].
      apply gate_keep; try assumption; try (rewrite Ep; discriminate); discriminate.
    + (* enter the gate *)
      destruct (mx s) eqn:Em; cbn [mtx_is_free]; try (split; assumption).
      split.
      * intros i Hm. cbn [mx thr] in *. inversion Hm; subst i.
        exists (with_pc t PInGate). split; [eapply nth_set_same; exact Hj|reflexivity].
      * intros i ti Hi Hti. cbn [mx thr] in *.
        destruct (Nat.eq_dec i j) as [->|Hne]; [reflexivity|].
        rewrite nth_set_other in Hi by assumption.
        pose proof (HB i ti Hi Hti) as Hm. rewrite Em in Hm. discriminate.
    + (* leave the gate *)
      pose proof (HB j t Hj Ep) as Hmj.
      split.
      * intros i Hm. cbn [mx] in Hm. discriminate.
      * intros i ti Hi Hti. cbn [mx thr] in *.
        destruct (Nat.eq_dec i j) as [->|Hne].
        -- rewrite (nth_set_same _ _ _ _ Hj) in Hi. inversion Hi; subst. discriminate.
        -- rewrite nth_set_other in Hi by assumption.
           pose proof (HB i ti Hi Hti) as Hm. rewrite Hmj in Hm. congruence.
    + apply gate_keep; try assumption; try (rewrite Ep; discriminate); discriminate.
    + split; assumption.
  - destruct (mx s) eqn:Em; cbn [mtx_is_free]; try (repeat split; assumption).
    split; [exact Htok|]. split.
    + intros i Hm. discriminate.
    + intros i ti Hi Hti. cbn [thr mx] in *. pose proof (HB i ti Hi Hti) as Hm. rewrite Em in Hm. discriminate.
  - destruct (mx s) eqn:Em; try (repeat split; assumption).
    split; [exact Htok|]. split.
    + intros i Hm. discriminate.
    + intros i ti Hi Hti. cbn [thr mx] in *. pose proof (HB i ti Hi Hti) as Hm. rewrite Em in Hm. discriminate.
Qed.

Lemma inv_init n ts : Inv (init n ts).
Proof.
  unfold Inv, init. cbn [cap thr mx]. split; [|split].
  - unfold tokens. cbn [thr]. induction ts as [|x r IH]; cbn [map count]; [lia|].
    unfold holds_token at 1. cbn [t_pc t_lock]. rewrite andb_false_r. exact IH.
  - intros i H. discriminate.
  - intros i t H Hp. exfalso. cbn [thr] in H.
    apply nth_error_In in H. apply in_map_iff in H as [x [Hx _]]. subst t. discriminate.
Qed.

Lemma inv_run sched : forall s, Inv s -> Inv (run s sched).
Proof. induction sched as [|a r IH]; intros s H; cbn [run fold_left]; [exact H|]. apply IH. apply inv_step. exact H. Qed.

Lemma cap_run sched : forall s, cap (run s sched) = cap s.
Proof. induction sched as [|a r IH]; intros s; cbn [run fold_left]; [reflexivity|]. unfold run in IH. rewrite IH. apply cap_step. Qed.

(* ---------- T1: the limit, for every schedule ---------- *)
Lemma limit n ts sched :
  let s := run (init n ts) sched in
  running_nonlock s <= tokens s /\ tokens s <= n.
Proof.
  cbn zeta. pose proof (inv_run sched _ (inv_init n ts)) as [H _]. rewrite cap_run in H. cbn [init cap] in H.
  split; [|exact H]. unfold running_nonlock, tokens. apply count_le.
  intros t Ht. unfold holds_token, in_inner in *.
  apply andb_true_iff in Ht as [Hl Hi]. apply andb_true_iff in Hi as [_ Hp]. rewrite Hl. cbn [andb].
  destruct (t_pc t); try discriminate; reflexivity.
Qed.

(* ---------- T2: lock-file operations are never blocked ---------- *)
Definition lock_next (t : thread) : pc :=
  match t_pc t with
  | PStart => if t_valid t then PRun else PDone
  | _ => PDone
  end.

(* in EVERY state (any number of tokens out, mutex free / frozen / inside the gate) a lock-file
   call that has not returned makes its next move when scheduled *)
Lemma lock_step_enabled s i t :
  nth_error (thr s) i = Some t -> t_lock t = true -> (t_pc t = PStart \/ t_pc t = PRun) ->
  nth_error (thr (step s (AStep i))) i = Some (with_pc t (lock_next t)).
Proof.
  intros H Hl Hp. cbn [step]. rewrite H. unfold step_thread, lock_next.
  destruct Hp as [Hp|Hp]; rewrite Hp.
  - destruct (t_valid t); cbn [negb]; [rewrite Hl|]; cbn [thr]; eapply nth_set_same; exact H.
  - cbn [thr]. eapply nth_set_same; exact H.
Qed.

Lemma step_other s a i : a <> AStep i -> nth_error (thr (step s a)) i = nth_error (thr s) i.
Proof.
  intros Ha. destruct a as [j| |]; cbn [step].
  - assert (i <> j) by congruence.
    destruct (nth_error (thr s) j) as [t|]; [|reflexivity]. unfold step_thread.
    destruct (t_pc t); try reflexivity; cbn [thr]; try (apply nth_set_other; assumption).
    + destruct (negb (t_valid t)); [|destruct (t_lock t)]; cbn [thr]; apply nth_set_other; assumption.
    + destruct (Nat.ltb (tokens s) (cap s)); [cbn [thr]; apply nth_set_other; assumption|reflexivity].
    + destruct (mtx_is_free (mx s)); [cbn [thr]; apply nth_set_other; assumption|reflexivity].
  - destruct (mtx_is_free (mx s)); reflexivity.
  - destruct (mx s); reflexivity.
Qed.

Lemma run_other sched i : Forall (fun a => a <> AStep i) sched ->
  forall s, nth_error (thr (run s sched)) i = nth_error (thr s) i.
Proof.
  induction sched as [|a r IH]; intros HF s; cbn [run fold_left]; [reflexivity|].
  inversion HF; subst. unfold run in IH. rewrite IH by assumption. apply step_other. assumption.
Qed.

(* whatever everybody else does in between (token holders, Freeze, ...), a valid lock-file call
   is inside the inner backend after its first own step and has returned after its second *)
Lemma lock_never_blocked s i t o1 o2 :
  nth_error (thr s) i = Some t -> t_lock t = true -> t_valid t = true -> t_pc t = PStart ->
  Forall (fun a => a <> AStep i) o1 -> Forall (fun a => a <> AStep i) o2 ->
  nth_error (thr (run s (o1 ++ [AStep i]))) i = Some (with_pc t PRun)
  /\ nth_error (thr (run s (o1 ++ [AStep i] ++ o2 ++ [AStep i]))) i = Some (with_pc t PDone).
Proof.
  intros H Hl Hv Hp H1 H2.
  assert (E1 : nth_error (thr (run s (o1 ++ [AStep i]))) i = Some (with_pc t PRun)).
  { unfold run. rewrite fold_left_app. cbn [fold_left].
    pose proof (run_other o1 i H1 s) as Ho. unfold run in Ho. rewrite H in Ho.
    rewrite (lock_step_enabled _ i t Ho Hl (or_introl Hp)). unfold lock_next. rewrite Hp, Hv. reflexivity. }
  split; [exact E1|].
  replace (o1 ++ [AStep i] ++ o2 ++ [AStep i]) with ((o1 ++ [AStep i]) ++ o2 ++ [AStep i])
    by (rewrite <- !app_assoc; reflexivity).
  unfold run in *. rewrite fold_left_app. set (s1 := fold_left step (o1 ++ [AStep i]) s) in *.
  rewrite fold_left_app. cbn [fold_left].
  pose proof (run_other o2 i H2 s1) as Ho. unfold run in Ho. rewrite E1 in Ho.
  rewrite (lock_step_enabled _ i (with_pc t PRun) Ho Hl (or_intror eq_refl)). reflexivity.
Qed.

(* ---------- T3: while frozen no non-lock operation starts ---------- *)
Lemma action_eq_step a i : a = AStep i \/ a <> AStep i.
Proof.
  destruct a as [j| |]; try (right; discriminate).
  destruct (Nat.eq_dec j i) as [->|H]; [left; reflexivity|right; congruence].
Qed.

Lemma frozen_no_start s a i t' :
  Inv s -> mx s = MFrozen ->
  nth_error (thr (step s a)) i = Some t' -> t_lock t' = false -> in_inner t' = true ->
  exists t, nth_error (thr s) i = Some t /\ t_lock t = false /\ in_inner t = true.
Proof.
  intros [_ [_ HB]] Hm Hn Hl Hi.
  destruct (action_eq_step a i) as [->|Hne].
  2:{ rewrite step_other in Hn by exact Hne. exists t'. repeat split; assumption. }
  cbn [step] in Hn. destruct (nth_error (thr s) i) as [t|] eqn:Ht; [|rewrite Ht in Hn; discriminate].
  unfold step_thread in Hn. destruct (t_pc t) eqn:Ep.
  - destruct (negb (t_valid t)); [|destruct (t_lock t) eqn:El]; cbn [thr] in Hn;
      rewrite (nth_set_same _ _ _ _ Ht) in Hn; inversion Hn; subst t';
      unfold in_inner, with_pc in *; cbn [t_pc t_cancel t_lock] in *;
      try (rewrite andb_false_r in Hi; discriminate). congruence.
  - destruct (Nat.ltb (tokens s) (cap s)); [cbn [thr] in Hn; rewrite (nth_set_same _ _ _ _ Ht) in Hn; inversion Hn; subst t';
      unfold in_inner, with_pc in Hi; cbn [t_pc t_cancel] in Hi; rewrite andb_false_r in Hi; discriminate|].
    rewrite Ht in Hn. inversion Hn; subst t'. unfold in_inner in Hi. rewrite Ep, andb_false_r in Hi. discriminate.
  - rewrite Hm in Hn. cbn [mtx_is_free] in Hn. rewrite Ht in Hn. inversion Hn; subst t'.
    unfold in_inner in Hi. rewrite Ep, andb_false_r in Hi. discriminate.
  - pose proof (HB i t Ht Ep) as Hmi. rewrite Hm in Hmi. discriminate.
  - cbn [thr] in Hn. rewrite (nth_set_same _ _ _ _ Ht) in Hn. inversion Hn; subst t'.
    unfold in_inner, with_pc in Hi. cbn [t_pc t_cancel] in Hi. rewrite andb_false_r in Hi. discriminate.
  - rewrite Ht in Hn. inversion Hn; subst t'. exists t. repeat split; [exact Hl|exact Hi].
Qed.

Lemma frozen_stays s a : Inv s -> mx s = MFrozen -> a <> AUnfreeze -> mx (step s a) = MFrozen.
Proof.
  intros [_ [_ HB]] Hm Ha. destruct a as [j| |]; [| |congruence]; cbn [step].
  - destruct (nth_error (thr s) j) as [t|] eqn:Ht; [|exact Hm]. unfold step_thread.
    destruct (t_pc t) eqn:Ep; try exact Hm.
    + destruct (negb (t_valid t)); [|destruct (t_lock t)]; exact Hm.
    + destruct (Nat.ltb (tokens s) (cap s)); exact Hm.
    + rewrite Hm. cbn [mtx_is_free]. exact Hm.
    + pose proof (HB j t Ht Ep) as Hmj. rewrite Hm in Hmj. discriminate.
  - rewrite Hm. cbn [mtx_is_free]. exact Hm.
Qed.

(* between Freeze and Unfreeze: for every schedule without Unfreeze, every non-lock inner
   operation that is running at the end was already running when the freeze took effect *)
Lemma frozen_interval sched : Forall (fun a => a <> AUnfreeze) sched ->
  forall s, Inv s -> mx s = MFrozen ->
  forall i t', nth_error (thr (run s sched)) i = Some t' -> t_lock t' = false -> in_inner t' = true ->
  exists t, nth_error (thr s) i = Some t /\ t_lock t = false /\ in_inner t = true.
Proof.
  induction sched as [|a r IH]; intros HF s HI Hm i t' Hn Hl Hi.
  - exists t'. repeat split; assumption.
  - inversion HF; subst. cbn [run fold_left] in Hn.
    destruct (IH H2 (step s a) (inv_step s a HI) (frozen_stays s a HI Hm H1) i t' Hn Hl Hi) as [t1 [Hn1 [Hl1 Hi1]]].
    exact (frozen_no_start s a i t1 HI Hm Hn1 Hl1 Hi1).
Qed.

(* ---------- T4: Freeze never waits for a token ---------- *)
(* the freeze mutex is only ever held by a thread that is about to release it: its next step is
   always enabled and frees the mutex, whatever the token situation *)
Lemma freeze_wait_bounded s i : Inv s -> mx s = MThread i -> mx (step s (AStep i)) = MFree.
Proof.
  intros [_ [HA _]] Hm. destruct (HA i Hm) as [t [Ht Hp]].
  cbn [step]. rewrite Ht. unfold step_thread. rewrite Hp. reflexivity.
Qed.

Lemma freeze_enabled s : mx s = MFree -> mx (step s AFreeze) = MFrozen.
Proof. intros H. cbn [step]. rewrite H. reflexivity. Qed.

(* ---------- link between the thread-level model and the quiescent count model ---------- *)
Lemma count_ext_in f g l : (forall t, In t l -> f t = g t) -> count f l = count g l.
Proof.
  induction l as [|t l IH]; intros H; cbn [count]; [reflexivity|].
  rewrite (H t (or_introl eq_refl)). rewrite IH; [reflexivity|]. intros u Hu. apply H. right; exact Hu.
Qed.

Lemma count_split f g h l :
  (forall t, In t l -> b2n (f t) = b2n (g t) + b2n (h t)) -> count f l = count g l + count h l.
Proof.
  induction l as [|t l IH]; intros H; cbn [count]; [reflexivity|].
  pose proof (H t (or_introl eq_refl)) as Ht. unfold b2n in Ht.
  rewrite IH by (intros u Hu; apply H; right; exact Hu).
  destruct (f t), (g t), (h t); cbn in Ht |- *; lia.
Qed.

Lemma count_pos f l : 0 < count f l -> exists t, In t l /\ f t = true.
Proof.
  induction l as [|t l IH]; cbn [count]; [lia|]. destruct (f t) eqn:E; intros H.
  - exists t. split; [left; reflexivity|exact E].
  - destruct (IH H) as [u [Hu Hf]]. exists u. split; [right; exact Hu|exact Hf].
Qed.

(* a stuck thread really cannot move: scheduling it changes nothing (unless its inner operation
   completes, which is the Release command of the test scripts) *)
Lemma stuck_no_move s i t :
  nth_error (thr s) i = Some t -> stuck s t = true -> t_pc t <> PRun -> step s (AStep i) = s.
Proof.
  intros H Hs Hp. cbn [step]. rewrite H. unfold step_thread, stuck in *.
  destruct (t_pc t); try discriminate; try congruence.
  - destruct (Nat.ltb (tokens s) (cap s)); [discriminate|reflexivity].
  - destruct (mtx_is_free (mx s)); [discriminate|reflexivity].
Qed.

Definition waitN (s : state) : nat :=
  count (fun t => andb (negb (t_lock t)) (andb (negb (t_cancel t)) (match t_pc t with PWant => true | _ => false end))) (thr s).

(* quiescent and not frozen: every token is held by a running inner operation, and the number of
   running non-lock inner operations is min(pending, capacity) *)
Lemma quiescent_unfrozen_counts s :
  Inv s -> mx s = MFree -> quiescent s = true ->
  tokens s = running_nonlock s /\ running_nonlock s = Nat.min (pendN s) (cap s).
Proof.
  intros [Htok _] Hm Hq. unfold quiescent in Hq. rewrite forallb_forall in Hq.
  assert (Hshape : forall t, In t (thr s) ->
            t_pc t = PDone \/ (t_pc t = PRun /\ t_cancel t = false) \/ (t_pc t = PWant /\ cap s <= tokens s)).
  { intros t Ht. specialize (Hq t Ht). unfold stuck in Hq. rewrite Hm in Hq. cbn [mtx_is_free negb] in Hq.
    destruct (t_pc t); try discriminate.
    - right; right. split; [reflexivity|]. destruct (Nat.ltb (tokens s) (cap s)) eqn:E; [discriminate|].
      apply Nat.ltb_ge in E. exact E.
    - right; left. split; [reflexivity|]. destruct (t_cancel t); [discriminate|reflexivity].
    - left; reflexivity. }
  assert (E1 : tokens s = running_nonlock s).
  { unfold tokens, running_nonlock. apply count_ext_in. intros t Ht.
    unfold holds_token, in_inner. destruct (Hshape t Ht) as [Hp|[[Hp Hc]|[Hp _]]]; rewrite Hp; try rewrite Hc;
      destruct (t_lock t), (t_cancel t); reflexivity. }
  split; [exact E1|].
  assert (E2 : pendN s = waitN s + running_nonlock s).
  { unfold pendN, waitN, running_nonlock. apply count_split. intros t Ht.
    unfold pend, in_inner, b2n. destruct (Hshape t Ht) as [Hp|[[Hp Hc]|[Hp _]]]; rewrite Hp; try rewrite Hc;
      destruct (t_lock t), (t_cancel t); reflexivity. }
  destruct (Nat.eq_dec (waitN s) 0) as [Hw|Hw].
  - rewrite E2, Hw. cbn [Nat.add]. rewrite <- E1. symmetry. apply Nat.min_l. exact Htok.
  - assert (Hpos : 0 < waitN s) by lia. unfold waitN in Hpos.
    destruct (count_pos _ _ Hpos) as [t [Ht Hf]].
    destruct (Hshape t Ht) as [Hp|[[Hp _]|[_ Hcap]]].
    + rewrite Hp in Hf. rewrite !andb_false_r in Hf. discriminate.
    + rewrite Hp in Hf. rewrite !andb_false_r in Hf. discriminate.
    + assert (running_nonlock s = cap s) by lia. rewrite E2. lia.
Qed.

(* the count model computes the same number *)
Lemma settle_run_is_min n q :
  q_frozen q = false -> q_run q <= n ->
  q_run (settle n q) = Nat.min (q_wait q + q_run q) n
  /\ q_wait (settle n q) + q_run (settle n q) = q_wait q + q_run q.
Proof. intros Hf Hr. unfold settle. rewrite Hf. cbn [q_run q_wait]. lia. Qed.

Lemma settle_frozen n q : q_frozen q = true -> settle n q = q.
Proof. intros H. unfold settle. rewrite H. reflexivity. Qed.

(* hence: whatever schedule led to a quiescent unfrozen state, its running count is the one the
   count model computes from the same number of pending calls *)
Lemma count_model_agrees s q :
  Inv s -> mx s = MFree -> quiescent s = true ->
  q_frozen q = false -> q_run q <= cap s -> q_wait q + q_run q = pendN s ->
  q_run (settle (cap s) q) = running_nonlock s
  /\ q_wait (settle (cap s) q) = pendN s - running_nonlock s.
Proof.
  intros HI Hm Hq Hf Hr Hp.
  destruct (quiescent_unfrozen_counts s HI Hm Hq) as [_ E].
  destruct (settle_run_is_min (cap s) q Hf Hr) as [E1 E2].
  rewrite Hp in E1, E2. split; [congruence|]. rewrite <- E in E1. lia.
Qed.

(* how the pending count moves: +1 when a valid non-lock, non-cancelled call passes the handle
   check (CLaunch), -1 when its inner operation completes (CRelease), unchanged by every other step *)
Lemma pendN_step_thread s i t :
  nth_error (thr s) i = Some t ->
  pendN (step_thread s i t) + b2n (pend t) =
  pendN s + b2n (pend (match t_pc t with
                       | PStart => if negb (t_valid t) then with_pc t PDone else if t_lock t then with_pc t PRun else with_pc t PWant
                       | PWant => if Nat.ltb (tokens s) (cap s) then with_pc t PAtGate else t
                       | PAtGate => if mtx_is_free (mx s) then with_pc t PInGate else t
                       | PInGate => with_pc t PRun
                       | PRun => with_pc t PDone
                       | PDone => t
                       end)).
Proof.
  intros H. unfold step_thread, pendN.
  destruct (t_pc t) eqn:Ep; cbn [thr];
    try (destruct (negb (t_valid t)); [|destruct (t_lock t) eqn:El]);
    try (destruct (Nat.ltb (tokens s) (cap s)));
    try (destruct (mtx_is_free (mx s)));
    cbn [thr]; try (apply count_set_nth; exact H); lia.
Qed.

Lemma pendN_same s a :
  (forall i t, a = AStep i -> nth_error (thr s) i = Some t -> t_pc t <> PStart /\ t_pc t <> PRun) ->
  pendN (step s a) = pendN s.
Proof.
  intros Ha. destruct a as [i| |]; cbn [step].
  - destruct (nth_error (thr s) i) as [t|] eqn:Ht; [|reflexivity].
    destruct (Ha i t eq_refl Ht) as [H1 H2].
    pose proof (pendN_step_thread s i t Ht) as E.
    destruct (t_pc t) eqn:Ep; try congruence.
    + destruct (Nat.ltb (tokens s) (cap s)); [|lia].
      unfold pend, with_pc in E. cbn [t_lock t_cancel t_pc] in E. rewrite Ep in E. lia.
    + destruct (mtx_is_free (mx s)); [|lia].
      unfold pend, with_pc in E. cbn [t_lock t_cancel t_pc] in E. rewrite Ep in E. lia.
    + unfold pend, with_pc in E. cbn [t_lock t_cancel t_pc] in E. rewrite Ep in E. lia.
    + lia.
  - destruct (mtx_is_free (mx s)); reflexivity.
  - destruct (mx s); reflexivity.
Qed.

(* ---------- oracle ---------- *)
Lemma check_C37_iff c :
  check_C37 c = true <->
  limit_ok (c_cap c) (c_obs c) = true /\ lock_ok 0 (c_cmds c) (c_obs c) = true
  /\ frozen_ok None (c_cmds c) (c_obs c) = true.
Proof.
  unfold check_C37, oracle_code.
  destruct (limit_ok _ _); cbn [negb]; [|split; [discriminate|intros [H _]; discriminate]].
  destruct (lock_ok _ _ _); cbn [negb]; [|split; [discriminate|intros [_ [H _]]; discriminate]].
  destruct (frozen_ok _ _ _); cbn [negb]; split; try discriminate; auto.
  intros [_ [_ H]]; discriminate.
Qed.

Lemma limit_ok_meaning n os : limit_ok n os = true <-> forall o, In o os -> o_maxconc o <= n.
Proof.
  unfold limit_ok. rewrite forallb_forall. split; intros H o Ho; specialize (H o Ho).
  - apply Nat.leb_le. exact H.
  - apply Nat.leb_le. exact H.
Qed.

(* the count model satisfies the oracle for every capacity and every command script *)
Lemma settle_run_le n q : q_run q <= n -> q_run (settle n q) <= n.
Proof. intros H. unfold settle. destruct (q_frozen q); cbn [q_run]; lia. Qed.

Lemma apply_run_le n q c : q_run q <= n -> q_run (apply_cmd q c) <= n.
Proof.
  intros H. destruct c as [l v ca|l| |]; cbn [apply_cmd].
  - destruct v, l, ca; cbn [negb q_run]; lia.
  - destruct l; [destruct (q_runl q)|destruct (q_run q) eqn:E]; cbn [q_run]; lia.
  - cbn [q_run]; lia.
  - cbn [q_run]; lia.
Qed.

Lemma crun_limit n : forall cmds q m, q_run q <= n -> m <= n -> limit_ok n (crun n q m cmds) = true.
Proof.
  induction cmds as [|c r IH]; intros q m Hq Hm; [reflexivity|].
  cbn [crun]. unfold limit_ok. cbn [forallb]. fold (limit_ok n).
  pose proof (settle_run_le n _ (apply_run_le n q c Hq)) as Hs.
  apply andb_true_iff. split.
  - cbn [obs_of o_maxconc]. apply Nat.leb_le. lia.
  - apply IH; lia.
Qed.

Lemma settle_startedl n q : q_startedl (settle n q) = q_startedl q.
Proof. unfold settle. destruct (q_frozen q); reflexivity. Qed.

Lemma crun_lock n : forall cmds q m, lock_ok (q_startedl q) cmds (crun n q m cmds) = true.
Proof.
  induction cmds as [|c r IH]; intros q m; [reflexivity|].
  cbn [crun lock_ok obs_of o_startedl]. rewrite settle_startedl.
  set (q' := settle n (apply_cmd q c)).
  assert (E : q_startedl (apply_cmd q c) = match c with CLaunch true true false => S (q_startedl q) | _ => q_startedl q end).
  { destruct c as [l v ca|l| |]; cbn [apply_cmd]; try reflexivity.
    - destruct v, l, ca; reflexivity.
    - destruct l; [destruct (q_runl q)|destruct (q_run q)]; reflexivity. }
  rewrite E, Nat.eqb_refl. cbn [andb].
  replace (match c with CLaunch true true false => S (q_startedl q) | _ => q_startedl q end) with (q_startedl q').
  - apply IH.
  - unfold q'. rewrite settle_startedl. exact E.
Qed.

Definition frozen_inv (fa : option nat) (q : cstate) : Prop :=
  match fa with Some k => q_frozen q = true /\ q_started q = k | None => True end.

Lemma crun_frozen n : forall cmds q m fa, frozen_inv fa q -> frozen_ok fa cmds (crun n q m cmds) = true.
Proof.
  induction cmds as [|c r IH]; intros q m fa Hf; [reflexivity|].
  cbn [crun frozen_ok].
  destruct c as [l v ca|l| |].
  - assert (Hk : q_frozen (apply_cmd q (CLaunch l v ca)) = q_frozen q /\ q_started (apply_cmd q (CLaunch l v ca)) = q_started q)
      by (cbn [apply_cmd]; destruct v, l, ca; split; reflexivity).
    destruct Hk as [Hk1 Hk2].
    apply andb_true_iff. split.
    + destruct fa as [k|]; [|reflexivity]. destruct Hf as [Hfr Hst].
      cbn [obs_of o_started]. unfold settle. rewrite Hk1, Hfr. rewrite Hk2, Hst. apply Nat.eqb_refl.
    + apply IH. destruct fa as [k|]; [|exact I]. destruct Hf as [Hfr Hst].
      unfold frozen_inv, settle. rewrite Hk1, Hfr. split; [exact (eq_trans Hk1 Hfr)|exact (eq_trans Hk2 Hst)].
  - assert (Hk : q_frozen (apply_cmd q (CRelease l)) = q_frozen q /\ q_started (apply_cmd q (CRelease l)) = q_started q)
      by (cbn [apply_cmd]; destruct l; [destruct (q_runl q)|destruct (q_run q)]; split; reflexivity).
    destruct Hk as [Hk1 Hk2].
    apply andb_true_iff. split.
    + destruct fa as [k|]; [|reflexivity]. destruct Hf as [Hfr Hst].
      cbn [obs_of o_started]. unfold settle. rewrite Hk1, Hfr. rewrite Hk2, Hst. apply Nat.eqb_refl.
    + apply IH. destruct fa as [k|]; [|exact I]. destruct Hf as [Hfr Hst].
      unfold frozen_inv, settle. rewrite Hk1, Hfr. split; [exact (eq_trans Hk1 Hfr)|exact (eq_trans Hk2 Hst)].
  - apply IH. unfold frozen_inv, settle. cbn [apply_cmd q_frozen obs_of o_started q_started]. split; reflexivity.
  - apply IH. exact I.
Qed.

Lemma model_satisfies_oracle n cmds : check_C37 (mk n cmds (crun n cinit 0 cmds)) = true.
Proof.
  apply check_C37_iff. cbn [c_cap c_cmds c_obs]. split; [|split].
  - apply crun_limit; cbn [cinit q_run]; lia.
  - exact (crun_lock n cmds cinit 0).
  - apply crun_frozen. exact I.
Qed.

(* ---------- non-vacuity ---------- *)
Example c37_nonvacuous :
  (* capacity 1, two non-lock calls and one lock call; the lock call runs while the token is out and
     the backend is frozen; the second non-lock call is stuck at the token *)
  let s := run (init 1 [(false, true, false); (false, true, false); (true, true, false)])
               [AStep 0; AStep 0; AStep 0; AStep 0; AStep 1; AStep 1; AFreeze; AStep 2; AStep 1; AStep 1] in
  map t_pc (thr s) = [PRun; PWant; PRun] /\ mx s = MFrozen /\ tokens s = 1 /\ running_nonlock s = 1
  /\ quiescent (step s AUnfreeze) = true /\ pendN s = 2 /\ running_nonlock s = Nat.min (pendN s) 1
  /\ check_case (mk 1 [CLaunch false true false; CLaunch false true false; CLaunch true true false; CFreeze; CRelease false; CUnfreeze]
                 [mkO 1 0 1 0 0 1; mkO 1 0 1 0 0 1; mkO 1 1 1 1 0 1; mkO 1 1 1 1 0 1; mkO 1 1 0 1 1 1; mkO 2 1 1 1 1 1]) = 0
  /\ check_case (mk 1 [CLaunch false true false; CLaunch false true false] [mkO 1 0 1 0 0 1; mkO 2 0 2 0 0 2]) = 2
  /\ check_case (mk 1 [CLaunch false true false; CLaunch true true false] [mkO 1 0 1 0 0 1; mkO 1 0 1 0 0 1]) = 3
  /\ check_case (mk 1 [CFreeze; CLaunch false true false] [mkO 0 0 0 0 0 0; mkO 1 0 1 0 0 1]) = 4.
Proof. vm_compute. repeat split. Qed.
