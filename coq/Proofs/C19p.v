(* C19 proofs. *)
From Restic Require Import Base.Prelude Gen.ParamsC19 Model.C19m.
Import C19m.

Lemma data_eqb_spec a b : data_eqb a b = true <-> a = b.
Proof.
  revert b; induction a as [|x a IH]; intros [|y b]; cbn [data_eqb]; split; intro H;
    try reflexivity; try discriminate.
  - apply andb_true_iff in H as [H1 H2]. apply N.eqb_eq in H1. apply IH in H2. subst; reflexivity.
  - inversion H; subst. apply andb_true_iff; split; [apply N.eqb_refl | apply IH; reflexivity].
Qed.

Lemma fstate_eqb_spec a b : fstate_eqb a b = true <-> a = b.
Proof.
  destruct a, b; cbn [fstate_eqb]; split; intro H; try discriminate; try reflexivity.
  - apply data_eqb_spec in H; subst; reflexivity.
  - inversion H; apply data_eqb_spec; reflexivity.
Qed.

(* with if-newer / never an existing destination is left exactly as it is when the mode says so *)
Lemma skip_untouched o p blobs : should_overwrite o p = false -> restore_file o p blobs = (state_of p, false).
Proof. intros H. unfold restore_file. rewrite H. reflexivity. Qed.

Lemma should_overwrite_spec o p :
  should_overwrite o p = false <->
  exists_pre p = true /\ (o_ow o = OwNever \/ (o_ow o = OwIfNewer /\ o_newer o = false)).
Proof.
  unfold should_overwrite. destruct (o_ow o), (exists_pre p), (o_newer o); cbn; split; intro H;
    try discriminate; try reflexivity; try (split; [reflexivity|]; auto; fail).
  all: try (destruct H as [H1 [H2 | [H2 H3]]]; discriminate).
Qed.

(* the oracle means the property *)
Definition property (o : opts) (p : pre) (blobs : list data) (final : fstate) (err intact : bool) : Prop :=
  intact = true /\
  (should_overwrite o p = false -> final = state_of p) /\
  (should_overwrite o p = true -> trusted o p blobs = true -> final = state_of p) /\
  (should_overwrite o p = true -> trusted o p blobs = false -> err = false -> final = FReg (concat blobs)).

Lemma check_C19_iff c :
  check_C19 c = true <-> property (c_opts c) (c_pre c) (c_blobs c) (c_final c) (c_err c) (c_other_intact c).
Proof.
  unfold check_C19, property, oracle_code.
  destruct (c_other_intact c); cbn [negb].
  2: { split; [discriminate | intros [H _]; discriminate]. }
  destruct (should_overwrite (c_opts c) (c_pre c)); cbn [negb].
  - destruct (trusted (c_opts c) (c_pre c) (c_blobs c)).
    + destruct (fstate_eqb (c_final c) (state_of (c_pre c))) eqn:E.
      * apply fstate_eqb_spec in E. split; [intros _; repeat split; auto; discriminate | reflexivity].
      * split; [discriminate|]. intros [_ [_ [H _]]]. specialize (H eq_refl eq_refl).
        apply fstate_eqb_spec in H. congruence.
    + destruct (c_err c).
      * split; [intros _; repeat split; auto; discriminate | reflexivity].
      * destruct (fstate_eqb (c_final c) (FReg (concat (c_blobs c)))) eqn:E.
        -- apply fstate_eqb_spec in E. split; [intros _; repeat split; auto; discriminate | reflexivity].
        -- split; [discriminate|]. intros [_ [_ [_ H]]]. specialize (H eq_refl eq_refl eq_refl).
           apply fstate_eqb_spec in H. congruence.
  - destruct (fstate_eqb (c_final c) (state_of (c_pre c))) eqn:E.
    + apply fstate_eqb_spec in E. split; [intros _; repeat split; auto; discriminate | reflexivity].
    + split; [discriminate|]. intros [_ [H _]]. specialize (H eq_refl).
      apply fstate_eqb_spec in H. congruence.
Qed.

(* ================= exactness ================= *)
(* list kit *)
Lemma firstn_app_exact {A} (a b : list A) : firstn (length a) (a ++ b) = a.
Proof. induction a as [|x a IH]; cbn; [destruct b; reflexivity | rewrite IH; reflexivity]. Qed.

Lemma skipn_app_exact {A} (a b : list A) : skipn (length a) (a ++ b) = b.
Proof. induction a as [|x a IH]; cbn; [reflexivity | exact IH]. Qed.

Lemma skipn_app_plus {A} (a b : list A) n : skipn (length a + n) (a ++ b) = skipn n b.
Proof. induction a as [|x a IH]; cbn; [reflexivity | exact IH]. Qed.

Lemma skipn_skipn' {A} (l : list A) : forall a b, skipn a (skipn b l) = skipn (b + a) l.
Proof.
  induction l as [|x l IH]; intros a b.
  - rewrite !skipn_nil. reflexivity.
  - destruct b; cbn [skipn plus]; [reflexivity | apply IH].
Qed.

Lemma firstn_add {A} (l : list A) : forall a k, firstn (a + k) l = firstn a l ++ firstn k (skipn a l).
Proof.
  induction l as [|x l IH]; intros a k.
  - rewrite !firstn_nil, skipn_nil, firstn_nil. reflexivity.
  - destruct a; cbn [plus firstn skipn app]; [reflexivity | rewrite IH; reflexivity].
Qed.

Lemma zeros_app a b : zeros (a + b) = zeros a ++ zeros b.
Proof. unfold zeros. apply repeat_app. Qed.

Lemma zeros_length n : length (zeros n) = n.
Proof. unfold zeros. apply repeat_length. Qed.

Lemma total_cons b r : total (b :: r) = length b + total r.
Proof. unfold total. cbn [concat]. apply app_length. Qed.

(* writes *)
Lemma write_at_seg pre seg rest b : length seg = length b ->
  write_at (pre ++ seg ++ rest) (length pre) b = pre ++ b ++ rest.
Proof.
  intros Hl. unfold write_at. destruct b as [|x b'].
  - destruct seg; [reflexivity | discriminate].
  - unfold pad. rewrite <- app_assoc. rewrite firstn_app_exact.
    rewrite skipn_app_plus. rewrite <- Hl. rewrite skipn_app_exact. reflexivity.
Qed.

Lemma zp_split b : b = zeros (zero_prefix_len b) ++ skipn (zero_prefix_len b) b /\ zero_prefix_len b <= length b.
Proof.
  induction b as [|x b [IH1 IH2]]; cbn [zero_prefix_len].
  - split; [reflexivity | cbn; lia].
  - destruct (N.eqb x 0) eqn:E.
    + apply N.eqb_eq in E; subst x. cbn [zeros repeat skipn app length]. split; [f_equal; exact IH1 | lia].
    + cbn. split; [reflexivity | lia].
Qed.

Lemma file_write_seg sparse pre seg rest b : length seg = length b ->
  (sparse = true -> seg = zeros (length b)) ->
  file_write sparse (pre ++ seg ++ rest) (length pre) b = pre ++ b ++ rest.
Proof.
  intros Hl Hz. unfold file_write. destruct sparse; [|apply write_at_seg; exact Hl].
  specialize (Hz eq_refl). destruct (zp_split b) as [Hb Hle].
  set (z := zero_prefix_len b) in *.
  assert (Hs : seg = zeros z ++ zeros (length b - z)).
  { rewrite Hz. rewrite <- zeros_app. f_equal. lia. }
  rewrite Hs. rewrite <- app_assoc. rewrite (app_assoc pre (zeros z)).
  replace (length pre + z) with (length (pre ++ zeros z)) by (rewrite app_length, zeros_length; reflexivity).
  rewrite write_at_seg.
  - rewrite <- app_assoc. f_equal. rewrite app_assoc. rewrite <- Hb. reflexivity.
  - rewrite zeros_length, skipn_length. reflexivity.
Qed.

(* write_blobs with a local match list *)
Fixpoint wb (sparse : bool) (ms : list bool) (d : data) (blobs : list data) (off : nat) : data :=
  match blobs with
  | [] => d
  | b :: r => wb sparse (tl ms) (if hd false ms then d else file_write sparse d off b) r (off + length b)
  end.

Definition ms_of (st : fstate_t) : list bool := match st with Some (ms, _) => ms | None => [] end.

Lemma nth_hd_skipn (l : list bool) : forall i, nth i l false = hd false (skipn i l).
Proof. induction l as [|x l IH]; intros [|i]; cbn; try reflexivity. apply IH. Qed.

Lemma tl_skipn {A} (l : list A) : forall i, tl (skipn i l) = skipn (S i) l.
Proof.
  intros i; revert l; induction i as [|i IH]; intros l.
  - destruct l; reflexivity.
  - destruct l as [|x l]; [reflexivity|]. cbn [skipn]. apply IH.
Qed.

Lemma has_match_hd st i : has_match st i = hd false (skipn i (ms_of st)).
Proof. destruct st as [[ms s]|]; cbn [has_match ms_of]; [apply nth_hd_skipn | rewrite skipn_nil; reflexivity]. Qed.

Lemma write_blobs_wb sparse st blobs : forall i d off,
  write_blobs sparse st d blobs i off = wb sparse (skipn i (ms_of st)) d blobs off.
Proof.
  induction blobs as [|b r IH]; intros i d off; cbn [write_blobs wb]; [reflexivity|].
  rewrite IH, has_match_hd, tl_skipn. reflexivity.
Qed.

(* what the remaining part of the file must look like for the writes to produce the content *)
Fixpoint okp (sparse : bool) (ms : list bool) (rest : data) (blobs : list data) : Prop :=
  match blobs with
  | [] => rest = []
  | b :: r =>
      length b <= length rest /\
      (hd false ms = true -> firstn (length b) rest = b) /\
      (sparse = true -> hd false ms = false -> firstn (length b) rest = zeros (length b)) /\
      okp sparse (tl ms) (skipn (length b) rest) r
  end.

Lemma wb_ok sparse blobs : forall ms pre rest, okp sparse ms rest blobs ->
  wb sparse ms (pre ++ rest) blobs (length pre) = pre ++ concat blobs.
Proof.
  induction blobs as [|b r IH]; intros ms pre rest H; cbn [wb okp concat] in *.
  - subst rest. reflexivity.
  - destruct H as [Hlen [Hm [Hz Hr]]].
    assert (Erest : rest = firstn (length b) rest ++ skipn (length b) rest) by (symmetry; apply firstn_skipn).
    assert (Hsl : length (firstn (length b) rest) = length b) by (apply firstn_length_le; exact Hlen).
    replace (length pre + length b) with (length (pre ++ b)) by apply app_length.
    destruct (hd false ms) eqn:Eh.
    + rewrite Erest, (Hm eq_refl). rewrite app_assoc. rewrite IH; [rewrite <- app_assoc; reflexivity | exact Hr].
    + rewrite Erest at 1. rewrite file_write_seg; [| exact Hsl | intros Hs; apply Hz; auto].
      rewrite app_assoc. rewrite IH; [rewrite <- app_assoc; reflexivity | exact Hr].
Qed.

Lemma wb_ok0 sparse blobs ms d : okp sparse ms d blobs -> wb sparse ms d blobs 0 = concat blobs.
Proof. intros H. exact (wb_ok sparse blobs ms [] d H). Qed.

Lemma okp_zeros sparse blobs : okp sparse [] (zeros (total blobs)) blobs.
Proof.
  induction blobs as [|b r IH]; cbn [okp hd tl].
  - reflexivity.
  - rewrite total_cons, zeros_app.
    assert (Hl : length (zeros (length b)) = length b) by apply zeros_length.
    split; [rewrite app_length, Hl; lia|]. split; [discriminate|]. split.
    + intros _ _. rewrite <- Hl at 1. apply firstn_app_exact.
    + rewrite <- Hl at 1. rewrite skipn_app_exact. exact IH.
Qed.

Lemma okp_any blobs : forall rest, length rest = total blobs -> okp false [] rest blobs.
Proof.
  induction blobs as [|b r IH]; intros rest Hl; cbn [okp hd tl].
  - destruct rest; [reflexivity | discriminate].
  - rewrite total_cons in Hl. split; [lia|]. split; [discriminate|]. split; [discriminate|].
    apply IH. rewrite skipn_length. lia.
Qed.

(* what verifyFile's loop guarantees about the old content *)
Fixpoint vm_ok (d0 : data) (ms : list bool) (blobs : list data) (off : nat) : Prop :=
  match blobs with
  | [] => True
  | b :: r =>
      (hd false ms = true -> off + length b <= length d0 /\ firstn (length b) (skipn off d0) = b) /\
      vm_ok d0 (tl ms) r (off + length b)
  end.

Lemma vm_ok_allfalse d0 blobs : forall off, vm_ok d0 (map (fun _ => false) blobs) blobs off.
Proof. induction blobs as [|b r IH]; intros off; cbn [vm_ok map hd tl]; [exact I | split; [discriminate | apply IH]]. Qed.

Lemma vloop_ok d0 blobs : forall off sm ms s, vloop d0 blobs off sm = (ms, s) ->
  vm_ok d0 ms blobs off /\ length ms = length blobs /\ (s = true -> sm = true).
Proof.
  induction blobs as [|b r IH]; intros off sm ms s H; cbn [vloop] in H.
  - inversion H; subst. cbn. auto.
  - destruct (Nat.leb (off + length b) (length d0)) eqn:El.
    + destruct (vloop d0 r (off + length b) sm) as [ms' s'] eqn:Ev. inversion H; subst.
      destruct (IH _ _ _ _ Ev) as [H1 [H2 H3]]. cbn [vm_ok hd tl length]. split; [split|split].
      * intros Hm. apply data_eqb_spec in Hm. apply Nat.leb_le in El. split; [exact El | symmetry; exact Hm].
      * exact H1.
      * rewrite H2; reflexivity.
      * exact H3.
    + inversion H; subst. split; [apply (vm_ok_allfalse d0 (b :: r))|]. split; [cbn [length]; rewrite map_length; reflexivity | discriminate].
Qed.

Fixpoint allm (ms : list bool) (blobs : list data) : Prop :=
  match blobs with
  | [] => True
  | _ :: r => hd false ms = true /\ allm (tl ms) r
  end.

Lemma allm_concat d0 blobs : forall ms off, vm_ok d0 ms blobs off -> allm ms blobs ->
  firstn (total blobs) (skipn off d0) = concat blobs.
Proof.
  induction blobs as [|b r IH]; intros ms off Hv Ha; cbn [vm_ok allm concat] in *.
  - reflexivity.
  - destruct Hv as [Hb Hr]. destruct Ha as [Hh Ht]. destruct (Hb Hh) as [_ Hseg].
    rewrite total_cons, firstn_add, Hseg. f_equal.
    rewrite skipn_skipn'. apply IH with (ms := tl ms); assumption.
Qed.

Lemma all_true_allm blobs : forall ms, existsb negb ms = false -> length ms = length blobs -> allm ms blobs.
Proof.
  induction blobs as [|b r IH]; intros ms He Hl; cbn [allm]; [exact I|].
  destruct ms as [|m ms']; [discriminate|]. cbn [existsb] in He. apply orb_false_iff in He as [Hm He].
  cbn [hd tl]. split; [destruct m; [reflexivity | discriminate] | apply IH; [exact He | cbn in Hl; lia]].
Qed.

Lemma no_unmatched_allm st blobs : forall i, any_unmatched st blobs i false = false ->
  allm (skipn i (ms_of st)) blobs.
Proof.
  induction blobs as [|b r IH]; intros i H; cbn [any_unmatched allm] in *; [exact I|].
  apply orb_false_iff in H as [H1 H2]. cbn [negb orb] in H1. rewrite andb_true_r in H1.
  apply negb_false_iff in H1. rewrite has_match_hd in H1. split; [exact H1|].
  rewrite tl_skipn. apply IH; exact H2.
Qed.

Lemma any_unmatched_none blobs i : any_unmatched None blobs i false = match blobs with [] => false | _ => true end.
Proof. destruct blobs; reflexivity. Qed.

(* ensureSize / createFile *)
Lemma ensure_size_sparse d0 size : ensure_size d0 size true = zeros size.
Proof.
  unfold ensure_size, truncate, pad.
  assert (E : match d0 with [] => d0 | _ :: _ => [] end = []) by (destruct d0; reflexivity).
  rewrite E. cbn [length app]. rewrite Nat.sub_0_r. rewrite <- (zeros_length size) at 1. apply firstn_all.
Qed.

Lemma ensure_size_len d0 size : length (ensure_size d0 size false) = size.
Proof.
  unfold ensure_size, pad. destruct (Nat.ltb size (length d0)) eqn:E.
  - apply Nat.ltb_lt in E. apply firstn_length_le. lia.
  - apply Nat.ltb_ge in E. rewrite app_length, zeros_length. lia.
Qed.

Lemma ensure_size_agree d0 size n : n <= length d0 -> n <= size ->
  firstn n (ensure_size d0 size false) = firstn n d0.
Proof.
  intros H1 H2. unfold ensure_size, pad. destruct (Nat.ltb size (length d0)).
  - rewrite firstn_firstn. f_equal. lia.
  - rewrite firstn_app. replace (n - length d0) with 0 by lia. cbn. apply app_nil_r.
Qed.

Definition old_data (p : pre) : data :=
  match p with PReg d false _ _ => d | _ => [] end.

Lemma create_file_spec o p size sp dd : create_file o p size sp = Some dd -> dd = ensure_size (old_data p) size sp.
Proof.
  unfold create_file, old_data. destruct p as [|d hl rd me|ne|dst]; try (intros H; inversion H; reflexivity).
  destruct (andb ne (negb (o_allow_rec o))); intros H; inversion H; reflexivity.
Qed.

Lemma okp_vm d0 d blobs : forall ms off, vm_ok d0 ms blobs off ->
  length d = off + total blobs ->
  (forall n, n <= length d0 -> n <= length d -> firstn n d = firstn n d0) ->
  okp false ms (skipn off d) blobs.
Proof.
  induction blobs as [|b r IH]; intros ms off Hv Hl Ha; cbn [okp vm_ok] in *.
  - apply skipn_all2. unfold total in Hl. cbn in Hl. lia.
  - rewrite total_cons in Hl. destruct Hv as [Hb Hr].
    split; [rewrite skipn_length; lia|]. split; [|split; [discriminate|]].
    + intros Hh. destruct (Hb Hh) as [Hle Hseg].
      rewrite firstn_skipn_comm. rewrite Ha; [|exact Hle | lia].
      rewrite <- firstn_skipn_comm. exact Hseg.
    + rewrite skipn_skipn'. apply IH; [exact Hr | lia | exact Ha].
Qed.

(* verifyFile's result when the if-changed shortcut does not apply *)
Lemma verify_some o p blobs ms sm : trusted o p blobs = false -> verify o p blobs = Some (ms, sm) ->
  exists d hl rd me, p = PReg d hl rd me /\
    vloop d blobs 0 (Nat.eqb (total blobs) (length d)) = (ms, sm) /\
    (hl = false \/ needs_restore (Some (ms, sm)) = false).
Proof.
  intros Ht Hv. unfold verify in Hv. destruct p as [|d hl rd me| |]; try discriminate.
  unfold trusted in Ht. destruct (orb rd (o_root o)); [|discriminate].
  assert (E : andb (andb match o_ow o with OwIfChanged => true | _ => false end me)
                   (Nat.eqb (total blobs) (length d)) = false).
  { destruct (o_ow o); try reflexivity. cbn [andb] in Ht |- *. exact Ht. }
  rewrite E in Hv. exists d, hl, rd, me. split; [reflexivity|].
  destruct (vloop d blobs 0 (Nat.eqb (total blobs) (length d))) as [ms0 sm0].
  destruct hl; cbn [andb] in Hv.
  - destruct (needs_restore (Some (ms0, sm0))) eqn:En; [discriminate|]. inversion Hv; subst. auto.
  - inversion Hv; subst. auto.
Qed.

Lemma needs_restore_false ms sm : needs_restore (Some (ms, sm)) = false -> sm = true /\ existsb negb ms = false.
Proof. cbn [needs_restore]. intros H. apply orb_false_iff in H as [H1 H2]. apply negb_false_iff in H1. auto. Qed.

(* After a successful restore with --overwrite always / if-changed (outside the documented trust case)
   the file has exactly the snapshot content: for every old state of the path, blob layout, sparse flag,
   user and verify outcome. *)
Theorem restore_exact o p blobs f :
  should_overwrite o p = true -> trusted o p blobs = false ->
  restore_file o p blobs = (f, false) -> f = FReg (concat blobs).
Proof.
  intros Hso Htr. unfold restore_file. cbv zeta. rewrite Hso. cbn [negb].
  destruct (verify o p blobs) as [[ms sm]|] eqn:Ev.
  - destruct (verify_some _ _ _ _ _ Htr Ev) as [d [hl [rd [me [-> [Hvl Hhl]]]]]].
    destruct (vloop_ok _ _ _ _ _ _ Hvl) as [Hvm [Hlen Hsm]].
    destruct (needs_restore (Some (ms, sm))) eqn:En; cbn [negb].
    + (* restore needed: the old file is reused, it has a single link *)
      destruct Hhl as [-> | Hhl]; [|discriminate].
      destruct (any_unmatched (Some (ms, sm)) blobs 0 false) eqn:Eu; cbn [negb].
      * (* some blobs are written *)
        cbn [create_file]. intros H. inversion H; subst f. f_equal.
        rewrite write_blobs_wb. cbn [ms_of skipn].
        set (dd := ensure_size d (total blobs) false).
        rewrite wb_ok0; [reflexivity|].
        change dd with (skipn 0 dd). apply (okp_vm d dd blobs ms 0 Hvm).
        -- unfold dd. rewrite ensure_size_len. reflexivity.
        -- intros n H1 H2. unfold dd in *. rewrite ensure_size_len in H2. apply ensure_size_agree; assumption.
      * (* every blob matches, only the size is wrong *)
        cbn [create_file]. intros H. inversion H; subst f. f_equal.
        pose proof (no_unmatched_allm _ _ _ Eu) as Ha. cbn [ms_of skipn] in Ha.
        pose proof (allm_concat d blobs ms 0 Hvm Ha) as Hc. cbn [skipn] in Hc.
        assert (Hle : total blobs <= length d).
        { apply (f_equal (@length N)) in Hc. rewrite firstn_length in Hc. fold (total blobs) in Hc. lia. }
        unfold ensure_size, pad. destruct (Nat.ltb (total blobs) (length d)) eqn:El; [exact Hc|].
        apply Nat.ltb_ge in El. replace (total blobs - length d) with 0 by lia. cbn [zeros repeat]. rewrite app_nil_r.
        rewrite <- Hc. symmetry. apply firstn_all2. lia.
    + (* nothing to do: the old content is already the snapshot content *)
      intros H. inversion H; subst f. cbn [state_of]. f_equal.
      destruct (needs_restore_false _ _ En) as [-> He].
      pose proof (all_true_allm blobs ms He Hlen) as Ha.
      pose proof (allm_concat d blobs ms 0 Hvm Ha) as Hc. cbn [skipn] in Hc.
      specialize (Hsm eq_refl). apply Nat.eqb_eq in Hsm. rewrite <- Hc, Hsm. symmetry. apply firstn_all.
  - (* no reusable state: every blob is written *)
    cbv beta iota. cbn [needs_restore negb]. rewrite any_unmatched_none.
    destruct blobs as [|b0 r0].
    + cbn [negb]. destruct (create_file o p (total []) false) as [dd|] eqn:Ec; [|discriminate].
      intros H. inversion H; subst f. f_equal. apply create_file_spec in Ec. subst dd.
      pose proof (ensure_size_len (old_data p) (total [])) as Hl.
      change (total []) with 0 in Hl at 2. apply length_zero_iff_nil in Hl. rewrite Hl. reflexivity.
    + cbn [negb].
      remember (b0 :: r0) as blobs eqn:Eblobs.
      set (sp := andb (o_sparse o) (orb (any_unmatched None blobs 0 true) (Nat.eqb (length blobs) 1))).
      destruct (create_file o p (total blobs) sp) as [dd|] eqn:Ec; [|discriminate].
      intros H. inversion H; subst f. f_equal. apply create_file_spec in Ec.
      rewrite write_blobs_wb. cbn [ms_of]. rewrite skipn_nil.
      rewrite wb_ok0; [reflexivity|].
      destruct sp.
      * rewrite Ec, ensure_size_sparse. apply okp_zeros.
      * apply okp_any. rewrite Ec. apply ensure_size_len.
Qed.

(* non-vacuity / regression shape of the repaired F-C19: unreadable file, not root, sparse *)
Example c19_nonvacuous_unreadable_sparse :
  restore_file (mkO OwAlways true true false false)
               (PReg (rep 12 9%N) false false false) [(rep 6 0%N ++ [1%N; 2%N])%list]
  = (FReg (rep 6 0%N ++ [1%N; 2%N])%list, false).
Proof. vm_compute. reflexivity. Qed.

Example c19_nonvacuous_reuse :
  restore_file (mkO OwIfChanged true true false true)
               (PReg [1;1;7;3;3;5;5]%N false true false) [[1;1;1]%N; [3;3]%N]
  = (FReg [1;1;1;3;3]%N, false).
Proof. vm_compute. reflexivity. Qed.

(* the documented if-changed shortcut: equal size and mtime => the file is not touched *)
Lemma trusted_untouched o p blobs : trusted o p blobs = true -> restore_file o p blobs = (state_of p, false).
Proof.
  intros Ht. unfold trusted in Ht. destruct (o_ow o) eqn:Eo; try discriminate.
  destruct p as [|d hl rd me| |]; try discriminate.
  apply andb_true_iff in Ht as [Ht Hs]. apply andb_true_iff in Ht as [Hr Hm].
  unfold restore_file, should_overwrite, verify. rewrite Eo, Hr, Hm, Hs. reflexivity.
Qed.

(* the model's own outcome always satisfies the oracle, i.e. the property *)
Theorem model_satisfies_property o p blobs :
  property o p blobs (fst (restore_file o p blobs)) (snd (restore_file o p blobs)) true.
Proof.
  unfold property. split; [reflexivity|]. split; [|split].
  - intros H. rewrite (skip_untouched _ _ _ H). reflexivity.
  - intros _ H. rewrite (trusted_untouched _ _ _ H). reflexivity.
  - intros H1 H2 H3. destruct (restore_file o p blobs) as [f e] eqn:E. cbn [fst snd] in *. subst e.
    eapply restore_exact; eauto.
Qed.

(* regression shape of the repaired F-C19b: second hard link, partly matching content *)
Example c19_nonvacuous_hardlinked :
  restore_file (mkO OwAlways true false false true)
               (PReg [1;1;1;9;1;1;1;1]%N true true false) [[1;1;1;0]%N; [1;1;1;1]%N]
  = (FReg [1;1;1;0;1;1;1;1]%N, false).
Proof. vm_compute. reflexivity. Qed.

(* a symlink in the way that points to an older version of the file: its destination is never consulted *)
Example c19_nonvacuous_symlink_to_old_version :
  restore_file (mkO OwIfChanged true false false true)
               (PLink (Some [1;1;1;9;9]%N)) [[1;1;1]%N; [3;3]%N]
  = (FReg [1;1;1;3;3]%N, false).
Proof. vm_compute. reflexivity. Qed.
