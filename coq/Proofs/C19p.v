(* C19 proofs. *)
From Restic Require Import Base.Prelude Gen.ParamsC19 Model.C19m.
Import C19m.

Lemma data_eqb_spec a b : data_eqb a b = true <-> a = b.
Proof.
  revert b; induction a as [|x a IH]; intros [|y b]; cbn [data_eqb]; split; intro H;
    try reflexivity; try discriminate.
  - apply andb_true_iff in H as [H1 H2]. apply N.eqb_eq in H1. apply IH in H2. subst; reflexivity.
  - inversion H; subst. apply andb_true_iff; split; [apply N.eqb_refl | apply IH; reflexivity].
Qed.

Lemma fstate_eqb_spec a b : fstate_eqb a b = true <-> a = b.
Proof.
  destruct a, b; cbn [fstate_eqb]; split; intro H; try discriminate; try reflexivity.
  - apply data_eqb_spec in H; subst; reflexivity.
  - inversion H; apply data_eqb_spec; reflexivity.
Qed.

(* with if-newer / never an existing destination is left exactly as it is when the mode says so *)
Lemma skip_untouched o p blobs : should_overwrite o p = false -> restore_file o p blobs = (state_of p, false).
Proof. intros H. unfold restore_file. rewrite H. reflexivity. Qed.

Lemma should_overwrite_spec o p :
  should_overwrite o p = false <->
  exists_pre p = true /\ (o_ow o = OwNever \/ (o_ow o = OwIfNewer /\ o_newer o = false)).
Proof.
  unfold should_overwrite. destruct (o_ow o), (exists_pre p), (o_newer o); cbn; split; intro H;
    try discriminate; try reflexivity; try (split; [reflexivity|]; auto; fail).
  all: try (destruct H as [H1 [H2 | [H2 H3]]]; discriminate).
Qed.

(* the oracle means the property *)
Definition property (o : opts) (p : pre) (blobs : list data) (final : fstate) (err intact : bool) : Prop :=
  intact = true /\
  (should_overwrite o p = false -> final = state_of p) /\
  (should_overwrite o p = true -> trusted o p blobs = true -> final = state_of p) /\
  (should_overwrite o p = true -> trusted o p blobs = false -> err = false -> final = FReg (concat blobs)).

Lemma check_C19_iff c :
  check_C19 c = true <-> property (c_opts c) (c_pre c) (c_blobs c) (c_final c) (c_err c) (c_other_intact c).
Proof.
  unfold check_C19, property, oracle_code.
  destruct (c_other_intact c); cbn [negb].
  2: { split; [discriminate | intros [H _]; discriminate]. }
  destruct (should_overwrite (c_opts c) (c_pre c)); cbn [negb].
  - destruct (trusted (c_opts c) (c_pre c) (c_blobs c)).
    + destruct (fstate_eqb (c_final c) (state_of (c_pre c))) eqn:E.
      * apply fstate_eqb_spec in E. split; [intros _; repeat split; auto; discriminate | reflexivity].
      * split; [discriminate|]. intros [_ [_ [H _]]]. specialize (H eq_refl eq_refl).
        apply fstate_eqb_spec in H. congruence.
    + destruct (c_err c).
      * split; [intros _; repeat split; auto; discriminate | reflexivity].
      * destruct (fstate_eqb (c_final c) (FReg (concat (c_blobs c)))) eqn:E.
        -- apply fstate_eqb_spec in E. split; [intros _; repeat split; auto; discriminate | reflexivity].
        -- split; [discriminate|]. intros [_ [_ [_ H]]]. specialize (H eq_refl eq_refl eq_refl).
           apply fstate_eqb_spec in H. congruence.
  - destruct (fstate_eqb (c_final c) (state_of (c_pre c))) eqn:E.
    + apply fstate_eqb_spec in E. split; [intros _; repeat split; auto; discriminate | reflexivity].
    + split; [discriminate|]. intros [_ [H _]]. specialize (H eq_refl).
      apply fstate_eqb_spec in H. congruence.
Qed.

(* F-C19b: the faithful model violates the property for a pre-existing file with a second hard link whose
   content partly matches: matching blobs are skipped although createFile starts from an empty file *)
Lemma hardlinked_reuse_refuted :
  exists o p blobs d, restore_file o p blobs = (FReg d, false) /\ should_overwrite o p = true /\
                      trusted o p blobs = false /\ d <> concat blobs.
Proof.
  exists (mkO OwAlways true false false true),
         (PReg [1;1;1;9;1;1;1;1]%N true true false), [[1;1;1;0]%N; [1;1;1;1]%N], [1;1;1;0;0;0;0;0]%N.
  vm_compute. repeat split; discriminate.
Qed.

(* non-vacuity / regression shape of the repaired F-C19: unreadable file, not root, sparse *)
Example c19_nonvacuous_unreadable_sparse :
  restore_file (mkO OwAlways true true false false)
               (PReg (rep 12 9%N) false false false) [(rep 6 0%N ++ [1%N; 2%N])%list]
  = (FReg (rep 6 0%N ++ [1%N; 2%N])%list, false).
Proof. vm_compute. reflexivity. Qed.

Example c19_nonvacuous_reuse :
  restore_file (mkO OwIfChanged true true false true)
               (PReg [1;1;7;3;3;5;5]%N false true false) [[1;1;1]%N; [3;3]%N]
  = (FReg [1;1;1;3;3]%N, false).
Proof. vm_compute. reflexivity. Qed.
