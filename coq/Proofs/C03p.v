From Restic Require Import Base.Prelude Model.C03m.
Import C03m.
Open Scope N_scope.

Lemma inl_spec p l : inl p l = true <-> In p l.
Proof.
  unfold inl. rewrite existsb_exists. split.
  - intros [y [Hy He]]. apply N.eqb_eq in He; subst; exact Hy.
  - intros H; exists p; split; [exact H | apply N.eqb_refl].
Qed.

Lemma flat_map_nil {A B} (f : A -> list B) l : flat_map f l = [] <-> forall x, In x l -> f x = [].
Proof.
  induction l as [|a l IH]; cbn [flat_map].
  - split; [intros _ x [] | reflexivity].
  - split.
    + intros H. apply app_eq_nil in H as [H1 H2]. intros x [<-|Hx]; [exact H1 | apply IH; assumption].
    + intros H. rewrite (H a (or_introl eq_refl)). cbn [app]. apply IH. intros x Hx; apply H; right; exact Hx.
Qed.

Lemma existsb_false {A} (f : A -> bool) l : existsb f l = false <-> forall x, In x l -> f x = false.
Proof.
  induction l as [|a l IH]; cbn [existsb].
  - split; [intros _ x [] | reflexivity].
  - rewrite orb_false_iff, IH. split.
    + intros [H1 H2] x [<-|Hx]; [exact H1 | apply H2; exact Hx].
    + intros H; split; [apply H; left; reflexivity | intros x Hx; apply H; right; exact Hx].
Qed.

Lemma find_pack_In l p k : find_pack l p = Some k -> In k l /\ pk_id k = p.
Proof.
  induction l as [|a l IH]; cbn [find_pack]; [discriminate|].
  destruct (pk_id a =? p) eqn:He.
  - intros H; inversion H; subst. apply N.eqb_eq in He. split; [left; reflexivity | exact He].
  - intros H. destruct (IH H) as [H1 H2]. split; [right; exact H1 | exact H2].
Qed.

Lemma mem_packs_In R t k : In k (mem_packs R t) -> In k (r_packs R).
Proof.
  unfold mem_packs. intros H. apply in_flat_map in H as [f [_ H]].
  destruct (is_uintact (ust (t_idx t) (ix_id f))); [|destruct H].
  apply in_flat_map in H as [p [_ H]]. destruct (find_pack (r_packs R) p) as [k'|] eqn:Hf; [|destruct H].
  destruct H as [<-|[]]. apply find_pack_In in Hf. tauto.
Qed.

Lemma loadable_in_index R t h : loadable R t h = true -> in_index R t h = true.
Proof.
  unfold loadable, in_index. rewrite !existsb_exists. intros [k [Hk Hc]].
  apply andb_true_iff in Hc as [Hc _]. exists k; auto.
Qed.

Lemma loadable_sound R t h :
  loadable R t h = true <->
  exists k, In k (mem_packs R t) /\ In h (pk_blobs k) /\ copy_ok (pst (t_packs t) (pk_id k)) h = true.
Proof.
  unfold loadable. rewrite existsb_exists. split.
  - intros [k [Hk Hc]]. apply andb_true_iff in Hc as [H1 H2]. apply inl_spec in H1. exists k; auto.
  - intros [k [Hk [H1 H2]]]. exists k. split; [exact Hk|]. apply andb_true_iff. split; [apply inl_spec; exact H1 | exact H2].
Qed.

Lemma index_errs_nil R t :
  index_errs R t = [] <-> existsb (fun f => is_ubad (ust (t_idx t) (ix_id f))) (r_idx R) = false.
Proof.
  unfold index_errs. rewrite flat_map_nil, existsb_false. split; intros H f Hf; specialize (H f Hf).
  - destruct (is_ubad (ust (t_idx t) (ix_id f))); [discriminate | reflexivity].
  - rewrite H; reflexivity.
Qed.

(* a pack known to the index passes the Packs and ReadPacks stages iff it is intact *)
Lemma pack_stage_intact k s :
  wf_pstate k s = true ->
  (match s with PGone => [EMissing (pk_id k)] | PBad sz _ _ => if sz =? pk_size k then [] else [ESize (pk_id k)] | PIntact => [] end = []
   /\ pack_data_bad k s = false) <-> pintact s = true.
Proof.
  intros Hw. destruct s as [| |sz d ok]; cbn [pintact pack_data_bad wf_pstate] in *.
  - split; [reflexivity | split; reflexivity].
  - split; [intros [H _]; discriminate | discriminate].
  - split; [|discriminate]. intros [H1 H2]. exfalso.
    destruct (sz =? pk_size k) eqn:He; [|discriminate].
    apply orb_false_iff in H2 as [_ H2]. apply negb_false_iff in H2. subst ok.
    cbn [negb orb andb] in Hw. discriminate.
Qed.

Ltac exf H := let H' := fresh in pose proof (proj1 (existsb_false _ _) H) as H'; clear H; rename H' into H.

(* ---------- the model of check reports exactly when the property demands ---------- *)
Lemma check_nil_iff R t : wf_tamper R t = true -> (check R t = [] <-> must_report R t = false).
Proof.
  intros Hw. unfold check, must_report.
  destruct (t_open_bad t); [cbn; split; discriminate|]. cbn [orb].
  destruct (index_errs R t) as [|e es] eqn:Hi.
  - apply index_errs_nil in Hi. rewrite Hi. cbn [orb].
    assert (Hpk : packs_errs R t = [] /\ read_errs R t = [] <->
                  existsb (fun k => negb (pintact (pst (t_packs t) (pk_id k)))) (mem_packs R t) = false).
    { unfold packs_errs, read_errs. rewrite !flat_map_nil, existsb_false. split.
      - intros [H1 H2] k Hk. apply negb_false_iff.
        apply (pack_stage_intact k (pst (t_packs t) (pk_id k))).
        + unfold wf_tamper in Hw. rewrite forallb_forall in Hw. apply Hw. eapply mem_packs_In; exact Hk.
        + split; [apply H1; exact Hk|]. specialize (H2 k Hk).
          destruct (pack_data_bad k (pst (t_packs t) (pk_id k))); [discriminate | reflexivity].
      - intros H. split; intros k Hk; specialize (H k Hk); apply negb_false_iff in H;
          destruct (pst (t_packs t) (pk_id k)); try discriminate; reflexivity. }
    assert (Hst : forall (Hall : existsb (fun k => negb (pintact (pst (t_packs t) (pk_id k)))) (mem_packs R t) = false),
              structure_errs R t = [] <->
              existsb (fun s => is_ubad (ust (t_snaps t) (sn_id s))) (r_snaps R) = false /\
              existsb (fun s => is_uintact (ust (t_snaps t) (sn_id s)) && negb (forallb (in_index R t) (sn_trees s ++ sn_data s))) (r_snaps R) = false).
    { intros Hall. unfold structure_errs. rewrite flat_map_nil, !existsb_false.
      assert (Hl : forall h, in_index R t h = true -> loadable R t h = true).
      { intros h Hh. unfold in_index in Hh. apply existsb_exists in Hh as [k [Hk Hh]].
        apply loadable_sound. exists k. split; [exact Hk|]. split; [apply inl_spec; exact Hh|].
        rewrite existsb_false in Hall. specialize (Hall k Hk). apply negb_false_iff in Hall.
        destruct (pst (t_packs t) (pk_id k)); try discriminate; reflexivity. }
      split.
      - intros H. split; intros s Hs; specialize (H s Hs); unfold snap_errs in H;
          destruct (ust (t_snaps t) (sn_id s)); cbn [is_ubad is_uintact andb]; try reflexivity; try discriminate.
        apply negb_false_iff, forallb_forall. intros h Hh. apply app_eq_nil in H as [H1 H2].
        rewrite flat_map_nil in H1, H2. apply in_app_iff in Hh as [Hh|Hh].
        + specialize (H1 h Hh). destruct (loadable R t h) eqn:Hld; [|discriminate]. apply loadable_in_index; exact Hld.
        + specialize (H2 h Hh). destruct (in_index R t h); [reflexivity | discriminate].
      - intros [H1 H2] s Hs. specialize (H1 s Hs). specialize (H2 s Hs). unfold snap_errs.
        destruct (ust (t_snaps t) (sn_id s)); cbn [is_ubad is_uintact andb] in *; try reflexivity; try discriminate.
        apply negb_false_iff in H2. rewrite forallb_forall in H2.
        assert (Ha : flat_map (fun h => if loadable R t h then [] else [ETree (sn_id s) h]) (sn_trees s) = []).
        { apply flat_map_nil. intros h Hh. rewrite Hl; [reflexivity|]. apply H2, in_app_iff; left; exact Hh. }
        assert (Hb : flat_map (fun h => if in_index R t h then [] else [ENotInIndex (sn_id s) h]) (sn_data s) = []).
        { apply flat_map_nil. intros h Hh. rewrite H2; [reflexivity|]. apply in_app_iff; right; exact Hh. }
        rewrite Ha, Hb. reflexivity. }
    split.
    + intros H. apply app_eq_nil in H as [H1 H]. apply app_eq_nil in H as [H2 H3].
      assert (Hall := proj1 Hpk (conj H1 H3)). rewrite Hall. cbn [orb].
      destruct (proj1 (Hst Hall) H2) as [Ha Hb]. rewrite Ha, Hb. reflexivity.
    + intros H. apply orb_false_iff in H as [H Hb]. apply orb_false_iff in H as [Hall Ha].
      destruct (proj2 Hpk Hall) as [H1 H3]. rewrite H1, H3, (proj2 (Hst Hall) (conj Ha Hb)). reflexivity.
  - assert (Hne : existsb (fun f => is_ubad (ust (t_idx t) (ix_id f))) (r_idx R) = true).
    { destruct (existsb (fun f => is_ubad (ust (t_idx t) (ix_id f))) (r_idx R)) eqn:He; [reflexivity|].
      apply index_errs_nil in He. congruence. }
    rewrite Hne. cbn [orb]. split; discriminate.
Qed.

(* Whatever was changed: if check --read-data finds nothing, every snapshot that is still listed is
   intact and each blob it needs has an indexed copy in a completely intact pack. *)
Lemma clean_implies_intact R t :
  wf_tamper R t = true -> check R t = [] ->
  t_open_bad t = false /\
  forall s, In s (r_snaps R) -> ust (t_snaps t) (sn_id s) <> UGone ->
    ust (t_snaps t) (sn_id s) = UIntact /\
    forall h, In h (sn_trees s ++ sn_data s) ->
      exists k, In k (mem_packs R t) /\ In h (pk_blobs k) /\ pst (t_packs t) (pk_id k) = PIntact.
Proof.
  intros Hw Hc. apply (check_nil_iff R t Hw) in Hc. unfold must_report in Hc.
  apply orb_false_iff in Hc as [Hc H5]. apply orb_false_iff in Hc as [Hc H4].
  apply orb_false_iff in Hc as [Hc H3]. apply orb_false_iff in Hc as [H1 H2].
  split; [exact H1|]. intros s Hs Hng.
  exf H4. exf H5. exf H3.
  specialize (H4 s Hs). specialize (H5 s Hs). cbn beta in H4, H5.
  revert H4 H5 Hng; destruct (ust (t_snaps t) (sn_id s)) eqn:Hu; intros H4 H5 Hng; cbn [is_ubad is_uintact andb] in *; try discriminate; try congruence.
  split; [reflexivity|]. intros h Hh. apply negb_false_iff in H5. rewrite forallb_forall in H5.
  specialize (H5 h Hh). unfold in_index in H5. apply existsb_exists in H5 as [k [Hk Hin]].
  exists k. split; [exact Hk|]. split; [apply inl_spec; exact Hin|].
  specialize (H3 k Hk). cbn beta in H3. apply negb_false_iff in H3. destruct (pst (t_packs t) (pk_id k)); try discriminate; reflexivity.
Qed.

(* direct forms: each kind of damage that a listed snapshot depends on makes check fail *)
Lemma tamper_detected R t :
  wf_tamper R t = true ->
  ( t_open_bad t = true
    \/ (exists f, In f (r_idx R) /\ ust (t_idx t) (ix_id f) = UBad)
    \/ (exists k, In k (mem_packs R t) /\ pst (t_packs t) (pk_id k) <> PIntact)
    \/ (exists s, In s (r_snaps R) /\ ust (t_snaps t) (sn_id s) = UBad)
    \/ (exists s h, In s (r_snaps R) /\ ust (t_snaps t) (sn_id s) = UIntact /\ In h (sn_trees s ++ sn_data s) /\
                    in_index R t h = false) ) ->
  check R t <> [].
Proof.
  intros Hw H Hc. apply (check_nil_iff R t Hw) in Hc. unfold must_report in Hc.
  apply orb_false_iff in Hc as [Hc H5]. apply orb_false_iff in Hc as [Hc H4].
  apply orb_false_iff in Hc as [Hc H3]. apply orb_false_iff in Hc as [H1 H2].
  exf H2. exf H3.
  exf H4. exf H5.
  destruct H as [H|[[f [Hf Hu]]|[[k [Hk Hp]]|[[s [Hs Hu]]|[s [h [Hs [Hu [Hh Hi]]]]]]]]].
  - congruence.
  - specialize (H2 f Hf). cbn beta in H2. rewrite Hu in H2. discriminate.
  - specialize (H3 k Hk). cbn beta in H3. apply negb_false_iff in H3. destruct (pst (t_packs t) (pk_id k)); try discriminate. apply Hp; reflexivity.
  - specialize (H4 s Hs). cbn beta in H4. rewrite Hu in H4. discriminate.
  - specialize (H5 s Hs). cbn beta in H5. rewrite Hu in H5. cbn [is_uintact andb] in H5. apply negb_false_iff in H5.
    rewrite forallb_forall in H5. specialize (H5 h Hh). congruence.
Qed.

(* restore succeeds only if every needed blob has a readable, unchanged copy *)
Lemma restore_ok_sound R t s :
  restore_ok R t s = true ->
  t_open_bad t = false /\ ust (t_snaps t) (sn_id s) = UIntact /\
  forall h, In h (sn_trees s ++ sn_data s) ->
    exists k, In k (mem_packs R t) /\ In h (pk_blobs k) /\ copy_ok (pst (t_packs t) (pk_id k)) h = true.
Proof.
  unfold restore_ok. rewrite !andb_true_iff. intros [[[H1 H2] H3] H4].
  apply negb_true_iff in H1. split; [exact H1|]. split.
  - destruct (ust (t_snaps t) (sn_id s)); try discriminate; reflexivity.
  - intros h Hh. rewrite forallb_forall in H4. apply loadable_sound, H4, Hh.
Qed.

(* ---------- LoadBlob never delivers bytes whose hash is not the requested ID ---------- *)
Lemma load_blob_verified (H : bytes -> N) open_ unz h cands b :
  load_blob H open_ unz h cands = Some b -> H b = h.
Proof.
  induction cands as [|c r IH]; cbn [load_blob]; [discriminate|].
  destruct (try_copy H open_ unz h c) as [b'|] eqn:Ht; [|exact IH].
  intros Heq; inversion Heq; subst b'. unfold try_copy in Ht.
  destruct (fst c) as [ct|]; [|discriminate]. destruct (open_ ct) as [pt|]; [|discriminate].
  destruct (if snd c then unz pt else Some pt) as [b0|]; [|discriminate].
  destruct (H b0 =? h) eqn:He; [|discriminate]. inversion Ht; subst. apply N.eqb_eq; exact He.
Qed.

Lemma no_wrong_plaintext (H : bytes -> N) open_ unz orig cands b :
  (forall x, H x = H orig -> x = orig) ->     (* no second preimage of the original's ID *)
  load_blob H open_ unz (H orig) cands = Some b -> b = orig.
Proof. intros Hinj Hl. apply Hinj. eapply load_blob_verified; exact Hl. Qed.

(* a candidate whose stored bytes are intact is delivered (so an intact duplicate is used) *)
Lemma load_blob_uses_intact (H : bytes -> N) (open_ unz : bytes -> option bytes) h cands (ct pt : bytes) (z : bool) :
  In (Some ct, z) cands -> open_ ct = Some pt ->
  (if z then unz pt else Some pt) <> None ->
  (forall b, (if z then unz pt else Some pt) = Some b -> H b = h) ->
  load_blob H open_ unz h cands <> None.
Proof.
  induction cands as [|c r IH]; intros Hin Ho Hz Hh; [destruct Hin|].
  cbn [load_blob]. destruct (try_copy H open_ unz h c) as [b'|] eqn:Ht; [discriminate|].
  destruct Hin as [->|Hin]; [|apply IH; assumption].
  exfalso. unfold try_copy in Ht. cbn [fst snd] in Ht. rewrite Ho in Ht.
  destruct (if z then unz pt else Some pt) as [b0|] eqn:Hb; [|apply Hz; reflexivity].
  rewrite (Hh b0 eq_refl), N.eqb_refl in Ht. discriminate.
Qed.

(* ---------- oracle ---------- *)
Definition C03_holds (c : case) : Prop :=
  (wf_tamper (c_repo c) (c_t c) = true -> must_report (c_repo c) (c_t c) = true -> c_check_failed c = true) /\
  (forall x, In x (c_loads c) -> snd x <> 2) /\
  (forall x, In x (c_restores c) -> fst (snd x) = true -> snd (snd x) = true) /\
  (forall x, In x (c_reads c) -> snd x <> 2).

Lemma check_C03_iff c : check_C03 c = true <-> C03_holds c.
Proof.
  unfold check_C03, C03_holds, clause_reported, clause_no_wrong_bytes.
  rewrite !andb_true_iff, !forallb_forall. split.
  - intros [H1 [[H2 H3] H4]]. split; [|split; [|split]].
    + intros Hw Hm. rewrite Hw, Hm in H1. exact H1.
    + intros x Hx. specialize (H2 x Hx). apply negb_true_iff, N.eqb_neq in H2. exact H2.
    + intros x Hx Hf. specialize (H3 x Hx). rewrite Hf in H3. exact H3.
    + intros x Hx. specialize (H4 x Hx). apply negb_true_iff, N.eqb_neq in H4. exact H4.
  - intros [H1 [H2 [H3 H4]]]. split; [|split; [split|]].
    + destruct (wf_tamper (c_repo c) (c_t c) && must_report (c_repo c) (c_t c)) eqn:Hc; [|reflexivity].
      apply andb_true_iff in Hc as [Hw Hm]. apply H1; assumption.
    + intros x Hx. apply negb_true_iff, N.eqb_neq, H2, Hx.
    + intros x Hx. specialize (H3 x Hx). destruct (fst (snd x)); [rewrite H3; reflexivity | reflexivity].
    + intros x Hx. apply negb_true_iff, N.eqb_neq, H4, Hx.
Qed.

(* a mounted-file read that the model lets succeed had a readable, unchanged copy of every blob it spans *)
Lemma read_ok_sound R t bs :
  read_ok R t bs = true ->
  t_open_bad t = false /\
  forall h, In h bs -> exists k, In k (mem_packs R t) /\ In h (pk_blobs k) /\ copy_ok (pst (t_packs t) (pk_id k)) h = true.
Proof.
  unfold read_ok. rewrite !andb_true_iff. intros [[H1 _] H3]. apply negb_true_iff in H1. split; [exact H1|].
  intros h Hh. rewrite forallb_forall in H3. apply loadable_sound, H3, Hh.
Qed.

Definition model_case (R : repo) (t : tamper) : case :=
  mk R t (match check R t with [] => false | _ => true end) (map cls (check R t))
     (map (fun h => (h, if negb (t_open_bad t) && match index_errs R t with [] => true | _ => false end && loadable R t h
                        then 0 else 1))
          (flat_map (fun s => sn_trees s ++ sn_data s) (r_snaps R)))
     (map (fun s => (sn_id s, (restore_ok R t s, restore_ok R t s))) (r_snaps R)) [].

Lemma model_satisfies_oracle R t : check_C03 (model_case R t) = true.
Proof.
  apply check_C03_iff. unfold C03_holds, model_case. cbn [c_repo c_t c_check_failed c_loads c_restores c_reads].
  split; [|split; [|split; [|intros x []]]].
  - intros Hw Hm. destruct (check R t) eqn:Hc; [|reflexivity].
    apply (check_nil_iff R t Hw) in Hc. congruence.
  - intros x Hx. apply in_map_iff in Hx as [h [<- _]]. cbn [snd].
    destruct (negb (t_open_bad t) && match index_errs R t with [] => true | _ :: _ => false end && loadable R t h); discriminate.
  - intros x Hx. apply in_map_iff in Hx as [s [<- _]]. cbn [fst snd]. tauto.
Qed.

(* ---------- non-vacuity ---------- *)
Definition ex_R : repo :=
  Rp [Pk 1 500 [10; 11]; Pk 2 300 [20]; Pk 3 400 [11; 30]]      (* blob 11 is stored twice *)
     [Ix 100 [1; 2]; Ix 101 [3]]
     [Sn 200 [20] [10; 11]; Sn 201 [20] [30]].

Example c03_nonvacuous :
  (* untouched: clean *)
  check ex_R (Tm [] [] [] false) = []
  (* one flipped byte in blob 10 of pack 1 *)
  /\ check ex_R (Tm [(1, PBad 500 [10] false)] [] [] false) = [EPackData 1]
  (* pack 1 truncated inside blob 11: size and data errors; blob 11 still loads from pack 3 *)
  /\ check ex_R (Tm [(1, PBad 450 [11] true)] [] [] false) = [ESize 1; EPackData 1]
  /\ loadable ex_R (Tm [(1, PBad 450 [11] true)] [] [] false) 11 = true
  /\ restore_ok ex_R (Tm [(1, PBad 450 [11] true)] [] [] false) (Sn 200 [20] [10; 11]) = true
  (* tree pack deleted *)
  /\ check ex_R (Tm [(2, PGone)] [] [] false) = [EMissing 2; ETree 200 20; ETree 201 20; EPackData 2]
  /\ restore_ok ex_R (Tm [(2, PGone)] [] [] false) (Sn 200 [20] [10; 11]) = false
  (* index 101 deleted: pack 3 orphaned, snapshot 201 loses blob 30 *)
  /\ check ex_R (Tm [] [(101, UGone)] [] false) = [ENotInIndex 201 30]
  (* index corrupted: early exit *)
  /\ check ex_R (Tm [(2, PGone)] [(101, UBad)] [] false) = [EIndex 101]
  /\ check ex_R (Tm [] [] [(200, UBad)] false) = [ESnap 200]
  (* appended garbage: only the size check notices *)
  /\ check ex_R (Tm [(3, PBad 407 [] true)] [] [] false) = [ESize 3]
  /\ wf_tamper ex_R (Tm [(1, PBad 450 [11] true); (3, PBad 407 [] true)] [] [] false) = true
  /\ check_case (model_case ex_R (Tm [(1, PBad 450 [11] true)] [(101, UGone)] [] false)) = 0%nat.
Proof. vm_compute. repeat split. Qed.
