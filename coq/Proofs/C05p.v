(* C05: proofs about the authenticated-encryption model (all Qed, no axioms). *)
From Restic Require Import Base.Prelude Gen.ParamsC05 Model.C05m.
From Coq Require Import ZifyBool ZifyNat ZifyN.
Ltac Zify.zify_post_hook ::= Z.div_mod_to_equations.
Import C05m.
Open Scope N_scope.

(* ---------- constants ---------- *)
Lemma iv_size_16 : iv_size = 16%nat. Proof. reflexivity. Qed.
Lemma mac_size_16 : mac_size = 16%nat. Proof. reflexivity. Qed.
Lemma extension_is_iv_plus_mac : (ParamsC05.extension = ParamsC05.iv_size + ParamsC05.mac_size)%Z.
Proof. reflexivity. Qed.
Lemma two128_pow : two128 = 2 ^ 128. Proof. reflexivity. Qed.

(* ---------- bit operations are the arithmetic they stand for ---------- *)
Lemma lo128_mod x : lo128 x = x mod two128.
Proof. unfold lo128. rewrite N.land_ones. rewrite two128_pow. reflexivity. Qed.

Lemma lo128_lt x : lo128 x < two128.
Proof. rewrite lo128_mod. apply N.mod_lt. discriminate. Qed.

Lemma land255 x : N.land x 255 = x mod 256.
Proof. change 255 with (N.ones 8). rewrite N.land_ones. reflexivity. Qed.

Lemma shiftr8 x : N.shiftr x 8 = x / 256.
Proof. rewrite N.shiftr_div_pow2. reflexivity. Qed.

Lemma red130_mod x : red130 x mod p1305 = x mod p1305.
Proof.
  unfold red130. rewrite N.land_ones, N.shiftr_div_pow2.
  set (M := 2 ^ 130). assert (HM : M = p1305 + 5) by reflexivity.
  assert (Hx : x = M * (x / M) + x mod M) by (apply N.div_mod; subst M; discriminate).
  set (q := x / M) in *. set (r := x mod M) in *.
  clearbody q r. rewrite Hx. rewrite HM.
  replace ((p1305 + 5) * q + r) with (r + 5 * q + q * p1305) by lia.
  rewrite N.mod_add by discriminate. reflexivity.
Qed.

(* ---------- little-endian codec ---------- *)
Lemma to_le_length n x : length (to_le n x) = n.
Proof. revert x; induction n as [|n IH]; intros x; cbn [to_le length]; [reflexivity | rewrite IH; reflexivity]. Qed.

Lemma le_num_to_le n x : le_num (to_le n x) = x mod 256 ^ N.of_nat n.
Proof.
  revert x; induction n as [|n IH]; intros x.
  - cbn [to_le le_num]. change (256 ^ N.of_nat 0) with 1. rewrite N.mod_1_r. reflexivity.
  - cbn [to_le le_num]. rewrite IH, land255, shiftr8.
    rewrite Nnat.Nat2N.inj_succ, N.pow_succ_r'.
    rewrite N.mod_mul_r by (try discriminate; apply N.pow_nonzero; discriminate).
    reflexivity.
Qed.

Lemma to_le16_inj a b : a < two128 -> b < two128 -> to_le 16 a = to_le 16 b -> a = b.
Proof.
  intros Ha Hb H. apply (f_equal le_num) in H. rewrite !le_num_to_le in H.
  change (256 ^ N.of_nat 16) with two128 in H.
  rewrite !N.mod_small in H by assumption. exact H.
Qed.

(* ---------- Poly1305: the loop with partial reduction is the textbook polynomial ---------- *)
Lemma poly_go_spec fuel r m a :
  poly_go fuel r m a mod p1305 = poly_spec_go fuel r m (a mod p1305) mod p1305.
Proof.
  revert m a; induction fuel as [|f IH]; intros m a; cbn [poly_go poly_spec_go].
  - rewrite N.mod_mod by discriminate. reflexivity.
  - destruct m as [|x m'].
    + rewrite N.mod_mod by discriminate. reflexivity.
    + rewrite IH. f_equal. f_equal. rewrite red130_mod.
      rewrite <- (N.mul_mod_idemp_l (a mod p1305 + _)) by discriminate.
      rewrite N.add_mod_idemp_l by discriminate.
      rewrite N.mul_mod_idemp_l by discriminate. reflexivity.
Qed.

Lemma poly_spec_go_lt fuel r m a : a < p1305 -> poly_spec_go fuel r m a < p1305.
Proof.
  revert m a; induction fuel as [|f IH]; intros m a Ha; cbn [poly_spec_go]; [exact Ha|].
  destruct m; [exact Ha|]. apply IH. apply N.mod_lt. discriminate.
Qed.

Lemma poly_is_poly_spec r m : poly r m = poly_spec r m.
Proof.
  unfold poly, poly_spec. rewrite poly_go_spec. rewrite (N.mod_small 0) by reflexivity.
  apply N.mod_small. apply poly_spec_go_lt. reflexivity.
Qed.

Lemma poly_go_r0 fuel m a : a = 0 -> poly_go fuel 0 m a = 0.
Proof.
  revert m a; induction fuel as [|f IH]; intros m a Ha; cbn [poly_go]; [exact Ha|].
  destruct m; [exact Ha|]. apply IH. rewrite N.mul_0_r. reflexivity.
Qed.

Lemma poly_r0 m : poly 0 m = 0.
Proof. unfold poly. rewrite poly_go_r0 by reflexivity. reflexivity. Qed.

Lemma poly_nil r : poly r [] = 0.
Proof. reflexivity. Qed.

(* ---------- key and nonce validity mean what the comments in crypto.go say ---------- *)
Lemma existsb_nonzero b : existsb nonzero b = true <-> exists x, In x b /\ x <> 0.
Proof.
  rewrite existsb_exists. split; intros [x [Hi Hx]]; exists x; split; try assumption.
  - unfold nonzero in Hx. apply negb_true_iff, N.eqb_neq in Hx. exact Hx.
  - unfold nonzero. apply negb_true_iff, N.eqb_neq. exact Hx.
Qed.

Lemma valid_key_spec k :
  valid_key k = true <->
  (exists x, In x (kE k) /\ x <> 0) /\ (exists x, In x (kK k) /\ x <> 0) /\ (exists x, In x (kR k) /\ x <> 0).
Proof.
  unfold valid_key, enc_valid, mac_valid. rewrite andb_true_iff, <- !existsb_nonzero.
  destruct (existsb nonzero (kK k)); intuition congruence.
Qed.

Lemma fold_lor_zero n a : fold_left N.lor n a = 0 <-> a = 0 /\ forall x, In x n -> x = 0.
Proof.
  revert a; induction n as [|y n IH]; intros a; cbn [fold_left].
  - split; [intros ->; split; [reflexivity | intros x []] | intros [-> _]; reflexivity].
  - rewrite IH. rewrite N.lor_eq_0_iff. split.
    + intros [[-> ->] H]. split; [reflexivity|]. intros x [<-|Hx]; [reflexivity | apply H; exact Hx].
    + intros [-> H]. split; [split; [reflexivity | apply H; left; reflexivity] | intros x Hx; apply H; right; exact Hx].
Qed.

Lemma valid_nonce_spec n : valid_nonce n = true <-> exists x, In x n /\ x <> 0.
Proof.
  unfold valid_nonce. rewrite N.ltb_lt. split.
  - intros H. destruct (existsb nonzero n) eqn:He.
    + apply existsb_nonzero in He. exact He.
    + exfalso. assert (fold_left N.lor n 0 = 0); [|lia].
      apply fold_lor_zero. split; [reflexivity|]. intros x Hx.
      destruct (N.eq_dec x 0) as [|Hn]; [assumption|].
      assert (existsb nonzero n = true) by (apply existsb_nonzero; exists x; split; assumption). congruence.
  - intros [x [Hi Hx]]. destruct (N.eq_dec (fold_left N.lor n 0) 0) as [H0|H0]; [|lia].
    apply fold_lor_zero in H0. destruct H0 as [_ H0]. elim Hx. apply H0. exact Hi.
Qed.

Lemma valid_nonce_zero n : valid_nonce (repeat 0 n) = false.
Proof.
  destruct (valid_nonce (repeat 0 n)) eqn:H; [|reflexivity].
  apply valid_nonce_spec in H. destruct H as [x [Hi Hx]]. apply repeat_spec in Hi. contradiction.
Qed.

(* ---------- generic theorems (any block function E) ---------- *)
Section Generic.
Variable E : bytes -> bytes -> bytes.

Lemma ctr_go_length f p ks c : length (ctr_go f p ks c) = length p.
Proof.
  revert ks c; induction p as [|b p IH]; intros ks c; cbn [ctr_go]; [reflexivity|].
  destruct ks as [|k ks]; [destruct (f (to_be 16 c)) as [|k ks]|]; cbn [length]; rewrite IH; reflexivity.
Qed.

Lemma lxor_twice b k : N.lxor (N.lxor b k) k = b.
Proof. rewrite N.lxor_assoc, N.lxor_nilpotent, N.lxor_0_r. reflexivity. Qed.

Lemma ctr_go_invol f p ks c : ctr_go f (ctr_go f p ks c) ks c = p.
Proof.
  revert ks c; induction p as [|b p IH]; intros ks c; cbn [ctr_go]; [reflexivity|].
  destruct ks as [|k ks].
  - destruct (f (to_be 16 c)) as [|k ks] eqn:Hf; cbn [ctr_go]; rewrite ?Hf, ?lxor_twice, IH; reflexivity.
  - cbn [ctr_go]. rewrite lxor_twice, IH. reflexivity.
Qed.

Lemma ctr_invol ek n p : ctr E ek n (ctr E ek n p) = p.
Proof. unfold ctr. apply ctr_go_invol. Qed.

Lemma ctr_length ek n p : length (ctr E ek n p) = length p.
Proof. unfold ctr. apply ctr_go_length. Qed.

Lemma mac_length k n m : length (mac E k n m) = 16%nat.
Proof. unfold mac. rewrite to_le_length. exact mac_size_16. Qed.

(* the guard of Seal: it panics exactly on an invalid key, additional data, a nonce of the wrong
   length or the all-zero nonce; otherwise it returns dst ++ ciphertext ++ tag *)
Lemma seal_guards k n dst p ad :
  seal E k n dst p ad = SPanic <->
  (valid_key k = false \/ ad <> [] \/ length n <> iv_size \/ valid_nonce n = false).
Proof.
  unfold seal.
  destruct (valid_key k); cbn [negb]; [|split; [intros _; left; reflexivity | reflexivity]].
  destruct ad as [|a ad]; cbn [length Nat.eqb negb]; [|split; [intros _; right; left; discriminate | reflexivity]].
  destruct (Nat.eqb (length n) iv_size) eqn:Hl; cbn [negb].
  2:{ apply Nat.eqb_neq in Hl. split; [intros _; right; right; left; exact Hl | reflexivity]. }
  apply Nat.eqb_eq in Hl.
  destruct (valid_nonce n); cbn [negb].
  - split; [discriminate|]. intros [H|[H|[H|H]]]; try discriminate; congruence.
  - split; [intros _; right; right; right; reflexivity | reflexivity].
Qed.

Lemma seal_ok k n dst p :
  valid_key k = true -> length n = iv_size -> valid_nonce n = true ->
  seal E k n dst p [] = SOk (dst ++ ctr E (kE k) n p ++ mac E k n (ctr E (kE k) n p)).
Proof.
  intros Hk Hl Hn. unfold seal. rewrite Hk, Hn, Hl, Nat.eqb_refl. reflexivity.
Qed.

Lemma seal_never_zero_nonce k dst p ad l : seal E k (repeat 0 l) dst p ad = SPanic.
Proof. apply seal_guards. right; right; right. apply valid_nonce_zero. Qed.

Lemma seal_never_invalid_key k n dst p ad : valid_key k = false -> seal E k n dst p ad = SPanic.
Proof. intros H. apply seal_guards. left; exact H. Qed.

Lemma seal_overhead k n dst p ad out :
  seal E k n dst p ad = SOk out -> length out = (length dst + length p + 16)%nat.
Proof.
  unfold seal. destruct (negb (valid_key k)); [discriminate|].
  destruct (negb (Nat.eqb (length ad) 0)); [discriminate|].
  destruct (negb (Nat.eqb (length n) iv_size)); [discriminate|].
  destruct (negb (valid_nonce n)); [discriminate|].
  intros H; inversion H; subst. rewrite !app_length, ctr_length, mac_length. lia.
Qed.

(* Open, spelled out *)
Lemma open_ok_iff k n dst ct x :
  open E k n dst ct = OOk x <->
  valid_key k = true /\ length n = iv_size /\ valid_nonce n = true /\ (16 <= length ct)%nat /\
  mac E k n (firstn (length ct - 16) ct) = skipn (length ct - 16) ct /\
  x = dst ++ ctr E (kE k) n (firstn (length ct - 16) ct).
Proof.
  unfold open. rewrite mac_size_16.
  destruct (valid_key k); cbn [negb]; [|split; [discriminate | intros [? _]; discriminate]].
  destruct (Nat.eqb (length n) iv_size) eqn:Hl; cbn [negb].
  2:{ apply Nat.eqb_neq in Hl. split; [discriminate | intros [_ [? _]]; contradiction]. }
  apply Nat.eqb_eq in Hl.
  destruct (valid_nonce n); cbn [negb]; [|split; [discriminate | intros [_ [_ [? _]]]; discriminate]].
  destruct (Nat.ltb (length ct) 16) eqn:Hs.
  { apply Nat.ltb_lt in Hs. split; [discriminate | intros [_ [_ [_ [? _]]]]; lia]. }
  apply Nat.ltb_ge in Hs.
  destruct (bytes_eqb (mac E k n (firstn (length ct - 16) ct)) (skipn (length ct - 16) ct)) eqn:Hm.
  - apply bytes_eqb_spec in Hm. split.
    + intros H; inversion H; subst. repeat split; assumption.
    + intros [_ [_ [_ [_ [_ ->]]]]]. reflexivity.
  - split; [discriminate|]. intros [_ [_ [_ [_ [Hm' _]]]]]. apply bytes_eqb_spec in Hm'. congruence.
Qed.

Lemma split_ct (c t : bytes) : length t = 16%nat ->
  firstn (length (c ++ t) - 16) (c ++ t) = c /\ skipn (length (c ++ t) - 16) (c ++ t) = t.
Proof.
  intros Ht. rewrite app_length, Ht. replace (length c + 16 - 16)%nat with (length c + 0)%nat by lia.
  rewrite firstn_app_2, skipn_app. cbn [firstn]. rewrite app_nil_r.
  replace (length c + 0 - length c)%nat with 0%nat by lia. cbn [skipn].
  rewrite skipn_all2 by lia. split; reflexivity.
Qed.

(* Open of an input of the shape ciphertext ++ 16-byte tag under a usable key and nonce *)
Lemma open_ct_tag k n dst c t :
  valid_key k = true -> length n = iv_size -> valid_nonce n = true -> length t = 16%nat ->
  open E k n dst (c ++ t) = if bytes_eqb (mac E k n c) t then OOk (dst ++ ctr E (kE k) n c) else OUnauth.
Proof.
  intros Hk Hl Hn Ht. unfold open. rewrite Hk, Hl, Nat.eqb_refl, Hn, mac_size_16. cbn [negb].
  destruct (split_ct c t Ht) as [H1 H2].
  assert (Hlen : Nat.ltb (length (c ++ t)) 16 = false) by (apply Nat.ltb_ge; rewrite app_length; lia).
  rewrite Hlen, H1, H2. reflexivity.
Qed.

(* 1. round trip: for every plaintext (every length), every valid key and nonce, every dst *)
Theorem open_seal k n dst dst' p out :
  seal E k n dst p [] = SOk out -> exists ct, out = dst ++ ct /\ open E k n dst' ct = OOk (dst' ++ p).
Proof.
  intros H.
  assert (Hg : seal E k n dst p [] <> SPanic) by congruence.
  rewrite seal_guards in Hg.
  destruct (valid_key k) eqn:Hk; [|elim Hg; left; reflexivity].
  destruct (valid_nonce n) eqn:Hn; [|elim Hg; right; right; right; reflexivity].
  destruct (Nat.eq_dec (length n) iv_size) as [Hl|Hl]; [|elim Hg; right; right; left; exact Hl].
  rewrite seal_ok in H by assumption. inversion H; subst; clear H.
  eexists; split; [reflexivity|].
  rewrite open_ct_tag by (try assumption; apply mac_length).
  rewrite bytes_eqb_refl, ctr_invol. reflexivity.
Qed.

(* 2. inputs shorter than the overhead, invalid keys, zero nonces are never opened *)
Theorem open_short k n dst ct : (length ct < 16)%nat -> forall x, open E k n dst ct <> OOk x.
Proof. intros H x Hx. apply open_ok_iff in Hx. lia. Qed.

Theorem open_bad_key k n dst ct : valid_key k = false -> open E k n dst ct = OErr.
Proof. intros H. unfold open. rewrite H. reflexivity. Qed.

Theorem open_zero_nonce k dst ct : valid_key k = true -> open E k (repeat 0 16) dst ct = OErr.
Proof. intros H. unfold open. rewrite H, valid_nonce_zero. reflexivity. Qed.

Theorem open_panics_iff k n dst ct : open E k n dst ct = OPanic <-> valid_key k = true /\ length n <> iv_size.
Proof.
  unfold open. destruct (valid_key k); cbn [negb]; [|split; [discriminate | intros [? _]; discriminate]].
  destruct (Nat.eqb (length n) iv_size) eqn:Hl; cbn [negb].
  - apply Nat.eqb_eq in Hl. split; [|intros [_ ?]; contradiction].
    destruct (negb (valid_nonce n)); [discriminate|]. destruct (Nat.ltb _ _); [discriminate|].
    destruct (bytes_eqb _ _); discriminate.
  - apply Nat.eqb_neq in Hl. split; [intros _; split; [reflexivity | exact Hl] | reflexivity].
Qed.

(* 3. any change of the tag is rejected (deterministically) *)
Theorem tag_flip_rejected k n dst c t' :
  valid_key k = true -> length n = iv_size -> valid_nonce n = true -> length t' = 16%nat ->
  t' <> mac E k n c -> open E k n dst (c ++ t') = OUnauth.
Proof.
  intros Hk Hl Hn Ht Hne. rewrite open_ct_tag by assumption.
  destruct (bytes_eqb (mac E k n c) t') eqn:Hm; [|reflexivity].
  apply bytes_eqb_spec in Hm. congruence.
Qed.

(* 4. two MACs are equal exactly when the two numbers (poly + s) agree modulo 2^128 *)
Lemma mac_eq_iff k n c k' n' c' :
  mac E k n c = mac E k' n' c' <->
  (poly (clamp (kR k)) c + mac_s E k n) mod two128 = (poly (clamp (kR k')) c' + mac_s E k' n') mod two128.
Proof.
  unfold mac. rewrite mac_size_16, <- !lo128_mod. split.
  - apply to_le16_inj; apply lo128_lt.
  - intros ->. reflexivity.
Qed.

Lemma mac_s_lt k n : mac_s E k n < two128.
Proof. unfold mac_s. apply lo128_lt. Qed.

(* the "collision" event for two ciphertexts under one Poly1305 key r: the polynomial values
   (already reduced modulo 2^130-5) agree in their low 128 bits *)
Definition poly_collision (r : bytes) (c c' : bytes) : Prop :=
  poly (clamp r) c mod two128 = poly (clamp r) c' mod two128.

(* 5. a changed / truncated / extended ciphertext under the original tag is accepted iff that event happens;
   nothing else (encryption key, nonce, AES) matters *)
Theorem ct_change_accepted_iff_collision k n dst c c' :
  valid_key k = true -> length n = iv_size -> valid_nonce n = true ->
  (open E k n dst (c' ++ mac E k n c) <> OUnauth <-> poly_collision (kR k) c c').
Proof.
  intros Hk Hl Hn. rewrite open_ct_tag by (try assumption; apply mac_length).
  unfold poly_collision.
  destruct (bytes_eqb (mac E k n c') (mac E k n c)) eqn:Hm.
  - apply bytes_eqb_spec in Hm. apply mac_eq_iff in Hm. split; [intros _|discriminate].
    pose proof (mac_s_lt k n). unfold two128 in *. lia.
  - split; [intros H; elim H; reflexivity|]. intros Hc. exfalso.
    assert (Hm' : mac E k n c' = mac E k n c).
    { apply mac_eq_iff. pose proof (mac_s_lt k n). unfold two128 in *. lia. }
    apply bytes_eqb_spec in Hm'. congruence.
Qed.

Corollary ct_flip_rejected_unless_collision k n dst c c' :
  valid_key k = true -> length n = iv_size -> valid_nonce n = true ->
  ~ poly_collision (kR k) c c' -> open E k n dst (c' ++ mac E k n c) = OUnauth.
Proof.
  intros Hk Hl Hn Hc.
  destruct (ct_change_accepted_iff_collision k n dst c c' Hk Hl Hn) as [H _].
  rewrite open_ct_tag in * by (try assumption; apply mac_length).
  destruct (bytes_eqb (mac E k n c') (mac E k n c)); [|reflexivity].
  elim Hc. apply H. discriminate.
Qed.

(* 6. a changed nonce is rejected when AES_K distinguishes the two nonces (AES_K is a permutation) *)
Theorem nonce_change_rejected k n n' dst c :
  valid_key k = true -> length n' = iv_size -> valid_nonce n' = true ->
  mac_s E k n' <> mac_s E k n ->
  open E k n' dst (c ++ mac E k n c) = OUnauth.
Proof.
  intros Hk Hl Hn Hs. rewrite open_ct_tag by (try assumption; apply mac_length).
  destruct (bytes_eqb (mac E k n' c) (mac E k n c)) eqn:Hm; [|reflexivity].
  apply bytes_eqb_spec in Hm. apply mac_eq_iff in Hm.
  pose proof (mac_s_lt k n). pose proof (mac_s_lt k n'). unfold two128 in *. exfalso. apply Hs. lia.
Qed.

(* le_num is injective on well-formed 16-byte blocks, so distinct AES outputs give distinct s *)
Definition wf_block (b : bytes) : Prop := length b = 16%nat /\ Forall (fun x => x < 256) b.

Lemma le_num_inj a : forall b, length a = length b -> Forall (fun x => x < 256) a -> Forall (fun x => x < 256) b ->
  le_num a = le_num b -> a = b.
Proof.
  induction a as [|x a IH]; intros [|y b] Hl Ha Hb H; try discriminate; [reflexivity|].
  cbn [le_num length] in *. inversion Ha as [|? ? Hx Ha']; inversion Hb as [|? ? Hy Hb']; subst.
  assert (x = y /\ le_num a = le_num b) as [-> Hrest] by lia.
  f_equal. apply IH; try assumption. lia.
Qed.

Lemma le_num_lt b : Forall (fun x => x < 256) b -> le_num b < 256 ^ N.of_nat (length b).
Proof.
  induction b as [|x b IH]; intros H; cbn [le_num length].
  - reflexivity.
  - inversion H as [|? ? Hx Hb]; subst. rewrite Nnat.Nat2N.inj_succ, N.pow_succ_r'. specialize (IH Hb). lia.
Qed.

Theorem nonce_flip_rejected k n n' dst c :
  valid_key k = true -> length n' = iv_size -> valid_nonce n' = true ->
  wf_block (E (kK k) n) -> wf_block (E (kK k) n') ->
  E (kK k) n' <> E (kK k) n ->   (* holds for n' <> n when E (kK k) is injective, as AES is *)
  open E k n' dst (c ++ mac E k n c) = OUnauth.
Proof.
  intros Hk Hl Hn [Hl1 Hw1] [Hl2 Hw2] Hne. apply nonce_change_rejected; try assumption.
  unfold mac_s. rewrite !lo128_mod. intros Heq. apply Hne.
  pose proof (le_num_lt _ Hw1) as B1. pose proof (le_num_lt _ Hw2) as B2.
  rewrite Hl1 in B1. rewrite Hl2 in B2. change (256 ^ N.of_nat 16) with two128 in *.
  rewrite !N.mod_small in Heq by assumption.
  apply le_num_inj; try assumption. congruence.
Qed.

(* 7. key swaps: another key opens the message only if its MAC agrees; the encryption key is not authenticated *)
Theorem key_swap_accepted_iff k k' n dst c :
  valid_key k' = true -> length n = iv_size -> valid_nonce n = true ->
  (open E k' n dst (c ++ mac E k n c) <> OUnauth <-> mac E k' n c = mac E k n c).
Proof.
  intros Hk Hl Hn. rewrite open_ct_tag by (try assumption; apply mac_length).
  destruct (bytes_eqb (mac E k' n c) (mac E k n c)) eqn:Hm.
  - apply bytes_eqb_spec in Hm. split; [intros _; exact Hm | discriminate].
  - split; [intros H; elim H; reflexivity|]. intros H. apply bytes_eqb_spec in H. congruence.
Qed.

Theorem enc_key_swap_accepted k e' n dst c :
  valid_key (mkkey e' (kK k) (kR k)) = true -> length n = iv_size -> valid_nonce n = true ->
  open E (mkkey e' (kK k) (kR k)) n dst (c ++ mac E k n c) = OOk (dst ++ ctr E e' n c).
Proof.
  intros Hk Hl Hn. rewrite open_ct_tag by (try assumption; apply mac_length).
  replace (mac E (mkkey e' (kK k) (kR k)) n c) with (mac E k n c) by reflexivity.
  rewrite bytes_eqb_refl. reflexivity.
Qed.

(* 8. a MAC key that passes MACKey.Valid but whose clamped r is zero authenticates nothing *)
Theorem degenerate_r_accepts_everything k n dst c c' :
  valid_key k = true -> length n = iv_size -> valid_nonce n = true -> clamp (kR k) = 0 ->
  open E k n dst (c' ++ mac E k n c) = OOk (dst ++ ctr E (kE k) n c').
Proof.
  intros Hk Hl Hn Hr. rewrite open_ct_tag by (try assumption; apply mac_length).
  assert (Hm : mac E k n c' = mac E k n c) by (unfold mac; rewrite Hr, !poly_r0; reflexivity).
  rewrite Hm, bytes_eqb_refl. reflexivity.
Qed.

End Generic.

(* ---------- the literal statement is refuted by three constructible events ---------- *)
Definition degenerate_key : key :=
  mkkey (repeat 1 32) (repeat 1 16) [0; 0; 0; 240; 3; 0; 0; 240; 3; 0; 0; 240; 3; 0; 0; 240].

Lemma degenerate_key_valid : valid_key degenerate_key = true /\ clamp (kR degenerate_key) = 0.
Proof. split; reflexivity. Qed.

Theorem forgery_rejection_refuted :
  exists k n c c', valid_key k = true /\ length n = iv_size /\ valid_nonce n = true /\ c' <> c /\
    forall E dst, open E k n dst (c' ++ mac E k n c) = OOk (dst ++ ctr E (kE k) n c').
Proof.
  exists degenerate_key, (repeat 1 16), [1], [2]. repeat split; try reflexivity; try discriminate.
  intros E dst. apply degenerate_r_accepts_everything; reflexivity.
Qed.

Theorem key_swap_rejection_refuted :
  exists k k' n c, valid_key k = true /\ valid_key k' = true /\ k' <> k /\ length n = iv_size /\ valid_nonce n = true /\
    forall E dst, open E k' n dst (c ++ mac E k n c) = OOk (dst ++ ctr E (kE k') n c).
Proof.
  exists (mkkey (repeat 1 32) (repeat 1 16) (repeat 1 16)), (mkkey (repeat 2 32) (repeat 1 16) (repeat 1 16)), (repeat 1 16), [7].
  repeat split; try reflexivity; try discriminate.
  intros E dst. apply (enc_key_swap_accepted E (mkkey (repeat 1 32) (repeat 1 16) (repeat 1 16)) (repeat 2 32)); reflexivity.
Qed.

(* ---------- KDF parameter validation ---------- *)
Lemma kdf_accepts_sound saltlen n r p :
  kdf_accepts saltlen n r p = true ->
  (saltlen = ParamsC05.salt_length /\ 1 < n /\ n mod 2 = 0 /\ Z.land n (n - 1) = 0 /\
   1 <= r /\ 1 <= p /\ r * p < 1073741824 /\ 128 * n * r <= max_int /\ 128 * r * p <= max_int)%Z.
Proof.
  unfold kdf_accepts, pow2, max_int. intros H.
  repeat (apply andb_true_iff in H; destruct H as [H ?]).
  repeat match goal with
  | [ X : negb _ = true |- _ ] => apply negb_true_iff in X
  | [ X : (_ || _) = false |- _ ] => apply orb_false_iff in X; destruct X
  end.
  repeat match goal with
  | [ X : negb _ = false |- _ ] => apply negb_false_iff in X
  end.
  assert (Hland : Z.land n (n - 1) = 0%Z) by (apply Z.eqb_eq; assumption).
  repeat split; try exact Hland; try lia.
  - assert (2147483647 / 128 / r >= n)%Z by lia.
    assert (Hr : (0 < r)%Z) by lia.
    pose proof (Z.mul_div_le (2147483647 / 128) r Hr). nia.
  - assert (2147483647 / 128 / p >= r)%Z by lia.
    assert (Hp : (0 < p)%Z) by lia.
    pose proof (Z.mul_div_le (2147483647 / 128) p Hp). nia.
Qed.

Lemma key_of_derived_split e k r : length e = 32%nat -> length k = 16%nat -> length r = 16%nat ->
  key_of_derived (e ++ k ++ r) = mkkey e k r.
Proof.
  intros He Hk Hr. unfold key_of_derived.
  change aes_key_size with 32%nat. change mac_key_size_k with 16%nat. change mac_key_size_r with 16%nat.
  f_equal.
  - rewrite <- He. rewrite firstn_app, Nat.sub_diag, firstn_all. cbn [firstn]. apply app_nil_r.
  - rewrite <- He at 1. rewrite skipn_app, Nat.sub_diag, skipn_all. cbn [skipn app].
    rewrite <- Hk. rewrite firstn_app, Nat.sub_diag, firstn_all. cbn [firstn]. apply app_nil_r.
  - rewrite app_assoc. replace (32 + 16)%nat with (length (e ++ k)) by (rewrite app_length; lia).
    rewrite skipn_app, Nat.sub_diag, skipn_all. cbn [skipn app].
    rewrite <- Hr. apply firstn_all.
Qed.

(* ---------- the oracle means the property clauses ---------- *)
Lemma key_eqb_spec a b : key_eqb a b = true <-> a = b.
Proof.
  unfold key_eqb. rewrite !andb_true_iff, !bytes_eqb_spec. destruct a, b; cbn [kE kK kR].
  split; [intros [[-> ->] ->]; reflexivity | intros H; inversion H; auto].
Qed.

Lemma sres_eqb_spec a b : sres_eqb a b = true <-> a = b.
Proof.
  destruct a, b; cbn [sres_eqb]; rewrite ?bytes_eqb_spec; split; intros H; try discriminate; try reflexivity; congruence.
Qed.

Lemma ores_eqb_spec a b : ores_eqb a b = true <-> a = b.
Proof.
  destruct a, b; cbn [ores_eqb]; rewrite ?bytes_eqb_spec; split; intros H; try discriminate; try reflexivity; congruence.
Qed.

Lemma seal_guard_spec k n ad :
  seal_guard k n ad = true <-> (valid_key k = true /\ ad = [] /\ length n = iv_size /\ valid_nonce n = true).
Proof.
  unfold seal_guard. rewrite !andb_true_iff, !Nat.eqb_eq. rewrite length_zero_iff_nil. tauto.
Qed.

(* what check_C05 = true says about the implementation's observations in a group case *)
Theorem check_C05_group_meaning k n pt sealed opens :
  check_C05 (CGroup k n pt sealed opens) = true ->
  (* guards *) (seal_guard k n [] = false -> sealed = SPanic) /\
  (* round trip *) (seal_guard k n [] = true -> exists s, sealed = SOk s /\ forall o, In (MNone, o) opens -> o = OOk pt) /\
  (* no acceptance beyond the model *) (forall s m x, sealed = SOk s -> In (m, OOk x) opens -> exists y, mopen k n s m = OOk y).
Proof.
  unfold check_C05. rewrite !andb_true_iff. intros [[[Hr Hg] Hn] _].
  cbn [roundtrip_ok guards_ok no_false_accept] in *. repeat split.
  - intros Hf. rewrite Hf in Hg. apply sres_eqb_spec in Hg. exact Hg.
  - intros Ht. rewrite Ht in Hr. destruct sealed as [s|]; [|discriminate].
    exists s. split; [reflexivity|]. intros o Hi. rewrite forallb_forall in Hr.
    specialize (Hr _ Hi). cbn [fst snd] in Hr. apply ores_eqb_spec in Hr. exact Hr.
  - intros s m x -> Hi. rewrite forallb_forall in Hn. specialize (Hn _ Hi). cbn [fst snd is_ook] in Hn.
    destruct (mopen k n s m) as [y| | |]; try discriminate. exists y; reflexivity.
Qed.

Theorem check_C05_seal_meaning k n dst pt ad obs :
  check_C05 (CSeal k n dst pt ad obs) = true ->
  (valid_key k = false \/ ad <> [] \/ length n <> iv_size \/ valid_nonce n = false) -> obs = SPanic.
Proof.
  unfold check_C05. rewrite !andb_true_iff. intros [[[_ Hg] _] _] Hbad. cbn [guards_ok] in Hg.
  destruct (seal_guard k n ad) eqn:Hs; [|apply sres_eqb_spec in Hg; exact Hg].
  apply seal_guard_spec in Hs. destruct Hs as [H1 [H2 [H3 H4]]].
  destruct Hbad as [H|[H|[H|H]]]; congruence.
Qed.

Theorem check_C05_open_meaning k n dst ct x :
  check_C05 (COpen k n dst ct (OOk x)) = true -> exists y, open aes k n dst ct = OOk y.
Proof.
  unfold check_C05. rewrite !andb_true_iff. intros [[[_ _] Hn] _]. cbn [no_false_accept is_ook] in Hn.
  destruct (open aes k n dst ct) as [y| | |]; try discriminate. exists y; reflexivity.
Qed.

Theorem check_C05_kdf_meaning saltlen n r p :
  check_C05 (CKdf saltlen n r p true) = true -> kdf_accepts saltlen n r p = true.
Proof. unfold check_C05. rewrite !andb_true_iff. intros [_ H]. exact H. Qed.

Theorem literal_ok_meaning k n pt s opens :
  literal_ok (CGroup k n pt (SOk s) opens) = true ->
  forall m x, In (m, OOk x) opens -> is_mod k n s m = false.
Proof.
  cbn [literal_ok]. rewrite forallb_forall. intros H m x Hi. specialize (H _ Hi). cbn [fst snd is_ook negb] in H.
  destruct (is_mod k n s m); [discriminate | reflexivity].
Qed.

(* the model's own outputs always satisfy the oracle, for every key, nonce, plaintext and mutation list *)
Definition model_group (k : key) (n pt : bytes) (muts : list mutation) : case :=
  let sealed := seal aes k n [] pt [] in
  CGroup k n pt sealed
    (match sealed with SOk s => map (fun m => (m, mopen k n s m)) muts | SPanic => [] end).

Theorem model_satisfies_oracle k n pt muts : check_C05 (model_group k n pt muts) = true.
Proof.
  unfold model_group, check_C05.
  destruct (seal_guard k n []) eqn:Hg.
  - pose proof Hg as Hg'. apply seal_guard_spec in Hg'. destruct Hg' as [Hk [_ [Hl Hn]]].
    rewrite (seal_ok aes) by assumption. cbn [roundtrip_ok guards_ok no_false_accept kdf_ok]. rewrite Hg.
    rewrite !andb_true_iff. repeat split.
    + apply forallb_forall. intros [m o] Hi. apply in_map_iff in Hi. destruct Hi as [m' [Heq _]].
      injection Heq as <- <-. cbn [fst snd]. destruct m'; try reflexivity.
      unfold mopen. cbn [apply_mut]. cbn [app].
      rewrite (open_ct_tag aes) by (try assumption; apply mac_length).
      rewrite bytes_eqb_refl, ctr_invol. cbn [app]. apply ores_eqb_spec. reflexivity.
    + apply forallb_forall. intros [m o] Hi. apply in_map_iff in Hi. destruct Hi as [m' [Heq _]].
      injection Heq as <- <-. cbn [fst snd]. destruct (is_ook (mopen k n _ m')); reflexivity.
  - assert (Hp : seal aes k n [] pt [] = SPanic).
    { apply seal_guards. destruct (valid_key k) eqn:Hk; [|left; reflexivity].
      destruct (Nat.eqb (length n) iv_size) eqn:Hl; [|right; right; left; apply Nat.eqb_neq; exact Hl].
      destruct (valid_nonce n) eqn:Hn; [|right; right; right; reflexivity].
      unfold seal_guard in Hg. rewrite Hk, Hl, Hn in Hg. discriminate. }
    rewrite Hp. cbn [roundtrip_ok guards_ok no_false_accept kdf_ok]. rewrite Hg. reflexivity.
Qed.

(* ---------- non-vacuity: the Gallina AES / Poly1305 agree with the published vectors ---------- *)
From Coq Require Import String.
Open Scope string_scope.

Example aes128_fips197 :
  aes (hex "000102030405060708090a0b0c0d0e0f") (hex "00112233445566778899aabbccddeeff") = hex "69c4e0d86a7b0430d8cdb78070b4c55a".
Proof. vm_compute. reflexivity. Qed.

Example aes256_fips197 :
  aes (hex "000102030405060708090a0b0c0d0e0f101112131415161718191a1b1c1d1e1f") (hex "00112233445566778899aabbccddeeff")
  = hex "8ea2b7ca516745bfeafc49904b496089".
Proof. vm_compute. reflexivity. Qed.

Example poly1305_rfc8439 :
  to_le 16 (lo128 (poly (clamp (hex "85d6be7857556d337f4452fe42d506a8")) (str "Cryptographic Forum Research Group")
                   + le_num (hex "0103808afb0db2fd4abff6af4149f51b")))
  = hex "a8061dc1305136c6c22b8baf0c0127a9".
Proof. vm_compute. reflexivity. Qed.

Definition ex_key : key :=
  mkkey (hex "303132333435363738393a3b3c3d3e3f404142434445464748494a4b4c4d4e4f")
        (hex "000102030405060708090a0b0c0d0e0f") (hex "101112131415161718191a1b1c1d1e1f").

Example roundtrip_nonvacuous :
  exists out, seal aes ex_key (hex "ffffffffffffffffffffffffffffffff") [] (str "restic: the quick brown fox jumps") [] = SOk out
    /\ List.length out = 49%nat
    /\ open aes ex_key (hex "ffffffffffffffffffffffffffffffff") [] out = OOk (str "restic: the quick brown fox jumps")
    /\ open aes ex_key (hex "ffffffffffffffffffffffffffffffff") [] (flip_bit out 200) = OUnauth
    /\ open aes ex_key (hex "fffffffffffffffffffffffffffffffe") [] out = OUnauth
    /\ open aes ex_key (hex "ffffffffffffffffffffffffffffffff") [] (firstn 15 out) = OErr.
Proof. eexists. repeat split; vm_compute; reflexivity. Qed.

Example guards_nonvacuous :
  seal aes ex_key (repeat 0%N 16) [] [1%N] [] = SPanic /\
  seal aes (mkkey (repeat 0%N 32) (kK ex_key) (kR ex_key)) (repeat 1%N 16) [] [1%N] [] = SPanic /\
  seal aes ex_key (repeat 1%N 15) [] [1%N] [] = SPanic /\
  open aes ex_key (repeat 1%N 15) [] (repeat 0%N 40) = OPanic.
Proof. repeat split; vm_compute; reflexivity. Qed.

Example kdf_nonvacuous :
  kdf_accepts 64 32768 8 1 = true /\ kdf_accepts 63 32768 8 1 = false /\ kdf_accepts 64 6 1 1 = false /\
  kdf_accepts 64 16384 0 1 = false /\ kdf_accepts 64 16777216 1 1 = false.
Proof. repeat split; vm_compute; reflexivity. Qed.

Example oracle_nonvacuous :
  check_case (model_group ex_key (repeat 7%N 16) [1%N; 2%N; 3%N] [MNone; MFlipCt 3%N; MTrunc 5%N; MFlipNonce 9%N]) = 0%nat /\
  check_case (CGroup ex_key (repeat 7%N 16) [1%N] (SOk (repeat 0%N 17)) [(MNone, OOk [9%N])]) = 2%nat.
Proof. split; vm_compute; reflexivity. Qed.
