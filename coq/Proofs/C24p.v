From Restic Require Import Base.Prelude Model.C24m.
From Coq Require Import Permutation.
Import C24m.
Open Scope Z_scope.

Lemma mem_spec t l : mem t l = true <-> In t l.
Proof.
  unfold mem. rewrite existsb_exists. split.
  - intros [x [Hx E]]. apply bytes_eqb_spec in E; subst; exact Hx.
  - intros H. exists t. split; [exact H | apply bytes_eqb_refl].
Qed.

(* ---- filters ---- *)
Lemma has_hostname_spec h hs : has_hostname h hs = true <-> hs = [] \/ In h hs.
Proof.
  unfold has_hostname. destruct hs as [|x r]; cbn [is_nil].
  - split; [left; reflexivity | reflexivity].
  - rewrite mem_spec. split; [right; assumption | intros [H|H]; [discriminate | exact H]].
Qed.

Lemma has_paths_spec ps want : has_paths ps want = true <-> forall p, In p want -> In p ps.
Proof.
  unfold has_paths. rewrite forallb_forall. split; intros H p Hp; apply mem_spec, H, Hp.
Qed.

Lemma has_tag_list_spec tags ls :
  has_tag_list tags ls = true <-> ls = [] \/ exists l, In l ls /\ has_tags tags l = true.
Proof.
  unfold has_tag_list. destruct ls as [|x r]; cbn [is_nil].
  - split; [left; reflexivity | reflexivity].
  - rewrite existsb_exists. split; [right; assumption | intros [H|H]; [discriminate | exact H]].
Qed.

Lemma has_tags_spec tags l :
  has_tags tags l = true <->
  (exists pre post, l = pre ++ [] :: post /\ tags = [] /\ (forall t, In t pre -> In t tags))
  \/ (forall t, In t l -> In t tags).
Proof.
  induction l as [|t r IH]; cbn [has_tags].
  - split; [intros _; right; intros t [] | reflexivity].
  - destruct (is_nil t && is_nil tags) eqn:E.
    + apply andb_true_iff in E as [E1 E2]. destruct t; [|discriminate]. destruct tags; [|discriminate].
      split; [|reflexivity]. intros _. left. exists [], r. repeat split. intros t [].
    + destruct (mem t tags) eqn:Em.
      * assert (Hin : In t tags) by (apply mem_spec; exact Em).
        rewrite IH. split.
        -- intros [[pre [post [-> [Ht Hp]]]] | H].
           ++ left. exists (t :: pre), post. repeat split; [assumption|]. intros x [<-|Hx]; auto.
           ++ right. intros x [<-|Hx]; auto.
        -- intros [[pre [post [El [Ht Hp]]]] | H].
           ++ subst tags. destruct Hin.
           ++ right. intros x Hx. apply H. right; exact Hx.
      * split; [discriminate|]. intros [[pre [post [El [Ht Hp]]]] | H].
        -- subst tags. destruct pre as [|a pre]; cbn in El; inversion El; subst.
           ++ cbn in E. discriminate.
           ++ destruct (Hp a (or_introl eq_refl)).
        -- assert (Hin : In t tags) by (apply H; left; reflexivity).
           apply mem_spec in Hin. congruence.
Qed.

Theorem matches_spec f s :
  matches f s = true <->
  (f_hosts f = [] \/ In (sn_host s) (f_hosts f))
  /\ (f_tags f = [] \/ exists l, In l (f_tags f) /\ has_tags (sn_tags s) l = true)
  /\ (forall p, In p (f_paths f) -> In p (sn_paths s)).
Proof.
  unfold matches. rewrite !andb_true_iff, has_hostname_spec, has_tag_list_spec, has_paths_spec. tauto.
Qed.

Theorem find_all_exact f l s : In s (find_all f l) <-> In s l /\ matches f s = true.
Proof. unfold find_all. apply filter_In. Qed.

(* ---- latest ---- *)
Definition cand (f : filt) (s : snap) : Prop := in_limit f s = true /\ matches f s = true.

Definition latest_inv (f : filt) (seen : list snap) (r : option snap) : Prop :=
  match r with
  | None => forall s, In s seen -> ~ cand f s
  | Some b => In b seen /\ cand f b /\ forall s, In s seen -> cand f s -> sn_time s <= sn_time b
  end.

Lemma latest_step_inv f seen r s :
  latest_inv f seen r -> latest_inv f (seen ++ [s]) (latest_step f r s).
Proof.
  intros Inv. unfold latest_step.
  destruct (match f_limit f with Some lim => sn_time s >? lim | None => false end) eqn:E1.
  { (* after the limit: not a candidate *)
    assert (Hn : ~ cand f s).
    { intros [H _]. unfold in_limit in H. destruct (f_limit f); [|discriminate]. rewrite E1 in H. discriminate. }
    destruct r as [b|]; cbn [latest_inv] in *.
    - destruct Inv as [I1 [I2 I3]]. split; [apply in_or_app; left; exact I1|]. split; [exact I2|].
      intros x Hx Hc. apply in_app_or in Hx as [Hx|[<-|[]]]; [apply I3; assumption | contradiction].
    - intros x Hx. apply in_app_or in Hx as [Hx|[<-|[]]]; [apply Inv, Hx | exact Hn]. }
  assert (Hl : in_limit f s = true).
  { unfold in_limit. destruct (f_limit f); [rewrite E1; reflexivity | reflexivity]. }
  destruct (match r with Some b => sn_time s <? sn_time b | None => false end) eqn:E2.
  { destruct r as [b|]; [|discriminate]. apply Z.ltb_lt in E2. cbn [latest_inv] in *.
    destruct Inv as [I1 [I2 I3]]. split; [apply in_or_app; left; exact I1|]. split; [exact I2|].
    intros x Hx Hc. apply in_app_or in Hx as [Hx|[<-|[]]]; [apply I3; assumption | lia]. }
  destruct (matches f s) eqn:E3; cbn [negb].
  - cbn [latest_inv]. split; [apply in_or_app; right; left; reflexivity|]. split; [split; assumption|].
    intros x Hx Hc. apply in_app_or in Hx as [Hx|[<-|[]]]; [|lia].
    destruct r as [b|]; cbn [latest_inv] in Inv.
    + destruct Inv as [_ [_ I3]]. specialize (I3 x Hx Hc).
      destruct (Z.ltb_spec (sn_time s) (sn_time b)); [discriminate | lia].
    + destruct (Inv x Hx Hc).
  - assert (Hn : ~ cand f s) by (intros [_ H]; congruence).
    destruct r as [b|]; cbn [latest_inv] in *.
    + destruct Inv as [I1 [I2 I3]]. split; [apply in_or_app; left; exact I1|]. split; [exact I2|].
      intros x Hx Hc. apply in_app_or in Hx as [Hx|[<-|[]]]; [apply I3; assumption | contradiction].
    + intros x Hx. apply in_app_or in Hx as [Hx|[<-|[]]]; [apply Inv, Hx | exact Hn].
Qed.

Lemma fold_latest_inv f l : forall seen r,
  latest_inv f seen r -> latest_inv f (seen ++ l) (fold_left (latest_step f) l r).
Proof.
  induction l as [|s l IH]; intros seen r Inv; cbn [fold_left].
  - rewrite app_nil_r. exact Inv.
  - replace (seen ++ s :: l) with ((seen ++ [s]) ++ l) by (rewrite <- app_assoc; reflexivity).
    apply IH, latest_step_inv, Inv.
Qed.

(* for EVERY processing order of the snapshot set (the loader is parallel) 'latest' is a newest
   matching snapshot not after the limit, and nothing is found only if nothing qualifies *)
Theorem find_latest_spec f l order :
  Permutation order l ->
  match find_latest f order with
  | None => forall s, In s l -> ~ cand f s
  | Some b => In b l /\ cand f b /\ forall s, In s l -> cand f s -> sn_time s <= sn_time b
  end.
Proof.
  intros P. pose proof (fold_latest_inv f order [] None (fun s H => match H with end)) as Inv.
  cbn [app] in Inv. fold (find_latest f order) in Inv.
  destruct (find_latest f order) as [b|]; cbn [latest_inv] in Inv.
  - destruct Inv as [I1 [I2 I3]]. split; [apply (Permutation_in _ P), I1|]. split; [exact I2|].
    intros s Hs. apply I3. apply (Permutation_in _ (Permutation_sym P)), Hs.
  - intros s Hs. apply Inv. apply (Permutation_in _ (Permutation_sym P)), Hs.
Qed.

(* ---- grouping ---- *)
Lemma strs_eqb_spec a b : strs_eqb a b = true <-> a = b.
Proof. apply list_eqb_spec. exact bytes_eqb_spec. Qed.

Lemma gkey_eqb_spec a b : gkey_eqb a b = true <-> a = b.
Proof.
  unfold gkey_eqb. rewrite !andb_true_iff, bytes_eqb_spec, !strs_eqb_spec.
  destruct a, b; cbn. split; [intros [[-> ->] ->]; reflexivity | intros H; inversion H; auto].
Qed.

Lemma gkey_eqb_refl a : gkey_eqb a a = true.
Proof. apply gkey_eqb_spec; reflexivity. Qed.

Lemma add_group_concat k i gs :
  Permutation (concat (map snd (add_group k i gs))) (concat (map snd gs) ++ [i]).
Proof.
  induction gs as [|[k' l] r IH]; cbn [add_group map snd concat app]; [apply Permutation_refl|].
  destruct (gkey_eqb k k'); cbn [map snd concat].
  - rewrite <- !app_assoc. apply Permutation_app_head. cbn [app]. apply Permutation_cons_append.
  - rewrite <- app_assoc. apply Permutation_app_head, IH.
Qed.

Lemma add_group_keys k i gs :
  map fst (add_group k i gs) =
  if existsb (gkey_eqb k) (map fst gs) then map fst gs else map fst gs ++ [k].
Proof.
  induction gs as [|[k' l] r IH]; cbn [add_group map fst existsb app]; [reflexivity|].
  destruct (gkey_eqb k k'); cbn [orb map fst]; [reflexivity|]. rewrite IH.
  destruct (existsb (gkey_eqb k) (map fst r)); reflexivity.
Qed.

Lemma distinct_snoc ks k : distinct_keys ks = true -> existsb (gkey_eqb k) ks = false ->
  distinct_keys (ks ++ [k]) = true.
Proof.
  induction ks as [|x r IH]; intros D E; [reflexivity|]. cbn [distinct_keys app existsb] in *.
  apply andb_true_iff in D as [D1 D2]. apply orb_false_iff in E as [E1 E2].
  rewrite IH by assumption. rewrite existsb_app. cbn [existsb].
  apply negb_true_iff in D1. rewrite D1. cbn [orb].
  assert (gkey_eqb x k = false) as ->.
  { destruct (gkey_eqb x k) eqn:G; [|reflexivity]. apply gkey_eqb_spec in G; subst.
    rewrite gkey_eqb_refl in E1. discriminate. }
  reflexivity.
Qed.

Lemma add_group_distinct k i gs :
  distinct_keys (map fst gs) = true -> distinct_keys (map fst (add_group k i gs)) = true.
Proof.
  intros D. rewrite add_group_keys. destruct (existsb (gkey_eqb k) (map fst gs)) eqn:E; [exact D|].
  apply distinct_snoc; assumption.
Qed.

Lemma add_group_members k i gs k' ids j :
  In (k', ids) (add_group k i gs) -> In j ids ->
  (exists ids0, In (k', ids0) gs /\ In j ids0) \/ (j = i /\ k' = k).
Proof.
  induction gs as [|[k0 l] r IH]; cbn [add_group]; intros H Hj.
  - destruct H as [H|[]]. inversion H; subst. destruct Hj as [<-|[]]. right; split; reflexivity.
  - destruct (gkey_eqb k k0) eqn:G.
    + destruct H as [H|H].
      * inversion H; subst. apply in_app_or in Hj as [Hj|[<-|[]]].
        -- left. exists l. split; [left; reflexivity | exact Hj].
        -- right. apply gkey_eqb_spec in G. split; [reflexivity | symmetry; exact G].
      * left. exists ids. split; [right; exact H | exact Hj].
    + destruct H as [H|H].
      * inversion H; subst. left. exists ids. split; [left; reflexivity | exact Hj].
      * destruct (IH H Hj) as [[ids0 [H1 H2]] | H1].
        -- left. exists ids0. split; [right; exact H1 | exact H2].
        -- right. exact H1.
Qed.

Definition group_inv (o : gopts) (l : list snap) (gs : list (gkey * list N)) : Prop :=
  Permutation (concat (map snd gs)) (map sn_id l)
  /\ distinct_keys (map fst gs) = true
  /\ forall k ids j, In (k, ids) gs -> In j ids -> exists s, In s l /\ sn_id s = j /\ key_of o s = k.

Lemma group_fold_inv o l : forall l0 gs,
  group_inv o l0 gs ->
  group_inv o (l0 ++ l) (fold_left (fun gs s => add_group (key_of o s) (sn_id s) gs) l gs).
Proof.
  induction l as [|s l IH]; intros l0 gs Inv; cbn [fold_left].
  - rewrite app_nil_r. exact Inv.
  - replace (l0 ++ s :: l) with ((l0 ++ [s]) ++ l) by (rewrite <- app_assoc; reflexivity).
    apply IH. destruct Inv as [I1 [I2 I3]]. split; [|split].
    + eapply Permutation_trans; [apply add_group_concat|]. rewrite map_app. cbn [map].
      apply Permutation_app_tail, I1.
    + apply add_group_distinct, I2.
    + intros k ids j H Hj. destruct (add_group_members _ _ _ _ _ _ H Hj) as [[ids0 [H1 H2]] | [-> ->]].
      * destruct (I3 _ _ _ H1 H2) as [x [X1 [X2 X3]]]. exists x. split; [apply in_or_app; left; exact X1 | split; assumption].
      * exists s. split; [apply in_or_app; right; left; reflexivity | split; reflexivity].
Qed.

(* grouping partitions the snapshots: every snapshot id lands in exactly one group (the groups'
   member lists together are a permutation of the input ids), group keys are pairwise distinct,
   and every member's key (host / sorted paths / sorted tags, as selected) is its group's key *)
Theorem groups_partition o l :
  let gs := group_by o l in
  Permutation (concat (map snd gs)) (map sn_id l)
  /\ distinct_keys (map fst gs) = true
  /\ forall k ids j, In (k, ids) gs -> In j ids -> exists s, In s l /\ sn_id s = j /\ key_of o s = k.
Proof.
  unfold group_by. apply (group_fold_inv o l [] []).
  split; [constructor|]. split; [reflexivity|]. intros k ids j [].
Qed.

(* sort.Strings model: sorted output, same elements — so the key ignores the stored order *)
Lemma sinsert_perm x l : Permutation (sinsert x l) (x :: l).
Proof.
  induction l as [|y l IH]; cbn [sinsert]; [apply Permutation_refl|].
  destruct (str_leb x y); [apply Permutation_refl|].
  eapply Permutation_trans; [apply perm_skip, IH | apply perm_swap].
Qed.
Lemma ssort_perm l : Permutation (ssort l) l.
Proof.
  induction l as [|x l IH]; [constructor|]. cbn [ssort fold_right]. fold (ssort l).
  eapply Permutation_trans; [apply sinsert_perm | apply perm_skip, IH].
Qed.

(* ---- oracle ---- *)
Theorem oracle_latest_sound f l obs :
  check_C24 (KLatest f l obs) = true ->
  match obs with
  | None => forall s, In s l -> ~ cand f s
  | Some i => exists r, lookup i l = Some r /\ cand f r /\ forall s, In s l -> cand f s -> sn_time s <= sn_time r
  end.
Proof.
  unfold check_C24. cbn [oracle_code]. destruct (latest_ok f l obs) eqn:E; [|discriminate]. intros _.
  unfold latest_ok in E. destruct obs as [i|].
  - destruct (lookup i l) as [r|]; [|discriminate]. exists r. split; [reflexivity|].
    apply andb_true_iff in E as [E E3]. apply andb_true_iff in E as [E1 E2].
    split; [split; assumption|]. intros s Hs [C1 C2]. rewrite forallb_forall in E3.
    apply Z.leb_le, E3, filter_In. split; [exact Hs|]. rewrite C1, C2. reflexivity.
  - intros s Hs [C1 C2].
    assert (In s (filter (fun s => in_limit f s && matches f s) l)) as Hin
      by (apply filter_In; split; [exact Hs | rewrite C1, C2; reflexivity]).
    destruct (filter (fun s => in_limit f s && matches f s) l); [destruct Hin | discriminate].
Qed.

(* ---- explicit snapshot arguments ---- *)
Fixpoint dedup_from (seen l : list N) : list N :=
  match l with
  | [] => []
  | x :: r => if memN x seen then dedup_from seen r else x :: dedup_from (x :: seen) r
  end.

Lemma memN_spec i l : memN i l = true <-> In i l.
Proof.
  unfold memN. rewrite existsb_exists. split.
  - intros [x [Hx E]]. apply N.eqb_eq in E; subst; exact Hx.
  - intros H. exists i. split; [exact H | apply N.eqb_refl].
Qed.

Lemma dedup_from_spec l : forall seen,
  NoDup (dedup_from seen l) /\ forall x, In x (dedup_from seen l) <-> In x l /\ ~ In x seen.
Proof.
  induction l as [|a r IH]; intros seen; cbn [dedup_from].
  - split; [constructor | intros x; split; [intros [] | intros [[] _]]].
  - destruct (memN a seen) eqn:E.
    + destruct (IH seen) as [N1 N2]. split; [exact N1|]. intros x. rewrite N2. apply memN_spec in E.
      split; [intros [H1 H2]; split; [right; exact H1 | exact H2]|].
      intros [[<-|H1] H2]; [contradiction | split; assumption].
    + destruct (IH (a :: seen)) as [N1 N2].
      assert (Hna : ~ In a seen) by (intro H; apply memN_spec in H; congruence).
      split.
      * constructor; [|exact N1]. rewrite N2. intros [_ H]. apply H. left; reflexivity.
      * intros x. cbn [In]. rewrite N2. cbn [In]. split.
        -- intros [<-|[H1 H2]]; [split; [left; reflexivity | exact Hna]|].
           split; [right; exact H1 | intro H; apply H2; right; exact H].
        -- intros [[<-|H1] H2]; [left; reflexivity|].
           destruct (N.eq_dec a x) as [->|Hne]; [left; reflexivity|].
           right. split; [exact H1 | intros [H|H]; [contradiction | contradiction]].
Qed.

(* without 'latest' among the arguments the delivered snapshots are exactly the resolvable plain
   ids, each once, in order of first mention *)
Lemma ids_go_no_latest f l args : forall ids,
  has_latest args = false ->
  snaps_of (ids_go f l false ids args) = dedup_from ids (plain_ids args).
Proof.
  induction args as [|a r IH]; intros ids H; cbn [ids_go].
  - cbn. destruct (negb (filter_empty f)); reflexivity.
  - cbn [has_latest existsb] in H. destruct a as [| |[i|] [|]]; cbn [orb] in H; try discriminate;
      cbn [plain_ids flat_map app snaps_of]; fold (plain_ids r);
      try (fold (snaps_of (ids_go f l false ids r)); apply IH, H).
    cbn [dedup_from]. destruct (memN i ids).
    + apply IH, H.
    + cbn [snaps_of flat_map app]. f_equal. apply IH, H.
Qed.

Theorem find_ids_no_latest f l args :
  has_latest args = false ->
  snaps_of (find_ids f l args) = dedup_from [] (plain_ids args)
  /\ NoDup (snaps_of (find_ids f l args))
  /\ forall i, In i (snaps_of (find_ids f l args)) <-> In i (plain_ids args).
Proof.
  intros H. unfold find_ids. rewrite (ids_go_no_latest f l args [] H).
  destruct (dedup_from_spec (plain_ids args) []) as [N1 N2]. split; [reflexivity|]. split; [exact N1|].
  intros i. rewrite N2. split; [tauto | intros Hi; split; [exact Hi | intros []]].
Qed.

(* ---- soundness of the FindAll and grouping oracles ---- *)
Lemma remove_id_perm i l r : remove_id i l = Some r -> Permutation l (i :: r).
Proof.
  revert r; induction l as [|x l IH]; intros r H; cbn [remove_id] in H; [discriminate|].
  destruct (N.eqb_spec i x) as [->|Hne].
  - inversion H; subst. apply Permutation_refl.
  - destruct (remove_id i l) as [r'|]; [|discriminate]. inversion H; subst.
    eapply Permutation_trans; [apply perm_skip, IH; reflexivity | apply perm_swap].
Qed.

Lemma perm_ids_sound a : forall b, perm_ids a b = true -> Permutation a b.
Proof.
  induction a as [|x a IH]; intros b H; cbn [perm_ids] in H.
  - destruct b; [constructor | discriminate].
  - destruct (remove_id x b) as [b'|] eqn:E; [|discriminate].
    eapply Permutation_trans; [apply perm_skip, IH, H | apply Permutation_sym, remove_id_perm, E].
Qed.

(* FindAll oracle: the reported ids are exactly the ids of the matching snapshots, each once *)
Theorem oracle_findall_sound f l obs :
  check_C24 (KFindAll f l obs) = true -> Permutation obs (map sn_id (find_all f l)).
Proof.
  unfold check_C24. cbn [oracle_code].
  destruct (perm_ids obs (map sn_id (filter (matches f) l))) eqn:E; [|discriminate].
  intros _. apply perm_ids_sound, E.
Qed.

(* grouping oracle: the groups partition the input ids, no group is empty, every member's key is
   its group's key, and no two groups share a key *)
Theorem oracle_group_sound o l obs :
  check_C24 (KGroup o l obs) = true ->
  Permutation (concat (map snd obs)) (map sn_id l)
  /\ (forall k ids, In (k, ids) obs ->
        ids <> [] /\ forall i, In i ids -> exists s, lookup i l = Some s /\ key_of o s = k)
  /\ distinct_keys (map fst obs) = true.
Proof.
  unfold check_C24. cbn [oracle_code]. destruct (group_ok o l obs) eqn:E; [|discriminate]. intros _.
  unfold group_ok in E. apply andb_true_iff in E as [E E3]. apply andb_true_iff in E as [E1 E2].
  split; [apply perm_ids_sound, E1|]. split; [|exact E3].
  intros k ids Hin. rewrite forallb_forall in E2. specialize (E2 _ Hin). cbn [fst snd] in E2.
  apply andb_true_iff in E2 as [Hn Hm]. split.
  - destruct ids; [discriminate | discriminate].
  - intros i Hi. rewrite forallb_forall in Hm. specialize (Hm i Hi).
    destruct (lookup i l) as [s0|]; [|discriminate]. exists s0. split; [reflexivity|].
    apply gkey_eqb_spec, Hm.
Qed.

(* ------------------------------------------------------------------ non-vacuity *)
From Coq Require Import String. Open Scope string_scope.
Example c24_nonvacuous :
  let a := str "a" in let b := str "b" in
  let s0 := mkSn 0 100 (str "h1") [b; a] [str "/x"; str "/a"] in
  let s1 := mkSn 1 100 (str "h1") [a; b] [str "/a"; str "/x"] in
  let s2 := mkSn 2 200 (str "h2") [] [str "/a"] in
  let s3 := mkSn 3 300 (str "h1") [a; a] [str "/a"; str "/x"] in
  group_by (mkG true true true) [s0; s1; s2; s3]
    = [(mkK (str "h1") [str "/a"; str "/x"] [a; b], [0%N; 1%N]); (mkK (str "h2") [str "/a"] [], [2%N]);
       (mkK (str "h1") [str "/a"; str "/x"] [a; a], [3%N])]
  /\ option_map sn_id (find_latest (mkF [str "h1"] [] [] (Some 250)) [s0; s1; s2; s3]) = Some 1%N
  /\ option_map sn_id (find_latest (mkF [str "h1"] [] [] (Some 250)) [s1; s0; s2; s3]) = Some 0%N
  /\ map sn_id (find_all (mkF [] [[[]]] [str "/a"] None) [s0; s1; s2; s3]) = [2%N]
  /\ map sn_id (find_all (mkF [] [[a; b]; [[]]] [] None) [s0; s1; s2; s3]) = [0%N; 1%N; 2%N]
  /\ find_ids (mkF [str "h1"] [] [] None) [s0; s1; s2; s3]
        [AId (Some 1%N) false; ALatest; AId (Some 3%N) false; AId (Some 1%N) false; ALatest; AId None false; AId (Some 0%N) true]
      = [EvSnap 1; EvSnap 3; EvErr; EvErr]
  /\ find_ids (mkF [str "h1"] [] [] None) [s0; s1; s2; s3] [AId (Some 2%N) false] = [EvSnap 2; EvErr].
Proof. vm_compute. repeat split. Qed.
