(* C41 proofs, part 1: UTF-8 decode/encode kit. *)
From Restic Require Import Base.Prelude Model.C41m.
From Coq Require Import ZifyBool ZifyNat ZifyN Permutation.
Import C41m.
Ltac Zify.zify_post_hook ::= Z.div_mod_to_equations.
Open Scope N_scope.

Ltac nb := repeat match goal with
  | H : (_ <? _) = true |- _ => apply N.ltb_lt in H
  | H : (_ <? _) = false |- _ => apply N.ltb_ge in H
  | H : (_ <=? _) = true |- _ => apply N.leb_le in H
  | H : (_ <=? _) = false |- _ => apply N.leb_gt in H
  | H : (_ =? _) = true |- _ => apply N.eqb_eq in H
  | H : (_ =? _) = false |- _ => apply N.eqb_neq in H
  | H : _ && _ = true |- _ => apply andb_true_iff in H; destruct H
  | H : _ || _ = false |- _ => apply orb_false_iff in H; destruct H
  | H : negb _ = true |- _ => apply negb_true_iff in H
  | H : negb _ = false |- _ => apply negb_false_iff in H
  end.

Ltac bdec t := let E := fresh "E" in destruct t eqn:E; nb; try lia.

(* ---------- UTF-8 ---------- *)
Definition good (s : bytes) (r : N) (w : nat) : Prop :=
  valid_rune r = true /\ s = encode_rune r ++ skipn w s /\ w = length (encode_rune r).

Lemma valid_rune_iff r : valid_rune r = true <-> (r < 55296 \/ (57343 < r /\ r <= 1114111)).
Proof. unfold valid_rune. split; intro H.
  - apply orb_true_iff in H as [H|H]; nb; lia.
  - apply orb_true_iff. destruct H as [H|[H1 H2]]; [left; apply N.ltb_lt; lia|right].
    apply andb_true_iff; split; [apply N.ltb_lt | apply N.leb_le]; lia.
Qed.

Lemma enc2 b0 b1 : 194 <= b0 -> b0 < 224 -> 128 <= b1 -> b1 <= 191 ->
  encode_rune ((b0 - 192) * 64 + (b1 - 128)) = [b0; b1].
Proof. intros. unfold encode_rune.
  bdec ((b0 - 192) * 64 + (b1 - 128) <=? 127). bdec ((b0 - 192) * 64 + (b1 - 128) <=? 2047).
  f_equal; [lia|f_equal; lia].
Qed.

Lemma enc3 b0 b1 b2 : 224 <= b0 -> b0 < 240 -> (if b0 =? 224 then 160 else 128) <= b1 ->
  b1 <= (if b0 =? 237 then 159 else 191) -> 128 <= b2 -> b2 <= 191 ->
  let r := (b0 - 224) * 4096 + (b1 - 128) * 64 + (b2 - 128) in
  valid_rune r = true /\ encode_rune r = [b0; b1; b2].
Proof. intros H1 H2 H3 H4 H5 H6 r.
  assert (Hr : 2048 <= r /\ r <= 65535 /\ (r < 55296 \/ 57343 < r)).
  { subst r. destruct (b0 =? 224) eqn:Ea; destruct (b0 =? 237) eqn:Eb; nb; lia. }
  assert (Hv : valid_rune r = true) by (apply valid_rune_iff; lia).
  split; [exact Hv|]. unfold encode_rune. rewrite Hv. cbn [negb].
  bdec (r <=? 127). bdec (r <=? 2047). bdec (r <=? 65535).
  subst r. clear Hv. destruct (b0 =? 224) eqn:Ea; destruct (b0 =? 237) eqn:Eb; nb;
  (f_equal; [lia|f_equal; [lia|f_equal; lia]]).
Qed.

Lemma enc4 b0 b1 b2 b3 : 240 <= b0 -> b0 < 245 -> (if b0 =? 240 then 144 else 128) <= b1 ->
  b1 <= (if b0 =? 244 then 143 else 191) -> 128 <= b2 -> b2 <= 191 -> 128 <= b3 -> b3 <= 191 ->
  let r := (b0 - 240) * 262144 + (b1 - 128) * 4096 + (b2 - 128) * 64 + (b3 - 128) in
  valid_rune r = true /\ encode_rune r = [b0; b1; b2; b3].
Proof. intros H1 H2 H3 H4 H5 H6 H7 H8 r.
  assert (Hr : 65536 <= r /\ r <= 1114111).
  { subst r. destruct (b0 =? 240) eqn:Ea; destruct (b0 =? 244) eqn:Eb; nb; lia. }
  assert (Hv : valid_rune r = true) by (apply valid_rune_iff; lia).
  split; [exact Hv|]. unfold encode_rune. rewrite Hv. cbn [negb].
  bdec (r <=? 127). bdec (r <=? 2047). bdec (r <=? 65535).
  subst r. clear Hv. destruct (b0 =? 240) eqn:Ea; destruct (b0 =? 244) eqn:Eb; nb;
  (f_equal; [lia|f_equal; [lia|f_equal; [lia|f_equal; lia]]]).
Qed.

Ltac bfalse H := first [apply andb_false_iff in H; destruct H as [H|H]; [bfalse H|bfalse H] | nb; try lia].

Lemma decode_good s r w : s <> [] -> decode_rune s = (r, w) -> is_bad (r, w) = false ->
  good s r w /\ (1 <= w)%nat.
Proof.
  intros Hs Hd Hb. destruct s as [|b0 t]; [congruence|]. unfold decode_rune in Hd.
  destruct (b0 <? 128) eqn:E0.
  { inversion Hd; subst. nb. split; [|lia]. unfold good, encode_rune.
    bdec (r <=? 127). repeat split. apply valid_rune_iff; lia. }
  destruct (b0 <? 194) eqn:E1; [inversion Hd; subst; discriminate Hb|].
  destruct (b0 <? 224) eqn:E2.
  { destruct t as [|b1 t]; [inversion Hd; subst; discriminate Hb|].
    destruct (cont b1) eqn:Ec; [|inversion Hd; subst; discriminate Hb].
    inversion Hd; subst. unfold cont in Ec. nb. split; [|lia]. unfold good.
    rewrite enc2 by lia. repeat split. apply valid_rune_iff; lia. }
  destruct (b0 <? 240) eqn:E3.
  { destruct t as [|b1 [|b2 t]]; try (inversion Hd; subst; discriminate Hb).
    match type of Hd with (if ?c then _ else _) = _ => destruct c eqn:Ec end;
      [|inversion Hd; subst; discriminate Hb].
    inversion Hd; subst. unfold cont, in_rng in Ec. nb. split; [|lia].
    destruct (enc3 b0 b1 b2) as [Hv He]; try lia. unfold good. rewrite He. repeat split. exact Hv. }
  destruct (b0 <? 245) eqn:E4; [|inversion Hd; subst; discriminate Hb].
  destruct t as [|b1 [|b2 [|b3 t]]]; try (inversion Hd; subst; discriminate Hb).
  match type of Hd with (if ?c then _ else _) = _ => destruct c eqn:Ec end;
    [|inversion Hd; subst; discriminate Hb].
  inversion Hd; subst. unfold cont, in_rng in Ec. nb. split; [|lia].
  destruct (enc4 b0 b1 b2 b3) as [Hv He]; try lia. unfold good. rewrite He. repeat split. exact Hv.
Qed.

Lemma decode_encode r X : valid_rune r = true ->
  decode_rune (encode_rune r ++ X) = (r, length (encode_rune r)).
Proof.
  intros Hv. pose proof (proj1 (valid_rune_iff r) Hv) as Hr. unfold encode_rune. rewrite Hv. cbn [negb].
  destruct (r <=? 127) eqn:E0.
  { nb. cbn [app length]. unfold decode_rune. bdec (r <? 128). reflexivity. }
  destruct (r <=? 2047) eqn:E1.
  { nb. cbn [app length]. unfold decode_rune.
    bdec (192 + r / 64 <? 128). bdec (192 + r / 64 <? 194). bdec (192 + r / 64 <? 224).
    destruct (cont (128 + r mod 64)) eqn:Ec; [|unfold cont in Ec; bfalse Ec].
    f_equal. lia. }
  destruct (r <=? 65535) eqn:E2.
  { nb. cbn [app length]. unfold decode_rune.
    bdec (224 + r / 4096 <? 128). bdec (224 + r / 4096 <? 194). bdec (224 + r / 4096 <? 224).
    bdec (224 + r / 4096 <? 240).
    match goal with |- (if ?c then _ else _) = _ => destruct c eqn:Ec end.
    - f_equal. lia.
    - exfalso. unfold in_rng, cont in Ec.
      destruct (224 + r / 4096 =? 224) eqn:Ea; destruct (224 + r / 4096 =? 237) eqn:Eb; bfalse Ec. }
  nb. cbn [app length]. unfold decode_rune.
  bdec (240 + r / 262144 <? 128). bdec (240 + r / 262144 <? 194). bdec (240 + r / 262144 <? 224).
  bdec (240 + r / 262144 <? 240). bdec (240 + r / 262144 <? 245).
  match goal with |- (if ?c then _ else _) = _ => destruct c eqn:Ec end.
  - f_equal. lia.
  - exfalso. unfold in_rng, cont in Ec.
    destruct (240 + r / 262144 =? 240) eqn:Ea; destruct (240 + r / 262144 =? 244) eqn:Eb; bfalse Ec.
Qed.

