(* C18 proofs, part 2: the three phases of RestoreTo over a well-formed event list. *)
From Restic Require Import Base.Prelude Model.C18m Proofs.C18p.
Import C18m.

Lemma prefixb_common (T a b : path) : prefixb (T ++ a) (T ++ b) = prefixb a b.
Proof. induction T as [|x T IH]; cbn [app prefixb]; [reflexivity|]. rewrite bytes_eqb_refl. exact IH. Qed.

Lemma prefix_snoc (a b : path) n : prefixb a (b ++ [n]) = true -> a = b ++ [n] \/ prefixb a b = true.
Proof.
  intros H. apply prefixb_spec in H as [r Hr]. apply app_snoc_split in Hr as [[r' [-> ->]] | [-> ->]].
  - right. apply prefixb_app.
  - left. reflexivity.
Qed.

Definition notlink (fs : fsT) (p : path) : Prop := forall tg, look fs p <> Some (ELink tg).

(* a change that at most replaces entries by the same entry with another mode *)
Definition modeonly (fs fs' : fsT) : Prop :=
  forall q, look fs' q = look fs q \/ exists e m, look fs q = Some e /\ look fs' q = Some (with_mode e m).

Lemma modeonly_physdir fs fs' X : modeonly fs fs' -> physdir fs X -> physdir fs' X.
Proof.
  intros Hm HX a b E Ha. destruct (HX a b E Ha) as [m Hl].
  destruct (Hm a) as [Hq | [e [m' [H1 H2]]]].
  - exists m. rewrite Hq; exact Hl.
  - rewrite Hl in H1. inversion H1; subst e. exists m'. exact H2.
Qed.

Lemma modeonly_notlink fs fs' p : modeonly fs fs' -> notlink fs p -> notlink fs' p.
Proof.
  intros Hm Hn tg Hl. destruct (Hm p) as [Hq | [e [m' [H1 H2]]]].
  - rewrite Hq in Hl. exact (Hn tg Hl).
  - rewrite H2 in Hl. destruct e; cbn in Hl; try discriminate. inversion Hl; subst. exact (Hn _ H1).
Qed.

Lemma follow_S k fs p : follow (S k) fs p =
  match locate fs p with
  | ROk q =>
      match q with
      | [] => Some []
      | _ => match look fs q with
             | Some (ELink t) => follow k fs t
             | Some _ => Some q
             | None => None
             end
      end
  | _ => None
  end.
Proof. reflexivity. Qed.

Lemma chmod_spec fs D n m : physdir fs D -> notlink fs (D ++ [n]) ->
  local (D ++ [n]) fs (chmod fs (D ++ [n]) m) /\ modeonly fs (chmod fs (D ++ [n]) m).
Proof.
  intros H Hn. unfold chmod, link_fuel. rewrite follow_S. rewrite (locate_snoc _ _ _ H).
  rewrite match_snoc.
  destruct (look fs (D ++ [n])) as [e|] eqn:El.
  - assert (Hset : local (D ++ [n]) fs (set fs (D ++ [n]) (with_mode e m)) /\
                   modeonly fs (set fs (D ++ [n]) (with_mode e m))).
    { split; [apply local_set|].
      intros q. rewrite look_set. destruct (path_eqb (D ++ [n]) q) eqn:E.
      + apply path_eqb_spec in E; subst q. right. exists e, m. auto.
      + left; reflexivity. }
    destruct e; try (rewrite El; exact Hset). exfalso. exact (Hn _ El).
  - split; [apply local_refl | intros q; left; reflexivity].
Qed.

Lemma remove_dir_only_fails fs D n fs' s : physdir fs D -> remove fs (D ++ [n]) = (fs', s) -> s <> Ok ->
  fs' = fs /\ (look fs (D ++ [n]) = None \/ exists m, look fs (D ++ [n]) = Some (EDir m)).
Proof.
  intros H R Hs. unfold remove in R. rewrite (lstat_snoc _ _ _ H) in R.
  destruct (look fs (D ++ [n])) as [e|] eqn:El.
  - rewrite match_snoc in R. destruct e as [m| | |]; cbn [is_dir andb] in R.
    + destruct (has_child fs (D ++ [n])); inversion R; subst; [|contradiction].
      split; [reflexivity | right; exists m; reflexivity].
    + inversion R; subst; contradiction.
    + inversion R; subst; contradiction.
    + inversion R; subst; contradiction.
  - inversion R; subst. split; [reflexivity | left; reflexivity].
Qed.

Lemma create_fresh fs D n e : physdir fs D -> look fs (D ++ [n]) = None ->
  create fs (D ++ [n]) e = (set fs (D ++ [n]) e, Ok).
Proof. intros H Hl. unfold create. rewrite match_snoc, (locate_snoc _ _ _ H), Hl. reflexivity. Qed.

Lemma remove_all_snoc fs D n : physdir fs D -> remove_all fs (D ++ [n]) = (rmall fs (D ++ [n]), Ok).
Proof. intros H. unfold remove_all. rewrite match_snoc, (locate_snoc _ _ _ H). reflexivity. Qed.

Lemma notlink_set_file fs p c m : notlink (set fs p (EFile c m)) p.
Proof. intros tg. rewrite look_set, path_eqb_refl. discriminate. Qed.

Lemma restore_file_spec fs D n c ar : physdir fs D ->
  exists fs' s, restore_file fs (D ++ [n]) c ar = (fs', s) /\ local (D ++ [n]) fs fs' /\ notlink fs' (D ++ [n]).
Proof.
  intros H. unfold restore_file. rewrite match_snoc, (locate_snoc _ _ _ H).
  assert (Hrepl : forall f, physdir f D -> look f (D ++ [n]) = None -> local (D ++ [n]) fs f ->
     exists fs' s,
       match create f (D ++ [n]) (EFile c mode_file_default) with
       | (fs2, Ok) => (fs2, Ok) | (fs2, _) => (fs2, Err) end = (fs', s) /\
       local (D ++ [n]) fs fs' /\ notlink fs' (D ++ [n])).
  { intros f Hf Hl Hloc. rewrite (create_fresh _ _ _ _ Hf Hl). eexists _, _. split; [reflexivity|].
    split; [eapply local_trans; [exact Hloc | apply local_set] | apply notlink_set_file]. }
  assert (Hother : forall e, look fs (D ++ [n]) = Some e -> (forall tg, e <> ELink tg -> is_dir e = true \/ is_dir e = false) ->
     exists fs' s,
       match (if ar then remove_all fs (D ++ [n]) else remove fs (D ++ [n])) with
       | (fs1, Ok) => match create fs1 (D ++ [n]) (EFile c mode_file_default) with
                      | (fs2, Ok) => (fs2, Ok) | (fs2, _) => (fs2, Err) end
       | (fs1, _) => (fs1, Err)
       end = (fs', s) /\ local (D ++ [n]) fs fs' /\ (is_dir e = false \/ is_dir e = true -> notlink fs' (D ++ [n]) \/ True) /\
       (notlink fs' (D ++ [n]) \/ (fs' = fs /\ is_dir e = true))).
  { intros e El _. destruct ar.
    - rewrite (remove_all_snoc _ _ _ H).
      destruct (Hrepl (rmall fs (D ++ [n]))) as [fs' [s [E [Hl Hn]]]].
      + eapply physdir_local; [apply local_rmall | apply snoc_not_prefix | exact H].
      + rewrite look_rmall, prefixb_refl; reflexivity.
      + apply local_rmall.
      + exists fs', s. rewrite E. repeat split; auto.
    - destruct (remove fs (D ++ [n])) as [f1 s1] eqn:Er.
      destruct s1.
      + destruct (remove_snoc _ _ _ _ _ H Er) as [[_ Hs] | [-> _]]; [contradiction|].
        destruct (Hrepl (del fs (D ++ [n]))) as [fs' [s [E [Hl Hn]]]].
        * eapply physdir_local; [apply local_del | apply snoc_not_prefix | exact H].
        * rewrite look_del, path_eqb_refl; reflexivity.
        * apply local_del.
        * exists fs', s. rewrite E. repeat split; auto.
      + destruct (remove_dir_only_fails _ _ _ _ _ H Er) as [-> Hd]; [discriminate|].
        exists fs, Err. split; [reflexivity|]. split; [apply local_refl|]. split; [auto|].
        right. split; [reflexivity|]. destruct Hd as [Hd | [m Hd]]; rewrite El in Hd; [discriminate|].
        inversion Hd; reflexivity.
      + destruct (remove_dir_only_fails _ _ _ _ _ H Er) as [-> Hd]; [discriminate|].
        exists fs, Err. split; [reflexivity|]. split; [apply local_refl|]. split; [auto|].
        right. split; [reflexivity|]. destruct Hd as [Hd | [m Hd]]; rewrite El in Hd; [discriminate|].
        inversion Hd; reflexivity. }
  destruct (look fs (D ++ [n])) as [e|] eqn:El.
  - destruct e as [m | c0 m | tg | m].
    + destruct (Hother (EDir m) eq_refl) as [fs' [s [E [Hl [_ Hn]]]]]; [auto|].
      exists fs', s. split; [exact E|]. split; [exact Hl|].
      destruct Hn as [Hn | [-> _]]; [exact Hn|]. intros tg Ht. rewrite El in Ht; discriminate.
    + eexists _, _. split; [reflexivity|]. split; [apply local_set | apply notlink_set_file].
    + destruct (Hother (ELink tg) eq_refl) as [fs' [s [E [Hl [_ Hn]]]]]; [auto|].
      exists fs', s. split; [exact E|]. split; [exact Hl|].
      destruct Hn as [Hn | [_ Hd]]; [exact Hn | discriminate].
    + destruct (Hother (ESpec m) eq_refl) as [fs' [s [E [Hl [_ Hn]]]]]; [auto|].
      exists fs', s. split; [exact E|]. split; [exact Hl|].
      destruct Hn as [Hn | [_ Hd]]; [exact Hn | discriminate].
  - eexists _, _. split; [reflexivity|]. split; [apply local_set | apply notlink_set_file].
Qed.

Section Run.
Variable P : path.
Variable t : name.
Let T : path := P ++ [t].

Lemma T_prefix_local d n fs fs' : local (T ++ d ++ [n]) fs fs' -> local T fs fs'.
Proof. apply local_weaken. apply prefixb_app. Qed.

(* ---- ensureDirBelow ---- *)
Lemma ensure_root fs : physdir fs P ->
  exists fs', ensure_below fs T [] = (fs', Ok) /\ local T fs fs' /\ mono fs fs' /\ physdir fs' T.
Proof.
  intros H. cbn [ensure_below]. destruct (ensure_dir_snoc fs P t H) as [fs' [E [Hl [Hm [Hp _]]]]].
  exists fs'. auto.
Qed.

Lemma ensure_below_spec fs rel : physdir fs T ->
  exists fs', ensure_below fs T rel = (fs', Ok) /\ local T fs fs' /\ mono fs fs' /\ physdir fs' (T ++ rel).
Proof.
  intros H. destruct rel as [|c rel].
  - destruct (ensure_root fs (physdir_prefix _ _ _ H)) as [fs' [E [Hl [Hm Hp]]]].
    exists fs'. rewrite app_nil_r. auto.
  - cbn [ensure_below]. destruct (ensure_chain_ok (c :: rel) fs T H) as [fs' [E [Hm [Hp Hq]]]].
    exists fs'. split; [exact E|]. split; [|auto]. intros q Hq'. apply Hq. left; exact Hq'.
Qed.

(* ---- pass 1 ---- *)
Lemma pass1_step o s e : physdir (p_fs s) T ->
  let s' := pass1_ev o T s e in
  physdir (p_fs s') T /\ mono (p_fs s) (p_fs s') /\ local T (p_fs s) (p_fs s') /\
  (forall d, In d (ensured_of [e]) -> physdir (p_fs s') (T ++ d)) /\
  ((p_files s' = p_files s /\ p_tracked s' = p_tracked s) \/
   exists d n c m loc, e = EvVisit d (NFile n c m) loc /\
     p_files s' = p_files s ++ [(T ++ d ++ [n], c)] /\ p_tracked s' = loc :: p_tracked s).
Proof.
  intros H. destruct e as [d | d nd loc | d mo loc keep]; cbn [pass1_ev].
  - destruct (ensure_below_spec (p_fs s) d H) as [fs' [E [Hl [Hm Hp]]]]. rewrite E. cbn [fst p_fs p_files p_tracked].
    split; [eapply physdir_mono; eauto|]. split; [exact Hm|]. split; [exact Hl|].
    split; [|left; auto]. cbn. intros d' [<- | []]. exact Hp.
  - destruct (ensure_below_spec (p_fs s) d H) as [fs' [E [Hl [Hm Hp]]]]. rewrite E.
    assert (Hbase : physdir fs' T) by (eapply physdir_mono; eauto).
    assert (Hens : forall d', In d' (ensured_of [EvVisit d nd loc]) -> physdir fs' (T ++ d')).
    { cbn. intros d' [<- | []]. exact Hp. }
    destruct nd as [n c m | n m sub | n tg | n m | n]; cbn [p_fs p_files p_tracked];
      try (split; [exact Hbase|]; split; [exact Hm|]; split; [exact Hl|]; split; [exact Hens | left; auto]).
    destruct (should_overwrite o fs' (T ++ d ++ [n])) as [[|]|]; cbn [p_fs p_files p_tracked];
      (split; [exact Hbase|]; split; [exact Hm|]; split; [exact Hl|]; split; [exact Hens|]).
    + right. exists d, n, c, m, loc. auto.
    + left; auto.
    + left; auto.
  - split; [exact H|]. split; [apply mono_refl|]. split; [apply local_refl|]. split; [intros d' []|left; auto].
Qed.

Lemma ensured_of_app a b : ensured_of (a ++ b) = ensured_of a ++ ensured_of b.
Proof. unfold ensured_of. apply flat_map_app. Qed.

Lemma pass1_fold o evs : forall s, physdir (p_fs s) T ->
  let s' := fold_left (pass1_ev o T) evs s in
  physdir (p_fs s') T /\ mono (p_fs s) (p_fs s') /\ local T (p_fs s) (p_fs s') /\
  (forall d, In d (ensured_of evs) -> physdir (p_fs s') (T ++ d)) /\
  (forall pc, In pc (p_files s') -> In pc (p_files s) \/
      exists d n c m loc, In (EvVisit d (NFile n c m) loc) evs /\ pc = (T ++ d ++ [n], c)) /\
  (forall l, In l (p_tracked s') -> In l (p_tracked s) \/
      exists d n c m, In (EvVisit d (NFile n c m) l) evs /\ In (T ++ d ++ [n], c) (p_files s')) /\
  (forall pc, In pc (p_files s) -> In pc (p_files s')).
Proof.
  induction evs as [|e evs IH]; intros s H; cbn [fold_left].
  - split; [exact H|]. split; [apply mono_refl|]. split; [apply local_refl|].
    split; [intros d []|]. split; [auto|]. split; auto.
  - destruct (pass1_step o s e H) as [H1 [Hm1 [Hl1 [He1 Hf1]]]].
    destruct (IH (pass1_ev o T s e) H1) as [H2 [Hm2 [Hl2 [He2 [Hf2 [Ht2 Hk2]]]]]].
    split; [exact H2|]. split; [eapply mono_trans; eauto|]. split; [eapply local_trans; eauto|].
    split; [|split; [|split]].
    + intros d Hd. change (e :: evs) with ([e] ++ evs) in Hd. rewrite ensured_of_app in Hd.
      apply in_app_or in Hd as [Hd | Hd]; [|apply He2; exact Hd].
      eapply physdir_mono; [exact Hm2 | apply He1; exact Hd].
    + intros pc Hpc. destruct (Hf2 pc Hpc) as [Hin | [d [n [c [m [loc [Hin ->]]]]]]].
      * destruct Hf1 as [[Ef _] | [d [n [c [m [loc [-> [Ef _]]]]]]]].
        -- left. rewrite <- Ef. exact Hin.
        -- rewrite Ef in Hin. apply in_app_or in Hin as [Hin | [<- | []]]; [left; exact Hin|].
           right. exists d, n, c, m, loc. split; [left; reflexivity | reflexivity].
      * right. exists d, n, c, m, loc. split; [right; exact Hin | reflexivity].
    + intros l Hl. destruct (Ht2 l Hl) as [Hin | [d [n [c [m [Hin Hpc]]]]]].
      * destruct Hf1 as [[_ Et] | [d [n [c [m [loc [-> [Ef Et]]]]]]]].
        -- left. rewrite <- Et. exact Hin.
        -- rewrite Et in Hin. destruct Hin as [<- | Hin]; [|left; exact Hin].
           right. exists d, n, c, m. split; [left; reflexivity|]. apply Hk2. rewrite Ef.
           apply in_or_app; right; left; reflexivity.
      * right. exists d, n, c, m. split; [right; exact Hin | exact Hpc].
    + intros pc Hpc. apply Hk2. destruct Hf1 as [[Ef _] | [d [n [c [m [loc [_ [Ef _]]]]]]]]; rewrite Ef; [exact Hpc|].
      apply in_or_app; left; exact Hpc.
Qed.

(* ---- phases 2 and 3 over a fixed set of used directories ---- *)
Variable used : list path.

Definition G (fs : fsT) : Prop := forall X, In X used -> physdir fs (T ++ X).

(* a leaf position: below a used directory, not above any used directory *)
Definition leafok (p : path) : Prop :=
  exists d n, p = T ++ d ++ [n] /\ In d used /\ (forall X, In X used -> prefixb (d ++ [n]) X = false).

Lemma leaf_compat p p' : leafok p -> leafok p' -> p' = p \/ prefixb p' p = false.
Proof.
  intros [d [n [-> [Hd _]]]] [d' [n' [-> [_ Hx']]]].
  destruct (prefixb (T ++ d' ++ [n']) (T ++ d ++ [n])) eqn:E; [|right; reflexivity].
  left. rewrite prefixb_common in E. pose proof E as E'.
  apply prefix_snoc in E' as [E' | E'].
  - rewrite E'. reflexivity.
  - rewrite (Hx' d Hd) in E'. discriminate.
Qed.

(* a change confined to a leaf position keeps the invariant *)
Lemma G_leafstep fs fs' d n : In d used -> (forall X, In X used -> prefixb (d ++ [n]) X = false) ->
  local (T ++ d ++ [n]) fs fs' -> G fs -> G fs'.
Proof.
  intros Hd Hx Hl HG X HX. eapply physdir_local; [exact Hl | | apply HG; exact HX].
  rewrite prefixb_common. apply Hx; exact HX.
Qed.

Lemma restore_files_spec ar files : forall fs done,
  (forall pc, In pc files -> leafok (fst pc)) ->
  (forall p, In p done -> leafok p /\ notlink fs p) ->
  G fs ->
  let fs' := restore_files ar fs files in
  local T fs fs' /\ G fs' /\ (forall p, In p done -> notlink fs' p) /\
  (forall pc, In pc files -> notlink fs' (fst pc)).
Proof.
  induction files as [|[p c] files IH]; intros fs done Hf Hd HG; cbn [restore_files fold_left].
  - split; [apply local_refl|]. split; [exact HG|]. split; [intros p Hp; apply Hd; exact Hp | intros pc []].
  - assert (Hlp : leafok p) by (apply (Hf (p, c)); left; reflexivity).
    destruct Hlp as [d [n [Ep [Hdu Hx]]]].
    assert (HD : physdir fs (T ++ d)) by (apply HG; exact Hdu).
    destruct (restore_file_spec fs (T ++ d) n c ar HD) as [fs1 [s [E [Hl Hn]]]].
    rewrite <- app_assoc in E, Hl, Hn. rewrite <- Ep in E, Hl, Hn. cbn [fst snd]. rewrite E. cbn [fst].
    assert (HG1 : G fs1) by (eapply (G_leafstep fs fs1 d n); eauto; rewrite <- Ep; exact Hl).
    assert (Hlp : leafok p) by (exists d, n; auto).
    destruct (IH fs1 (p :: done)) as [Hl2 [HG2 [Hd2 Hf2]]].
    + intros pc Hpc. apply Hf. right; exact Hpc.
    + intros q [<- | Hq]; [split; [exact Hlp | exact Hn]|].
      destruct (Hd q Hq) as [Hlq Hnq]. split; [exact Hlq|].
      destruct (leaf_compat q p Hlq Hlp) as [-> | Hpre]; [exact Hn|].
      intros tg. rewrite (Hl q Hpre). apply Hnq.
    + exact HG1.
    + fold (restore_files ar fs1 files). split.
      * eapply local_trans; [|exact Hl2]. rewrite Ep in Hl. eapply T_prefix_local; exact Hl.
      * split; [exact HG2|]. split.
        -- intros q Hq. apply Hd2. right; exact Hq.
        -- intros pc [<- | Hpc]; [apply Hd2; left; reflexivity | apply Hf2; exact Hpc].
Qed.

(* ---- pass 2 ---- *)
Variable evs : list ev.
Variable FP : list path.
Variable sel : selT.
Variable o : opts.
Variable delete2 : bool.
Variable tracked : list path.

Hypothesis W_visit : forall d nd loc, In (EvVisit d nd loc) evs ->
  In d used /\ (forall X, In X used -> prefixb (d ++ [node_name nd]) X = false) /\ loc = d ++ [node_name nd].
Hypothesis W_leave : forall d mo loc keep, In (EvLeave d mo loc keep) evs ->
  In d used /\
  (forall X e, In X used -> prefixb (d ++ [e]) X = true -> mem_name e keep = true) /\
  (forall d' nd' loc' e, In (EvVisit d' nd' loc') evs -> prefixb (d ++ [e]) (d' ++ [node_name nd']) = true ->
                         mem_name e keep = true).
Hypothesis W_nodup : forall d1 nd1 l1 d2 nd2 l2, In (EvVisit d1 nd1 l1) evs -> In (EvVisit d2 nd2 l2) evs ->
  d1 ++ [node_name nd1] = d2 ++ [node_name nd2] -> nd1 = nd2.
Hypothesis FP_files : forall p, In p FP -> exists d n c m loc, In (EvVisit d (NFile n c m) loc) evs /\ p = T ++ d ++ [n].
Hypothesis tracked_FP : forall l, mem_path l tracked = true ->
  exists d n c m, In (EvVisit d (NFile n c m) l) evs /\ In (T ++ d ++ [n]) FP.

Definition Inv (fs : fsT) : Prop := G fs /\ forall p, In p FP -> notlink fs p.

Lemma FP_leafok p : In p FP -> leafok p.
Proof.
  intros Hp. destruct (FP_files p Hp) as [d [n [c [m [loc [Hin ->]]]]]].
  destruct (W_visit _ _ _ Hin) as [Hd [Hx _]]. exists d, n. auto.
Qed.

Lemma Inv_modeonly fs fs' : modeonly fs fs' -> Inv fs -> Inv fs'.
Proof.
  intros Hm [HG Hn]. split.
  - intros X HX. eapply modeonly_physdir; eauto.
  - intros p Hp. eapply modeonly_notlink; eauto.
Qed.

(* change at a leaf position that is not one of the restored files *)
Lemma Inv_leafstep fs fs' d n : In d used -> (forall X, In X used -> prefixb (d ++ [n]) X = false) ->
  ~ In (T ++ d ++ [n]) FP ->
  local (T ++ d ++ [n]) fs fs' -> Inv fs -> Inv fs'.
Proof.
  intros Hd Hx Hnin Hl [HG Hn]. split; [eapply G_leafstep; eauto|].
  intros p Hp. assert (Hlp : leafok p) by (apply FP_leafok; exact Hp).
  assert (Hlq : leafok (T ++ d ++ [n])) by (exists d, n; auto).
  destruct (leaf_compat p _ Hlp Hlq) as [E | Hpre].
  - exfalso. apply Hnin. rewrite E. exact Hp.
  - intros tg. rewrite (Hl p Hpre). apply Hn; exact Hp.
Qed.

Lemma should_overwrite_cases fs p : should_overwrite o fs p = Some true \/ should_overwrite o fs p <> Some true.
Proof. destruct (should_overwrite o fs p) as [[|]|]; [left; reflexivity | right; discriminate | right; discriminate]. Qed.

Lemma restore_node_local fs D n e chm : physdir fs D -> (forall tg, e <> ELink tg) ->
  local (D ++ [n]) fs (restore_node fs (D ++ [n]) e chm).
Proof.
  intros H He. unfold restore_node. destruct (remove fs (D ++ [n])) as [fs1 s1] eqn:Er.
  assert (Hl1 : local (D ++ [n]) fs fs1) by (eapply remove_local; eauto).
  assert (H1 : physdir fs1 D) by (eapply physdir_local; [exact Hl1 | apply snoc_not_prefix | exact H]).
  assert (Hrest : local (D ++ [n]) fs
            match create fs1 (D ++ [n]) e with
            | (fs2, Ok) => match chm with Some m => chmod fs2 (D ++ [n]) m | None => fs2 end
            | (fs2, _) => fs2 end).
  { destruct (create fs1 (D ++ [n]) e) as [fs2 s2] eqn:Ec.
    assert (Hl2 : local (D ++ [n]) fs1 fs2) by (eapply create_local; eauto).
    assert (Hl12 : local (D ++ [n]) fs fs2) by (eapply local_trans; eauto).
    destruct s2; [|exact Hl12|exact Hl12]. destruct chm as [m|]; [|exact Hl12].
    destruct (create_snoc _ _ _ _ _ _ H1 Ec) as [[_ [Hs _]] | [-> _]]; [contradiction|].
    eapply local_trans; [exact Hl12|]. apply chmod_spec.
    - eapply physdir_local; [apply local_set | apply snoc_not_prefix | exact H1].
    - intros tg. rewrite look_set, path_eqb_refl. intros E. inversion E. eapply He; eauto. }
  destruct s1; [exact Hrest | exact Hrest | exact Hl1].
Qed.

Lemma restore_node_link_local fs D n tg : physdir fs D ->
  local (D ++ [n]) fs (restore_node fs (D ++ [n]) (ELink tg) None).
Proof.
  intros H. unfold restore_node. destruct (remove fs (D ++ [n])) as [fs1 s1] eqn:Er.
  assert (Hl1 : local (D ++ [n]) fs fs1) by (eapply remove_local; eauto).
  assert (H1 : physdir fs1 D) by (eapply physdir_local; [exact Hl1 | apply snoc_not_prefix | exact H]).
  assert (Hrest : local (D ++ [n]) fs
            match create fs1 (D ++ [n]) (ELink tg) with
            | (fs2, Ok) => fs2 | (fs2, _) => fs2 end).
  { destruct (create fs1 (D ++ [n]) (ELink tg)) as [fs2 s2] eqn:Ec.
    assert (Hl2 : local (D ++ [n]) fs1 fs2) by (eapply create_local; eauto).
    destruct s2; eapply local_trans; eauto. }
  destruct s1; [exact Hrest | exact Hrest | exact Hl1].
Qed.

Lemma T_snoc_split d : exists D0 x, T ++ d = D0 ++ [x] /\ forall fs, physdir fs (T ++ d) -> physdir fs D0.
Proof.
  destruct (rev d) as [|x rd] eqn:E.
  - assert (d = []) by (apply (f_equal (@rev name)) in E; rewrite rev_involutive in E; exact E). subst d.
    exists P, t. rewrite app_nil_r. split; [reflexivity|]. intros fs H. eapply physdir_prefix; exact H.
  - assert (Hd : d = rev rd ++ [x]) by (apply (f_equal (@rev name)) in E; rewrite rev_involutive in E; exact E).
    exists (T ++ rev rd), x. subst d. rewrite app_assoc. split; [reflexivity|].
    intros fs H. try rewrite app_assoc in H. eapply physdir_prefix; exact H.
Qed.

Lemma pass2_step fs e : In e evs -> Inv fs ->
  Inv (pass2_ev o sel delete2 T tracked fs e) /\ local T fs (pass2_ev o sel delete2 T tracked fs e).
Proof.
  intros He HI. destruct e as [d | d nd loc | d mo loc keep]; cbn [pass2_ev].
  - split; [exact HI | apply local_refl].
  - destruct (W_visit _ _ _ He) as [Hd [Hx Hloc]].
    assert (HD : physdir fs (T ++ d)) by (apply (proj1 HI); exact Hd).
    assert (Hnotfile : forall n, node_name nd = n -> (forall c m, nd <> NFile n c m) -> ~ In (T ++ d ++ [n]) FP).
    { intros n En Hnf Hin. destruct (FP_files _ Hin) as [d2 [n2 [c2 [m2 [loc2 [Hin2 E2]]]]]].
      apply app_inv_head in E2.
      assert (nd = NFile n2 c2 m2).
      { eapply W_nodup; [exact He | exact Hin2 |]. rewrite En. exact E2. }
      subst nd. cbn in En. subst n2. eapply Hnf; reflexivity. }
    destruct nd as [n c m | n m sub | n tg | n m | n]; cbn [node_name] in *.
    + (* tracked regular file: chmod *)
      destruct (mem_path loc tracked) eqn:Etr; [|split; [exact HI | apply local_refl]].
      destruct (tracked_FP loc Etr) as [d0 [n0 [c0 [m0 [Hin0 HFP]]]]].
      destruct (W_visit _ _ _ Hin0) as [_ [_ Hloc0]]. cbn [node_name] in Hloc0.
      assert (Epath : T ++ d0 ++ [n0] = T ++ d ++ [n]) by (f_equal; congruence).
      rewrite Epath in HFP.
      assert (Hnl : notlink fs ((T ++ d) ++ [n])) by (rewrite <- app_assoc; apply (proj2 HI); exact HFP).
      destruct (chmod_spec fs (T ++ d) n m HD Hnl) as [Hl Hm]. rewrite <- app_assoc in Hl, Hm.
      split; [eapply Inv_modeonly; eauto | eapply T_prefix_local; exact Hl].
    + split; [exact HI | apply local_refl].
    + destruct (should_overwrite_cases fs (T ++ d ++ [n])) as [E | E].
      * rewrite E. pose proof (restore_node_link_local fs (T ++ d) n tg HD) as Hl. rewrite <- app_assoc in Hl.
        split; [|eapply T_prefix_local; exact Hl].
        eapply (Inv_leafstep fs _ d n); eauto. apply (Hnotfile n eq_refl). intros c m; discriminate.
      * destruct (should_overwrite o fs (T ++ d ++ [n])) as [[|]|]; try congruence; (split; [exact HI | apply local_refl]).
    + destruct (should_overwrite_cases fs (T ++ d ++ [n])) as [E | E].
      * rewrite E.
        assert (Hl : local ((T ++ d) ++ [n]) fs (restore_node fs ((T ++ d) ++ [n]) (ESpec mode_file_default) (Some m))).
        { apply restore_node_local; [exact HD | intros tg; discriminate]. }
        rewrite <- app_assoc in Hl.
        split; [|eapply T_prefix_local; exact Hl].
        eapply (Inv_leafstep fs _ d n); eauto. apply (Hnotfile n eq_refl). intros c m'; discriminate.
      * destruct (should_overwrite o fs (T ++ d ++ [n])) as [[|]|]; try congruence; (split; [exact HI | apply local_refl]).
    + split; [exact HI | apply local_refl].
  - destruct (W_leave _ _ _ _ He) as [Hd [Hku Hkl]].
    destruct (T_snoc_split d) as [D0 [x [ED HD0]]].
    (* the deletions *)
    assert (Hdel : exists fs1 s1, (if delete2 then remove_unexpected sel fs (T ++ d) loc keep else (fs, Ok)) = (fs1, s1) /\
                                  Inv fs1 /\ local T fs fs1).
    { destruct delete2; [|exists fs, Ok; split; [reflexivity|]; split; [exact HI | apply local_refl]].
      unfold remove_unexpected.
      assert (HD : physdir fs (T ++ d)) by (apply (proj1 HI); exact Hd).
      rewrite ED. rewrite (lstat_snoc _ _ _ (HD0 fs HD)). rewrite <- ED.
      destruct (physdir_last fs D0 x) as [m0 Hm0]; [rewrite <- ED; exact HD|]. rewrite <- ED in Hm0. rewrite Hm0.
      cbn [is_dir]. eexists _, Ok. split; [reflexivity|].
      generalize (children fs (T ++ d)). intros names.
      assert (Hgen : forall f, Inv f -> local T fs f ->
         Inv (fold_left (fun f n => if mem_name n keep then f
                                    else if fst (sel (loc ++ [n]) false) then fst (remove_all f ((T ++ d) ++ [n])) else f) names f) /\
         local T fs (fold_left (fun f n => if mem_name n keep then f
                                    else if fst (sel (loc ++ [n]) false) then fst (remove_all f ((T ++ d) ++ [n])) else f) names f)).
      { induction names as [|e names IHn]; intros f Hf Hlf; cbn [fold_left]; [split; assumption|].
        destruct (mem_name e keep) eqn:Ek; [apply IHn; assumption|].
        destruct (fst (sel (loc ++ [e]) false)); [|apply IHn; assumption].
        assert (HDf : physdir f (T ++ d)) by (apply (proj1 Hf); exact Hd).
        rewrite (remove_all_snoc _ _ _ HDf). cbn [fst].
        assert (Hl : local (T ++ d ++ [e]) f (rmall f ((T ++ d) ++ [e]))) by (rewrite app_assoc; apply local_rmall).
        apply IHn.
        - eapply (Inv_leafstep f _ d e); eauto.
          + intros X HX. destruct (prefixb (d ++ [e]) X) eqn:Ep; [|reflexivity].
            rewrite (Hku X e HX Ep) in Ek. discriminate.
          + intros Hin. destruct (FP_files _ Hin) as [d2 [n2 [c2 [m2 [loc2 [Hin2 E2]]]]]].
            apply app_inv_head in E2.
            assert (Ep : prefixb (d ++ [e]) (d2 ++ [node_name (NFile n2 c2 m2)]) = true).
            { cbn [node_name]. rewrite <- E2. apply prefixb_refl. }
            rewrite (Hkl _ _ _ e Hin2 Ep) in Ek. discriminate.
        - eapply local_trans; [exact Hlf|]. eapply T_prefix_local; exact Hl. }
      apply Hgen; [exact HI | apply local_refl]. }
    destruct Hdel as [fs1 [s1 [E [HI1 Hl1]]]]. rewrite E.
    assert (Hch : forall m, Inv (chmod fs1 (T ++ d) m) /\ local T fs (chmod fs1 (T ++ d) m)).
    { intros m. assert (HD : physdir fs1 (T ++ d)) by (apply (proj1 HI1); exact Hd).
      rewrite ED. rewrite ED in HD.
      destruct (chmod_spec fs1 D0 x m (HD0 fs1 ltac:(rewrite ED; exact HD))) as [Hl Hm].
      - intros tg Ht. destruct (physdir_last _ _ _ HD) as [m' Hm']. congruence.
      - split; [eapply Inv_modeonly; eauto|]. eapply local_trans; [exact Hl1|].
        eapply local_weaken; [|exact Hl]. rewrite <- ED. apply prefixb_app. }
    destruct s1; [destruct mo as [m|]; [apply Hch | split; assumption] | split; assumption | split; assumption].
Qed.

Lemma pass2_fold l : forall fs, (forall e, In e l -> In e evs) -> Inv fs ->
  Inv (fold_left (pass2_ev o sel delete2 T tracked) l fs) /\
  local T fs (fold_left (pass2_ev o sel delete2 T tracked) l fs).
Proof.
  induction l as [|e l IH]; intros fs Hin HI; cbn [fold_left]; [split; [exact HI | apply local_refl]|].
  destruct (pass2_step fs e (Hin e (or_introl eq_refl)) HI) as [HI1 Hl1].
  destruct (IH _ (fun e' H => Hin e' (or_intror H)) HI1) as [HI2 Hl2].
  split; [exact HI2 | eapply local_trans; eauto].
Qed.

End Run.
