(* C18 proofs, part 2: the three phases of RestoreTo over a well-formed event list. *)
From Restic Require Import Base.Prelude Model.C18m Proofs.C18p.
Import C18m.

Lemma prefixb_common (T a b : path) : prefixb (T ++ a) (T ++ b) = prefixb a b.
Proof. induction T as [|x T IH]; cbn [app prefixb]; [reflexivity|]. rewrite bytes_eqb_refl. exact IH. Qed.

Lemma prefix_snoc (a b : path) n : prefixb a (b ++ [n]) = true -> a = b ++ [n] \/ prefixb a b = true.
Proof.
  intros H. apply prefixb_spec in H as [r Hr]. apply app_snoc_split in Hr as [[r' [-> ->]] | [-> ->]].
  - right. apply prefixb_app.
  - left. reflexivity.
Qed.

Definition notlink (fs : fsT) (p : path) : Prop := forall tg, look fs p <> Some (ELink tg).

(* a change that at most replaces entries by the same entry with another mode *)
Definition modeonly (fs fs' : fsT) : Prop :=
  forall q, look fs' q = look fs q \/ exists e m, look fs q = Some e /\ look fs' q = Some (with_mode e m).

Lemma modeonly_physdir fs fs' X : modeonly fs fs' -> physdir fs X -> physdir fs' X.
Proof.
  intros Hm HX a b E Ha. destruct (HX a b E Ha) as [m Hl].
  destruct (Hm a) as [Hq | [e [m' [H1 H2]]]].
  - exists m. rewrite Hq; exact Hl.
  - rewrite Hl in H1. inversion H1; subst e. exists m'. exact H2.
Qed.

Lemma modeonly_notlink fs fs' p : modeonly fs fs' -> notlink fs p -> notlink fs' p.
Proof.
  intros Hm Hn tg Hl. destruct (Hm p) as [Hq | [e [m' [H1 H2]]]].
  - rewrite Hq in Hl. exact (Hn tg Hl).
  - rewrite H2 in Hl. destruct e; cbn in Hl; try discriminate. inversion Hl; subst. exact (Hn _ H1).
Qed.

Lemma follow_S k fs p : follow (S k) fs p =
  match locate fs p with
  | ROk q =>
      match q with
      | [] => Some []
      | _ => match look fs q with
             | Some (ELink t) => follow k fs t
             | Some _ => Some q
             | None => None
             end
      end
  | _ => None
  end.
Proof. reflexivity. Qed.

Lemma chmod_spec fs D n m : physdir fs D -> notlink fs (D ++ [n]) ->
  local (D ++ [n]) fs (chmod fs (D ++ [n]) m) /\ modeonly fs (chmod fs (D ++ [n]) m).
Proof.
  intros H Hn. unfold chmod, link_fuel. rewrite follow_S. rewrite (locate_snoc _ _ _ H).
  rewrite match_snoc.
  destruct (look fs (D ++ [n])) as [e|] eqn:El.
  - assert (Hset : local (D ++ [n]) fs (set fs (D ++ [n]) (with_mode e m)) /\
                   modeonly fs (set fs (D ++ [n]) (with_mode e m))).
    { split; [apply local_set|].
      intros q. rewrite look_set. destruct (path_eqb (D ++ [n]) q) eqn:E.
      + apply path_eqb_spec in E; subst q. right. exists e, m. auto.
      + left; reflexivity. }
    destruct e; try (rewrite El; exact Hset). exfalso. exact (Hn _ El).
  - split; [apply local_refl | intros q; left; reflexivity].
Qed.

Lemma remove_dir_only_fails fs D n fs' s : physdir fs D -> remove fs (D ++ [n]) = (fs', s) -> s <> Ok ->
  fs' = fs /\ (look fs (D ++ [n]) = None \/ exists m, look fs (D ++ [n]) = Some (EDir m)).
Proof.
  intros H R Hs. unfold remove in R. rewrite (lstat_snoc _ _ _ H) in R.
  destruct (look fs (D ++ [n])) as [e|] eqn:El.
  - rewrite match_snoc in R. destruct e as [m| | |]; cbn [is_dir andb] in R.
    + destruct (has_child fs (D ++ [n])); inversion R; subst; [|contradiction].
      split; [reflexivity | right; exists m; reflexivity].
    + inversion R; subst; contradiction.
    + inversion R; subst; contradiction.
    + inversion R; subst; contradiction.
  - inversion R; subst. split; [reflexivity | left; reflexivity].
Qed.

Lemma create_fresh fs D n e : physdir fs D -> look fs (D ++ [n]) = None ->
  create fs (D ++ [n]) e = (set fs (D ++ [n]) e, Ok).
Proof. intros H Hl. unfold create. rewrite match_snoc, (locate_snoc _ _ _ H), Hl. reflexivity. Qed.

Lemma remove_all_snoc fs D n : physdir fs D -> remove_all fs (D ++ [n]) = (rmall fs (D ++ [n]), Ok).
Proof. intros H. unfold remove_all. rewrite match_snoc, (locate_snoc _ _ _ H). reflexivity. Qed.

Lemma notlink_set_file fs p c m : notlink (set fs p (EFile c m)) p.
Proof. intros tg. rewrite look_set, path_eqb_refl. discriminate. Qed.

Lemma restore_file_spec fs D n c ar : physdir fs D ->
  exists fs' s, restore_file fs (D ++ [n]) c ar = (fs', s) /\ local (D ++ [n]) fs fs' /\ notlink fs' (D ++ [n]).
Proof.
  intros H. unfold restore_file. rewrite match_snoc, (locate_snoc _ _ _ H).
  assert (Hrepl : forall f, physdir f D -> look f (D ++ [n]) = None -> local (D ++ [n]) fs f ->
     exists fs' s,
       match create f (D ++ [n]) (EFile c mode_file_default) with
       | (fs2, Ok) => (fs2, Ok) | (fs2, _) => (fs2, Err) end = (fs', s) /\
       local (D ++ [n]) fs fs' /\ notlink fs' (D ++ [n])).
  { intros f Hf Hl Hloc. rewrite (create_fresh _ _ _ _ Hf Hl). eexists _, _. split; [reflexivity|].
    split; [eapply local_trans; [exact Hloc | apply local_set] | apply notlink_set_file]. }
  assert (Hother : forall e, look fs (D ++ [n]) = Some e -> (forall tg, e <> ELink tg -> is_dir e = true \/ is_dir e = false) ->
     exists fs' s,
       match (if ar then remove_all fs (D ++ [n]) else remove fs (D ++ [n])) with
       | (fs1, Ok) => match create fs1 (D ++ [n]) (EFile c mode_file_default) with
                      | (fs2, Ok) => (fs2, Ok) | (fs2, _) => (fs2, Err) end
       | (fs1, _) => (fs1, Err)
       end = (fs', s) /\ local (D ++ [n]) fs fs' /\ (is_dir e = false \/ is_dir e = true -> notlink fs' (D ++ [n]) \/ True) /\
       (notlink fs' (D ++ [n]) \/ (fs' = fs /\ is_dir e = true))).
  { intros e El _. destruct ar.
    - rewrite (remove_all_snoc _ _ _ H).
      destruct (Hrepl (rmall fs (D ++ [n]))) as [fs' [s [E [Hl Hn]]]].
      + eapply physdir_local; [apply local_rmall | apply snoc_not_prefix | exact H].
      + rewrite look_rmall, prefixb_refl; reflexivity.
      + apply local_rmall.
      + exists fs', s. rewrite E. repeat split; auto.
    - destruct (remove fs (D ++ [n])) as [f1 s1] eqn:Er.
      destruct s1.
      + destruct (remove_snoc _ _ _ _ _ H Er) as [[_ Hs] | [-> _]]; [contradiction|].
        destruct (Hrepl (del fs (D ++ [n]))) as [fs' [s [E [Hl Hn]]]].
        * eapply physdir_local; [apply local_del | apply snoc_not_prefix | exact H].
        * rewrite look_del, path_eqb_refl; reflexivity.
        * apply local_del.
        * exists fs', s. rewrite E. repeat split; auto.
      + destruct (remove_dir_only_fails _ _ _ _ _ H Er) as [-> Hd]; [discriminate|].
        exists fs, Err. split; [reflexivity|]. split; [apply local_refl|]. split; [auto|].
        right. split; [reflexivity|]. destruct Hd as [Hd | [m Hd]]; rewrite El in Hd; [discriminate|].
        inversion Hd; reflexivity.
      + destruct (remove_dir_only_fails _ _ _ _ _ H Er) as [-> Hd]; [discriminate|].
        exists fs, Err. split; [reflexivity|]. split; [apply local_refl|]. split; [auto|].
        right. split; [reflexivity|]. destruct Hd as [Hd | [m Hd]]; rewrite El in Hd; [discriminate|].
        inversion Hd; reflexivity. }
  destruct (look fs (D ++ [n])) as [e|] eqn:El.
  - destruct e as [m | c0 m | tg | m].
    + destruct (Hother (EDir m) eq_refl) as [fs' [s [E [Hl [_ Hn]]]]]; [auto|].
      exists fs', s. split; [exact E|]. split; [exact Hl|].
      destruct Hn as [Hn | [-> _]]; [exact Hn|]. intros tg Ht. rewrite El in Ht; discriminate.
    + eexists _, _. split; [reflexivity|]. split; [apply local_set | apply notlink_set_file].
    + destruct (Hother (ELink tg) eq_refl) as [fs' [s [E [Hl [_ Hn]]]]]; [auto|].
      exists fs', s. split; [exact E|]. split; [exact Hl|].
      destruct Hn as [Hn | [_ Hd]]; [exact Hn | discriminate].
    + destruct (Hother (ESpec m) eq_refl) as [fs' [s [E [Hl [_ Hn]]]]]; [auto|].
      exists fs', s. split; [exact E|]. split; [exact Hl|].
      destruct Hn as [Hn | [_ Hd]]; [exact Hn | discriminate].
  - eexists _, _. split; [reflexivity|]. split; [apply local_set | apply notlink_set_file].
Qed.

Section Run.
Variable P : path.
Variable t : name.
Let T : path := P ++ [t].

Lemma T_prefix_local d n fs fs' : local (T ++ d ++ [n]) fs fs' -> local T fs fs'.
Proof. apply local_weaken. apply prefixb_app. Qed.

(* ---- ensureDirBelow ---- *)
Lemma ensure_root fs : physdir fs P ->
  exists fs', ensure_below fs T [] = (fs', Ok) /\ local T fs fs' /\ mono fs fs' /\ physdir fs' T.
Proof.
  intros H. cbn [ensure_below]. destruct (ensure_dir_snoc fs P t H) as [fs' [E [Hl [Hm [Hp _]]]]].
  exists fs'. auto.
Qed.

Lemma ensure_below_spec fs rel : physdir fs T ->
  exists fs', ensure_below fs T rel = (fs', Ok) /\ local T fs fs' /\ mono fs fs' /\ physdir fs' (T ++ rel).
Proof.
  intros H. destruct rel as [|c rel].
  - destruct (ensure_root fs (physdir_prefix _ _ _ H)) as [fs' [E [Hl [Hm Hp]]]].
    exists fs'. rewrite app_nil_r. auto.
  - cbn [ensure_below]. destruct (ensure_chain_ok (c :: rel) fs T H) as [fs' [E [Hm [Hp Hq]]]].
    exists fs'. split; [exact E|]. split; [|auto]. intros q Hq'. apply Hq. left; exact Hq'.
Qed.

(* ---- metadata restore and hard links below a real directory ---- *)
Lemma restore_meta_spec fs D n m : physdir fs D ->
  local (D ++ [n]) fs (restore_meta fs (D ++ [n]) m) /\ modeonly fs (restore_meta fs (D ++ [n]) m).
Proof.
  intros H. unfold restore_meta. rewrite (lstat_snoc _ _ _ H).
  destruct (look fs (D ++ [n])) as [e|] eqn:El.
  - destruct e as [m0 | c0 m0 | tg | m0];
      try (apply chmod_spec; [exact H | intros tg' Ht; rewrite El in Ht; discriminate]).
    split; [apply local_refl | intros q; left; reflexivity].
  - apply chmod_spec; [exact H | intros tg' Ht; rewrite El in Ht; discriminate].
Qed.

Lemma link_local fs old D n fs' s : physdir fs D -> link fs old (D ++ [n]) = (fs', s) -> local (D ++ [n]) fs fs'.
Proof.
  intros H. unfold link. destruct (lstat fs old) as [q e| |].
  - destruct (is_dir e); [intros R; inversion R; apply local_refl | intros R; eapply create_local; eauto].
  - intros R; inversion R; apply local_refl.
  - intros R; inversion R; apply local_refl.
Qed.

(* ---- pass 1 ---- *)
Lemma pass1_step o s e : physdir (p_fs s) T ->
  let s' := pass1_ev o T s e in
  physdir (p_fs s') T /\ mono (p_fs s) (p_fs s') /\ local T (p_fs s) (p_fs s') /\
  (forall d, In d (ensured_of [e]) -> physdir (p_fs s') (T ++ d)) /\
  (p_files s' = p_files s \/
   exists d nd loc c, e = EvVisit d nd loc /\ p_files s' = p_files s ++ [(T ++ d ++ [node_name nd], c)]) /\
  (p_idx s' = p_idx s \/
   exists d nd loc ino, e = EvVisit d nd loc /\ p_idx s' = (ino, loc) :: p_idx s).
Proof.
  intros H. destruct e as [d | d nd loc | d mo loc keep]; cbn [pass1_ev].
  - destruct (ensure_below_spec (p_fs s) d H) as [fs' [E [Hl [Hm Hp]]]]. rewrite E. cbn [fst p_fs p_files p_tracked p_idx].
    split; [eapply physdir_mono; eauto|]. split; [exact Hm|]. split; [exact Hl|].
    split; [|split; left; reflexivity]. cbn. intros d' [<- | []]. exact Hp.
  - destruct (ensure_below_spec (p_fs s) d H) as [fs' [E [Hl [Hm Hp]]]]. rewrite E.
    assert (Hbase : physdir fs' T) by (eapply physdir_mono; eauto).
    assert (Hens : forall d', In d' (ensured_of [EvVisit d nd loc]) -> physdir fs' (T ++ d')).
    { cbn. intros d' [<- | []]. exact Hp. }
    assert (Hreg : forall idx n c, node_name nd = n ->
              let s' := reg_file o T fs' s idx d n c loc in
              p_fs s' = fs' /\ p_idx s' = idx /\
              (p_files s' = p_files s \/ p_files s' = p_files s ++ [(T ++ d ++ [node_name nd], c)])).
    { intros idx n c <-. unfold reg_file. destruct (should_overwrite o fs' (T ++ d ++ [node_name nd])) as [[|]|];
        cbn [p_fs p_idx p_files]; auto. }
    destruct nd as [n c m | n m sub | n tg | n m | n | n c m ino]; cbn [p_fs p_files p_tracked p_idx];
      try (split; [exact Hbase|]; split; [exact Hm|]; split; [exact Hl|]; split; [exact Hens|]; split; left; reflexivity).
    + destruct (Hreg (p_idx s) n c eq_refl) as [E1 [E2 E3]]. rewrite E1, E2.
      split; [exact Hbase|]. split; [exact Hm|]. split; [exact Hl|]. split; [exact Hens|]. split; [|left; reflexivity].
      destruct E3 as [E3 | E3]; [left; exact E3 | right; exists d, (NFile n c m), loc, c; auto].
    + destruct (idx_find ino (p_idx s)); cbn [p_fs p_files p_tracked p_idx].
      * split; [exact Hbase|]. split; [exact Hm|]. split; [exact Hl|]. split; [exact Hens|]. split; left; reflexivity.
      * destruct (Hreg ((ino, loc) :: p_idx s) n c eq_refl) as [E1 [E2 E3]]. rewrite E1, E2.
        split; [exact Hbase|]. split; [exact Hm|]. split; [exact Hl|]. split; [exact Hens|]. split.
        -- destruct E3 as [E3 | E3]; [left; exact E3 | right; exists d, (NHard n c m ino), loc, c; auto].
        -- right. exists d, (NHard n c m ino), loc, ino. auto.
  - split; [exact H|]. split; [apply mono_refl|]. split; [apply local_refl|]. split; [intros d' []|]. split; left; reflexivity.
Qed.

Lemma ensured_of_app a b : ensured_of (a ++ b) = ensured_of a ++ ensured_of b.
Proof. unfold ensured_of. apply flat_map_app. Qed.

Lemma pass1_fold o evs : forall s, physdir (p_fs s) T ->
  let s' := fold_left (pass1_ev o T) evs s in
  physdir (p_fs s') T /\ mono (p_fs s) (p_fs s') /\ local T (p_fs s) (p_fs s') /\
  (forall d, In d (ensured_of evs) -> physdir (p_fs s') (T ++ d)) /\
  (forall pc, In pc (p_files s') -> In pc (p_files s) \/
      exists d nd loc, In (EvVisit d nd loc) evs /\ fst pc = T ++ d ++ [node_name nd]) /\
  (forall iv, In iv (p_idx s') -> In iv (p_idx s) \/ exists d nd, In (EvVisit d nd (snd iv)) evs).
Proof.
  induction evs as [|e evs IH]; intros s H; cbn [fold_left].
  - split; [exact H|]. split; [apply mono_refl|]. split; [apply local_refl|].
    split; [intros d []|]. split; auto.
  - destruct (pass1_step o s e H) as [H1 [Hm1 [Hl1 [He1 [Hf1 Hi1]]]]].
    destruct (IH (pass1_ev o T s e) H1) as [H2 [Hm2 [Hl2 [He2 [Hf2 Hi2]]]]].
    split; [exact H2|]. split; [eapply mono_trans; eauto|]. split; [eapply local_trans; eauto|].
    split; [|split].
    + intros d Hd. change (e :: evs) with ([e] ++ evs) in Hd. rewrite ensured_of_app in Hd.
      apply in_app_or in Hd as [Hd | Hd]; [|apply He2; exact Hd].
      eapply physdir_mono; [exact Hm2 | apply He1; exact Hd].
    + intros pc Hpc. destruct (Hf2 pc Hpc) as [Hin | [d [nd [loc [Hin Hp]]]]].
      * destruct Hf1 as [Ef | [d [nd [loc [c [-> Ef]]]]]].
        -- left. rewrite <- Ef. exact Hin.
        -- rewrite Ef in Hin. apply in_app_or in Hin as [Hin | [<- | []]]; [left; exact Hin|].
           right. exists d, nd, loc. split; [left; reflexivity | reflexivity].
      * right. exists d, nd, loc. split; [right; exact Hin | exact Hp].
    + intros iv Hiv. destruct (Hi2 iv Hiv) as [Hin | [d [nd Hin]]].
      * destruct Hi1 as [Ei | [d [nd [loc [ino [-> Ei]]]]]].
        -- left. rewrite <- Ei. exact Hin.
        -- rewrite Ei in Hin. destruct Hin as [<- | Hin]; [|left; exact Hin].
           right. exists d, nd. left; reflexivity.
      * right. exists d, nd. right; exact Hin.
Qed.

(* ---- phases 2 and 3 over a fixed set of used directories ---- *)
Variable used : list path.

Definition G (fs : fsT) : Prop := forall X, In X used -> physdir fs (T ++ X).

(* a leaf position: below a used directory, not above any used directory *)
Definition leafok (p : path) : Prop :=
  exists d n, p = T ++ d ++ [n] /\ In d used /\ (forall X, In X used -> prefixb (d ++ [n]) X = false).

(* a change confined to a leaf position keeps the invariant *)
Lemma G_leafstep fs fs' d n : In d used -> (forall X, In X used -> prefixb (d ++ [n]) X = false) ->
  local (T ++ d ++ [n]) fs fs' -> G fs -> G fs'.
Proof.
  intros Hd Hx Hl HG X HX. eapply physdir_local; [exact Hl | | apply HG; exact HX].
  rewrite prefixb_common. apply Hx; exact HX.
Qed.

Lemma G_modeonly fs fs' : modeonly fs fs' -> G fs -> G fs'.
Proof. intros Hm HG X HX. eapply modeonly_physdir; eauto. Qed.

Lemma restore_files_spec ar files : forall fs,
  (forall pc, In pc files -> leafok (fst pc)) -> G fs ->
  local T fs (restore_files ar fs files) /\ G (restore_files ar fs files).
Proof.
  induction files as [|[p c] files IH]; intros fs Hf HG; cbn [restore_files fold_left].
  - split; [apply local_refl | exact HG].
  - assert (Hnext : forall f1, local T fs f1 -> G f1 ->
              local T fs (fold_left (fun f pc => if N.eqb (snd pc) bad_content then f
                             else fst (restore_file f (fst pc) (snd pc) ar)) files f1) /\
              G (fold_left (fun f pc => if N.eqb (snd pc) bad_content then f
                             else fst (restore_file f (fst pc) (snd pc) ar)) files f1)).
    { intros f1 Hl1 HG1. destruct (IH f1) as [Hl2 HG2]; [intros pc Hpc; apply Hf; right; exact Hpc | exact HG1|].
      unfold restore_files in Hl2, HG2. split; [eapply local_trans; eauto | exact HG2]. }
    cbn [fst snd]. destruct (N.eqb c bad_content); [apply Hnext; [apply local_refl | exact HG]|].
    assert (Hlp : leafok p) by (apply (Hf (p, c)); left; reflexivity).
    destruct Hlp as [d [n [Ep [Hdu Hx]]]].
    assert (HD : physdir fs (T ++ d)) by (apply HG; exact Hdu).
    destruct (restore_file_spec fs (T ++ d) n c ar HD) as [fs1 [s [E [Hl _]]]].
    rewrite <- app_assoc in E, Hl. rewrite <- Ep in E. rewrite E. cbn [fst].
    apply Hnext.
    + eapply T_prefix_local; exact Hl.
    + eapply (G_leafstep fs fs1 d n); eauto.
Qed.

(* ---- pass 2 ---- *)
Variable evs : list ev.
Variable sel : selT.
Variable o : opts.
Variable delete2 : bool.
Variable tracked : list path.
Variable idx : list (N * path).

Hypothesis W_visit : forall d nd loc, In (EvVisit d nd loc) evs ->
  In d used /\ (forall X, In X used -> prefixb (d ++ [node_name nd]) X = false) /\ loc = d ++ [node_name nd].
Hypothesis W_leave : forall d mo loc keep, In (EvLeave d mo loc keep) evs ->
  In d used /\
  (forall X e, In X used -> prefixb (d ++ [e]) X = true -> mem_name e keep = true) /\
  (forall d' nd' loc' e, In (EvVisit d' nd' loc') evs -> prefixb (d ++ [e]) (d' ++ [node_name nd']) = true ->
                         mem_name e keep = true).
Hypothesis idx_ok : forall ino v, idx_find ino idx = Some v -> exists d nd, In (EvVisit d nd v) evs.

Lemma should_overwrite_cases fs p : should_overwrite o fs p = Some true \/ should_overwrite o fs p <> Some true.
Proof. destruct (should_overwrite o fs p) as [[|]|]; [left; reflexivity | right; discriminate | right; discriminate]. Qed.

Lemma restore_node_local fs D n e chm : physdir fs D ->
  local (D ++ [n]) fs (restore_node fs (D ++ [n]) e chm).
Proof.
  intros H. unfold restore_node. destruct (remove fs (D ++ [n])) as [fs1 s1] eqn:Er.
  assert (Hl1 : local (D ++ [n]) fs fs1) by (eapply remove_local; eauto).
  assert (H1 : physdir fs1 D) by (eapply physdir_local; [exact Hl1 | apply snoc_not_prefix | exact H]).
  assert (Hrest : local (D ++ [n]) fs
            match create fs1 (D ++ [n]) e with
            | (fs2, Ok) => match chm with Some m => restore_meta fs2 (D ++ [n]) m | None => fs2 end
            | (fs2, _) => fs2 end).
  { destruct (create fs1 (D ++ [n]) e) as [fs2 s2] eqn:Ec.
    assert (Hl2 : local (D ++ [n]) fs1 fs2) by (eapply create_local; eauto).
    assert (Hl12 : local (D ++ [n]) fs fs2) by (eapply local_trans; eauto).
    destruct s2; [|exact Hl12|exact Hl12]. destruct chm as [m|]; [|exact Hl12].
    eapply local_trans; [exact Hl12|]. apply restore_meta_spec.
    eapply physdir_local; [exact Hl2 | apply snoc_not_prefix | exact H1]. }
  destruct s1; [exact Hrest | exact Hrest | exact Hl1].
Qed.

Lemma T_snoc_split d : exists D0 x, T ++ d = D0 ++ [x] /\ forall fs, physdir fs (T ++ d) -> physdir fs D0.
Proof.
  destruct (rev d) as [|x rd] eqn:E.
  - assert (d = []) by (apply (f_equal (@rev name)) in E; rewrite rev_involutive in E; exact E). subst d.
    exists P, t. rewrite app_nil_r. split; [reflexivity|]. intros fs H. eapply physdir_prefix; exact H.
  - assert (Hd : d = rev rd ++ [x]) by (apply (f_equal (@rev name)) in E; rewrite rev_involutive in E; exact E).
    exists (T ++ rev rd), x. subst d. rewrite app_assoc. split; [reflexivity|].
    intros fs H. try rewrite app_assoc in H. eapply physdir_prefix; exact H.
Qed.

(* metadata restore at the path of a visited leaf *)
Lemma meta_leaf fs d nd loc m : In (EvVisit d nd loc) evs -> G fs ->
  G (restore_meta fs (T ++ d ++ [node_name nd]) m) /\ local T fs (restore_meta fs (T ++ d ++ [node_name nd]) m).
Proof.
  intros He HG. destruct (W_visit _ _ _ He) as [Hd _].
  assert (HD : physdir fs (T ++ d)) by (apply HG; exact Hd).
  destruct (restore_meta_spec fs (T ++ d) (node_name nd) m HD) as [Hl Hm]. rewrite <- app_assoc in Hl, Hm.
  split; [eapply G_modeonly; eauto | eapply T_prefix_local; exact Hl].
Qed.

Lemma pass2_step fs e : In e evs -> G fs ->
  G (pass2_ev o sel delete2 T tracked idx fs e) /\ local T fs (pass2_ev o sel delete2 T tracked idx fs e).
Proof.
  intros He HI. destruct e as [d | d nd loc | d mo loc keep]; cbn [pass2_ev].
  - split; [exact HI | apply local_refl].
  - destruct (W_visit _ _ _ He) as [Hd [Hx Hloc]].
    assert (HD : physdir fs (T ++ d)) by (apply HI; exact Hd).
    assert (Hleaf : forall fs', local ((T ++ d) ++ [node_name nd]) fs fs' -> G fs' /\ local T fs fs').
    { intros fs' Hl. rewrite <- app_assoc in Hl. split; [eapply (G_leafstep fs fs' d (node_name nd)); eauto | eapply T_prefix_local; exact Hl]. }
    destruct nd as [n c m | n m sub | n tg | n m | n | n c m ino]; cbn [node_name] in *.
    + destruct (mem_path loc tracked); [|split; [exact HI | apply local_refl]].
      apply (meta_leaf fs d (NFile n c m) loc m He HI).
    + split; [exact HI | apply local_refl].
    + destruct (should_overwrite o fs (T ++ d ++ [n])) as [[|]|]; try (split; [exact HI | apply local_refl]).
      rewrite app_assoc. apply Hleaf. apply restore_node_local; exact HD.
    + destruct (should_overwrite o fs (T ++ d ++ [n])) as [[|]|]; try (split; [exact HI | apply local_refl]).
      rewrite app_assoc. apply Hleaf. apply restore_node_local; exact HD.
    + split; [exact HI | apply local_refl].
    + assert (Hmeta : G (if mem_path loc tracked then restore_meta fs (T ++ d ++ [n]) m else fs) /\
                      local T fs (if mem_path loc tracked then restore_meta fs (T ++ d ++ [n]) m else fs)).
      { destruct (mem_path loc tracked); [|split; [exact HI | apply local_refl]].
        apply (meta_leaf fs d (NHard n c m ino) loc m He HI). }
      destruct (idx_find ino idx) as [v|] eqn:Ei; [|exact Hmeta].
      destruct (path_eqb v loc); [exact Hmeta|].
      destruct (should_overwrite o fs (T ++ d ++ [n])) as [[|]|]; try (split; [exact HI | apply local_refl]).
      (* restoreHardlinkAt *)
      destruct (idx_ok _ _ Ei) as [d0 [nd0 He0]].
      destruct (W_visit _ _ _ He0) as [Hd0 [_ Hv]].
      unfold restore_hardlink. rewrite (app_assoc T d [n]).
      destruct (remove fs ((T ++ d) ++ [n])) as [fs1 s1] eqn:Er.
      assert (Hl1 : local ((T ++ d) ++ [n]) fs fs1) by (eapply remove_local; eauto).
      assert (H1 : physdir fs1 (T ++ d)) by (eapply physdir_local; [exact Hl1 | apply snoc_not_prefix | exact HD]).
      assert (Hrest : G match link fs1 (T ++ v) ((T ++ d) ++ [n]) with
                        | (fs2, Ok) => restore_meta (restore_meta fs2 ((T ++ d) ++ [n]) m) (T ++ v) m
                        | (fs2, _) => fs2 end /\
                      local T fs match link fs1 (T ++ v) ((T ++ d) ++ [n]) with
                        | (fs2, Ok) => restore_meta (restore_meta fs2 ((T ++ d) ++ [n]) m) (T ++ v) m
                        | (fs2, _) => fs2 end).
      { destruct (link fs1 (T ++ v) ((T ++ d) ++ [n])) as [fs2 s2] eqn:El.
        assert (Hl2 : local ((T ++ d) ++ [n]) fs1 fs2) by (eapply link_local; eauto).
        assert (H2 : physdir fs2 (T ++ d)) by (eapply physdir_local; [exact Hl2 | apply snoc_not_prefix | exact H1]).
        destruct (restore_meta_spec fs2 (T ++ d) n m H2) as [Hl3 _].
        assert (Hl13 : local ((T ++ d) ++ [n]) fs (restore_meta fs2 ((T ++ d) ++ [n]) m)).
        { eapply local_trans; [exact Hl1|]. eapply local_trans; [exact Hl2 | exact Hl3]. }
        assert (Hl12 : local ((T ++ d) ++ [n]) fs fs2) by (eapply local_trans; [exact Hl1 | exact Hl2]).
        destruct s2; [|apply Hleaf; exact Hl12 | apply Hleaf; exact Hl12].
        destruct (Hleaf _ Hl13) as [HG3 HT3].
        set (fs3 := restore_meta fs2 ((T ++ d) ++ [n]) m) in *.
        assert (HD0 : physdir fs3 (T ++ d0)) by (apply HG3; exact Hd0).
        destruct (restore_meta_spec fs3 (T ++ d0) (node_name nd0) m HD0) as [Hl4 Hm4].
        rewrite Hv. rewrite (app_assoc T d0). split; [eapply G_modeonly; eauto|].
        eapply local_trans; [exact HT3|]. eapply local_weaken; [|exact Hl4].
        rewrite <- app_assoc. apply prefixb_app. }
      destruct s1; [exact Hrest | exact Hrest | apply Hleaf; exact Hl1].
  - destruct (W_leave _ _ _ _ He) as [Hd [Hku Hkl]].
    destruct (T_snoc_split d) as [D0 [x [ED HD0]]].
    assert (Hdel : exists fs1 s1, (if delete2 then remove_unexpected sel fs (T ++ d) loc keep else (fs, Ok)) = (fs1, s1) /\
                                  G fs1 /\ local T fs fs1).
    { destruct delete2; [|exists fs, Ok; split; [reflexivity|]; split; [exact HI | apply local_refl]].
      unfold remove_unexpected.
      assert (HD : physdir fs (T ++ d)) by (apply HI; exact Hd).
      rewrite ED. rewrite (lstat_snoc _ _ _ (HD0 fs HD)). rewrite <- ED.
      destruct (physdir_last fs D0 x) as [m0 Hm0]; [rewrite <- ED; exact HD|]. rewrite <- ED in Hm0. rewrite Hm0.
      cbn [is_dir]. eexists _, Ok. split; [reflexivity|].
      generalize (children fs (T ++ d)). intros names.
      assert (Hgen : forall f, G f -> local T fs f ->
         G (fold_left (fun f n => if mem_name n keep then f
                                    else if fst (sel (loc ++ [n]) false) then fst (remove_all f ((T ++ d) ++ [n])) else f) names f) /\
         local T fs (fold_left (fun f n => if mem_name n keep then f
                                    else if fst (sel (loc ++ [n]) false) then fst (remove_all f ((T ++ d) ++ [n])) else f) names f)).
      { induction names as [|e names IHn]; intros f Hf Hlf; cbn [fold_left]; [split; assumption|].
        destruct (mem_name e keep) eqn:Ek; [apply IHn; assumption|].
        destruct (fst (sel (loc ++ [e]) false)); [|apply IHn; assumption].
        assert (HDf : physdir f (T ++ d)) by (apply Hf; exact Hd).
        rewrite (remove_all_snoc _ _ _ HDf). cbn [fst].
        assert (Hl : local (T ++ d ++ [e]) f (rmall f ((T ++ d) ++ [e]))) by (rewrite app_assoc; apply local_rmall).
        apply IHn.
        - eapply (G_leafstep f _ d e); eauto.
          intros X HX. destruct (prefixb (d ++ [e]) X) eqn:Ep; [|reflexivity].
          rewrite (Hku X e HX Ep) in Ek. discriminate.
        - eapply local_trans; [exact Hlf|]. eapply T_prefix_local; exact Hl. }
      apply Hgen; [exact HI | apply local_refl]. }
    destruct Hdel as [fs1 [s1 [E [HI1 Hl1]]]]. rewrite E.
    assert (Hch : forall m, G (restore_meta fs1 (T ++ d) m) /\ local T fs (restore_meta fs1 (T ++ d) m)).
    { intros m. assert (HD : physdir fs1 (T ++ d)) by (apply HI1; exact Hd).
      rewrite ED. rewrite ED in HD.
      destruct (restore_meta_spec fs1 D0 x m (HD0 fs1 ltac:(rewrite ED; exact HD))) as [Hl Hm].
      split; [eapply G_modeonly; eauto|]. eapply local_trans; [exact Hl1|].
      eapply local_weaken; [|exact Hl]. rewrite <- ED. apply prefixb_app. }
    destruct s1; [destruct mo as [m|]; [apply Hch | split; assumption] | split; assumption | split; assumption].
Qed.

Lemma pass2_fold l : forall fs, (forall e, In e l -> In e evs) -> G fs ->
  G (fold_left (pass2_ev o sel delete2 T tracked idx) l fs) /\
  local T fs (fold_left (pass2_ev o sel delete2 T tracked idx) l fs).
Proof.
  induction l as [|e l IH]; intros fs Hin HI; cbn [fold_left]; [split; [exact HI | apply local_refl]|].
  destruct (pass2_step fs e (Hin e (or_introl eq_refl)) HI) as [HI1 Hl1].
  destruct (IH _ (fun e' H => Hin e' (or_intror H)) HI1) as [HI2 Hl2].
  split; [exact HI2 | eapply local_trans; eauto].
Qed.

End Run.
