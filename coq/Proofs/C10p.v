(* C10 proofs: oracle meaning, classification invariants of the decidePackAction model, totals. *)
From Restic Require Import Base.Prelude Model.S_Prune Proofs.S_Prunep Proofs.S_Prunep2 Model.C10m.
From Coq Require Import ZifyBool ZifyNat ZifyN.
Import SPrune C10m.
Open Scope N_scope.

Lemma nodupb_NoDup l : nodupb l = true <-> NoDup l.
Proof.
  induction l as [|x l IH]; cbn [nodupb].
  - split; [constructor | reflexivity].
  - rewrite andb_true_iff, negb_true_iff, IH. split.
    + intros [H1 H2]. constructor; [|exact H2]. intros Hin. apply memN_In in Hin. congruence.
    + intros H. inversion H; subst. split; [|assumption].
      destruct (memN x l) eqn:E; [|reflexivity]. apply memN_In in E. contradiction.
Qed.

Lemma subsetN_incl a b : subsetN a b = true <-> incl a b.
Proof.
  unfold subsetN, incl. rewrite forallb_forall. split; intros H x Hx.
  - apply memN_In, H, Hx.
  - apply memN_In, H, Hx.
Qed.

Lemma seteqN_spec a b : seteqN a b = true <-> (incl a b /\ incl b a).
Proof. unfold seteqN. rewrite andb_true_iff, !subsetN_incl. tauto. Qed.

(* ---------- what the ground-truth oracle means (full prune, no --repack-cacheable-only) ---------- *)
Definition no_waste (c : case) : Prop :=
  (forall e, In e (c_after_es c) -> In (e_h e) (c_used c)) /\
  NoDup (map e_h (c_after_es c)) /\
  (incl (packs_of (c_after_es c)) (c_after_packs c) /\ incl (c_after_packs c) (packs_of (c_after_es c))) /\
  (forall h, In h (c_used c) -> exists e, In e (c_after_es c) /\ e_h e = h).

Lemma oracle_no_waste c f r p i k s :
  c_obs c = Plan f r p i k s -> o_cacheable (c_opts c) = false -> check_C10 c = true -> no_waste c.
Proof.
  unfold check_C10, oracle. intros Ho Hc H. rewrite Ho, Hc in H. cbn [negb andb] in H.
  destruct (forallb (fun e => memN (e_h e) (c_used c)) (c_after_es c)) eqn:E1; cbn [negb] in H; [|discriminate].
  destruct (nodupb (map e_h (c_after_es c))) eqn:E2; cbn [negb] in H; [|discriminate].
  destruct (seteqN (packs_of (c_after_es c)) (c_after_packs c)) eqn:E3; cbn [negb] in H; [|discriminate].
  destruct (forallb (fun h => existsb (fun e => e_h e =? h) (c_after_es c)) (c_used c)) eqn:E4; cbn [negb] in H; [|discriminate].
  split; [|split; [|split]].
  - rewrite forallb_forall in E1. intros e He. apply memN_In, E1, He.
  - apply nodupb_NoDup, E2.
  - apply seteqN_spec, E3.
  - rewrite forallb_forall in E4. intros h Hh. specialize (E4 h Hh).
    apply existsb_exists in E4 as [e [He1 He2]]. apply N.eqb_eq in He2. exists e. split; assumption.
Qed.

Lemma oracle_counts c f r p i k s :
  c_obs c = Plan f r p i k s -> o_cacheable (c_opts c) = false -> check_C10 c = true ->
  st_nth s 3 = lenN (c_es c) /\ st_nth s 0 = lenN (dedupN (c_used c) []) /\
  st_nth s 25 = lenN (c_listing c) /\ st_nth s 8 = lenN (c_after_es c) /\ st_nth s 20 = 0.
Proof.
  unfold check_C10, oracle. intros Ho Hc H. rewrite Ho, Hc in H. cbn [negb andb] in H.
  repeat match type of H with
  | context [if negb ?b then _ else _] => let E := fresh "E" in destruct b eqn:E; cbn [negb] in H; [|discriminate]
  | context [if ?a && negb ?b then _ else _] =>
      let E := fresh "E" in destruct b eqn:E; cbn [negb] in H; rewrite ?andb_false_r, ?andb_true_r in H; try discriminate
  end.
  all: repeat split; apply N.eqb_eq; assumption.
Qed.

(* ---------- classification invariants of the decidePackAction model ---------- *)
Section Decide.
Variables (o : dopts) (s : st) (pks : list N) (tgt : N).

Definition cls_inv (d : dst) : Prop :=
  (forall p, In p (d_remove d) -> usedB (ip s p) = 0) /\
  (forall p, In p (d_kept d) -> 0 < usedB (ip s p) /\ (o_cacheable o = false -> unusedB (ip s p) = 0)) /\
  (forall c, In c (d_cand d) -> 0 < usedB (snd c) /\ snd c = ip s (fst c)) /\
  (forall c, In c (d_small d) -> 0 < usedB (snd c) /\ unusedB (snd c) = 0 /\ snd c = ip s (fst c)) /\
  (forall p, In p (d_first d) -> ~ In p pks).

Lemma d_step_inv d x : cls_inv d -> cls_inv (d_step o s pks tgt d x).
Proof.
  intros [I1 [I2 [I3 [I4 I5]]]]. unfold d_step.
  destruct (memN (fst x) pks) eqn:Em; cbn [negb].
  2:{ repeat split; cbn; auto; try (intros; apply I2; assumption); try (intros; apply I3; assumption); try (intros; apply I4; assumption).
      - intros p [<-|Hp]; [|apply I5, Hp]. intros Hin. apply memN_In in Hin. congruence. }
  destruct (negb (total (ip s (fst x)) =? snd x) && negb (usedB (ip s (fst x)) =? 0)).
  { repeat split; cbn; auto; try (intros; apply I2; assumption); try (intros; apply I3; assumption); try (intros; apply I4; assumption). }
  destruct (N.eqb_spec (usedB (ip s (fst x))) 0) as [U0|U0].
  { repeat split; cbn; auto; try (intros; apply I2; assumption); try (intros; apply I3; assumption); try (intros; apply I4; assumption).
    intros p [<-|Hp]; [exact U0 | apply I1, Hp]. }
  assert (Upos : 0 < usedB (ip s (fst x))) by lia.
  destruct (o_cacheable o && (tpe (ip s (fst x)) =? 1)) eqn:Ec.
  { repeat split; cbn; auto; try (intros; apply I3; assumption); try (intros; apply I4; assumption).
    - destruct H as [<-|H]; [exact Upos | apply I2, H].
    - destruct H as [<-|H]; [|apply I2; assumption]. intros Hc. rewrite Hc in Ec. discriminate. }
  destruct ((unusedB (ip s (fst x)) =? 0) && negb (tpe (ip s (fst x)) =? 0) &&
            negb ((2 <=? o_version o) && ((tpe (ip s (fst x)) =? 2) || o_uncomp o) && uncomp (ip s (fst x)))) eqn:Ek.
  - apply andb_true_iff in Ek as [Ek _]. apply andb_true_iff in Ek as [Ek _]. apply N.eqb_eq in Ek.
    destruct (tgt <=? snd x).
    + repeat split; cbn; auto; try (intros; apply I3; assumption); try (intros; apply I4; assumption).
      * destruct H as [<-|H]; [exact Upos | apply I2, H].
      * destruct H as [<-|H]; [intros _; exact Ek | apply I2; assumption].
    + repeat split; cbn; auto; try (intros; apply I2; assumption); try (intros; apply I3; assumption).
      * destruct H as [<-|H]; [exact Upos | apply I4, H].
      * destruct H as [<-|H]; [exact Ek | apply I4, H].
      * destruct H as [<-|H]; [reflexivity | apply I4, H].
  - repeat split; cbn; auto; try (intros; apply I2; assumption); try (intros; apply I4; assumption).
    + destruct H as [<-|H]; [exact Upos | apply I3, H].
    + destruct H as [<-|H]; [reflexivity | apply I3, H].
Qed.

Lemma d_fold_inv listing : forall d, cls_inv d -> cls_inv (fold_left (d_step o s pks tgt) listing d).
Proof. induction listing as [|x l IH]; intros d H; [exact H|]. cbn [fold_left]. apply IH, d_step_inv, H. Qed.

Lemma cls_inv_init : cls_inv (mkD [] [] [] [] 0 0 0 0 0 0 0 0 [] [] false).
Proof. repeat split; cbn; intros; contradiction. Qed.
End Decide.

(* Every pack the model plans to delete outright (remove or ignore) holds no selected copy, every pack
   it repacks or keeps holds one; so every used, indexed handle has its selected copy outside the
   removed packs. *)
Theorem plan_remove_safe o used es listing f r p i k stats :
  plan_prune o used es listing = Plan f r p i k stats ->
  (forall q, In q r -> usedB (ip (final kc used es) q) = 0) /\
  (forall q, In q i -> usedB (ip (final kc used es) q) = 0) /\
  (forall q, In q p -> 0 < usedB (ip (final kc used es) q)) /\
  (forall q, In q f -> ~ In q (packs_of es)).
Proof.
  unfold plan_prune. destruct (pack_info kc used es) as [| |s] eqn:Ep; try discriminate.
  assert (Hs : s = final kc used es).
  { unfold pack_info in Ep. destruct (existsb _ used); [discriminate|].
    fold (final kc used es) in Ep. destruct (forallb _ used); [inversion Ep; reflexivity | discriminate]. }
  subst s.
  set (s := final kc used es). set (pks := packs_of es). set (tgt := target_size o s pks).
  pose proof (d_fold_inv o s pks tgt listing _ (cls_inv_init o s pks)) as [I1 [I2 [I3 [I4 I5]]]].
  set (d := fold_left (d_step o s pks tgt) listing (mkD [] [] [] [] 0 0 0 0 0 0 0 0 [] [] false)) in *.
  destruct (d_err d); [discriminate|].
  destruct (existsb (fun q => negb (usedB (ip s q) =? 0)) (filter (fun q => negb (memN q (d_seen d))) pks)) eqn:Em; [discriminate|].
  intros H. inversion H; subst; clear H. split; [exact I1|]. split; [|split; [|exact I5]].
  - intros q Hq. destruct (N.eqb_spec (usedB (ip s q)) 0) as [E|E]; [exact E|]. exfalso.
    assert (X : existsb (fun q => negb (usedB (ip s q) =? 0)) (filter (fun q => negb (memN q (d_seen d))) pks) = true).
    { apply existsb_exists. exists q. split; [exact Hq|]. apply negb_true_iff, N.eqb_neq, E. }
    congruence.
  - intros q Hq. apply in_map_iff in Hq as [c [<- Hc]].
    destruct (N.of_nat (length (d_small d)) <? 10).
    + destruct (I3 c Hc) as [Hp Hq]. rewrite <- Hq. exact Hp.
    + apply in_app_or in Hc as [Hc|Hc].
      * destruct (I3 c Hc) as [Hp Hq]. rewrite <- Hq. exact Hp.
      * destruct (I4 c Hc) as [Hp [_ Hq]]. rewrite <- Hq. exact Hp.
Qed.

Theorem used_blob_survives_removal o used es listing f r p i k stats h :
  plan_prune o used es listing = Plan f r p i k stats ->
  In h used -> (1 <= cnt_h h es)%nat ->
  exists e, In e es /\ e_h e = h /\ ~ In (e_pack e) r /\ ~ In (e_pack e) i.
Proof.
  intros Hp Hu Hk. destruct (plan_remove_safe _ _ _ _ _ _ _ _ _ _ Hp) as [R1 [R2 _]].
  destruct (selected_copy_in_used_pack kc used es h Hu Hk) as [e [H1 [H2 H3]]].
  exists e. repeat split; try assumption.
  - intros X. rewrite (R1 _ X) in H3. lia.
  - intros X. rewrite (R2 _ X) in H3. lia.
Qed.

(* ---------- no unused blob stays indexed: model level ---------- *)
Lemma c10_dedupN_In l : forall seen x, In x l -> ~ In x seen -> In x (dedupN l seen).
Proof.
  induction l as [|y l IH]; intros seen x Hin Hs; [destruct Hin|]. cbn [dedupN].
  destruct (memN y seen) eqn:E.
  - destruct Hin as [->|Hin]; [apply memN_In in E; contradiction | apply IH; assumption].
  - destruct (N.eq_dec x y) as [->|Hn]; [left; reflexivity|]. right.
    destruct Hin as [->|Hin]; [congruence|]. apply IH; [exact Hin|]. intros [->|H]; [congruence | contradiction].
Qed.

Lemma c10_dedupN_incl l : forall seen x, In x (dedupN l seen) -> In x l.
Proof.
  induction l as [|y l IH]; intros seen x H; [destruct H|]. cbn [dedupN] in H.
  destruct (memN y seen); [right; eapply IH, H|]. destruct H as [->|H]; [left; reflexivity | right; eapply IH, H].
Qed.

Definition classified (d : dst) (q : N) : Prop :=
  In q (d_remove d) \/ In q (map fst (d_cand d)) \/ In q (map fst (d_small d)) \/ In q (d_kept d).

Lemma d_step_classified o s pks tgt d x :
  (d_err d = false -> forall q, In q (d_seen d) -> classified d q) ->
  d_err (d_step o s pks tgt d x) = false -> forall q, In q (d_seen (d_step o s pks tgt d x)) -> classified (d_step o s pks tgt d x) q.
Proof.
  intros H. unfold d_step, classified in *.
  repeat match goal with |- context [if ?b then _ else _] => destruct b end;
    cbn [d_err d_seen d_remove d_cand d_small d_kept map fst In]; intros He q Hq;
    try discriminate;
    try (destruct Hq as [<-|Hq]; [tauto|]);
    destruct (H He q Hq) as [X|[X|[X|X]]]; tauto.
Qed.

Lemma d_fold_classified o s pks tgt l : forall d,
  (d_err d = false -> forall q, In q (d_seen d) -> classified d q) ->
  d_err (fold_left (d_step o s pks tgt) l d) = false ->
  forall q, In q (d_seen (fold_left (d_step o s pks tgt) l d)) -> classified (fold_left (d_step o s pks tgt) l d) q.
Proof.
  induction l as [|x l IH]; intros d H; [exact H|]. cbn [fold_left]. apply IH. apply d_step_classified, H.
Qed.

(* After a full prune (no --repack-cacheable-only) planned by the model, every index entry that survives
   (its pack is neither removed, repacked nor ignored) belongs to a used blob, and so does every blob
   kept for repacking: the index after the prune lists no blob that is unreachable from a snapshot. *)
Theorem no_unused_after_model o used es listing f r p i k stats :
  plan_prune o used es listing = Plan f r p i k stats -> o_cacheable o = false ->
  (forall e, In e es -> ~ In (e_pack e) (r ++ p ++ i) -> In (e_h e) used) /\
  (forall h, In h k -> In h used).
Proof.
  intros Hp Hc. pose proof Hp as Hp0. revert Hp.
  unfold plan_prune. destruct (pack_info kc used es) as [| |s] eqn:Ep; try discriminate.
  assert (Hs : s = final kc used es).
  { unfold pack_info in Ep. destruct (existsb _ used); [discriminate|].
    fold (final kc used es) in Ep. destruct (forallb _ used); [inversion Ep; reflexivity | discriminate]. }
  subst s.
  set (s := final kc used es). set (pks := packs_of es). set (tgt := target_size o s pks).
  pose proof (d_fold_inv o s pks tgt listing _ (cls_inv_init o s pks)) as [I1 [I2 [I3 [I4 I5]]]].
  assert (Hcl0 : d_err (mkD [] [] [] [] 0 0 0 0 0 0 0 0 [] [] false) = false ->
                 forall q, In q (d_seen (mkD [] [] [] [] 0 0 0 0 0 0 0 0 [] [] false)) -> classified (mkD [] [] [] [] 0 0 0 0 0 0 0 0 [] [] false) q)
    by (cbn; intros _ q []).
  pose proof (d_fold_classified o s pks tgt listing _ Hcl0) as Hcl.
  set (d := fold_left (d_step o s pks tgt) listing (mkD [] [] [] [] 0 0 0 0 0 0 0 0 [] [] false)) in *.
  destruct (d_err d) eqn:Ed; [discriminate|].
  destruct (existsb (fun q => negb (usedB (ip s q) =? 0)) (filter (fun q => negb (memN q (d_seen d))) pks)) eqn:Em; [discriminate|].
  intros H. inversion H; subst; clear H. split.
  - intros e He Hn. set (q := e_pack e) in *.
    assert (Hq : In q pks) by (unfold pks, packs_of; apply c10_dedupN_In; [apply in_map, He | intros []]).
    assert (Hseen : In q (d_seen d)).
    { destruct (memN q (d_seen d)) eqn:E; [apply memN_In, E|]. exfalso. apply Hn.
      apply in_or_app. right. apply in_or_app. right. apply filter_In. split; [exact Hq|]. rewrite E. reflexivity. }
    assert (Hz : unusedB (ip s q) = 0).
    { destruct (Hcl eq_refl q Hseen) as [X|[X|[X|X]]].
      - exfalso. apply Hn. apply in_or_app. left. exact X.
      - exfalso. apply Hn. apply in_or_app. right. apply in_or_app. left.
        destruct (N.of_nat (length (d_small d)) <? 10); [exact X | rewrite map_app; apply in_or_app; left; exact X].
      - apply in_map_iff in X as [c [Hc1 Hc2]]. destruct (I4 c Hc2) as [_ [Hu Heq]]. rewrite <- Hc1, <- Heq. exact Hu.
      - destruct (I2 q X) as [_ Hu]. apply Hu, Hc. }
    eapply all_used_pack_entries; [exact Hz | exact He | reflexivity].
  - intros h Hh.
    match type of Hh with In h (match ?rp with [] => [] | _ => _ end) => destruct rp; [destruct Hh|] end.
    unfold keep_blobs in Hh. apply filter_In in Hh as [Hh _]. eapply c10_dedupN_incl, Hh.
Qed.

(* Blobs.Total of the model's statistics is the number of index entries, for every input *)
Theorem blobs_total_exact o used es listing f r p i k s :
  plan_prune o used es listing = Plan f r p i k s -> st_nth s 3 = lenN es.
Proof.
  unfold plan_prune. destruct (pack_info kc used es) as [| |s0] eqn:Ep; try discriminate.
  assert (Hs : s0 = final kc used es).
  { unfold pack_info in Ep. destruct (existsb _ used); [discriminate|].
    fold (final kc used es) in Ep. destruct (forallb _ used); [inversion Ep; reflexivity | discriminate]. }
  match goal with |- context [d_err ?d] => destruct (d_err d); [discriminate|] end.
  match goal with |- context [existsb ?g ?l] => destruct (existsb g l); [discriminate|] end.
  intros H. inversion H; subst; clear H. unfold st_nth. cbn [nth]. unfold lenN.
  destruct (final_counters_exact kc used es) as [_ [G _]]. lia.
Qed.

(* totals of PlanPrune *)
Theorem plan_totals o used es listing f r p i k s :
  plan_prune o used es listing = Plan f r p i k s ->
  st_nth s 3 = st_nth s 0 + st_nth s 2 + st_nth s 1 /\
  st_nth s 7 = st_nth s 6 + st_nth s 5 /\
  st_nth s 8 = st_nth s 3 - st_nth s 7 /\
  st_nth s 14 = st_nth s 9 + st_nth s 10 + st_nth s 11 + st_nth s 12 /\
  st_nth s 18 = st_nth s 17 + st_nth s 16 + st_nth s 12 /\
  st_nth s 19 = st_nth s 14 - st_nth s 18 /\
  st_nth s 25 = st_nth s 21 + st_nth s 23 + st_nth s 22 + st_nth s 24 /\
  st_nth s 29 = st_nth s 24 + st_nth s 28 /\
  st_nth s 27 = lenN p /\ st_nth s 28 = lenN r /\ st_nth s 24 = lenN f.
Proof.
  unfold plan_prune. destruct (pack_info kc used es) as [| |s0]; try discriminate.
  match goal with |- context [d_err ?d] => destruct (d_err d); [discriminate|] end.
  match goal with |- context [existsb ?f ?l] => destruct (existsb f l); [discriminate|] end.
  intros H. inversion H; subst; clear H. unfold st_nth. cbn [nth]. unfold lenN.
  rewrite map_length. repeat split; reflexivity.
Qed.

(* the model's own outcome passes the "before" part of the oracle trivially by totals; non-vacuity: *)
Definition ex_es : list entry :=
  [mkE 1 1 1 100 false; mkE 1 2 1 50 false; mkE 2 3 1 70 false; mkE 3 1 1 100 false].
Example c10_nonvacuous :
  match plan_prune (mkO 2 0 false false) [1] ex_es [(1, 223); (2, 143); (3, 173); (9, 500)] with
  | Plan f r p i k s => f = [9] /\ r = [2; 1] /\ p = [] /\ st_nth s 0 = 1 /\ st_nth s 1 = 1 /\ st_nth s 2 = 2 /\ st_nth s 26 = 1
  | _ => False
  end.
Proof. vm_compute. repeat split. Qed.
