From Restic Require Import Base.Prelude Gen.ParamsC30 Model.C30m.
Import C30m.

Lemma init_created_iff v l :
  is_created (init_decide v l) = supported v && negb (occupied l).
Proof.
  unfold init_decide, supported, occupied.
  destruct (v >? max_version)%Z eqn:E1; rewrite Z.gtb_ltb in E1.
  - assert ((v <=? max_version)%Z = false) as -> by (apply Z.leb_gt; apply Z.ltb_lt in E1; lia).
    rewrite andb_false_r. reflexivity.
  - assert ((v <=? max_version)%Z = true) as -> by (apply Z.leb_le; apply Z.ltb_ge in E1; lia).
    destruct (v <? min_version)%Z eqn:E2.
    + assert ((min_version <=? v)%Z = false) as -> by (apply Z.leb_gt; apply Z.ltb_lt in E2; lia).
      reflexivity.
    + assert ((min_version <=? v)%Z = true) as -> by (apply Z.leb_le; apply Z.ltb_ge in E2; lia).
      cbn [andb]. destruct (l_config l); [reflexivity|].
      destruct (existsb is_id (l_keys l)); [reflexivity|].
      destruct (existsb is_id (l_snaps l)); reflexivity.
Qed.

(* init refuses every occupied location, whatever the version, and then performs no operation *)
Lemma init_refuses v l :
  occupied l = true -> exists r, init_decide v l = Refused r /\ init_ops (init_decide v l) = NoOps.
Proof.
  intros Hocc. pose proof (init_created_iff v l) as H. rewrite Hocc, andb_false_r in H.
  destruct (init_decide v l) as [r|v'] eqn:E; [|discriminate].
  exists r. split; reflexivity.
Qed.

Lemma occupied_iff l :
  occupied l = true <->
  l_config l = true \/ (exists k, In k (l_keys l) /\ is_id k = true) \/ (exists s, In s (l_snaps l) /\ is_id s = true).
Proof.
  unfold occupied. rewrite !orb_true_iff, !existsb_exists. tauto.
Qed.

Lemma init_created_same_version v l v' : init_decide v l = Created v' -> v' = v.
Proof.
  unfold init_decide.
  destruct (v >? max_version)%Z; [discriminate|]. destruct (v <? min_version)%Z; [discriminate|].
  destruct (l_config l); [discriminate|]. destruct (existsb is_id (l_keys l)); [discriminate|].
  destruct (existsb is_id (l_snaps l)); [discriminate|]. intros H; inversion H; reflexivity.
Qed.

(* ... and initialises every free location for a supported version: one key, then the config *)
Lemma init_creates v l :
  occupied l = false -> supported v = true ->
  init_decide v l = Created v /\ init_ops (init_decide v l) = SaveKeyThenConfig v.
Proof.
  intros Hocc Hs. pose proof (init_created_iff v l) as H. rewrite Hocc, Hs in H. cbn in H.
  destruct (init_decide v l) as [r|v'] eqn:E; [discriminate|].
  apply init_created_same_version in E. subst v'. split; reflexivity.
Qed.

Lemma init_version_supported v l v' :
  init_decide v l = Created v' -> v' = v /\ (v = 1 \/ v = 2)%Z.
Proof.
  intros H. pose proof (init_created_same_version _ _ _ H) as ->. split; [reflexivity|].
  pose proof (init_created_iff v l) as Hc. rewrite H in Hc. cbn [is_created] in Hc.
  symmetry in Hc. apply andb_true_iff in Hc as [Hs _]. unfold supported in Hs.
  apply andb_true_iff in Hs as [H1 H2]. apply Z.leb_le in H1, H2.
  unfold min_version, max_version in *. 
  assert (ParamsC30.min_repo_version = 1%Z) as E1 by reflexivity.
  assert (ParamsC30.max_repo_version = 2%Z) as E2 by reflexivity.
  rewrite E1 in H1. rewrite E2 in H2. lia.
Qed.

(* the defaults of --repository-version are supported versions *)
Lemma cli_defaults_supported :
  parse_version [] = Some max_version /\ parse_version str_latest = Some max_version /\
  parse_version str_stable = Some stable_version /\
  supported max_version = true /\ supported stable_version = true.
Proof. vm_compute. repeat split. Qed.

Lemma cli_refuses vs l :
  occupied l = true -> exists r, cli_init vs l = Refused r.
Proof.
  intros Hocc. unfold cli_init. destruct (parse_version vs) as [v|].
  - destruct (init_refuses v l Hocc) as [r [H _]]. exists r; exact H.
  - eexists; reflexivity.
Qed.

Lemma cli_creates vs l v :
  occupied l = false -> parse_version vs = Some v -> supported v = true -> cli_init vs l = Created v.
Proof.
  intros Hocc Hp Hs. unfold cli_init. rewrite Hp. apply init_creates; assumption.
Qed.

(* the chunker polynomial: external code (chunker.RandomPolynomial, Pol.Irreducible) as Section variables *)
Section Polynomial.
  Variable irreducible : N -> bool.
  Variable random_pol : N -> N.                       (* chunker.RandomPolynomial on a random stream *)
  Hypothesis random_pol_irreducible : forall seed, irreducible (random_pol seed) = true.

  (* restic.CreateConfig *)
  Definition create_config_pol (given : option N) (seed : N) : N :=
    match given with Some p => p | None => random_pol seed end.

  (* a given polynomial comes from LoadConfig of the other repository, which checked it *)
  Lemma created_pol_irreducible given seed :
    (forall p, given = Some p -> irreducible p = true) ->
    irreducible (create_config_pol given seed) = true.
  Proof.
    intros H. unfold create_config_pol. destruct given as [p|]; [apply H; reflexivity | apply random_pol_irreducible].
  Qed.
End Polynomial.

(* ---------- the oracle means the property ---------- *)
Lemma check_C30_sound c :
  check_C30 c = true ->
  let o := c_obs c in
  (* nothing that existed is changed, removed or overwritten, ever *)
  (o_unchanged o = true /\ o_removes o = 0%nat /\ forall s, In s (o_saves o) -> snd s = false) /\
  (* occupied: refused, no write *)
  (occupied (c_loc c) = true -> o_ok o = false /\ o_saves o = []) /\
  (* free: accepted iff the version is supported *)
  (occupied (c_loc c) = false ->
     (o_ok o = true <-> exists v, eff_version c = Some v /\ supported v = true)) /\
  (* accepted: supported version stored, irreducible polynomial, fresh id, exactly one key that the
     password opens, written as key-then-config *)
  (o_ok o = true ->
     supported (o_cfg_version o) = true /\ eff_version c = Some (o_cfg_version o) /\
     o_pol_irreducible o = true /\ o_id_ok o = true /\ o_new_keys o = 1%nat /\ o_opens o = true /\
     saves_eqb (o_saves o) [(1%N, false); (2%N, false)] = true).
Proof.
  unfold check_C30. cbn zeta. intros H.
  apply andb_true_iff in H as [H Hc]. apply andb_true_iff in H as [Hr Ha].
  unfold clause_refuse in Hr. cbn zeta in Hr.
  apply andb_true_iff in Hr as [Hr Hocc]. apply andb_true_iff in Hr as [Hr Hsv].
  apply andb_true_iff in Hr as [Hun Hrm]. apply Nat.eqb_eq in Hrm.
  split.
  { split; [exact Hun|]. split; [exact Hrm|]. intros s Hs. rewrite forallb_forall in Hsv.
    specialize (Hsv s Hs). apply negb_true_iff in Hsv. exact Hsv. }
  split.
  { intros Ho. rewrite Ho in Hocc. apply andb_true_iff in Hocc as [H1 H2].
    apply negb_true_iff in H1. split; [exact H1|]. destruct (o_saves (c_obs c)); [reflexivity | discriminate]. }
  split.
  { intros Ho. unfold clause_accept in Ha. rewrite Ho in Ha.
    destruct (eff_version c) as [v|].
    - apply eqb_prop in Ha. rewrite Ha. split.
      + intros Hs. exists v. split; [reflexivity | exact Hs].
      + intros [v' [E Hs]]. inversion E; subst. exact Hs.
    - apply negb_true_iff in Ha. rewrite Ha. split; [discriminate | intros [v [E _]]; discriminate]. }
  intros Hok. unfold clause_created in Hc. cbn zeta in Hc. rewrite Hok in Hc.
  destruct (eff_version c) as [v|]; [|discriminate].
  apply andb_true_iff in Hc as [Hc Hsaves]. apply andb_true_iff in Hc as [Hc Hopens].
  apply andb_true_iff in Hc as [Hc Hnk]. apply andb_true_iff in Hc as [Hc Hid].
  apply andb_true_iff in Hc as [Hc Hpol]. apply andb_true_iff in Hc as [Hv Hsup].
  apply Z.eqb_eq in Hv. apply Nat.eqb_eq in Hnk.
  rewrite Hv. repeat split; try assumption. rewrite <- Hv; exact Hsup.
Qed.

(* the model's own behaviour always satisfies the oracle *)
Definition model_obs (r : result) : obs :=
  match r with
  | Created v => mkObs true [(1%N, false); (2%N, false)] 0 true v true true 1 true
  | Refused _ => mkObs false [] 0 true 0 true true 0 false
  end.

Lemma model_satisfies_oracle cli vs v l :
  let c0 := mk cli vs v l (mkObs false [] 0 true 0 true true 0 false) in
  check_C30 (mk cli vs v l (model_obs (model_result c0))) = true.
Proof.
  cbn zeta. unfold model_result. cbn [c_cli c_vstr c_version c_loc].
  unfold check_C30, clause_refuse, clause_accept, clause_created, eff_version.
  cbn [c_cli c_vstr c_version c_loc c_obs].
  destruct cli.
  - unfold cli_init. destruct (parse_version vs) as [v0|].
    + pose proof (init_created_iff v0 l) as Hi.
      destruct (init_decide v0 l) as [r|v'] eqn:E; cbn [model_obs is_created] in *; cbn.
      * destruct (occupied l); cbn; [reflexivity|]. rewrite andb_true_r in Hi. rewrite <- Hi. reflexivity.
      * apply init_created_same_version in E as E'. subst v'.
        symmetry in Hi. apply andb_true_iff in Hi as [Hs Ho]. apply negb_true_iff in Ho.
        rewrite Ho, Hs, Z.eqb_refl. reflexivity.
    + cbn. destruct (occupied l); reflexivity.
  - pose proof (init_created_iff v l) as Hi.
    destruct (init_decide v l) as [r|v'] eqn:E; cbn [model_obs is_created] in *; cbn.
    + destruct (occupied l); cbn; [reflexivity|]. rewrite andb_true_r in Hi. rewrite <- Hi. reflexivity.
    + apply init_created_same_version in E as E'. subst v'.
      symmetry in Hi. apply andb_true_iff in Hi as [Hs Ho]. apply negb_true_iff in Ho.
      rewrite Ho, Hs, Z.eqb_refl. reflexivity.
Qed.

(* ---------- non-vacuity ---------- *)
From Coq Require Import String. Open Scope string_scope.
Definition ex_id : bytes := str "00112233445566778899aabbccddeeff00112233445566778899AABBCCDDEEFF".
Example c30_nonvacuous :
  is_id ex_id = true /\ is_id (str "README") = false /\
  init_decide 2 (mkLoc false [] [] 0 0 0) = Created 2 /\
  init_decide 1 (mkLoc false [str "README"] [] 3 5 1) = Created 1 /\
  init_decide 2 (mkLoc false [ex_id] [] 0 0 0) = Refused HasKeys /\
  init_decide 2 (mkLoc false [] [ex_id] 0 0 0) = Refused HasSnapshots /\
  init_decide 2 (mkLoc true [] [] 0 0 0) = Refused HasConfig /\
  init_decide 0 (mkLoc false [] [] 0 0 0) = Refused TooLow /\
  init_decide 3 (mkLoc false [] [] 0 0 0) = Refused TooHigh /\
  cli_init (str "02") (mkLoc false [] [] 0 0 0) = Created 2 /\
  cli_init (str "+2") (mkLoc false [] [] 0 0 0) = Refused BadVersionString /\
  cli_init (str "4294967297") (mkLoc false [] [] 0 0 0) = Refused BadVersionString.
Proof. vm_compute. repeat split. Qed.
