From Restic Require Import Base.Prelude Model.C55m.
Import C55m.

(* ---- walk: membership characterisations ---- *)

Ltac c55_break := repeat match goal with
  | H : exists _, _ |- _ => destruct H
  | H : _ /\ _ |- _ => destruct H
  | H : _ \/ _ |- _ => destruct H
  | H : False |- _ => destruct H
  end; subst; try congruence.

Ltac c55_solve := split; intros H; c55_break; try solve [eauto 9].

Lemma walk_spec t id :
  (In id (fst (walk t)) <-> exists k f, reached t id k f /\ save_outcome k f = Saved)
  /\ (In id (snd (walk t)) <-> exists k f, reached t id k f /\ save_outcome k f = Failed).
Proof.
  induction t as [|i k0 f0 sub IHs rest IHr]; cbn [walk reached].
  - cbn. split; c55_solve.
  - destruct (walk rest) as [sr er]. destruct IHr as [IHr1 IHr2]. cbn [fst snd] in IHr1, IHr2.
    destruct (save_outcome k0 f0) eqn:Eo.
    + destruct k0.
      * cbn [fst snd In]. rewrite IHr1, IHr2. split; c55_solve.
      * destruct (walk sub) as [ss es]. destruct IHs as [IHs1 IHs2]. cbn [fst snd In] in *.
        rewrite !in_app_iff, IHs1, IHs2, IHr1, IHr2. split; c55_solve.
      * cbn [fst snd In]. rewrite IHr1, IHr2. split; c55_solve.
      * cbn [fst snd In]. rewrite IHr1, IHr2. split; c55_solve.
    + cbn [fst snd In]. rewrite IHr1, IHr2. split; c55_solve.
    + cbn [fst snd In]. rewrite IHr1, IHr2. split; c55_solve.
Qed.

Lemma walk_targets_spec ts id :
  (In id (fst (walk_targets ts)) <-> exists k f, reached_ts ts id k f /\ save_outcome k f = Saved)
  /\ (In id (snd (walk_targets ts)) <-> exists k f, reached_ts ts id k f /\ save_outcome k f = Failed).
Proof.
  unfold reached_ts. induction ts as [|t r [IH1 IH2]]; cbn [walk_targets].
  - cbn. split; c55_solve.
  - destruct (walk_targets r) as [s2 e2]. cbn [fst snd] in IH1, IH2.
    pose proof (walk_spec (t_tree t) id) as [W1 W2].
    destruct (t_exists t) eqn:Ee.
    + destruct (walk (t_tree t)) as [s1 e1]. cbn [fst snd In] in *.
      rewrite !in_app_iff, W1, W2, IH1, IH2. split; c55_solve.
    + cbn [fst snd app In]. rewrite IH1, IH2. split; c55_solve.
Qed.

(* ---- the command's result ---- *)

Definition some_target_exists (ts : list target) : Prop := exists t, In t ts /\ t_exists t = true.

Lemma none_exist_false ts : some_target_exists ts -> forallb (fun t => negb (t_exists t)) ts = false.
Proof.
  intros [t [Ht He]]. destruct (forallb _ ts) eqn:E; [|reflexivity].
  rewrite forallb_forall in E. specialize (E t Ht). rewrite He in E. discriminate.
Qed.

Lemma backup_unfold ts : some_target_exists ts ->
  backup ts = mkRes (if forallb t_exists ts && match snd (walk_targets ts) with [] => true | _ => false end
                     then ENone else EInvalidSource) true (fst (walk_targets ts)) (snd (walk_targets ts)).
Proof.
  intros H. unfold backup. rewrite (none_exist_false ts H). destruct (walk_targets ts); reflexivity.
Qed.

Definition some_failed (ts : list target) : Prop :=
  exists id k f, reached_ts ts id k f /\ save_outcome k f = Failed.
Definition some_missing (ts : list target) : Prop := exists t, In t ts /\ t_exists t = false.

Lemma errs_nonempty_iff ts : snd (walk_targets ts) <> [] <-> some_failed ts.
Proof.
  split.
  - intros H. destruct (snd (walk_targets ts)) as [|id l] eqn:E; [congruence|].
    destruct (walk_targets_spec ts id) as [_ W]. rewrite E in W.
    destruct (proj1 W (or_introl eq_refl)) as [k [f Hkf]]. exists id, k, f; exact Hkf.
  - intros [id [k [f Hkf]]] E. destruct (walk_targets_spec ts id) as [_ W].
    rewrite E in W. apply (proj2 W). exists k, f; exact Hkf.
Qed.

Lemma missing_iff ts : forallb t_exists ts = false <-> some_missing ts.
Proof.
  split.
  - intros H. induction ts as [|t r IH]; [discriminate|]. cbn [forallb] in H.
    destruct (t_exists t) eqn:E.
    + destruct (IH H) as [t' [Ht He]]. exists t'; split; [right; exact Ht | exact He].
    + exists t; split; [left; reflexivity | exact E].
  - intros [t [Ht He]]. destruct (forallb t_exists ts) eqn:E; [|reflexivity].
    rewrite forallb_forall in E. rewrite (E t Ht) in He. discriminate.
Qed.

Lemma exit_spec ts : some_target_exists ts ->
  (exit_code (r_err (backup ts)) = 3%N <-> some_missing ts \/ some_failed ts)
  /\ (exit_code (r_err (backup ts)) = 0%N <-> ~ (some_missing ts \/ some_failed ts))
  /\ r_snapshot (backup ts) = true.
Proof.
  intros H. rewrite (backup_unfold ts H). cbn [r_err r_snapshot].
  destruct (forallb t_exists ts) eqn:Ea; cbn [andb].
  - destruct (snd (walk_targets ts)) as [|id l] eqn:Ee; cbn [exit_code].
    + assert (Hn : ~ (some_missing ts \/ some_failed ts)).
      { intros [Hm|Hf]; [apply missing_iff in Hm; congruence | apply errs_nonempty_iff in Hf; congruence]. }
      repeat split; try tauto; try discriminate.
    + assert (Hy : some_failed ts) by (apply errs_nonempty_iff; rewrite Ee; discriminate).
      repeat split; try tauto; try discriminate.
  - assert (Hy : some_missing ts) by (apply missing_iff; exact Ea). cbn [exit_code].
    repeat split; try tauto; try discriminate.
Qed.

Lemma snapshot_contains_readable ts id : some_target_exists ts ->
  (In id (r_saved (backup ts)) <-> exists k f, reached_ts ts id k f /\ save_outcome k f = Saved).
Proof. intros H. rewrite (backup_unfold ts H). cbn [r_saved]. apply walk_targets_spec. Qed.

Lemma errors_reported ts id : some_target_exists ts ->
  (In id (r_errors (backup ts)) <-> exists k f, reached_ts ts id k f /\ save_outcome k f = Failed).
Proof. intros H. rewrite (backup_unfold ts H). cbn [r_errors]. apply walk_targets_spec. Qed.

Lemma no_source_is_fatal ts : (forall t, In t ts -> t_exists t = false) ->
  backup ts = mkRes EFatal false [] [].
Proof.
  intros H. unfold backup. replace (forallb (fun t => negb (t_exists t)) ts) with true; [reflexivity|].
  symmetry. apply forallb_forall. intros t Ht. rewrite (H t Ht). reflexivity.
Qed.

(* vanished items are not errors *)
Definition benign (f : fault) : Prop := f = Ok \/ f = VanishOpen \/ f = VanishStat.

Lemma benign_not_failed k f : benign f -> save_outcome k f <> Failed.
Proof. intros [H|[H|H]]; subst f; destruct k; cbn; discriminate. Qed.

Lemma vanished_is_not_error ts :
  ts <> [] -> (forall t, In t ts -> t_exists t = true) ->
  (forall id k f, reached_ts ts id k f -> benign f) ->
  r_err (backup ts) = ENone /\ exit_code (r_err (backup ts)) = 0%N.
Proof.
  intros Hne Hall Hb.
  assert (Hs : some_target_exists ts).
  { destruct ts as [|t r]; [congruence|]. exists t; split; [left; reflexivity | apply Hall; left; reflexivity]. }
  destruct (exit_spec ts Hs) as [_ [H0 _]].
  assert (Hz : exit_code (r_err (backup ts)) = 0%N).
  { apply H0. intros [[t [Ht He]]|[id [k [f [Hr Hf]]]]].
    - rewrite (Hall t Ht) in He; discriminate.
    - exact (benign_not_failed k f (Hb id k f Hr) Hf). }
  split; [|exact Hz]. destruct (r_err (backup ts)); cbn in Hz; try discriminate; reflexivity.
Qed.

Lemma exit_code_range e : exit_code e = 0%N \/ exit_code e = 1%N \/ exit_code e = 3%N.
Proof. destruct e; cbn; auto. Qed.

Lemma exit3_iff e : exit_code e = 3%N <-> e = EInvalidSource.
Proof. destruct e; cbn; split; intros H; try discriminate; reflexivity. Qed.

(* ---- sorting (for comparing sets) ---- *)
Lemma insert_in x y l : In y (insert x l) <-> y = x \/ In y l.
Proof.
  induction l as [|z r IH]; cbn [insert In]; [intuition|].
  destruct (N.leb x z); cbn [In]; [intuition | rewrite IH; intuition].
Qed.

Lemma sortN_in y l : In y (sortN l) <-> In y l.
Proof.
  unfold sortN. induction l as [|x r IH]; cbn [fold_right In]; [tauto|].
  rewrite insert_in, IH. intuition.
Qed.

(* ---- oracle ---- *)

Definition C55_holds (c : case) : Prop :=
  let ts := c_targets c in
  (if forallb (fun t => negb (t_exists t)) ts
   then c_err c = EFatal /\ c_snapshot c = false
   else c_err c = (if incomplete ts then EInvalidSource else ENone) /\ c_snapshot c = true)
  /\ (forall x, c_exit c = Some x -> x = exit_code (c_err c))
  /\ c_saved c = sortN (fst (walk_targets ts)).

Lemma errclass_eqb_eq a b : errclass_eqb a b = true <-> a = b.
Proof. destruct a, b; cbn; split; intros H; try discriminate; reflexivity. Qed.

Lemma nlist_eqb_eq a b : nlist_eqb a b = true <-> a = b.
Proof. unfold nlist_eqb. apply list_eqb_spec. intros x y; apply N.eqb_eq. Qed.

Lemma exit_ok_iff c : exit_ok c = true <-> (forall x, c_exit c = Some x -> x = exit_code (c_err c)).
Proof.
  unfold exit_ok. destruct (c_exit c) as [x|].
  - rewrite N.eqb_eq. split; [intros H y Hy; inversion Hy; subst y; exact H | intros H; apply H; reflexivity].
  - split; [intros _ y Hy; discriminate | reflexivity].
Qed.

Lemma check_C55_iff c : check_C55 c = true <-> C55_holds c.
Proof.
  unfold check_C55, C55_holds. rewrite !andb_true_iff, exit_ok_iff.
  unfold saved_ok. rewrite nlist_eqb_eq. unfold status_ok.
  destruct (forallb (fun t => negb (t_exists t)) (c_targets c)).
  - rewrite andb_true_iff, errclass_eqb_eq, negb_true_iff. tauto.
  - rewrite andb_true_iff, errclass_eqb_eq. tauto.
Qed.

(* the model's own result passes the checker *)
Definition model_case (ts : list target) : case :=
  let r := backup ts in
  mk ts (r_err r) (Some (exit_code (r_err r))) (r_snapshot r) (sortN (r_saved r)) (Some (sortN (r_errors r))).

Lemma nlist_eqb_refl l : nlist_eqb l l = true.
Proof. apply nlist_eqb_eq; reflexivity. Qed.

Lemma model_case_ok ts : check_case (model_case ts) = 0%nat.
Proof.
  unfold check_case, model_case, status_ok, exit_ok, saved_ok, incomplete.
  cbn [c_targets c_err c_exit c_snapshot c_saved c_errors].
  unfold backup. destruct (forallb (fun t => negb (t_exists t)) ts) eqn:E.
  - cbn [r_err r_snapshot r_saved r_errors errclass_eqb negb andb].
    rewrite N.eqb_refl. cbn [negb].
    assert (Hw : walk_targets ts = ([], [])).
    { clear -E. induction ts as [|t r IH]; [reflexivity|]. cbn [forallb] in E. apply andb_true_iff in E as [E1 E2].
      cbn [walk_targets]. apply negb_true_iff in E1. rewrite E1, (IH E2). reflexivity. }
    rewrite Hw. cbn. reflexivity.
  - destruct (walk_targets ts) as [saved errs]. cbn [r_err r_snapshot r_saved r_errors fst snd].
    rewrite N.eqb_refl, !nlist_eqb_refl. cbn [negb].
    destruct (forallb t_exists ts); destruct errs; cbn; reflexivity.
Qed.

(* a directory listing that breaks off part-way makes the backup incomplete *)
Lemma partial_listing_incomplete ts id : some_target_exists ts ->
  reached_ts ts id KDir ErrReaddirPartial ->
  exit_code (r_err (backup ts)) = 3%N /\ In id (r_errors (backup ts)).
Proof.
  intros Hs Hr. split.
  - apply (proj1 (exit_spec ts Hs)). right. exists id, KDir, ErrReaddirPartial. split; [exact Hr | reflexivity].
  - apply (errors_reported ts id Hs). exists KDir, ErrReaddirPartial. split; [exact Hr | reflexivity].
Qed.

Example c55_partial_listing :
  backup [mkT true (Node 1 KDir Ok (Node 2 KDir ErrReaddirPartial (Node 3 KFile Ok Nil (Node 4 KFile Ok Nil Nil))
                                   (Node 5 KFile Ok Nil Nil)) Nil)]
  = mkRes EInvalidSource true [1; 5]%N [2]%N.
Proof. vm_compute. reflexivity. Qed.

(* ---- non-vacuity ---- *)
Definition ex_tree : tree :=
  Node 1 KDir Ok
    (Node 2 KFile Ok Nil
    (Node 3 KFile ErrReopen Nil
    (Node 4 KDir ErrReaddir (Node 5 KFile Ok Nil Nil)
    (Node 6 KFile VanishStat Nil
    (Node 7 KSocket Ok Nil
    (Node 8 KDir Ok (Node 9 KFile ErrRead Nil (Node 10 KOther Ok Nil Nil)) Nil))))))
    Nil.

Example c55_nonvacuous :
  backup [mkT true ex_tree] = mkRes EInvalidSource true [1; 2; 8; 10]%N [3; 4; 9]%N
  /\ exit_code (r_err (backup [mkT true ex_tree])) = 3%N
  /\ r_err (backup [mkT true (Node 1 KDir Ok (Node 2 KFile VanishOpen Nil (Node 3 KFile Ok Nil Nil)) Nil)]) = ENone
  /\ r_err (backup [mkT false Nil; mkT true (Node 1 KFile Ok Nil Nil)]) = EInvalidSource
  /\ r_err (backup [mkT false Nil]) = EFatal.
Proof. vm_compute. repeat split. Qed.
