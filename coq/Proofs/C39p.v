(* C39 proofs *)
From Restic Require Import Base.Prelude Model.C39m.
Import C39m.

Lemma dry_step_store s o : fst (dry_step s o) = s.
Proof. destruct o; reflexivity. Qed.

(* no request sequence through the dry backend changes the store, and reads answer as the store does *)
Lemma dry_no_effect l : forall s, fst (dry_run s l) = s.
Proof.
  induction l as [|o r IH]; intros s; cbn [dry_run]; [reflexivity|].
  destruct (dry_step s o) as [s1 x] eqn:E. pose proof (dry_step_store s o) as H. rewrite E in H. cbn in H. subst s1.
  specialize (IH s). destruct (dry_run s r) as [s2 xs]. cbn in *. assumption.
Qed.

Lemma dry_reads_pass s o : modifying o = false -> snd (dry_step s o) = read s o.
Proof. destruct o; cbn; intros H; try discriminate; reflexivity. Qed.

Section Wrapper.
  Variable S : Type.
  Variable inner : S -> op -> S * res.
  (* the wrapped backend's read requests do not modify it *)
  Hypothesis reads_pure : forall s o, modifying o = false -> fst (inner s o) = s.

  Lemma wrap_step_store s o : fst (wrap inner s o) = s.
  Proof. destruct o; cbn; try reflexivity; apply reads_pure; reflexivity. Qed.

  Lemma wrap_no_effect l : forall s, fold_left (fun s o => fst (wrap inner s o)) l s = s.
  Proof.
    induction l as [|o r IH]; intros s; cbn [fold_left]; [reflexivity|].
    rewrite wrap_step_store. apply IH.
  Qed.

  (* a modifying request is never handed to the wrapped backend: its answer does not depend on it *)
  Lemma wrap_modifying_independent (inner' : S -> op -> S * res) s o :
    modifying o = true -> wrap inner s o = wrap inner' s o.
  Proof. destruct o; cbn; intros H; try discriminate; reflexivity. Qed.
End Wrapper.

(* ---- wiring ---- *)
Lemma open_with_dry_iff_unlocked o flag :
  w_dry (open_with o flag) = negb (w_lock (open_with o flag)) /\ w_dry (open_with o flag) = flag.
Proof. destruct flag; cbn; auto. Qed.

Lemma open_with_excl o flag :
  w_excl (open_with o flag) = true <-> flag = false /\ o = ExclusiveLock.
Proof. destruct flag, o; cbn; split; intros H; try discriminate; auto; destruct H; discriminate. Qed.

(* every accepted dry run either works on a dry-run repository without a lock, or is forget/prune without
   --no-lock holding the exclusive lock (these rely on their own DryRun tests) *)
Lemma wiring_dry_run c nolock r :
  cmd_open c true nolock = Some r ->
  (w_dry r = true /\ w_lock r = false) \/
  ((c = CForget \/ c = CPrune \/ c = CCheck \/ c = CReadOnly) /\ nolock = false /\ w_lock r = true).
Proof.
  destruct c as [| | |f| | |]; destruct nolock; cbn; intros H; inversion H; subst; cbn; auto 6.
Qed.

Lemma wiring_backup_like c nolock r :
  (c = CBackup \/ (exists f, c = CRewrite f) \/ c = CRepairSnapshots) ->
  cmd_open c true nolock = Some r -> w_dry r = true /\ w_lock r = false.
Proof.
  intros [-> | [[f ->] | ->]]; cbn; intros H; inversion H; subst; cbn; auto.
Qed.

(* --no-lock: reads and check run on a dry-run repository without a lock; forget/prune only with --dry-run *)
Lemma wiring_no_lock c dry r :
  cmd_open c dry true = Some r ->
  (c = CCheck \/ c = CReadOnly \/ ((c = CForget \/ c = CPrune) /\ dry = true)) ->
  w_dry r = true /\ w_lock r = false.
Proof.
  intros H [-> | [-> | [[-> | ->] ->]]]; cbn in H; inversion H; subst; cbn; auto.
Qed.

Lemma wiring_rejects c dry nolock :
  cmd_open c dry nolock = None <-> (c = CForget \/ c = CPrune) /\ nolock = true /\ dry = false.
Proof.
  destruct c as [| | |f| | |]; destruct dry, nolock; cbn; split; intros H; try discriminate; auto;
    destruct H as [[H | H] [H1 H2]]; try discriminate.
Qed.

(* ---- oracle ---- *)
Lemma handle_eqb_spec a b : handle_eqb a b = true <-> a = b.
Proof.
  destruct a as [a1 a2], b as [b1 b2]. unfold handle_eqb. cbn.
  rewrite andb_true_iff, !Nat.eqb_eq. split; [intros [-> ->]; reflexivity | intros H; inversion H; auto].
Qed.

Lemma store_eqb_spec a b : store_eqb a b = true <-> a = b.
Proof.
  unfold store_eqb. apply list_eqb_spec. intros [h1 d1] [h2 d2]. cbn.
  rewrite andb_true_iff, handle_eqb_spec, Nat.eqb_eq. split; [intros [-> ->]; reflexivity | intros H; inversion H; auto].
Qed.

Lemma check_C39_spec k :
  check_C39 k = true <->
  match k with
  | CDry s0 _ _ s1 => s0 = s1
  | CWire _ flag lt _ isd nleft => (flag = true -> isd = true /\ lt = false) /\ nleft = 0
  | CCmd _ _ _ _ _ mods same nleft => mods = 0 /\ same = true /\ nleft = 0
  end.
Proof.
  destruct k as [s0 ops obs s1 | o flag lt le isd nleft | c dry nolock rej lt mods same nleft]; cbn.
  - apply store_eqb_spec.
  - rewrite andb_true_iff, Nat.eqb_eq. destruct flag.
    + rewrite andb_true_iff, negb_true_iff. intuition.
    + intuition discriminate.
  - rewrite !andb_true_iff, !Nat.eqb_eq. tauto.
Qed.

(* the model's own output satisfies the oracle *)
Lemma model_satisfies_oracle s0 ops : check_C39 (CDry s0 ops (snd (dry_run s0 ops)) (fst (dry_run s0 ops))) = true.
Proof. cbn. rewrite dry_no_effect. apply store_eqb_spec. reflexivity. Qed.

Lemma model_wire_satisfies_oracle o flag :
  check_C39 (CWire o flag (w_lock (open_with o flag)) (w_excl (open_with o flag)) (w_dry (open_with o flag)) 0) = true.
Proof. destruct flag; reflexivity. Qed.

(* non-vacuity *)
Example dry_example :
  dry_run [((1, 7), 3); ((2, 5), 4)] [OSave (1, 9) true 8; ORemove (1, 7); OLoad (1, 7); OLoad (1, 9); ODelete; OList 1; OSave (9, 0) false 1; OStat (2, 5)]
  = ([((1, 7), 3); ((2, 5), 4)], [ROk; ROk; RData 3; RErr; ROk; RNames [7]; RErr; ROk]).
Proof. reflexivity. Qed.
