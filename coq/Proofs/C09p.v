(* C09 proofs: the structural trace predicate run_ok implies that every prefix state keeps every
   used blob resolvable, and creates no new dangling index entry.  Plus oracle lemmas. *)
From Restic Require Import Base.Prelude Model.S_Prune Proofs.S_Prunep Model.C09m.
From Coq Require Import ZifyBool ZifyNat ZifyN.
Import SPrune C09m.
Open Scope N_scope.

(* ---------- Prop-level notions ---------- *)
Definition resolvable (R : repo) (h : N) : Prop :=
  exists i es p bs, In (i, es) (idxs R) /\ In (p, h) es /\ In (p, bs) (packs R) /\ In h bs.
Definition Consistent (R : repo) (used : list N) : Prop := forall h, In h used -> resolvable R h.
Definition sres (ob ex : list N) (R : repo) (h : N) : Prop :=
  exists i es p bs, In (i, es) (idxs R) /\ ~ In i ob /\ In (p, h) es /\ ~ In p ex /\
                    In (p, bs) (packs R) /\ In h bs.
Definition dangling (R : repo) (p : N) : Prop := idx_names R p = true /\ has_pack R p = false.

Lemma memN_false x l : memN x l = false <-> ~ In x l.
Proof. rewrite <- memN_In. destruct (memN x l); split; congruence. Qed.

Lemma pack_has_true R p h : pack_has R p h = true -> exists bs, In (p, bs) (packs R) /\ In h bs.
Proof.
  unfold pack_has. intros H. apply existsb_exists in H as [[q bs] [Hin Hx]]. cbn [fst snd] in Hx.
  apply andb_true_iff in Hx as [H1 H2]. apply N.eqb_eq in H1. subst q. apply memN_In in H2.
  exists bs. split; assumption.
Qed.

Lemma pack_has_intro R p bs h : In (p, bs) (packs R) -> In h bs -> pack_has R p h = true.
Proof.
  intros H1 H2. unfold pack_has. apply existsb_exists. exists (p, bs). split; [exact H1|].
  cbn [fst snd]. rewrite N.eqb_refl. apply memN_In in H2. rewrite H2. reflexivity.
Qed.

Lemma pack_has_has R p h : pack_has R p h = true -> has_pack R p = true.
Proof.
  intros H. apply pack_has_true in H as [bs [H1 _]]. unfold has_pack. apply existsb_exists.
  exists (p, bs). split; [exact H1 | apply N.eqb_refl].
Qed.

Lemma resolvableb_iff R h : resolvableb R h = true <-> resolvable R h.
Proof.
  unfold resolvableb, resolvable. split.
  - intros H. apply existsb_exists in H as [[i es] [Hi H]]. cbn [snd] in H.
    apply existsb_exists in H as [[p h'] [He H]]. cbn [fst snd] in H.
    destruct (N.eqb_spec h' h) as [->|]; [|discriminate].
    apply pack_has_true in H as [bs [Hp Hb]]. exists i, es, p, bs. repeat split; assumption.
  - intros [i [es [p [bs [Hi [He [Hp Hb]]]]]]]. apply existsb_exists. exists (i, es). split; [exact Hi|].
    cbn [snd]. apply existsb_exists. exists (p, h). split; [exact He|]. cbn [fst snd].
    rewrite N.eqb_refl. eapply pack_has_intro; eassumption.
Qed.

Lemma consistentb_iff R used : consistentb R used = true <-> Consistent R used.
Proof.
  unfold consistentb, Consistent. rewrite forallb_forall. split; intros H h Hh.
  - apply resolvableb_iff, H, Hh.
  - apply resolvableb_iff, H, Hh.
Qed.

Lemma sresb_sound ob ex R h : sresb ob ex R h = true -> sres ob ex R h.
Proof.
  unfold sresb, sres. intros H. apply existsb_exists in H as [[i es] [Hi H]]. cbn [fst snd] in H.
  destruct (memN i ob) eqn:Eo; [discriminate|].
  apply existsb_exists in H as [[p h'] [He H]]. cbn [fst snd] in H.
  destruct (N.eqb_spec h' h) as [->|]; [|discriminate].
  destruct (memN p ex) eqn:Ex; [discriminate|].
  apply pack_has_true in H as [bs [Hp Hb]]. exists i, es, p, bs.
  repeat split; try assumption; apply memN_false; assumption.
Qed.

Lemma sres_resolvable ob ex R h : sres ob ex R h -> resolvable R h.
Proof. intros [i [es [p [bs [H1 [_ [H2 [_ [H3 H4]]]]]]]]]. exists i, es, p, bs. repeat split; assumption. Qed.

Lemma idx_names_intro R i es p h : In (i, es) (idxs R) -> In (p, h) es -> idx_names R p = true.
Proof.
  intros H1 H2. unfold idx_names. apply existsb_exists. exists (i, es). split; [exact H1|]. cbn [snd].
  apply existsb_exists. exists (p, h). split; [exact H2 | apply N.eqb_refl].
Qed.

Lemma idx_names_elim R p : idx_names R p = true -> exists i es h, In (i, es) (idxs R) /\ In (p, h) es.
Proof.
  unfold idx_names. intros H. apply existsb_exists in H as [[i es] [Hi H]]. cbn [snd] in H.
  apply existsb_exists in H as [[q h] [He H]]. cbn [fst] in H. apply N.eqb_eq in H. subst q.
  exists i, es, h. split; assumption.
Qed.

Lemma in_rm_key {A} (k : N) (l : list (N * A)) x : In x (rm_key k l) <-> In x l /\ fst x <> k.
Proof.
  unfold rm_key. rewrite filter_In. split; intros [H1 H2]; (split; [exact H1|]).
  - apply negb_true_iff, N.eqb_neq in H2. exact H2.
  - apply negb_true_iff, N.eqb_neq. exact H2.
Qed.

(* ---------- invariants ---------- *)
Section Safety.
Variable R0 : repo.
Variable used : list N.
Variable pl : plan.
Hypothesis Hcons : Consistent R0 used.
Hypothesis Hvalid : valid_planb R0 used pl = true.

Definition sub (R : repo) : Prop :=
  (forall ix, In ix (idxs R0) -> In ix (idxs R)) /\
  (forall p bs, In (p, bs) (packs R0) -> idx_names R0 p = true -> In (p, bs) (packs R)).
Definition invC (R : repo) : Prop := forall h, In h used -> sres (obs pl) (excl pl) R h.
Definition inv (ph : phase) (R : repo) : Prop := match ph with PhC => invC R | _ => sub R end.

Lemma sub_consistent R : sub R -> Consistent R used.
Proof.
  intros [S1 S2] h Hh. destruct (Hcons h Hh) as [i [es [p [bs [H1 [H2 [H3 H4]]]]]]].
  exists i, es, p, bs. repeat split; auto. apply S2; [exact H3|]. eapply idx_names_intro; eassumption.
Qed.

Lemma invC_consistent R : invC R -> Consistent R used.
Proof. intros H h Hh. eapply sres_resolvable, H, Hh. Qed.

Lemma inv_consistent ph R : inv ph R -> Consistent R used.
Proof. destruct ph; cbn [inv]; auto using sub_consistent, invC_consistent. Qed.

Lemma rm_excl p : memN p (rm pl) = true -> In p (excl pl).
Proof.
  intros H. unfold valid_planb in Hvalid. apply andb_true_iff in Hvalid as [H1 _].
  rewrite forallb_forall in H1. apply memN_In, H1, memN_In, H.
Qed.

Lemma commit_invC R : sub R -> commitb pl R = true -> invC R.
Proof.
  intros [S1 S2] Hc h Hh. unfold commitb in Hc. apply andb_true_iff in Hc as [C1 C2].
  rewrite forallb_forall in C1, C2.
  unfold valid_planb in Hvalid. apply andb_true_iff in Hvalid as [_ V]. rewrite forallb_forall in V.
  specialize (V h Hh). destruct (memN h (keep pl)) eqn:Ek.
  - apply sresb_sound, C2, memN_In, Ek.
  - apply sresb_sound in V. destruct V as [i [es [p [bs [H1 [_ [H2 [H3 [H4 H5]]]]]]]]].
    assert (Hi : In (i, es) (idxs R)) by (apply S1, H1).
    assert (Hp : In (p, bs) (packs R)) by (apply S2; [exact H4 | eapply idx_names_intro; eassumption]).
    destruct (memN i (obs pl)) eqn:Eo.
    + specialize (C1 (i, es) Hi). cbn [fst snd] in C1. rewrite Eo in C1.
      rewrite forallb_forall in C1. specialize (C1 (p, h) H2). cbn [fst] in C1.
      apply memN_false in H3. rewrite H3 in C1. unfold covered in C1.
      apply existsb_exists in C1 as [[i' es'] [Hi' C1]]. cbn [fst snd] in C1.
      destruct (memN i' (obs pl)) eqn:Eo'; [discriminate|].
      apply existsb_exists in C1 as [[p' h'] [He' C1]]. unfold pair_eqb in C1. cbn [fst snd] in C1.
      apply andb_true_iff in C1 as [X Y]. apply N.eqb_eq in X, Y. subst p' h'.
      exists i', es', p, bs. repeat split; try assumption; apply memN_false; assumption.
    + exists i, es, p, bs. repeat split; try assumption. apply memN_false; assumption.
Qed.

Lemma enter_invC ph R : inv ph R -> enter_c pl ph R = true -> invC R.
Proof. destruct ph; cbn [inv enter_c]; intros H1 H2; auto using commit_invC. Qed.

Lemma invC_rmI R i : invC R -> memN i (obs pl) = true -> invC (apply R (RmI i)).
Proof.
  intros H Hi h Hh. destruct (H h Hh) as [j [es [p [bs [H1 [H2 [H3 [H4 [H5 H6]]]]]]]]].
  exists j, es, p, bs. cbn [apply idxs packs]. repeat split; try assumption.
  apply in_rm_key. split; [exact H1|]. cbn [fst]. intros ->. apply H2, memN_In, Hi.
Qed.

Lemma invC_rmP R p : invC R -> memN p (rm pl) = true -> invC (apply R (RmP p)).
Proof.
  intros H Hp h Hh. destruct (H h Hh) as [j [es [q [bs [H1 [H2 [H3 [H4 [H5 H6]]]]]]]]].
  exists j, es, q, bs. cbn [apply idxs packs]. repeat split; try assumption.
  apply in_rm_key. split; [exact H5|]. cbn [fst]. intros ->. apply H4, rm_excl, Hp.
Qed.

Lemma sub_idx_names R q : sub R -> idx_names R0 q = true -> idx_names R q = true.
Proof.
  intros [S1 _] H. apply idx_names_elim in H as [i [es [h [H1 H2]]]].
  eapply idx_names_intro; [apply S1, H1 | exact H2].
Qed.

Lemma step_inv ph R o ph' : inv ph R -> step_ok pl ph R o = Some ph' -> inv ph' (apply R o).
Proof.
  intros Hi Hs. destruct o as [p bs|i es|p|i]; cbn [step_ok] in Hs.
  - (* SaveP *)
    assert (X : ph <> PhC /\ ph' = PhB).
    { destruct ph; try discriminate; destruct (has_pack R p); try discriminate; inversion Hs; split; congruence. }
    destruct X as [X ->]. assert (S : sub R) by (destruct ph; [exact Hi | exact Hi | congruence]).
    destruct S as [S1 S2]. split; cbn [apply idxs packs]; [exact S1|]. intros q b H1 H2. right. apply S2; assumption.
  - (* SaveI *)
    assert (X : ph <> PhC /\ ph' = PhB).
    { destruct ph; try discriminate; destruct (has_idx R i); try discriminate;
        destruct (forallb _ es); try discriminate; inversion Hs; split; congruence. }
    destruct X as [X ->]. assert (S : sub R) by (destruct ph; [exact Hi | exact Hi | congruence]).
    destruct S as [S1 S2]. split; cbn [apply idxs packs]; [|exact S2]. intros ix H. right. apply S1, H.
  - (* RmP *)
    assert (L : forall (b : bool), (if enter_c pl ph R && memN p (rm pl) && negb (idx_names R p) then Some PhC else None) = Some ph' ->
                inv ph' (apply R (RmP p))).
    { intros _ H. destruct (enter_c pl ph R) eqn:E1; [|discriminate].
      destruct (memN p (rm pl)) eqn:E2; [|discriminate].
      destruct (negb (idx_names R p)); [|discriminate]. inversion H; subst ph'.
      cbn [inv]. apply invC_rmP; [eapply enter_invC; eassumption | exact E2]. }
    destruct ph; try (apply (L true), Hs).
    destruct (memN p (rm_first pl) && negb (idx_names R p)) eqn:E; [|apply (L true), Hs].
    inversion Hs; subst ph'. cbn [inv] in *. apply andb_true_iff in E as [_ E].
    apply negb_true_iff in E. destruct Hi as [S1 S2]. split; cbn [apply idxs packs]; [exact S1|].
    intros q b H1 H2. apply in_rm_key. split; [apply S2; assumption|]. cbn [fst]. intros ->.
    rewrite (sub_idx_names R p (conj S1 S2) H2) in E. discriminate.
  - (* RmI *)
    destruct (enter_c pl ph R) eqn:E1; [|discriminate].
    destruct (memN i (obs pl)) eqn:E2; [|discriminate]. inversion Hs; subst ph'.
    cbn [inv]. apply invC_rmI; [eapply enter_invC; eassumption | exact E2].
Qed.

Lemma run_ok_prefix tr : forall ph R, inv ph R -> run_ok pl ph R tr = true ->
  forall n, Consistent (run R (firstn n tr)) used.
Proof.
  induction tr as [|o tr IH]; intros ph R Hi Hr n.
  - destruct n; cbn; eapply inv_consistent; eassumption.
  - destruct n; [cbn; eapply inv_consistent; eassumption|].
    cbn [firstn run fold_left]. cbn [run_ok] in Hr.
    destruct (step_ok pl ph R o) as [ph'|] eqn:Es; [|discriminate].
    apply (IH ph' (apply R o)); [eapply step_inv; eassumption | exact Hr].
Qed.

Lemma sub_refl : sub R0.
Proof. split; auto. Qed.

End Safety.

(* every crash prefix of a structurally correct prune trace keeps all used blobs loadable *)
Theorem prune_prefix_safe R0 used pl tr :
  Consistent R0 used -> valid_planb R0 used pl = true -> run_ok pl PhA R0 tr = true ->
  forall n, Consistent (run R0 (firstn n tr)) used.
Proof.
  intros Hc Hv Hr n. eapply (run_ok_prefix R0 used pl Hc Hv tr PhA R0); [apply sub_refl | exact Hr].
Qed.

(* ---------- no new dangling index entries ---------- *)
Lemma has_pack_rm_other R p q : p <> q -> has_pack (apply R (RmP q)) p = has_pack R p.
Proof.
  intros Hn. unfold has_pack. cbn [apply packs]. unfold rm_key.
  induction (packs R) as [|[a b] l IH]; [reflexivity|]. cbn [filter existsb fst].
  destruct (N.eqb_spec a q) as [->|E]; cbn [negb].
  - rewrite IH. destruct (N.eqb_spec q p); [congruence | reflexivity].
  - cbn [existsb fst]. rewrite IH. reflexivity.
Qed.

Lemma step_no_dangling pl ph R o ph' p :
  step_ok pl ph R o = Some ph' -> dangling (apply R o) p -> dangling R p.
Proof.
  intros Hs [D1 D2]. destruct o as [q bs|i es|q|i]; cbn [step_ok] in Hs.
  - split; [exact D1|]. unfold has_pack in *. cbn [apply packs existsb] in D2.
    apply orb_false_iff in D2 as [_ D2]. exact D2.
  - assert (F : forallb (fun e => pack_has R (fst e) (snd e)) es = true).
    { destruct ph; try discriminate; destruct (has_idx R i); try discriminate;
        destruct (forallb _ es); try discriminate; reflexivity. }
    rewrite forallb_forall in F. split; [|exact D2].
    unfold idx_names in D1. cbn [apply idxs existsb snd] in D1. apply orb_true_iff in D1 as [D1|D1]; [|exact D1].
    apply existsb_exists in D1 as [[a b] [He Ha]]. cbn [fst] in Ha. apply N.eqb_eq in Ha. subst a.
    specialize (F (p, b) He). cbn [fst snd] in F. apply pack_has_has in F.
    unfold has_pack in *. cbn [apply packs] in D2. congruence.
  - assert (E : idx_names R q = false).
    { destruct (idx_names R q) eqn:X; [|reflexivity]. exfalso.
      rewrite andb_false_r in Hs. destruct ph; cbn [negb] in Hs; rewrite ?andb_false_r in Hs; discriminate. }
    assert (D1' : idx_names R p = true) by exact D1.
    split; [exact D1'|]. destruct (N.eq_dec p q) as [->|Hn]; [congruence|].
    rewrite has_pack_rm_other in D2 by exact Hn. exact D2.
  - split; [|exact D2]. apply idx_names_elim in D1 as [j [es [h [H1 H2]]]]. cbn [apply idxs] in H1.
    apply in_rm_key in H1 as [H1 _]. eapply idx_names_intro; eassumption.
Qed.

Theorem prune_prefix_no_new_dangling pl tr : forall ph R, run_ok pl ph R tr = true ->
  forall n p, dangling (run R (firstn n tr)) p -> dangling R p.
Proof.
  induction tr as [|o tr IH]; intros ph R Hr n p Hd.
  - destruct n; exact Hd.
  - destruct n; [exact Hd|]. cbn [firstn run fold_left] in Hd. cbn [run_ok] in Hr.
    destruct (step_ok pl ph R o) as [ph'|] eqn:Es; [|discriminate].
    eapply step_no_dangling; [exact Es|]. eapply IH; eassumption.
Qed.

(* ---------- single-op faults ---------- *)
Definition oks (ftr : list fop) : list op := map fst (filter (fun x => snd x) ftr).

Lemma frun_oks ftr : forall R, frun R ftr = run R (oks ftr).
Proof.
  induction ftr as [|[o b] r IH]; intros R; [reflexivity|]. unfold frun, oks in *. cbn [fold_left filter snd fst].
  destruct b; cbn [map fold_left run]; apply IH.
Qed.

Lemma run_okf2_run_ok pl ftr : forall ph sf rif R, run_okf2 pl ph sf rif R ftr = true -> run_ok pl ph R (oks ftr) = true.
Proof.
  induction ftr as [|[o b] r IH]; intros ph sf rif R H; [reflexivity|]. unfold oks in *. cbn [run_okf2 snd fst] in H. cbn [filter snd].
  destruct b; cbn [map fst run_ok].
  - destruct (step_ok pl ph R o) as [ph'|]; [|discriminate].
    destruct (sf && match ph' with PhC => true | _ => false end); [discriminate|].
    destruct (rif && match ph' with PhC => true | _ => false end && is_rmp o); [discriminate|]. eapply IH, H.
  - eapply IH, H.
Qed.

Lemma run_okf_run_ok pl ftr ph sf R : run_okf pl ph sf R ftr = true -> run_ok pl ph R (oks ftr) = true.
Proof. apply run_okf2_run_ok. Qed.

(* after a failed removal of an obsolete index no old pack is removed in an accepted trace *)
Lemma no_pack_removal_after_failed_index_removal pl ph sf R i p r :
  run_okf2 pl ph sf false R ((RmI i, false) :: (RmP p, true) :: r) = true ->
  exists q, step_ok pl ph R (RmP p) = Some q /\ q <> PhC.
Proof.
  cbn [run_okf2 snd fst is_rmi is_save orb]. rewrite orb_false_r.
  destruct (step_ok pl ph R (RmP p)) as [q|]; [|discriminate].
  intros H. exists q. split; [reflexivity|]. intros ->. cbn [is_rmp andb] in H.
  destruct sf; discriminate.
Qed.

Lemma oks_firstn ftr : forall n, exists m, oks (firstn n ftr) = firstn m (oks ftr).
Proof.
  induction ftr as [|[o b] r IH]; intros n.
  - exists 0%nat. destruct n; reflexivity.
  - destruct n; [exists 0%nat; reflexivity|]. destruct (IH n) as [m Hm]. unfold oks in *. cbn [firstn filter snd].
    destruct b; cbn [map fst].
    + exists (S m). cbn [firstn]. rewrite Hm. reflexivity.
    + exists m. exact Hm.
Qed.

(* For every attempted-op sequence with arbitrary failed ops (in particular: exactly one op fails, at any
   position) accepted by run_okf, whatever prune returns, every used blob is loadable after every step. *)
Theorem prune_fault_safe R0 used pl ftr :
  Consistent R0 used -> valid_planb R0 used pl = true -> run_okf pl PhA false R0 ftr = true ->
  forall n, Consistent (frun R0 (firstn n ftr)) used.
Proof.
  intros Hc Hv Hr n. rewrite frun_oks. destruct (oks_firstn ftr n) as [m ->].
  apply prune_prefix_safe with (pl := pl); [exact Hc | exact Hv | eapply run_okf_run_ok, Hr].
Qed.

(* the structural rule itself: once a Save has failed, an accepted trace contains no successful removal
   of an obsolete index, and no successful removal of a pack outside phase A *)
Lemma no_index_removal_after_failed_save pl ph R i r : run_okf pl ph true R ((RmI i, true) :: r) = false.
Proof.
  unfold run_okf. cbn [run_okf2 step_ok snd fst]. destruct (enter_c pl ph R && memN i (obs pl)); reflexivity.
Qed.

Lemma no_old_pack_removal_after_failed_save pl R p r : run_okf pl PhB true R ((RmP p, true) :: r) = false.
Proof.
  unfold run_okf. cbn [run_okf2 step_ok snd fst]. destruct (enter_c pl PhB R && memN p (rm pl) && negb (idx_names R p)); reflexivity.
Qed.

(* the seeded defect in the abstract: the rewritten index (SaveI 3) fails, the obsolete indexes and the
   old packs are removed all the same: rejected; stopping after the failed Save is accepted *)
Example c09_fault_nonvacuous :
  let R0 := mkR [(1, [1; 2]); (2, [3])] [(1, [(1, 1); (1, 2); (2, 3)])] in
  let pl := mkPl [] [1; 2] [1; 2] [1] [1; 2] in
  run_okf pl PhA false R0 [(SaveP 3 [1], true); (SaveI 2 [(3, 1)], true); (SaveI 3 [(3, 1)], false);
                           (RmI 1, true); (RmI 2, true); (RmP 1, true); (RmP 2, true)] = false /\
  run_okf pl PhA false R0 [(SaveP 3 [1], true); (SaveI 2 [(3, 1)], true); (SaveI 3 [(3, 1)], false)] = true /\
  must_report [(SaveP 3 [1], true); (SaveI 3 [(3, 1)], false)] = true /\
  (* the seeded defect C10-rewrite-remove-error-overwritten: RmI 1 fails, RmI 2 succeeds, packs removed: rejected *)
  run_okf pl PhA false R0 [(SaveP 3 [1], true); (SaveI 3 [(3, 1)], true); (RmI 1, false); (RmI 2, true); (RmP 2, true)] = false /\
  (* a failed pack removal is tolerated *)
  run_okf pl PhA false R0 [(SaveP 3 [1], true); (SaveI 3 [(3, 1)], true); (RmI 1, true); (RmP 1, false); (RmP 2, true)] = true.
Proof. vm_compute. repeat split. Qed.

Lemma check_fault_sound R0 used pl ftr rep c1 c2 c3 :
  check_case (CFault R0 used pl false ftr rep c1 c2 c3) = 0%nat ->
  (forall n, Consistent (frun R0 (firstn n ftr)) used) /\
  (must_report ftr = true -> rep = true) /\ c1 = true /\ c2 = true /\ c3 = true.
Proof.
  cbn [check_case]. intros H.
  destruct (consistentb R0 used) eqn:E1; cbn [negb] in H; [|discriminate].
  destruct (valid_planb R0 used pl) eqn:E2; cbn [negb] in H; [|discriminate].
  destruct (run_okf pl PhA false R0 ftr) eqn:E3; cbn [negb] in H; [|discriminate].
  destruct (consistentb (frun R0 ftr) used); cbn [negb] in H; [|discriminate].
  split; [intros n; apply prune_fault_safe with (pl := pl); [apply consistentb_iff, E1 | exact E2 | exact E3]|].
  destruct (must_report ftr), rep, c1, c2, c3; cbn in H; try discriminate; repeat split; intros; congruence.
Qed.

(* ---------- oracle ---------- *)
Lemma check_trace_sound R0 used pl tr :
  check_case (CTrace R0 used pl false tr) = 0%nat ->
  forall n, Consistent (run R0 (firstn n tr)) used /\
            (forall p, dangling (run R0 (firstn n tr)) p -> dangling R0 p).
Proof.
  cbn [check_case]. intros H.
  destruct (consistentb R0 used) eqn:E1; cbn [negb] in H; [|discriminate].
  destruct (valid_planb R0 used pl) eqn:E2; cbn [negb] in H; [|discriminate].
  destruct (run_ok pl PhA R0 tr) eqn:E3; cbn [negb] in H; [|discriminate].
  intros n. split.
  - apply prune_prefix_safe with (pl := pl); [apply consistentb_iff, E1 | exact E2 | exact E3].
  - intros p. eapply prune_prefix_no_new_dangling; eassumption.
Qed.

Lemma check_crash_sound R used c1 c2 c3 :
  check_C09 (CCrash R used c1 c2 c3) = true <->
  Consistent R used /\ c1 = true /\ c2 = true /\ c3 = true.
Proof.
  unfold check_C09, check_case. rewrite <- consistentb_iff.
  destruct (consistentb R used), c1, c2, c3; cbn; split; intros H; try discriminate; try tauto;
    destruct H as [? [? [? ?]]]; discriminate.
Qed.

(* the model's own selection always satisfies what the selection oracle demands *)
Lemma model_sel_complete used es h :
  In h used -> (1 <= cnt_h h es)%nat ->
  exists e, In e es /\ e_h e = h /\ 0 < usedB (ip (final kc used es) (e_pack e)).
Proof. apply selected_copy_in_used_pack. Qed.

(* ---------- non-vacuity ---------- *)
(* two packs; pack 1 = {blob 1 (used), blob 2 (unused)}, pack 2 = {blob 3 (unused)}; one index.
   Plan: repack 1 keeping blob 1, remove 2. Trace: save new pack 3, index it, rewritten index, drop old
   index, delete packs. *)
Definition ex_R0 : repo := mkR [(1, [1; 2]); (2, [3])] [(1, [(1, 1); (1, 2); (2, 3)])].
Definition ex_pl : plan := mkPl [] [1; 2] [1; 2] [1] [1; 2].
Definition ex_tr : list op :=
  [SaveP 3 [1]; SaveI 2 [(3, 1)]; SaveI 3 [(3, 1)]; RmI 1; RmI 2; RmP 1; RmP 2].
Example c09_nonvacuous :
  consistentb ex_R0 [1] = true /\ valid_planb ex_R0 [1] ex_pl = true /\ run_ok ex_pl PhA ex_R0 ex_tr = true
  (* deleting the pack before the index rewrite is rejected *)
  /\ run_ok ex_pl PhA ex_R0 [SaveP 3 [1]; SaveI 2 [(3, 1)]; RmP 1] = false
  (* deleting the old index before the new one exists is rejected *)
  /\ run_ok ex_pl PhA ex_R0 [SaveP 3 [1]; RmI 1] = false
  (* a plan that forgets to keep blob 1 is invalid *)
  /\ valid_planb ex_R0 [1] (mkPl [] [1; 2] [1; 2] [] [1; 2]) = false.
Proof. vm_compute. repeat split. Qed.

Example c09_sel_nonvacuous :
  (* blob 1 used with 3 copies in packs 1..3 (each with an unused neighbour): the last copy is selected *)
  match pack_info kc [1] [mkE 1 1 1 40 false; mkE 1 7 1 33 false; mkE 2 1 1 40 false; mkE 2 8 1 33 false;
                          mkE 3 1 1 40 false; mkE 3 9 1 33 false] with
  | ROk s => usedB (ip s 1) = 0 /\ usedB (ip s 2) = 0 /\ usedB (ip s 3) = 1 /\ s_usedB (sts s) = 1 /\ s_dupB (sts s) = 2
  | _ => False
  end.
Proof. vm_compute. repeat split. Qed.

(* ---------- the keepBlobs reduction (after the fix of F-C09-1) ---------- *)
Lemma keep_blobs_sound used ents ex h :
  In h used -> ~ In h (keep_blobs used ents ex) -> exists p, In (p, h) ents /\ ~ In p ex.
Proof.
  intros Hu Hn. unfold keep_blobs in Hn.
  destruct (existsb (fun e => if snd e =? h then negb (memN (fst e) ex) else false) ents) eqn:E.
  - apply existsb_exists in E as [[p h'] [Hin E]]. cbn [fst snd] in E.
    destruct (N.eqb_spec h' h) as [->|]; [|discriminate].
    exists p. split; [exact Hin|]. apply memN_false. apply negb_true_iff in E. exact E.
  - exfalso. apply Hn. apply filter_In. split; [exact Hu|]. rewrite E. reflexivity.
Qed.

(* For EVERY choice of the plan's pack sets: if the index is truthful outside the excluded packs (an
   entry (p,h) with p not removed/repacked/ignored means p is present and contains h - what
   decidePackAction establishes by aborting on missing needed packs and ignoring missing unneeded ones),
   the plan with keepBlobs computed by the reduction is valid: a blob is dropped from keepBlobs only if
   a copy outside the excluded packs can be loaded. *)
Theorem keep_reduction_valid R0 used first rmv ex ob :
  forallb (fun p => memN p ex) rmv = true ->
  (forall p h, In (p, h) (ents_of R0) -> ~ In p ex -> pack_has R0 p h = true) ->
  valid_planb R0 used (mkPl first rmv ex (keep_blobs used (ents_of R0) ex) ob) = true.
Proof.
  intros Hr Ht. unfold valid_planb. cbn [rm excl keep]. rewrite Hr. cbn [andb].
  apply forallb_forall. intros h Hh.
  destruct (memN h (keep_blobs used (ents_of R0) ex)) eqn:Ek; [reflexivity|].
  apply memN_false in Ek. destruct (keep_blobs_sound _ _ _ _ Hh Ek) as [p [Hin Hp]].
  unfold ents_of in Hin. apply in_flat_map in Hin as [[i es] [Hi He]]. cbn [snd] in He.
  unfold sresb. apply existsb_exists. exists (i, es). split; [exact Hi|]. cbn [fst snd memN existsb].
  apply existsb_exists. exists (p, h). split; [exact He|]. cbn [fst snd].
  rewrite N.eqb_refl. apply memN_false in Hp. rewrite Hp. apply Ht; [|apply memN_false, Hp].
  unfold ents_of. apply in_flat_map. exists (i, es). split; assumption.
Qed.

(* Regression witness of F-C09-1 (fixed in restic d2ae2f7f5).  Pack 1 = {1,2,3} present; pack 2 = {1,4}
   missing but still indexed; used = {1,2}; plan: repack 1, ignore 2.  The reduction as it is now keeps
   blob 1 and yields a valid plan; the old reduction (ignorePacks not skipped) dropped blob 1 because
   of the entry (2,1) and produced an invalid plan on this consistent repository. *)
Definition f1_R0 : repo := mkR [(1, [1; 2; 3])] [(1, [(1, 1); (1, 2); (1, 3)]); (2, [(2, 1); (2, 4)])].
Example keep_reduction_regression :
  consistentb f1_R0 [1; 2] = true /\
  keep_blobs [1; 2] (ents_of f1_R0) [1; 2] = [1; 2] /\
  valid_planb f1_R0 [1; 2] (mkPl [] [1] [1; 2] (keep_blobs [1; 2] (ents_of f1_R0) [1; 2]) [1; 2]) = true /\
  keep_blobs_old [1; 2] (ents_of f1_R0) [1] = [2] /\
  valid_planb f1_R0 [1; 2] (mkPl [] [1] [1; 2] (keep_blobs_old [1; 2] (ents_of f1_R0) [1]) [1; 2]) = false.
Proof. vm_compute. repeat split. Qed.
