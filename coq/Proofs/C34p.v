From Restic Require Import Base.Prelude Model.C34m.
Import C34m.
Open Scope N_scope.

Lemma inl_spec p l : inl p l = true <-> In p l.
Proof.
  unfold inl. rewrite existsb_exists. split.
  - intros [y [Hy He]]. apply N.eqb_eq in He; subst; exact Hy.
  - intros H; exists p; split; [exact H | apply N.eqb_refl].
Qed.

Lemma inl_false p l : inl p l = false <-> ~ In p l.
Proof.
  rewrite <- inl_spec. destruct (inl p l); split; intro H.
  - discriminate.
  - exfalso; apply H; reflexivity.
  - intro H'; discriminate.
  - reflexivity.
Qed.

(* ================= part A ================= *)
Lemma ld_spec t h : ld t h = true <->
  exists f q, In f (b_idx t) /\ In (q, h, true) (snd f) /\ In q (b_packs t).
Proof.
  unfold ld. rewrite existsb_exists. split.
  - intros [f [Hf He]]. apply existsb_exists in He as [[[q h'] ok] [Hx Hh]].
    unfold ent_hit in Hh. cbn [fst snd] in Hh. apply andb_true_iff in Hh as [Hh Hq].
    apply andb_true_iff in Hh as [Hh Hok]. apply N.eqb_eq in Hh. subst h' ok.
    exists f, q. split; [exact Hf|]. split; [exact Hx | apply inl_spec; exact Hq].
  - intros [f [q [Hf [Hx Hq]]]]. exists f. split; [exact Hf|]. apply existsb_exists.
    exists (q, h, true). split; [exact Hx|]. unfold ent_hit. cbn [fst snd].
    rewrite N.eqb_refl. cbn [andb]. apply inl_spec; exact Hq.
Qed.

Lemma ld_mono t t' h :
  (forall f, In f (b_idx t) -> In f (b_idx t')) -> (forall q, In q (b_packs t) -> In q (b_packs t')) ->
  ld t h = true -> ld t' h = true.
Proof.
  intros Hi Hp H. apply ld_spec in H as [f [q [Hf [Hx Hq]]]]. apply ld_spec. exists f, q. auto.
Qed.

Lemma In_view_of packs q h ok :
  In (q, h, ok) (view_of packs) <-> exists p e, In p packs /\ In e (p_idx p) /\ p_id p = q /\ e_h e = h /\ e_ok e = ok.
Proof.
  unfold view_of. rewrite in_flat_map. split.
  - intros [p [Hp Hx]]. apply in_map_iff in Hx as [e [Heq He]]. inversion Heq; subst. exists p, e; auto.
  - intros [p [e [Hp [He [<- [<- <-]]]]]]. exists p. split; [exact Hp|]. apply in_map_iff. exists e; auto.
Qed.

Lemma In_targets packs ids p : In p (targets packs ids) <-> In p packs /\ In (p_id p) ids.
Proof. unfold targets. rewrite filter_In, inl_spec. tauto. Qed.

Lemma wf_packs_spec packs p : wf_packs packs = true -> In p packs ->
  (forall hs, p_hdr p = Some hs -> p_range_hdr p = true) /\
  (forall e, In e (p_idx p) -> e_ok e = true -> p_present p = true).
Proof.
  unfold wf_packs. rewrite forallb_forall. intros H Hp. specialize (H p Hp).
  apply andb_true_iff in H as [H1 H2]. split.
  - intros hs Hh. rewrite Hh in H1. exact H1.
  - intros e He Hok. destruct (p_present p); [reflexivity|]. cbn [orb] in H2. apply negb_true_iff in H2.
    assert (existsb e_ok (p_idx p) = true) by (apply existsb_exists; exists e; auto). congruence.
Qed.

(* every known entry of a named pack whose bytes are readable is re-uploaded *)
Lemma salvage_complete packs ids h :
  wf_packs packs = true -> In h (must_salvage packs ids) -> In h (salvaged packs ids).
Proof.
  intros Hw H. unfold must_salvage in H. apply in_flat_map in H as [p [Hp H]].
  unfold salvaged. apply in_flat_map. exists p. split; [exact Hp|].
  apply In_targets in Hp as [Hp Hid]. destruct (wf_packs_spec packs p Hw Hp) as [W1 W2].
  unfold salv_pack. apply in_app_iff in H as [H|H]; apply in_app_iff.
  - left. apply in_map_iff in H as [e [<- He]]. apply filter_In in He as [He Hok].
    apply in_map_iff. exists e. split; [reflexivity|]. apply filter_In. split; [exact He|].
    unfold delivered. rewrite Hok. destruct (p_range_idx p); [reflexivity|]. cbn [andb orb].
    apply ld_spec. exists (0, view_of packs), (p_id p). cbn [init b_idx b_packs snd]. split; [left; reflexivity|]. split.
    + apply In_view_of. exists p, e. auto.
    + apply in_map. apply filter_In. split; [exact Hp | apply (W2 e He Hok)].
  - right. destruct (p_hdr p) as [hs|] eqn:Hh; [|destruct H]. destruct (differs (p_idx p) hs); [|destruct H].
    apply in_map_iff in H as [e [<- He]]. apply filter_In in He as [He Hok].
    apply in_map_iff. exists e. split; [reflexivity|]. apply filter_In. split; [exact He|].
    unfold delivered. rewrite Hok, (W1 hs eq_refl). reflexivity.
Qed.

Definition present0 (packs : list pack) : list id := map p_id (filter p_present packs).

(* whatever could be loaded before can be loaded from the rewritten index alone, without the named packs *)
Lemma survives packs ids newp h P' :
  ~ In newp ids ->
  ld (init packs) h = true ->
  (forall q, In q (present0 packs) -> ~ In q ids -> In q P') -> In newp P' ->
  ld (B [(2, final_view packs ids newp)] P') h = true.
Proof.
  intros Hn Hl HP Hnp. pose proof Hl as Hl0. apply ld_spec in Hl as [f [q [Hf [Hx Hq]]]].
  cbn [init b_idx b_packs] in Hf, Hq. destruct Hf as [<-|[]]. cbn [snd] in Hx.
  apply ld_spec. exists (2, final_view packs ids newp). cbn [b_idx b_packs snd].
  destruct (inl q ids) eqn:Hqi.
  - apply inl_spec in Hqi. exists newp. split; [left; reflexivity|]. split; [|exact Hnp].
    unfold final_view. apply in_app_iff. right. unfold new_view. apply in_map_iff. exists h. split; [reflexivity|].
    apply In_view_of in Hx as [p [e [Hp [He [Hid [Hh Hok]]]]]].
    unfold salvaged. apply in_flat_map. exists p. split; [apply In_targets; split; [exact Hp | rewrite Hid; exact Hqi]|].
    unfold salv_pack. apply in_app_iff. left. apply in_map_iff. exists e. split; [exact Hh|].
    apply filter_In. split; [exact He|]. unfold delivered. rewrite Hh, Hl0. apply orb_true_r.
  - exists q. split; [left; reflexivity|]. split.
    + unfold final_view. apply in_app_iff. left. apply filter_In. split; [exact Hx|]. cbn [fst]. rewrite Hqi. reflexivity.
    + apply HP; [exact Hq | apply inl_false; exact Hqi].
Qed.

Lemma run_rm_packs l : forall t,
  run_a t (map ARmPack l) = B (b_idx t) (filter (fun q => negb (inl q l)) (b_packs t)).
Proof.
  induction l as [|p r IH]; intros t.
  - cbn. destruct t as [i ps]. cbn. f_equal. induction ps as [|a ps IHp]; [reflexivity|]. cbn. f_equal; exact IHp.
  - unfold run_a in *. cbn [map fold_left]. rewrite IH. cbn [apply_a b_idx b_packs]. f_equal.
    induction (b_packs t) as [|a ps IHp]; [reflexivity|]. cbn [filter inl existsb].
    destruct (a =? p) eqn:Ha; cbn [negb orb filter].
    + exact IHp.
    + fold (inl a r). destruct (negb (inl a r)); [f_equal|]; exact IHp.
Qed.

Lemma firstn_In {A} k (l : list A) x : In x (firstn k l) -> In x l.
Proof.
  revert k; induction l as [|y r IH]; intros [|k] H; cbn in H; try destruct H.
  - left; assumption.
  - right; eapply IH; eassumption.
Qed.

(* crash safety: after any prefix of the run every blob that could be loaded before still can *)
Lemma prefix_safe packs ids newp k h :
  ~ In newp ids -> ld (init packs) h = true ->
  ld (run_a (init packs) (firstn k (trace_a packs ids newp))) h = true.
Proof.
  intros Hn Hl. unfold trace_a.
  assert (Hmono : forall t, (forall f, In f (b_idx (init packs)) -> In f (b_idx t)) ->
                            (forall q, In q (b_packs (init packs)) -> In q (b_packs t)) -> ld t h = true).
  { intros t H1 H2. eapply ld_mono; eassumption. }
  assert (Hfin : forall idx P', In (2, final_view packs ids newp) idx ->
              (forall q, In q (present0 packs) -> ~ In q ids -> In q P') -> In newp P' -> ld (B idx P') h = true).
  { intros idx P' Hi HP Hnp. eapply ld_mono; [| |apply (survives packs ids newp h P' Hn Hl HP Hnp)]; cbn [b_idx b_packs].
    - intros f [<-|[]]. exact Hi.
    - auto. }
  pose (nv := new_view packs ids newp). pose (fv := final_view packs ids newp). pose (v0 := view_of packs).
  destruct k as [|[|[|[|[|k]]]]].
  - exact Hl.
  - match goal with |- ld ?t h = true => assert (Ht : t = B [(0, v0)] (newp :: present0 packs)) by reflexivity; rewrite Ht end.
    apply Hmono; cbn [init b_idx b_packs]; intros x Hx; [exact Hx | right; exact Hx].
  - match goal with |- ld ?t h = true => assert (Ht : t = B [(0, v0); (1, nv)] (newp :: present0 packs)) by reflexivity; rewrite Ht end.
    apply Hmono; cbn [init b_idx b_packs]; intros x Hx; [destruct Hx as [<-|[]]; left; reflexivity | right; exact Hx].
  - match goal with |- ld ?t h = true => assert (Ht : t = B [(0, v0); (1, nv); (2, fv)] (newp :: present0 packs)) by reflexivity; rewrite Ht end.
    apply Hmono; cbn [init b_idx b_packs]; intros x Hx; [destruct Hx as [<-|[]]; left; reflexivity | right; exact Hx].
  - match goal with |- ld ?t h = true => assert (Ht : t = B [(1, nv); (2, fv)] (newp :: present0 packs)) by reflexivity; rewrite Ht end.
    apply Hfin; [right; left; reflexivity | intros q Hq _; right; exact Hq | left; reflexivity].
  - match goal with |- ld ?t h = true =>
      assert (Ht : t = run_a (B [(2, fv)] (newp :: present0 packs)) (firstn k (map ARmPack ids))) by reflexivity; rewrite Ht end.
    rewrite firstn_map, run_rm_packs. cbn [b_idx b_packs].
    apply Hfin; [left; reflexivity | |].
    + intros q Hq Hni. apply filter_In. split; [right; exact Hq|]. apply negb_true_iff, inl_false.
      intro Hx. apply Hni. eapply firstn_In; exact Hx.
    + apply filter_In. split; [left; reflexivity|]. apply negb_true_iff, inl_false.
      intro Hx. apply Hn. eapply firstn_In; exact Hx.
Qed.

(* end state: index = rewritten index, named packs gone *)
Lemma no_loss packs ids newp h :
  ~ In newp ids -> ld (init packs) h = true ->
  ld (run_a (init packs) (trace_a packs ids newp)) h = true.
Proof.
  intros Hn Hl. rewrite <- (firstn_all (trace_a packs ids newp)). apply prefix_safe; assumption.
Qed.

(* the model's own end state satisfies the salvage clause: every blob it must salvage is listed in
   the rewritten index inside the new pack, which is present at the end *)
Lemma model_salvage_resolvable packs ids newp h :
  wf_packs packs = true -> ~ In newp ids -> In h (must_salvage packs ids) ->
  In (newp, h, true) (final_view packs ids newp) /\
  In newp (b_packs (run_a (init packs) (trace_a packs ids newp))).
Proof.
  intros Hw Hn Hh. split.
  - unfold final_view, new_view. apply in_app_iff. right. apply in_map_iff. exists h. split; [reflexivity|].
    apply salvage_complete; assumption.
  - unfold trace_a.
    assert (Ht : run_a (init packs) (ASavePack newp :: ASaveIdx 1 (new_view packs ids newp) :: ASaveIdx 2 (final_view packs ids newp)
                   :: ARmIdx 0 :: ARmIdx 1 :: map ARmPack ids)
                 = run_a (B [(2, final_view packs ids newp)] (newp :: present0 packs)) (map ARmPack ids)) by reflexivity.
    rewrite Ht, run_rm_packs. cbn [b_packs]. apply filter_In. split; [left; reflexivity|].
    apply negb_true_iff, inl_false. exact Hn.
Qed.

(* ================= part B ================= *)
Section B.
  Variable store : list (id * list node).
  Variable sizes : list (id * N).
  Notation has := (has sizes).
  Notation sumsz := (sumsz sizes).
  Notation fix_item := (fix_item sizes).

  Definition fixp (x : pitem) : pitem := (fst x, fix_item (snd x)).
  Definition lift (r : result) : result :=
    match r with ROk l => ROk (map fixp (filter not_bad l)) | x => x end.

  Lemma trav_nodes_char rec_t rec_f path ns :
    (forall p t, rec_t p t = lift (rec_f p t)) ->
    trav_nodes sizes rec_t true path ns = lift (trav_nodes sizes rec_f false path ns).
  Proof.
    intros Hrec. induction ns as [|n r IH]; [reflexivity|]. cbn [trav_nodes]. rewrite IH.
    destruct (trav_nodes sizes rec_f false path r) as [| |rest]; cbn [lift]; try reflexivity.
    destruct n as [nm c s|nm sub|nm|nm]; cbn [lift filter not_bad snd map fixp fst]; try reflexivity.
    rewrite Hrec. destruct (rec_f (path ++ [nm]) sub) as [| |l]; cbn [lift filter not_bad snd map fixp fst C34m.fix_item]; try reflexivity.
    rewrite filter_app, map_app. reflexivity.
  Qed.

  (* the repairing traversal = the plain traversal with invalid nodes dropped and every file
     reduced to its indexed blobs (everything else, including all paths, unchanged) *)
  Lemma trav_char fuel : forall path tid,
    trav store sizes true fuel path tid = lift (trav store sizes false fuel path tid).
  Proof.
    induction fuel as [|f IH]; intros path tid; [reflexivity|]. cbn [trav].
    destruct (find store tid) as [nodes|]; [|reflexivity]. apply trav_nodes_char. exact IH.
  Qed.

  Lemma filter_has_id c : forallb has c = true -> filter has c = c.
  Proof.
    induction c as [|b c IH]; [reflexivity|]. cbn [forallb filter]. intros H. apply andb_true_iff in H as [H1 H2].
    rewrite H1, IH by exact H2. reflexivity.
  Qed.

  Lemma forallb_filter_has c : forallb has (filter has c) = true.
  Proof.
    induction c as [|b c IH]; [reflexivity|]. cbn [filter]. destruct (has b) eqn:Hb; [|exact IH].
    cbn [forallb]. rewrite Hb, IH. reflexivity.
  Qed.

  (* every file in a repaired tree references only indexed blobs and has the matching size *)
  Lemma repaired_blobs_indexed fuel path tid l p c s :
    trav store sizes true fuel path tid = ROk l -> In (p, IFile c s) l ->
    forallb has c = true /\ s = sumsz c.
  Proof.
    rewrite trav_char. destruct (trav store sizes false fuel path tid) as [| |l']; cbn [lift]; try discriminate.
    intros Heq Hin. inversion Heq; subst l. apply in_map_iff in Hin as [[p' it] [Hx _]].
    unfold fixp in Hx. cbn [fst snd] in Hx. inversion Hx; subst p'.
    destruct it as [c' s'| | |]; cbn [C34m.fix_item] in *; try discriminate.
    inversion H1; subst. split; [apply forallb_filter_has | reflexivity].
  Qed.

  (* a file whose blobs are all indexed (and whose size is right) is kept unchanged at its path;
     directories and special files are kept as well *)
  Lemma intact_files_unchanged fuel path tid l l' x :
    trav store sizes false fuel path tid = ROk l' -> trav store sizes true fuel path tid = ROk l ->
    In x l' ->
    (good_file sizes x = true \/ snd x = IDir \/ snd x = IOther) -> In x l.
  Proof.
    intros Hf Ht Hin Hg. rewrite trav_char, Hf in Ht. cbn [lift] in Ht. inversion Ht; subst l.
    apply in_map_iff. exists x. destruct x as [p it]. unfold fixp. cbn [fst snd] in *. split.
    - f_equal. destruct Hg as [Hg | [-> | ->]]; try reflexivity.
      unfold good_file in Hg. cbn [snd] in Hg. destruct it as [c s| | |]; try discriminate.
      apply andb_true_iff in Hg as [H1 H2]. apply N.eqb_eq in H2. cbn [C34m.fix_item].
      rewrite (filter_has_id c H1). subst s. reflexivity.
    - apply filter_In. split; [exact Hin|]. unfold not_bad. cbn [snd].
      destruct Hg as [Hg | [-> | ->]]; try reflexivity. unfold good_file in Hg. cbn [snd] in Hg. destruct it; try discriminate; reflexivity.
  Qed.

  (* a subtree that cannot be loaded never removes its directory entry or anything outside of it:
     paths are preserved *)
  Lemma repaired_paths_subset fuel path tid l l' x :
    trav store sizes false fuel path tid = ROk l' -> trav store sizes true fuel path tid = ROk l ->
    In x l -> exists y, In y l' /\ fst y = fst x.
  Proof.
    intros Hf Ht Hin. rewrite trav_char, Hf in Ht. cbn [lift] in Ht. inversion Ht; subst l.
    apply in_map_iff in Hin as [y [<- Hy]]. apply filter_In in Hy as [Hy _]. exists y. split; [exact Hy | reflexivity].
  Qed.

  Lemma trav_nodes_intact rec_t rec_f f path ns :
    (forall p t, intact store sizes f t = true -> rec_t p t = rec_f p t /\ exists l, rec_f p t = ROk l) ->
    forallb (fun n => match n with
                      | NBad _ => false | NOther _ => true
                      | NFile _ c s => forallb has c && (s =? sumsz c)
                      | NDir _ sub => intact store sizes f sub end) ns = true ->
    trav_nodes sizes rec_t true path ns = trav_nodes sizes rec_f false path ns /\
    exists l, trav_nodes sizes rec_f false path ns = ROk l.
  Proof.
    intros Hrec. induction ns as [|n r IH]; intros H; [split; [reflexivity | eexists; reflexivity]|].
    cbn [forallb] in H. apply andb_true_iff in H as [Hn Hr]. destruct (IH Hr) as [IH1 [rest IH2]].
    cbn [trav_nodes]. rewrite IH1, IH2. destruct n as [nm c s|nm sub|nm|nm]; try discriminate.
    - apply andb_true_iff in Hn as [H1 H2]. apply N.eqb_eq in H2. cbn [C34m.fix_item].
      rewrite (filter_has_id c H1). subst s. split; [reflexivity | eexists; reflexivity].
    - destruct (Hrec (path ++ [nm]) sub Hn) as [E1 [l E2]]. rewrite E1, E2. split; [reflexivity | eexists; reflexivity].
    - split; [reflexivity | eexists; reflexivity].
  Qed.

  (* a completely intact tree is rewritten to itself: the snapshot is left alone *)
  Lemma intact_identity fuel : forall path tid,
    intact store sizes fuel tid = true ->
    trav store sizes true fuel path tid = trav store sizes false fuel path tid /\
    exists l, trav store sizes false fuel path tid = ROk l.
  Proof.
    induction fuel as [|f IH]; intros path tid H; [discriminate|]. cbn [intact] in H. cbn [trav].
    destruct (find store tid) as [nodes|]; [|discriminate].
    apply (trav_nodes_intact (trav store sizes true f) (trav store sizes false f) f path nodes); [|exact H].
    intros p t Ht. apply IH; exact Ht.
  Qed.
End B.

(* ================= oracle ================= *)
Definition C34_holds (c : case) : Prop :=
  (wf_packs (c_packs c) = true -> forall h, In h (must_salvage (c_packs c) (c_ids c)) -> resolvable_after c h = true) /\
  (forall q h ok, In (q, h, ok) (view_of (c_packs c)) -> ld (init (c_packs c)) h = true -> resolvable_after c h = true) /\
  c_check_failed c = false /\
  clause_order_a c = true /\ clause_order_b c = true /\ clause_kept c = true.

Lemma check_C34_sound c : check_C34 c = true -> C34_holds c.
Proof.
  unfold check_C34, C34_holds. rewrite !andb_true_iff. intros [[[[[H1 H2] H3] H4] H5] H6].
  split; [|split; [|split; [|auto]]].
  - intros Hw h Hh. unfold clause_salvage in H1. rewrite Hw, forallb_forall in H1. apply H1, Hh.
  - intros q h ok Hin Hl. unfold clause_noloss in H2. rewrite forallb_forall in H2.
    specialize (H2 _ Hin). cbn [fst snd] in H2. rewrite Hl in H2. exact H2.
  - unfold clause_check in H4. apply negb_true_iff in H4. exact H4.
Qed.

(* ================= non-vacuity ================= *)
Definition exA : list pack :=
  [ Pk 1 true [En 10 0 100 true; En 11 100 50 false; En 12 150 60 true] (Some [En 10 0 100 true; En 11 100 50 false; En 12 150 60 true]) true true;
    Pk 2 true [En 20 0 80 true; En 21 80 80 false] None false false;      (* truncated inside blob 21 *)
    Pk 3 true [En 11 0 50 true] (Some [En 11 0 50 true]) true true;        (* intact copy of blob 11 *)
    Pk 4 true [] (Some [En 40 0 70 true]) true true ].                      (* not indexed at all *)
Definition exStore : list (id * list node) :=
  [ (100, [NFile 1 [10; 21] 180; NDir 2 101; NDir 3 102; NBad 4]);
    (101, [NFile 5 [12] 60; NOther 6]) ].
Definition exSizes : list (id * N) := [(10, 100); (12, 60); (11, 50)].
Example c34_nonvacuous :
  wf_packs exA = true
  /\ must_salvage exA [1; 2; 4] = [10; 12; 20; 40]
  /\ salvaged exA [1; 2; 4] = [10; 11; 12; 20; 40]          (* blob 11 is fetched from its copy in pack 3 *)
  /\ ld (init exA) 21 = false /\ ld (init exA) 11 = true
  /\ ld (run_a (init exA) (trace_a exA [1; 2; 4] 9000)) 11 = true
  /\ ld (run_a (init exA) (firstn 6 (trace_a exA [1; 2; 4] 9000))) 20 = true
  /\ repair_snapshot exStore exSizes 64 100 =
       OReplaced [([1], IFile [10] 100); ([2], IDir); ([2; 5], IFile [12] 60); ([2; 6], IOther); ([3], IDir)]
  /\ repair_snapshot exStore exSizes 64 101 = OUnmodified
  /\ repair_snapshot exStore exSizes 64 102 = ORemoved.
Proof. vm_compute. repeat split. Qed.
