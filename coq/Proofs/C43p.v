From Restic Require Import Base.Prelude Gen.ParamsC43 Model.C43m.
From Coq Require Import Permutation.
Import C43m.
Open Scope Z_scope.

Lemma insert_perm x l : Permutation (insert x l) (x :: l).
Proof.
  induction l as [|y l IH]; cbn [insert]; [reflexivity|].
  destruct (r_off x <? r_off y); [reflexivity|].
  eapply perm_trans; [apply perm_skip, IH|]. apply perm_swap.
Qed.

Lemma sort_perm l : Permutation (sort l) l.
Proof.
  induction l as [|x l IH]; cbn [sort]; [reflexivity|].
  eapply perm_trans; [apply insert_perm|]. apply perm_skip, IH.
Qed.

Lemma sort_length l : length (sort l) = length l.
Proof. apply Permutation_length, sort_perm. Qed.

(* what one callback invocation may look like for request b *)
Definition good_cb (e : env) (b : req) (cb : N * N) : Prop :=
  fst cb = r_id b /\ (snd cb = 1%N \/ snd cb = 0%N) /\
  (snd cb = 1%N -> mem_req b (e_good e) || fb_ok e (r_id b) = true) /\
  (fb_ok e (r_id b) = true -> snd cb = 1%N).

(* "t' extends t by callbacks for exactly the first k blobs of part, in order" *)
Definition extends (e : env) (t t' : tr) (part : list req) (r : result) : Prop :=
  exists k new, (k <= length part)%nat /\ t_cbs t' = t_cbs t ++ new /\
    Forall2 (good_cb e) (firstn k part) new /\ (r = ROk -> k = length part).

Lemma callback_cbs e t id ok : t_cbs (fst (callback e t id ok)) = t_cbs t ++ [(id, if ok then 1%N else 0%N)].
Proof. reflexivity. Qed.

Lemma extends_step (e : env) (t : tr) (b : req) (ok : bool) (t1 : tr) (r : result) (rest : list req) (t2 : tr) :
  t_cbs t1 = t_cbs t ++ [(r_id b, if ok then 1%N else 0%N)] ->
  (ok = true -> mem_req b (e_good e) || fb_ok e (r_id b) = true) -> (fb_ok e (r_id b) = true -> ok = true) ->
  extends e t1 t2 rest r -> extends e t t2 (b :: rest) r.
Proof.
  intros H1 Hok Hfb (k & new & Hk & Hc & Hf & Hr).
  exists (S k), ((r_id b, if ok then 1%N else 0%N) :: new). split; [cbn [length]; lia|]. split.
  - rewrite Hc, H1, <- app_assoc. reflexivity.
  - split; [|intros E; cbn [length]; rewrite (Hr E); reflexivity].
    cbn [firstn]. constructor; [|exact Hf]. unfold good_cb; cbn [fst snd]. split; [reflexivity|].
    destruct ok; (split; [auto|]); split; intros H; try discriminate; auto.
    specialize (Hfb H); discriminate.
Qed.

Lemma extends_stop (e : env) (t : tr) (b : req) (ok : bool) (t1 : tr) (rest : list req) :
  t_cbs t1 = t_cbs t ++ [(r_id b, if ok then 1%N else 0%N)] ->
  (ok = true -> mem_req b (e_good e) || fb_ok e (r_id b) = true) -> (fb_ok e (r_id b) = true -> ok = true) ->
  extends e t t1 (b :: rest) RErr.
Proof.
  intros H1 Hok Hfb. exists 1%nat, [(r_id b, if ok then 1%N else 0%N)]. split; [cbn [length]; lia|]. split; [exact H1|].
  split; [|discriminate]. cbn [firstn]. constructor; [|constructor]. unfold good_cb; cbn [fst snd]. split; [reflexivity|].
  destruct ok; (split; [auto|]); split; intros H; try discriminate; auto. specialize (Hfb H); discriminate.
Qed.

Lemma extends_none e t t' part r : t_cbs t' = t_cbs t -> r <> ROk -> extends e t t' part r.
Proof.
  intros Hc H. exists 0%nat, []. split; [lia|]. split; [rewrite app_nil_r; exact Hc|]. split; [constructor|congruence].
Qed.

Lemma extends_nil e t : extends e t t [] ROk.
Proof. exists 0%nat, []. split; [cbn; lia|]. split; [rewrite app_nil_r; reflexivity|]. split; [constructor|reflexivity]. Qed.

Lemma fallback_all_extends e part : forall t, extends e t (fst (fallback_all e t part)) part (snd (fallback_all e t part)).
Proof.
  induction part as [|b rest IH]; intros t; cbn [fallback_all]; [apply extends_nil|].
  unfold callback. set (t1 := mkTr (t_loads t) (t_cbs t ++ [(r_id b, if fb_ok e (r_id b) then 1%N else 0%N)])).
  destruct (match e_cbfail e with Some j => Nat.eqb j (length (t_cbs t)) | None => false end).
  - cbn [fst snd]. apply (extends_stop e t b (fb_ok e (r_id b)) t1); [reflexivity| |auto].
    intros H. rewrite H. apply orb_true_r.
  - apply (extends_step e t b (fb_ok e (r_id b)) t1); [reflexivity| |auto|apply IH].
    intros H. rewrite H. apply orb_true_r.
Qed.

Lemma iterate_extends e part : forall t cur dend,
  extends e t (fst (iterate e t cur dend part)) part (snd (iterate e t cur dend part)).
Proof.
  induction part as [|b rest IH]; intros t cur dend; cbn [iterate]; [apply extends_nil|].
  destruct (r_off b - cur <? 0); [apply extends_none; [reflexivity|discriminate]|].
  destruct (dend - cur <? r_off b - cur); [apply extends_none; [reflexivity|discriminate]|].
  destruct (dend - r_off b <? r_len b); [apply extends_none; [reflexivity|discriminate]|].
  destruct (r_len b <=? nonce_size); [apply extends_none; [reflexivity|discriminate]|].
  unfold callback.
  set (ok := mem_req b (e_good e) || fb_ok e (r_id b)).
  set (t1 := mkTr (t_loads t) (t_cbs t ++ [(r_id b, if ok then 1%N else 0%N)])).
  destruct (match e_cbfail e with Some j => Nat.eqb j (length (t_cbs t)) | None => false end).
  - cbn [fst snd]. apply (extends_stop e t b ok t1); [reflexivity|auto|].
    intros H. unfold ok. rewrite H. apply orb_true_r.
  - apply (extends_step e t b ok t1); [reflexivity|auto| |apply IH].
    intros H. unfold ok. rewrite H. apply orb_true_r.
Qed.

Lemma extends_loads e t t' part r l : extends e (mkTr l (t_cbs t)) t' part r -> extends e t t' part r.
Proof. intros H. exact H. Qed.

Lemma stream_part_extends e t part :
  extends e t (fst (stream_part e t part)) part (snd (stream_part e t part)).
Proof.
  unfold stream_part. destruct part as [|first rest]; [apply extends_none; [reflexivity|discriminate]|].
  set (part := first :: rest).
  destruct (r_off (last part first) + r_len (last part first) - r_off first <? 0); [apply extends_none; [reflexivity|discriminate]|].
  set (t1 := mkTr _ (t_cbs t)).
  destruct (mem_nat (length (t_loads t)) (e_loadfail e) || (e_size e <? r_off (last part first) + r_len (last part first))).
  - destruct (e_fb e); [|apply extends_none; [reflexivity|discriminate]].
    apply (extends_loads e t _ part _ (t_loads t1)). apply (fallback_all_extends e part t1).
  - apply (extends_loads e t _ part _ (t_loads t1)). apply (iterate_extends e part t1).
Qed.

Lemma extends_trans e t t1 t2 a b r :
  extends e t t1 a ROk -> extends e t1 t2 b r -> extends e t t2 (a ++ b) r.
Proof.
  intros (k1 & n1 & Hk1 & Hc1 & Hf1 & Hr1) (k2 & n2 & Hk2 & Hc2 & Hf2 & Hr2).
  specialize (Hr1 eq_refl). subst k1. rewrite firstn_all in Hf1.
  exists (length a + k2)%nat, (n1 ++ n2). split; [rewrite app_length; lia|]. split.
  - rewrite Hc2, Hc1, app_assoc. reflexivity.
  - split; [|intros E; rewrite (Hr2 E), app_length; reflexivity].
    rewrite firstn_app_2. apply Forall2_app; assumption.
Qed.

Lemma extends_weaken e t t1 a b r : r <> ROk -> extends e t t1 a r -> extends e t t1 (a ++ b) r.
Proof.
  intros Hne (k & n & Hk & Hc & Hf & Hr). exists k, n. split; [rewrite app_length; lia|]. split; [exact Hc|].
  split; [|intros E; congruence]. rewrite firstn_app. replace (k - length a)%nat with 0%nat by lia.
  cbn [firstn]. rewrite app_nil_r. exact Hf.
Qed.

Lemma stream_go_extends e l : forall t cur lower lastpos,
  extends e t (fst (stream_go e t cur lower lastpos l)) (cur ++ l) (snd (stream_go e t cur lower lastpos l)).
Proof.
  induction l as [|b r IH]; intros t cur lower lastpos; cbn [stream_go].
  - rewrite app_nil_r. apply stream_part_extends.
  - destruct (r_off b <? lastpos); [apply extends_none; [reflexivity|discriminate]|].
    destruct ((match cur with [] => false | _ :: _ => true end &&
               (r_off b + r_len b - match cur with [] => r_off b | _ :: _ => lower end >=? max_chunk_size))
              || (r_off b - lastpos >? max_unused_range)).
    + pose proof (stream_part_extends e t cur) as Hp.
      destruct (stream_part e t cur) as [t' x] eqn:Es. cbn [fst snd] in Hp.
      destruct x.
      * specialize (IH t' [b] (r_off b) (r_off b + r_len b)). cbn [app] in IH.
        apply (extends_trans e t t' _ cur (b :: r) _ Hp IH).
      * cbn [fst snd]. apply extends_weaken; [discriminate|exact Hp].
      * cbn [fst snd]. apply extends_weaken; [discriminate|exact Hp].
    + specialize (IH t (cur ++ [b]) (match cur with [] => r_off b | _ :: _ => lower end) (r_off b + r_len b)).
      rewrite <- app_assoc in IH. exact IH.
Qed.

(* every run of streamPack: the callbacks are, in order, for exactly the first k requests of the sorted
   request list (so at most one per request), each either an error or the blob's own plaintext (intact in
   the pack or from the fallback copy), a loadable fallback copy is always used; success means k = all *)
Theorem stream_pack_extends e reqs :
  extends e (mkTr [] []) (fst (stream_pack e reqs)) (sort reqs) (snd (stream_pack e reqs)).
Proof.
  unfold stream_pack. destruct (sort reqs) as [|first rest] eqn:E; [apply extends_nil|].
  apply (stream_go_extends e (first :: rest) (mkTr [] []) [] (r_off first) (r_off first)).
Qed.

Lemma Forall2_ids e l new : Forall2 (good_cb e) l new -> map fst new = ids l /\ length new = length l.
Proof.
  induction 1 as [|b cb l new H _ IH]; [split; reflexivity|]. destruct IH as [I1 I2]. destruct H as [H _].
  cbn [map ids length]. unfold ids in I1. rewrite H, I1, I2. split; reflexivity.
Qed.

Theorem at_most_once e reqs : let t := fst (stream_pack e reqs) in
  map fst (t_cbs t) = ids (firstn (length (t_cbs t)) (sort reqs)) /\ (length (t_cbs t) <= length reqs)%nat.
Proof.
  cbn zeta. destruct (stream_pack_extends e reqs) as (k & new & Hk & Hc & Hf & _). cbn [t_cbs app] in Hc.
  rewrite Hc. destruct (Forall2_ids _ _ _ Hf) as [H1 H2]. rewrite firstn_length in H2.
  rewrite sort_length in Hk. rewrite H2, Nat.min_l by (rewrite sort_length; exact Hk). split; [exact H1|exact Hk].
Qed.

Theorem once_each e reqs : snd (stream_pack e reqs) = ROk ->
  map fst (t_cbs (fst (stream_pack e reqs))) = ids (sort reqs) /\ Permutation (sort reqs) reqs.
Proof.
  intros Hok. destruct (stream_pack_extends e reqs) as (k & new & Hk & Hc & Hf & Hr). cbn [t_cbs app] in Hc.
  specialize (Hr Hok). subst k. rewrite firstn_all in Hf. rewrite Hc. split; [apply (Forall2_ids _ _ _ Hf)|apply sort_perm].
Qed.

Theorem payload_correct e reqs : let t := fst (stream_pack e reqs) in
  Forall2 (good_cb e) (firstn (length (t_cbs t)) (sort reqs)) (t_cbs t).
Proof.
  cbn zeta. destruct (stream_pack_extends e reqs) as (k & new & Hk & Hc & Hf & _). cbn [t_cbs app] in Hc.
  rewrite Hc. destruct (Forall2_ids _ _ _ Hf) as [_ H2]. rewrite firstn_length in H2.
  rewrite H2, Nat.min_l by exact Hk. exact Hf.
Qed.

(* ---------- oracle ---------- *)
Definition C43_holds (c : case) : Prop :=
  let sorted := sort (c_reqs c) in
  let n := length (c_cbs c) in
  c_res c <> RPanic /\
  map fst (c_cbs c) = ids (firstn n sorted) /\ (n <= length sorted)%nat /\
  (c_res c = ROk -> n = length sorted) /\
  (forall cb, In cb (c_cbs c) -> fb_ok (c_env c) (fst cb) = true -> snd cb = 1%N) /\
  (forall b cb, In (b, cb) (combine (firstn n sorted) (c_cbs c)) ->
     snd cb = 0%N \/ (snd cb = 1%N /\ mem_req b (e_good (c_env c)) || fb_ok (c_env c) (fst cb) = true)).

Lemma N_list_eqb_spec a b : N_list_eqb a b = true <-> a = b.
Proof. apply list_eqb_spec. intros x y. apply N.eqb_eq. Qed.

Theorem check_C43_sound c : check_C43 c = true -> C43_holds c.
Proof.
  unfold check_C43, oracle_code, C43_holds. intros H. apply Nat.eqb_eq in H.
  destruct (c_res c) eqn:Er; try discriminate.
  - destruct (N_list_eqb (map fst (c_cbs c)) (ids (firstn (length (c_cbs c)) (sort (c_reqs c)))) &&
              Nat.leb (length (c_cbs c)) (length (sort (c_reqs c)))) eqn:E1; cbn [negb] in H; [|discriminate].
    apply andb_true_iff in E1 as [E1 E1']. apply N_list_eqb_spec in E1. apply Nat.leb_le in E1'.
    cbn [res_eqb andb] in H.
    destruct (Nat.eqb (length (c_cbs c)) (length (sort (c_reqs c)))) eqn:E2; cbn [negb] in H; [|discriminate].
    apply Nat.eqb_eq in E2.
    destruct (forallb _ (c_cbs c)) eqn:E3; cbn [negb] in H; [|discriminate].
    destruct (forallb _ (combine _ _)) eqn:E4; cbn [negb] in H; [|discriminate].
    rewrite forallb_forall in E3, E4.
    split; [discriminate|]. split; [exact E1|]. split; [exact E1'|]. split; [intros _; exact E2|]. split.
    + intros cb Hcb Hfb. specialize (E3 cb Hcb). rewrite Hfb in E3. cbn [negb orb] in E3. apply N.eqb_eq, E3.
    + intros b cb Hin. specialize (E4 (b, cb) Hin). cbn [fst snd] in E4.
      destruct (snd cb) as [|[| |]] eqn:Es; try discriminate; [left; reflexivity|right; split; [reflexivity|exact E4]].
  - destruct (N_list_eqb (map fst (c_cbs c)) (ids (firstn (length (c_cbs c)) (sort (c_reqs c)))) &&
              Nat.leb (length (c_cbs c)) (length (sort (c_reqs c)))) eqn:E1; cbn [negb] in H; [|discriminate].
    apply andb_true_iff in E1 as [E1 E1']. apply N_list_eqb_spec in E1. apply Nat.leb_le in E1'.
    cbn [res_eqb andb] in H.
    destruct (forallb _ (c_cbs c)) eqn:E3; cbn [negb] in H; [|discriminate].
    destruct (forallb _ (combine _ _)) eqn:E4; cbn [negb] in H; [|discriminate].
    rewrite forallb_forall in E3, E4.
    split; [discriminate|]. split; [exact E1|]. split; [exact E1'|]. split; [discriminate|]. split.
    + intros cb Hcb Hfb. specialize (E3 cb Hcb). rewrite Hfb in E3. cbn [negb orb] in E3. apply N.eqb_eq, E3.
    + intros b cb Hin. specialize (E4 (b, cb) Hin). cbn [fst snd] in E4.
      destruct (snd cb) as [|[| |]] eqn:Es; try discriminate; [left; reflexivity|right; split; [reflexivity|exact E4]].
Qed.

Example c43_nonvacuous :
  let a := mkReq 1 0 50 in let b := mkReq 2 60 40 in let c := mkReq 3 2000000 45 in
  let e := mkEnv [a; c] 3000000 [] (Some [2%N]) None in
  stream_pack e [c; b; a] = (mkTr [(0, 100); (2000000, 45)] [(1, 1); (2, 1); (3, 1)]%N, ROk)
  /\ snd (stream_pack e [a; a]) = RErr
  /\ stream_pack (mkEnv [a; c] 3000000 [0%nat] None None) [c; a] = (mkTr [(0, 50)] [], RErr).
Proof. vm_compute. repeat split. Qed.
