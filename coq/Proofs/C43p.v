From Restic Require Import Base.Prelude Gen.ParamsC43 Model.C43m.
From Coq Require Import Permutation.
Import C43m.
Open Scope Z_scope.

Lemma insert_perm x l : Permutation (insert x l) (x :: l).
Proof.
  induction l as [|y l IH]; cbn [insert]; [reflexivity|].
  destruct (r_off x <? r_off y); [reflexivity|].
  eapply perm_trans; [apply perm_skip, IH|]. apply perm_swap.
Qed.

Lemma sort_perm l : Permutation (sort l) l.
Proof.
  induction l as [|x l IH]; cbn [sort]; [reflexivity|].
  eapply perm_trans; [apply insert_perm|]. apply perm_skip, IH.
Qed.

Lemma sort_length l : length (sort l) = length l.
Proof. apply Permutation_length, sort_perm. Qed.

(* what one callback invocation may look like for request b *)
Definition good_cb (e : env) (b : req) (cb : N * N) : Prop :=
  fst cb = r_id b /\ (snd cb = 1%N \/ snd cb = 0%N) /\
  (snd cb = 1%N -> mem_req b (e_good e) || fb_ok e (r_id b) = true) /\
  (fb_ok e (r_id b) = true -> snd cb = 1%N).

(* "t' extends t by callbacks for exactly the first k blobs of part, in order" *)
Definition extends (e : env) (t t' : tr) (part : list req) (r : result) : Prop :=
  exists k new, (k <= length part)%nat /\ t_cbs t' = t_cbs t ++ new /\
    Forall2 (good_cb e) (firstn k part) new /\ (r = ROk -> k = length part).

Lemma callback_cbs e t id ok : t_cbs (fst (callback e t id ok)) = t_cbs t ++ [(id, if ok then 1%N else 0%N)].
Proof. reflexivity. Qed.

Lemma extends_step (e : env) (t : tr) (b : req) (ok : bool) (t1 : tr) (r : result) (rest : list req) (t2 : tr) :
  t_cbs t1 = t_cbs t ++ [(r_id b, if ok then 1%N else 0%N)] ->
  (ok = true -> mem_req b (e_good e) || fb_ok e (r_id b) = true) -> (fb_ok e (r_id b) = true -> ok = true) ->
  extends e t1 t2 rest r -> extends e t t2 (b :: rest) r.
Proof.
  intros H1 Hok Hfb (k & new & Hk & Hc & Hf & Hr).
  exists (S k), ((r_id b, if ok then 1%N else 0%N) :: new). split; [cbn [length]; lia|]. split.
  - rewrite Hc, H1, <- app_assoc. reflexivity.
  - split; [|intros E; cbn [length]; rewrite (Hr E); reflexivity].
    cbn [firstn]. constructor; [|exact Hf]. unfold good_cb; cbn [fst snd]. split; [reflexivity|].
    destruct ok; (split; [auto|]); split; intros H; try discriminate; auto.
    specialize (Hfb H); discriminate.
Qed.

Lemma extends_stop (e : env) (t : tr) (b : req) (ok : bool) (t1 : tr) (rest : list req) :
  t_cbs t1 = t_cbs t ++ [(r_id b, if ok then 1%N else 0%N)] ->
  (ok = true -> mem_req b (e_good e) || fb_ok e (r_id b) = true) -> (fb_ok e (r_id b) = true -> ok = true) ->
  extends e t t1 (b :: rest) RErr.
Proof.
  intros H1 Hok Hfb. exists 1%nat, [(r_id b, if ok then 1%N else 0%N)]. split; [cbn [length]; lia|]. split; [exact H1|].
  split; [|discriminate]. cbn [firstn]. constructor; [|constructor]. unfold good_cb; cbn [fst snd]. split; [reflexivity|].
  destruct ok; (split; [auto|]); split; intros H; try discriminate; auto. specialize (Hfb H); discriminate.
Qed.

Lemma extends_none e t t' part r : t_cbs t' = t_cbs t -> r <> ROk -> extends e t t' part r.
Proof.
  intros Hc H. exists 0%nat, []. split; [lia|]. split; [rewrite app_nil_r; exact Hc|]. split; [constructor|congruence].
Qed.

Lemma extends_nil e t : extends e t t [] ROk.
Proof. exists 0%nat, []. split; [cbn; lia|]. split; [rewrite app_nil_r; reflexivity|]. split; [constructor|reflexivity]. Qed.

Lemma fallback_all_extends e part : forall t, extends e t (fst (fallback_all e t part)) part (snd (fallback_all e t part)).
Proof.
  induction part as [|b rest IH]; intros t; cbn [fallback_all]; [apply extends_nil|].
  unfold callback. set (t1 := mkTr (t_loads t) (t_cbs t ++ [(r_id b, if fb_ok e (r_id b) then 1%N else 0%N)])).
  destruct (match e_cbfail e with Some j => Nat.eqb j (length (t_cbs t)) | None => false end).
  - cbn [fst snd]. apply (extends_stop e t b (fb_ok e (r_id b)) t1); [reflexivity| |auto].
    intros H. rewrite H. apply orb_true_r.
  - apply (extends_step e t b (fb_ok e (r_id b)) t1); [reflexivity| |auto|apply IH].
    intros H. rewrite H. apply orb_true_r.
Qed.

Lemma iterate_extends e part : forall t cur dend,
  extends e t (fst (iterate e t cur dend part)) part (snd (iterate e t cur dend part)).
Proof.
  induction part as [|b rest IH]; intros t cur dend; cbn [iterate]; [apply extends_nil|].
  destruct (r_off b - cur <? 0); [apply extends_none; [reflexivity|discriminate]|].
  destruct (dend - cur <? r_off b - cur); [apply extends_none; [reflexivity|discriminate]|].
  destruct (dend - r_off b <? r_len b); [apply extends_none; [reflexivity|discriminate]|].
  destruct (r_len b <=? nonce_size); [apply extends_none; [reflexivity|discriminate]|].
  unfold callback.
  set (ok := mem_req b (e_good e) || fb_ok e (r_id b)).
  set (t1 := mkTr (t_loads t) (t_cbs t ++ [(r_id b, if ok then 1%N else 0%N)])).
  destruct (match e_cbfail e with Some j => Nat.eqb j (length (t_cbs t)) | None => false end).
  - cbn [fst snd]. apply (extends_stop e t b ok t1); [reflexivity|auto|].
    intros H. unfold ok. rewrite H. apply orb_true_r.
  - apply (extends_step e t b ok t1); [reflexivity|auto| |apply IH].
    intros H. unfold ok. rewrite H. apply orb_true_r.
Qed.

Lemma extends_loads e t t' part r l : extends e (mkTr l (t_cbs t)) t' part r -> extends e t t' part r.
Proof. intros H. exact H. Qed.

Lemma stream_part_extends e t part :
  extends e t (fst (stream_part e t part)) part (snd (stream_part e t part)).
Proof.
  unfold stream_part. destruct part as [|first rest]; [apply extends_none; [reflexivity|discriminate]|].
  set (part := first :: rest).
  destruct (r_off (last part first) + r_len (last part first) - r_off first <? 0); [apply extends_none; [reflexivity|discriminate]|].
  set (t1 := mkTr _ (t_cbs t)).
  destruct (mem_nat (length (t_loads t)) (e_loadfail e) || (e_size e <? r_off (last part first) + r_len (last part first))).
  - destruct (e_fb e); [|apply extends_none; [reflexivity|discriminate]].
    apply (extends_loads e t _ part _ (t_loads t1)). apply (fallback_all_extends e part t1).
  - apply (extends_loads e t _ part _ (t_loads t1)). apply (iterate_extends e part t1).
Qed.

Lemma extends_trans e t t1 t2 a b r :
  extends e t t1 a ROk -> extends e t1 t2 b r -> extends e t t2 (a ++ b) r.
Proof.
  intros (k1 & n1 & Hk1 & Hc1 & Hf1 & Hr1) (k2 & n2 & Hk2 & Hc2 & Hf2 & Hr2).
  specialize (Hr1 eq_refl). subst k1. rewrite firstn_all in Hf1.
  exists (length a + k2)%nat, (n1 ++ n2). split; [rewrite app_length; lia|]. split.
  - rewrite Hc2, Hc1, app_assoc. reflexivity.
  - split; [|intros E; rewrite (Hr2 E), app_length; reflexivity].
    rewrite firstn_app_2. apply Forall2_app; assumption.
Qed.

Lemma extends_weaken e t t1 a b r : r <> ROk -> extends e t t1 a r -> extends e t t1 (a ++ b) r.
Proof.
  intros Hne (k & n & Hk & Hc & Hf & Hr). exists k, n. split; [rewrite app_length; lia|]. split; [exact Hc|].
  split; [|intros E; congruence]. rewrite firstn_app. replace (k - length a)%nat with 0%nat by lia.
  cbn [firstn]. rewrite app_nil_r. exact Hf.
Qed.

Lemma stream_go_extends e l : forall t cur lower lastpos,
  extends e t (fst (stream_go e t cur lower lastpos l)) (cur ++ l) (snd (stream_go e t cur lower lastpos l)).
Proof.
  induction l as [|b r IH]; intros t cur lower lastpos; cbn [stream_go].
  - rewrite app_nil_r. apply stream_part_extends.
  - destruct (r_off b <? lastpos); [apply extends_none; [reflexivity|discriminate]|].
    destruct ((match cur with [] => false | _ :: _ => true end &&
               (r_off b + r_len b - match cur with [] => r_off b | _ :: _ => lower end >=? max_chunk_size))
              || (r_off b - lastpos >? max_unused_range)).
    + pose proof (stream_part_extends e t cur) as Hp.
      destruct (stream_part e t cur) as [t' x] eqn:Es. cbn [fst snd] in Hp.
      destruct x.
      * specialize (IH t' [b] (r_off b) (r_off b + r_len b)). cbn [app] in IH.
        apply (extends_trans e t t' _ cur (b :: r) _ Hp IH).
      * cbn [fst snd]. apply extends_weaken; [discriminate|exact Hp].
      * cbn [fst snd]. apply extends_weaken; [discriminate|exact Hp].
    + specialize (IH t (cur ++ [b]) (match cur with [] => r_off b | _ :: _ => lower end) (r_off b + r_len b)).
      rewrite <- app_assoc in IH. exact IH.
Qed.

(* every run of streamPack: the callbacks are, in order, for exactly the first k requests of the sorted
   request list (so at most one per request), each either an error or the blob's own plaintext (intact in
   the pack or from the fallback copy), a loadable fallback copy is always used; success means k = all *)
Theorem stream_pack_extends e reqs :
  extends e (mkTr [] []) (fst (stream_pack e reqs)) (sort reqs) (snd (stream_pack e reqs)).
Proof.
  unfold stream_pack. destruct (sort reqs) as [|first rest] eqn:E; [apply extends_nil|].
  apply (stream_go_extends e (first :: rest) (mkTr [] []) [] (r_off first) (r_off first)).
Qed.

Lemma Forall2_ids e l new : Forall2 (good_cb e) l new -> map fst new = ids l /\ length new = length l.
Proof.
  induction 1 as [|b cb l new H _ IH]; [split; reflexivity|]. destruct IH as [I1 I2]. destruct H as [H _].
  cbn [map ids length]. unfold ids in I1. rewrite H, I1, I2. split; reflexivity.
Qed.

Theorem at_most_once e reqs : let t := fst (stream_pack e reqs) in
  map fst (t_cbs t) = ids (firstn (length (t_cbs t)) (sort reqs)) /\ (length (t_cbs t) <= length reqs)%nat.
Proof.
  cbn zeta. destruct (stream_pack_extends e reqs) as (k & new & Hk & Hc & Hf & _). cbn [t_cbs app] in Hc.
  rewrite Hc. destruct (Forall2_ids _ _ _ Hf) as [H1 H2]. rewrite firstn_length in H2.
  rewrite sort_length in Hk. rewrite H2, Nat.min_l by (rewrite sort_length; exact Hk). split; [exact H1|exact Hk].
Qed.

Theorem once_each e reqs : snd (stream_pack e reqs) = ROk ->
  map fst (t_cbs (fst (stream_pack e reqs))) = ids (sort reqs) /\ Permutation (sort reqs) reqs.
Proof.
  intros Hok. destruct (stream_pack_extends e reqs) as (k & new & Hk & Hc & Hf & Hr). cbn [t_cbs app] in Hc.
  specialize (Hr Hok). subst k. rewrite firstn_all in Hf. rewrite Hc. split; [apply (Forall2_ids _ _ _ Hf)|apply sort_perm].
Qed.

Theorem payload_correct e reqs : let t := fst (stream_pack e reqs) in
  Forall2 (good_cb e) (firstn (length (t_cbs t)) (sort reqs)) (t_cbs t).
Proof.
  cbn zeta. destruct (stream_pack_extends e reqs) as (k & new & Hk & Hc & Hf & _). cbn [t_cbs app] in Hc.
  rewrite Hc. destruct (Forall2_ids _ _ _ Hf) as [_ H2]. rewrite firstn_length in H2.
  rewrite H2, Nat.min_l by exact Hk. exact Hf.
Qed.

(* ---------- the partition into ranged loads; no panic ---------- *)
Definition rend (b : req) : Z := r_off b + r_len b.
Definition nonneg (b : req) : Prop := 0 <= r_len b.

(* the split decisions of streamPack alone: parts handed to streamPackPart so far, and whether an overlap
   stopped the loop (the pending part is then not streamed) *)
Fixpoint split_go (cur : list req) (lower lastpos : Z) (l : list req) : list (list req) * bool :=
  match l with
  | [] => ([cur], false)
  | b :: r =>
      if r_off b <? lastpos then ([], true)
      else
        let lower' := match cur with [] => r_off b | _ => lower end in
        if (match cur with [] => false | _ => true end && (r_off b + r_len b - lower' >=? max_chunk_size))
           || (r_off b - lastpos >? max_unused_range)
        then let '(ps, ov) := split_go [b] (r_off b) (r_off b + r_len b) r in (cur :: ps, ov)
        else split_go (cur ++ [b]) lower' (r_off b + r_len b) r
  end.

Fixpoint run_parts (e : env) (t : tr) (ps : list (list req)) : tr * result :=
  match ps with
  | [] => (t, ROk)
  | p :: r => match stream_part e t p with (t', ROk) => run_parts e t' r | x => x end
  end.

Definition finish (x : tr * result) (ov : bool) : tr * result :=
  match x with (t', ROk) => (t', if ov then RErr else ROk) | y => y end.

Lemma stream_go_split e l : forall t cur lower lastpos,
  stream_go e t cur lower lastpos l =
  finish (run_parts e t (fst (split_go cur lower lastpos l))) (snd (split_go cur lower lastpos l)).
Proof.
  induction l as [|b r IH]; intros t cur lower lastpos; cbn [stream_go split_go].
  - cbn [fst snd run_parts]. destruct (stream_part e t cur) as [t' x]. destruct x; reflexivity.
  - destruct (r_off b <? lastpos); [reflexivity|].
    destruct ((match cur with [] => false | _ :: _ => true end &&
               (r_off b + r_len b - match cur with [] => r_off b | _ :: _ => lower end >=? max_chunk_size))
              || (r_off b - lastpos >? max_unused_range)).
    + specialize (IH (fst (stream_part e t cur)) [b] (r_off b) (r_off b + r_len b)).
      destruct (split_go [b] (r_off b) (r_off b + r_len b) r) as [ps ov]. cbn [fst snd] in *.
      cbn [run_parts]. destruct (stream_part e t cur) as [t' x]. cbn [fst] in IH. destruct x; [exact IH|reflexivity|reflexivity].
    + apply IH.
Qed.

Fixpoint chain (p : list req) : Prop :=
  match p with
  | x :: ((y :: _) as r) => rend x <= r_off y <= rend x + max_unused_range /\ chain r
  | _ => True
  end.

(* a part: non-empty, blobs in offset order without overlap, gaps of at most maxUnusedRange, and - unless it
   consists of a single blob - shorter than maxChunkSize *)
Definition part_ok (p : list req) : Prop :=
  exists f r, p = f :: r /\ Forall nonneg p /\ chain p /\ (r <> [] -> rend (last p f) - r_off f < max_chunk_size).

Definition cur_inv (cur : list req) (lower lastpos : Z) : Prop :=
  exists f r, cur = f :: r /\ lower = r_off f /\ lastpos = rend (last cur f) /\ Forall nonneg cur /\ chain cur /\
              (r <> [] -> lastpos - lower < max_chunk_size).

Lemma last_default (l : list req) : forall a d d', last (a :: l) d = last (a :: l) d'.
Proof. induction l as [|y l IH]; intros a d d'; [reflexivity|]. change (last (y :: l) d = last (y :: l) d'). apply IH. Qed.

Lemma last_snoc (l : list req) b d : last (l ++ [b]) d = b.
Proof. apply last_last. Qed.

Lemma chain_snoc r : forall f b, chain (f :: r) -> rend (last (f :: r) f) <= r_off b <= rend (last (f :: r) f) + max_unused_range ->
  chain ((f :: r) ++ [b]).
Proof.
  induction r as [|y r IH]; intros f b Hc Hb.
  - cbn [app chain last] in *. split; [exact Hb|exact I].
  - destruct Hc as [H1 H2]. change ((f :: y :: r) ++ [b]) with (f :: ((y :: r) ++ [b])).
    change (chain (f :: (y :: r) ++ [b])) with (rend f <= r_off y <= rend f + max_unused_range /\ chain ((y :: r) ++ [b])).
    split; [exact H1|]. apply IH; [exact H2|].
    change (last (f :: y :: r) f) with (last (y :: r) f) in Hb. rewrite (last_default r y f y) in Hb. exact Hb.
Qed.

Lemma chain_start_le_end r : forall f, Forall nonneg (f :: r) -> chain (f :: r) -> r_off f <= rend (last (f :: r) f).
Proof.
  induction r as [|y r IH]; intros f Hn Hc.
  - cbn [last]. inversion Hn; subst. unfold rend, nonneg in *. lia.
  - destruct Hc as [H1 H2]. inversion Hn; subst. specialize (IH y H4 H2).
    change (last (f :: y :: r) f) with (last (y :: r) f). rewrite (last_default r y f y).
    unfold rend, nonneg in *. lia.
Qed.

Lemma max_unused_nonneg : 0 <= max_unused_range. Proof. unfold max_unused_range, ParamsC43.max_unused_range. lia. Qed.

Lemma split_go_ok l : forall cur lower lastpos, Forall nonneg l -> cur_inv cur lower lastpos ->
  Forall part_ok (fst (split_go cur lower lastpos l)) /\
  exists rest, concat (fst (split_go cur lower lastpos l)) ++ rest = cur ++ l /\
               (snd (split_go cur lower lastpos l) = false -> rest = []).
Proof.
  induction l as [|b r IH]; intros cur lower lastpos Hl (f & q & Hcur & Hlow & Hlast & Hn & Hc & Hsz); cbn [split_go].
  - cbn [fst snd concat]. split.
    + constructor; [|constructor]. exists f, q. subst. repeat split; try assumption.
    + exists []. rewrite !app_nil_r. split; reflexivity.
  - apply Forall_cons_iff in Hl as [Hb Hr].
    destruct (r_off b <? lastpos) eqn:Eov.
    + cbn [fst snd concat app]. split; [constructor|]. exists (cur ++ b :: r). split; [reflexivity|discriminate].
    + assert (Hcne : match cur with [] => false | _ :: _ => true end = true) by (rewrite Hcur; reflexivity).
      assert (Hlow' : match cur with [] => r_off b | _ :: _ => lower end = lower) by (rewrite Hcur; reflexivity).
      rewrite Hcne, Hlow'. cbn [andb].
      destruct ((r_off b + r_len b - lower >=? max_chunk_size) || (r_off b - lastpos >? max_unused_range)) eqn:Esp.
      * (* split: cur is complete, b starts a new part *)
        assert (Hinv : cur_inv [b] (r_off b) (r_off b + r_len b)).
        { exists b, []. repeat split; try reflexivity; [constructor; [exact Hb|constructor]|congruence]. }
        destruct (IH [b] (r_off b) (r_off b + r_len b) Hr Hinv) as [I1 (rest & I2 & I3)].
        destruct (split_go [b] (r_off b) (r_off b + r_len b) r) as [ps ov]. cbn [fst snd] in *. split.
        -- constructor; [|exact I1]. exists f, q. subst. repeat split; assumption.
        -- exists rest. cbn [concat]. rewrite <- app_assoc, I2. split; [reflexivity|exact I3].
      * apply orb_false_iff in Esp as [E1 E2].
        assert (Hinv : cur_inv (cur ++ [b]) lower (r_off b + r_len b)).
        { exists f, (q ++ [b]). rewrite Hcur. split; [reflexivity|]. split; [exact Hlow|].
          change ((f :: q) ++ [b]) with ((f :: q) ++ [b]). rewrite last_snoc. split; [reflexivity|]. split.
          - apply Forall_app. split; [rewrite <- Hcur; exact Hn|constructor; [exact Hb|constructor]].
          - split.
            + apply chain_snoc; [rewrite <- Hcur; exact Hc|]. rewrite <- Hcur, <- Hlast. pose proof max_unused_nonneg. lia.
            + intros _. lia. }
        destruct (IH (cur ++ [b]) lower (r_off b + r_len b) Hr Hinv) as [I1 (rest & I2 & I3)].
        split; [exact I1|]. exists rest. rewrite I2, <- app_assoc. split; [reflexivity|exact I3].
Qed.

Lemma fallback_all_nopanic e part : forall t, snd (fallback_all e t part) <> RPanic.
Proof.
  induction part as [|b r IH]; intros t; cbn [fallback_all]; [discriminate|].
  destruct (callback e t (r_id b) (fb_ok e (r_id b))) as [t' c]. destruct c; [discriminate|apply IH].
Qed.

Lemma iterate_nopanic e part : forall t cur dend, snd (iterate e t cur dend part) <> RPanic.
Proof.
  induction part as [|b r IH]; intros t cur dend; cbn [iterate]; [discriminate|].
  destruct (r_off b - cur <? 0); [discriminate|]. destruct (dend - cur <? r_off b - cur); [discriminate|].
  destruct (dend - r_off b <? r_len b); [discriminate|]. destruct (r_len b <=? nonce_size); [discriminate|].
  destruct (callback e t (r_id b) (mem_req b (e_good e) || fb_ok e (r_id b))) as [t' c]. destruct c; [discriminate|apply IH].
Qed.

Lemma stream_part_nopanic e t p : part_ok p -> snd (stream_part e t p) <> RPanic.
Proof.
  intros (f & r & -> & Hn & Hc & _). unfold stream_part.
  pose proof (chain_start_le_end r f Hn Hc) as Hle. unfold rend in Hle.
  replace (r_off (last (f :: r) f) + r_len (last (f :: r) f) - r_off f <? 0) with false by lia.
  destruct (mem_nat _ _ || _).
  - destruct (e_fb e); [apply fallback_all_nopanic|discriminate].
  - apply iterate_nopanic.
Qed.

Lemma run_parts_nopanic e ps : forall t, Forall part_ok ps -> snd (run_parts e t ps) <> RPanic.
Proof.
  induction ps as [|p r IH]; intros t Hp; cbn [run_parts]; [discriminate|]. inversion Hp; subst.
  pose proof (stream_part_nopanic e t p H1) as Hs. destruct (stream_part e t p) as [t' x]. cbn [snd] in Hs.
  destruct x; [apply IH; assumption|discriminate|congruence].
Qed.

Definition parts_of (reqs : list req) : list (list req) * bool :=
  match sort reqs with
  | [] => ([], false)
  | f :: r => split_go [f] (r_off f) (r_off f + r_len f) r
  end.

Lemma sort_nonneg reqs : Forall nonneg reqs -> Forall nonneg (sort reqs).
Proof.
  intros H. apply Forall_forall. intros x Hx. rewrite Forall_forall in H. apply H.
  apply (Permutation_in _ (sort_perm reqs) Hx).
Qed.

(* streamPack = the parts computed by the split rules, streamed one after the other until one fails *)
Theorem stream_pack_parts e reqs :
  stream_pack e reqs = finish (run_parts e (mkTr [] []) (fst (parts_of reqs))) (snd (parts_of reqs)).
Proof.
  unfold stream_pack, parts_of. destruct (sort reqs) as [|f r]; [reflexivity|].
  cbn [stream_go]. replace (r_off f <? r_off f) with false by lia. cbn [andb orb].
  replace (r_off f - r_off f >? max_unused_range) with false by (pose proof max_unused_nonneg; lia).
  cbn [app]. apply stream_go_split.
Qed.

Theorem parts_partition reqs : Forall nonneg reqs ->
  Forall part_ok (fst (parts_of reqs)) /\
  exists rest, concat (fst (parts_of reqs)) ++ rest = sort reqs /\ (snd (parts_of reqs) = false -> rest = []).
Proof.
  intros Hn. apply sort_nonneg in Hn. unfold parts_of. destruct (sort reqs) as [|f r] eqn:E.
  - split; [constructor|]. exists []. split; reflexivity.
  - inversion Hn; subst.
    apply (split_go_ok r [f] (r_off f) (r_off f + r_len f) H2).
    exists f, []. repeat split; try reflexivity; [constructor; [assumption|constructor]|congruence].
Qed.

Theorem no_panic e reqs : Forall nonneg reqs -> snd (stream_pack e reqs) <> RPanic.
Proof.
  intros Hn. rewrite stream_pack_parts. destruct (parts_partition reqs Hn) as [Hp _].
  pose proof (run_parts_nopanic e (fst (parts_of reqs)) (mkTr [] []) Hp) as H.
  destruct (run_parts e (mkTr [] []) (fst (parts_of reqs))) as [t x]. cbn [snd finish] in *.
  destruct x; cbn [snd]; [destruct (snd (parts_of reqs)); discriminate|discriminate|congruence].
Qed.

Example c43_parts_nonvacuous :
  parts_of [mkReq 3 2000000 45; mkReq 2 60 40; mkReq 1 0 50] = ([[mkReq 1 0 50; mkReq 2 60 40]; [mkReq 3 2000000 45]], false)
  /\ parts_of [mkReq 1 0 50; mkReq 2 40 40] = ([], true).
Proof. vm_compute. split; reflexivity. Qed.

(* ---------- a callback error ends the run (oracle clause 8 holds for the model) ---------- *)
Definition cb_bound (j : nat) (t t' : tr) (r : result) : Prop :=
  (length (t_cbs t) <= j)%nat -> (length (t_cbs t') <= S j)%nat /\ ((j < length (t_cbs t'))%nat -> r = RErr).

Lemma cb_bound_same j t r : cb_bound j t t r.
Proof. intros H. split; [lia|intros H'; lia]. Qed.

Lemma cb_bound_cbs j t t0 t' r : t_cbs t0 = t_cbs t -> cb_bound j t0 t' r -> cb_bound j t t' r.
Proof. intros E H. unfold cb_bound in *. rewrite <- E. exact H. Qed.

Lemma fallback_all_bound e j part : e_cbfail e = Some j ->
  forall t, cb_bound j t (fst (fallback_all e t part)) (snd (fallback_all e t part)).
Proof.
  intros Hj. induction part as [|b r IH]; intros t; cbn [fallback_all]; [apply cb_bound_same|].
  unfold callback. rewrite Hj. destruct (Nat.eqb j (length (t_cbs t))) eqn:E.
  - cbn [fst snd]. intros H. cbn [t_cbs]. rewrite app_length. cbn [length]. apply Nat.eqb_eq in E. split; [lia|reflexivity].
  - intros H. apply Nat.eqb_neq in E. apply IH. cbn [t_cbs]. rewrite app_length. cbn [length]. lia.
Qed.

Lemma iterate_bound e j part : e_cbfail e = Some j ->
  forall t cur dend, cb_bound j t (fst (iterate e t cur dend part)) (snd (iterate e t cur dend part)).
Proof.
  intros Hj. induction part as [|b r IH]; intros t cur dend; cbn [iterate]; [apply cb_bound_same|].
  destruct (r_off b - cur <? 0); [apply cb_bound_same|]. destruct (dend - cur <? r_off b - cur); [apply cb_bound_same|].
  destruct (dend - r_off b <? r_len b); [apply cb_bound_same|]. destruct (r_len b <=? nonce_size); [apply cb_bound_same|].
  unfold callback. rewrite Hj. destruct (Nat.eqb j (length (t_cbs t))) eqn:E.
  - cbn [fst snd]. intros H. cbn [t_cbs]. rewrite app_length. cbn [length]. apply Nat.eqb_eq in E. split; [lia|reflexivity].
  - intros H. apply Nat.eqb_neq in E. apply IH. cbn [t_cbs]. rewrite app_length. cbn [length]. lia.
Qed.

Lemma stream_part_bound e j t part : e_cbfail e = Some j ->
  cb_bound j t (fst (stream_part e t part)) (snd (stream_part e t part)).
Proof.
  intros Hj. unfold stream_part. destruct part as [|first rest]; [apply cb_bound_same|].
  set (part := first :: rest).
  destruct (r_off (last part first) + r_len (last part first) - r_off first <? 0); [apply cb_bound_same|].
  set (t1 := mkTr _ (t_cbs t)).
  destruct (mem_nat (length (t_loads t)) (e_loadfail e) || (e_size e <? r_off (last part first) + r_len (last part first))).
  - destruct (e_fb e).
    + apply (cb_bound_cbs j t t1); [reflexivity|]. apply fallback_all_bound, Hj.
    + cbn [fst snd]. apply (cb_bound_cbs j t t1); [reflexivity|apply cb_bound_same].
  - apply (cb_bound_cbs j t t1); [reflexivity|]. apply iterate_bound, Hj.
Qed.

Lemma stream_go_bound e j l : e_cbfail e = Some j -> forall t cur lower lastpos,
  cb_bound j t (fst (stream_go e t cur lower lastpos l)) (snd (stream_go e t cur lower lastpos l)).
Proof.
  intros Hj. induction l as [|b r IH]; intros t cur lower lastpos; cbn [stream_go].
  - apply stream_part_bound, Hj.
  - destruct (r_off b <? lastpos); [apply cb_bound_same|].
    destruct ((match cur with [] => false | _ :: _ => true end &&
               (r_off b + r_len b - match cur with [] => r_off b | _ :: _ => lower end >=? max_chunk_size))
              || (r_off b - lastpos >? max_unused_range)); [|apply IH].
    pose proof (stream_part_bound e j t cur Hj) as Hp.
    destruct (stream_part e t cur) as [t' x]. cbn [fst snd] in Hp. destruct x; [|exact Hp|exact Hp].
    intros H. destruct (Hp H) as [H1 H2].
    assert (Hle : (length (t_cbs t') <= j)%nat).
    { destruct (le_lt_dec (length (t_cbs t')) j) as [L|L]; [exact L|]. specialize (H2 L). discriminate. }
    apply (IH t' [b] (r_off b) (r_off b + r_len b) Hle).
Qed.

Theorem callback_error_stops e reqs j : e_cbfail e = Some j ->
  (length (t_cbs (fst (stream_pack e reqs))) <= S j)%nat /\
  ((j < length (t_cbs (fst (stream_pack e reqs))))%nat -> snd (stream_pack e reqs) = RErr).
Proof.
  intros Hj. unfold stream_pack. destruct (sort reqs) as [|f r]; [cbn; split; [lia|intros H; lia]|].
  apply (stream_go_bound e j (f :: r) Hj (mkTr [] []) [] (r_off f) (r_off f)). cbn. lia.
Qed.

(* ---------- without download failures every intact or fallback-loadable blob is delivered (clause 7) ---------- *)
Lemma Forall2_len {A B} (R : A -> B -> Prop) l l' : Forall2 R l l' -> length l = length l'.
Proof. induction 1; cbn [length]; [reflexivity|lia]. Qed.

Definition strict_cb (e : env) (b : req) (cb : N * N) : Prop :=
  fst cb = r_id b /\ (snd cb = 0%N -> mem_req b (e_good e) || fb_ok e (r_id b) = false).

Definition extends2 (e : env) (t t' : tr) (part : list req) : Prop :=
  exists k new, (k <= length part)%nat /\ t_cbs t' = t_cbs t ++ new /\ Forall2 (strict_cb e) (firstn k part) new.

Lemma extends2_same e t t' part : t_cbs t' = t_cbs t -> extends2 e t t' part.
Proof. intros H. exists 0%nat, []. split; [lia|]. split; [rewrite app_nil_r; exact H|constructor]. Qed.

Lemma extends2_trans e t t1 t2 a b : extends e t t1 a ROk -> extends2 e t t1 a -> extends2 e t1 t2 b -> extends2 e t t2 (a ++ b).
Proof.
  intros (k0 & n0 & _ & Hc0 & Hf0 & Hr0) (k1 & n1 & Hk1 & Hc1 & Hf1) (k2 & n2 & Hk2 & Hc2 & Hf2).
  specialize (Hr0 eq_refl). subst k0. rewrite firstn_all in Hf0.
  assert (Hn : n0 = n1) by (rewrite Hc0 in Hc1; apply app_inv_head in Hc1; exact Hc1). subst n1.
  assert (Hk : k1 = length a).
  { apply Forall2_len in Hf0. apply Forall2_len in Hf1. rewrite firstn_length in Hf1. lia. }
  subst k1. rewrite firstn_all in Hf1.
  exists (length a + k2)%nat, (n0 ++ n2). split; [rewrite app_length; lia|]. split; [rewrite Hc2, Hc1, app_assoc; reflexivity|].
  rewrite firstn_app_2. apply Forall2_app; assumption.
Qed.

Lemma extends2_weaken e t t1 a b : extends2 e t t1 a -> extends2 e t t1 (a ++ b).
Proof.
  intros (k & n & Hk & Hc & Hf). exists k, n. split; [rewrite app_length; lia|]. split; [exact Hc|].
  rewrite firstn_app. replace (k - length a)%nat with 0%nat by lia. cbn [firstn]. rewrite app_nil_r. exact Hf.
Qed.

Lemma iterate_extends2 e part : forall t cur dend, extends2 e t (fst (iterate e t cur dend part)) part.
Proof.
  induction part as [|b rest IH]; intros t cur dend; cbn [iterate]; [apply extends2_same; reflexivity|].
  destruct (r_off b - cur <? 0); [apply extends2_same; reflexivity|].
  destruct (dend - cur <? r_off b - cur); [apply extends2_same; reflexivity|].
  destruct (dend - r_off b <? r_len b); [apply extends2_same; reflexivity|].
  destruct (r_len b <=? nonce_size); [apply extends2_same; reflexivity|].
  unfold callback.
  set (ok := mem_req b (e_good e) || fb_ok e (r_id b)).
  set (t1 := mkTr (t_loads t) (t_cbs t ++ [(r_id b, if ok then 1%N else 0%N)])).
  assert (Hcb : strict_cb e b (r_id b, if ok then 1%N else 0%N)).
  { split; [reflexivity|]. cbn [snd]. destruct ok eqn:E; [discriminate|intros _; exact E]. }
  destruct (match e_cbfail e with Some j => Nat.eqb j (length (t_cbs t)) | None => false end).
  - cbn [fst]. exists 1%nat, [(r_id b, if ok then 1%N else 0%N)]. split; [cbn [length]; lia|]. split; [reflexivity|].
    cbn [firstn]. constructor; [exact Hcb|constructor].
  - destruct (IH t1 (r_off b + r_len b) dend) as (k & n & Hk & Hc & Hf).
    exists (S k), ((r_id b, if ok then 1%N else 0%N) :: n). split; [cbn [length]; lia|]. split.
    + rewrite Hc. unfold t1. cbn [t_cbs]. rewrite <- app_assoc. reflexivity.
    + cbn [firstn]. constructor; assumption.
Qed.

Definition inb (e : env) (b : req) : Prop := r_off b + r_len b <= e_size e.

Lemma last_in (r : list req) : forall f, In (last (f :: r) f) (f :: r).
Proof.
  induction r as [|y r IH]; intros f; [left; reflexivity|].
  change (last (f :: y :: r) f) with (last (y :: r) f). rewrite (last_default r y f y). right. apply IH.
Qed.

Lemma stream_part_extends2 e t part : e_loadfail e = [] -> Forall (inb e) part ->
  extends2 e t (fst (stream_part e t part)) part.
Proof.
  intros Hlf Hin. unfold stream_part. destruct part as [|first rest]; [apply extends2_same; reflexivity|].
  set (part := first :: rest) in *.
  destruct (r_off (last part first) + r_len (last part first) - r_off first <? 0); [apply extends2_same; reflexivity|].
  set (t1 := mkTr _ (t_cbs t)).
  assert (Hl : inb e (last part first)) by (rewrite Forall_forall in Hin; apply Hin, last_in).
  unfold inb in Hl. rewrite Hlf. cbn [mem_nat existsb orb].
  replace (e_size e <? r_off (last part first) + r_len (last part first)) with false by lia.
  destruct (iterate_extends2 e part t1 (r_off first) (r_off (last part first) + r_len (last part first))) as (k & n & Hk & Hc & Hf).
  exists k, n. split; [exact Hk|]. split; [exact Hc|exact Hf].
Qed.

Lemma stream_go_extends2 e l : e_loadfail e = [] -> forall t cur lower lastpos, Forall (inb e) (cur ++ l) ->
  extends2 e t (fst (stream_go e t cur lower lastpos l)) (cur ++ l).
Proof.
  intros Hlf. induction l as [|b r IH]; intros t cur lower lastpos Hin; cbn [stream_go].
  - rewrite app_nil_r in *. apply stream_part_extends2; assumption.
  - destruct (r_off b <? lastpos); [apply extends2_same; reflexivity|].
    apply Forall_app in Hin as [Hc Hbr]. apply Forall_cons_iff in Hbr as [Hb Hr].
    destruct ((match cur with [] => false | _ :: _ => true end &&
               (r_off b + r_len b - match cur with [] => r_off b | _ :: _ => lower end >=? max_chunk_size))
              || (r_off b - lastpos >? max_unused_range)).
    + pose proof (stream_part_extends e t cur) as Hp. pose proof (stream_part_extends2 e t cur Hlf Hc) as Hp2.
      destruct (stream_part e t cur) as [t' x]. cbn [fst snd] in *. destruct x.
      * assert (Hbr : Forall (inb e) ([b] ++ r)) by (constructor; assumption).
        specialize (IH t' [b] (r_off b) (r_off b + r_len b) Hbr). cbn [app] in IH.
        apply (extends2_trans e t t' _ cur (b :: r) Hp Hp2 IH).
      * cbn [fst]. apply extends2_weaken, Hp2.
      * cbn [fst]. apply extends2_weaken, Hp2.
    + assert (Hall : Forall (inb e) ((cur ++ [b]) ++ r)).
      { rewrite <- app_assoc. apply Forall_app. split; [exact Hc|constructor; assumption]. }
      specialize (IH t (cur ++ [b]) (match cur with [] => r_off b | _ :: _ => lower end) (r_off b + r_len b) Hall).
      rewrite <- app_assoc in IH. exact IH.
Qed.

Theorem no_failure_all_delivered e reqs : no_load_failure e reqs = true ->
  let t := fst (stream_pack e reqs) in
  Forall2 (strict_cb e) (firstn (length (t_cbs t)) (sort reqs)) (t_cbs t).
Proof.
  intros Hn. unfold no_load_failure in Hn. destruct (e_loadfail e) eqn:Hlf; [|discriminate].
  assert (Hin : Forall (inb e) (sort reqs)).
  { apply Forall_forall. intros x Hx. rewrite forallb_forall in Hn. unfold inb.
    specialize (Hn x (Permutation_in _ (sort_perm reqs) Hx)). lia. }
  cbn zeta. unfold stream_pack. destruct (sort reqs) as [|f r] eqn:E; [constructor|].
  destruct (stream_go_extends2 e (f :: r) Hlf (mkTr [] []) [] (r_off f) (r_off f) Hin) as (k & n & Hk & Hc & Hf).
  cbn [t_cbs app] in Hc. rewrite Hc. pose proof (Forall2_len _ _ _ Hf) as Hl. rewrite firstn_length in Hl.
  cbn [app] in *. rewrite <- Hl. rewrite Nat.min_l by exact Hk. exact Hf.
Qed.

(* ---------- oracle ---------- *)
Definition S43_holds (c : scase) : Prop :=
  let sorted := sort (c_reqs c) in
  let n := length (c_cbs c) in
  c_res c <> RPanic /\
  map fst (c_cbs c) = ids (firstn n sorted) /\ (n <= length sorted)%nat /\
  (c_res c = ROk -> n = length sorted) /\
  (forall cb, In cb (c_cbs c) -> fb_ok (c_env c) (fst cb) = true -> snd cb = 1%N) /\
  (forall b cb, In (b, cb) (combine (firstn n sorted) (c_cbs c)) ->
     snd cb = 0%N \/ (snd cb = 1%N /\ mem_req b (e_good (c_env c)) || fb_ok (c_env c) (fst cb) = true)) /\
  (no_load_failure (c_env c) (c_reqs c) = true ->
   forall b cb, In (b, cb) (combine (firstn n sorted) (c_cbs c)) -> snd cb = 0%N ->
     mem_req b (e_good (c_env c)) || fb_ok (c_env c) (fst cb) = false) /\
  (forall j, e_cbfail (c_env c) = Some j -> (n <= S j)%nat /\ ((j < n)%nat -> c_res c = RErr)).

Lemma N_list_eqb_spec a b : N_list_eqb a b = true <-> a = b.
Proof. apply list_eqb_spec. intros x y. apply N.eqb_eq. Qed.

Lemma soracle_sound c : soracle c = 0%nat -> S43_holds c.
Proof.
  unfold soracle, S43_holds. intros H.
  destruct (c_res c) eqn:Er; try discriminate.
  - destruct (N_list_eqb (map fst (c_cbs c)) (ids (firstn (length (c_cbs c)) (sort (c_reqs c)))) &&
              Nat.leb (length (c_cbs c)) (length (sort (c_reqs c)))) eqn:E1; cbn [negb] in H; [|discriminate].
    apply andb_true_iff in E1 as [E1 E1']. apply N_list_eqb_spec in E1. apply Nat.leb_le in E1'.
    cbn [res_eqb andb] in H.
    destruct (Nat.eqb (length (c_cbs c)) (length (sort (c_reqs c)))) eqn:E2; cbn [negb] in H; [|discriminate].
    apply Nat.eqb_eq in E2.
    destruct (forallb _ (c_cbs c)) eqn:E3; cbn [negb] in H; [|discriminate].
    destruct (forallb _ (combine _ _)) eqn:E4; cbn [negb] in H; [|discriminate].
    destruct (no_load_failure (c_env c) (c_reqs c) && negb (forallb _ (combine _ _))) eqn:E5; [discriminate|].
    destruct (match e_cbfail (c_env c) with Some j => _ | None => true end) eqn:E6; cbn [negb] in H; [|discriminate].
    rewrite forallb_forall in E3, E4.
    split; [discriminate|]. split; [exact E1|]. split; [exact E1'|]. split; [intros _; exact E2|]. split; [|split; [|split]].
    + intros cb Hcb Hfb. specialize (E3 cb Hcb). rewrite Hfb in E3. cbn [negb orb] in E3. apply N.eqb_eq, E3.
    + intros b cb Hin. specialize (E4 (b, cb) Hin). cbn [fst snd] in E4.
      destruct (snd cb) as [|[| |]] eqn:Es; try discriminate; [left; reflexivity|right; split; [reflexivity|exact E4]].
    + intros Hnl b cb Hin Hz. rewrite Hnl in E5. cbn [andb] in E5. apply negb_false_iff in E5.
      rewrite forallb_forall in E5. specialize (E5 (b, cb) Hin). cbn [fst snd] in E5. rewrite Hz in E5. cbn [N.eqb negb orb] in E5.
      apply negb_true_iff in E5. exact E5.
    + intros j Hj. rewrite Hj in E6. apply andb_true_iff in E6 as [A B]. apply Nat.leb_le in A. split; [exact A|].
      intros Hlt. apply Nat.ltb_lt in Hlt. rewrite Hlt in B. cbn [negb orb] in B. destruct (c_res c); try discriminate; reflexivity.
  - destruct (N_list_eqb (map fst (c_cbs c)) (ids (firstn (length (c_cbs c)) (sort (c_reqs c)))) &&
              Nat.leb (length (c_cbs c)) (length (sort (c_reqs c)))) eqn:E1; cbn [negb] in H; [|discriminate].
    apply andb_true_iff in E1 as [E1 E1']. apply N_list_eqb_spec in E1. apply Nat.leb_le in E1'.
    cbn [res_eqb andb] in H.
    destruct (forallb _ (c_cbs c)) eqn:E3; cbn [negb] in H; [|discriminate].
    destruct (forallb _ (combine _ _)) eqn:E4; cbn [negb] in H; [|discriminate].
    destruct (no_load_failure (c_env c) (c_reqs c) && negb (forallb _ (combine _ _))) eqn:E5; [discriminate|].
    destruct (match e_cbfail (c_env c) with Some j => _ | None => true end) eqn:E6; cbn [negb] in H; [|discriminate].
    rewrite forallb_forall in E3, E4.
    split; [discriminate|]. split; [exact E1|]. split; [exact E1'|]. split; [discriminate|]. split; [|split; [|split]].
    + intros cb Hcb Hfb. specialize (E3 cb Hcb). rewrite Hfb in E3. cbn [negb orb] in E3. apply N.eqb_eq, E3.
    + intros b cb Hin. specialize (E4 (b, cb) Hin). cbn [fst snd] in E4.
      destruct (snd cb) as [|[| |]] eqn:Es; try discriminate; [left; reflexivity|right; split; [reflexivity|exact E4]].
    + intros Hnl b cb Hin Hz. rewrite Hnl in E5. cbn [andb] in E5. apply negb_false_iff in E5.
      rewrite forallb_forall in E5. specialize (E5 (b, cb) Hin). cbn [fst snd] in E5. rewrite Hz in E5. cbn [N.eqb negb orb] in E5.
      apply negb_true_iff in E5. exact E5.
    + intros j Hj. rewrite Hj in E6. apply andb_true_iff in E6 as [A B]. apply Nat.leb_le in A. split; [exact A|].
      intros Hlt. apply Nat.ltb_lt in Hlt. rewrite Hlt in B. cbn [negb orb] in B. destruct (c_res c); try discriminate; reflexivity.
Qed.

(* ---------- LoadBlob's per-copy loop ---------- *)
Lemma load_go_ok_iff cs : forall blen bcap, load_go cs blen bcap = LOk <-> existsb usable cs = true.
Proof.
  induction cs as [|c r IH]; intros blen bcap; cbn [load_go existsb]; [split; discriminate|].
  assert (U : usable c = cp_intact c && negb (cp_dlfail c) && negb (cp_psize c <? cp_off c + cp_len c)
                         && negb (cp_len c <=? nonce_size)).
  { unfold usable. f_equal; [f_equal|]; lia. }
  assert (Hb : exists bc, (if bcap <? cp_len c then (cp_len c, cp_len c)
                           else if negb (blen =? cp_len c) then (cp_len c, bcap) else (blen, bcap)) = (cp_len c, bc)).
  { destruct (bcap <? cp_len c); [eexists; reflexivity|]. destruct (blen =? cp_len c) eqn:E; cbn [negb]; [|eexists; reflexivity].
    apply Z.eqb_eq in E. subst blen. eexists; reflexivity. }
  destruct Hb as [bc ->]. rewrite U.
  replace (cp_len c <? cp_len c) with false by lia.
  destruct (cp_dlfail c); cbn [orb negb andb]; [rewrite andb_false_r; cbn [orb andb]; apply IH|].
  destruct (cp_psize c <? cp_off c + cp_len c); cbn [negb andb]; [rewrite andb_false_r; cbn [orb andb]; apply IH|].
  destruct (cp_len c <=? nonce_size); cbn [negb]; [rewrite !andb_false_r; cbn [orb]; apply IH|].
  destruct (cp_intact c); cbn [andb orb]; [split; reflexivity|apply IH].
Qed.

(* LoadBlob succeeds exactly when some copy is usable (intact, downloadable, inside its pack, longer than the
   nonce) - whatever the order of the copies, the lengths and damage of the other copies, and the buffer the
   caller passed in; and it never succeeds through a damaged copy *)
Theorem load_blob_ok_iff cs blen bcap : load_blob cs blen bcap = LOk <-> existsb usable cs = true.
Proof.
  unfold load_blob. destruct cs as [|c r]; [cbn; split; discriminate|].
  destruct (load_go (c :: r) blen bcap) eqn:E.
  - split; [intros _; apply (load_go_ok_iff (c :: r) blen bcap), E|reflexivity].
  - apply load_go_ok_iff.
Qed.

Theorem load_blob_order_independent cs cs' a b a' b' : Permutation cs cs' -> load_blob cs a b = load_blob cs' a' b'.
Proof.
  intros Hp.
  assert (He : existsb usable cs = existsb usable cs').
  { apply Bool.eq_true_iff_eq. rewrite !existsb_exists. split; intros (x & Hx & Hu); exists x; split; try assumption.
    - apply (Permutation_in _ Hp Hx).
    - apply (Permutation_in _ (Permutation_sym Hp) Hx). }
  destruct (load_blob cs a b) eqn:E1, (load_blob cs' a' b') eqn:E2; try reflexivity.
  - apply load_blob_ok_iff in E1. rewrite He in E1. apply (load_blob_ok_iff cs' a' b') in E1. congruence.
  - apply load_blob_ok_iff in E2. rewrite <- He in E2. apply (load_blob_ok_iff cs a b) in E2. congruence.
Qed.

Definition C43_holds (c : case) : Prop :=
  match c with
  | CS s => S43_holds s
  | CL cs pk lb cbs res =>
      (lb = 1%N <-> exists x, In x cs /\ usable x = true) /\ (lb = 1%N \/ lb = 0%N) /\
      (forall x, first_in_pack pk cs = Some x ->
         exists o, cbs = [(1%N, o)] /\ res = ROk /\ (o = 1%N \/ o = 0%N) /\ (o = 1%N <-> exists y, In y cs /\ usable y = true))
  end.

Theorem check_C43_sound c : check_C43 c = true -> C43_holds c.
Proof.
  unfold check_C43. intros H. apply Nat.eqb_eq in H. destruct c as [s|cs pk lb cbs res]; cbn [oracle_code C43_holds] in *.
  - apply soracle_sound, H.
  - destruct (existsb usable cs) eqn:Eu.
    + assert (Hex : exists x, In x cs /\ usable x = true) by (apply existsb_exists, Eu).
      destruct (lb =? 1)%N eqn:El; cbn [negb] in H; [|discriminate]. apply N.eqb_eq in El. subst lb.
      split; [split; auto|]. split; [left; reflexivity|]. intros x Hx. rewrite Hx in H.
      destruct cbs as [|[i o] [|? ?]]; try discriminate. destruct res; try discriminate.
      destruct ((i =? 1)%N && (o =? 1)%N) eqn:E; [|discriminate]. apply andb_true_iff in E as [E1 E2].
      apply N.eqb_eq in E1, E2. subst. exists 1%N. repeat split; auto.
    + assert (Hno : ~ exists x, In x cs /\ usable x = true).
      { intros Hex. apply existsb_exists in Hex. congruence. }
      destruct (lb =? 0)%N eqn:El; cbn [negb] in H; [|discriminate]. apply N.eqb_eq in El. subst lb.
      split; [split; [discriminate|intros Hex; contradiction]|]. split; [right; reflexivity|]. intros x Hx. rewrite Hx in H.
      destruct cbs as [|[i o] [|? ?]]; try discriminate. destruct res; try discriminate.
      destruct ((i =? 1)%N && (o =? 0)%N) eqn:E; [|discriminate]. apply andb_true_iff in E as [E1 E2].
      apply N.eqb_eq in E1, E2. subst. exists 0%N. repeat split; auto; try discriminate. intros Hex; contradiction.
Qed.

Example c43_loadblob_nonvacuous :
  (* a damaged compressed copy (83 bytes) listed first, an intact uncompressed copy (124032 bytes) second *)
  load_blob [mkCopy 1 0 83 200 false false; mkCopy 2 0 124032 124100 true false] 0 0 = LOk
  /\ load_blob [mkCopy 2 0 124032 124100 false false; mkCopy 1 0 83 200 true false] 0 0 = LOk
  /\ load_blob [mkCopy 1 0 83 200 false false; mkCopy 2 0 124032 124100 true true] 0 0 = LErr.
Proof. vm_compute. repeat split. Qed.

Example c43_nonvacuous :
  let a := mkReq 1 0 50 in let b := mkReq 2 60 40 in let c := mkReq 3 2000000 45 in
  let e := mkEnv [a; c] 3000000 [] (Some [2%N]) None in
  stream_pack e [c; b; a] = (mkTr [(0, 100); (2000000, 45)] [(1, 1); (2, 1); (3, 1)]%N, ROk)
  /\ snd (stream_pack e [a; a]) = RErr
  /\ stream_pack (mkEnv [a; c] 3000000 [0%nat] None None) [c; a] = (mkTr [(0, 50)] [], RErr).
Proof. vm_compute. repeat split. Qed.
