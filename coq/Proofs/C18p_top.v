(* C18 proofs, part 3: well-formedness facts from the boolean checker, assembly, oracle. *)
From Restic Require Import Base.Prelude Model.C18m Proofs.C18p Proofs.C18p_main.
Import C18m.

Lemma mem_path_In p l : mem_path p l = true <-> In p l.
Proof.
  induction l as [|x l IH]; cbn [mem_path In]; [split; [discriminate | intros []]|].
  rewrite orb_true_iff, IH, path_eqb_spec. split; intros [H | H]; auto.
Qed.

Lemma in_leaves d nd loc evs : In (EvVisit d nd loc) evs -> In (d ++ [node_name nd]) (leaves evs).
Proof. intros H. unfold leaves. apply in_flat_map. exists (EvVisit d nd loc). split; [exact H | left; reflexivity]. Qed.

Lemma nodup_leaves evs : nodup_paths (leaves evs) = true ->
  forall d1 nd1 l1 d2 nd2 l2, In (EvVisit d1 nd1 l1) evs -> In (EvVisit d2 nd2 l2) evs ->
  d1 ++ [node_name nd1] = d2 ++ [node_name nd2] -> EvVisit d1 nd1 l1 = EvVisit d2 nd2 l2.
Proof.
  induction evs as [|e evs IH]; intros Hn d1 nd1 l1 d2 nd2 l2 H1 H2 E; [destruct H1|].
  assert (Hn' : nodup_paths (leaves evs) = true).
  { destruct e as [d|d nd l|d mo l k]; try exact Hn.
    change (leaves (EvVisit d nd l :: evs)) with ((d ++ [node_name nd]) :: leaves evs) in Hn.
    cbn [nodup_paths] in Hn. apply andb_true_iff in Hn as [_ Hn]. exact Hn. }
  destruct H1 as [H1 | H1], H2 as [H2 | H2].
  - congruence.
  - exfalso. subst e.
    change (leaves (EvVisit d1 nd1 l1 :: evs)) with ((d1 ++ [node_name nd1]) :: leaves evs) in Hn.
    cbn [nodup_paths] in Hn. apply andb_true_iff in Hn as [Hn _].
    apply negb_true_iff in Hn. rewrite E in Hn.
    assert (mem_path (d2 ++ [node_name nd2]) (leaves evs) = true) by (apply mem_path_In; eapply in_leaves; eauto).
    congruence.
  - exfalso. subst e.
    change (leaves (EvVisit d2 nd2 l2 :: evs)) with ((d2 ++ [node_name nd2]) :: leaves evs) in Hn.
    cbn [nodup_paths] in Hn. apply andb_true_iff in Hn as [Hn _].
    apply negb_true_iff in Hn. rewrite <- E in Hn.
    assert (mem_path (d1 ++ [node_name nd1]) (leaves evs) = true) by (apply mem_path_In; eapply in_leaves; eauto).
    congruence.
  - eapply IH; eauto.
Qed.

Lemma keep_of_prefix (d y : path) e keep :
  orb (orb (negb (prefixb d y)) (path_eqb d y))
      (match skipn (length d) y with n :: _ => mem_name n keep | [] => true end) = true ->
  prefixb (d ++ [e]) y = true -> mem_name e keep = true.
Proof.
  intros Hc Hp. apply prefixb_spec in Hp as [r ->]. rewrite <- app_assoc in Hc. cbn [app] in Hc.
  rewrite prefixb_app in Hc. cbn [negb orb] in Hc.
  assert (Hne : path_eqb d (d ++ e :: r) = false).
  { apply path_eqb_neq. intros E. apply (f_equal (@length name)) in E. rewrite app_length in E. cbn in E. lia. }
  rewrite Hne in Hc. cbn [orb] in Hc.
  rewrite skipn_app, skipn_all, Nat.sub_diag in Hc. cbn in Hc. exact Hc.
Qed.

Section Facts.
Variable evs : list ev.
Hypothesis Hwf : wf_events evs = true.
Let used := map ev_dir evs.

Lemma wf_each e : In e evs -> wf_ev used (leaves evs) (ensured_of evs) e = true.
Proof.
  intros H. unfold wf_events in Hwf. apply andb_true_iff in Hwf as [H1 _].
  rewrite forallb_forall in H1. apply H1; exact H.
Qed.

Lemma used_in e : In e evs -> In (ev_dir e) used.
Proof. intros H. unfold used. apply in_map; exact H. Qed.

Lemma W_visit : forall d nd loc, In (EvVisit d nd loc) evs ->
  In d used /\ (forall X, In X used -> prefixb (d ++ [node_name nd]) X = false) /\ loc = d ++ [node_name nd].
Proof.
  intros d nd loc H. pose proof (wf_each _ H) as Hw. cbn [wf_ev] in Hw.
  apply andb_true_iff in Hw as [H1 H2]. split; [apply (used_in _ H)|]. split.
  - intros X HX. rewrite forallb_forall in H1. specialize (H1 X HX). apply negb_true_iff in H1. exact H1.
  - apply path_eqb_spec; exact H2.
Qed.

Lemma W_leave : forall d mo loc keep, In (EvLeave d mo loc keep) evs ->
  In d used /\
  (forall X e, In X used -> prefixb (d ++ [e]) X = true -> mem_name e keep = true) /\
  (forall d' nd' loc' e, In (EvVisit d' nd' loc') evs -> prefixb (d ++ [e]) (d' ++ [node_name nd']) = true ->
                         mem_name e keep = true).
Proof.
  intros d mo loc keep H. pose proof (wf_each _ H) as Hw. cbn [wf_ev] in Hw.
  apply andb_true_iff in Hw as [H1 _]. rewrite forallb_forall in H1.
  split; [apply (used_in _ H)|]. split.
  - intros X e HX Hp. eapply keep_of_prefix; [|exact Hp]. apply H1. apply in_or_app; left; exact HX.
  - intros d' nd' loc' e Hin Hp. eapply keep_of_prefix; [|exact Hp]. apply H1. apply in_or_app; right.
    eapply in_leaves; exact Hin.
Qed.

Lemma W_leave_ens : forall d mo loc keep, In (EvLeave d mo loc keep) evs ->
  exists y, In y (ensured_of evs) /\ prefixb d y = true.
Proof.
  intros d mo loc keep H. pose proof (wf_each _ H) as Hw. cbn [wf_ev] in Hw.
  apply andb_true_iff in Hw as [_ H2]. apply existsb_exists in H2. exact H2.
Qed.

Lemma W_nodup : forall d1 nd1 l1 d2 nd2 l2, In (EvVisit d1 nd1 l1) evs -> In (EvVisit d2 nd2 l2) evs ->
  d1 ++ [node_name nd1] = d2 ++ [node_name nd2] -> nd1 = nd2.
Proof.
  intros d1 nd1 l1 d2 nd2 l2 H1 H2 E. unfold wf_events in Hwf. apply andb_true_iff in Hwf as [_ Hn].
  pose proof (nodup_leaves evs Hn _ _ _ _ _ _ H1 H2 E) as Heq. inversion Heq; reflexivity.
Qed.
End Facts.

(* ---- assembly: RestoreTo changes nothing outside the target ---- *)
Lemma traverse_head sel tree : exists evs', t_evs (traverse sel tree) = EvEnter [] :: evs'.
Proof. unfold traverse. cbn [t_evs]. eexists; reflexivity. Qed.

Definition facts (evs : list ev) : Prop :=
  (forall d nd loc, In (EvVisit d nd loc) evs ->
     In d (map ev_dir evs) /\ (forall X, In X (map ev_dir evs) -> prefixb (d ++ [node_name nd]) X = false) /\
     loc = d ++ [node_name nd]) /\
  (forall d mo loc keep, In (EvLeave d mo loc keep) evs ->
     In d (map ev_dir evs) /\
     (forall X e, In X (map ev_dir evs) -> prefixb (d ++ [e]) X = true -> mem_name e keep = true) /\
     (forall d' nd' loc' e, In (EvVisit d' nd' loc') evs -> prefixb (d ++ [e]) (d' ++ [node_name nd']) = true ->
                            mem_name e keep = true)) /\
  (forall d1 nd1 l1 d2 nd2 l2, In (EvVisit d1 nd1 l1) evs -> In (EvVisit d2 nd2 l2) evs ->
     d1 ++ [node_name nd1] = d2 ++ [node_name nd2] -> nd1 = nd2) /\
  (forall d mo loc keep, In (EvLeave d mo loc keep) evs ->
     exists y, In y (ensured_of evs) /\ prefixb d y = true).

Lemma facts_of_wf evs : wf_events evs = true -> facts evs.
Proof.
  intros H. split; [exact (W_visit evs H)|]. split; [exact (W_leave evs H)|].
  split; [exact (W_nodup evs H) | exact (W_leave_ens evs H)].
Qed.

Lemma idx_find_In ino v l : idx_find ino l = Some v -> In (ino, v) l.
Proof.
  induction l as [|[i w] l IH]; cbn [idx_find]; [discriminate|].
  destruct (N.eqb i ino) eqn:E; [|intros H; right; apply IH; exact H].
  apply N.eqb_eq in E. intros H. inversion H; subst. left; reflexivity.
Qed.

Lemma restore_body_local o sel P t tree fs0 :
  physdir fs0 P -> facts (t_evs (traverse sel tree)) ->
  let T := P ++ [t] in
  let tr := traverse sel tree in
  let s1 := fold_left (pass1_ev o T) (t_evs tr) (mkP fs0 [] [] []) in
  let fs2 := restore_files (o_delete o) (p_fs s1) (p_files s1) in
  local T fs0 (fold_left (pass2_ev o sel (andb (o_delete o) (negb (t_invalid tr))) T (p_tracked s1) (p_idx s1)) (t_evs tr) fs2).
Proof.
  intros HP Hwf T tr s1 fs2.
  destruct (traverse_head sel tree) as [evs' Eevs].
  set (evs := t_evs tr) in *. fold tr in Eevs. fold evs in Eevs.
  set (used := map ev_dir evs).
  (* pass 1 *)
  assert (H1 : physdir (p_fs s1) T /\ local T fs0 (p_fs s1) /\
               (forall d, In d (ensured_of evs) -> physdir (p_fs s1) (T ++ d)) /\
               (forall pc, In pc (p_files s1) ->
                  exists d nd loc, In (EvVisit d nd loc) evs /\ fst pc = T ++ d ++ [node_name nd]) /\
               (forall iv, In iv (p_idx s1) -> exists d nd, In (EvVisit d nd (snd iv)) evs)).
  { unfold s1. rewrite Eevs. cbn [fold_left].
    destruct (ensure_root P t fs0 HP) as [f1 [E1 [Hl1 [Hm1 Hp1]]]].
    assert (Es : pass1_ev o T (mkP fs0 [] [] []) (EvEnter []) = mkP f1 [] [] []).
    { cbn [pass1_ev p_fs p_files p_tracked p_idx]. fold T in E1. rewrite E1. reflexivity. }
    rewrite Es.
    destruct (pass1_fold P t o evs' (mkP f1 [] [] []) Hp1) as [Ha [Hb [Hc [Hd [He Hf]]]]].
    cbn [p_fs p_files p_tracked p_idx] in *. fold T in Ha, Hb, Hc, Hd, He, Hf.
    split; [exact Ha|]. split; [eapply local_trans; eauto|]. split; [|split].
    - intros d [<- | Hd']; [rewrite app_nil_r; exact Ha | apply Hd; exact Hd'].
    - intros pc Hpc. destruct (He pc Hpc) as [[] | [d [nd [loc [Hin Hp]]]]].
      exists d, nd, loc. split; [right; exact Hin | exact Hp].
    - intros iv Hiv. destruct (Hf iv Hiv) as [[] | [d [nd Hin]]].
      exists d, nd. right; exact Hin. }
  destruct H1 as [HT1 [Hl1 [Hens [Hfiles Hidx]]]].
  destruct Hwf as [Wv [Wl [Wn Wc]]].
  fold used in Wv, Wl.
  assert (HG1 : G P t used (p_fs s1)).
  { intros X HX. unfold used in HX. apply in_map_iff in HX as [e [<- He]].
    destruct e as [d | d nd loc | d mo loc keep]; cbn [ev_dir].
    - apply Hens. unfold ensured_of. apply in_flat_map. exists (EvEnter d). split; [exact He | left; reflexivity].
    - apply Hens. unfold ensured_of. apply in_flat_map. exists (EvVisit d nd loc). split; [exact He | left; reflexivity].
    - destruct (Wc _ _ _ _ He) as [y [Hy Hp]]. apply prefixb_spec in Hp as [r ->].
      specialize (Hens _ Hy). fold T. rewrite app_assoc in Hens. eapply physdir_prefix; exact Hens. }
  assert (Hleaf : forall pc, In pc (p_files s1) -> leafok P t used (fst pc)).
  { intros pc Hpc. destruct (Hfiles pc Hpc) as [d [nd [loc [Hin Hp]]]].
    destruct (Wv _ _ _ Hin) as [Hd [Hx _]]. exists d, (node_name nd). auto. }
  (* restoreFiles *)
  destruct (restore_files_spec P t used (o_delete o) (p_files s1) (p_fs s1) Hleaf HG1) as [Hl2 HG2].
  fold T in Hl2. fold fs2 in Hl2, HG2.
  (* pass 2 *)
  assert (Hidx_ok : forall ino v, idx_find ino (p_idx s1) = Some v -> exists d nd, In (EvVisit d nd v) evs).
  { intros ino v Hf. apply idx_find_In in Hf. exact (Hidx _ Hf). }
  destruct (pass2_fold P t used evs sel o (andb (o_delete o) (negb (t_invalid tr))) (p_tracked s1) (p_idx s1)
              Wv Wl Hidx_ok evs fs2) as [_ Hl3].
  { auto. }
  { exact HG2. }
  eapply local_trans; [exact Hl1|]. eapply local_trans; [exact Hl2 | exact Hl3].
Qed.

Theorem restore_local_facts o sel P t tree fs :
  physdir fs P -> facts (t_evs (traverse sel tree)) ->
  local (P ++ [t]) fs (restore o sel (P ++ [t]) tree fs).
Proof.
  intros HP Hwf. unfold restore.
  assert (Hm : exists fs0 s, mkdirall fs (P ++ [t]) = (fs0, s) /\ local (P ++ [t]) fs fs0 /\ physdir fs0 P).
  { destruct (mkdirall_snoc fs P t HP) as [[s [Em _]] | [Em _]].
    - exists fs, s. split; [exact Em|]. split; [apply local_refl | exact HP].
    - eexists _, Ok. split; [exact Em|]. split; [apply local_set|].
      eapply physdir_local; [apply local_set | apply snoc_not_prefix | exact HP]. }
  destruct Hm as [fs0 [s [Em [Hl0 HP0]]]]. rewrite Em.
  destruct s; [|exact Hl0|exact Hl0].
  eapply local_trans; [exact Hl0|]. apply (restore_body_local o sel P t tree fs0 HP0 Hwf).
Qed.

Theorem restore_local o sel P t tree fs :
  physdir fs P -> wf_events (t_evs (traverse sel tree)) = true ->
  local (P ++ [t]) fs (restore o sel (P ++ [t]) tree fs).
Proof. intros HP Hwf. apply restore_local_facts; [exact HP | apply facts_of_wf; exact Hwf]. Qed.

(* ---- the oracle ---- *)
Lemma entry_eqb_spec a b : entry_eqb a b = true <-> a = b.
Proof.
  destruct a, b; cbn [entry_eqb]; split; intro H; try discriminate; try reflexivity.
  - apply N.eqb_eq in H; subst; reflexivity.
  - inversion H; apply N.eqb_refl.
  - apply andb_true_iff in H as [H1 H2]. apply N.eqb_eq in H1, H2. subst; reflexivity.
  - inversion H; subst. rewrite !N.eqb_refl. reflexivity.
  - apply path_eqb_spec in H; subst; reflexivity.
  - inversion H; apply path_eqb_refl.
  - apply N.eqb_eq in H; subst; reflexivity.
  - inversion H; apply N.eqb_refl.
Qed.

Lemma opt_entry_eqb_spec a b : opt_entry_eqb a b = true <-> a = b.
Proof.
  unfold opt_entry_eqb. destruct a, b; cbn [option_eqb]; split; intro H; try discriminate; try reflexivity.
  - apply entry_eqb_spec in H; subst; reflexivity.
  - inversion H; apply entry_eqb_spec; reflexivity.
Qed.

Lemma in_keys fs p : In p (map fst fs) -> In p (keys fs).
Proof.
  unfold keys. induction fs as [|[k e] fs IH]; cbn [map fst fold_right In]; [intros []|].
  intros [<- | H].
  - destruct (mem_path k _) eqn:E; [apply mem_path_In; exact E | left; reflexivity].
  - destruct (mem_path k _) eqn:E; [apply IH; exact H | right; apply IH; exact H].
Qed.

Lemma look_none fs p : ~ In p (map fst fs) -> look fs p = None.
Proof.
  induction fs as [|[k e] fs IH]; cbn [map fst look In]; [reflexivity|]. intros H.
  destruct (path_eqb k p) eqn:E.
  - apply path_eqb_spec in E. exfalso. apply H. left; exact E.
  - apply IH. intros Hin. apply H. right; exact Hin.
Qed.

Lemma agree_on_spec keep a b : agree_on keep a b = true ->
  forall q, keep q = true -> look a q = look b q.
Proof.
  intros H q Hk. unfold agree_on in H. rewrite forallb_forall in H.
  destruct (in_dec (list_eq_dec (list_eq_dec N.eq_dec)) q (map fst a ++ map fst b)) as [Hin | Hnin].
  - assert (Hq : In q (keys a ++ keys b)).
    { apply in_app_or in Hin as [Hin | Hin]; apply in_or_app; [left | right]; apply in_keys; exact Hin. }
    specialize (H q Hq). rewrite Hk in H. cbn [negb orb] in H. apply opt_entry_eqb_spec; exact H.
  - rewrite !look_none; [reflexivity | |]; intros Hin; apply Hnin; apply in_or_app; auto.
Qed.

Lemma check_C18_sound c : check_C18 c = true ->
  (forall q, prefixb (c_T c) q = false -> look (fs_of_view (c_pre c)) q = look (fs_of_view (c_post c)) q) /\
  c_out_xattr c = false.
Proof.
  intros H. unfold check_C18 in H. apply andb_true_iff in H as [H Hx]. split.
  - intros q Hq. eapply agree_on_spec; [exact H|]. unfold outside. rewrite Hq. reflexivity.
  - apply negb_true_iff in Hx. exact Hx.
Qed.

(* ---- non-vacuity: the regression shapes of the two repaired defects, run through the model ---- *)
From Coq Require Import String. Open Scope string_scope.
Definition ex_world : view :=
  [([str "out"], EDir 493); ([str "out"; str "victim"], EFile 4 384); ([str "out"; str "b"], EFile 4 384);
   ([str "tgt"], EDir 493); ([str "tgt"; str "a"], ELink [str "out"])].
Definition ex_tree : list node := [NDir (str "a") 493 [NDir (str "b") 493 [NFile (str "f") 1 511]]].
(* include filter selecting only /a/b/f *)
Definition ex_sel : selT := sel_of false
  [([str "a"], true, (false, true)); ([str "a"; str "b"], true, (false, true));
   ([str "a"; str "b"; str "f"], false, (true, false))].
Example c18_nonvacuous_include :
  let fs := fs_of_view ex_world in
  let fs' := restore (mkO true true false) ex_sel [str "tgt"] ex_tree fs in
  wf_events (t_evs (traverse ex_sel ex_tree)) = true /\
  look fs' [str "tgt"; str "a"; str "b"; str "f"] = Some (EFile 1 511) /\
  look fs' [str "tgt"; str "a"] = Some (EDir 493) /\
  look fs' [str "out"; str "b"] = Some (EFile 4 384) /\
  agree_on (outside [str "tgt"]) fs fs' = true.
Proof. vm_compute. repeat split. Qed.

(* duplicate names [symlink x -> out/victim; file x]: the second x is rejected, the victim keeps its mode *)
Example c18_nonvacuous_duplicate :
  let fs := fs_of_view ex_world in
  let tree := [NLink (str "x") [str "out"; str "victim"]; NFile (str "x") 1 511] in
  let fs' := restore (mkO false true false) (sel_of true []) [str "tgt"] tree fs in
  wf_events (t_evs (traverse (sel_of true []) tree)) = true /\
  look fs' [str "tgt"; str "x"] = Some (ELink [str "out"; str "victim"]) /\
  look fs' [str "out"; str "victim"] = Some (EFile 4 384).
Proof. vm_compute. repeat split. Qed.

(* the checker does reject an event list in which a symlink leaf and a file leaf share a path *)
Example c18_wf_rejects_duplicates :
  wf_events [EvEnter []; EvVisit [] (NLink (str "x") [str "out"]) [str "x"]; EvVisit [] (NFile (str "x") 1 511) [str "x"]] = false.
Proof. vm_compute. reflexivity. Qed.

(* hard link group whose first member is a skipped pre-existing symlink to outside (--overwrite never):
   the second member becomes a link to the symlink, its metadata restore is refused, the victim keeps its mode *)
Example c18_nonvacuous_hardlink_to_symlink :
  let fs := fs_of_view (([str "tgt"; str "f1"], ELink [str "out"; str "victim"]) :: ex_world) in
  let tree := [NHard (str "f1") 1 420 1; NHard (str "f2") 1 420 1] in
  let fs' := restore (mkO false false false) (sel_of true []) [str "tgt"] tree fs in
  look fs' [str "tgt"; str "f2"] = Some (ELink [str "out"; str "victim"]) /\
  look fs' [str "out"; str "victim"] = Some (EFile 4 384).
Proof. vm_compute. repeat split. Qed.

(* content that cannot be downloaded, symlink at the file's path: nothing is created, metadata is refused *)
Example c18_nonvacuous_failed_download :
  let fs := fs_of_view (([str "tgt"; str "f"], ELink [str "out"; str "victim"]) :: ex_world) in
  let fs' := restore (mkO false true false) (sel_of true []) [str "tgt"] [NFile (str "f") bad_content 420] fs in
  look fs' [str "tgt"; str "f"] = Some (ELink [str "out"; str "victim"]) /\
  look fs' [str "out"; str "victim"] = Some (EFile 4 384).
Proof. vm_compute. repeat split. Qed.
