From Restic Require Import Base.Prelude Gen.ParamsC33 Model.C33m.
Import C33m.
Open Scope N_scope.

(* ---------- basic reflection ---------- *)
Lemma entry_eqb_spec a b : entry_eqb a b = true <-> a = b.
Proof.
  unfold entry_eqb. destruct a, b; cbn [e_t e_id e_off e_len e_ulen].
  rewrite !andb_true_iff, !N.eqb_eq. split.
  - intros [[[[-> ->] ->] ->] ->]; reflexivity.
  - intros H; inversion H; subst; repeat split.
Qed.

Lemma pe_eqb_spec a b : pe_eqb a b = true <-> a = b.
Proof.
  unfold pe_eqb. destruct a as [p e], b as [q f]; cbn [fst snd].
  rewrite andb_true_iff, N.eqb_eq, entry_eqb_spec. split.
  - intros [-> ->]; reflexivity.
  - intros H; inversion H; subst; split; reflexivity.
Qed.

Lemma mem_pe_spec x l : mem_pe x l = true <-> In x l.
Proof.
  unfold mem_pe. rewrite existsb_exists. split.
  - intros [y [Hy He]]. apply pe_eqb_spec in He; subst; exact Hy.
  - intros H; exists x; split; [exact H | apply pe_eqb_spec; reflexivity].
Qed.

Lemma inl_spec p l : inl p l = true <-> In p l.
Proof.
  unfold inl. rewrite existsb_exists. split.
  - intros [y [Hy He]]. apply N.eqb_eq in He; subst; exact Hy.
  - intros H; exists p; split; [exact H | apply N.eqb_refl].
Qed.

Lemma inl_false p l : inl p l = false <-> ~ In p l.
Proof.
  rewrite <- inl_spec. destruct (inl p l); split; intro H.
  - discriminate.
  - exfalso; apply H; reflexivity.
  - intro H'; discriminate.
  - reflexivity.
Qed.

Lemma In_dedup x l : In x (dedup l) <-> In x l.
Proof.
  induction l as [|y r IH]; cbn [dedup]; [tauto|].
  destruct (mem_pe y r) eqn:Hm.
  - apply mem_pe_spec in Hm. rewrite IH. split; [intros H; right; exact H|].
    intros [->|H]; [exact Hm | exact H].
  - cbn [In]. rewrite IH. tauto.
Qed.

Lemma In_flat x b : In x (flat b) <-> exists g, In g b /\ fst g = fst x /\ In (snd x) (snd g).
Proof.
  unfold flat. rewrite in_flat_map. split.
  - intros [g [Hg Hx]]. apply in_map_iff in Hx as [e [<- He]]. exists g; auto.
  - intros [g [Hg [Hf He]]]. exists g; split; [exact Hg|]. apply in_map_iff.
    exists (snd x); split; [|exact He]. rewrite Hf. destruct x; reflexivity.
Qed.

Lemma flat_app a b : flat (a ++ b) = flat a ++ flat b.
Proof. unfold flat. apply flat_map_app. Qed.

Lemma flat_cons g b : flat (g :: b) = map (pair (fst g)) (snd g) ++ flat b.
Proof. reflexivity. Qed.

(* ---------- grouping ---------- *)
Lemma In_flat_insert x p e gs :
  In x (flat (insert_group p e gs)) <-> x = (p, e) \/ In x (flat gs).
Proof.
  induction gs as [|g r IH]; cbn [insert_group].
  - cbn. intuition congruence.
  - destruct (fst g =? p) eqn:Hp.
    + apply N.eqb_eq in Hp. rewrite !flat_cons. cbn [fst snd]. rewrite map_app, !in_app_iff.
      cbn [map In]. subst p. intuition congruence.
    + rewrite !flat_cons, !in_app_iff, IH. tauto.
Qed.

Lemma In_flat_fold l : forall gs x,
  In x (flat (fold_left (fun gs x => insert_group (fst x) (snd x) gs) l gs)) <-> In x l \/ In x (flat gs).
Proof.
  induction l as [|y r IH]; intros gs x; cbn [fold_left].
  - cbn [In]. tauto.
  - rewrite IH, In_flat_insert. destruct y as [p e]; cbn [fst snd In]. intuition congruence.
Qed.

Lemma In_group_by x l : In x (flat (group_by l)) <-> In x l.
Proof. unfold group_by. rewrite In_flat_fold. cbn. tauto. Qed.

Lemma In_each_by_pack x b ex :
  In x (flat (each_by_pack b ex)) <-> In x (flat b) /\ inl (fst x) ex = false.
Proof.
  unfold each_by_pack. rewrite In_group_by, filter_In, negb_true_iff. tauto.
Qed.

(* ---------- PackBlobsHash equality ---------- *)
Lemma remove1_spec x l l' : remove1 x l = Some l' -> forall e, In e l <-> e = x \/ In e l'.
Proof.
  revert l'; induction l as [|y r IH]; intros l' H e; cbn [remove1] in H; [discriminate|].
  destruct (entry_eqb x y) eqn:Hxy.
  - apply entry_eqb_spec in Hxy. inversion H; subst. cbn [In]. intuition congruence.
  - destruct (remove1 x r) as [r'|] eqn:Hr; [|discriminate]. inversion H; subst.
    cbn [In]. rewrite (IH r' eq_refl e). tauto.
Qed.

Lemma perm_eqb_In a : forall b, perm_eqb a b = true -> forall e, In e a <-> In e b.
Proof.
  induction a as [|x r IH]; intros b H e; cbn [perm_eqb] in H.
  - destruct b; [tauto | discriminate].
  - destruct (remove1 x b) as [b'|] eqn:Hb; [|discriminate].
    rewrite (remove1_spec _ _ _ Hb e). cbn [In]. rewrite (IH b' H e). intuition congruence.
Qed.

Lemma same_sound g h : same g h = true -> fst g = fst h /\ forall e, In e (snd g) <-> In e (snd h).
Proof.
  unfold same. rewrite andb_true_iff, N.eqb_eq. intros [Hp Hq]. split; [exact Hp|].
  apply perm_eqb_In; exact Hq.
Qed.

(* every pair of a group *)
Definition covers (gs : list group) (x : pe) : Prop := exists g, In g gs /\ fst g = fst x /\ In (snd x) (snd g).

Lemma covers_flat gs x : covers gs x <-> In x (flat gs).
Proof. unfold covers. rewrite In_flat. tauto. Qed.

Lemma seen_has_covers seen g x :
  seen_has seen g = true -> fst g = fst x -> In (snd x) (snd g) -> covers seen x.
Proof.
  unfold seen_has. rewrite existsb_exists. intros [h [Hh Hs]] Hf He.
  apply same_sound in Hs as [Hp Hq]. exists h. split; [exact Hh|]. split; [congruence|].
  apply Hq; exact He.
Qed.

Lemma add_groups_spec gs : forall seen seen' add,
  add_groups gs seen = (seen', add) ->
  (forall x, covers seen' x <-> covers seen x \/ In x (flat add)) /\
  (forall x, In x (flat gs) -> covers seen' x) /\
  (forall x, In x (flat add) -> In x (flat gs)).
Proof.
  induction gs as [|g r IH]; intros seen seen' add H; cbn [add_groups] in H.
  - inversion H; subst. split; [|split].
    + intros x. cbn. tauto.
    + intros x [].
    + intros x Hx; exact Hx.
  - destruct (seen_has seen g) eqn:Hs.
    + destruct (IH _ _ _ H) as [H1 [H2 H3]]. split; [exact H1|]. split.
      * intros x Hx. rewrite flat_cons, in_app_iff in Hx. destruct Hx as [Hx|Hx]; [|apply H2; exact Hx].
        apply in_map_iff in Hx as [e [<- He]]. apply H1. left.
        eapply seen_has_covers; [exact Hs | reflexivity | exact He].
      * intros x Hx. rewrite flat_cons, in_app_iff. right. apply H3; exact Hx.
    + destruct (add_groups r (g :: seen)) as [s' a] eqn:Hr. inversion H; subst.
      destruct (IH _ _ _ Hr) as [H1 [H2 H3]].
      assert (Hc : forall x, covers (g :: seen) x <-> In x (map (pair (fst g)) (snd g)) \/ covers seen x).
      { intros x. rewrite !covers_flat, flat_cons, in_app_iff. tauto. }
      split; [|split].
      * intros x. rewrite H1, Hc, flat_cons, in_app_iff. tauto.
      * intros x Hx. rewrite flat_cons, in_app_iff in Hx. destruct Hx as [Hx|Hx]; [|apply H2; exact Hx].
        apply H1. left. apply Hc. left; exact Hx.
      * intros x Hx. rewrite flat_cons, in_app_iff in Hx. rewrite flat_cons, in_app_iff.
        destruct Hx as [Hx|Hx]; [left; exact Hx | right; apply H3; exact Hx].
Qed.

(* ---------- Rewrite ---------- *)
Lemma rewrite_obs_subset c ex : forall (os : list (iid * body)) seen nb ob,
  rewrite c ex os seen = (nb, ob) -> forall i, In i ob -> In i (map fst os).
Proof.
  induction os as [|[i0 b0] r IH]; intros seen nb ob H i Hi; cbn [rewrite] in H.
  - inversion H; subst; destruct Hi.
  - match type of H with (if ?c then _ else _) = _ => destruct c end.
    + cbn [map In]. right. eapply IH; eassumption.
    + destruct (add_groups (each_by_pack b0 ex) seen) as [s' a].
      destruct (rewrite c ex r s') as [nb' ob'] eqn:Hr. inversion H; subst.
      cbn [map In fst]. destruct Hi as [->|Hi]; [left; reflexivity | right; eapply IH; eassumption].
Qed.

(* soundness: everything written to the new index comes from an old index and a non-excluded pack *)
Lemma rewrite_sound c ex : forall (os : list (iid * body)) seen nb ob,
  rewrite c ex os seen = (nb, ob) ->
  forall x, In x (flat nb) -> inl (fst x) ex = false /\ exists i b, In (i, b) os /\ In x (flat b).
Proof.
  induction os as [|[i0 b0] r IH]; intros seen nb ob H x Hx; cbn [rewrite] in H.
  - inversion H; subst; destruct Hx.
  - match type of H with (if ?c then _ else _) = _ => destruct c end.
    + destruct (IH _ _ _ H x Hx) as [H1 [i [b [H2 H3]]]]. split; [exact H1|].
      exists i, b; split; [right; exact H2 | exact H3].
    + destruct (add_groups (each_by_pack b0 ex) seen) as [s' a] eqn:Ha.
      destruct (rewrite c ex r s') as [nb' ob'] eqn:Hr. inversion H; subst.
      rewrite flat_app, in_app_iff in Hx. destruct Hx as [Hx|Hx].
      * destruct (add_groups_spec _ _ _ _ Ha) as [_ [_ H3]]. apply H3 in Hx.
        apply In_each_by_pack in Hx as [Hx1 Hx2]. split; [exact Hx2|].
        exists i0, b0; split; [left; reflexivity | exact Hx1].
      * destruct (IH _ _ _ Hr x Hx) as [H1 [i [b [H2 H3]]]]. split; [exact H1|].
        exists i, b; split; [right; exact H2 | exact H3].
Qed.

(* an index that is not rewritten mentions no excluded pack *)
Lemma rewrite_kept_clean c ex : forall (os : list (iid * body)) seen nb ob,
  rewrite c ex os seen = (nb, ob) ->
  forall i b, In (i, b) os -> ~ In i ob -> forall g, In g b -> inl (fst g) ex = false.
Proof.
  induction os as [|[i0 b0] r IH]; intros seen nb ob H i b Hin Hno g Hg; cbn [rewrite] in H.
  - destruct Hin.
  - match type of H with (if ?c then _ else _) = _ => destruct c eqn:Hc end.
    + destruct Hin as [Heq|Hin]; [|eapply IH; eassumption].
      inversion Heq; subst. apply andb_true_iff in Hc as [Hc _]. apply andb_true_iff in Hc as [_ Hc].
      apply negb_true_iff in Hc.
      destruct (inl (fst g) ex) eqn:Hi; [|reflexivity].
      assert (existsb (fun g => inl (fst g) ex) b = true) by (apply existsb_exists; exists g; auto).
      congruence.
    + destruct (add_groups (each_by_pack b0 ex) seen) as [s' a].
      destruct (rewrite c ex r s') as [nb' ob'] eqn:Hr. inversion H; subst.
      destruct Hin as [Heq|Hin].
      * inversion Heq; subst. exfalso; apply Hno; left; reflexivity.
      * eapply IH; try eassumption. intro Hx; apply Hno; right; exact Hx.
Qed.

(* completeness: a non-excluded entry of an old index survives, in a kept index or in the new one *)
Lemma rewrite_complete c ex : forall (os : list (iid * body)) seen nb ob (Rep : pe -> Prop),
  rewrite c ex os seen = (nb, ob) ->
  NoDup (map fst os) ->
  (forall x, covers seen x -> Rep x) ->
  forall i b x, In (i, b) os -> In x (flat b) -> inl (fst x) ex = false ->
    Rep x \/ In x (flat nb) \/ exists i' b', In (i', b') os /\ ~ In i' ob /\ In x (flat b').
Proof.
  induction os as [|[i0 b0] r IH]; intros seen nb ob Rep H Hnd Hrep i b x Hin Hx Hex; cbn [rewrite] in H.
  - destruct Hin.
  - cbn [map fst] in Hnd. inversion Hnd as [|? ? Hni Hnd']; subst.
    match type of H with (if ?c then _ else _) = _ => destruct c eqn:Hc end.
    + (* kept *)
      assert (Hkept : ~ In i0 ob).
      { intro Hi. apply Hni. eapply rewrite_obs_subset; eassumption. }
      set (Rep' := fun y => Rep y \/ In y (flat (each_by_pack b0 ex))).
      assert (Hrep' : forall y, covers (each_by_pack b0 ex ++ seen) y -> Rep' y).
      { intros y Hy. rewrite covers_flat, flat_app, in_app_iff in Hy. unfold Rep'.
        destruct Hy as [Hy|Hy]; [right; exact Hy | left; apply Hrep; apply covers_flat; exact Hy]. }
      assert (Hhead : forall y, In y (flat (each_by_pack b0 ex)) ->
                exists i' b', In (i', b') ((i0, b0) :: r) /\ ~ In i' ob /\ In y (flat b')).
      { intros y Hy. apply In_each_by_pack in Hy as [Hy _]. exists i0, b0. split; [left; reflexivity|]. split; assumption. }
      destruct Hin as [Heq|Hin].
      * inversion Heq; subst. right; right. apply Hhead. apply In_each_by_pack; split; assumption.
      * destruct (IH _ _ _ Rep' H Hnd' Hrep' i b x Hin Hx Hex) as [[Hr|Hr]|[Hr|[i' [b' [H1 [H2 H3]]]]]].
        -- left; exact Hr.
        -- right; right; apply Hhead; exact Hr.
        -- right; left; exact Hr.
        -- right; right. exists i', b'. split; [right; exact H1|]. split; assumption.
    + (* rewritten *)
      destruct (add_groups (each_by_pack b0 ex) seen) as [s' a] eqn:Ha.
      destruct (rewrite c ex r s') as [nb' ob'] eqn:Hr. inversion H; subst.
      destruct (add_groups_spec _ _ _ _ Ha) as [A1 [A2 A3]].
      set (Rep' := fun y => Rep y \/ In y (flat a)).
      assert (Hrep' : forall y, covers s' y -> Rep' y).
      { intros y Hy. apply A1 in Hy. unfold Rep'. destruct Hy as [Hy|Hy]; [left; apply Hrep; exact Hy | right; exact Hy]. }
      assert (Hfin : forall y, Rep' y -> Rep y \/ In y (flat (a ++ nb'))).
      { intros y [Hy|Hy]; [left; exact Hy | right; rewrite flat_app, in_app_iff; left; exact Hy]. }
      destruct Hin as [Heq|Hin].
      * inversion Heq; subst.
        assert (Hy : In x (flat (each_by_pack b ex))) by (apply In_each_by_pack; split; assumption).
        apply A2, Hrep', Hfin in Hy. destruct Hy as [Hy|Hy]; [left; exact Hy | right; left; exact Hy].
      * destruct (IH _ _ _ Rep' Hr Hnd' Hrep' i b x Hin Hx Hex) as [Hq|[Hq|[i' [b' [H1 [H2 H3]]]]]].
        -- apply Hfin in Hq. destruct Hq as [Hq|Hq]; [left; exact Hq | right; left; exact Hq].
        -- right; left. rewrite flat_app, in_app_iff; right; exact Hq.
        -- right; right. exists i', b'. split; [right; exact H1|]. split; [|exact H3].
           intros [Heq|Hq]; [|apply H2; exact Hq]. subst i'.
           apply Hni. apply in_map_iff. exists (i0, b'); split; [reflexivity | exact H1].
Qed.

(* ---------- the trace and the backend state ---------- *)
Lemma run_app t a b : run t (a ++ b) = run (run t a) b.
Proof. unfold run. apply fold_left_app. Qed.

Lemma run_saves l : forall t,
  run t (nonempty_saves l) = B (b_old t) (b_new t ++ filter (fun b => match b with [] => false | _ => true end) l) (b_packs t).
Proof.
  induction l as [|b r IH]; intros t.
  - cbn. rewrite app_nil_r. destruct t; reflexivity.
  - unfold nonempty_saves in *. cbn [flat_map filter]. destruct b as [|g b].
    + cbn [app]. apply IH.
    + cbn [app]. unfold run in *. cbn [fold_left]. rewrite IH. cbn [apply_op b_old b_new b_packs].
      rewrite <- app_assoc. reflexivity.
Qed.

Lemma flat_concat_filter l :
  flat (concat (filter (fun b : body => match b with [] => false | _ => true end) l)) = flat (concat l).
Proof.
  induction l as [|b r IH]; [reflexivity|]. cbn [filter]. destruct b as [|g b].
  - cbn [concat app]. exact IH.
  - cbn [concat]. rewrite !flat_app, IH. reflexivity.
Qed.

Lemma filter_filter' {A} (P Q : A -> bool) l : filter P (filter Q l) = filter (fun x => Q x && P x) l.
Proof.
  induction l as [|a l IH]; cbn [filter]; [reflexivity|].
  destruct (Q a); cbn [andb filter]; [destruct (P a); [rewrite IH; reflexivity|]|]; exact IH.
Qed.

Lemma run_removes l : forall t,
  run t (map ORmIdx l) = B (filter (fun f => negb (inl (i_id f) l)) (b_old t)) (b_new t) (b_packs t).
Proof.
  induction l as [|i r IH]; intros t.
  - cbn. destruct t as [o n p]; cbn. f_equal. induction o as [|f o IHo]; [reflexivity|]. cbn. f_equal; exact IHo.
  - unfold run in *. cbn [map fold_left]. rewrite IH. cbn [apply_op b_old b_new b_packs]. f_equal.
    rewrite filter_filter'. apply filter_ext. intros f. unfold inl. cbn [existsb]. rewrite negb_orb. reflexivity.
Qed.

Lemma In_view_files x fs :
  In x (view_files fs) <-> exists f b, In f fs /\ i_body f = Some b /\ In x (flat b).
Proof.
  unfold view_files. rewrite In_flat. split.
  - intros [g [Hg [Hf He]]]. apply in_flat_map in Hg as [f [Hfin Hg]].
    destruct (i_body f) as [b|] eqn:Hb; [|destruct Hg]. exists f, b. split; [exact Hfin|]. split; [exact Hb|].
    apply In_flat. exists g; auto.
  - intros [f [b [Hf [Hb Hx]]]]. apply In_flat in Hx as [g [Hg [H1 H2]]]. exists g. split; [|auto].
    apply in_flat_map. exists f; split; [exact Hf|]. rewrite Hb; exact Hg.
Qed.

Lemma In_loaded i b s : In (i, b) (loaded s) <-> exists f, In f (s_idx s) /\ i_id f = i /\ i_body f = Some b.
Proof.
  unfold loaded. rewrite in_flat_map. split.
  - intros [f [Hf Hx]]. destruct (i_body f) as [b'|] eqn:Hb; [|destruct Hx].
    destruct Hx as [Hx|[]]. inversion Hx; subst. exists f; auto.
  - intros [f [Hf [Hi Hb]]]. exists f; split; [exact Hf|]. rewrite Hb, Hi. left; reflexivity.
Qed.

Lemma In_failed i s : In i (failed s) <-> exists f, In f (s_idx s) /\ i_id f = i /\ i_body f = None.
Proof.
  unfold failed. rewrite in_flat_map. split.
  - intros [f [Hf Hx]]. destruct (i_body f) as [b'|] eqn:Hb; [destruct Hx|].
    destruct Hx as [Hx|[]]. exists f; auto.
  - intros [f [Hf [Hi Hb]]]. exists f; split; [exact Hf|]. rewrite Hb, Hi. left; reflexivity.
Qed.

Definition final_bst (c : cfg) (s : st) : bst := run (init_bst s) (trace c s).

Lemma final_bst_eq c s :
  final_bst c s = B (filter (fun f => negb (inl (i_id f) (removed c s))) (s_idx s))
                    (filter (fun b => match b with [] => false | _ => true end) [new1 c s; fst (rw c s)])
                    (map p_id (s_packs s)).
Proof.
  unfold final_bst, trace. rewrite run_app, run_saves, run_removes. reflexivity.
Qed.

Lemma In_final_view c s x :
  In x (final_view c s) <->
  (exists f b, In f (s_idx s) /\ ~ In (i_id f) (removed c s) /\ i_body f = Some b /\ In x (flat b))
  \/ In x (flat (new1 c s)) \/ In x (flat (fst (rw c s))).
Proof.
  unfold final_view. fold (final_bst c s). rewrite final_bst_eq. unfold view. cbn [b_old b_new].
  rewrite in_app_iff, flat_concat_filter. cbn [concat]. rewrite app_nil_r, flat_app, in_app_iff, In_view_files.
  split.
  - intros [[f [b [Hf [Hb Hx]]]]|H]; [|right; exact H].
    apply filter_In in Hf as [Hf Hn]. apply negb_true_iff, inl_false in Hn. left; exists f, b; auto.
  - intros [[f [b [Hf [Hn [Hb Hx]]]]]|H]; [|right; exact H].
    left; exists f, b. split; [|auto]. apply filter_In; split; [exact Hf|]. apply negb_true_iff, inl_false; exact Hn.
Qed.

(* ---------- packs ---------- *)
Lemma In_hdr_groups x l :
  In x (flat (hdr_groups l)) <-> exists pf es, In pf l /\ p_hdr pf = Some es /\ fst x = p_id pf /\ In (snd x) es.
Proof.
  rewrite In_flat. unfold hdr_groups. split.
  - intros [g [Hg [Hf He]]]. apply in_flat_map in Hg as [pf [Hpf Hg]].
    destruct (p_hdr pf) as [es|] eqn:Hh; [|destruct Hg]. destruct Hg as [<-|[]]. cbn [fst snd] in *.
    exists pf, es; auto.
  - intros [pf [es [Hpf [Hh [Hf He]]]]]. exists (p_id pf, es). split; [|cbn; auto].
    apply in_flat_map. exists pf; split; [exact Hpf|]. rewrite Hh; left; reflexivity.
Qed.

Lemma present_spec s p : present s p = true <-> exists pf, In pf (s_packs s) /\ p_id pf = p.
Proof.
  unfold present. rewrite existsb_exists. split; intros [pf [H1 H2]]; exists pf; split; auto.
  - apply N.eqb_eq; exact H2.
  - apply N.eqb_eq; exact H2.
Qed.

Lemma In_excl c s p :
  In p (excl c s) <-> (exists pf, In pf (to_read c s) /\ p_id pf = p) \/ (present s p = false /\ In p (map fst (memidx c s))).
Proof.
  unfold excl. rewrite in_app_iff, in_map_iff, filter_In, negb_true_iff. split.
  - intros [[pf [H1 H2]]|[H1 H2]]; [left; exists pf; auto | right; auto].
  - intros [[pf [H1 H2]]|[H1 H2]]; [left; exists pf; auto | right; auto].
Qed.

Lemma In_pack_entries m p e : In e (pack_entries m p) <-> In (p, e) m.
Proof.
  unfold pack_entries. rewrite in_map_iff. split.
  - intros [[q f] [Hs Hf]]. apply filter_In in Hf as [Hf Hq]. cbn in *. apply N.eqb_eq in Hq. subst. exact Hf.
  - intros H. exists (p, e). split; [reflexivity|]. apply filter_In. split; [exact H | apply N.eqb_refl].
Qed.

Lemma In_memidx c s x :
  In x (memidx c s) <-> exists i b, In (i, b) (olds c s) /\ In x (flat b).
Proof.
  unfold memidx. rewrite In_dedup. rewrite In_flat. split.
  - intros [g [Hg [Hf He]]]. apply in_flat_map in Hg as [[i b] [Hib Hg]]. cbn [snd] in Hg.
    exists i, b. split; [exact Hib|]. apply In_flat. exists g; auto.
  - intros [i [b [Hib Hx]]]. apply In_flat in Hx as [g [Hg [Hf He]]]. exists g. split; [|auto].
    apply in_flat_map. exists (i, b); auto.
Qed.

Definition wf (s : st) : Prop := NoDup (map p_id (s_packs s)) /\ NoDup (map i_id (s_idx s)).

Definition trusted (c : cfg) (s : st) : Prop :=
  forall pf, In pf (s_packs s) -> needs_read (memidx c s) pf = false ->
    exists es, p_hdr pf = Some es /\ forall e, In (p_id pf, e) (memidx c s) <-> In e es.

Lemma NoDup_map_inj {A} (f : A -> N) l a b : NoDup (map f l) -> In a l -> In b l -> f a = f b -> a = b.
Proof.
  induction l as [|x r IH]; intros Hnd Ha Hb Hf; [destruct Ha|].
  cbn [map] in Hnd. inversion Hnd as [|? ? Hni Hnd']; subst.
  destruct Ha as [->|Ha], Hb as [->|Hb]; try reflexivity.
  - exfalso; apply Hni. rewrite Hf. apply in_map; exact Hb.
  - exfalso; apply Hni. rewrite <- Hf. apply in_map; exact Ha.
  - apply IH; assumption.
Qed.

Lemma olds_NoDup c s : NoDup (map i_id (s_idx s)) -> NoDup (map fst (olds c s)).
Proof.
  unfold olds. destruct (read_all c); [constructor|]. unfold loaded.
  induction (s_idx s) as [|f r IH]; intros Hnd; [constructor|].
  cbn [map] in Hnd. inversion Hnd as [|? ? Hni Hnd']; subst. cbn [flat_map].
  destruct (i_body f) as [b|] eqn:Hb; [|apply IH; exact Hnd'].
  cbn [app map fst]. constructor; [|apply IH; exact Hnd'].
  intro Hin. apply Hni. apply in_map_iff in Hin as [[i b'] [Hi Hin]]. cbn in Hi; subst i.
  apply in_flat_map in Hin as [f' [Hf' Hx]]. destruct (i_body f'); [|destruct Hx].
  destruct Hx as [Hx|[]]. inversion Hx; subst. apply in_map; exact Hf'.
Qed.

(* an entry visible in a loaded old index whose pack is not excluded is visible afterwards *)
Lemma old_entry_survives c s i b x :
  NoDup (map i_id (s_idx s)) ->
  In (i, b) (olds c s) -> In x (flat b) -> inl (fst x) (excl c s) = false -> In x (final_view c s).
Proof.
  intros Hnd Hib Hx Hex. unfold rw.
  destruct (rewrite c (excl c s) (olds c s) []) as [nb ob] eqn:Hr.
  pose proof (rewrite_complete c (excl c s) (olds c s) [] nb ob (fun _ => False) Hr (olds_NoDup c s Hnd)) as Hc.
  assert (H0 : forall y, covers [] y -> False) by (intros y [g [[] _]]).
  destruct (Hc H0 i b x Hib Hx Hex) as [[]|[Hq|[i' [b' [H1 [H2 H3]]]]]]; apply In_final_view.
  - right; right. unfold rw. rewrite Hr. exact Hq.
  - left. unfold olds in H1. destruct (read_all c) eqn:Hra; [destruct H1|].
    apply In_loaded in H1 as [f [Hf [Hi Hb]]]. exists f, b'. split; [exact Hf|]. split; [|auto].
    unfold removed, obsolete0, rw. rewrite Hra, Hr. cbn [snd]. rewrite in_app_iff. intros [Hq|Hq].
    + apply In_failed in Hq as [f' [Hf' [Hi' Hb']]].
      assert (f' = f) by (eapply NoDup_map_inj; eauto; congruence). subst f'. congruence.
    + apply H2. rewrite <- Hi. exact Hq.
Qed.

Lemma to_read_present c s pf : In pf (to_read c s) -> In pf (s_packs s).
Proof. unfold to_read. intros H; apply filter_In in H; tauto. Qed.

(* ---------- main theorems ---------- *)

(* direction 1: nothing but true content of readable present packs *)
Lemma final_sound c s : wf s -> trusted c s -> forall x, In x (final_view c s) -> In x (truth s).
Proof.
  intros [Hpn Hin] Htr x Hx. apply In_final_view in Hx.
  assert (Hmem : forall y, In y (memidx c s) -> inl (fst y) (excl c s) = false -> In y (truth s)).
  { intros [p e] Hy Hex. cbn [fst] in Hex. apply inl_false in Hex.
    destruct (present s p) eqn:Hp.
    - apply present_spec in Hp as [pf [Hpf Hid]]. subst p.
      destruct (needs_read (memidx c s) pf) eqn:Hn.
      + exfalso; apply Hex, In_excl. left. exists pf; split; [|reflexivity]. apply filter_In; auto.
      + destruct (Htr pf Hpf Hn) as [es [Hh He]]. apply In_hdr_groups. exists pf, es. cbn [fst snd].
        repeat split; auto. apply He; exact Hy.
    - exfalso; apply Hex, In_excl. right. split; [exact Hp|]. apply in_map_iff. exists (p, e); auto. }
  destruct Hx as [[f [b [Hf [Hn [Hb Hx]]]]]|[Hx|Hx]].
  - (* kept old file *)
    unfold removed, obsolete0 in Hn. rewrite in_app_iff in Hn.
    destruct (read_all c) eqn:Hra.
    { exfalso; apply Hn; left. apply in_map; exact Hf. }
    assert (Hib : In (i_id f, b) (olds c s)).
    { unfold olds; rewrite Hra. apply In_loaded. exists f; auto. }
    apply Hmem.
    + apply In_memidx. exists (i_id f), b; auto.
    + unfold rw in Hn. destruct (rewrite c (excl c s) (olds c s) []) as [nb ob] eqn:Hr. cbn [snd] in Hn.
      apply In_flat in Hx as [g [Hg [Hfst _]]]. rewrite <- Hfst.
      eapply rewrite_kept_clean; try eassumption. intro Hq; apply Hn; right; exact Hq.
  - (* re-read pack *)
    unfold new1 in Hx. apply In_hdr_groups in Hx as [pf [es [Hpf [Hh [Hfst He]]]]].
    apply In_hdr_groups. exists pf, es. split; [eapply to_read_present; exact Hpf | auto].
  - (* rewritten old entry *)
    unfold rw in Hx. destruct (rewrite c (excl c s) (olds c s) []) as [nb ob] eqn:Hr. cbn [fst] in Hx.
    destruct (rewrite_sound _ _ _ _ _ _ Hr x Hx) as [Hex [i [b [Hib Hxb]]]].
    apply Hmem; [|exact Hex]. apply In_memidx. exists i, b; auto.
Qed.

(* direction 2: every blob of every readable present pack *)
Lemma final_complete c s : wf s -> trusted c s -> forall x, In x (truth s) -> In x (final_view c s).
Proof.
  intros [Hpn Hin] Htr [p e] Hx. apply In_hdr_groups in Hx as [pf [es [Hpf [Hh [Hfst He]]]]].
  cbn [fst snd] in *. subst p.
  destruct (needs_read (memidx c s) pf) eqn:Hn.
  - apply In_final_view. right; left. unfold new1. apply In_hdr_groups. exists pf, es.
    split; [apply filter_In; auto | auto].
  - destruct (Htr pf Hpf Hn) as [es' [Hh' He']]. rewrite Hh in Hh'. inversion Hh'; subst es'.
    apply He' in He. apply In_memidx in He as [i [b [Hib Hxb]]].
    eapply old_entry_survives; try eassumption. cbn [fst]. apply inl_false. intro Hex.
    apply In_excl in Hex as [[pf' [Hpf' Hid]]|[Hp _]].
    + assert (pf' = pf) by (eapply NoDup_map_inj; eauto using to_read_present). subst pf'.
      apply filter_In in Hpf' as [_ Hq]. congruence.
    + assert (present s (p_id pf) = true) by (apply present_spec; exists pf; auto). congruence.
Qed.

Lemma repair_exact c s : wf s -> trusted c s -> forall x, In x (final_view c s) <-> In x (truth s).
Proof. intros Hw Ht x; split; [apply final_sound | apply final_complete]; assumption. Qed.

Lemma memidx_read_all c s : read_all c = true -> memidx c s = [].
Proof. intros H. unfold memidx, olds. rewrite H. reflexivity. Qed.

Lemma trusted_read_all c s : read_all c = true -> trusted c s.
Proof.
  intros H pf _ Hn. rewrite (memidx_read_all c s H) in Hn. discriminate.
Qed.

Lemma repair_exact_read_all c s :
  wf s -> read_all c = true -> forall x, In x (final_view c s) <-> In x (truth s).
Proof. intros Hw H. apply repair_exact; [exact Hw | apply trusted_read_all; exact H]. Qed.

(* no pack file is created or deleted *)
Lemma no_pack_touched c s :
  b_packs (run (init_bst s) (trace c s)) = map p_id (s_packs s) /\
  forall o, In o (trace c s) -> is_pack_op o = false.
Proof.
  split.
  - fold (final_bst c s). rewrite final_bst_eq. reflexivity.
  - intros o Ho. unfold trace in Ho. rewrite in_app_iff in Ho. destruct Ho as [Ho|Ho].
    + unfold nonempty_saves in Ho. apply in_flat_map in Ho as [b [_ Ho]].
      destruct b; [destruct Ho|]. destruct Ho as [<-|[]]. reflexivity.
    + apply in_map_iff in Ho as [i [<- _]]. reflexivity.
Qed.

(* crash safety: at every prefix of the run, every correct entry that was visible before is still visible *)
Lemma firstn_app_cases {A} k (a b : list A) :
  (exists k', firstn k (a ++ b) = firstn k' a) \/ (exists k', firstn k (a ++ b) = a ++ firstn k' b).
Proof.
  rewrite firstn_app. destruct (Nat.le_gt_cases k (length a)) as [H|H].
  - left. exists k. replace (k - length a)%nat with 0%nat by lia. cbn. apply app_nil_r.
  - right. exists (k - length a)%nat. rewrite firstn_all2 by lia. reflexivity.
Qed.

Lemma run_saves_old t l : (forall o, In o l -> exists b, o = OSaveIdx b) -> b_old (run t l) = b_old t.
Proof.
  revert t; induction l as [|o r IH]; intros t H; [reflexivity|].
  unfold run in *. cbn [fold_left]. rewrite IH.
  - destruct (H o (or_introl eq_refl)) as [b ->]. reflexivity.
  - intros o' Ho'. apply H. right; exact Ho'.
Qed.

Lemma firstn_In {A} k (l : list A) x : In x (firstn k l) -> In x l.
Proof.
  revert k; induction l as [|y r IH]; intros [|k] H; cbn in H; try destruct H.
  - left; assumption.
  - right; eapply IH; eassumption.
Qed.

Lemma firstn_map {A B} (f : A -> B) k l : firstn k (map f l) = map f (firstn k l).
Proof. revert k; induction l as [|y r IH]; intros [|k]; cbn; try reflexivity. f_equal; apply IH. Qed.

Lemma prefix_safe c s k :
  wf s -> forall x, In x (view (init_bst s)) -> In x (truth s) ->
  In x (view (run (init_bst s) (firstn k (trace c s)))).
Proof.
  intros Hw x Hv Ht. unfold trace.
  destruct (firstn_app_cases k (nonempty_saves [new1 c s; fst (rw c s)]) (map ORmIdx (removed c s))) as [[k' ->]|[k' ->]].
  - (* only saves so far: all old files still present *)
    unfold view in *. rewrite in_app_iff. left. rewrite run_saves_old; [|].
    + cbn [init_bst b_old b_new concat] in *. cbn [flat app] in Hv. rewrite app_nil_r in Hv. exact Hv.
    + intros o Ho. apply firstn_In in Ho. unfold nonempty_saves in Ho. apply in_flat_map in Ho as [b [_ Ho]].
      destruct b; [destruct Ho|]. destruct Ho as [<-|[]]. eexists; reflexivity.
  - (* all saves done, some removals done: superset of the final view *)
    assert (Hfin : In x (final_view c s)).
    { unfold view in Hv. cbn [init_bst b_old b_new concat flat app] in Hv. rewrite app_nil_r in Hv.
      apply In_view_files in Hv as [f [b [Hf [Hb Hx]]]].
      destruct x as [p e]. apply In_hdr_groups in Ht as [pf [es [Hpf [Hh [Hfst He]]]]]. cbn [fst snd] in *. subst p.
      destruct (needs_read (memidx c s) pf) eqn:Hn.
      - apply In_final_view. right; left. unfold new1. apply In_hdr_groups. exists pf, es.
        split; [apply filter_In; auto | auto].
      - destruct (read_all c) eqn:Hra.
        { rewrite (memidx_read_all c s Hra) in Hn. discriminate. }
        destruct Hw as [Hpn Hin].
        eapply old_entry_survives with (i := i_id f) (b := b); try eassumption.
        + unfold olds; rewrite Hra. apply In_loaded. exists f; auto.
        + cbn [fst]. apply inl_false. intro Hex.
          apply In_excl in Hex as [[pf' [Hpf' Hid]]|[Hp _]].
          * assert (pf' = pf) by (eapply NoDup_map_inj; eauto using to_read_present). subst pf'.
            apply filter_In in Hpf' as [_ Hq]. congruence.
          * assert (present s (p_id pf) = true) by (apply present_spec; exists pf; auto). congruence. }
    rewrite firstn_map, run_app, run_saves, run_removes.
    apply In_final_view in Hfin. unfold view. cbn [b_old b_new init_bst app].
    rewrite in_app_iff, flat_concat_filter. cbn [app concat]. rewrite app_nil_r, flat_app, in_app_iff, In_view_files.
    destruct Hfin as [[f [b [Hf [Hn [Hb Hx]]]]]|H]; [|right; exact H].
    left. exists f, b. split; [|auto]. apply filter_In. split; [exact Hf|].
    apply negb_true_iff, inl_false. intro Hq. apply Hn. eapply firstn_In; exact Hq.
Qed.

(* ---------- oracle ---------- *)
Lemma subset_pe_spec a b : subset_pe a b = true <-> forall x, In x a -> In x b.
Proof.
  unfold subset_pe. rewrite forallb_forall. split; intros H x Hx.
  - apply mem_pe_spec, H, Hx.
  - apply mem_pe_spec, H, Hx.
Qed.

Lemma set_eqb_pe_spec a b : set_eqb_pe a b = true <-> forall x, In x a <-> In x b.
Proof.
  unfold set_eqb_pe. rewrite andb_true_iff, !subset_pe_spec. split.
  - intros [H1 H2] x; split; auto.
  - intros H; split; intros x Hx; apply H; exact Hx.
Qed.

Lemma subset_n_spec a b : subset_n a b = true <-> forall x, In x a -> In x b.
Proof.
  unfold subset_n. rewrite forallb_forall. split; intros H x Hx.
  - apply inl_spec, H, Hx.
  - apply inl_spec, H, Hx.
Qed.

Lemma set_eqb_n_spec a b : set_eqb_n a b = true <-> forall x, In x a <-> In x b.
Proof.
  unfold set_eqb_n. rewrite andb_true_iff, !subset_n_spec. split.
  - intros [H1 H2] x; split; auto.
  - intros H; split; intros x Hx; apply H; exact Hx.
Qed.

Lemma nodup_n_spec l : nodup_n l = true <-> NoDup l.
Proof.
  induction l as [|x r IH]; cbn [nodup_n].
  - split; [constructor | reflexivity].
  - rewrite andb_true_iff, negb_true_iff, inl_false, IH. split.
    + intros [H1 H2]; constructor; assumption.
    + intros H; inversion H; subst; split; assumption.
Qed.

Lemma wfb_spec s : wfb s = true <-> wf s.
Proof. unfold wfb, wf. rewrite andb_true_iff, !nodup_n_spec. tauto. Qed.

Lemma trustedb_sound c s : trustedb c s = true -> trusted c s.
Proof.
  unfold trustedb, trusted. rewrite forallb_forall. intros H pf Hpf Hn.
  specialize (H pf Hpf). rewrite Hn in H. destruct (p_hdr pf) as [es|]; [|discriminate].
  exists es. split; [reflexivity|]. intros e. rewrite set_eqb_pe_spec in H.
  specialize (H (p_id pf, e)). rewrite !in_map_iff in H. split.
  - intros He. destruct H as [H _]. destruct H as [e' [Heq He']].
    + exists e. split; [reflexivity | apply In_pack_entries; exact He].
    + inversion Heq; subst; exact He'.
  - intros He. destruct H as [_ H]. destruct H as [e' [Heq He']].
    + exists e; auto.
    + inversion Heq; subst. apply In_pack_entries; exact He'.
Qed.

Lemma trustedb_complete c s : trusted c s -> trustedb c s = true.
Proof.
  unfold trustedb, trusted. intros H. apply forallb_forall. intros pf Hpf.
  destruct (needs_read (memidx c s) pf) eqn:Hn; [reflexivity|].
  destruct (H pf Hpf Hn) as [es [-> He]]. apply set_eqb_pe_spec. intros [p e]. rewrite !in_map_iff. split.
  - intros [e' [Heq He']]. inversion Heq; subst. exists e; split; [reflexivity|]. apply He, In_pack_entries; exact He'.
  - intros [e' [Heq He']]. inversion Heq; subst. exists e; split; [reflexivity|]. apply In_pack_entries, He; exact He'.
Qed.

Lemma saves_first_spec ops :
  saves_first ops = true <->
  forall a i b r, ops = a ++ ORmIdx i :: r -> ~ In (OSaveIdx b) r.
Proof.
  induction ops as [|o ops IH]; cbn [saves_first].
  - split; [|reflexivity]. intros _ a i b r H. destruct a; discriminate.
  - assert (Hgen : saves_first ops = true ->
                   forall a i b r, o :: ops = (o :: a) ++ ORmIdx i :: r -> ~ In (OSaveIdx b) r).
    { intros Hs a i b r H. inversion H; subst. eapply IH; [exact Hs | reflexivity]. }
    destruct o as [b0|i0|p0|p0].
    + rewrite IH. split.
      * intros H a i b r Heq. destruct a as [|o a]; [discriminate|]. inversion Heq; subst. eapply H; reflexivity.
      * intros H a i b r Heq. subst. apply (H (OSaveIdx b0 :: a) i b r). reflexivity.
    + rewrite andb_true_iff, forallb_forall, IH. split.
      * intros [H1 H2] a i b r Heq. destruct a as [|o a].
        -- inversion Heq; subst. intro Hin. specialize (H1 _ Hin). discriminate.
        -- inversion Heq; subst. eapply H2; reflexivity.
      * intros H. split.
        -- intros o Ho. destruct o; try reflexivity. exfalso. eapply (H [] i0 b ops); [reflexivity | exact Ho].
        -- intros a i b r Heq. subst. apply (H (ORmIdx i0 :: a) i b r). reflexivity.
    + rewrite IH. split.
      * intros H a i b r Heq. destruct a as [|o a]; [discriminate|]. inversion Heq; subst. eapply H; reflexivity.
      * intros H a i b r Heq. subst. apply (H (OSavePack p0 :: a) i b r). reflexivity.
    + rewrite IH. split.
      * intros H a i b r Heq. destruct a as [|o a]; [discriminate|]. inversion Heq; subst. eapply H; reflexivity.
      * intros H a i b r Heq. subst. apply (H (ORmPack p0 :: a) i b r). reflexivity.
Qed.

(* what a true oracle means *)
Definition C33_holds (c : case) : Prop :=
  (wf (c_st c) -> trusted (c_cfg c) (c_st c) ->
     (forall x, In x (c_final c) <-> In x (truth (c_st c))) /\ c_undecodable c = 0) /\
  (forall o, In o (c_ops c) -> is_pack_op o = false) /\
  (forall p, In p (c_packs_after c) <-> In p (map p_id (s_packs (c_st c)))) /\
  (forall a i b r, c_ops c = a ++ ORmIdx i :: r -> ~ In (OSaveIdx b) r).

Lemma check_C33_iff c : check_C33 c = true <-> C33_holds c.
Proof.
  unfold check_C33, C33_holds, clause_exact, clause_packs, clause_order.
  rewrite !andb_true_iff, negb_true_iff, set_eqb_n_spec, saves_first_spec.
  split.
  - intros [[H1 [H2 H3]] H4]. split; [|split; [|split; [exact H3 | exact H4]]].
    + intros Hw Ht. apply wfb_spec in Hw. apply trustedb_complete in Ht. rewrite Hw, Ht in H1. cbn [andb] in H1.
      apply andb_true_iff in H1 as [Ha Hb]. split; [apply set_eqb_pe_spec; exact Ha | apply N.eqb_eq; exact Hb].
    + intros o Ho. destruct (is_pack_op o) eqn:Hp; [|reflexivity].
      assert (existsb is_pack_op (c_ops c) = true) by (apply existsb_exists; exists o; auto). congruence.
  - intros [H1 [H2 [H3 H4]]]. split; [split; [|split; [|exact H3]] | exact H4].
    + destruct (wfb (c_st c) && trustedb (c_cfg c) (c_st c)) eqn:Hc; [|reflexivity].
      apply andb_true_iff in Hc as [Hw Ht]. apply wfb_spec in Hw. apply trustedb_sound in Ht.
      destruct (H1 Hw Ht) as [Ha Hb]. apply andb_true_iff. split; [apply set_eqb_pe_spec; exact Ha | apply N.eqb_eq; exact Hb].
    + destruct (existsb is_pack_op (c_ops c)) eqn:He; [|reflexivity].
      apply existsb_exists in He as [o [Ho Hp]]. rewrite (H2 o Ho) in Hp. discriminate.
Qed.

(* the model's own run satisfies the oracle *)
Definition model_case (c : cfg) (s : st) : case :=
  mk c s false (trace c s) (b_packs (run (init_bst s) (trace c s))) (final_view c s) 0.

Lemma saves_first_rm l : saves_first (map ORmIdx l) = true.
Proof.
  induction l as [|i r IH]; [reflexivity|]. cbn [map saves_first]. rewrite IH, andb_true_r.
  apply forallb_forall. intros o Ho. apply in_map_iff in Ho as [j [<- _]]. reflexivity.
Qed.

Lemma saves_first_trace c s : saves_first (trace c s) = true.
Proof.
  unfold trace. generalize [new1 c s; fst (rw c s)] as l. intros l.
  induction l as [|b r IH]; [apply saves_first_rm|].
  unfold nonempty_saves in *. cbn [flat_map]. destruct b; [exact IH|]. cbn [app saves_first]. exact IH.
Qed.

Lemma model_satisfies_oracle c s : check_C33 (model_case c s) = true.
Proof.
  apply check_C33_iff. unfold C33_holds, model_case.
  cbn [c_st c_cfg c_final c_undecodable c_ops c_packs_after].
  destruct (no_pack_touched c s) as [Hp Ho]. split; [|split; [exact Ho | split]].
  - intros Hw Ht. split; [apply repair_exact; assumption | reflexivity].
  - intros p. rewrite Hp. tauto.
  - apply saves_first_spec, saves_first_trace.
Qed.

(* ---------- non-vacuity ---------- *)
Definition ex_e1 := E 0 1 0 100 0.
Definition ex_e2 := E 1 2 100 50 80.
Definition ex_e3 := E 0 3 0 70 0.
Definition ex_e4 := E 0 4 0 60 0.
Definition ex_st : st :=
  St [ P 1 264 (Some [ex_e1; ex_e2]);       (* indexed correctly (twice, in two index files) *)
       P 2 143 (Some [ex_e3]);               (* not indexed, readable *)
       P 3 90 None;                           (* truncated: indexed with a size that no longer matches *)
       P 5 264 (Some [ex_e1; ex_e2]) ]       (* entries split over two index files *)
     [ I 10 (Some [(1, [ex_e1; ex_e2]); (3, [ex_e4]); (4, [ex_e3]); (5, [ex_e1])]);   (* pack 4 is missing *)
       I 11 None;                                                         (* undecodable index *)
       I 12 (Some [(1, [ex_e2; ex_e1]); (5, [ex_e2])]) ].

Example c33_nonvacuous :
  wfb ex_st = true
  /\ trustedb (Cfg false 50000 65000) ex_st = true
  /\ map p_id (to_read (Cfg false 50000 65000) ex_st) = [2; 3]
  /\ set_eqb_pe (final_view (Cfg false 50000 65000) ex_st) (truth ex_st) = true
  /\ set_eqb_pe (final_view (Cfg true 50000 65000) ex_st) (truth ex_st) = true
  /\ set_eqb_n (removed (Cfg false 50000 65000) ex_st) [10; 11; 12] = true
  /\ length (final_view (Cfg false 50000 65000) ex_st) = 5%nat
  /\ length (truth ex_st) = 5%nat
  /\ check_case (model_case (Cfg false 50000 65000) ex_st) = 0%nat
  /\ check_case (model_case (Cfg false 2 4) ex_st) = 0%nat
  /\ removed (Cfg false 2 4) ex_st = [11; 10; 12]
  (* a "full" clean index is kept, its later duplicate is rewritten away *)
  /\ removed (Cfg false 2 4) (St [P 1 264 (Some [ex_e1; ex_e2])] [I 10 (Some [(1, [ex_e1; ex_e2])]); I 12 (Some [(1, [ex_e2; ex_e1])])]) = [12]
  /\ final_view (Cfg false 2 4) (St [P 1 264 (Some [ex_e1; ex_e2])] [I 10 (Some [(1, [ex_e1; ex_e2])]); I 12 (Some [(1, [ex_e2; ex_e1])])]) = [(1, ex_e1); (1, ex_e2)]
  /\ In (1, ex_e1) (view (init_bst ex_st)) /\ In (1, ex_e1) (truth ex_st).
Proof. vm_compute. repeat split; auto. Qed.
