From Restic Require Import Base.Prelude Model.C15m.
Import C15m.
Open Scope N_scope.

Lemma find_remove {A} (l : list (id * A)) k k' :
  find (remove l k) k' = if k' =? k then None else find l k'.
Proof.
  induction l as [|[q v] r IH]; cbn [remove filter find].
  - destruct (k' =? k); reflexivity.
  - cbn [fst]. destruct (q =? k) eqn:Hq; cbn [negb].
    + apply N.eqb_eq in Hq. subst q. fold (remove r k). rewrite IH.
      destruct (k' =? k) eqn:Hk; [reflexivity|]. rewrite N.eqb_sym, Hk. reflexivity.
    + cbn [find]. fold (remove r k). rewrite IH. destruct (q =? k') eqn:Hqk; [|reflexivity].
      apply N.eqb_eq in Hqk. subst q. rewrite Hq. reflexivity.
Qed.

Lemma In_remove {A} (l : list (id * A)) k x : In x (remove l k) -> In x l.
Proof. unfold remove. intros H. apply filter_In in H. tauto. Qed.

Lemma inl_spec p l : inl p l = true <-> In p l.
Proof.
  unfold inl. rewrite existsb_exists. split.
  - intros [y [Hy He]]. apply N.eqb_eq in He; subst; exact Hy.
  - intros H; exists p; split; [exact H | apply N.eqb_refl].
Qed.

Lemma in_index_mono idx idx' h :
  (forall f, In f idx -> In f idx') -> in_index idx h = true -> in_index idx' h = true.
Proof.
  unfold in_index. rewrite !existsb_exists. intros Hs [f [Hf Hb]]. exists f; split; [apply Hs; exact Hf | exact Hb].
Qed.

Lemma snaps_ok_sub idx snaps snaps' :
  (forall s, In s snaps' -> In s snaps) -> snaps_ok idx snaps = true -> snaps_ok idx snaps' = true.
Proof.
  unfold snaps_ok. rewrite !forallb_forall. intros Hs H s Hin. apply H, Hs, Hin.
Qed.

Lemma body_ok_find packs packs' b :
  (forall e, In e b -> find packs' (fst e) = find packs (fst e)) -> body_ok packs b = true -> body_ok packs' b = true.
Proof.
  unfold body_ok. rewrite !forallb_forall. intros Hs H e He. cbn beta. pose proof (Hs e He) as Hq. pose proof (H e He) as Hr. cbn beta in Hr. unfold id in *. rewrite Hq. exact Hr.
Qed.

Lemma body_ok_present packs b e : body_ok packs b = true -> In e b -> find packs (fst e) <> None.
Proof.
  unfold body_ok. rewrite forallb_forall. intros H He. specialize (H e He). cbn beta in H.
  intro Hn. unfold id in *. rewrite Hn in H. discriminate H.
Qed.

Lemma inv_split R : inv R = true <->
  (forall f, In f (s_idx R) -> body_ok (s_packs R) (snd f) = true) /\ snaps_ok (s_idx R) (s_snaps R) = true.
Proof. unfold inv. rewrite andb_true_iff, forallb_forall. tauto. Qed.

(* every disciplined step preserves the invariant *)
Lemma inv_step R o : inv R = true -> ok_step R o = true -> inv (apply R o) = true.
Proof.
  intros Hi Ho. apply inv_split in Hi as [HA HB]. destruct o as [p bs|i b|s n|p|i|s|]; cbn [apply ok_step] in *.
  - destruct (find (s_packs R) p) eqn:Hf; [apply inv_split; auto|].
    apply inv_split. cbn [s_packs s_idx s_snaps]. split; [|exact HB].
    intros f Hfin. eapply body_ok_find; [|apply HA; exact Hfin].
    intros e He. cbn [find]. destruct (p =? fst e) eqn:Hp; [|reflexivity].
    apply N.eqb_eq in Hp. subst p. exfalso. eapply body_ok_present; [apply HA; exact Hfin | exact He | exact Hf].
  - apply andb_true_iff in Ho as [H1 H2]. apply inv_split. cbn [s_packs s_idx s_snaps]. split; [|exact H2].
    intros f [<-|Hfin]; [exact H1|]. apply HA. eapply In_remove; exact Hfin.
  - apply inv_split. cbn [s_packs s_idx s_snaps]. split; [exact HA|].
    unfold snaps_ok. cbn [forallb snd]. rewrite Ho. cbn [andb].
    eapply snaps_ok_sub; [|exact HB]. intros x Hx. eapply In_remove; exact Hx.
  - apply inv_split. cbn [s_packs s_idx s_snaps]. split; [|exact HB].
    intros f Hfin. eapply body_ok_find; [|apply HA; exact Hfin].
    intros e He. rewrite find_remove. destruct (fst e =? p) eqn:Hp; [|reflexivity].
    apply N.eqb_eq in Hp. apply negb_true_iff in Ho. exfalso.
    assert (In p (indexed_packs (s_idx R))).
    { unfold indexed_packs. apply in_flat_map. exists f. split; [exact Hfin|]. rewrite <- Hp. apply in_map; exact He. }
    apply inl_spec in H. congruence.
  - apply inv_split. cbn [s_packs s_idx s_snaps]. split; [|exact Ho].
    intros f Hfin. apply HA. eapply In_remove; exact Hfin.
  - apply inv_split. cbn [s_packs s_idx s_snaps]. split; [exact HA|].
    eapply snaps_ok_sub; [|exact HB]. intros x Hx. eapply In_remove; exact Hx.
  - apply inv_split; auto.
Qed.

Lemma inv_trace ops : forall R, inv R = true -> ok_trace R ops = true -> inv (run R ops) = true.
Proof.
  induction ops as [|o r IH]; intros R Hi Ho; [exact Hi|].
  cbn [ok_trace] in Ho. apply andb_true_iff in Ho as [H1 H2]. unfold run. cbn [fold_left].
  apply IH; [apply inv_step; assumption | exact H2].
Qed.

Lemma ok_trace_prefix ops : forall R k, ok_trace R ops = true -> ok_trace R (firstn k ops) = true.
Proof.
  induction ops as [|o r IH]; intros R k Ho; [destruct k; reflexivity|].
  destruct k; [reflexivity|]. cbn [firstn ok_trace] in *. apply andb_true_iff in Ho as [H1 H2].
  rewrite H1. cbn [andb]. apply IH; exact H2.
Qed.

Lemma flat_map_nil {A B} (f : A -> list B) l : (forall x, In x l -> f x = []) -> flat_map f l = [].
Proof.
  induction l as [|a l IH]; intros H; [reflexivity|]. cbn [flat_map].
  rewrite (H a (or_introl eq_refl)). cbn [app]. apply IH. intros x Hx; apply H; right; exact Hx.
Qed.

Lemma filter_flat_map_nil {A B} (p : B -> bool) (f : A -> list B) l :
  (forall x y, In x l -> In y (f x) -> p y = false) -> filter p (flat_map f l) = [].
Proof.
  induction l as [|a l IH]; intros H; [reflexivity|]. cbn [flat_map]. rewrite filter_app, IH.
  - rewrite app_nil_r. assert (Hf : forall y, In y (f a) -> p y = false) by (intros y Hy; eapply H; [left; reflexivity | exact Hy]).
    induction (f a) as [|y ys IHy]; [reflexivity|]. cbn [filter]. rewrite (Hf y (or_introl eq_refl)).
    apply IHy. intros z Hz; apply Hf; right; exact Hz.
  - intros x y Hx Hy. eapply H; [right; exact Hx | exact Hy].
Qed.

(* under the invariant check --read-data has nothing but hints to report *)
Lemma inv_clean R : inv R = true -> errors R = [].
Proof.
  intros Hi. apply inv_split in Hi as [HA HB]. unfold errors, findings. rewrite !filter_app.
  assert (E1 : flat_map (fun f => flat_map (fun e => match find (s_packs R) (fst e) with
             | None => [FMissing (fst e)] | Some bs => if ids_eqb bs (snd e) then [] else [FPackData (fst e)] end) (snd f)) (s_idx R) = []).
  { apply flat_map_nil. intros f Hf. apply flat_map_nil. intros e He.
    specialize (HA f Hf). unfold body_ok in HA. rewrite forallb_forall in HA. specialize (HA e He).
    destruct (find (s_packs R) (fst e)); [rewrite HA; reflexivity | discriminate]. }
  rewrite E1. cbn [filter app].
  rewrite filter_flat_map_nil, filter_flat_map_nil; cbn [app].
  - apply filter_flat_map_nil. intros s f Hs Hf. apply in_flat_map in Hf as [h [Hh Hf]].
    unfold snaps_ok in HB. rewrite forallb_forall in HB. specialize (HB s Hs). rewrite forallb_forall in HB.
    rewrite (HB h Hh) in Hf. destruct Hf.
  - intros pk f _ Hf. destruct (inl (fst pk) (indexed_packs (s_idx R))); [destruct Hf|]. destruct Hf as [<-|[]]. reflexivity.
  - intros p f _ Hf. destruct (Nat.ltb 1 (count_in p (indexed_packs (s_idx R)))); [|destruct Hf]. destruct Hf as [<-|[]]. reflexivity.
Qed.

Lemma inv_empty : inv empty = true.
Proof. reflexivity. Qed.

(* any history that follows the discipline, cut at any point, leaves a repository on which check
   reports no error (only hints) *)
Lemma produced_is_clean ops k : ok_trace empty ops = true -> errors (run empty (firstn k ops)) = [].
Proof.
  intros Ho. apply inv_clean, inv_trace; [apply inv_empty | apply ok_trace_prefix; exact Ho].
Qed.

Lemma hints_only ops f :
  ok_trace empty ops = true -> In f (findings (run empty ops)) -> is_error f = false.
Proof.
  intros Ho Hf. pose proof (produced_is_clean ops (length ops) Ho) as He. rewrite firstn_all in He.
  destruct (is_error f) eqn:Hq; [|reflexivity].
  assert (In f (errors (run empty ops))) by (apply filter_In; auto). rewrite He in H. destruct H.
Qed.

Lemma check_C15_iff c : check_C15 c = true <-> c_check_failed c = false.
Proof. unfold check_C15. destruct (c_check_failed c); cbn; split; auto; discriminate. Qed.

(* the model agrees with a clean verdict whenever the recorded history follows the discipline *)
Lemma model_predicts_clean c :
  ok_trace empty (c_ops c) = true -> errors (run empty (c_ops c)) = [].
Proof.
  intros H. pose proof (produced_is_clean (c_ops c) (length (c_ops c)) H) as He. rewrite firstn_all in He. exact He.
Qed.

(* non-vacuity: a backup, a second backup, a prune-like rewrite (new index, old indexes removed, pack
   removed), a forget; and a trace that breaks the discipline *)
Definition ex_ops : list op :=
  [ SavePack 1 [10; 11]; SavePack 2 [20]; SaveIdx 100 [(1, [10; 11]); (2, [20])]; SaveSnap 200 [20; 10; 11];
    SavePack 3 [12]; SavePack 4 [21]; SaveIdx 101 [(3, [12]); (4, [21])]; SaveSnap 201 [21; 10; 12];
    RmSnap 200;
    SavePack 5 [10; 12]; SaveIdx 102 [(5, [10; 12]); (4, [21])]; RmIdx 100; RmIdx 101; RmPack 1; RmPack 3; RmPack 2 ].
Example c15_nonvacuous :
  ok_trace empty ex_ops = true
  /\ errors (run empty ex_ops) = []
  /\ findings (run empty (firstn 12 ex_ops)) = [FDup 4; FOrphan 2; FOrphan 1]
  /\ findings (run empty (firstn 13 ex_ops)) = [FOrphan 3; FOrphan 2; FOrphan 1]
  /\ ok_trace empty [SavePack 1 [10]; SaveSnap 200 [10]] = false                  (* snapshot before index *)
  /\ ok_trace empty [SavePack 1 [10]; SaveIdx 100 [(1, [10])]; SaveSnap 200 [10]; RmPack 1] = false
  /\ errors (run empty [SavePack 1 [10]; SaveIdx 100 [(1, [10])]; SaveSnap 200 [10]; RmPack 1]) = [FMissing 1]
  /\ check_case (mk ex_ops [5; 4] [102] [201] false) = 0%nat
  /\ check_case (mk ex_ops [5; 4] [102] [201] true) = 2%nat
  /\ check_case (mk [SavePack 1 [10]; SaveIdx 100 [(1, [10])]; SaveSnap 200 [10]; RmPack 1] [] [100] [200] true) = 2%nat
  /\ check_case (mk [SavePack 1 [10]; SaveIdx 100 [(1, [10])]; SaveSnap 200 [10]; RmPack 1] [] [100] [200] false) = 1%nat.
Proof. vm_compute. repeat split. Qed.

(* ---------- a command template: backup ---------- *)
(* what a (possibly interrupted) backup sends to the backend: its new packs, one index file that lists
   exactly these packs, then the snapshot *)
Definition backup_ops (ps : list (id * list id)) (i s : id) (needs : list id) : list op :=
  map (fun p => SavePack (fst p) (snd p)) ps ++ [SaveIdx i ps; SaveSnap s needs].

Lemma ids_eqb_refl l : ids_eqb l l = true.
Proof. unfold ids_eqb. apply list_eqb_spec; [intros; apply N.eqb_eq | reflexivity]. Qed.

Lemma remove_fresh {A} (l : list (id * A)) k : find l k = None -> remove l k = l.
Proof.
  induction l as [|[q v] r IH]; [reflexivity|]. cbn [find remove filter fst].
  destruct (q =? k) eqn:Hq; [discriminate|]. intros H. cbn [negb]. fold (remove r k). rewrite IH by exact H. reflexivity.
Qed.

Lemma save_packs_trace ps : forall R,
  NoDup (map fst ps) -> (forall p, In p ps -> find (s_packs R) (fst p) = None) ->
  ok_trace R (map (fun p => SavePack (fst p) (snd p)) ps) = true /\
  s_idx (run R (map (fun p => SavePack (fst p) (snd p)) ps)) = s_idx R /\
  s_snaps (run R (map (fun p => SavePack (fst p) (snd p)) ps)) = s_snaps R /\
  (forall p, In p ps -> find (s_packs (run R (map (fun p => SavePack (fst p) (snd p)) ps))) (fst p) = Some (snd p)).
Proof.
  induction ps as [|p r IH]; intros R Hnd Hfresh.
  - repeat split. intros p [].
  - cbn [map] in Hnd. inversion Hnd as [|? ? Hni Hnd']; subst.
    cbn [map ok_trace ok_step]. unfold run. cbn [fold_left apply].
    rewrite (Hfresh p (or_introl eq_refl)). cbn [andb].
    set (R' := St ((fst p, snd p) :: s_packs R) (s_idx R) (s_snaps R)).
    assert (Hf' : forall q, In q r -> find (s_packs R') (fst q) = None).
    { intros q Hq. cbn [R' s_packs find]. destruct (fst p =? fst q) eqn:He.
      - apply N.eqb_eq in He. exfalso. apply Hni. rewrite He. apply in_map; exact Hq.
      - apply Hfresh. right; exact Hq. }
    destruct (IH R' Hnd' Hf') as [H1 [H2 [H3 H4]]]. fold (run R' (map (fun p0 => SavePack (fst p0) (snd p0)) r)).
    split; [exact H1|]. split; [exact H2|]. split; [exact H3|].
    intros q [<-|Hq]; [|apply H4; exact Hq].
    (* the head pack stays findable: later saves only add other ids *)
    assert (G : forall l (S0 : st), find (s_packs S0) (fst p) = Some (snd p) ->
              find (s_packs (run S0 (map (fun p0 => SavePack (fst p0) (snd p0)) l))) (fst p) = Some (snd p)).
    { induction l as [|a l IHl]; intros S0 H0; [exact H0|]. unfold run. cbn [map fold_left apply].
      apply IHl. destruct (find (s_packs S0) (fst a)) eqn:Ha; [exact H0|]. cbn [s_packs find].
      destruct (fst a =? fst p) eqn:He; [|exact H0]. apply N.eqb_eq in He. rewrite He in Ha. congruence. }
    apply G. unfold R'. cbn [s_packs find]. rewrite N.eqb_refl. reflexivity.
Qed.

(* a backup that writes fresh packs, an index file listing exactly them and a snapshot that reaches
   only blobs indexed before or by this index file follows the discipline - so by
   C15_produced_is_clean it (and every crashed prefix of it) keeps check clean *)
Lemma backup_follows_discipline R ps i s needs :
  inv R = true ->
  NoDup (map fst ps) -> (forall p, In p ps -> find (s_packs R) (fst p) = None) ->
  find (s_idx R) i = None ->
  (forall h, In h needs -> in_index (s_idx R) h = true \/ in_body ps h = true) ->
  ok_trace R (backup_ops ps i s needs) = true.
Proof.
  intros Hi Hnd Hfresh Hix Hneeds. unfold backup_ops.
  destruct (save_packs_trace ps R Hnd Hfresh) as [H1 [H2 [H3 H4]]].
  set (R1 := run R (map (fun p => SavePack (fst p) (snd p)) ps)) in *.
  assert (Happ : forall l1 l2 S0, ok_trace S0 (l1 ++ l2) = ok_trace S0 l1 && ok_trace (run S0 l1) l2).
  { induction l1 as [|o l1 IHl]; intros l2 S0; [reflexivity|]. cbn [app ok_trace]. unfold run. cbn [fold_left].
    rewrite IHl, andb_assoc. reflexivity. }
  rewrite Happ, H1. cbn [andb]. fold R1. cbn [ok_trace ok_step apply].
  apply inv_split in Hi as [HA HB].
  assert (Hb : body_ok (s_packs R1) ps = true).
  { unfold body_ok. apply forallb_forall. intros e He. cbn beta. pose proof (H4 e He) as Hq. unfold id in *. rewrite Hq. apply ids_eqb_refl. }
  rewrite Hb, H2, H3, (remove_fresh (s_idx R) i Hix). cbn [andb].
  assert (Hs : snaps_ok ((i, ps) :: s_idx R) (s_snaps R) = true).
  { unfold snaps_ok in *. rewrite forallb_forall in *. intros sn Hsn. specialize (HB sn Hsn).
    rewrite forallb_forall in *. intros h Hh. eapply in_index_mono; [|apply HB; exact Hh]. intros f Hf; right; exact Hf. }
  apply andb_true_iff. split; [exact Hs|]. cbn [s_idx]. rewrite andb_true_r.
  apply forallb_forall. intros h Hh. unfold in_index. cbn [existsb snd].
  destruct (Hneeds h Hh) as [Hq|Hq]; [|rewrite Hq; reflexivity].
  unfold in_index in Hq. rewrite Hq. apply orb_true_r.
Qed.

Example backup_template_nonvacuous :
  ok_trace (run empty [SavePack 1 [10]; SaveIdx 100 [(1, [10])]; SaveSnap 200 [10]])
           (backup_ops [(2, [11; 12]); (3, [20])] 101 201 [20; 10; 12]) = true.
Proof. vm_compute. reflexivity. Qed.
