(* C53 proofs: diffTree reports exactly the lines the property demands (for pairs without a
   directory <-> non-directory change), and the precise counterexample otherwise. *)
From Restic Require Import Base.Prelude Model.C53m.
Import C53m.

Lemma ids_eqb_spec a b : ids_eqb a b = true <-> a = b.
Proof.
  revert b; induction a as [|x a IH]; intros [|y b]; cbn [ids_eqb]; split; intro H;
    try reflexivity; try discriminate.
  - apply andb_true_iff in H as [H1 H2]. apply N.eqb_eq in H1. apply IH in H2. subst; reflexivity.
  - inversion H; subst. apply andb_true_iff; split; [apply N.eqb_refl | apply IH; reflexivity].
Qed.

Section node_ind'.
  Variable P : node -> Prop.
  Hypothesis H : forall n t c m s, Forall P s -> P (Node n t c m s).
  Fixpoint node_ind' (x : node) : P x :=
    match x with
    | Node n t c m s =>
        H n t c m s ((fix go (l : list node) : Forall P l :=
                        match l with
                        | [] => Forall_nil _
                        | y :: l' => Forall_cons _ (node_ind' y) (go l')
                        end) s)
    end.
End node_ind'.

Lemma node_eqb_sound a : forall b, node_eqb a b = true -> a = b.
Proof.
  induction a as [n t c m s IH] using node_ind'. intros [n2 t2 c2 m2 s2] H. cbn [node_eqb] in H.
  repeat (apply andb_true_iff in H; destruct H as [H ?]).
  apply N.eqb_eq in H. apply N.eqb_eq in H3. apply ids_eqb_spec in H2. apply N.eqb_eq in H1. subst.
  f_equal. clear -IH H0. revert s2 H0. induction IH as [|x s Hx _ IHs]; intros [|y s2] H0; try discriminate; [reflexivity|].
  apply andb_true_iff in H0. destruct H0 as [H1 H2]. f_equal; [apply Hx; exact H1 | apply IHs; exact H2].
Qed.

Lemma node_eqb_refl a : node_eqb a a = true.
Proof.
  induction a as [n t c m s IH] using node_ind'. cbn [node_eqb].
  rewrite !N.eqb_refl. rewrite (proj2 (ids_eqb_spec c c) eq_refl). cbn [andb].
  induction IH as [|x s Hx _ IHs]; [reflexivity|]. rewrite Hx, IHs. reflexivity.
Qed.

Lemma tree_eqb_sound x y : tree_eqb x y = true -> x = y.
Proof. unfold tree_eqb. intros H. apply node_eqb_sound in H. inversion H; reflexivity. Qed.

Lemma tree_eqb_refl x : tree_eqb x x = true.
Proof. apply node_eqb_refl. Qed.

Lemma node_change_same sm a : node_change sm a a = None.
Proof.
  unfold node_change. rewrite N.eqb_refl, node_eqb_refl, (proj2 (ids_eqb_spec _ _) eq_refl).
  cbn [negb]. rewrite !andb_false_r. reflexivity.
Qed.

Lemma classify_same sm o : classify sm o o = None.
Proof. destruct o as [a|]; cbn [classify]; [rewrite node_change_same|]; reflexivity. Qed.

(* ---- boolean list-of-lines helpers ---- *)
Lemma md_eqb_spec a b : md_eqb a b = true <-> a = b.
Proof.
  destruct a as [| |t m q u], b as [| |t' m' q' u']; cbn [md_eqb]; split; intro H;
    try reflexivity; try discriminate.
  - repeat (apply andb_true_iff in H; destruct H as [H ?]).
    apply eqb_prop in H. apply eqb_prop in H0. apply eqb_prop in H1. apply eqb_prop in H2. subst; reflexivity.
  - inversion H; subst. rewrite !eqb_reflx. reflexivity.
Qed.

Lemma line_eqb_spec a b : line_eqb a b = true <-> a = b.
Proof.
  destruct a as [[m p] s], b as [[m' p'] s']. cbn [line_eqb]. split; intro H.
  - repeat (apply andb_true_iff in H; destruct H as [H ?]).
    apply md_eqb_spec in H. apply ids_eqb_spec in H1. apply eqb_prop in H0. subst; reflexivity.
  - inversion H; subst. rewrite (proj2 (md_eqb_spec _ _) eq_refl), (proj2 (ids_eqb_spec _ _) eq_refl), eqb_reflx.
    reflexivity.
Qed.

Lemma lmem_In x l : lmem x l = true <-> In x l.
Proof.
  unfold lmem. rewrite existsb_exists. split.
  - intros [y [Hy He]]. apply line_eqb_spec in He. subst; exact Hy.
  - intros H. exists x. split; [exact H | apply line_eqb_spec; reflexivity].
Qed.

Lemma linclb_spec a b : linclb a b = true <-> incl a b.
Proof.
  induction a as [|x a IH]; cbn [linclb].
  - split; [intros _ y [] | reflexivity].
  - rewrite andb_true_iff, lmem_In, IH. split.
    + intros [H1 H2] y [<-|Hy]; [exact H1 | apply H2; exact Hy].
    + intros H. split; [apply H; left; reflexivity | intros y Hy; apply H; right; exact Hy].
Qed.

Lemma lset_eqb_spec a b : lset_eqb a b = true <-> (forall x, In x a <-> In x b).
Proof.
  unfold lset_eqb. rewrite andb_true_iff, !linclb_spec. unfold incl. split.
  - intros [H1 H2] x; split; auto.
  - intros H; split; intros x Hx; apply H; exact Hx.
Qed.

Lemma lnodupb_spec a : lnodupb a = true <-> NoDup a.
Proof.
  induction a as [|x a IH]; cbn [lnodupb].
  - split; [constructor | reflexivity].
  - rewrite andb_true_iff, negb_true_iff, IH. split.
    + intros [H1 H2]; constructor; [|exact H2]. intro Hi. apply lmem_In in Hi. congruence.
    + intros H; inversion H; subst; split; [|assumption].
      destruct (lmem x a) eqn:E; [|reflexivity]. apply lmem_In in E. contradiction.
Qed.

(* ---- sorted name lists and lookup ---- *)
Definition lt_all (x : N) (l : tree) : Prop := forall n, In n l -> (x < nname n)%N.

Lemma sortedb_cons a r : sortedb (a :: r) = true -> sortedb r = true /\ lt_all (nname a) r.
Proof.
  revert a; induction r as [|b r IH]; intros a H.
  - split; [reflexivity | intros n []].
  - cbn [sortedb] in H. apply andb_true_iff in H. destruct H as [H1 H2]. apply N.ltb_lt in H1.
    split; [exact H2|]. destruct (IH b H2) as [_ Hb].
    intros n [<-|Hn]; [exact H1 | specialize (Hb n Hn); lia].
Qed.

Lemma lookup_some x l n : lookup x l = Some n -> In n l /\ nname n = x.
Proof.
  induction l as [|m l IH]; cbn [lookup]; [discriminate|].
  destruct (N.eqb (nname m) x) eqn:E.
  - intros H; inversion H; subst. apply N.eqb_eq in E. split; [left; reflexivity | exact E].
  - intros H. destruct (IH H) as [H1 H2]. split; [right; exact H1 | exact H2].
Qed.

Lemma lookup_none_lt x y l : lt_all y l -> (x <= y)%N -> lookup x l = None.
Proof.
  intros Hl Hxy. destruct (lookup x l) as [n|] eqn:E; [|reflexivity].
  apply lookup_some in E. destruct E as [H1 H2]. specialize (Hl n H1). lia.
Qed.

Lemma lookup_in_sorted l : sortedb l = true -> forall n, In n l -> lookup (nname n) l = Some n.
Proof.
  induction l as [|a l IH]; intros Hs n Hn; [destruct Hn|].
  apply sortedb_cons in Hs. destruct Hs as [Hs Hlt]. cbn [lookup]. destruct Hn as [<-|Hn].
  - rewrite N.eqb_refl. reflexivity.
  - specialize (Hlt n Hn). destruct (N.eqb_spec (nname a) (nname n)); [lia|]. apply IH; assumption.
Qed.

Lemma lookup_cons_ne a l x : nname a <> x -> lookup x (a :: l) = lookup x l.
Proof. intros H. cbn [lookup]. destruct (N.eqb_spec (nname a) x); [contradiction | reflexivity]. Qed.

Lemma lookup_cons_eq a l : lookup (nname a) (a :: l) = Some a.
Proof. cbn [lookup]. rewrite N.eqb_refl. reflexivity. Qed.

Definition dual_rel (l1 l2 : tree) (o1 o2 : option node) : Prop :=
  exists x, o1 = lookup x l1 /\ o2 = lookup x l2 /\ (o1 <> None \/ o2 <> None).

Lemma dual_nil_r l1 : sortedb l1 = true -> forall o1 o2,
  In (o1, o2) (dual l1 []) <-> dual_rel l1 [] o1 o2.
Proof.
  induction l1 as [|a l1 IH]; intros Hs o1 o2.
  - cbn. split; [intros [] | intros [x [-> [-> [H|H]]]]; apply H; reflexivity].
  - apply sortedb_cons in Hs. destruct Hs as [Hs Hlt].
    change (dual (a :: l1) []) with ((Some a, @None node) :: dual l1 []). cbn [In]. rewrite (IH Hs). split.
    + intros [H|[x [H1 [H2 H3]]]].
      * inversion H; subst. exists (nname a). rewrite lookup_cons_eq. repeat split. left; discriminate.
      * exists x. assert (Hx : (nname a < x)%N).
        { destruct H3 as [H3|H3]; [|subst o2; exfalso; apply H3; reflexivity].
          destruct (lookup x l1) as [n|] eqn:E; [|subst; exfalso; apply H3; reflexivity].
          pose proof (lookup_some _ _ _ E) as [E1 E2]. specialize (Hlt n E1). lia. }
        rewrite lookup_cons_ne by lia. repeat split; assumption.
    + intros [x [H1 [H2 H3]]]. destruct (N.eqb_spec (nname a) x) as [<-|Hne].
      * left. rewrite lookup_cons_eq in H1. subst. reflexivity.
      * right. rewrite lookup_cons_ne in H1 by exact Hne. exists x. repeat split; assumption.
Qed.

Lemma dual_nil_l l2 : sortedb l2 = true -> forall o1 o2,
  In (o1, o2) (dual [] l2) <-> dual_rel [] l2 o1 o2.
Proof.
  induction l2 as [|b l2 IH]; intros Hs o1 o2.
  - cbn. split; [intros [] | intros [x [-> [-> [H|H]]]]; apply H; reflexivity].
  - apply sortedb_cons in Hs. destruct Hs as [Hs Hlt].
    change (dual [] (b :: l2)) with ((@None node, Some b) :: dual [] l2). cbn [In]. rewrite (IH Hs). split.
    + intros [H|[x [H1 [H2 H3]]]].
      * inversion H; subst. exists (nname b). rewrite lookup_cons_eq. repeat split. right; discriminate.
      * exists x. assert (Hx : (nname b < x)%N).
        { destruct H3 as [H3|H3]; [subst o1; exfalso; apply H3; reflexivity|].
          destruct (lookup x l2) as [n|] eqn:E; [|subst; exfalso; apply H3; reflexivity].
          pose proof (lookup_some _ _ _ E) as [E1 E2]. specialize (Hlt n E1). lia. }
        rewrite lookup_cons_ne by lia. repeat split; assumption.
    + intros [x [H1 [H2 H3]]]. destruct (N.eqb_spec (nname b) x) as [<-|Hne].
      * left. rewrite lookup_cons_eq in H2. subst. reflexivity.
      * right. rewrite lookup_cons_ne in H2 by exact Hne. exists x. repeat split; assumption.
Qed.

Lemma dual_cons_cons a l1 b l2 :
  dual (a :: l1) (b :: l2) =
  match N.compare (nname a) (nname b) with
  | Lt => (Some a, None) :: dual l1 (b :: l2)
  | Gt => (None, Some b) :: dual (a :: l1) l2
  | Eq => (Some a, Some b) :: dual l1 l2
  end.
Proof. reflexivity. Qed.

Lemma lt_all_lookup x l : lt_all x l -> forall y, (y <= x)%N -> lookup y l = None.
Proof. intros H y Hy. eapply lookup_none_lt; eassumption. Qed.

Lemma dual_spec l1 : forall l2, sortedb l1 = true -> sortedb l2 = true -> forall o1 o2,
  In (o1, o2) (dual l1 l2) <-> dual_rel l1 l2 o1 o2.
Proof.
  induction l1 as [|a l1 IH1]; [intros l2 _ Hs2; apply dual_nil_l; exact Hs2|].
  induction l2 as [|b l2 IH2]; intros Hs1 Hs2 o1 o2; [apply dual_nil_r; exact Hs1|].
  pose proof (sortedb_cons _ _ Hs1) as [Hs1' Hlt1]. pose proof (sortedb_cons _ _ Hs2) as [Hs2' Hlt2].
  rewrite dual_cons_cons. destruct (N.compare_spec (nname a) (nname b)) as [Heq|Hlt|Hgt]; cbn [In].
  - (* same name *)
    rewrite (IH1 l2 Hs1' Hs2'). split.
    + intros [H|[x [H1 [H2 H3]]]].
      * inversion H; subst. exists (nname a). rewrite lookup_cons_eq, Heq, lookup_cons_eq.
        repeat split. left; discriminate.
      * exists x. assert (Hx : (nname a < x)%N).
        { destruct H3 as [H3|H3].
          - destruct (lookup x l1) as [n|] eqn:E; [|subst; exfalso; apply H3; reflexivity]. pose proof (lookup_some _ _ _ E) as [E1 E2]. specialize (Hlt1 n E1). lia.
          - destruct (lookup x l2) as [n|] eqn:E; [|subst; exfalso; apply H3; reflexivity]. pose proof (lookup_some _ _ _ E) as [E1 E2]. specialize (Hlt2 n E1). lia. }
        rewrite !lookup_cons_ne by lia. repeat split; assumption.
    + intros [x [H1 [H2 H3]]]. destruct (N.eqb_spec (nname a) x) as [<-|Hne].
      * left. rewrite lookup_cons_eq in H1. rewrite Heq, lookup_cons_eq in H2. subst; reflexivity.
      * right. rewrite lookup_cons_ne in H1 by exact Hne. rewrite lookup_cons_ne in H2 by lia.
        exists x. repeat split; assumption.
  - (* a first *)
    rewrite (IH1 (b :: l2) Hs1' Hs2). split.
    + intros [H|[x [H1 [H2 H3]]]].
      * inversion H; subst. exists (nname a). rewrite lookup_cons_eq. split; [reflexivity|].
        split; [|left; discriminate]. symmetry. rewrite lookup_cons_ne by lia.
        eapply lookup_none_lt; [exact Hlt2 | lia].
      * exists x. assert (Hx : (nname a < x)%N).
        { destruct H3 as [H3|H3].
          - destruct (lookup x l1) as [n|] eqn:E; [|subst; exfalso; apply H3; reflexivity]. pose proof (lookup_some _ _ _ E) as [E1 E2]. specialize (Hlt1 n E1). lia.
          - destruct (lookup x (b :: l2)) as [n|] eqn:E; [|subst; exfalso; apply H3; reflexivity]. pose proof (lookup_some _ _ _ E) as [[<-|E1] E2]; [lia|]. specialize (Hlt2 n E1). lia. }
        rewrite lookup_cons_ne by lia. repeat split; assumption.
    + intros [x [H1 [H2 H3]]]. destruct (N.eqb_spec (nname a) x) as [<-|Hne].
      * left. rewrite lookup_cons_eq in H1. rewrite lookup_cons_ne in H2 by lia.
        rewrite (lookup_none_lt (nname a) (nname b) l2 Hlt2) in H2 by lia. subst; reflexivity.
      * right. rewrite lookup_cons_ne in H1 by exact Hne. exists x. repeat split; assumption.
  - (* b first *)
    rewrite (IH2 Hs1 Hs2'). split.
    + intros [H|[x [H1 [H2 H3]]]].
      * inversion H; subst. exists (nname b). rewrite lookup_cons_eq. split; [|split; [reflexivity | right; discriminate]].
        symmetry. rewrite lookup_cons_ne by lia. eapply lookup_none_lt; [exact Hlt1 | lia].
      * exists x. assert (Hx : (nname b < x)%N).
        { destruct H3 as [H3|H3].
          - destruct (lookup x (a :: l1)) as [n|] eqn:E; [|subst; exfalso; apply H3; reflexivity]. pose proof (lookup_some _ _ _ E) as [[<-|E1] E2]; [lia|]. specialize (Hlt1 n E1). lia.
          - destruct (lookup x l2) as [n|] eqn:E; [|subst; exfalso; apply H3; reflexivity]. pose proof (lookup_some _ _ _ E) as [E1 E2]. specialize (Hlt2 n E1). lia. }
        rewrite (lookup_cons_ne b) by lia. repeat split; assumption.
    + intros [x [H1 [H2 H3]]]. destruct (N.eqb_spec (nname b) x) as [<-|Hne].
      * left. rewrite lookup_cons_eq in H2. rewrite lookup_cons_ne in H1 by lia.
        rewrite (lookup_none_lt (nname b) (nname a) l1 Hlt1) in H1 by lia. subst; reflexivity.
      * right. rewrite lookup_cons_ne in H2 by exact Hne. exists x. repeat split; assumption.
Qed.

(* ---- paths ---- *)
Lemma find_nil p : find [] p = None.
Proof. destruct p; reflexivity. Qed.

Lemma find_one t x : find t [x] = lookup x t.
Proof. cbn [find]. destruct (lookup x t); reflexivity. Qed.

Lemma find_deep t x y q :
  find t (x :: y :: q) =
  match lookup x t with None => None | Some n => if isdir n then find (nsub n) (y :: q) else None end.
Proof. reflexivity. Qed.

Lemma find_lookup_none t x q : lookup x t = None -> find t (x :: q) = None.
Proof. intros H. cbn [find]. rewrite H. reflexivity. Qed.

Lemma wfb_S d t : wfb (S d) t = true ->
  sortedb t = true /\ forall n, In n t -> wfb d (nsub n) = true.
Proof. cbn [wfb]. rewrite andb_true_iff, forallb_forall. tauto. Qed.

Lemma wfb_0 t : wfb 0 t = true -> t = [].
Proof. destruct t; [reflexivity | discriminate]. Qed.

Lemma print_dir_spec d : forall mode pre t, wfb d t = true -> forall m p s,
  In (m, p, s) (print_dir d mode pre t) <->
  m = mode /\ exists q n, p = pre ++ q /\ find t q = Some n /\ s = isdir n.
Proof.
  induction d as [|d IH]; intros mode pre t Hw m p s.
  - apply wfb_0 in Hw. subst t. cbn [print_dir]. split; [intros [] |].
    intros [_ [q [n [_ [Hf _]]]]]. rewrite find_nil in Hf. discriminate.
  - apply wfb_S in Hw. destruct Hw as [Hs Hsub]. cbn [print_dir]. rewrite in_flat_map. split.
    + intros [n [Hn [Hl|Hl]]].
      * inversion Hl; subst. split; [reflexivity|]. exists [nname n], n. split; [reflexivity|].
        split; [|reflexivity]. rewrite find_one. apply lookup_in_sorted; assumption.
      * destruct (isdir n) eqn:Ed; [|destruct Hl].
        apply (IH mode _ _ (Hsub n Hn)) in Hl. destruct Hl as [-> [q [n' [Hp [Hf Hs']]]]].
        split; [reflexivity|]. exists (nname n :: q), n'.
        split; [rewrite Hp, <- app_assoc; reflexivity|]. split; [|exact Hs'].
        destruct q as [|y q]; [discriminate|].
        rewrite find_deep, (lookup_in_sorted t Hs n Hn), Ed. exact Hf.
    + intros [-> [q [n' [Hp [Hf Hs']]]]]. destruct q as [|x q]; [discriminate|].
      destruct (lookup x t) as [n|] eqn:El; [|rewrite (find_lookup_none _ _ _ El) in Hf; discriminate].
      pose proof (lookup_some _ _ _ El) as [Hn Hx]. exists n. split; [exact Hn|]. destruct q as [|y q].
      * rewrite find_one, El in Hf. inversion Hf; subst. left. reflexivity.
      * right. rewrite find_deep, El in Hf. destruct (isdir n) eqn:Ed; [|discriminate].
        apply (IH mode _ _ (Hsub n Hn)). split; [reflexivity|]. exists (y :: q), n'.
        split; [subst; rewrite <- app_assoc; reflexivity|]. split; assumption.
Qed.

Definition SpecLine (sm : bool) (t1 t2 : tree) (pre : list N) (l : line) : Prop :=
  match l with (m, p, s) =>
    exists q, p = pre ++ q /\ classify sm (find t1 q) (find t2 q) = Some (m, s) end.

Lemma diff_spec sm d : forall pre t1 t2, wfb d t1 = true -> wfb d t2 = true ->
  forall l, In l (diff_tree sm d pre t1 t2) <-> SpecLine sm t1 t2 pre l.
Proof.
  induction d as [|d IH]; intros pre t1 t2 Hw1 Hw2 [[m p] s]; unfold SpecLine.
  - apply wfb_0 in Hw1. apply wfb_0 in Hw2. subst. cbn [diff_tree]. split; [intros []|].
    intros [q [_ Hc]]. rewrite !find_nil in Hc. discriminate.
  - apply wfb_S in Hw1. destruct Hw1 as [Hs1 Hsub1]. apply wfb_S in Hw2. destruct Hw2 as [Hs2 Hsub2].
    cbn [diff_tree]. rewrite in_flat_map. split.
    + intros [[o1 o2] [Hpr Hl]]. apply (dual_spec t1 t2 Hs1 Hs2) in Hpr.
      destruct Hpr as [x [Ho1 [Ho2 Hnn]]]. destruct o1 as [a|], o2 as [b|].
      * symmetry in Ho1, Ho2. pose proof (lookup_some _ _ _ Ho1) as [Ha Hxa].
        pose proof (lookup_some _ _ _ Ho2) as [Hb Hxb]. apply in_app_or in Hl. destruct Hl as [Hl|Hl].
        -- destruct (node_change sm a b) as [m0|] eqn:Enc; [|destruct Hl].
           destruct Hl as [Hl|[]]. inversion Hl; subst. exists [nname a]. split; [reflexivity|].
           rewrite !find_one, Ho1, Ho2. cbn [classify]. rewrite Enc. reflexivity.
        -- destruct (isdir a) eqn:Ea, (isdir b) eqn:Eb; cbn [andb] in Hl.
           ++ destruct (tree_eqb (nsub a) (nsub b)) eqn:Et; [destruct Hl|].
              apply (IH _ _ _ (Hsub1 a Ha) (Hsub2 b Hb)) in Hl.
              destruct Hl as [q' [Hp Hc]]. exists (x :: q').
              split; [subst; rewrite <- app_assoc; reflexivity|].
              destruct q' as [|y q']; [cbn in Hc; discriminate|].
              rewrite !find_deep, Ho1, Ho2, Ea, Eb. exact Hc.
           ++ apply (print_dir_spec _ _ _ _ (Hsub1 a Ha)) in Hl.
              destruct Hl as [-> [q' [n' [Hp [Hf Hs']]]]]. exists (x :: q').
              split; [subst; rewrite <- app_assoc; reflexivity|].
              destruct q' as [|y q']; [discriminate|].
              rewrite !find_deep, Ho1, Ho2, Ea, Eb, Hf. subst s. reflexivity.
           ++ apply (print_dir_spec _ _ _ _ (Hsub2 b Hb)) in Hl.
              destruct Hl as [-> [q' [n' [Hp [Hf Hs']]]]]. exists (x :: q').
              split; [subst; rewrite <- app_assoc; reflexivity|].
              destruct q' as [|y q']; [discriminate|].
              rewrite !find_deep, Ho1, Ho2, Ea, Eb, Hf. subst s. reflexivity.
           ++ destruct Hl.
      * symmetry in Ho1, Ho2. pose proof (lookup_some _ _ _ Ho1) as [Ha Hxa]. destruct Hl as [Hl|Hl].
        -- inversion Hl; subst. exists [nname a]. split; [reflexivity|].
           rewrite !find_one, Ho1, Ho2. reflexivity.
        -- destruct (isdir a) eqn:Ea; [|destruct Hl].
           apply (print_dir_spec _ _ _ _ (Hsub1 a Ha)) in Hl.
           destruct Hl as [-> [q' [n' [Hp [Hf Hs']]]]]. exists (x :: q').
           split; [subst; rewrite <- app_assoc; reflexivity|].
           rewrite (find_lookup_none t2 x q' Ho2).
           destruct q' as [|y q']; [discriminate|]. rewrite find_deep, Ho1, Ea, Hf. subst s. reflexivity.
      * symmetry in Ho1, Ho2. pose proof (lookup_some _ _ _ Ho2) as [Hb Hxb]. destruct Hl as [Hl|Hl].
        -- inversion Hl; subst. exists [nname b]. split; [reflexivity|].
           rewrite !find_one, Ho1, Ho2. reflexivity.
        -- destruct (isdir b) eqn:Eb; [|destruct Hl].
           apply (print_dir_spec _ _ _ _ (Hsub2 b Hb)) in Hl.
           destruct Hl as [-> [q' [n' [Hp [Hf Hs']]]]]. exists (x :: q').
           split; [subst; rewrite <- app_assoc; reflexivity|].
           rewrite (find_lookup_none t1 x q' Ho1).
           destruct q' as [|y q']; [discriminate|]. rewrite find_deep, Ho2, Eb, Hf. subst s. reflexivity.
      * destruct Hl.
    + intros [q [Hp Hc]]. destruct q as [|x q']; [cbn in Hc; discriminate|].
      exists (lookup x t1, lookup x t2).
      destruct (lookup x t1) as [a|] eqn:E1, (lookup x t2) as [b|] eqn:E2.
      * split; [apply (dual_spec t1 t2 Hs1 Hs2); exists x; rewrite E1, E2; repeat split; left; discriminate|].
        pose proof (lookup_some _ _ _ E1) as [Ha Hxa]. pose proof (lookup_some _ _ _ E2) as [Hb Hxb].
        apply in_or_app. destruct q' as [|y q''].
        -- left. rewrite !find_one, E1, E2 in Hc. cbn [classify] in Hc.
           destruct (node_change sm a b) as [m0|] eqn:Enc; [|discriminate]. inversion Hc; subst. left; reflexivity.
        -- right. rewrite !find_deep, E1, E2 in Hc.
           destruct (isdir a) eqn:Ea, (isdir b) eqn:Eb; cbn [andb]; [| | |discriminate].
           ++ destruct (tree_eqb (nsub a) (nsub b)) eqn:Et.
              { apply tree_eqb_sound in Et. rewrite Et, classify_same in Hc. discriminate. }
              apply (IH _ _ _ (Hsub1 a Ha) (Hsub2 b Hb)).
              exists (y :: q''). split; [subst; rewrite <- app_assoc; reflexivity | exact Hc].
           ++ destruct (find (nsub a) (y :: q'')) as [n'|] eqn:Ef; [|discriminate]. inversion Hc; subst.
              apply (print_dir_spec _ _ _ _ (Hsub1 a Ha)). split; [reflexivity|].
              exists (y :: q''), n'. split; [rewrite <- app_assoc; reflexivity|]. split; [exact Ef | reflexivity].
           ++ destruct (find (nsub b) (y :: q'')) as [n'|] eqn:Ef; [|discriminate]. inversion Hc; subst.
              apply (print_dir_spec _ _ _ _ (Hsub2 b Hb)). split; [reflexivity|].
              exists (y :: q''), n'. split; [rewrite <- app_assoc; reflexivity|]. split; [exact Ef | reflexivity].
      * split; [apply (dual_spec t1 t2 Hs1 Hs2); exists x; rewrite E1, E2; repeat split; left; discriminate|].
        pose proof (lookup_some _ _ _ E1) as [Ha Hxa]. rewrite (find_lookup_none t2 x q' E2) in Hc.
        destruct q' as [|y q''].
        -- rewrite find_one, E1 in Hc. inversion Hc; subst. left; reflexivity.
        -- right. rewrite find_deep, E1 in Hc. destruct (isdir a) eqn:Ea; [|discriminate].
           destruct (find (nsub a) (y :: q'')) as [n'|] eqn:Ef; [|discriminate]. inversion Hc; subst.
           apply (print_dir_spec _ _ _ _ (Hsub1 a Ha)). split; [reflexivity|].
           exists (y :: q''), n'. split; [rewrite <- app_assoc; reflexivity|]. split; [exact Ef | reflexivity].
      * split; [apply (dual_spec t1 t2 Hs1 Hs2); exists x; rewrite E1, E2; repeat split; right; discriminate|].
        pose proof (lookup_some _ _ _ E2) as [Hb Hxb]. rewrite (find_lookup_none t1 x q' E1) in Hc.
        destruct q' as [|y q''].
        -- rewrite find_one, E2 in Hc. inversion Hc; subst. left; reflexivity.
        -- right. rewrite find_deep, E2 in Hc. destruct (isdir b) eqn:Eb; [|discriminate].
           destruct (find (nsub b) (y :: q'')) as [n'|] eqn:Ef; [|discriminate]. inversion Hc; subst.
           apply (print_dir_spec _ _ _ _ (Hsub2 b Hb)). split; [reflexivity|].
           exists (y :: q''), n'. split; [rewrite <- app_assoc; reflexivity|]. split; [exact Ef | reflexivity].
      * rewrite (find_lookup_none t1 x q' E1), (find_lookup_none t2 x q' E2) in Hc. discriminate.
Qed.

(* ---- the property, per line ---- *)
Definition Demanded (sm : bool) (t1 t2 : tree) (l : line) : Prop :=
  match l with (m, p, s) => classify sm (find t1 p) (find t2 p) = Some (m, s) end.

Lemma SpecLine_nil sm t1 t2 l : SpecLine sm t1 t2 [] l <-> Demanded sm t1 t2 l.
Proof.
  destruct l as [[m p] s]. unfold SpecLine, Demanded. cbn [app]. split.
  - intros [q [-> H]]. exact H.
  - intros H. exists p. split; [reflexivity | exact H].
Qed.

Lemma diff_exact sm d t1 t2 : wfb d t1 = true -> wfb d t2 = true ->
  forall l, In l (diff_tree sm d [] t1 t2) <-> Demanded sm t1 t2 l.
Proof. intros H1 H2 l. rewrite (diff_spec sm d [] t1 t2 H1 H2). apply SpecLine_nil. Qed.

Lemma paths_complete d t p n : wfb d t = true -> find t p = Some n -> In p (paths d [] t).
Proof.
  intros Hw Hf. unfold paths. apply in_map_iff. exists (Plus, p, isdir n). split; [reflexivity|].
  apply (print_dir_spec d Plus [] t Hw). split; [reflexivity|]. exists p, n. repeat split. exact Hf.
Qed.

Lemma expected_spec sm d t1 t2 : wfb d t1 = true -> wfb d t2 = true ->
  forall l, In l (expected sm d t1 t2) <-> Demanded sm t1 t2 l.
Proof.
  intros H1 H2 [[m p] s]. unfold expected, Demanded. rewrite in_flat_map. split.
  - intros [p0 [_ Hl]]. destruct (classify sm (find t1 p0) (find t2 p0)) as [[m0 s0]|] eqn:E; [|destruct Hl].
    destruct Hl as [Hl|[]]. inversion Hl; subst. exact E.
  - intros Hc. exists p. split.
    + apply in_or_app. destruct (find t1 p) as [a|] eqn:E1.
      * left. eapply paths_complete; eassumption.
      * destruct (find t2 p) as [b|] eqn:E2; [|discriminate]. right. eapply paths_complete; eassumption.
    + rewrite Hc. left; reflexivity.
Qed.

Lemma check_C53_iff c : wfb (c_fuel c) (c_t1 c) = true -> wfb (c_fuel c) (c_t2 c) = true ->
  (check_C53 c = true <->
   (forall l, In l (o_lines c) <-> Demanded (c_meta c) (c_t1 c) (c_t2 c) l) /\ NoDup (o_lines c)).
Proof.
  intros H1 H2. unfold check_C53. rewrite andb_true_iff, lset_eqb_spec, lnodupb_spec. split.
  - intros [Ha Hb]. split; [|exact Hb]. intros l. rewrite Ha. apply expected_spec; assumption.
  - intros [Ha Hb]. split; [|exact Hb]. intros l. rewrite Ha. symmetry. apply expected_spec; assumption.
Qed.

(* the model's output always satisfies the oracle's set clause *)
Lemma model_meets_oracle sm d t1 t2 : wfb d t1 = true -> wfb d t2 = true ->
  lset_eqb (diff_tree sm d [] t1 t2) (expected sm d t1 t2) = true.
Proof.
  intros H1 H2. apply lset_eqb_spec. intros l.
  rewrite (diff_exact sm d t1 t2 H1 H2), (expected_spec sm d t1 t2 H1 H2). reflexivity.
Qed.

(* ---- the clauses of the property ---- *)
Lemma node_change_mod sm a b m : node_change sm a b = Some m -> exists t mm q u, m = Mod t mm q u.
Proof.
  unfold node_change. destruct (_ || _ || _); [|discriminate]. intros H; inversion H. eauto.
Qed.

Lemma added_exact sm d t1 t2 : wfb d t1 = true -> wfb d t2 = true -> forall p s,
  In (Plus, p, s) (diff_tree sm d [] t1 t2) <->
  find t1 p = None /\ exists n, find t2 p = Some n /\ s = isdir n.
Proof.
  intros H1 H2 p s. rewrite (diff_exact sm d t1 t2 H1 H2). unfold Demanded.
  destruct (find t1 p) as [a|], (find t2 p) as [b|]; cbn [classify]; split.
  - destruct (node_change sm a b) as [m|] eqn:E; [|discriminate]. destruct (node_change_mod _ _ _ _ E) as [? [? [? [? ->]]]]. discriminate.
  - intros [H _]; discriminate.
  - discriminate.
  - intros [H _]; discriminate.
  - intros H; inversion H; subst. split; [reflexivity|]. exists b; split; reflexivity.
  - intros [_ [n [Hn ->]]]. inversion Hn; reflexivity.
  - discriminate.
  - intros [_ [n [Hn _]]]; discriminate.
Qed.

Lemma removed_exact sm d t1 t2 : wfb d t1 = true -> wfb d t2 = true -> forall p s,
  In (Minus, p, s) (diff_tree sm d [] t1 t2) <->
  find t2 p = None /\ exists n, find t1 p = Some n /\ s = isdir n.
Proof.
  intros H1 H2 p s. rewrite (diff_exact sm d t1 t2 H1 H2). unfold Demanded.
  destruct (find t1 p) as [a|], (find t2 p) as [b|]; cbn [classify]; split.
  - destruct (node_change sm a b) as [m|] eqn:E; [|discriminate]. destruct (node_change_mod _ _ _ _ E) as [? [? [? [? ->]]]]. discriminate.
  - intros [H _]; discriminate.
  - intros H; inversion H; subst. split; [reflexivity|]. exists a; split; reflexivity.
  - intros [_ [n [Hn ->]]]. inversion Hn; reflexivity.
  - discriminate.
  - intros [H _]; discriminate.
  - discriminate.
  - intros [_ [n [Hn _]]]; discriminate.
Qed.

Lemma type_change_exact sm d t1 t2 : wfb d t1 = true -> wfb d t2 = true ->
  forall p a b, find t1 p = Some a -> find t2 p = Some b ->
  ((exists m q u s, In (Mod true m q u, p, s) (diff_tree sm d [] t1 t2)) <-> nty a <> nty b).
Proof.
  intros H1 H2 p a b Ea Eb. split.
  - intros [m [q [u [s Hin]]]]. apply (diff_exact sm d t1 t2 H1 H2) in Hin. unfold Demanded in Hin.
    rewrite Ea, Eb in Hin. cbn [classify] in Hin. unfold node_change in Hin.
    destruct (_ || _ || _); [|discriminate]. injection Hin as Ht _ _ _ _.
    apply negb_true_iff in Ht. apply N.eqb_neq in Ht. exact Ht.
  - intros Hne. apply N.eqb_neq in Hne.
    assert (Hc : exists m q u, node_change sm a b = Some (Mod true m q u)).
    { unfold node_change. rewrite Hne. cbn [negb orb]. eauto. }
    destruct Hc as [m [q [u Hc]]]. exists m, q, u, (isdir b).
    apply (diff_exact sm d t1 t2 H1 H2). unfold Demanded. rewrite Ea, Eb. cbn [classify]. rewrite Hc. reflexivity.
Qed.

Lemma content_change_exact sm d t1 t2 : wfb d t1 = true -> wfb d t2 = true ->
  forall p a b, find t1 p = Some a -> find t2 p = Some b ->
  ((exists t q u s, In (Mod t true q u, p, s) (diff_tree sm d [] t1 t2)) <->
   isfile a = true /\ isfile b = true /\ ncontent a <> ncontent b).
Proof.
  intros H1 H2 p a b Ea Eb. split.
  - intros [t [q [u [s Hin]]]]. apply (diff_exact sm d t1 t2 H1 H2) in Hin. unfold Demanded in Hin.
    rewrite Ea, Eb in Hin. cbn [classify] in Hin. unfold node_change in Hin.
    destruct (_ || _ || _); [|discriminate]. injection Hin as _ Hm _ _ _.
    apply andb_true_iff in Hm. destruct Hm as [Hm Hc]. apply andb_true_iff in Hm. destruct Hm as [Hfa Hfb].
    repeat split; [exact Hfa | exact Hfb |]. intro Heq. apply negb_true_iff in Hc.
    rewrite (proj2 (ids_eqb_spec _ _) Heq) in Hc. discriminate.
  - intros [Hfa [Hfb Hne]].
    assert (Hc' : ids_eqb (ncontent a) (ncontent b) = false).
    { destruct (ids_eqb (ncontent a) (ncontent b)) eqn:E; [|reflexivity]. apply ids_eqb_spec in E. contradiction. }
    assert (Hc : exists t q u, node_change sm a b = Some (Mod t true q u)).
    { unfold node_change. rewrite Hfa, Hfb, Hc'. cbn [negb andb]. rewrite orb_true_r. cbn [orb]. eauto. }
    destruct Hc as [t [q [u Hc]]]. exists t, q, u, (isdir b).
    apply (diff_exact sm d t1 t2 H1 H2). unfold Demanded. rewrite Ea, Eb. cbn [classify]. rewrite Hc. reflexivity.
Qed.

Lemma dual_diag t : dual t t = map (fun a => (Some a, Some a)) t.
Proof.
  induction t as [|a t IH]; [reflexivity|]. rewrite dual_cons_cons, N.compare_refl. cbn [map]. rewrite IH. reflexivity.
Qed.

Lemma identical_trees_silent sm d pre t : diff_tree sm d pre t t = [].
Proof.
  destruct d as [|d]; [reflexivity|]. cbn [diff_tree]. rewrite dual_diag.
  induction t as [|a t IH]; [reflexivity|]. cbn [map flat_map]. rewrite IH, node_change_same, tree_eqb_refl.
  destruct (isdir a); reflexivity.
Qed.

Lemma find_app t p : forall r, r <> [] ->
  find t (p ++ r) = match p with
                    | [] => find t r
                    | _ => match find t p with
                           | Some n => if isdir n then find (nsub n) r else None
                           | None => None
                           end
                    end.
Proof.
  revert t; induction p as [|x p IH]; intros t r Hr; [reflexivity|].
  destruct p as [|y p].
  - cbn [app]. destruct r as [|z r]; [contradiction|]. rewrite find_deep, find_one. reflexivity.
  - change ((x :: y :: p) ++ r) with (x :: (y :: p) ++ r). change ((y :: p) ++ r) with (y :: (p ++ r)).
    rewrite !find_deep. destruct (lookup x t) as [n|]; [|reflexivity].
    destruct (isdir n); [|reflexivity]. change (y :: p ++ r) with ((y :: p) ++ r). rewrite IH by exact Hr. reflexivity.
Qed.

(* nothing is listed at or below a path whose node (including its subtree) is identical *)
Lemma identical_subtree_silent sm d t1 t2 : wfb d t1 = true -> wfb d t2 = true ->
  forall p n, find t1 p = Some n -> find t2 p = Some n ->
  forall r m s, ~ In (m, p ++ r, s) (diff_tree sm d [] t1 t2).
Proof.
  intros H1 H2 p n E1 E2 r m s Hin. apply (diff_exact sm d t1 t2 H1 H2) in Hin. unfold Demanded in Hin.
  destruct r as [|z r].
  - rewrite app_nil_r, E1, E2, classify_same in Hin. discriminate.
  - rewrite !find_app in Hin by discriminate. destruct p as [|x p]; [discriminate|].
    rewrite E1, E2, classify_same in Hin. discriminate.
Qed.

(* former F-C53 witness (fixed in /repo 8fb513213): a directory replaced by a file; the paths
   below it exist only in snapshot 1 and are now listed as removed *)
Definition ex_t1 : tree := [Node 1 1 [] 0 [Node 1 0 [5%N] 0 []; Node 2 1 [] 0 [Node 7 0 [] 0 []]]].
Definition ex_t2 : tree := [Node 1 0 [7%N] 0 []].

Example dir_to_file_children_listed :
  wfb 4 ex_t1 = true /\ wfb 4 ex_t2 = true /\
  diff_tree false 4 [] ex_t1 ex_t2 =
    [(Mod true false false false, [1%N], false); (Minus, [1%N; 1%N], false);
     (Minus, [1%N; 2%N], true); (Minus, [1%N; 2%N; 7%N], false)] /\
  diff_tree false 4 [] ex_t2 ex_t1 =
    [(Mod true false false false, [1%N], true); (Plus, [1%N; 1%N], false);
     (Plus, [1%N; 2%N], true); (Plus, [1%N; 2%N; 7%N], false)].
Proof. vm_compute. repeat split. Qed.

(* non-vacuity: an addition, a removal below a removed dir, a deep content change, a type change,
   a metadata-only change (only with --metadata), an untouched shared subtree *)
Definition nv_t1 : tree :=
  [Node 1 1 [] 0 [Node 1 0 [1%N] 0 []; Node 2 1 [] 0 [Node 1 0 [2%N] 0 []]];
   Node 2 0 [4%N] 0 []; Node 3 2 [] 0 []; Node 4 1 [] 0 [Node 1 0 [3%N] 0 []]; Node 6 1 [] 0 [Node 1 0 [] 0 []]].
Definition nv_t2 : tree :=
  [Node 1 1 [] 0 [Node 1 0 [1%N] 0 []; Node 2 1 [] 0 [Node 1 0 [9%N] 0 []]];
   Node 2 0 [4%N] 1 []; Node 3 0 [] 0 []; Node 5 0 [] 0 []; Node 6 1 [] 0 [Node 1 0 [] 0 []]].

Example c53_nonvacuous :
  wfb 4 nv_t1 = true /\ wfb 4 nv_t2 = true /\
  diff_tree true 4 [] nv_t1 nv_t2 =
    [(Mod false false false true, [1%N], true);
     (Mod false false false true, [1%N; 2%N], true);
     (Mod false true true false, [1%N; 2%N; 1%N], false);
     (Mod false false false true, [2%N], false);
     (Mod true false false true, [3%N], false);
     (Minus, [4%N], true); (Minus, [4%N; 1%N], false);
     (Plus, [5%N], false)] /\
  check_case (mk true 4 nv_t1 nv_t2 (diff_tree true 4 [] nv_t1 nv_t2)) = 0%nat /\
  check_case (mk false 4 ex_t1 ex_t2 (diff_tree false 4 [] ex_t1 ex_t2)) = 0%nat /\
  (* the pre-fix output (only the T line) is rejected by the oracle *)
  check_case (mk false 4 ex_t1 ex_t2 [(Mod true false false false, [1%N], false)]) = 2%nat.
Proof. vm_compute. repeat split. Qed.

Lemma kind_change_children_listed sm d t1 t2 : wfb d t1 = true -> wfb d t2 = true ->
  forall x a b r n, lookup x t1 = Some a -> lookup x t2 = Some b -> isdir a = true -> isdir b = false ->
  find (nsub a) r = Some n -> In (Minus, x :: r, isdir n) (diff_tree sm d [] t1 t2).
Proof.
  intros H1 H2 x a b r n E1 E2 Ea Eb Hf. apply (diff_exact sm d t1 t2 H1 H2). unfold Demanded.
  destruct r as [|y r]; [discriminate|]. rewrite !find_deep, E1, E2, Ea, Eb, Hf. reflexivity.
Qed.
