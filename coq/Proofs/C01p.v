From Restic Require Import Base.Prelude Model.C01m.
Import C01m.

Lemma key_eqb_eq x y : key_eqb x y = true <-> x = y.
Proof.
  unfold key_eqb. destruct x, y; cbn [fst snd]. rewrite andb_true_iff, !N.eqb_eq.
  split; [intros [-> ->]; reflexivity | intros E; inversion E; auto].
Qed.

(* ================= Part A ================= *)
Section Laws.
  Variable H : bytes -> N.
  Variable chunk : bytes -> list bytes.
  Variable cfg : Type.
  Variable enc : cfg -> bytes -> bytes.
  Variable dec : bytes -> option bytes.
  Variable layout : cfg -> list (N * bytes) -> list (list (N * bytes)).

  (* the chunker splits, decoding inverts encoding, packing neither loses nor invents blobs *)
  Hypothesis chunk_concat : forall d, concat (chunk d) = d.
  Hypothesis dec_enc : forall c b, dec (enc c b) = Some b.
  Hypothesis layout_in : forall c l e, In e (concat (layout c l)) <-> In e l.

  Variable fs : tree.
  (* no hash collision among the blobs of this backup *)
  Hypothesis H_inj : forall a b, In a (blobs chunk fs) -> In b (blobs chunk fs) -> H a = H b -> a = b.

  Section OneCfg.
  Variable c : cfg.
  Let st := store H chunk cfg enc layout c fs.

  Lemma load_ok b : In b (blobs chunk fs) -> load dec st (H b) = Some b.
  Proof.
    intros Hb. unfold load.
    destruct (find (fun e => N.eqb (fst e) (H b)) (concat st)) as [e|] eqn:E.
    - apply find_some in E as [Hin Heq]. unfold st, store in Hin. apply layout_in in Hin.
      apply in_map_iff in Hin as [b' [He Hb']]. subst e. cbn [fst snd] in *.
      apply N.eqb_eq in Heq. rewrite (H_inj b' b Hb' Hb Heq). apply dec_enc.
    - exfalso. assert (Hin : In (H b, enc c b) (concat st)).
      { unfold st, store. apply layout_in. apply in_map_iff. exists b. split; [reflexivity | exact Hb]. }
      pose proof (find_none _ _ E _ Hin) as Hn. cbn [fst] in Hn. rewrite N.eqb_refl in Hn. discriminate.
  Qed.

  Lemma load_all_ok l : incl l (blobs chunk fs) -> load_all dec st (map H l) = Some (concat l).
  Proof.
    induction l as [|b r IH]; intros Hi; cbn [map load_all concat]; [reflexivity|].
    rewrite (load_ok b (Hi b (or_introl eq_refl))).
    rewrite IH; [reflexivity|]. intros x Hx; apply Hi; right; exact Hx.
  Qed.

  Lemma fetch_ok d : incl (chunk d) (blobs chunk fs) ->
    fetch dec st (map H (chunk d)) (N.of_nat (length d)) = Some d.
  Proof.
    intros Hi. unfold fetch. rewrite (load_all_ok _ Hi), chunk_concat, N.eqb_refl. reflexivity.
  Qed.

  (* well-formed source: only directories have children; all locations of one multiply linked
     inode show the same content [D key] *)
  Fixpoint shape_ok (t : tree) : Prop :=
    match t with
    | Nil => True
    | Node _ p _ sub rest =>
        (match p with PDir => True | _ => sub = Nil end) /\ shape_ok sub /\ shape_ok rest
    end.

  Variable D : key -> bytes.
  Variable DS : key -> payload.

  Fixpoint links_ok (t : tree) : Prop :=
    match t with
    | Nil => True
    | Node _ p _ sub rest =>
        (match p with
         | PFile d i dv n => (1 < n)%N -> d = D (i, dv)
         | PSymlink _ i dv n => (1 < n)%N -> p = DS (i, dv)
         | PDev _ _ i dv n => (1 < n)%N -> p = DS (i, dv)
         | _ => True
         end)
        /\ links_ok sub /\ links_ok rest
    end.

  Definition inv (ix : list (key * bytes)) : Prop := forall k d, lookup k ix = Some d -> d = D k.
  Definition inv2 (sx : list (key * payload)) : Prop := forall k p, lookup k sx = Some p -> p = DS k.

  Lemma place_ok links k own sx :
    inv2 sx -> ((1 < links)%N -> own = DS k) ->
    exists sx', place links k own sx = (own, sx') /\ inv2 sx'.
  Proof.
    intros Hv Ho. unfold place. destruct (N.ltb 1 links) eqn:El.
    - apply N.ltb_lt in El. specialize (Ho El).
      destruct (lookup k sx) as [p|] eqn:Ek.
      + rewrite (Hv _ _ Ek), <- Ho. exists sx. split; [reflexivity | exact Hv].
      + exists ((k, own) :: sx). split; [reflexivity|].
        intros k1 p1. cbn [lookup]. destruct (key_eqb k1 k) eqn:Eq.
        * apply key_eqb_eq in Eq. subst k1. intros E1; inversion E1; subst p1. exact Ho.
        * apply Hv.
    - exists sx. split; [reflexivity | exact Hv].
  Qed.

  Lemma restore_snap t : forall ix sx,
    shape_ok t -> links_ok t -> incl (blobs chunk t) (blobs chunk fs) -> inv ix -> inv2 sx ->
    exists ix' sx', restore dec st (snap H chunk t) ix sx = Some (t, ix', sx') /\ inv ix' /\ inv2 sx'.
  Proof.
    induction t as [|n p m sub IHs rest IHr]; intros ix sx Hs Hl Hi Hv Hw.
    - exists ix, sx. split; [reflexivity | split; assumption].
    - cbn [shape_ok] in Hs. destruct Hs as [Hp [Hss Hsr]].
      cbn [links_ok] in Hl. destruct Hl as [Hlp [Hls Hlr]].
      cbn [blobs] in Hi. apply incl_app_inv in Hi as [Hi1 Hi2]. apply incl_app_inv in Hi2 as [Hi2 Hi3].
      destruct p as [d i dv nl| |tg i dv nl|ch dn i dv nl|]; cbn [snap node_of restore].
      + subst sub. rewrite (fetch_ok d Hi1).
        destruct (N.ltb 1 nl) eqn:El.
        * apply N.ltb_lt in El. specialize (Hlp El).
          destruct (lookup (i, dv) ix) as [d0|] eqn:Ek.
          -- assert (d0 = d) by (rewrite (Hv _ _ Ek), Hlp; reflexivity). subst d0.
             destruct (IHr ix sx Hsr Hlr Hi3 Hv Hw) as [ix' [sx' [E [Hv' Hw']]]]. cbn [snap] in E. rewrite E.
             exists ix', sx'. split; [reflexivity | split; assumption].
          -- assert (Hv1 : inv (((i, dv), d) :: ix)).
             { intros k d1. cbn [lookup]. destruct (key_eqb k (i, dv)) eqn:Eq.
               - apply key_eqb_eq in Eq. subst k. intros E1; inversion E1; subst d1. exact Hlp.
               - apply Hv. }
             destruct (IHr _ sx Hsr Hlr Hi3 Hv1 Hw) as [ix' [sx' [E [Hv' Hw']]]]. cbn [snap] in E. rewrite E.
             exists ix', sx'. split; [reflexivity | split; assumption].
        * destruct (IHr ix sx Hsr Hlr Hi3 Hv Hw) as [ix' [sx' [E [Hv' Hw']]]]. cbn [snap] in E. rewrite E.
          exists ix', sx'. split; [reflexivity | split; assumption].
      + destruct (IHs ix sx Hss Hls Hi2 Hv Hw) as [ix1 [sx1 [E1 [Hv1 Hw1]]]]. rewrite E1.
        destruct (IHr ix1 sx1 Hsr Hlr Hi3 Hv1 Hw1) as [ix' [sx' [E [Hv' Hw']]]]. rewrite E.
        exists ix', sx'. split; [reflexivity | split; assumption].
      + subst sub. destruct (place_ok nl (i, dv) (PSymlink tg i dv nl) sx Hw Hlp) as [sx1 [Ep Hw1]]. rewrite Ep.
        destruct (IHr ix sx1 Hsr Hlr Hi3 Hv Hw1) as [ix' [sx' [E [Hv' Hw']]]]. rewrite E.
        exists ix', sx'. split; [reflexivity | split; assumption].
      + subst sub. destruct (place_ok nl (i, dv) (PDev ch dn i dv nl) sx Hw Hlp) as [sx1 [Ep Hw1]]. rewrite Ep.
        destruct (IHr ix sx1 Hsr Hlr Hi3 Hv Hw1) as [ix' [sx' [E [Hv' Hw']]]]. rewrite E.
        exists ix', sx'. split; [reflexivity | split; assumption].
      + subst sub. destruct (IHr ix sx Hsr Hlr Hi3 Hv Hw) as [ix' [sx' [E [Hv' Hw']]]]. rewrite E.
        exists ix', sx'. split; [reflexivity | split; assumption].
  Qed.

  Lemma restore_backup_id_c : shape_ok fs -> links_ok fs ->
    restore_backup H chunk cfg enc dec layout c fs = Some fs.
  Proof.
    intros Hs Hl. unfold restore_backup.
    destruct (restore_snap fs [] [] Hs Hl (incl_refl _)) as [ix' [sx' [E _]]].
    - intros k d Hk; discriminate.
    - intros k d Hk; discriminate.
    - fold st. rewrite E. reflexivity.
  Qed.
  End OneCfg.

  Lemma cfg_irrelevant_c D DS c1 c2 : shape_ok fs -> links_ok D DS fs ->
    restore_backup H chunk cfg enc dec layout c1 fs = restore_backup H chunk cfg enc dec layout c2 fs.
  Proof. intros Hs Hl. rewrite (restore_backup_id_c c1 D DS Hs Hl), (restore_backup_id_c c2 D DS Hs Hl). reflexivity. Qed.
End Laws.

(* ================= Part B ================= *)

Lemma zll_eqb_eq a b : zll_eqb a b = true <-> a = b.
Proof. unfold zll_eqb. apply list_eqb_spec. apply list_eqb_spec. intros x y; apply Z.eqb_eq. Qed.

Lemma zlll_eqb_eq a b : list_eqb zll_eqb a b = true <-> a = b.
Proof. apply list_eqb_spec. apply zll_eqb_eq. Qed.

Definition groups_spec (src dst : list ent) : Prop :=
  forall p q, In p (combine src dst) -> In q (combine src dst) ->
    is_dirent (fst p) = false -> is_dirent (fst q) = false ->
    (ekey_eqb (fst p) (fst q) = ekey_eqb (snd p) (snd q)).

Lemma groups_ok_iff src dst : groups_ok src dst = true <-> groups_spec src dst.
Proof.
  unfold groups_ok, groups_spec. rewrite forallb_forall. split.
  - intros Hf p q Hp Hq Dp Dq.
    assert (Hp' : In p (filter (fun p => negb (is_dirent (fst p))) (combine src dst)))
      by (apply filter_In; split; [exact Hp | rewrite Dp; reflexivity]).
    assert (Hq' : In q (filter (fun p => negb (is_dirent (fst p))) (combine src dst)))
      by (apply filter_In; split; [exact Hq | rewrite Dq; reflexivity]).
    specialize (Hf p Hp'). rewrite forallb_forall in Hf. specialize (Hf q Hq').
    apply Bool.eqb_prop in Hf. exact Hf.
  - intros Hs p Hp. apply filter_In in Hp as [Hp Dp]. apply negb_true_iff in Dp.
    apply forallb_forall. intros q Hq. apply filter_In in Hq as [Hq Dq]. apply negb_true_iff in Dq.
    rewrite (Hs p q Hp Hq Dp Dq). apply Bool.eqb_reflx.
Qed.

Definition same_tree_spec (src dst : list ent) : Prop :=
  map proj (archived src) = map proj dst /\ groups_spec (archived src) dst.

Lemma same_tree_iff src dst : same_tree src dst = true <-> same_tree_spec src dst.
Proof. unfold same_tree, same_tree_spec. rewrite andb_true_iff, zlll_eqb_eq, groups_ok_iff. tauto. Qed.

Definition C01_holds (c : case) : Prop :=
  (forall r, In r (c_runs c) -> r_ok r = true /\ same_tree_spec (c_src c) (r_dst r))
  /\ (forall r0 rs, c_runs c = r0 :: rs -> forall r, In r rs -> r_treeid r = r_treeid r0).

Lemma check_C01_iff c : check_C01 c = true <-> C01_holds c.
Proof.
  unfold check_C01, C01_holds, runs_ok, cfg_irrelevant. rewrite andb_true_iff, forallb_forall.
  split.
  - intros [H1 H2]. split.
    + intros r Hr. specialize (H1 r Hr). apply andb_true_iff in H1 as [A B].
      split; [exact A | apply same_tree_iff; exact B].
    + intros r0 rs E r Hr. rewrite E in H2. rewrite forallb_forall in H2.
      apply bytes_eqb_spec. apply H2; exact Hr.
  - intros [H1 H2]. split.
    + intros r Hr. destruct (H1 r Hr) as [A B]. rewrite A. apply same_tree_iff in B. rewrite B. reflexivity.
    + destruct (c_runs c) as [|r0 rs]; [reflexivity|]. apply forallb_forall. intros r Hr.
      rewrite (H2 r0 rs eq_refl r Hr). apply bytes_eqb_refl.
Qed.

(* the sort keeps exactly the entries *)
Lemma insert_in x y l : In y (insert x l) <-> y = x \/ In y l.
Proof.
  induction l as [|z r IH]; cbn [insert In]; [intuition|].
  destruct (ent_leb x z); cbn [In]; [intuition | rewrite IH; intuition].
Qed.

Lemma sort_in y l : In y (sort_ents l) <-> In y l.
Proof.
  unfold sort_ents. induction l as [|x r IH]; cbn [fold_right In]; [tauto|].
  rewrite insert_in, IH. intuition.
Qed.

Lemma insert_length x l : length (insert x l) = S (length l).
Proof. induction l as [|z r IH]; cbn [insert length]; [reflexivity|]. destruct (ent_leb x z); cbn [length]; [reflexivity | rewrite IH; reflexivity]. Qed.

Lemma sort_length l : length (sort_ents l) = length l.
Proof. unfold sort_ents. induction l as [|x r IH]; cbn [fold_right length]; [reflexivity|]. rewrite insert_length, IH. reflexivity. Qed.

Lemma model_snapshot_in src s :
  In s (model_snapshot src) <-> exists e, In e src /\ is_socket e = false /\ s = node_of_ent e.
Proof.
  unfold model_snapshot, archived. rewrite in_map_iff. split.
  - intros [e [<- He]]. apply (proj1 (sort_in _ _)) in He. apply filter_In in He as [He Hs].
    apply negb_true_iff in Hs. exists e; auto.
  - intros [e [He [Hs ->]]]. exists e. split; [reflexivity|]. apply (proj2 (sort_in _ _)). apply filter_In.
    split; [exact He | rewrite Hs; reflexivity].
Qed.

(* a restore that reproduces the archived entries passes the checker *)
Lemma archived_idem src : archived (archived src) = archived src.
Proof.
  unfold archived. induction src as [|e r IH]; cbn [filter]; [reflexivity|].
  destruct (negb (is_socket e)) eqn:E; cbn [filter]; [rewrite E, IH; reflexivity | exact IH].
Qed.

Lemma zlll_refl l : list_eqb zll_eqb l l = true.
Proof. apply zlll_eqb_eq; reflexivity. Qed.

Lemma groups_self l : groups_ok l l = true.
Proof.
  apply groups_ok_iff. intros p q Hp Hq _ _.
  assert (Ep : fst p = snd p). { clear -Hp. induction l as [|x r IH]; [destruct Hp|]. destruct Hp as [<-|Hp]; [reflexivity | apply IH; exact Hp]. }
  assert (Eq : fst q = snd q). { clear -Hq. induction l as [|x r IH]; [destruct Hq|]. destruct Hq as [<-|Hq]; [reflexivity | apply IH; exact Hq]. }
  rewrite Ep, Eq. reflexivity.
Qed.

Lemma faithful_restore_ok src tid :
  check_case (mk src (model_snapshot src) [mkRun true tid (archived src)]) = 0%nat.
Proof.
  unfold check_case, runs_ok, cfg_irrelevant, same_tree. cbn [c_runs c_src c_snap forallb r_ok r_dst andb].
  rewrite zlll_refl, groups_self, zlll_refl. reflexivity.
Qed.

(* non-vacuity: a concrete instance of the laws (identity hash on short blobs is not injective in
   general, so use a length-prefixed injective code into N; chunks of 2 bytes; two "configurations") *)
Fixpoint code (b : bytes) : N := match b with [] => 1 | x :: r => (x + 256 * code r + 257)%N end.
Fixpoint chunk2 (b : bytes) : list bytes :=
  match b with
  | x :: y :: r => [x; y] :: chunk2 r
  | [x] => [[x]]
  | [] => []
  end.
From Coq Require Import String. Open Scope string_scope.
Definition ex_meta := mkM 420 (-5)%Z 999999999 1000 100 [(str "user.a", hex "00ff")].
Definition ex_fs : tree :=
  Node (hex "ff22") PDir ex_meta
    (Node (str "a") (PFile (hex "0102030405") 7 1 2) ex_meta Nil
    (Node (str "b") (PFile (hex "0102030405") 7 1 2) ex_meta Nil
    (Node (str "c") (PFile [] 8 1 1) ex_meta Nil
    (Node (str "l") (PSymlink (hex "fe2f") 9 1 2) ex_meta Nil
    (Node (str "m") (PSymlink (hex "fe2f") 9 1 2) ex_meta Nil
    (Node (str "p") PFifo ex_meta Nil Nil))))))
    (Node (str "z") (PDev true 259 10 1 1) ex_meta Nil Nil).
Definition ex_enc (c : bool) (b : bytes) : bytes := if c then 1%N :: b else 0%N :: rev b.
Definition ex_dec (b : bytes) : option bytes :=
  match b with 1%N :: r => Some r | 0%N :: r => Some (rev r) | _ => None end.
Definition ex_layout (c : bool) (l : list (N * bytes)) : list (list (N * bytes)) :=
  if c then [l] else map (fun e => [e]) (rev l).

Example c01_nonvacuous :
  restore_backup code chunk2 bool ex_enc ex_dec ex_layout true ex_fs = Some ex_fs
  /\ restore_backup code chunk2 bool ex_enc ex_dec ex_layout false ex_fs = Some ex_fs
  /\ List.length (blobs chunk2 ex_fs) = 6%nat.
Proof. vm_compute. repeat split. Qed.


(* Regression examples for the two defects found with this check and since repaired in /repo
   (F-C01-1 hard links between symlinks, F-C01-2 mtimes outside 1678..2262): the oracle accepts the
   faithful restore and rejects what the defective code produced. *)
Definition ex_sl (name : bytes) (ino nlink : N) : ent :=
  mkE [name] 2 0 [] (str "some/target") 0 134218239 1600000000%Z 1 0 0 [] ino 65024 nlink.
Example c01_hardlinked_symlink_regression :
  same_tree [ex_sl (str "link-a") 11 2; ex_sl (str "link-b") 11 2]
            [ex_sl (str "link-a") 21 2; ex_sl (str "link-b") 21 2] = true
  /\ same_tree [ex_sl (str "link-a") 11 2; ex_sl (str "link-b") 11 2]
               [ex_sl (str "link-a") 21 1; ex_sl (str "link-b") 22 1] = false.
Proof. vm_compute. split; reflexivity. Qed.

Definition ex_ff (mt : Z) (ino : N) : ent :=
  mkE [str "far-future"] 0 1 (hex "00") [] 0 420 mt 5 0 0 [] ino 65024 1.
Example c01_far_mtime_regression :
  same_tree [ex_ff 9300000000 11] [ex_ff 9300000000 21] = true
  /\ same_tree [ex_ff 9300000000 11] [ex_ff (-2147483648) 21] = false.
Proof. vm_compute. split; reflexivity. Qed.
