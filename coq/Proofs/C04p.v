(* C04: proofs (all Qed, no axioms). *)
From Restic Require Import Base.Prelude Model.C04m.
Import C04m.

Section Generic.
Variable rng : nat -> bytes.
Variable seal : keyclass -> bytes -> bytes -> bytes.
Variable header_of : list N -> bytes.
Variable keyjson : bytes -> bytes -> bytes -> bytes.
Variable master_json : bytes.

Notation step := (step rng seal header_of keyjson master_json).
Notation run := (run rng seal header_of keyjson master_json).
Notation render_all := (render_all rng seal keyjson).

(* ---------- every draw index is used once, for one purpose ---------- *)
Definition idx_inv (st : state) : Prop :=
  (forall i, In i (map snd (uses st)) -> (i < calls st)%nat) /\
  (forall i, In i (others st) -> (i < calls st)%nat) /\
  NoDup (map snd (uses st)) /\ NoDup (others st) /\
  (forall i, In i (map snd (uses st)) -> ~ In i (others st)).

Lemma nodup_cons_fresh (l : list nat) c n :
  NoDup l -> (forall i, In i l -> (i < c)%nat) -> (c <= n)%nat -> NoDup (n :: l).
Proof. intros Hn Hb Hc. constructor; [|exact Hn]. intros Hi. apply Hb in Hi. lia. Qed.

Lemma idx_inv_step st o : idx_inv st -> idx_inv (step st o).
Proof.
  intros (Hu & Ho & Nu & No & Hd). destruct o as [p| |p|fresh pub]; unfold idx_inv; cbn [C04m.step calls uses others map snd].
  1-3: (repeat split;
        [ intros i [<-|Hi]; [lia | apply Hu in Hi; lia]
        | intros i Hi; apply Ho in Hi; lia
        | apply (nodup_cons_fresh _ (calls st)); [exact Nu | exact Hu | lia]
        | exact No
        | intros i [<-|Hi]; [intros Hx; apply Ho in Hx; lia | apply Hd; exact Hi] ]).
  set (c := calls st). set (k := if fresh then 3%nat else 0%nat).
  assert (Hnew : forall i, In i (c :: (if fresh then [S c; S (S c); S (S (S c))] else []) ++ others st) ->
                 (In i (others st) \/ (c <= i <= c + k)%nat)).
  { intros i [<-|Hi]; [right; lia|]. apply in_app_or in Hi. destruct Hi as [Hi|Hi]; [|left; exact Hi].
    right. subst k. destruct fresh; [|destruct Hi]. cbn in Hi. lia. }
  repeat split.
  - intros i [<-|Hi]; [lia | apply Hu in Hi; lia].
  - intros i Hi. apply Hnew in Hi. destruct Hi as [Hi|Hi]; [apply Ho in Hi; lia | lia].
  - apply (nodup_cons_fresh _ c); [exact Nu | exact Hu | lia].
  - assert (Hfr : forall n, (c <= n)%nat -> ~ In n (others st)) by (intros n Hn Hi; apply Ho in Hi; fold c in Hi; lia).
    destruct fresh; cbn [app].
    + repeat constructor; cbn [In]; try (intros [H|H]; [lia|revert H]); try (intros [H|H]; [lia|revert H]);
        try (intros [H|H]; [lia|revert H]); try (apply Hfr; lia); try exact No.
    + constructor; [apply Hfr; lia | exact No].
  - intros i [<-|Hi] Hx.
    + apply Hnew in Hx. destruct Hx as [Hx|Hx]; [apply Ho in Hx; fold c in Hx; lia | lia].
    + apply Hnew in Hx. destruct Hx as [Hx|Hx]; [exact (Hd i Hi Hx) | apply Hu in Hi; fold c in Hi; lia].
Qed.

Lemma idx_inv_fold ops : forall st, idx_inv st -> idx_inv (fold_left step ops st).
Proof. induction ops as [|o ops IH]; intros st H; cbn [fold_left]; [exact H | apply IH, idx_inv_step, H]. Qed.

Lemma idx_inv_init : idx_inv init.
Proof. repeat split; cbn; try constructor; intros i []. Qed.

Theorem nonce_indices_fresh ops :
  NoDup (map snd (uses (run ops))) /\
  (forall i, In i (map snd (uses (run ops))) -> (i < calls (run ops))%nat /\ ~ In i (others (run ops))).
Proof.
  destruct (idx_inv_fold ops init idx_inv_init) as (Hu & _ & Nu & _ & Hd).
  split; [exact Nu|]. intros i Hi. split; [apply Hu | apply Hd]; exact Hi.
Qed.

(* with a stream whose outputs are pairwise distinct, no nonce — hence no (key, nonce) pair — occurs twice *)
Theorem nonces_distinct ops :
  (forall i j, (i < calls (run ops))%nat -> (j < calls (run ops))%nat -> rng i = rng j -> i = j) ->
  NoDup (map (fun u => rng (snd u)) (uses (run ops))) /\ NoDup (used_pairs rng (run ops)).
Proof.
  intros Hinj. destruct (nonce_indices_fresh ops) as [Nu Hb].
  assert (N1 : NoDup (map (fun u => rng (snd u)) (uses (run ops)))).
  { rewrite <- (map_map snd rng). revert Nu Hb. generalize (map snd (uses (run ops))) as l.
    induction l as [|x l IH]; intros Nu Hb; cbn [map]; constructor.
    - intros Hi. apply in_map_iff in Hi. destruct Hi as [y [Hy Hin]].
      inversion Nu as [|? ? Hnot _]; subst. apply Hnot.
      assert (y = x); [|subst; exact Hin].
      apply Hinj; [apply Hb; right; exact Hin | apply Hb; left; reflexivity | exact Hy].
    - inversion Nu; subst. apply IH; [assumption | intros i Hi; apply Hb; right; exact Hi]. }
  split; [exact N1|]. unfold used_pairs.
  revert N1. generalize (uses (run ops)) as l. induction l as [|u l IH]; intros N1; cbn [map] in *; constructor.
  - intros Hi. inversion N1 as [|? ? Hnot _]; subst. apply Hnot.
    apply in_map_iff in Hi. destruct Hi as [v [Hv Hin]]. apply in_map_iff. exists v. split; [congruence | exact Hin].
  - inversion N1; subst. apply IH; assumption.
Qed.

(* ---------- every file is exactly its layout ---------- *)
Definition lay_inv (st : state) : Prop :=
  packbuf st = render_all (packlay st) /\ forall b l, In (b, l) (files st) -> b = render_all l.

Lemma render_all_app a b : render_all (a ++ b) = render_all a ++ render_all b.
Proof. unfold C04m.render_all. rewrite map_app, concat_app. reflexivity. Qed.

Lemma render_all_cons x l : render_all (x :: l) = render rng seal keyjson x ++ render_all l.
Proof. reflexivity. Qed.
Lemma render_all_nil : render_all [] = [].
Proof. reflexivity. Qed.

Lemma lay_inv_step st o : lay_inv st -> lay_inv (step st o).
Proof.
  intros [Hp Hf]. destruct o as [p| |p|fresh pub]; unfold lay_inv; cbn [C04m.step packbuf packlay files].
  - split; [|exact Hf]. rewrite render_all_app, <- Hp, !render_all_cons, render_all_nil. cbn [render].
    rewrite app_nil_r. reflexivity.
  - split; [reflexivity|]. intros b l [H|H]; [|apply Hf; exact H]. apply pair_equal_spec in H; destruct H as [Hb Hl]; subst b l.
    rewrite render_all_app, <- Hp, !render_all_cons, render_all_nil. cbn [render]. rewrite app_nil_r, <- !app_assoc. reflexivity.
  - split; [exact Hp|]. intros b l [H|H]; [|apply Hf; exact H]. apply pair_equal_spec in H; destruct H as [Hb Hl]; subst b l.
    rewrite !render_all_cons, render_all_nil. cbn [render]. rewrite app_nil_r. reflexivity.
  - split; [exact Hp|]. intros b l [H|H]; [|apply Hf; exact H]. apply pair_equal_spec in H; destruct H as [Hb Hl]; subst b l.
    rewrite !render_all_cons, render_all_nil. cbn [render map concat]. rewrite !app_nil_r. reflexivity.
Qed.

Theorem files_are_layouts ops b l : In (b, l) (files (run ops)) -> b = render_all l.
Proof.
  assert (H : forall st, lay_inv st -> lay_inv (fold_left step ops st)).
  { induction ops as [|o ops' IH]; intros st Hs; cbn [fold_left]; [exact Hs | apply IH, lay_inv_step, Hs]. }
  assert (Hi : lay_inv init) by (split; [reflexivity | intros ? ? []]).
  apply (H init Hi).
Qed.

(* ---------- every sealed segment of every file is a recorded Seal call, preceded by its own nonce ---------- *)
Fixpoint well_formed (l : list seg) : Prop :=
  match l with
  | [] => True
  | GNonce i :: GSealed k j _ :: r => i = j /\ well_formed r
  | GLen _ :: r => well_formed r
  | GKeyJson _ _ [GNonce i; GSealed (KUser _) j _] :: r => i = j /\ well_formed r
  | _ => False
  end.

Fixpoint sealed_of (l : list seg) : list (keyclass * nat) :=
  match l with
  | [] => []
  | GSealed k i _ :: r => (k, i) :: sealed_of r
  | GKeyJson _ _ d :: r =>
      (fix inner (d : list seg) := match d with
                                   | GSealed k i _ :: d' => (k, i) :: inner d'
                                   | _ :: d' => inner d'
                                   | [] => [] end) d ++ sealed_of r
  | _ :: r => sealed_of r
  end.

Lemma sealed_of_app a b : sealed_of (a ++ b) = sealed_of a ++ sealed_of b.
Proof.
  induction a as [|s a IH]; [reflexivity|]. destruct s; cbn [app sealed_of]; rewrite IH; try reflexivity.
  rewrite app_assoc. reflexivity.
Qed.

Definition seal_inv (st : state) : Prop :=
  (forall u, In u (sealed_of (packlay st)) -> In u (uses st)) /\
  (forall b l u, In (b, l) (files st) -> In u (sealed_of l) -> In u (uses st)).

Lemma seal_inv_step st o : seal_inv st -> seal_inv (step st o).
Proof.
  intros [Hp Hf]. destruct o as [p| |p|fresh pub]; unfold seal_inv; cbn [C04m.step packlay files uses].
  - split.
    + intros u Hu. rewrite sealed_of_app in Hu. apply in_app_or in Hu. destruct Hu as [Hu|Hu]; [right; apply Hp; exact Hu|].
      cbn in Hu. destruct Hu as [<-|[]]. left; reflexivity.
    + intros b l u Hi Hu. right. eapply Hf; eassumption.
  - split; [intros u []|]. intros b l u [Hi|Hi] Hu; [|right; eapply Hf; eassumption]. apply pair_equal_spec in Hi; destruct Hi as [Hb Hl]; subst b l.
    rewrite sealed_of_app in Hu. apply in_app_or in Hu. destruct Hu as [Hu|Hu]; [right; apply Hp; exact Hu|].
    cbn in Hu. destruct Hu as [<-|[]]. left; reflexivity.
  - split; [intros u Hu; right; apply Hp; exact Hu|].
    intros b l u [Hi|Hi] Hu; [|right; eapply Hf; eassumption]. apply pair_equal_spec in Hi; destruct Hi as [Hb Hl]; subst b l.
    cbn in Hu. destruct Hu as [<-|[]]. left; reflexivity.
  - split; [intros u Hu; right; apply Hp; exact Hu|].
    intros b l u [Hi|Hi] Hu; [|right; eapply Hf; eassumption]. apply pair_equal_spec in Hi; destruct Hi as [Hb Hl]; subst b l.
    cbn in Hu. destruct Hu as [<-|[]]. left; reflexivity.
Qed.

Theorem sealed_segments_are_seal_calls ops b l u :
  In (b, l) (files (run ops)) -> In u (sealed_of l) -> In u (uses (run ops)).
Proof.
  assert (H : forall st, seal_inv st -> seal_inv (fold_left step ops st)).
  { induction ops as [|o ops' IH]; intros st Hs; cbn [fold_left]; [exact Hs | apply IH, seal_inv_step, Hs]. }
  assert (Hi : seal_inv init) by (split; [intros ? [] | intros ? ? ? []]).
  destruct (H init Hi) as [_ Hf]. apply Hf.
Qed.

End Generic.

(* ---------- the tiling checker covers every byte of a pack file ---------- *)
Lemma tiles_covers entries : forall pos e p,
  tiles pos entries = Some e -> (pos <= p < e)%N ->
  exists off len, In (off, len) entries /\ (off <= p < off + len)%N /\ (32 <= len)%N.
Proof.
  induction entries as [|[off len] r IH]; intros pos e p H Hp; cbn [tiles] in H.
  - inversion H; subst. lia.
  - destruct ((off =? pos)%N && (32 <=? len)%N) eqn:Hc; [|discriminate].
    apply andb_true_iff in Hc. destruct Hc as [Ho Hl]. apply N.eqb_eq in Ho. apply N.leb_le in Hl. subst off.
    destruct (N.ltb p (pos + len)) eqn:Hlt.
    + apply N.ltb_lt in Hlt. exists pos, len. split; [left; reflexivity | split; [lia | exact Hl]].
    + apply N.ltb_ge in Hlt. destruct (IH _ _ p H) as [o [l [Hi Hr]]]; [lia|].
      exists o, l. split; [right; exact Hi | exact Hr].
Qed.

(* every position of the file lies in a blob segment (nonce ‖ ciphertext ‖ tag, at least 32 bytes), in the
   encrypted header (same shape) or in the 4-byte length field *)
Theorem pack_ok_covers L hlen entries p :
  pack_ok L hlen entries = true -> (p < L)%N ->
  (exists off len, In (off, len) entries /\ (off <= p < off + len)%N /\ (32 <= len)%N) \/
  ((L - 4 - hlen <= p < L - 4)%N /\ (32 <= hlen)%N) \/
  (L - 4 <= p < L)%N.
Proof.
  unfold pack_ok. destruct (tiles 0 entries) as [e|] eqn:Ht; [|discriminate].
  intros H Hp. apply andb_true_iff in H. destruct H as [H1 H2]. apply N.eqb_eq in H1. apply N.leb_le in H2.
  destruct (N.ltb p e) eqn:Hlt.
  - apply N.ltb_lt in Hlt. left. apply (tiles_covers entries 0%N e p Ht). lia.
  - apply N.ltb_ge in Hlt. right. destruct (N.ltb p (L - 4)) eqn:H4.
    + apply N.ltb_lt in H4. left. split; [lia | exact H2].
    + apply N.ltb_ge in H4. right. lia.
Qed.

(* ---------- linearisable draws: what the freshness theorems assume of the generator ---------- *)
Lemma atomic_fold sched : forall st,
  atomic_only sched = true ->
  (forall p, In p (map snd (ggot st)) -> (p < gnext st)%nat) -> NoDup (map snd (ggot st)) ->
  let st' := fold_left gstep sched st in
  (forall p, In p (map snd (ggot st')) -> (p < gnext st')%nat) /\ NoDup (map snd (ggot st')).
Proof.
  induction sched as [|e sched IH]; intros st Ha Hb Hn; cbn [fold_left]; [split; assumption|].
  cbn [atomic_only forallb] in Ha. apply andb_true_iff in Ha. destruct Ha as [He Ha].
  destruct e as [g|g|g]; try discriminate. apply IH; [exact Ha | |]; cbn [gstep ggot gnext map snd].
  - intros p [<-|Hp]; [lia | apply Hb in Hp; lia].
  - constructor; [intros Hi; apply Hb in Hi; lia | exact Hn].
Qed.

(* every interleaving of any number of goroutines whose draws are atomic yields pairwise distinct positions *)
Theorem atomic_draws_distinct sched :
  atomic_only sched = true -> NoDup (map snd (ggot (grun sched))).
Proof.
  intros Ha. apply (atomic_fold sched ginit Ha); cbn; [intros p [] | constructor].
Qed.

(* without atomicity two goroutines can obtain the same position: the generator must be linearisable *)
Theorem nonatomic_draws_refuted :
  exists sched g1 g2 p, g1 <> g2 /\ In (g1, p) (ggot (grun sched)) /\ In (g2, p) (ggot (grun sched)).
Proof.
  exists [ERead 0; ERead 1; EAdvance 0; EAdvance 1]%nat, 0%nat, 1%nat, 0%nat. cbn. repeat split; auto.
Qed.

(* ---------- the oracle ---------- *)
Lemma memb_spec x l : memb x l = true <-> In x l.
Proof.
  induction l as [|y r IH]; cbn [memb In]; [split; [discriminate | intros []]|].
  rewrite orb_true_iff, IH, bytes_eqb_spec. split; intros [H|H]; auto.
Qed.

Lemma nodupb_spec l : nodupb l = true <-> NoDup l.
Proof.
  induction l as [|x r IH]; cbn [nodupb]; [split; [constructor | reflexivity]|].
  rewrite andb_true_iff, negb_true_iff, IH. split.
  - intros [H1 H2]. constructor; [|exact H2]. intros Hi. apply memb_spec in Hi. congruence.
  - intros H. inversion H as [|? ? Hn Hr]; subst. split; [|exact Hr].
    destruct (memb x r) eqn:E; [apply memb_spec in E; contradiction | reflexivity].
Qed.

Theorem check_C04_meaning c :
  check_C04 c = true ->
  (forall f, In f (c_files c) -> file_ok f = true) /\
  NoDup (all_nonces c) /\
  (forall n, In n (all_nonces c) -> length n = 16%nat /\ exists b, In b n /\ b <> 0%N) /\
  (forall h, In h (c_hits c) -> h = (true, true)) /\
  (forall expected collected distinct dups, In (expected, collected, distinct, dups) (c_conc c) ->
     (expected <= collected)%N /\ collected = distinct /\ dups = []).
Proof.
  unfold check_C04, layout_ok, nonces_ok, no_leak, conc_ok. rewrite !andb_true_iff.
  intros [[[Hl [Hn Hz]] Hh] Hc]. split; [|split; [|split; [|split]]].
  - apply forallb_forall. exact Hl.
  - apply nodupb_spec. exact Hn.
  - intros n H. rewrite forallb_forall in Hz. specialize (Hz _ H). unfold nonzero_nonce in Hz.
    apply andb_true_iff in Hz. destruct Hz as [Hz1 Hz2]. apply Nat.eqb_eq in Hz1. split; [exact Hz1|].
    apply existsb_exists in Hz2. destruct Hz2 as [b [Hb Hz2]].
    exists b. split; [exact Hb|]. apply negb_true_iff, N.eqb_neq in Hz2. exact Hz2.
  - intros h Hi. rewrite forallb_forall in Hh. specialize (Hh _ Hi). destruct h as [a b].
    cbn [fst snd] in Hh. apply andb_true_iff in Hh. destruct Hh as [-> ->]. reflexivity.
  - intros expected collected distinct dups Hi. rewrite forallb_forall in Hc. specialize (Hc _ Hi). cbn in Hc.
    apply andb_true_iff in Hc. destruct Hc as [Hc Hd]. apply andb_true_iff in Hc. destruct Hc as [H1 H2].
    apply N.leb_le in H1. apply N.eqb_eq in H2. destruct dups; [|discriminate]. auto.
Qed.

Theorem file_ok_pack_meaning L hlen entries hok hn same :
  file_ok (FPack L hlen entries hok hn same) = true ->
  pack_ok L hlen (map (fun e => (fst (fst (fst e)), snd (fst (fst e)))) entries) = true /\ hok = true /\ same = true /\
  forall e, In e entries -> snd (fst e) = true.
Proof.
  cbn [file_ok]. rewrite !andb_true_iff, forallb_forall. intros [[[H1 H2] H3] H4]. auto.
Qed.

(* ---------- non-vacuity ---------- *)
Definition ex_rng (i : nat) : bytes := [N.of_nat i; 1%N].
Definition ex_seal (k : keyclass) (n p : bytes) : bytes := n ++ p.
Example run_nonvacuous :
  let st := C04m.run ex_rng ex_seal (fun l => [N.of_nat (length l)]) (fun p s d => p ++ s ++ d) [9%N]
              [OpSaveBlob [7%N]; OpSaveBlob [8%N]; OpFinalize; OpSaveUnpacked [5%N]; OpAddKey true [3%N]; OpAddKey false [4%N]] in
  calls st = 11%nat /\ map snd (uses st) = [10; 8; 3; 2; 1; 0]%nat /\ others st = [9; 4; 5; 6; 7]%nat /\ length (files st) = 4%nat.
Proof. repeat split. Qed.

Example oracle_nonvacuous :
  check_case (mkcase [FPack 104 36 [(0%N, 32%N, true, repeat 1%N 16); (32%N, 32%N, true, repeat 2%N 16)] true (repeat 3%N 16) true;
                      FSealed 40 true (repeat 4%N 16); FKey true 64 true (repeat 5%N 16)] [(true, true)] 1 []) = 0%nat /\
  check_case (mkcase [FPack 105 36 [(0%N, 32%N, true, repeat 1%N 16); (32%N, 32%N, true, repeat 2%N 16)] true (repeat 3%N 16) true] [] 0 []) = 2%nat /\
  check_case (mkcase [FSealed 40 true (repeat 4%N 16); FSealed 41 true (repeat 4%N 16)] [] 0 []) = 3%nat /\
  check_case (mkcase [FSealed 40 true (repeat 0%N 16)] [] 0 []) = 3%nat /\
  check_case (mkcase [FSealed 40 true (repeat 4%N 16)] [(false, false)] 0 []) = 4%nat /\
  check_case (mkcase [] [] 0 [(10%N, 10%N, 10%N, [])]) = 0%nat /\
  check_case (mkcase [] [] 0 [(10%N, 10%N, 9%N, [repeat 7%N 16])]) = 5%nat /\
  check_case (mkcase [] [] 0 [(10%N, 8%N, 8%N, [])]) = 5%nat.
Proof. repeat split. Qed.
