(* C05: the Gallina AES maps well-formed keys and blocks to well-formed 16-byte blocks (all Qed). *)
From Restic Require Import Base.Prelude Gen.ParamsC05 Model.C05m Proofs.C05p.
Import C05m.
Open Scope N_scope.

Definition byte_ok (x : N) : Prop := x < 256.
Definition wfl (n : nat) (l : bytes) : Prop := length l = n /\ Forall byte_ok l.

Lemma lxor_ok a b : byte_ok a -> byte_ok b -> byte_ok (N.lxor a b).
Proof.
  unfold byte_ok. intros Ha Hb.
  destruct (N.eq_dec (N.lxor a b) 0) as [E|E]; [rewrite E; reflexivity|].
  change 256 with (2 ^ 8). apply N.log2_lt_pow2; [lia|].
  pose proof (N.log2_lxor a b) as H.
  assert (La : a = 0 \/ N.log2 a < 8).
  { destruct (N.eq_dec a 0); [left; assumption | right; apply N.log2_lt_pow2; [lia | exact Ha]]. }
  assert (Lb : b = 0 \/ N.log2 b < 8).
  { destruct (N.eq_dec b 0); [left; assumption | right; apply N.log2_lt_pow2; [lia | exact Hb]]. }
  destruct La as [->|La]; destruct Lb as [->|Lb]; cbn [N.log2] in *;
    rewrite ?N.lxor_0_l, ?N.lxor_0_r in *; lia.
Qed.

Definition table_ok (t : list (list N)) : bool := forallb (forallb (fun x => x <? 256)) t.
Lemma sbox_ok : table_ok sbox = true. Proof. vm_compute. reflexivity. Qed.

Lemma nth_forallb {A} (f : A -> bool) l n d : forallb f l = true -> f d = true -> f (nth n l d) = true.
Proof.
  revert n; induction l as [|x l IH]; intros n Hl Hd; destruct n; cbn [nth]; try assumption;
    cbn [forallb] in Hl; apply andb_true_iff in Hl; destruct Hl as [Hx Hl]; [exact Hx | apply IH; assumption].
Qed.

Lemma sub_ok b : byte_ok (sub b).
Proof.
  unfold sub, byte_ok. apply N.ltb_lt.
  apply (nth_forallb (fun x => x <? 256)); [|reflexivity].
  apply (nth_forallb (forallb (fun x => x <? 256)) sbox); [exact sbox_ok | reflexivity].
Qed.

Lemma xtime_ok b : byte_ok b -> byte_ok (xtime b).
Proof.
  unfold xtime, byte_ok. intros Hb. cbv zeta. destruct (2 * b <? 256) eqn:E.
  - apply N.ltb_lt in E. exact E.
  - apply N.ltb_ge in E. apply lxor_ok; unfold byte_ok; lia.
Qed.

Lemma wfl_xorb n a b : wfl n a -> wfl n b -> wfl n (xorb a b).
Proof.
  revert a b; induction n as [|n IH]; intros a b [La Fa] [Lb Fb].
  - destruct a; [|discriminate]. split; [reflexivity | constructor].
  - destruct a as [|x a]; [discriminate|]. destruct b as [|y b]; [discriminate|].
    inversion Fa as [|? ? Hx Fa']; inversion Fb as [|? ? Hy Fb']; subst.
    cbn [xorb]. destruct (IH a b) as [L F]; [split; [cbn in La; lia | assumption] | split; [cbn in Lb; lia | assumption] |].
    split; [cbn [length]; lia | constructor; [apply lxor_ok; assumption | exact F]].
Qed.

Lemma wfl_map_sub n s : length s = n -> wfl n (map sub s).
Proof.
  intros L. split; [rewrite map_length; exact L|]. apply Forall_forall. intros x Hx.
  apply in_map_iff in Hx. destruct Hx as [y [<- _]]. apply sub_ok.
Qed.

Ltac destruct_list s n :=
  match n with
  | O => destruct s; [|discriminate]
  | S ?m => let x := fresh "x" in destruct s as [|x s]; [discriminate|]; destruct_list s m
  end.

Lemma wfl_shift_rows s : wfl 16 s -> wfl 16 (shift_rows s).
Proof.
  intros [L F]. destruct_list s 16%nat. cbn [shift_rows]. split; [reflexivity|].
  rewrite Forall_forall in *. intros y Hy. apply F. cbn [In] in *. tauto.
Qed.

Lemma mix1_ok a b c d : byte_ok a -> byte_ok b -> byte_ok c -> byte_ok d -> byte_ok (mix1 a b c d).
Proof. intros. unfold mix1. repeat apply lxor_ok; try apply xtime_ok; assumption. Qed.

Lemma wfl_mix_columns s : wfl 16 s -> wfl 16 (mix_columns s 4).
Proof.
  intros [L F]. destruct_list s 16%nat. cbn [mix_columns]. split; [reflexivity|].
  assert (H : forall y, In y [x; x0; x1; x2; x3; x4; x5; x6; x7; x8; x9; x10; x11; x12; x13; x14] -> byte_ok y)
    by (apply Forall_forall; exact F).
  repeat constructor; apply mix1_ok; apply H; cbn [In]; tauto.
Qed.

Lemma wfl_rounds rks : Forall (wfl 16) rks -> forall s, wfl 16 s -> wfl 16 (rounds s rks).
Proof.
  induction rks as [|rk rest IH]; intros Hr s Hs; cbn [rounds]; [exact Hs|].
  inversion Hr as [|? ? Hrk Hrest]; subst.
  destruct rest as [|rk2 rest].
  - apply wfl_xorb; [|exact Hrk]. apply wfl_shift_rows. apply wfl_map_sub. apply Hs.
  - apply IH; [exact Hrest|]. apply wfl_xorb; [|exact Hrk].
    apply wfl_mix_columns, wfl_shift_rows, wfl_map_sub, Hs.
Qed.

Lemma wfl_aes_with rks blk : rks <> [] -> Forall (wfl 16) rks -> wfl 16 blk -> wfl 16 (aes_with rks blk).
Proof.
  intros Hne Hr Hb. destruct rks as [|rk0 rest]; [contradiction|]. cbn [aes_with].
  inversion Hr; subst. apply wfl_rounds; [assumption|]. apply wfl_xorb; assumption.
Qed.

(* ---------- key schedule ---------- *)
Lemma wfl_rotw w : wfl 4 w -> wfl 4 (rotw w).
Proof.
  intros [L F]. destruct_list w 4%nat. cbn [rotw app]. split; [reflexivity|].
  rewrite Forall_forall in *. intros y Hy. apply F. cbn [In] in *. tauto.
Qed.

Lemma expand_inv fuel : forall i nk rcon rv,
  (1 <= nk)%nat -> (nk <= length rv)%nat -> byte_ok rcon -> Forall (wfl 4) rv ->
  Forall (wfl 4) (expand fuel i nk rcon rv) /\ length (expand fuel i nk rcon rv) = (fuel + length rv)%nat.
Proof.
  induction fuel as [|f IH]; intros i nk rcon rv Hnk Hlen Hrc Hrv; cbn [expand]; [split; [exact Hrv | reflexivity]|].
  assert (Hprev : wfl 4 (hd [] rv)).
  { destruct rv as [|w rv']; [cbn in Hlen; lia|]. inversion Hrv; assumption. }
  assert (Hback : wfl 4 (nth (nk - 1) rv [])).
  { rewrite Forall_forall in Hrv. apply Hrv. apply nth_In. lia. }
  assert (Hrcw : wfl 4 [rcon; 0; 0; 0]).
  { split; [reflexivity|]. repeat constructor; try exact Hrc; reflexivity. }
  destruct (Nat.eqb (Nat.modulo i nk) 0).
  - destruct (IH (S i) nk (xtime rcon) (xorb (nth (nk - 1) rv []) (xorb (map sub (rotw (hd [] rv))) [rcon; 0; 0; 0]) :: rv)) as [F L];
      try assumption; [cbn [length]; lia | apply xtime_ok; exact Hrc | |].
    + constructor; [|exact Hrv]. apply wfl_xorb; [exact Hback|]. apply wfl_xorb; [|exact Hrcw].
      apply wfl_map_sub. apply wfl_rotw. exact Hprev.
    + split; [exact F | rewrite L; cbn [length]; lia].
  - destruct (andb (Nat.ltb 6 nk) (Nat.eqb (Nat.modulo i nk) 4)).
    + destruct (IH (S i) nk rcon (xorb (nth (nk - 1) rv []) (map sub (hd [] rv)) :: rv)) as [F L];
        try assumption; [cbn [length]; lia | |].
      * constructor; [|exact Hrv]. apply wfl_xorb; [exact Hback|]. apply wfl_map_sub. apply Hprev.
      * split; [exact F | rewrite L; cbn [length]; lia].
    + destruct (IH (S i) nk rcon (xorb (nth (nk - 1) rv []) (hd [] rv) :: rv)) as [F L];
        try assumption; [cbn [length]; lia | |].
      * constructor; [|exact Hrv]. apply wfl_xorb; assumption.
      * split; [exact F | rewrite L; cbn [length]; lia].
Qed.

Lemma in_firstn {A} n : forall (l : list A) x, In x (firstn n l) -> In x l.
Proof. induction n as [|n IH]; intros [|y l] x H; cbn [firstn] in H; try contradiction. destruct H as [->|H]; [left; reflexivity | right; apply IH; exact H]. Qed.
Lemma in_skipn {A} n : forall (l : list A) x, In x (skipn n l) -> In x l.
Proof. induction n as [|n IH]; intros [|y l] x H; cbn [skipn] in H; try contradiction; try exact H. right; apply IH; exact H. Qed.

Lemma words_wf n : forall k, length k = (4 * n)%nat -> Forall byte_ok k ->
  Forall (wfl 4) (words k n) /\ length (words k n) = n.
Proof.
  induction n as [|n IH]; intros k L F; cbn [words]; [split; [constructor | reflexivity]|].
  destruct (IH (skipn 4 k)) as [F' L'].
  - rewrite skipn_length. lia.
  - apply Forall_forall. intros x Hx. rewrite Forall_forall in F. apply F. eapply in_skipn. exact Hx.
  - split; [|cbn [length]; lia]. constructor; [|exact F'].
    split; [rewrite firstn_length; lia|]. apply Forall_forall. intros x Hx. rewrite Forall_forall in F. apply F.
    eapply in_firstn. exact Hx.
Qed.

Lemma group4_wf n : forall ws, length ws = (4 * n)%nat -> Forall (wfl 4) ws ->
  Forall (wfl 16) (group4 n ws) /\ length (group4 n ws) = n.
Proof.
  induction n as [|n IH]; intros ws L F; cbn [group4]; [split; [constructor | reflexivity]|].
  destruct ws as [|w0 [|w1 [|w2 [|w3 r]]]]; cbn [length] in L; try lia.
  inversion F as [|? ? H0 F0]; subst. inversion F0 as [|? ? H1 F1]; subst.
  inversion F1 as [|? ? H2 F2]; subst. inversion F2 as [|? ? H3 F3]; subst.
  destruct (IH r) as [Fr Lr]; [lia | exact F3 |].
  cbn [firstn skipn concat]. split; [|cbn [length]; lia].
  constructor; [|exact Fr].
  destruct H0 as [L0 B0], H1 as [L1 B1], H2 as [L2 B2], H3 as [L3 B3].
  split.
  - rewrite !app_length, L0, L1, L2, L3. reflexivity.
  - repeat (apply Forall_app; split); try assumption. constructor.
Qed.

Lemma round_keys_wf k : (length k = 16 \/ length k = 32)%nat -> Forall byte_ok k ->
  Forall (wfl 16) (round_keys k) /\ round_keys k <> [].
Proof.
  intros Hl Hb. unfold round_keys.
  set (nk := Nat.div (length k) 4).
  assert (Hnk : (length k = 4 * nk /\ 1 <= nk)%nat).
  { subst nk. destruct Hl as [-> | ->]; cbn; lia. }
  destruct Hnk as [Hk Hnk1].
  destruct (words_wf nk k Hk Hb) as [Fw Lw].
  destruct (expand_inv (4 * (nk + 7) - nk) nk nk 1 (rev (words k nk))) as [Fe Le].
  - exact Hnk1.
  - rewrite rev_length, Lw. lia.
  - reflexivity.
  - apply Forall_rev. exact Fw.
  - destruct (group4_wf (nk + 7) (rev (expand (4 * (nk + 7) - nk) nk nk 1 (rev (words k nk))))) as [Fg Lg].
    + rewrite rev_length, Le, rev_length, Lw. lia.
    + apply Forall_rev. exact Fe.
    + split; [exact Fg|]. intros E. rewrite E in Lg. cbn in Lg. lia.
Qed.

(* AES-128 / AES-256 of a well-formed block under a well-formed key is a well-formed block *)
Theorem aes_wf k b : (length k = 16 \/ length k = 32)%nat -> Forall byte_ok k -> wfl 16 b -> wfl 16 (aes k b).
Proof.
  intros Hl Hk Hb. unfold aes. destruct (round_keys_wf k Hl Hk) as [F Hne].
  apply wfl_aes_with; assumption.
Qed.

(* the nonce theorem for the concrete cipher: only injectivity of AES_K on the two nonces is left as a premise *)
Theorem nonce_flip_rejected_aes k n n' dst c :
  valid_key k = true -> length (kK k) = 16%nat -> Forall byte_ok (kK k) ->
  wfl 16 n -> wfl 16 n' -> valid_nonce n' = true ->
  aes (kK k) n' <> aes (kK k) n ->
  open aes k n' dst (c ++ mac aes k n c) = OUnauth.
Proof.
  intros Hv Hl Hb Hn Hn' Hvn Hne.
  apply nonce_flip_rejected; try assumption.
  - destruct Hn' as [L _]. exact L.
  - apply (aes_wf (kK k) n); [left; exact Hl | exact Hb | exact Hn].
  - apply (aes_wf (kK k) n'); [left; exact Hl | exact Hb | exact Hn'].
Qed.

From Coq Require Import String.
Open Scope string_scope.
Example aes_wf_nonvacuous :
  wfl 16 (aes (hex "000102030405060708090a0b0c0d0e0f") (hex "00112233445566778899aabbccddeeff")) /\
  aes (hex "000102030405060708090a0b0c0d0e0f") (hex "00112233445566778899aabbccddeeff")
  <> aes (hex "000102030405060708090a0b0c0d0e0f") (hex "00112233445566778899aabbccddeefe").
Proof.
  split.
  - apply aes_wf; [left; reflexivity | |]; [repeat constructor | split; [reflexivity | repeat constructor]].
  - vm_compute. discriminate.
Qed.
