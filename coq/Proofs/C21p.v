From Restic Require Import Base.Prelude Model.C21m.
From Coq Require Import Permutation.
Import C21m.

(* ---------- list helpers ---------- *)
Lemma firstn_add {A} (a n : nat) (l : list A) :
  firstn (a + n) l = firstn a l ++ firstn n (skipn a l).
Proof.
  revert l; induction a as [|a IH]; intros l; [reflexivity|].
  destruct l as [|x l]; cbn [Nat.add firstn skipn app].
  - rewrite firstn_nil. reflexivity.
  - rewrite IH. reflexivity.
Qed.

Lemma skipn_add {A} (a n : nat) (l : list A) : skipn (a + n) l = skipn n (skipn a l).
Proof.
  revert l; induction a as [|a IH]; intros l; [reflexivity|].
  destruct l as [|x l]; cbn [Nat.add skipn].
  - rewrite skipn_nil. reflexivity.
  - apply IH.
Qed.

Lemma app_eq_len {A} (x x' y y' : list A) :
  length x = length x' -> x ++ y = x' ++ y' -> x = x' /\ y = y'.
Proof.
  revert x'; induction x as [|a x IH]; intros [|a' x'] Hl He; cbn in Hl; try discriminate.
  - split; [reflexivity | exact He].
  - cbn [app] in He. inversion He; subst. injection Hl as Hl.
    destruct (IH x' Hl H1) as [-> ->]. split; reflexivity.
Qed.

Lemma firstn_full_len {A} (n : nat) (l d : list A) :
  firstn n l = d -> length d = n -> n <= length l.
Proof.
  intros <- Hl. rewrite firstn_length in Hl. lia.
Qed.

(* ---------- hypotheses about the hash and the repository ---------- *)
Section Verify.
Variable H : bytes -> id.
Variable bt : blobtab.
Variable ow : overwrite.

(* content addressing: every stored blob is stored under its hash *)
Definition repo_ok : Prop := forall i b, blob_get bt i = Some b -> H b = i.

(* no other byte string hashes to the ID of one of these blobs (second-preimage freedom for them) *)
Definition sp_free (content : list id) : Prop :=
  forall i b x, In i content -> blob_get bt i = Some b -> H x = i -> x = b.

Notation size_of := (lookup_size bt).

Definition all_true (ms : list bool) : bool := forallb (fun b => b) ms.

Lemma lookup_size_get i b : blob_get bt i = Some b -> size_of i = Some (length b).
Proof. unfold lookup_size. intros ->. reflexivity. Qed.

(* in fail-fast mode the loop either fails or reports all blobs matching; never the EOF-break *)
Lemma loop_fast_shape f content off :
  loop H size_of true f off content = LErr \/
  exists ms, loop H size_of true f off content = LDone ms /\ all_true ms = true.
Proof.
  revert off; induction content as [|i rest IH]; intros off; cbn [loop].
  - right. exists []. split; reflexivity.
  - destruct (size_of i) as [len|]; [|left; reflexivity].
    destruct (read_at f off len) as [buf|]; [|left; reflexivity].
    destruct (N.eqb i (H buf)) eqn:Em; cbn [andb negb]; [|left; reflexivity].
    destruct (IH (off + len)) as [E | [ms [E Ht]]]; rewrite E; cbn [lcons].
    + left; reflexivity.
    + right. exists (true :: ms). split; [reflexivity | exact Ht].
Qed.

(* soundness of the loop: all blobs matching means the file carries the blobs' bytes from [off] on *)
Lemma loop_sound fast content : forall f off d ms,
  sp_free content ->
  blob_data bt content = Some d ->
  loop H size_of fast f off content = LDone ms -> all_true ms = true ->
  firstn (length d) (skipn off f) = d.
Proof.
  induction content as [|i rest IH]; intros f off d ms Hsp Hd Hl Ht.
  - cbn in Hd. inversion Hd; subst. reflexivity.
  - cbn [blob_data] in Hd.
    destruct (blob_get bt i) as [b|] eqn:Eb; [|discriminate].
    destruct (blob_data bt rest) as [d'|] eqn:Ed; [|discriminate].
    inversion Hd; subst d; clear Hd.
    cbn [loop] in Hl. rewrite (lookup_size_get _ _ Eb) in Hl.
    assert (Hsp' : sp_free rest) by (intros j c x Hj; apply Hsp; right; exact Hj).
    destruct (read_at f off (length b)) as [buf|] eqn:Er; [|destruct fast; discriminate].
    destruct (N.eqb i (H buf)) eqn:Em.
    2:{ destruct fast; cbn [andb negb] in Hl; [discriminate|].
        destruct (loop H size_of false f (off + length b) rest); cbn [lcons] in Hl; try discriminate.
        inversion Hl; subst ms. cbn in Ht. discriminate. }
    rewrite andb_false_r in Hl.
    destruct (loop H size_of fast f (off + length b) rest) as [|ms'|ms'] eqn:El; cbn [lcons] in Hl; try discriminate.
    inversion Hl; subst ms; clear Hl. cbn [all_true forallb andb] in Ht.
    apply N.eqb_eq in Em. symmetry in Em.
    assert (Hbuf : buf = b) by (apply (Hsp i b buf); [left; reflexivity | exact Eb | exact Em]).
    subst buf.
    specialize (IH f (off + length b) d' ms' Hsp' eq_refl El Ht).
    rewrite app_length, firstn_add. rewrite skipn_add in IH. rewrite IH.
    f_equal.
    unfold read_at in Er. destruct (length b) as [|k] eqn:Elen.
    + destruct b; [reflexivity | discriminate].
    + destruct (Nat.leb (off + S k) (length f)); [|discriminate]. congruence.
Qed.

(* completeness of the loop: if the file carries the blobs' bytes from [off] on, every blob matches *)
Lemma loop_complete fast content : forall f off d,
  repo_ok ->
  blob_data bt content = Some d ->
  firstn (length d) (skipn off f) = d ->
  exists ms, loop H size_of fast f off content = LDone ms /\ all_true ms = true.
Proof.
  induction content as [|i rest IH]; intros f off d Hok Hd Hp.
  - exists []. split; reflexivity.
  - cbn [blob_data] in Hd.
    destruct (blob_get bt i) as [b|] eqn:Eb; [|discriminate].
    destruct (blob_data bt rest) as [d'|] eqn:Ed; [|discriminate].
    inversion Hd; subst d; clear Hd.
    rewrite app_length, firstn_add in Hp.
    assert (Hlen : length (firstn (length b) (skipn off f)) = length b).
    { apply (f_equal (@length N)) in Hp. rewrite !app_length in Hp.
      pose proof (firstn_le_length (length b) (skipn off f)).
      pose proof (firstn_le_length (length d') (skipn (length b) (skipn off f))). lia. }
    destruct (app_eq_len _ _ _ _ Hlen Hp) as [Hb Hd'].
    cbn [loop]. rewrite (lookup_size_get _ _ Eb).
    assert (Er : read_at f off (length b) = Some b).
    { unfold read_at. destruct (length b) as [|k] eqn:Elen.
      - destruct b; [reflexivity | discriminate].
      - rewrite firstn_length, skipn_length in Hlen.
        assert (Hle : Nat.leb (off + S k) (length f) = true) by (apply Nat.leb_le; lia).
        rewrite Hle, Hb. reflexivity. }
    rewrite Er. rewrite (Hok i b Eb), N.eqb_refl. cbn [negb]. rewrite andb_false_r.
    rewrite <- skipn_add in Hd'.
    destruct (IH f (off + length b) d' Hok eq_refl Hd') as [ms [El Ht]].
    rewrite El. cbn [lcons]. exists (true :: ms). split; [reflexivity | exact Ht].
Qed.

(* ---------- verifyFile ---------- *)
Definition wf_node (n : node) (d : bytes) : Prop :=
  blob_data bt (n_content n) = Some d /\ N.of_nat (length d) = n_size n /\ (n_size n < 2 ^ 63)%N.

Lemma to_int64_small n : (n < 2 ^ 63)%N -> to_int64 n = Z.of_N n.
Proof.
  intros Hn. unfold to_int64.
  assert (Hm : (n mod 2 ^ 64 = n)%N) by (apply N.mod_small; change (2 ^ 64)%N with (2 * 2 ^ 63)%N; lia).
  rewrite Hm.
  assert (Hz : (Z.of_N n < 2 ^ 63)%Z) by (change (2 ^ 63)%Z with (Z.of_N (2 ^ 63)); lia).
  apply Z.ltb_lt in Hz. rewrite Hz. reflexivity.
Qed.

Lemma size_test n d (f : bytes) : wf_node n d ->
  Z.eqb (to_int64 (n_size n)) (Z.of_nat (length f)) = Nat.eqb (length d) (length f).
Proof.
  intros (_ & Hs & Hb). rewrite (to_int64_small _ Hb), <- Hs, nat_N_Z.
  destruct (Nat.eqb (length d) (length f)) eqn:E.
  - apply Nat.eqb_eq in E. rewrite E. apply Z.eqb_refl.
  - apply Nat.eqb_neq in E. apply Z.eqb_neq. lia.
Qed.

(* fail-fast verification (the mode VerifyFiles uses) accepts exactly the snapshot's bytes *)
Lemma verify_fast_iff n d f mt :
  repo_ok -> sp_free (n_content n) -> wf_node n d ->
  (verify_file H size_of true false mt (FReg f) n <> VErr <-> f = d).
Proof.
  intros Hok Hsp Hwf. pose proof Hwf as (Hd & _ & _).
  unfold verify_file. rewrite (size_test n d f Hwf). cbn [andb].
  split.
  - intros Hne. destruct (Nat.eqb (length d) (length f)) eqn:El; cbn [negb andb] in Hne; [|congruence].
    apply Nat.eqb_eq in El.
    destruct (loop_fast_shape f (n_content n) 0) as [E | [ms [E Ht]]]; rewrite E in Hne; [congruence|].
    pose proof (loop_sound true _ f 0 d ms Hsp Hd E Ht) as Hp.
    cbn [skipn] in Hp. rewrite El, firstn_all in Hp. exact Hp.
  - intros ->. rewrite Nat.eqb_refl. cbn [negb andb].
    destruct (loop_complete true (n_content n) d 0 d Hok Hd) as [ms [E _]].
    + cbn [skipn]. apply firstn_all.
    + rewrite E. discriminate.
Qed.

Lemma verify_fast_not_regular n o trust mt fast :
  (forall f, o <> FReg f) -> verify_file H size_of fast trust mt o n = VErr.
Proof. intros Hn. destruct o; try reflexivity. exfalso; apply (Hn data); reflexivity. Qed.

(* non-fail-fast verification (overwrite check of RestoreTo), mtime not trusted: NeedsRestore is false
   exactly for the snapshot's bytes *)
Lemma verify_slow_iff n d f mt :
  repo_ok -> sp_free (n_content n) -> wf_node n d ->
  (needs_restore (verify_file H size_of false false mt (FReg f) n) = false <-> f = d).
Proof.
  intros Hok Hsp Hwf. pose proof Hwf as (Hd & _ & _).
  unfold verify_file. rewrite (size_test n d f Hwf). cbn [andb]. rewrite andb_false_r.
  split.
  - destruct (loop H size_of false f 0 (n_content n)) as [|ms|ms] eqn:E; cbn [needs_restore negb]; try discriminate.
    destruct (Nat.eqb (length d) (length f)) eqn:El; cbn [negb]; [|discriminate].
    intros Hn. apply negb_false_iff in Hn. apply Nat.eqb_eq in El.
    pose proof (loop_sound false _ f 0 d ms Hsp Hd E Hn) as Hp.
    cbn [skipn] in Hp. rewrite El, firstn_all in Hp. exact Hp.
  - intros ->. rewrite Nat.eqb_refl.
    destruct (loop_complete false (n_content n) d 0 d Hok Hd) as [ms [E Ht]].
    + cbn [skipn]. apply firstn_all.
    + rewrite E. cbn [needs_restore negb]. unfold all_true in Ht. rewrite Ht. reflexivity.
Qed.

(* every kind of change is reported *)
Lemma verify_fast_changed n d f mt :
  repo_ok -> sp_free (n_content n) -> wf_node n d -> f <> d ->
  verify_file H size_of true false mt (FReg f) n = VErr.
Proof.
  intros Hok Hsp Hwf Hne.
  destruct (verify_file H size_of true false mt (FReg f) n) eqn:E; [reflexivity|].
  exfalso. apply Hne. apply (verify_fast_iff n d f mt Hok Hsp Hwf). rewrite E. discriminate.
Qed.

Lemma byte_change_ne (pre post : bytes) (a b : N) : a <> b -> pre ++ b :: post <> pre ++ a :: post.
Proof. intros Hab He. apply app_inv_head in He. inversion He. congruence. Qed.

Lemma truncation_ne (keep cut : bytes) : cut <> [] -> keep <> keep ++ cut.
Proof.
  intros Hc He. apply (f_equal (@length N)) in He. rewrite app_length in He.
  destruct cut; [congruence | cbn in He; lia].
Qed.

(* ---------- VerifyFiles ---------- *)
Lemma intact_iff o n d : blob_data bt (n_content n) = Some d -> (intact bt o n = true <-> o = FReg d).
Proof.
  intros Hd. unfold intact. rewrite Hd. destruct o; try (split; [discriminate | intros E; inversion E]).
  rewrite bytes_eqb_spec. split; [intros ->; reflexivity | intros E; inversion E; reflexivity].
Qed.

Definition job_wf (e : entry) : Prop := exists d, wf_node (e_node e) d /\ sp_free (n_content (e_node e)).

Lemma job_ok_intact e : repo_ok -> job_wf e -> job_ok H size_of ow e = e_intact bt e.
Proof.
  intros Hok [d [Hwf Hsp]]. pose proof Hwf as (Hd & _ & _).
  unfold job_ok, verify_trust, e_intact, intact. rewrite Hd.
  destruct (e_obj e) as [| | |f] eqn:Eo; try reflexivity.
  destruct (bytes_eqb f d) eqn:Ef.
  - apply bytes_eqb_spec in Ef. subst f.
    destruct (verify_file H size_of true false (e_mteq e) (FReg d) (e_node e)) eqn:E; [|reflexivity].
    exfalso. apply (verify_fast_iff (e_node e) d d (e_mteq e) Hok Hsp Hwf); [reflexivity | exact E].
  - assert (Hne : f <> d) by (intros ->; rewrite bytes_eqb_refl in Ef; discriminate).
    rewrite (verify_fast_changed _ d f (e_mteq e) Hok Hsp Hwf Hne). reflexivity.
Qed.

Lemma run_abort_spec js : forall cnt,
  fst (run_abort H size_of ow js cnt) = forallb (job_ok H size_of ow) js /\
  (fst (run_abort H size_of ow js cnt) = true -> snd (run_abort H size_of ow js cnt) = (cnt + N.of_nat (length js))%N) /\
  (fst (run_abort H size_of ow js cnt) = false ->
     (snd (run_abort H size_of ow js cnt) < cnt + N.of_nat (length js))%N /\
     (snd (run_abort H size_of ow js cnt) <= cnt + N.of_nat (length (filter (job_ok H size_of ow) js)))%N).
Proof.
  induction js as [|j r IH]; intros cnt; cbn [run_abort forallb filter].
  - cbn. repeat split; try discriminate. lia.
  - destruct (job_ok H size_of ow j) eqn:Ej; cbn [andb].
    + destruct (IH (cnt + 1)%N) as (I1 & I2 & I3). repeat split.
      * exact I1.
      * intros Ht. rewrite (I2 Ht). cbn [length]. lia.
      * destruct (I3 H0) as [A _]. cbn [length]. lia.
      * destruct (I3 H0) as [_ B]. cbn [length]. lia.
    + cbn [fst snd]. repeat split; try discriminate; cbn [length]; lia.
Qed.

Definition jobs_wf (fl : filelist) (es : list entry) : Prop := forall e, In e (jobs fl es) -> job_wf e.

Lemma forallb_ext_in {A} (f g : A -> bool) l : (forall x, In x l -> f x = g x) -> forallb f l = forallb g l.
Proof.
  induction l as [|x l IH]; intros Hx; cbn [forallb]; [reflexivity|].
  rewrite (Hx x (or_introl eq_refl)), IH; [reflexivity|]. intros y Hy; apply Hx; right; exact Hy.
Qed.

Lemma filter_ext_in' {A} (f g : A -> bool) l : (forall x, In x l -> f x = g x) -> filter f l = filter g l.
Proof.
  induction l as [|x l IH]; intros Hx; cbn [filter]; [reflexivity|].
  rewrite (Hx x (or_introl eq_refl)), IH; [reflexivity|]. intros y Hy; apply Hx; right; exact Hy.
Qed.

(* abort mode: no error iff every restored (tracked, not metadata-only) regular file is intact;
   on success every job was counted, on failure fewer than all and at most the intact ones *)
Lemma verify_all_iff fl es :
  repo_ok -> jobs_wf fl es ->
  let r := verify_files_abort H size_of ow fl es in
  (fst r = true <-> forall e, In e (jobs fl es) -> e_intact bt e = true) /\
  (fst r = true -> snd r = N.of_nat (length (jobs fl es))) /\
  (fst r = false -> (snd r < N.of_nat (length (jobs fl es)))%N /\
                    (snd r <= N.of_nat (length (filter (e_intact bt) (jobs fl es))))%N).
Proof.
  intros Hok Hwf r. subst r. unfold verify_files_abort.
  destruct (run_abort_spec (jobs fl es) 0%N) as (I1 & I2 & I3).
  assert (Hext : forall e, In e (jobs fl es) -> job_ok H size_of ow e = e_intact bt e)
    by (intros e He; apply job_ok_intact; [exact Hok | apply Hwf; exact He]).
  repeat split.
  - intros Ht e He. rewrite I1, forallb_forall in Ht. rewrite <- Hext by exact He. apply Ht; exact He.
  - intros Hall. rewrite I1. apply forallb_forall. intros e He. rewrite Hext by exact He. apply Hall; exact He.
  - intros Ht. rewrite (I2 Ht). lia.
  - destruct (I3 H0) as [A _]. lia.
  - destruct (I3 H0) as [_ B]. rewrite (filter_ext_in' _ _ _ Hext) in B. lia.
Qed.

(* collect mode (the Error callback of cmd_restore swallows each error): exactly the differing files are reported *)
Lemma verify_collect_exact fl es :
  repo_ok -> jobs_wf fl es ->
  fst (verify_files_collect H size_of ow fl es)
  = map e_loc (filter (fun e => negb (e_intact bt e)) (jobs fl es)).
Proof.
  intros Hok Hwf. unfold verify_files_collect. cbn [fst]. f_equal.
  apply filter_ext_in'. intros e He. f_equal. apply job_ok_intact; [exact Hok | apply Hwf; exact He].
Qed.

End Verify.

(* ---------- oracle: meaning, and the model always satisfies it ---------- *)
Section Oracle.
Variable H : bytes -> id.
Variable bt : blobtab.
Variable vow : overwrite.
Notation size_of := (lookup_size bt).

Lemma wf_nodeb_spec n : wf_nodeb bt n = true <-> exists d, wf_node bt n d.
Proof.
  unfold wf_nodeb, wf_node. destruct (blob_data bt (n_content n)) as [d|].
  - rewrite andb_true_iff, N.eqb_eq, N.ltb_lt. split.
    + intros [A B]. exists d. repeat split; assumption.
    + intros [d' (E & A & B)]. inversion E; subst d'. split; assumption.
  - split; [discriminate | intros [d (E & _)]; discriminate].
Qed.

(* RestoreTo's tracking: unless size+mtime are trusted (if-changed), a file recorded as metadata-only
   (content left alone, never verified afterwards) has exactly the snapshot's bytes *)
Lemma track_metadata_only_intact ow newer mteq o n d :
  repo_ok H bt -> sp_free H bt (n_content n) -> wf_node bt n d -> ow <> OwIfChanged ->
  track H size_of ow newer mteq o n = Some true -> o = FReg d.
Proof.
  intros Hok Hsp Hwf How. unfold track.
  destruct (should_overwrite ow _ newer); [|discriminate].
  assert (Etr : match ow with OwIfChanged => true | _ => false end = false) by (destruct ow; congruence).
  rewrite Etr. intros Ht. inversion Ht as [Hn]. apply negb_true_iff in Hn.
  destruct o as [| | |f]; try (cbn in Hn; discriminate).
  f_equal. apply (verify_slow_iff H bt n d f mteq Hok Hsp Hwf). exact Hn.
Qed.

(* and conversely an intact file is never rewritten when the overwrite policy lets restic look at it *)
Lemma track_intact_metadata_only ow newer mteq n d :
  repo_ok H bt -> sp_free H bt (n_content n) -> wf_node bt n d -> ow <> OwIfChanged ->
  should_overwrite ow true newer = true ->
  track H size_of ow newer mteq (FReg d) n = Some true.
Proof.
  intros Hok Hsp Hwf How Hso. unfold track. rewrite Hso.
  assert (Etr : match ow with OwIfChanged => true | _ => false end = false) by (destruct ow; congruence).
  rewrite Etr. f_equal. apply negb_true_iff.
  apply (verify_slow_iff H bt n d d mteq Hok Hsp Hwf). reflexivity.
Qed.

Lemma x_is_err_verify hl fast trust mteq o n :
  x_is_err (verify_file_x H size_of hl fast trust mteq o n) = is_err (verify_file H size_of fast trust mteq o n).
Proof.
  unfold verify_file_x. destruct (verify_file H size_of fast trust mteq o n) as [|bm szm]; cbn [is_err negb andb x_is_err]; [reflexivity|].
  destruct (negb fast && needs_restore (VState bm szm) && hl); reflexivity.
Qed.

(* the hard-link rule never changes whether the file is rewritten *)
Lemma x_needs_restore_verify hl fast trust mteq o n :
  x_needs_restore (verify_file_x H size_of hl fast trust mteq o n)
  = needs_restore (verify_file H size_of fast trust mteq o n).
Proof.
  unfold verify_file_x. destruct (verify_file H size_of fast trust mteq o n) as [|bm szm]; cbn [is_err negb andb x_needs_restore]; [reflexivity|].
  destruct (needs_restore (VState bm szm)) eqn:E; [|rewrite andb_false_r; cbn [andb x_needs_restore]; exact E].
  destruct (negb fast), hl; cbn [andb x_needs_restore]; congruence.
Qed.

(* in fail-fast mode (VerifyFiles) the hard-link rule is not applied at all *)
Lemma verify_file_x_fast hl trust mteq o n :
  verify_file_x H size_of hl true trust mteq o n = XRes (verify_file H size_of true trust mteq o n).
Proof. unfold verify_file_x. cbn [negb]. rewrite andb_false_r. reflexivity. Qed.

Lemma model_sat_oracle_file ht hl fast trust mteq o n :
  repo_ok H bt -> sp_free H bt (n_content n) ->
  check_C21 (CFile bt ht hl fast trust mteq o n (verify_file_x H size_of hl fast trust mteq o n)
                    (x_needs_restore (verify_file_x H size_of hl fast trust mteq o n))) = true.
Proof.
  intros Hok Hsp. unfold check_C21, oracle_code. rewrite x_is_err_verify, x_needs_restore_verify.
  destruct (wf_nodeb bt n) eqn:Ew; cbn [andb]; [|reflexivity].
  destruct trust; cbn [negb]; [reflexivity|].
  apply wf_nodeb_spec in Ew as [d Hwf]. pose proof Hwf as (Hd & _).
  assert (Hi : forall f, intact bt (FReg f) n = bytes_eqb f d) by (intros f; unfold intact; rewrite Hd; reflexivity).
  assert (Hni : forall o', (forall f, o' <> FReg f) -> intact bt o' n = false)
    by (intros o' Ho; unfold intact; destruct o'; try reflexivity; exfalso; apply (Ho data); reflexivity).
  destruct fast.
  - destruct o as [| | |f]; try (rewrite Hni by discriminate; reflexivity).
    rewrite Hi. destruct (bytes_eqb f d) eqn:Ef.
    + apply bytes_eqb_spec in Ef; subst f.
      destruct (verify_file H size_of true false mteq (FReg d) n) eqn:E; [|reflexivity].
      exfalso. apply (verify_fast_iff H bt n d d mteq Hok Hsp Hwf); [reflexivity | exact E].
    + assert (Hne : f <> d) by (intros ->; rewrite bytes_eqb_refl in Ef; discriminate).
      rewrite (verify_fast_changed H bt n d f mteq Hok Hsp Hwf Hne). reflexivity.
  - destruct o as [| | |f]; try (rewrite Hni by discriminate; reflexivity).
    rewrite Hi. destruct (bytes_eqb f d) eqn:Ef.
    + apply bytes_eqb_spec in Ef; subst f.
      assert (E : needs_restore (verify_file H size_of false false mteq (FReg d) n) = false)
        by (apply (verify_slow_iff H bt n d d mteq Hok Hsp Hwf); reflexivity).
      rewrite E. reflexivity.
    + destruct (needs_restore (verify_file H size_of false false mteq (FReg f) n)) eqn:E; [reflexivity|].
      apply (verify_slow_iff H bt n d f mteq Hok Hsp Hwf) in E. subst f.
      rewrite bytes_eqb_refl in Ef. discriminate.
Qed.

Lemma model_sat_oracle_all ht fl es :
  repo_ok H bt -> (forall e, In e (jobs fl es) -> sp_free H bt (n_content (e_node e))) ->
  let a := verify_files_abort H size_of vow fl es in
  let k := verify_files_collect H size_of vow fl es in
  check_C21 (CAll bt ht vow fl es (fst a) (snd a) (fst k) (snd k)) = true.
Proof.
  intros Hok Hsp a k. unfold check_C21, oracle_code.
  destruct (forallb (fun e => wf_nodeb bt (e_node e)) (jobs fl es)) eqn:Ew; [|reflexivity].
  assert (Hjw : jobs_wf H bt fl es).
  { intros e He. rewrite forallb_forall in Ew. specialize (Ew e He).
    apply wf_nodeb_spec in Ew as [d Hwf]. exists d. split; [exact Hwf | apply Hsp; exact He]. }
  destruct (verify_all_iff H bt vow fl es Hok Hjw) as (A1 & A2 & A3). fold a in A1, A2, A3.
  assert (E1 : fst a = forallb (e_intact bt) (jobs fl es)).
  { destruct (fst a) eqn:Ea.
    - symmetry. apply forallb_forall. apply A1. reflexivity.
    - destruct (forallb (e_intact bt) (jobs fl es)) eqn:Ef; [|reflexivity].
      rewrite forallb_forall in Ef. apply A1 in Ef. discriminate. }
  rewrite <- E1, Bool.eqb_reflx. cbn [negb].
  assert (E2 : (if fst a then N.eqb (snd a) (N.of_nat (length (jobs fl es)))
                else N.ltb (snd a) (N.of_nat (length (jobs fl es)))
                     && N.leb (snd a) (N.of_nat (length (filter (e_intact bt) (jobs fl es))))) = true).
  { destruct (fst a) eqn:Ea.
    - apply N.eqb_eq. apply A2. reflexivity.
    - destruct (A3 eq_refl) as [B1 B2]. apply andb_true_iff. split; [apply N.ltb_lt | apply N.leb_le]; assumption. }
  rewrite E2. cbn [negb].
  subst k. rewrite (verify_collect_exact H bt vow fl es Hok Hjw).
  assert (E3 : forall l, list_eqb bytes_eqb l l = true)
    by (intros l; apply (list_eqb_spec bytes_eqb bytes_eqb_spec); reflexivity).
  rewrite E3. reflexivity.
Qed.

Lemma model_sat_oracle_track ht ow newer mteq o n :
  repo_ok H bt -> sp_free H bt (n_content n) ->
  check_C21 (CTrack bt ht ow newer mteq o n (track H size_of ow newer mteq o n)) = true.
Proof.
  intros Hok Hsp. unfold check_C21, oracle_code.
  destruct (wf_nodeb bt n) eqn:Ew; [|reflexivity].
  apply wf_nodeb_spec in Ew as [d Hwf]. pose proof Hwf as (Hd & _).
  destruct (track H size_of ow newer mteq o n) as [[|]|] eqn:Et; destruct ow eqn:Eow; try reflexivity;
    (assert (How : ow <> OwIfChanged) by (rewrite Eow; discriminate); rewrite <- Eow in Et;
     rewrite (track_metadata_only_intact ow newer mteq o n d Hok Hsp Hwf How Et);
     unfold intact; rewrite Hd, bytes_eqb_refl; reflexivity).
Qed.

End Oracle.

(* what a passing oracle says about the implementation's observation (no hash involved) *)
Lemma oracle_file_fast_sound bt ht hl mteq o n obs nr d :
  check_C21 (CFile bt ht hl true false mteq o n obs nr) = true -> wf_node bt n d ->
  (x_is_err obs = false <-> o = FReg d).
Proof.
  intros Hc Hwf. pose proof Hwf as (Hd & _).
  unfold check_C21, oracle_code in Hc.
  assert (Ew : wf_nodeb bt n = true) by (apply wf_nodeb_spec; exists d; exact Hwf).
  rewrite Ew in Hc. cbn [andb negb] in Hc.
  destruct (Bool.eqb (negb (x_is_err obs)) (intact bt o n)) eqn:E; [|discriminate].
  apply eqb_prop in E. rewrite <- (intact_iff bt o n d Hd), <- E.
  destruct (x_is_err obs); cbn; split; congruence.
Qed.

Lemma oracle_file_slow_sound bt ht hl mteq o n obs nr d :
  check_C21 (CFile bt ht hl false false mteq o n obs nr) = true -> wf_node bt n d ->
  (nr = false <-> o = FReg d).
Proof.
  intros Hc Hwf. pose proof Hwf as (Hd & _).
  unfold check_C21, oracle_code in Hc.
  assert (Ew : wf_nodeb bt n = true) by (apply wf_nodeb_spec; exists d; exact Hwf).
  rewrite Ew in Hc. cbn [andb negb] in Hc.
  destruct (Bool.eqb (negb nr) (intact bt o n)) eqn:E; [|discriminate].
  apply eqb_prop in E. rewrite <- (intact_iff bt o n d Hd), <- E.
  destruct nr; cbn; split; congruence.
Qed.

Lemma oracle_all_sound bt ht ow fl es ok cnt rep cnt2 :
  check_C21 (CAll bt ht ow fl es ok cnt rep cnt2) = true ->
  (forall e, In e (jobs fl es) -> exists d, wf_node bt (e_node e) d) ->
  (ok = true <-> forall e, In e (jobs fl es) -> e_intact bt e = true) /\
  (ok = true -> cnt = N.of_nat (length (jobs fl es))) /\
  (ok = false -> (cnt < N.of_nat (length (jobs fl es)))%N) /\
  rep = map e_loc (filter (fun e => negb (e_intact bt e)) (jobs fl es)).
Proof.
  intros Hc Hwf. unfold check_C21, oracle_code in Hc.
  assert (Ew : forallb (fun e => wf_nodeb bt (e_node e)) (jobs fl es) = true)
    by (apply forallb_forall; intros e He; apply wf_nodeb_spec; apply Hwf; exact He).
  rewrite Ew in Hc.
  destruct (Bool.eqb ok (forallb (e_intact bt) (jobs fl es))) eqn:E1; cbn [negb] in Hc; [|discriminate].
  apply eqb_prop in E1.
  destruct (if ok then _ else _) eqn:E2 in Hc; cbn [negb] in Hc; [|discriminate].
  destruct (list_eqb bytes_eqb rep _) eqn:E3 in Hc; cbn [negb] in Hc; [|discriminate].
  apply (list_eqb_spec bytes_eqb bytes_eqb_spec) in E3.
  repeat split.
  - intros Hok e He. rewrite E1 in Hok. rewrite forallb_forall in Hok. apply Hok; exact He.
  - intros Hall. rewrite E1. apply forallb_forall. exact Hall.
  - intros Hok. rewrite Hok in E2. apply N.eqb_eq in E2. exact E2.
  - intros Hok. rewrite Hok in E2. apply andb_true_iff in E2 as [E2 _]. apply N.ltb_lt in E2. exact E2.
  - exact E3.
Qed.

(* any processing order of the jobs (worker schedule) gives the same verdict *)
Lemma verdict_perm H sz ow (js js' : list entry) :
  Permutation js js' -> forallb (job_ok H sz ow) js = forallb (job_ok H sz ow) js'.
Proof.
  induction 1 as [|x l l' _ IH|x y l|l l' l'' _ IH1 _ IH2]; cbn [forallb].
  - reflexivity.
  - rewrite IH. reflexivity.
  - destruct (job_ok H sz ow x), (job_ok H sz ow y); reflexivity.
  - rewrite IH1. exact IH2.
Qed.

(* ---------- non-vacuity ---------- *)
Module Ex.
Definition bA : bytes := [1;2;3]%N.
Definition bB : bytes := [4;5]%N.
Definition bE : bytes := [].
Definition bt : blobtab := [(1, bA); (2, bB); (3, bE)]%N.
Definition ht : list (bytes * id) := [(bA, 1); (bB, 2); (bE, 3); ([1;2;9], 7); ([1;2], 8); ([3;4], 9)]%N.
Definition n1 := mkNode 5 [1; 3; 2]%N.
Definition good : bytes := [1;2;3;4;5]%N.
End Ex.

From Coq Require Import String.
Example c21_nonvacuous :
  wf_nodeb Ex.bt Ex.n1 = true
  /\ verify_file (tab_hash Ex.ht) (lookup_size Ex.bt) true false false (FReg Ex.good) Ex.n1
     = VState (Some [true; true; true]) true
  /\ verify_file (tab_hash Ex.ht) (lookup_size Ex.bt) true false false (FReg [1;2;9;4;5]%N) Ex.n1 = VErr
  /\ verify_file (tab_hash Ex.ht) (lookup_size Ex.bt) true false false (FReg [1;2;3;4]%N) Ex.n1 = VErr
  /\ verify_file (tab_hash Ex.ht) (lookup_size Ex.bt) true false false (FReg [1;2;3;4;5;0]%N) Ex.n1 = VErr
  /\ verify_file (tab_hash Ex.ht) (lookup_size Ex.bt) false false false (FReg [1;2;9;4;5]%N) Ex.n1
     = VState (Some [false; true; true]) true
  /\ verify_file (tab_hash Ex.ht) (lookup_size Ex.bt) false false false (FReg [1;2;3;4]%N) Ex.n1
     = VState (Some [true; true; false]) false
  /\ verify_files_abort (tab_hash Ex.ht) (lookup_size Ex.bt) OwIfChanged
       [(str "/a"%string, false); (str "/b"%string, true)]
       [mkEntry (str "/a"%string) true Ex.n1 (FReg Ex.good) true; mkEntry (str "/b"%string) true Ex.n1 (FReg []) true;
        mkEntry (str "/c"%string) true Ex.n1 FAbsent false] = (true, 1%N)
  /\ track (tab_hash Ex.ht) (lookup_size Ex.bt) OwAlways false false (FReg Ex.good) Ex.n1 = Some true
  /\ track (tab_hash Ex.ht) (lookup_size Ex.bt) OwNever false false (FReg Ex.good) Ex.n1 = None.
Proof. vm_compute. repeat split. Qed.
