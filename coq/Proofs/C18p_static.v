(* C18 proofs, part 4: the traversal always produces a well-formed event list (static, no file system). *)
From Restic Require Import Base.Prelude Model.C18m Proofs.C18p Proofs.C18p_main.
Import C18m.

(* ---- byte-wise order ---- *)
Ltac ltb_cases :=
  repeat match goal with
         | H : context [N.ltb ?a ?b] |- _ => destruct (N.ltb_spec a b)
         | |- context [N.ltb ?a ?b] => destruct (N.ltb_spec a b)
         end.

Lemma bytes_leb_refl a : bytes_leb a a = true.
Proof. induction a as [|x a IH]; cbn [bytes_leb]; [reflexivity|]. rewrite N.ltb_irrefl. exact IH. Qed.

Lemma bytes_leb_total a : forall b, bytes_leb a b = false -> bytes_leb b a = true.
Proof.
  induction a as [|x a IH]; intros [|y b]; cbn [bytes_leb]; try discriminate; try reflexivity.
  intros H. ltb_cases; try discriminate; try reflexivity; try lia. apply IH; exact H.
Qed.

Lemma bytes_leb_trans a : forall b c, bytes_leb a b = true -> bytes_leb b c = true -> bytes_leb a c = true.
Proof.
  induction a as [|x a IH]; intros [|y b] [|z c]; cbn [bytes_leb]; try discriminate; try reflexivity.
  intros H1 H2. ltb_cases; try discriminate; try reflexivity; try lia. eapply IH; eauto.
Qed.

(* m > n > last  =>  m > last *)
Lemma gt_trans m n last : bytes_leb m n = false -> bytes_leb n last = false -> bytes_leb m last = false.
Proof.
  intros H1 H2. destruct (bytes_leb m last) eqn:E; [|reflexivity].
  pose proof (bytes_leb_total _ _ H2) as H3.
  rewrite (bytes_leb_trans _ _ _ E H3) in H1. discriminate.
Qed.

(* ---- positions ---- *)
Definition pos (e : ev) : path :=
  match e with EvVisit d nd _ => d ++ [node_name nd] | _ => ev_dir e end.

Lemma dir_pos e : prefixb (ev_dir e) (pos e) = true.
Proof. destruct e; cbn [ev_dir pos]; [apply prefixb_refl | apply prefixb_app | apply prefixb_refl]. Qed.

Definition under (d : path) (n : name) (e : ev) : Prop := prefixb (d ++ [n]) (pos e) = true.

Lemma two_prefix (d : path) n m x : prefixb (d ++ [n]) x = true -> prefixb (d ++ [m]) x = true -> n = m.
Proof.
  rewrite !prefixb_spec. intros [r1 ->] [r2 E]. rewrite <- !app_assoc in E. apply app_inv_head in E.
  cbn in E. inversion E; reflexivity.
Qed.

Lemma mem_name_In n l : mem_name n l = true <-> In n l.
Proof.
  induction l as [|x l IH]; cbn [mem_name In]; [split; [discriminate | intros []]|].
  rewrite orb_true_iff, IH, bytes_eqb_spec. split; intros [H | H]; auto.
Qed.

(* ---- pairwise compatibility ---- *)
Definition Compat (e1 e2 : ev) : Prop :=
  match e1 with
  | EvEnter _ => True
  | EvVisit d1 nd1 _ =>
      prefixb (d1 ++ [node_name nd1]) (ev_dir e2) = false /\
      (pos e1 = pos e2 -> (exists d2 nd2 l2, e2 = EvVisit d2 nd2 l2) -> e1 = e2)
  | EvLeave dl _ _ keep =>
      forall x, prefixb (dl ++ [x]) (pos e2) = true -> mem_name x keep = true
  end.

Definition Good (E : list ev) : Prop :=
  (forall e1 e2, In e1 E -> In e2 E -> Compat e1 e2) /\
  (forall d nd loc, In (EvVisit d nd loc) E -> loc = d ++ [node_name nd]) /\
  (forall d mo loc keep, In (EvLeave d mo loc keep) E -> exists y, In y (ensured_of E) /\ prefixb d y = true).

Lemma compat_cross d n m e1 e2 : under d n e1 -> under d m e2 -> n <> m -> Compat e1 e2.
Proof.
  unfold under. intros H1 H2 Hne. destruct e1 as [d1 | d1 nd1 l1 | dl mo l keep]; cbn [Compat pos ev_dir] in *.
  - exact I.
  - split.
    + destruct (prefixb (d1 ++ [node_name nd1]) (ev_dir e2)) eqn:E; [|reflexivity].
      exfalso. apply Hne. apply (two_prefix d n m (pos e2)); [|exact H2].
      eapply prefixb_trans; [exact H1|]. eapply prefixb_trans; [exact E | apply dir_pos].
    + intros E _. exfalso. apply Hne. apply (two_prefix d n m (pos e2)); [|exact H2]. rewrite <- E. exact H1.
  - intros x Hx. exfalso. apply Hne. apply (two_prefix d n m (pos e2)); [|exact H2].
    eapply prefixb_trans; [exact H1|]. eapply prefixb_trans; [apply prefixb_app | exact Hx].
Qed.

Lemma ensured_of_app' a b : ensured_of (a ++ b) = ensured_of a ++ ensured_of b.
Proof. unfold ensured_of. apply flat_map_app. Qed.

Definition Sub (d : path) (K : list name) (E : list ev) : Prop :=
  forall e, In e E -> exists k, mem_name k K = true /\ under d k e.

Lemma Good_nil : Good [].
Proof. split; [intros e1 e2 []|]. split; [intros d nd loc []|intros d mo loc keep []]. Qed.

Lemma Good_app E1 E2 d n K2 :
  Good E1 -> Good E2 -> (forall e, In e E1 -> under d n e) -> Sub d K2 E2 ->
  (forall m, mem_name m K2 = true -> m <> n) -> Good (E1 ++ E2).
Proof.
  intros [C1 [L1 N1]] [C2 [L2 N2]] H1 H2 Hne. split; [|split].
  - intros e1 e2 I1 I2. apply in_app_or in I1. apply in_app_or in I2.
    destruct I1 as [I1 | I1], I2 as [I2 | I2].
    + apply C1; assumption.
    + destruct (H2 _ I2) as [m [Hm Hu]]. eapply compat_cross; [apply H1; exact I1 | exact Hu |].
      intros E. apply (Hne m Hm). symmetry; exact E.
    + destruct (H2 _ I1) as [m [Hm Hu]]. eapply compat_cross; [exact Hu | apply H1; exact I2 | apply Hne; exact Hm].
    + apply C2; assumption.
  - intros dd nd loc I. apply in_app_or in I as [I | I]; [eapply L1 | eapply L2]; eauto.
  - intros dd mo loc keep I. rewrite ensured_of_app'. apply in_app_or in I as [I | I].
    + destruct (N1 _ _ _ _ I) as [y [Hy Hp]]. exists y. split; [apply in_or_app; left; exact Hy | exact Hp].
    + destruct (N2 _ _ _ _ I) as [y [Hy Hp]]. exists y. split; [apply in_or_app; right; exact Hy | exact Hp].
Qed.

(* an ensured directory of an event under d/k lies at or below d *)
Lemma under_ensured d k e y : under d k e -> In y (ensured_of [e]) -> prefixb d y = true.
Proof.
  unfold under. intros Hu Hy. destruct e as [d1 | d1 nd1 l1 | dl mo l keep]; cbn in Hy; try (destruct Hy as [<- | []]).
  - cbn [pos ev_dir] in Hu. eapply prefixb_trans; [apply prefixb_app | exact Hu].
  - cbn [pos] in Hu. apply prefix_snoc in Hu as [Hu | Hu].
    + apply app_inj_tail in Hu as [-> _]. apply prefixb_refl.
    + eapply prefixb_trans; [apply prefixb_app | exact Hu].
  - destruct Hy.
Qed.

Lemma ensured_in E y : In y (ensured_of E) -> exists e, In e E /\ In y (ensured_of [e]).
Proof.
  unfold ensured_of. intros H. apply in_flat_map in H as [e [He Hy]]. exists e. split; [exact He|].
  cbn. rewrite app_nil_r. exact Hy.
Qed.

(* wrapping the events of the children of d' with enterDir / leaveDir of d' *)
Lemma wrap_ok d' K E (s lv : bool) mo loc :
  Good E -> Sub d' K E -> (lv = true -> s = true \/ ensured_of E <> []) ->
  Good ((if s then [EvEnter d'] else []) ++ E ++ (if lv then [EvLeave d' mo loc K] else [])).
Proof.
  intros [C [L N]] HS Hlvc.
  set (pre := if s then [EvEnter d'] else []). set (post := if lv then [EvLeave d' mo loc K] else []).
  assert (Hpre : forall e, In e pre -> e = EvEnter d') by (unfold pre; destruct s; intros e He; [destruct He as [<- | []]; reflexivity | destruct He]).
  assert (Hpost : forall e, In e post -> e = EvLeave d' mo loc K) by (unfold post; destruct lv; intros e He; [destruct He as [<- | []]; reflexivity | destruct He]).
  (* an event of E is compatible with the events of d' itself *)
  assert (Hroot : forall e1 e2, In e1 E -> pos e2 = d' -> ev_dir e2 = d' ->
                    (forall d2 nd2 l2, e2 <> EvVisit d2 nd2 l2) -> Compat e1 e2).
  { intros e1 e2 I1 Hp Hd Hnv. destruct (HS _ I1) as [k [_ Hu]]. unfold under in Hu.
    assert (Hno : forall q, prefixb (d' ++ [k]) q = true -> prefixb q d' = false).
    { intros q Hq. destruct (prefixb q d') eqn:E1; [|reflexivity].
      pose proof (snoc_not_prefix d' k) as Hc.
      rewrite (prefixb_trans _ _ _ Hq E1) in Hc. discriminate. }
    destruct e1 as [d1 | d1 nd1 l1 | dl mo1 l1 keep1]; cbn [Compat pos ev_dir] in *.
    - exact I.
    - split; [rewrite Hd; apply Hno; exact Hu|].
      intros _ [d2 [nd2 [l2 E2]]]. exfalso. eapply Hnv; exact E2.
    - intros x Hx. exfalso. rewrite Hp in Hx.
      assert (Hq : prefixb (d' ++ [k]) (dl ++ [x]) = true) by (eapply prefixb_trans; [exact Hu | apply prefixb_app]).
      rewrite (Hno _ Hq) in Hx. discriminate. }
  (* leaveDir of d' is compatible with everything *)
  assert (Hleave : forall e2, (In e2 E \/ pos e2 = d') -> Compat (EvLeave d' mo loc K) e2).
  { intros e2 H2. cbn [Compat]. intros x Hx. destruct H2 as [I2 | Hp].
    - destruct (HS _ I2) as [k [Hk Hu]]. rewrite (two_prefix d' x k (pos e2) Hx Hu). exact Hk.
    - rewrite Hp in Hx. rewrite snoc_not_prefix in Hx. discriminate. }
  split; [|split].
  - intros e1 e2 I1 I2.
    apply in_app_or in I1 as [I1 | I1]; [rewrite (Hpre _ I1); exact I|].
    apply in_app_or in I1 as [I1 | I1].
    + apply in_app_or in I2 as [I2 | I2]; [|apply in_app_or in I2 as [I2 | I2]].
      * rewrite (Hpre _ I2). apply Hroot; [exact I1 | reflexivity | reflexivity | intros; discriminate].
      * apply C; assumption.
      * rewrite (Hpost _ I2). apply Hroot; [exact I1 | reflexivity | reflexivity | intros; discriminate].
    + rewrite (Hpost _ I1). apply Hleave.
      apply in_app_or in I2 as [I2 | I2]; [right; rewrite (Hpre _ I2); reflexivity|].
      apply in_app_or in I2 as [I2 | I2]; [left; exact I2 | right; rewrite (Hpost _ I2); reflexivity].
  - intros d nd l I. apply in_app_or in I as [I | I]; [specialize (Hpre _ I); discriminate|].
    apply in_app_or in I as [I | I]; [eapply L; exact I | specialize (Hpost _ I); discriminate].
  - intros d mo1 l keep I. rewrite !ensured_of_app'.
    apply in_app_or in I as [I | I]; [specialize (Hpre _ I); discriminate|].
    apply in_app_or in I as [I | I].
    + destruct (N _ _ _ _ I) as [y [Hy Hp]]. exists y. split; [|exact Hp].
      apply in_or_app; right. apply in_or_app; left. exact Hy.
    + pose proof (Hpost _ I) as E1. inversion E1; subst d mo1 l keep.
      assert (Hlv : lv = true) by (unfold post in I; destruct lv; [reflexivity | destruct I]).
      destruct (Hlvc Hlv) as [Hs | Hne].
      * exists d'. split; [|apply prefixb_refl]. apply in_or_app; left. unfold pre. rewrite Hs. left; reflexivity.
      * assert (Hex : exists y, In y (ensured_of E)).
        { destruct (ensured_of E) as [|y ys]; [contradiction | exists y; left; reflexivity]. }
        destruct Hex as [y Hy].
        destruct (ensured_in _ _ Hy) as [e [He Hye]]. destruct (HS _ He) as [k [_ Hu]].
        exists y. split; [apply in_or_app; right; apply in_or_app; left; exact Hy | eapply under_ensured; eauto].
Qed.

(* ---- nested induction on nodes ---- *)
Section NodeInd.
Variable Pn : node -> Prop.
Hypothesis HFile : forall n c m, Pn (NFile n c m).
Hypothesis HDir : forall n m sub, Forall Pn sub -> Pn (NDir n m sub).
Hypothesis HLink : forall n t, Pn (NLink n t).
Hypothesis HSpec : forall n m, Pn (NSpec n m).
Hypothesis HSock : forall n, Pn (NSock n).
Hypothesis HHard : forall n c m ino, Pn (NHard n c m ino).
Fixpoint node_ind2 (nd : node) : Pn nd :=
  match nd with
  | NFile n c m => HFile n c m
  | NDir n m sub =>
      HDir n m sub ((fix go (l : list node) : Forall Pn l :=
                       match l with
                       | [] => Forall_nil Pn
                       | x :: r => Forall_cons x (node_ind2 x) (go r)
                       end) sub)
  | NLink n t => HLink n t
  | NSpec n m => HSpec n m
  | NSock n => HSock n
  | NHard n c m ino => HHard n c m ino
  end.
End NodeInd.

(* what one accepted node contributes *)
Definition NodeOK (d : path) (nd : node) (x : tres) : Prop :=
  Good (t_evs x) /\ (forall e, In e (t_evs x) -> under d (node_name nd) e) /\ (t_restored x = true -> ensured_of (t_evs x) <> []).

Definition LoopOK (d : path) (first : bool) (last : name) (t : tres) : Prop :=
  Good (t_evs t) /\ Sub d (t_names t) (t_evs t) /\ (first = false -> forall m, mem_name m (t_names t) = true -> bytes_leb m last = false) /\ (t_restored t = true -> ensured_of (t_evs t) <> []).

Lemma Sub_cons d n K E : Sub d K E -> Sub d (n :: K) E.
Proof.
  intros H e He. destruct (H e He) as [k [Hk Hu]]. exists k. split; [|exact Hu].
  cbn [mem_name]. rewrite Hk. apply orb_true_r.
Qed.

Lemma tloop_ok d f l : (forall nd, In nd l -> NodeOK d nd (f nd)) ->
  forall first last, LoopOK d first last (tloop f l first last).
Proof.
  induction l as [|nd r IH]; intros Hf first last.
  - cbn [tloop]. split; [apply Good_nil|]. split; [intros e []|]. split; [intros _ m Hm; discriminate | discriminate].
  - assert (Hfr : forall x, In x r -> NodeOK d x (f x)) by (intros x Hx; apply Hf; right; exact Hx).
    cbn [tloop]. unfold LoopOK. set (n := node_name nd).
    destruct (andb (negb first) (bytes_leb n last)) eqn:Eord.
    + (* rejected: not in ascending order *)
      destruct (IH Hfr first last) as [G [S [O R]]]. cbn [t_evs t_names t_restored]. split; [exact G|]. split; [exact S|]. split; [exact O | exact R].
    + assert (Hn : first = false -> bytes_leb n last = false).
      { intros ->. cbn [negb andb] in Eord. exact Eord. }
      destruct (IH Hfr false n) as [G [S [O R]]]. specialize (O eq_refl).
      assert (Hnames : first = false -> forall m, mem_name m (n :: t_names (tloop f r false n)) = true -> bytes_leb m last = false).
      { intros Hfirst m Hm. cbn [mem_name] in Hm. apply orb_true_iff in Hm as [Hm | Hm].
        - apply bytes_eqb_spec in Hm. subst m. apply Hn; exact Hfirst.
        - eapply gt_trans; [apply O; exact Hm | apply Hn; exact Hfirst]. }
      destruct (negb (valid_name n)) eqn:Ev.
      * (* invalid name: tracked, nothing visited *)
        cbn [t_evs t_names t_restored]. split; [exact G|]. split; [apply Sub_cons; exact S|]. split; [exact Hnames | exact R].
      * destruct (Hf nd (or_introl eq_refl)) as [Gx [Ux Rx]]. fold n in Ux.
        cbv zeta. cbn [t_evs t_names t_restored]. split; [|split; [|split]].
        -- eapply (Good_app _ _ d n); [exact Gx | exact G | exact Ux | exact S |].
           intros m Hm E. subst m. specialize (O n Hm). rewrite bytes_leb_refl in O. discriminate.
        -- intros e He. apply in_app_or in He as [He | He].
           ++ exists n. split; [apply mem_name_In; left; reflexivity | apply Ux; exact He].
           ++ apply (Sub_cons d n _ _ S e He).
        -- exact Hnames.
        -- intros Hr. rewrite ensured_of_app'. apply orb_true_iff in Hr as [Hr | Hr].
           ++ specialize (Rx Hr). destruct (ensured_of (t_evs (f nd))); [contradiction | discriminate].
           ++ specialize (R Hr). destruct (ensured_of (t_evs (tloop f r false n))); [contradiction|].
              destruct (ensured_of (t_evs (f nd))); discriminate.
Qed.

Lemma tnode_ok sel nd : forall d, NodeOK d nd (tnode sel d d nd).
Proof.
  induction nd as [n c m | n m sub IH | n tg | n m | n | n c m ino] using node_ind2; intros d.
  2: { (* directory *)
    cbn [tnode node_name]. destruct (sel (d ++ [n]) true) as [s ch] eqn:Es.
    set (d' := d ++ [n]).
    set (t := if ch then tloop (tnode sel d' d') sub true [] else mkT [] [] false false).
    assert (Ht : LoopOK d' true [] t).
    { unfold t. destruct ch.
      - apply tloop_ok. intros x Hx. rewrite Forall_forall in IH. apply IH; exact Hx.
      - split; [apply Good_nil|]. split; [intros e []|]. split; [discriminate | discriminate]. }
    destruct Ht as [G [S [_ R]]].
    unfold NodeOK. cbv zeta. cbn [t_evs t_restored].
    assert (Hw : Good ((if s then [EvEnter d'] else []) ++ t_evs t ++
                       (if orb s (t_restored t) then [EvLeave d' (Some m) d' (t_names t)] else []))).
    { apply wrap_ok; [exact G | exact S|]. intros H. apply orb_true_iff in H as [H | H]; [left; exact H | right; apply R; exact H]. }
    split; [exact Hw|]. split.
    - intros e He. unfold under. apply in_app_or in He as [He | He].
      + destruct s; [|destruct He]. destruct He as [<- | []]. cbn [pos ev_dir]. apply prefixb_refl.
      + apply in_app_or in He as [He | He].
        * destruct (S e He) as [k [_ Hu]]. unfold under in Hu. eapply prefixb_trans; [apply prefixb_app | exact Hu].
        * destruct (orb s (t_restored t)); [|destruct He]. destruct He as [<- | []]. cbn [pos ev_dir]. apply prefixb_refl.
    - intros Hr. rewrite !ensured_of_app'. apply orb_true_iff in Hr as [Hr | Hr].
      + rewrite Hr. discriminate.
      + specialize (R Hr). destruct (ensured_of (t_evs t)); [contradiction|].
        destruct (ensured_of (if s then [EvEnter d'] else [])); discriminate. }
  all: cbn [tnode node_name]; unfold NodeOK.
  4: { split; [apply Good_nil|]. split; [intros e []|discriminate]. }
  all: destruct (sel (d ++ [_]) false) as [s ch] eqn:Es; cbn [t_evs t_restored];
    (destruct s;
     [ split; [|split]
     | split; [apply Good_nil|]; split; [intros e [] | discriminate] ]).
  all: try (intros e [<- | []]; unfold under; cbn [pos node_name]; apply prefixb_refl).
  all: try (intros _; cbn; discriminate).
  all: split; [|split; [intros dd nd0 l [E | []]; inversion E; reflexivity | intros dd mo l k [E | []]; discriminate]].
  all: intros e1 e2 [<- | []] [<- | []]; cbn [Compat ev_dir pos node_name]; (split; [apply snoc_not_prefix | intros; reflexivity]).
Qed.

Theorem traverse_good sel tree : Good (t_evs (traverse sel tree)).
Proof.
  unfold traverse. cbn [t_evs].
  set (t := tloop (tnode sel [] []) tree true []).
  assert (Ht : LoopOK [] true [] t) by (apply tloop_ok; intros nd _; apply tnode_ok).
  destruct Ht as [G [S [_ R]]].
  change (EvEnter [] :: t_evs t ++ (if t_restored t then [EvLeave [] None [] (t_names t)] else []))
    with ((if true then [EvEnter []] else []) ++ t_evs t ++ (if t_restored t then [EvLeave [] None [] (t_names t)] else [])).
  apply wrap_ok; [exact G | exact S | intros _; left; reflexivity].
Qed.

(* ---- the facts the dynamic proof needs ---- *)
Section FromGood.
Variable evs : list ev.
Hypothesis HG : Good evs.
Let used := map ev_dir evs.

Lemma G_visit : forall d nd loc, In (EvVisit d nd loc) evs ->
  In d used /\ (forall X, In X used -> prefixb (d ++ [node_name nd]) X = false) /\ loc = d ++ [node_name nd].
Proof.
  destruct HG as [C [L _]]. intros d nd loc H. split; [apply (in_map ev_dir _ _ H)|]. split; [|eapply L; exact H].
  intros X HX. unfold used in HX. apply in_map_iff in HX as [e2 [<- H2]]. exact (proj1 (C _ _ H H2)).
Qed.

Lemma G_leave : forall d mo loc keep, In (EvLeave d mo loc keep) evs ->
  In d used /\
  (forall X e, In X used -> prefixb (d ++ [e]) X = true -> mem_name e keep = true) /\
  (forall d' nd' loc' e, In (EvVisit d' nd' loc') evs -> prefixb (d ++ [e]) (d' ++ [node_name nd']) = true ->
                         mem_name e keep = true).
Proof.
  destruct HG as [C _]. intros d mo loc keep H. split; [apply (in_map ev_dir _ _ H)|]. split.
  - intros X e HX Hp. unfold used in HX. apply in_map_iff in HX as [e2 [<- H2]].
    apply (C _ _ H H2 e). eapply prefixb_trans; [exact Hp | apply dir_pos].
  - intros d' nd' loc' e H2 Hp. exact (C _ _ H H2 e Hp).
Qed.

Lemma G_nodup : forall d1 nd1 l1 d2 nd2 l2, In (EvVisit d1 nd1 l1) evs -> In (EvVisit d2 nd2 l2) evs ->
  d1 ++ [node_name nd1] = d2 ++ [node_name nd2] -> nd1 = nd2.
Proof.
  destruct HG as [C _]. intros d1 nd1 l1 d2 nd2 l2 H1 H2 E.
  destruct (C _ _ H1 H2) as [_ Hc]. cbn [pos] in Hc.
  assert (Heq : EvVisit d1 nd1 l1 = EvVisit d2 nd2 l2) by (apply Hc; [exact E | eauto]).
  inversion Heq; reflexivity.
Qed.

Lemma G_leave_ens : forall d mo loc keep, In (EvLeave d mo loc keep) evs ->
  exists y, In y (ensured_of evs) /\ prefixb d y = true.
Proof. destruct HG as [_ [_ N]]. exact N. Qed.
End FromGood.
