(* Proofs about the shared glob model S_Glob (used by C28, C20, C27). All Qed, no axioms. *)
From Restic Require Import Base.Prelude Model.S_Glob.
Import S_Glob.

Section Generic.
Variable cm : bytes -> bytes -> cmres.

Notation pm := (pm cm).
Notation pmb := (pmb cm).
Notation rm := (rm cm).
Notation star_ok := (star_ok cm).
Notation ref_match := (ref_match cm).
Notation match_f := (match_f cm).
Notation match_parts := (match_parts cm).
Notation match_nodw := (match_nodw cm).
Notation child_match := (child_match cm).

(* ---------- prefix matching without "**" ---------- *)
Fixpoint pref (p : list part) (s : list bytes) : bool :=
  match p, s with
  | [], _ => true
  | x :: p', c :: s' => andb (pmb x c) (pref p' s')
  | _ :: _, [] => false
  end.

Definition nodw (p : list part) : Prop := Forall (fun x => is_dw x = false) p.

Lemma rm_nodw p : nodw p -> forall ne s, rm p ne s = andb (pref p s) (orb ne (negb (is_nil p))).
Proof.
  induction 1 as [|x p Hx Hp IH]; intros ne s; cbn [S_Glob.rm pref is_nil].
  - destruct ne; reflexivity.
  - rewrite Hx. destruct s as [|c s]; [reflexivity|].
    rewrite IH. cbn [orb negb]. rewrite orb_true_r, !andb_true_r. reflexivity.
Qed.

Lemma pref_len p s : pref p s = true -> length p <= length s.
Proof.
  revert s; induction p as [|x p IH]; intros [|c s] H; cbn [pref length] in *; try lia; try discriminate.
  apply andb_true_iff in H as [_ H]. apply IH in H. lia.
Qed.

Lemma pref_app_l p s e : pref p s = true -> pref p (s ++ e) = true.
Proof.
  revert s; induction p as [|x p IH]; intros [|c s] H; cbn [pref app] in *; try reflexivity; try discriminate.
  apply andb_true_iff in H as [H1 H2]. rewrite H1, (IH _ H2). reflexivity.
Qed.

(* a prefix pattern against a directory above a matching path *)
Lemma pref_firstn p s e : pref p (s ++ e) = true -> pref (firstn (length s) p) s = true.
Proof.
  revert s; induction p as [|x p IH]; intros [|c s] H; cbn [pref app firstn length] in *; try reflexivity.
  apply andb_true_iff in H as [H1 H2]. rewrite H1, (IH _ H2). reflexivity.
Qed.

Lemma pref_firstn_pat p n s : pref p s = true -> pref (firstn n p) s = true.
Proof.
  revert n s; induction p as [|x p IH]; intros [|n] [|c s] H; cbn [pref firstn] in *; try reflexivity; try discriminate.
  apply andb_true_iff in H as [H1 H2]. rewrite H1, (IH _ _ H2). reflexivity.
Qed.

Lemma pref_firstn_str p s n : pref p s = true -> length p <= n -> pref p (firstn n s) = true.
Proof.
  revert s n; induction p as [|x p IH]; intros [|c s] [|n] H L; cbn [pref firstn length] in *; try reflexivity; try discriminate; try lia.
  apply andb_true_iff in H as [H1 H2]. rewrite H1, (IH _ _ H2); [reflexivity | lia].
Qed.

(* ---------- win_chk / off_loop ---------- *)
Lemma win_chk_ok l b : win_chk cm l = Ok b ->
  b = forallb (fun pc => pmb (fst pc) (snd pc)) l.
Proof.
  induction l as [|[p c] l IH]; cbn [win_chk forallb fst snd]; intro H.
  - inversion H; reflexivity.
  - unfold S_Glob.pmb. destruct (pm p c) as [[|]| |]; try discriminate.
    + cbn [andb]. exact (IH H).
    + inversion H; reflexivity.
Qed.

Lemma forallb_rev {A} (f : A -> bool) l : forallb f (rev l) = forallb f l.
Proof.
  induction l as [|x l IH]; cbn [rev forallb]; [reflexivity|].
  rewrite forallb_app, IH. cbn [forallb]. rewrite andb_true_r, andb_comm. reflexivity.
Qed.

Lemma pref_combine p s : length p <= length s ->
  forallb (fun pc => pmb (fst pc) (snd pc)) (combine p s) = pref p s.
Proof.
  revert s; induction p as [|x p IH]; intros [|c s] L; cbn [combine forallb pref length fst snd] in *; try reflexivity; try lia.
  rewrite IH by lia. reflexivity.
Qed.

Lemma off_loop_true parts strs k off :
  off_loop cm parts strs k off = Ok true ->
  exists o, o <= off /\ S off - k <= o /\ pref parts (skipn o strs) = true.
Proof.
  revert off; induction k as [|k IH]; intros off H; cbn [off_loop] in H; [discriminate|].
  destruct (Nat.ltb (length strs) (off + length parts)) eqn:E; [discriminate|].
  apply Nat.ltb_ge in E.
  destruct (win_chk cm (rev (combine parts (skipn off strs)))) as [[|]| | | |] eqn:W; try discriminate.
  - apply win_chk_ok in W. rewrite forallb_rev, pref_combine in W by (rewrite skipn_length; lia).
    exists off. repeat split; [lia | lia | congruence].
  - apply IH in H as [o [H1 [H2 H3]]]. exists o. repeat split; [lia | lia | exact H3].
Qed.

Lemma off_loop_false parts strs k off :
  off_loop cm parts strs k off = Ok false -> k <= S off ->
  forall o, o <= off -> S off - k <= o -> pref parts (skipn o strs) = false.
Proof.
  revert off; induction k as [|k IH]; intros off H Hk o H1 H2; cbn [off_loop] in H; [lia|].
  destruct (Nat.ltb (length strs) (off + length parts)) eqn:E; [discriminate|].
  apply Nat.ltb_ge in E.
  destruct (win_chk cm (rev (combine parts (skipn off strs)))) as [[|]| | | |] eqn:W; try discriminate.
  apply win_chk_ok in W. rewrite forallb_rev, pref_combine in W by (rewrite skipn_length; lia).
  destruct (Nat.eq_dec o off) as [->|Hne]; [congruence|].
  destruct off as [|off]; [lia|].
  apply (IH off); [ replace (S off - 1) with off in H by lia; exact H | lia | lia | lia ].
Qed.

Lemma off_loop_safe parts strs k off :
  off + length parts <= length strs ->
  (forall p c, cm p c <> CMFuel) ->
  match off_loop cm parts strs k off with Panic | Fuel | ErrStr => False | _ => True end.
Proof.
  intros L NF. revert off L; induction k as [|k IH]; intros off L; cbn [off_loop]; [exact I|].
  destruct (Nat.ltb (length strs) (off + length parts)) eqn:E; [apply Nat.ltb_lt in E; lia|].
  assert (W : match win_chk cm (rev (combine parts (skipn off strs))) with Panic | Fuel | ErrStr => False | _ => True end).
  { generalize (rev (combine parts (skipn off strs))). intro l. induction l as [|[p c] l IHl]; cbn [win_chk]; [exact I|].
    unfold S_Glob.pm. destruct (snd p); [destruct (bytes_eqb (fst p) c); [exact IHl | exact I]|].
    destruct (cm (fst p) c) as [[|]| |] eqn:Ec; [exact IHl | exact I | exact I | exact (NF _ _ Ec)]. }
  destruct (win_chk cm (rev (combine parts (skipn off strs)))) as [[|]| | | |]; try exact I; try contradiction.
  apply IH. lia.
Qed.

(* ---------- tails ---------- *)
Lemma in_tails {A} (l t : list A) : In t (tails l) <-> exists o, o <= length l /\ t = skipn o l.
Proof.
  induction l as [|x l IH]; cbn [tails In length].
  - split.
    + intros [<-|[]]. exists 0. split; [lia | reflexivity].
    + intros [o [Ho ->]]. left. destruct o; reflexivity.
  - split.
    + intros [<-|H]; [exists 0; split; [lia|reflexivity]|].
      apply IH in H as [o [Ho ->]]. exists (S o). split; [lia | reflexivity].
    + intros [[|o] [Ho ->]]; [left; reflexivity|]. right. apply IH. exists o. split; [lia | reflexivity].
Qed.

(* ---------- the pattern without "**" ---------- *)
Lemma find_dw_none parts : find_dw parts = None <-> nodw parts.
Proof.
  induction parts as [|p r IH]; cbn [find_dw].
  - split; [constructor | reflexivity].
  - destruct (is_dw p) eqn:E.
    + split; [discriminate | intro H; inversion H; congruence].
    + destruct (find_dw r); cbn [option_map].
      * split; [discriminate | intro H; inversion H; subst; apply IH in H3; discriminate].
      * split; [intros _; constructor; [exact E | apply IH; reflexivity] | reflexivity].
Qed.

Definition skip_root (strs : list bytes) : list bytes :=
  match strs with s0 :: r => if bytes_eqb s0 root then r else strs | [] => strs end.

Lemma ref_match_unfold parts strs :
  ref_match parts strs = if is_abs parts then rm parts false strs
                         else existsb (rm parts false) (tails (skip_root strs)).
Proof. reflexivity. Qed.

Lemma match_nodw_spec parts strs b :
  nodw parts -> strs <> [] -> match_nodw parts strs = Ok b -> b = ref_match parts strs.
Proof.
  intros ND NE H. rewrite ref_match_unfold.
  destruct parts as [|p0 pr].
  { destruct strs; [congruence|]. cbn [S_Glob.match_nodw] in H. inversion H; subst.
    cbn [is_abs S_Glob.rm]. symmetry. apply not_true_is_false. intro E.
    apply existsb_exists in E as [x [_ Hx]]. discriminate. }
  unfold S_Glob.match_nodw in H.
  destruct strs as [|s0 sr]; [congruence|].
  set (parts := p0 :: pr) in *. set (strs := s0 :: sr) in *.
  assert (RM : forall t, rm parts false t = pref parts t).
  { intro t. rewrite rm_nodw by exact ND. cbn [is_nil negb orb]. apply andb_true_r. }
  destruct (Nat.leb (length parts) (length strs)) eqn:L.
  2:{ inversion H; subst. apply Nat.leb_gt in L. symmetry.
      destruct (is_abs parts).
      - rewrite RM. apply not_true_is_false. intro E. apply pref_len in E. lia.
      - apply not_true_is_false. intro E. apply existsb_exists in E as [t [Ht E]].
        apply in_tails in Ht as [o [Ho ->]]. rewrite RM in E. apply pref_len in E.
        rewrite skipn_length in E.
        assert (length (skip_root strs) <= length strs).
        { unfold skip_root, strs. destruct (bytes_eqb s0 root); cbn [length]; lia. }
        lia. }
  apply Nat.leb_le in L.
  destruct (is_abs parts) eqn:A.
  - (* absolute: offset 0 only *)
    cbn [Nat.sub] in H. rewrite RM. destruct b.
    + apply off_loop_true in H as [o [H1 [_ H3]]]. assert (o = 0) by lia. subst o. symmetry. exact H3.
    + symmetry. apply (off_loop_false _ _ _ _ H ltac:(lia) 0); lia.
  - (* relative: every offset from minOffset *)
    set (mino := if bytes_eqb s0 root then 1 else 0) in *.
    assert (SK : forall o, skipn o (skip_root strs) = skipn (mino + o) strs).
    { intro o. unfold skip_root, strs, mino. destruct (bytes_eqb s0 root); reflexivity. }
    assert (LEN : length (skip_root strs) = length strs - mino).
    { unfold skip_root, strs, mino. destruct (bytes_eqb s0 root); cbn [length]; lia. }
    destruct b.
    + apply off_loop_true in H as [o [H1 [H2 H3]]]. symmetry. apply existsb_exists.
      exists (skipn o strs). split; [|rewrite RM; exact H3].
      apply in_tails. exists (o - mino). split; [lia|]. rewrite SK. f_equal. lia.
    + symmetry. apply not_true_is_false. intro E. apply existsb_exists in E as [t [Ht E]].
      apply in_tails in Ht as [o [Ho ->]]. rewrite SK, RM in E.
      pose proof (pref_len _ _ E) as PL. rewrite skipn_length in PL.
      assert (length parts >= 1) by (unfold parts; cbn [length]; lia).
      rewrite (off_loop_false _ _ _ _ H) in E; [discriminate | lia | lia | lia].
Qed.

(* ---------- "**" expansion ---------- *)
Definition nonroot (p : part) : bool := negb (bytes_eqb (fst p) root).
(* the root marker "/" occurs at most as the first part (always true for prepared patterns) *)
Definition wf (parts : list part) : Prop := forallb nonroot (tl parts) = true.
Definition dwcount (parts : list part) : nat := length (filter is_dw parts).
Definition expn (pre post : list part) (j : nat) : list part := pre ++ repeat star_part j ++ post.

Lemma find_dw_split parts pos : find_dw parts = Some pos ->
  exists pre d post, parts = pre ++ d :: post /\ length pre = pos /\ nodw pre /\ is_dw d = true
                     /\ firstn pos parts = pre /\ skipn (S pos) parts = post.
Proof.
  revert pos; induction parts as [|p r IH]; intros pos H; cbn [find_dw] in H; [discriminate|].
  destruct (is_dw p) eqn:E.
  - inversion H; subst. exists [], p, r. repeat split; try reflexivity; try exact E. constructor.
  - destruct (find_dw r) as [q|]; [|discriminate]. inversion H; subst.
    destruct (IH q eq_refl) as [pre [d [post [H1 [H2 [H3 [H4 [H5 H6]]]]]]]].
    exists (p :: pre), d, post. repeat split.
    + cbn [app]. congruence.
    + cbn [length]. congruence.
    + constructor; assumption.
    + exact H4.
    + cbn [firstn]. congruence.
    + cbn [skipn]. exact H6.
Qed.

Lemma star_not_dw : is_dw star_part = false.
Proof. reflexivity. Qed.

Lemma rm_star q ne c cs : rm (star_part :: q) ne (c :: cs) = andb (star_ok c) (rm q true cs).
Proof. reflexivity. Qed.

Lemma absorb_iff post ne s :
  absorb cm (rm post) ne s = true <-> exists j, rm (repeat star_part j ++ post) ne s = true.
Proof.
  split.
  - revert ne; induction s as [|c cs IH]; intros ne H; cbn [absorb] in H.
    + rewrite orb_false_r in H. exists 0. exact H.
    + apply orb_true_iff in H as [H|H]; [exists 0; exact H|].
      apply andb_true_iff in H as [H1 H2]. apply IH in H2 as [j Hj].
      exists (S j). cbn [repeat app]. rewrite rm_star, H1, Hj. reflexivity.
  - intros [j Hj]. revert ne s Hj; induction j as [|j IH]; intros ne s Hj.
    + cbn [repeat app] in Hj. destruct s; cbn [absorb]; rewrite Hj; reflexivity.
    + cbn [repeat app] in Hj. destruct s as [|c cs]; [discriminate|].
      rewrite rm_star in Hj. apply andb_true_iff in Hj as [H1 H2].
      cbn [absorb]. rewrite H1, (IH _ _ H2). apply orb_true_r.
Qed.

Lemma rm_expand pre d post : nodw pre -> is_dw d = true -> forall ne s,
  rm (pre ++ d :: post) ne s = true <-> exists j, rm (expn pre post j) ne s = true.
Proof.
  intros ND Hd. unfold expn. induction ND as [|x pre Hx _ IH]; intros ne s; cbn [app].
  - cbn [S_Glob.rm]. rewrite Hd. apply absorb_iff.
  - cbn [S_Glob.rm]. rewrite Hx. destruct s as [|c cs].
    + split; [discriminate | intros [j Hj]; exact Hj].
    + split.
      * intro H. apply andb_true_iff in H as [H1 H2]. apply IH in H2 as [j Hj]. exists j.
        rewrite H1, Hj. reflexivity.
      * intros [j Hj]. apply andb_true_iff in Hj as [H1 H2]. rewrite H1. cbn [andb]. apply IH. exists j. exact H2.
Qed.

Lemma absorb_len k ne s n : (forall ne t, k ne t = true -> n <= length t) ->
  absorb cm k ne s = true -> n <= length s.
Proof.
  intros Hk. revert ne; induction s as [|c cs IH]; intros ne H; cbn [absorb] in H.
  - rewrite orb_false_r in H. exact (Hk _ _ H).
  - apply orb_true_iff in H as [H|H]; [exact (Hk _ _ H)|].
    apply andb_true_iff in H as [_ H]. apply IH in H. cbn [length]. lia.
Qed.

Lemma rm_fixed_len q : forall ne s, rm q ne s = true -> fixed_parts q <= length s.
Proof.
  unfold fixed_parts. induction q as [|p q IH]; intros ne s H; cbn [filter length]; [lia|].
  cbn [S_Glob.rm] in H. destruct (is_dw p) eqn:E; cbn [negb].
  - eapply absorb_len; [|exact H]. intros ne' t Ht. exact (IH _ _ Ht).
  - destruct s as [|c cs]; [discriminate|]. apply andb_true_iff in H as [_ H]. apply IH in H.
    cbn [length]. lia.
Qed.

Lemma skip_root_len strs : length (skip_root strs) <= length strs.
Proof. destruct strs as [|s0 r]; cbn [skip_root length]; [lia|]. destruct (bytes_eqb s0 root); cbn [length]; lia. Qed.

Lemma ref_fixed_len q strs : ref_match q strs = true -> fixed_parts q <= length strs.
Proof.
  rewrite ref_match_unfold. destruct (is_abs q); intro H.
  - exact (rm_fixed_len _ _ _ H).
  - apply existsb_exists in H as [t [Ht H]]. apply in_tails in Ht as [o [Ho ->]].
    apply rm_fixed_len in H. rewrite skipn_length in H. pose proof (skip_root_len strs). lia.
Qed.

Lemma fixed_expn pre d post j : is_dw d = true ->
  fixed_parts (expn pre post j) = fixed_parts (pre ++ d :: post) + j.
Proof.
  intro Hd. unfold fixed_parts, expn. rewrite !filter_app, !app_length. cbn [filter]. rewrite Hd. cbn [negb].
  assert (R : filter (fun p : part => negb (is_dw p)) (repeat star_part j) = repeat star_part j).
  { induction j as [|j IH]; cbn [repeat filter]; [reflexivity|]. rewrite star_not_dw. cbn [negb]. rewrite IH. reflexivity. }
  rewrite R, repeat_length. lia.
Qed.

Lemma fixed_ge_pre pre d post : nodw pre -> length pre <= fixed_parts (pre ++ d :: post).
Proof.
  intro ND. unfold fixed_parts. rewrite filter_app, app_length.
  assert (length (filter (fun p : part => negb (is_dw p)) pre) = length pre).
  { induction ND as [|x l Hx _ IH]; cbn [filter length]; [reflexivity|]. rewrite Hx. cbn [negb length]. lia. }
  lia.
Qed.

Lemma dwcount_expn pre d post j : nodw pre -> is_dw d = true ->
  dwcount (pre ++ d :: post) = S (dwcount (expn pre post j)).
Proof.
  intros ND Hd. unfold dwcount, expn. rewrite !filter_app, !app_length. cbn [filter]. rewrite Hd. cbn [length].
  assert (R : filter is_dw (repeat star_part j) = []).
  { induction j as [|j IH]; cbn [repeat filter]; [reflexivity|]. rewrite star_not_dw. exact IH. }
  rewrite R. cbn [length]. lia.
Qed.

Lemma forallb_repeat_star j : forallb nonroot (repeat star_part j) = true.
Proof. induction j as [|j IH]; cbn [repeat forallb]; [reflexivity|]. rewrite IH. reflexivity. Qed.

Lemma dw_nonroot d : is_dw d = true -> nonroot d = true.
Proof. unfold is_dw, nonroot. destruct (fst d); [reflexivity | discriminate]. Qed.

Lemma expn_wf_abs pre d post j : wf (pre ++ d :: post) -> is_dw d = true ->
  wf (expn pre post j) /\ is_abs (expn pre post j) = is_abs (pre ++ d :: post).
Proof.
  unfold wf, expn. intros W Hd. destruct pre as [|x pre]; cbn [app tl] in *.
  - (* "**" is the first part: nothing in the expansion is the root marker *)
    assert (A : forallb nonroot (repeat star_part j ++ post) = true)
      by (rewrite forallb_app, forallb_repeat_star, W; reflexivity).
    split.
    + destruct (repeat star_part j ++ post) as [|y l]; [reflexivity|]. cbn [tl]. cbn [forallb] in A.
      apply andb_true_iff in A as [_ A]. exact A.
    + cbn [is_abs]. unfold is_dw in Hd. destruct (fst d) eqn:Ed; [|discriminate]. cbn [bytes_eqb root].
      destruct (repeat star_part j ++ post) as [|y l]; [reflexivity|]. cbn [forallb] in A.
      apply andb_true_iff in A as [A _]. unfold nonroot in A. cbn [is_abs]. destruct (bytes_eqb (fst y) root); [discriminate | reflexivity].
  - split; [|reflexivity]. rewrite forallb_app in W. apply andb_true_iff in W as [W1 W2]. cbn [forallb] in W2.
    apply andb_true_iff in W2 as [_ W2]. rewrite !forallb_app, W1, forallb_repeat_star, W2. reflexivity.
Qed.

Lemma ref_expand pre d post strs : nodw pre -> is_dw d = true -> wf (pre ++ d :: post) ->
  ref_match (pre ++ d :: post) strs = true <-> exists j, ref_match (expn pre post j) strs = true.
Proof.
  intros ND Hd W. rewrite ref_match_unfold.
  assert (AB : forall j, is_abs (expn pre post j) = is_abs (pre ++ d :: post))
    by (intro j; apply (expn_wf_abs pre d post j W Hd)).
  destruct (is_abs (pre ++ d :: post)) eqn:A.
  - rewrite (rm_expand pre d post ND Hd). split; intros [j Hj]; exists j.
    + rewrite ref_match_unfold, AB. exact Hj.
    + rewrite ref_match_unfold, AB in Hj. exact Hj.
  - split.
    + intro H. apply existsb_exists in H as [t [Ht H]]. apply (rm_expand pre d post ND Hd) in H as [j Hj].
      exists j. rewrite ref_match_unfold, AB. apply existsb_exists. exists t. split; assumption.
    + intros [j Hj]. rewrite ref_match_unfold, AB in Hj. apply existsb_exists in Hj as [t [Ht H]].
      apply existsb_exists. exists t. split; [exact Ht|]. apply (rm_expand pre d post ND Hd). exists j. exact H.
Qed.

Lemma exp_loop_true rec parts pos n k i :
  exp_loop rec parts pos n k i = Ok true ->
  exists j, i <= j < i + k /\ rec (firstn pos parts ++ repeat star_part j ++ skipn (S pos) parts) = Ok true.
Proof.
  revert i; induction k as [|k IH]; intros i H; cbn [exp_loop] in H; [discriminate|].
  destruct (Nat.ltb n (pos + i)); [discriminate|].
  destruct (rec _) as [[|]| | | |] eqn:R; try discriminate.
  - exists i. split; [lia | exact R].
  - apply IH in H as [j [Hj1 Hj2]]. exists j. split; [lia | exact Hj2].
Qed.

Lemma exp_loop_false rec parts pos n k i :
  exp_loop rec parts pos n k i = Ok false ->
  forall j, i <= j < i + k -> rec (firstn pos parts ++ repeat star_part j ++ skipn (S pos) parts) = Ok false.
Proof.
  revert i; induction k as [|k IH]; intros i H j Hj; cbn [exp_loop] in H; [lia|].
  destruct (Nat.ltb n (pos + i)); [discriminate|].
  destruct (rec _) as [[|]| | | |] eqn:R; try discriminate.
  destruct (Nat.eq_dec j i) as [->|Hne]; [exact R|]. apply (IH (S i) H). lia.
Qed.

(* the implementation's matcher against the reference semantics: whenever it answers at all
   (no pattern error), the answer is the documented one *)
Lemma match_f_spec strs : strs <> [] -> forall fuel parts b,
  dwcount parts < fuel -> wf parts -> match_f fuel parts strs = Ok b -> b = ref_match parts strs.
Proof.
  intros NE. induction fuel as [|f IH]; intros parts b DC W H; [lia|].
  cbn [S_Glob.match_f] in H. destruct (find_dw parts) as [pos|] eqn:F.
  2:{ apply match_nodw_spec; [apply find_dw_none; exact F | exact NE | exact H]. }
  destruct (find_dw_split _ _ F) as [pre [d [post [E [Lp [ND [Hd [E1 E2]]]]]]]].
  assert (REC : forall j b', match_f f (expn pre post j) strs = Ok b' -> b' = ref_match (expn pre post j) strs).
  { intros j b' Hj. apply IH; [|apply (expn_wf_abs pre d post j); [rewrite <- E; exact W | exact Hd] | exact Hj].
    rewrite E, (dwcount_expn pre d post j ND Hd) in DC. lia. }
  destruct b.
  - apply exp_loop_true in H as [j [_ Hj]]. rewrite E1, E2 in Hj. apply REC in Hj. symmetry. rewrite E.
    apply (ref_expand pre d post strs ND Hd); [rewrite <- E; exact W|].
    exists j. symmetry. exact Hj.
  - symmetry. apply not_true_is_false. intro T. rewrite E in T.
    apply (ref_expand pre d post strs ND Hd) in T; [|rewrite <- E; exact W]. destruct T as [j Hj].
    pose proof (ref_fixed_len _ _ Hj) as FL. rewrite (fixed_expn pre d post j Hd), <- E in FL.
    pose proof (exp_loop_false _ _ _ _ _ _ H j) as X. cbn beta in X. rewrite E1, E2 in X.
    assert (Hr : 0 <= j < 0 + (S (length strs) - fixed_parts parts)) by lia.
    apply X in Hr. apply REC in Hr. congruence.
Qed.

Theorem match_parts_spec parts strs b :
  strs <> [] -> wf parts -> match_parts parts strs = Ok b -> b = ref_match parts strs.
Proof.
  intros NE W H. apply (match_f_spec strs NE (S (length parts))); [|exact W | exact H].
  unfold dwcount. clear. induction parts as [|p r IH]; cbn [filter length]; [lia|]. destruct (is_dw p); cbn [length]; lia.
Qed.

(* ---------- a match on a directory covers everything inside ---------- *)
Lemma absorb_mono k e : (forall ne t, k ne t = true -> k ne (t ++ e) = true) ->
  forall ne s, absorb cm k ne s = true -> absorb cm k ne (s ++ e) = true.
Proof.
  intros Hk ne s; revert ne; induction s as [|c cs IH]; intros ne H; cbn [absorb app] in *.
  - rewrite orb_false_r in H. apply (Hk _ []) in H. cbn [app] in H. destruct e; cbn [absorb]; rewrite H; reflexivity.
  - apply orb_true_iff in H as [H|H]; [apply (Hk _ (c :: cs)) in H; cbn [app] in H; rewrite H; reflexivity|].
    apply andb_true_iff in H as [H1 H2]. rewrite H1, (IH _ H2). apply orb_true_r.
Qed.

Lemma rm_app q e : forall ne s, rm q ne s = true -> rm q ne (s ++ e) = true.
Proof.
  induction q as [|p q IH]; intros ne s H; cbn [S_Glob.rm] in *; [exact H|].
  destruct (is_dw p).
  - apply absorb_mono; [|exact H]. intros ne' t Ht. exact (IH _ _ Ht).
  - destruct s as [|c cs]; [discriminate|]. cbn [app]. apply andb_true_iff in H as [H1 H2].
    rewrite H1, (IH _ _ H2). reflexivity.
Qed.

Lemma skip_root_app strs e : strs <> [] -> skip_root (strs ++ e) = skip_root strs ++ e.
Proof. destruct strs as [|s0 r]; [congruence|]. intros _. cbn [skip_root app]. destruct (bytes_eqb s0 root); reflexivity. Qed.

Theorem ref_match_extends parts strs e :
  strs <> [] -> ref_match parts strs = true -> ref_match parts (strs ++ e) = true.
Proof.
  intros NE. rewrite !ref_match_unfold. destruct (is_abs parts); [apply rm_app|].
  intro H. apply existsb_exists in H as [t [Ht H]]. apply in_tails in Ht as [o [Ho ->]].
  apply existsb_exists. exists (skipn o (skip_root strs) ++ e). split; [|apply rm_app; exact H].
  apply in_tails. exists o. rewrite skip_root_app by exact NE. rewrite app_length. split; [lia|].
  rewrite skipn_app. replace (o - length (skip_root strs)) with 0 by lia. reflexivity.
Qed.

(* ---------- childMatch never denies a directory above a matching path ---------- *)
Lemma rm_pref_pre pre q : nodw pre -> forall ne s, rm (pre ++ q) ne s = true -> pref pre s = true.
Proof.
  induction 1 as [|x pre Hx _ IH]; intros ne s H; cbn [app pref]; [reflexivity|].
  cbn [app S_Glob.rm] in H. rewrite Hx in H. destruct s as [|c cs]; [discriminate|].
  apply andb_true_iff in H as [H1 H2]. rewrite H1, (IH _ _ H2). reflexivity.
Qed.

Lemma forallb_firstn {A} (f : A -> bool) n l : forallb f l = true -> forallb f (firstn n l) = true.
Proof.
  revert n; induction l as [|x l IH]; intros [|n] H; cbn [firstn forallb] in *; try reflexivity.
  apply andb_true_iff in H as [H1 H2]. rewrite H1, (IH _ H2). reflexivity.
Qed.

Lemma wf_firstn n parts : wf parts -> wf (firstn n parts).
Proof.
  unfold wf. destruct parts as [|p r]; destruct n as [|n]; cbn [firstn tl]; try reflexivity.
  apply forallb_firstn.
Qed.

Lemma nodw_firstn n p : nodw p -> nodw (firstn n p).
Proof. intro H; revert n; induction H as [|x l Hx Hl IH]; intros [|k]; cbn [firstn]; constructor; auto. apply IH. Qed.

Lemma child_core q strs' b p0 :
  nodw q -> wf q -> strs' <> [] -> hd_error q = Some p0 -> bytes_eqb (fst p0) root = true ->
  pref q strs' = true -> match_parts q strs' = Ok b -> b = true.
Proof.
  intros ND W NE HD R P H. apply match_parts_spec in H; [|exact NE | exact W]. subst b.
  rewrite ref_match_unfold. destruct q as [|x q]; [discriminate|]. cbn [hd_error] in HD. inversion HD; subst x.
  cbn [is_abs]. rewrite R. rewrite rm_nodw by exact ND. rewrite P. reflexivity.
Qed.

Theorem child_match_sound parts strs e b :
  strs <> [] -> wf parts -> ref_match parts (strs ++ e) = true ->
  child_match parts strs = Ok b -> b = true.
Proof.
  intros NE W M H. destruct parts as [|p0 pr]; [discriminate|].
  unfold S_Glob.child_match in H. destruct (bytes_eqb (fst p0) root) eqn:R; cbn [negb] in H; [|inversion H; reflexivity].
  rewrite ref_match_unfold in M. cbn [is_abs] in M. rewrite R in M.
  set (parts := p0 :: pr) in *.
  assert (P0 : is_dw p0 = false).
  { unfold is_dw. destruct (fst p0); [discriminate | reflexivity]. }
  destruct (find_dw parts) as [pos|] eqn:F.
  - destruct (find_dw_split _ _ F) as [pre [d [post [E [Lp [ND [Hd [E1 E2]]]]]]]].
    assert (PP : pref pre (strs ++ e) = true) by (rewrite E in M; exact (rm_pref_pre pre _ ND _ _ M)).
    assert (POS : pos >= 1).
    { destruct pos; [|lia]. destruct pre; [|discriminate]. cbn [app] in E. unfold parts in E. injection E as E0 _. rewrite <- E0 in Hd. congruence. }
    assert (LP : length parts > pos) by (rewrite E, app_length; cbn [length]; lia).
    destruct (Nat.leb pos (length strs)) eqn:L.
    + apply Nat.leb_le in L.
      assert (LS : length (firstn pos strs) = pos) by (rewrite firstn_length; lia).
      rewrite LS in H. replace (Nat.min pos (length parts)) with pos in H by lia. rewrite E1 in H.
      apply (child_core pre (firstn pos strs) b p0); try assumption.
      * rewrite <- E1. apply wf_firstn. exact W.
      * destruct strs; [congruence|]. destruct pos; [lia|]. discriminate.
      * rewrite <- E1. unfold parts. destruct pos; [lia|]. reflexivity.
      * apply (pref_firstn_str _ _ pos) in PP; [|lia]. rewrite firstn_app in PP.
        replace (pos - length strs) with 0 in PP by lia. cbn [firstn] in PP. rewrite app_nil_r in PP. exact PP.
    + apply Nat.leb_gt in L. replace (Nat.min (length strs) (length parts)) with (length strs) in H by lia.
      assert (FE : firstn (length strs) parts = firstn (length strs) pre).
      { rewrite E, firstn_app. replace (length strs - length pre) with 0 by lia. cbn [firstn]. apply app_nil_r. }
      rewrite FE in H.
      apply (child_core (firstn (length strs) pre) strs b p0); try assumption.
      * apply nodw_firstn. exact ND.
      * rewrite <- FE. apply wf_firstn. exact W.
      * rewrite <- FE. unfold parts. destruct strs; [congruence|]. reflexivity.
      * apply pref_firstn with (e := e). exact PP.
  - apply find_dw_none in F.
    assert (PP : pref parts (strs ++ e) = true).
    { rewrite rm_nodw in M by exact F. apply andb_true_iff in M as [M _]. exact M. }
    assert (FE : firstn (Nat.min (length strs) (length parts)) parts = firstn (length strs) parts).
    { destruct (Nat.le_gt_cases (length strs) (length parts)); [replace (Nat.min (length strs) (length parts)) with (length strs) by lia; reflexivity|].
      replace (Nat.min (length strs) (length parts)) with (length parts) by lia.
      rewrite firstn_all, firstn_all2 by lia. reflexivity. }
    rewrite FE in H.
    apply (child_core (firstn (length strs) parts) strs b p0); try assumption.
    + apply nodw_firstn. exact F.
    + apply wf_firstn. exact W.
    + unfold parts. destruct strs; [congruence|]. reflexivity.
    + apply pref_firstn with (e := e). exact PP.
Qed.

(* ---------- pattern lists with negation ---------- *)
Fixpoint spec_fold (pats : list pattern) (strs : list bytes) (m : bool) : bool :=
  match pats with
  | [] => m
  | p :: r =>
      let mm := ref_match (p_parts p) strs in
      spec_fold r strs (if p_neg p then andb m (negb mm) else orb m mm)
  end.

Lemma spec_fold_noneg pats strs : existsb p_neg pats = false -> spec_fold pats strs true = true.
Proof.
  induction pats as [|p r IH]; cbn [existsb spec_fold]; [reflexivity|]. intro H.
  apply orb_false_iff in H as [H1 H2]. rewrite H1. cbn [orb]. exact (IH H2).
Qed.

Definition wfs (pats : list pattern) : Prop := Forall (fun p => wf (p_parts p)) pats.

(* List / ListWithChild: the matched answer is the plain fold (the early exit is sound) *)
Theorem list_loop_matched strs chk hn : strs <> [] -> forall pats m c m1 c1,
  wfs pats -> (hn = false -> existsb p_neg pats = false) ->
  list_loop cm pats chk hn strs m c = Ok (m1, c1) -> m1 = spec_fold pats strs m.
Proof.
  intros NE. induction pats as [|p r IH]; intros m c m1 c1 W HN H; cbn [list_loop spec_fold] in *.
  - inversion H; reflexivity.
  - inversion W as [|? ? W1 W2]; subst.
    destruct (match_parts (p_parts p) strs) as [mm| | | |] eqn:M; try discriminate.
    apply match_parts_spec in M; [|exact NE | exact W1]. subst mm.
    destruct (if chk then child_match (p_parts p) strs else Ok true) as [cc| | | |]; try discriminate.
    assert (HN' : hn = false -> existsb p_neg r = false).
    { intro E. specialize (HN E). cbn [existsb] in HN. apply orb_false_iff in HN as [_ HN]. exact HN. }
    destruct (p_neg p) eqn:PN.
    + exact (IH _ _ _ _ W2 HN' H).
    + destruct (andb (andb (orb m (ref_match (p_parts p) strs)) (orb c cc)) (negb hn)) eqn:B.
      * inversion H; subst. apply andb_true_iff in B as [B1 B2]. apply andb_true_iff in B1 as [B1 _].
        rewrite B1. symmetry. apply spec_fold_noneg. apply HN'. destruct hn; [discriminate | reflexivity].
      * exact (IH _ _ _ _ W2 HN' H).
Qed.

(* ListWithChild: childMayMatch is never false when some path below the directory is selected *)
Theorem list_loop_child_sound strs e hn : strs <> [] -> forall pats m c m1 c1 md,
  wfs pats ->
  list_loop cm pats true hn strs m c = Ok (m1, c1) ->
  (md = true -> c = true) ->
  spec_fold pats (strs ++ e) md = true -> c1 = true.
Proof.
  intros NE. induction pats as [|p r IH]; intros m c m1 c1 md W H INV SF; cbn [list_loop spec_fold] in *.
  - injection H as E1 E2. rewrite <- E2. exact (INV SF).
  - inversion W as [|? ? W1 W2]; subst.
    destruct (match_parts (p_parts p) strs) as [mm| | | |] eqn:M; try discriminate.
    apply match_parts_spec in M; [|exact NE | exact W1]. subst mm.
    destruct (child_match (p_parts p) strs) as [cc| | | |] eqn:C; try discriminate.
    destruct (p_neg p) eqn:PN.
    + apply (IH _ _ _ _ _ W2 H) in SF; [exact SF|].
      intro T. apply andb_true_iff in T as [T1 T2]. rewrite (INV T1). cbn [andb].
      destruct (ref_match (p_parts p) strs) eqn:RS; [|reflexivity].
      rewrite (ref_match_extends _ _ e NE RS) in T2. discriminate.
    + assert (INV' : orb md (ref_match (p_parts p) (strs ++ e)) = true -> orb c cc = true).
      { intro T. apply orb_true_iff in T as [T|T]; [rewrite (INV T); reflexivity|].
        rewrite (child_match_sound _ _ _ _ NE W1 T C). apply orb_true_r. }
      destruct (andb (andb (orb m (ref_match (p_parts p) strs)) (orb c cc)) (negb hn)) eqn:B.
      * inversion H; subst. apply andb_true_iff in B as [B1 _]. apply andb_true_iff in B1 as [_ B1]. exact B1.
      * exact (IH _ _ _ _ _ W2 H INV' SF).
Qed.

(* declarative reading of the fold: selected = some positive pattern matches and no later negated one does *)
Theorem spec_fold_meaning pats strs :
  spec_fold pats strs false = true <->
  exists l1 p l2, pats = l1 ++ p :: l2 /\ p_neg p = false /\ ref_match (p_parts p) strs = true
                  /\ forall q, In q l2 -> p_neg q = true -> ref_match (p_parts q) strs = false.
Proof.
  assert (G : forall pats m, spec_fold pats strs m = true <->
     (m = true /\ forall q, In q pats -> p_neg q = true -> ref_match (p_parts q) strs = false) \/
     exists l1 p l2, pats = l1 ++ p :: l2 /\ p_neg p = false /\ ref_match (p_parts p) strs = true
                  /\ forall q, In q l2 -> p_neg q = true -> ref_match (p_parts q) strs = false).
  { clear pats. induction pats as [|p r IH]; intros m; cbn [spec_fold].
    - split.
      + intro H. left. split; [exact H | intros q []].
      + intros [[H _]|[l1 [p [l2 [H _]]]]]; [exact H | destruct l1; discriminate].
    - rewrite IH. split.
      + intros [[H1 H2]|[l1 [q [l2 [E [N [R A]]]]]]].
        * destruct (p_neg p) eqn:PN.
          -- apply andb_true_iff in H1 as [H1 H1']. left. split; [exact H1|].
             intros q [<-|Hq] Nq; [destruct (ref_match (p_parts p) strs); [discriminate | reflexivity] | exact (H2 q Hq Nq)].
          -- apply orb_true_iff in H1 as [H1|H1].
             ++ left. split; [exact H1|]. intros q [<-|Hq] Nq; [congruence | exact (H2 q Hq Nq)].
             ++ right. exists [], p, r. repeat split; assumption.
        * right. exists (p :: l1), q, l2. repeat split; try assumption. cbn [app]. congruence.
      + intros [[H1 H2]|[l1 [q [l2 [E [N [R A]]]]]]].
        * left. split; [|intros q Hq; apply H2; right; exact Hq].
          destruct (p_neg p) eqn:PN; [rewrite H1, (H2 p (or_introl eq_refl) PN); reflexivity | rewrite H1; reflexivity].
        * destruct l1 as [|x l1]; cbn [app] in E; inversion E; subst.
          -- left. split; [rewrite N, R; apply orb_true_r | exact A].
          -- right. exists l1, q, l2. repeat split; assumption. }
  rewrite G. split; [intros [[H _]|H]; [discriminate | exact H] | intro H; right; exact H].
Qed.

(* ---------- no panic, no fuel exhaustion ---------- *)
Definition safe {A} (r : res A) : Prop := match r with Panic | Fuel | ErrStr => False | _ => True end.
Hypothesis cm_nofuel : forall p c, cm p c <> CMFuel.

Lemma exp_loop_safe rec parts pos n k i :
  (forall p, safe (rec p)) -> (k = 0 \/ pos + i + k <= S n) -> safe (exp_loop rec parts pos n k i).
Proof.
  intro HR. revert i; induction k as [|k IH]; intros i HK; cbn [exp_loop]; [exact I|].
  destruct HK as [HK|HK]; [discriminate|].
  destruct (Nat.ltb n (pos + i)) eqn:E; [apply Nat.ltb_lt in E; lia|].
  pose proof (HR (firstn pos parts ++ repeat star_part i ++ skipn (S pos) parts)) as X.
  destruct (rec _) as [[|]| | | |]; try exact X; try exact I.
  apply IH. right. lia.
Qed.

Lemma match_nodw_safe parts strs : safe (match_nodw parts strs).
Proof.
  unfold S_Glob.match_nodw. destruct parts as [|p0 pr]; [destruct strs; exact I|].
  destruct strs as [|s0 sr]; [exact I|].
  destruct (Nat.leb (length (p0 :: pr)) (length (s0 :: sr))) eqn:L; [|exact I]. apply Nat.leb_le in L.
  pose proof (off_loop_safe (p0 :: pr) (s0 :: sr)) as X. unfold safe.
  destruct (is_abs (p0 :: pr)).
  - specialize (X (1 - 0) 0 ltac:(lia) cm_nofuel). destruct (off_loop _ _ _ _ _); tauto.
  - match goal with |- context [off_loop _ _ _ ?k ?o] => specialize (X k o ltac:(lia) cm_nofuel) end.
    destruct (off_loop _ _ _ _ _); tauto.
Qed.

Lemma match_f_safe strs : forall fuel parts, dwcount parts < fuel -> safe (match_f fuel parts strs).
Proof.
  induction fuel as [|f IH]; intros parts DC; [lia|]. cbn [S_Glob.match_f].
  destruct (find_dw parts) as [pos|] eqn:F; [|apply match_nodw_safe].
  destruct (find_dw_split _ _ F) as [pre [d [post [E [Lp [ND [Hd [E1 E2]]]]]]]].
  assert (FX : pos <= fixed_parts parts) by (rewrite E, <- Lp; apply fixed_ge_pre; exact ND).
  assert (DCX : forall q, dwcount q < f -> safe (match_f f q strs)) by exact IH.
  assert (G : forall k i, (k = 0 \/ pos + i + k <= S (length strs)) ->
     safe (exp_loop (fun p => match_f f p strs) parts pos (length strs) k i)).
  { induction k as [|k IHk]; intros i HK; cbn [exp_loop]; [exact I|].
    destruct HK as [HK|HK]; [discriminate|].
    destruct (Nat.ltb (length strs) (pos + i)) eqn:L; [apply Nat.ltb_lt in L; lia|].
    rewrite E1, E2.
    assert (X : safe (match_f f (expn pre post i) strs)).
    { apply DCX. rewrite E, (dwcount_expn pre d post i ND Hd) in DC. lia. }
    unfold expn in X. destruct (match_f f _ strs) as [[|]| | | |]; try exact X; try exact I.
    apply IHk. right. lia. }
  apply G. destruct (S (length strs) - fixed_parts parts) eqn:K; [left; reflexivity | right; lia].
Qed.

Lemma match_parts_safe parts strs : safe (match_parts parts strs).
Proof.
  apply match_f_safe. unfold dwcount. induction parts as [|p r IH]; cbn [filter length]; [lia|].
  destruct (is_dw p); cbn [length]; lia.
Qed.

Lemma child_match_safe parts strs : parts <> [] -> safe (child_match parts strs).
Proof.
  destruct parts as [|p0 pr]; [congruence|]. intros _. unfold S_Glob.child_match.
  destruct (negb (bytes_eqb (fst p0) root)); [exact I | apply match_parts_safe].
Qed.

Lemma list_loop_safe chk hn strs : forall pats m c,
  Forall (fun p => p_parts p <> []) pats -> safe (list_loop cm pats chk hn strs m c).
Proof.
  induction pats as [|p r IH]; intros m c NEp; cbn [list_loop]; [exact I|].
  inversion NEp as [|? ? N1 N2]; subst.
  pose proof (match_parts_safe (p_parts p) strs) as X.
  destruct (match_parts (p_parts p) strs) as [mm| | | |]; try exact X; try exact I.
  assert (Y : safe (if chk then child_match (p_parts p) strs else Ok true))
    by (destruct chk; [apply child_match_safe; exact N1 | exact I]).
  destruct (if chk then child_match (p_parts p) strs else Ok true) as [cc| | | |]; try exact Y; try exact I.
  destruct (p_neg p); [apply IH; exact N2|].
  destruct (andb (andb (orb m mm) (orb c cc)) (negb hn)); [exact I | apply IH; exact N2].
Qed.

End Generic.

(* ================= the concrete component matcher (port of filepath.Match) ================= *)

Lemma get_esc_len chunk x n : get_esc chunk = Some (x, n) -> length n < length chunk.
Proof.
  unfold get_esc. destruct chunk as [|c r]; [discriminate|].
  destruct (orb (N.eqb c c_dash) (N.eqb c c_rbr)); [discriminate|].
  destruct (N.eqb c c_bsl).
  - destruct r as [|y n']; [discriminate|]. destruct n'; [discriminate|]. intro H; inversion H; subst. cbn [length]. lia.
  - destruct r as [|y n']; [discriminate|]. intro H; inversion H; subst. cbn [length]. lia.
Qed.

Lemma range_loop_ok f : forall chunk r mt first, length chunk < f ->
  range_loop f chunk r mt first <> None /\
  (forall ch2 m2, range_loop f chunk r mt first = Some (Some (ch2, m2)) -> length ch2 < length chunk).
Proof.
  induction f as [|f IH]; intros chunk r mt first L; [lia|].
  assert (STEP : forall X, X =
      match get_esc chunk with
      | None => Some None
      | Some (lo, c1) =>
          match c1 with
          | d :: c2 =>
              if N.eqb d c_dash then
                match get_esc c2 with
                | None => Some None
                | Some (hi, c3) => range_loop f c3 r (orb mt (andb (N.leb lo r) (N.leb r hi))) false
                end
              else range_loop f c1 r (orb mt (andb (N.leb lo r) (N.leb r lo))) false
          | [] => Some None
          end
      end ->
      X <> None /\ (forall ch2 m2, X = Some (Some (ch2, m2)) -> length ch2 < length chunk)).
  { intros X ->. destruct (get_esc chunk) as [[lo c1]|] eqn:G; [|split; [discriminate | intros; discriminate]].
    apply get_esc_len in G. destruct c1 as [|d c2]; [split; [discriminate | intros; discriminate]|].
    destruct (N.eqb d c_dash).
    - destruct (get_esc c2) as [[hi c3]|] eqn:G2; [|split; [discriminate | intros; discriminate]].
      apply get_esc_len in G2. cbn [length] in *.
      destruct (IH c3 r (orb mt (andb (N.leb lo r) (N.leb r hi))) false ltac:(lia)) as [A B].
      split; [exact A | intros ch2 m2 E; apply B in E; lia].
    - destruct (IH (d :: c2) r (orb mt (andb (N.leb lo r) (N.leb r lo))) false ltac:(lia)) as [A B].
      split; [exact A | intros ch2 m2 E; apply B in E; lia]. }
  cbn [range_loop]. destruct chunk as [|c ch]; [apply STEP; reflexivity|].
  destruct first; [apply STEP; reflexivity|].
  destruct (N.eqb c c_rbr); [|apply STEP; reflexivity].
  split; [discriminate | intros ch2 m2 E; inversion E; subst; cbn [length]; lia].
Qed.

Lemma match_chunk_nofuel f : forall chunk s failed, length chunk < f -> match_chunk f chunk s failed <> MFuel.
Proof.
  induction f as [|f IH]; intros chunk s failed L; [lia|]. cbn [match_chunk].
  destruct chunk as [|c ch]; [destruct failed; discriminate|]. cbn [length] in L.
  set (fl := orb failed (match s with [] => true | _ => false end)).
  destruct (N.eqb c c_lbr).
  - destruct (if fl then (0%N, s) else (hd0 s, tl s)) as [r s'].
    assert (exists negated ch1, (match ch with
                                   | x :: y => if N.eqb x c_caret then (true, y) else (false, ch)
                                   | [] => (false, ch) end) = (negated, ch1) /\ length ch1 <= length ch) as [ng [ch1 [E L1]]].
    { destruct ch as [|x y]; [exists false, []; split; [reflexivity | lia]|].
      destruct (N.eqb x c_caret); [exists true, y | exists false, (x :: y)]; split; try reflexivity; cbn [length]; lia. }
    rewrite E. destruct (range_loop_ok f ch1 r false true ltac:(lia)) as [A B].
    destruct (range_loop f ch1 r false true) as [[[ch2 mt]|]|]; [|discriminate|congruence].
    apply IH. specialize (B ch2 mt eq_refl). lia.
  - destruct (N.eqb c c_qm); [destruct fl; apply IH; lia|].
    destruct (N.eqb c c_bsl).
    + destruct ch as [|e ch']; [discriminate|]. cbn [length] in L. destruct fl; apply IH; lia.
    + destruct fl; apply IH; lia.
Qed.

Lemma mchunk_nofuel chunk s : mchunk chunk s <> MFuel.
Proof. apply match_chunk_nofuel. lia. Qed.

Lemma star_loop_nofuel chunk rest name k : (forall t, k t <> CMFuel) -> star_loop chunk rest name k <> CMFuel.
Proof.
  intro HK. induction name as [|c n IH]; cbn [star_loop]; [discriminate|].
  destruct (N.eqb c c_slash); [discriminate|].
  pose proof (mchunk_nofuel chunk n) as M.
  destruct (mchunk chunk n) as [t| | |]; try discriminate; try congruence; try exact IH.
  destruct (andb (is_nil rest) (negb (is_nil t))); [exact IH | apply HK].
Qed.

Lemma strip_stars_len p st star p' : strip_stars p st = (star, p') ->
  length p' <= length p /\ (star = true -> st = true \/ length p' < length p) /\
  (star = false -> st = false /\ p' = p) /\ (match p' with c :: _ => N.eqb c c_star = false | [] => True end).
Proof.
  revert st; induction p as [|c r IH]; intros st H; cbn [strip_stars] in H.
  - inversion H; subst. split; [lia|]. split; [intros ->; left; reflexivity|]. split; [intros ->; split; reflexivity | exact I].
  - destruct (N.eqb c c_star) eqn:E.
    + apply IH in H as [H1 [H2 [H3 H4]]]. cbn [length]. split; [lia|]. split; [intros _; right; lia|].
      split; [|exact H4]. intro F. destruct (H3 F) as [X _]. discriminate.
    + inversion H; subst. split; [lia|]. split; [intros ->; left; reflexivity|]. split; [intros ->; split; reflexivity | exact E].
Qed.

Lemma scan_len_aux n : forall p ir a b, length p <= n -> scan p ir = (a, b) -> length a + length b = length p.
Proof.
  induction n as [|n IH]; intros p ir a b L H.
  - destruct p; [inversion H; reflexivity | cbn [length] in L; lia].
  - destruct p as [|c r]; cbn [scan] in H; [inversion H; reflexivity|]. cbn [length] in L.
    destruct (N.eqb c c_bsl).
    + destruct r as [|d r']; [inversion H; reflexivity|]. cbn [length] in L.
      destruct (scan r' ir) as [a' b'] eqn:E. inversion H; subst. apply IH in E; [|lia]. cbn [length]. lia.
    + destruct (N.eqb c c_lbr).
      { destruct (scan r true) as [a' b'] eqn:E. inversion H; subst. apply IH in E; [|lia]. cbn [length]. lia. }
      destruct (N.eqb c c_rbr).
      { destruct (scan r false) as [a' b'] eqn:E. inversion H; subst. apply IH in E; [|lia]. cbn [length]. lia. }
      destruct (andb (N.eqb c c_star) (negb ir)); [inversion H; reflexivity|].
      destruct (scan r ir) as [a' b'] eqn:E. inversion H; subst. apply IH in E; [|lia]. cbn [length]. lia.
Qed.

Lemma scan_len p ir a b : scan p ir = (a, b) -> length a + length b = length p.
Proof. apply (scan_len_aux (length p)). lia. Qed.

Lemma scan_nonempty c r a b : N.eqb c c_star = false -> scan (c :: r) false = (a, b) -> a <> [].
Proof.
  intros NS H. cbn [scan] in H. rewrite NS in H. cbn [andb] in H.
  destruct (N.eqb c c_bsl); [destruct r; [inversion H; discriminate | destruct (scan r false); inversion H; discriminate]|].
  destruct (N.eqb c c_lbr); [destruct (scan r true); inversion H; discriminate|].
  destruct (N.eqb c c_rbr); destruct (scan r false); inversion H; discriminate.
Qed.

Lemma cm_loop_nofuel f : forall pattern name, length pattern < f -> cm_loop f pattern name <> CMFuel.
Proof.
  induction f as [|f IH]; intros pattern name L; [lia|]. cbn [cm_loop].
  destruct pattern as [|c0 p0]; [discriminate|]. set (pattern := c0 :: p0) in *.
  unfold scan_chunk. destruct (strip_stars pattern false) as [star p'] eqn:SS.
  destruct (scan p' false) as [chunk rest] eqn:SC.
  apply strip_stars_len in SS as [S1 [S2 [S3 S4]]]. pose proof (scan_len _ _ _ _ SC) as SL.
  destruct (andb star (is_nil chunk)) eqn:B; [discriminate|].
  assert (LR : length rest < length pattern).
  { destruct star.
    - destruct (S2 eq_refl) as [X|X]; [discriminate | lia].
    - destruct (S3 eq_refl) as [_ S3']. rewrite S3' in *. unfold pattern in SC, S4. apply scan_nonempty in SC; [|exact S4].
      destruct chunk; [congruence|]. cbn [length] in SL. lia. }
  assert (K : forall t, cm_loop f rest t <> CMFuel) by (intro t; apply IH; lia).
  assert (SLOW : (if star then star_loop chunk rest name (cm_loop f rest) else CM false) <> CMFuel)
    by (destruct star; [apply star_loop_nofuel; exact K | discriminate]).
  pose proof (mchunk_nofuel chunk name) as M.
  destruct (mchunk chunk name) as [t| | |]; try discriminate; try congruence; try exact SLOW.
  destruct (orb (is_nil t) (negb (is_nil rest))); [apply K | exact SLOW].
Qed.

Theorem cm_full_nofuel p c : cm_full p c <> CMFuel.
Proof. apply cm_loop_nofuel. lia. Qed.

(* "*" accepts exactly the components without a slash, so "**" can absorb every path component
   except the root marker *)
Lemma cm_full_star c : cm_full [c_star] c = CM (negb (contains c_slash c)).
Proof. reflexivity. Qed.
