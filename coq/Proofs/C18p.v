(* C18 proofs, part 1: file-system kit, ensureDir / ensureDirBelow, pass 1. *)
From Restic Require Import Base.Prelude Model.C18m.
Import C18m.

(* ---- paths ---- *)
Lemma path_eqb_spec p q : path_eqb p q = true <-> p = q.
Proof. apply list_eqb_spec. exact bytes_eqb_spec. Qed.

Lemma path_eqb_refl p : path_eqb p p = true.
Proof. apply path_eqb_spec; reflexivity. Qed.

Lemma path_eqb_neq p q : p <> q -> path_eqb p q = false.
Proof.
  intro H. destruct (path_eqb p q) eqn:E; [|reflexivity].
  apply path_eqb_spec in E. contradiction.
Qed.

Lemma prefixb_spec p q : prefixb p q = true <-> exists r, q = p ++ r.
Proof.
  revert q; induction p as [|x p IH]; intros q; cbn [prefixb].
  - split; [intros _; exists q; reflexivity | reflexivity].
  - destruct q as [|y q].
    + split; [discriminate | intros [r Hr]; discriminate].
    + rewrite andb_true_iff, bytes_eqb_spec, IH. split.
      * intros [-> [r ->]]. exists r; reflexivity.
      * intros [r Hr]. inversion Hr; subst. split; [reflexivity | exists r; reflexivity].
Qed.

Lemma prefixb_app p r : prefixb p (p ++ r) = true.
Proof. apply prefixb_spec. exists r; reflexivity. Qed.

Lemma prefixb_refl p : prefixb p p = true.
Proof. apply prefixb_spec. exists []. rewrite app_nil_r; reflexivity. Qed.

Lemma prefixb_trans p q r : prefixb p q = true -> prefixb q r = true -> prefixb p r = true.
Proof.
  rewrite !prefixb_spec. intros [a ->] [b ->]. exists (a ++ b). rewrite app_assoc; reflexivity.
Qed.

Lemma prefixb_false_trans p q r : prefixb p q = true -> prefixb p r = false -> prefixb q r = false.
Proof.
  intros H1 H2. destruct (prefixb q r) eqn:E; [|reflexivity].
  rewrite (prefixb_trans _ _ _ H1 E) in H2. discriminate.
Qed.

Lemma prefixb_length p q : prefixb p q = true -> length p <= length q.
Proof. rewrite prefixb_spec. intros [r ->]. rewrite app_length. lia. Qed.

(* ---- look ---- *)
Lemma look_set fs p e q : look (set fs p e) q = if path_eqb p q then Some e else look fs q.
Proof. reflexivity. Qed.

Lemma look_del fs p q : look (del fs p) q = if path_eqb p q then None else look fs q.
Proof. reflexivity. Qed.

Lemma look_rmall fs p q : look (rmall fs p) q = if prefixb p q then None else look fs q.
Proof.
  unfold rmall. induction fs as [|[k e] fs IH]; cbn [filter look fst].
  - destruct (prefixb p q); reflexivity.
  - destruct (prefixb p k) eqn:Ek; cbn [negb].
    + rewrite IH. destruct (prefixb p q) eqn:Eq; [reflexivity|].
      destruct (path_eqb k q) eqn:Ekq; [|reflexivity].
      apply path_eqb_spec in Ekq; subst. rewrite Ek in Eq; discriminate.
    + cbn [look]. rewrite IH. destruct (path_eqb k q) eqn:Ekq; [|reflexivity].
      apply path_eqb_spec in Ekq; subst. rewrite Ek. reflexivity.
Qed.

(* ---- frames ---- *)
(* [local p fs fs']: only p and paths below p may differ *)
Definition local (p : path) (fs fs' : fsT) : Prop :=
  forall q, prefixb p q = false -> look fs' q = look fs q.

Lemma local_refl p fs : local p fs fs.
Proof. intros q _; reflexivity. Qed.

Lemma local_trans p fs1 fs2 fs3 : local p fs1 fs2 -> local p fs2 fs3 -> local p fs1 fs3.
Proof. intros H1 H2 q Hq. rewrite (H2 q Hq). apply H1; exact Hq. Qed.

Lemma local_weaken p p' fs fs' : prefixb p p' = true -> local p' fs fs' -> local p fs fs'.
Proof. intros Hp H q Hq. apply H. eapply prefixb_false_trans; eauto. Qed.

Lemma local_set fs p e : local p fs (set fs p e).
Proof.
  intros q Hq. rewrite look_set. destruct (path_eqb p q) eqn:E; [|reflexivity].
  apply path_eqb_spec in E; subst. rewrite prefixb_refl in Hq; discriminate.
Qed.

Lemma local_del fs p : local p fs (del fs p).
Proof.
  intros q Hq. rewrite look_del. destruct (path_eqb p q) eqn:E; [|reflexivity].
  apply path_eqb_spec in E; subst. rewrite prefixb_refl in Hq; discriminate.
Qed.

Lemma local_rmall fs p : local p fs (rmall fs p).
Proof. intros q Hq. rewrite look_rmall, Hq. reflexivity. Qed.

(* ---- physical directories ---- *)
Definition isdir_at (fs : fsT) (p : path) : Prop := exists m, look fs p = Some (EDir m).

(* every non-empty prefix of P is a real directory *)
Definition physdir (fs : fsT) (P : path) : Prop :=
  forall a b, P = a ++ b -> a <> [] -> isdir_at fs a.

Lemma physdir_nil fs : physdir fs [].
Proof. intros a b H Ha. destruct a; [contradiction | discriminate]. Qed.

Lemma physdir_prefix fs A B : physdir fs (A ++ B) -> physdir fs A.
Proof. intros H a b E Ha. apply (H a (b ++ B)); [subst; rewrite app_assoc; reflexivity | exact Ha]. Qed.

Lemma app_snoc_split {A} (a b D : list A) n :
  D ++ [n] = a ++ b -> (exists b', b = b' ++ [n] /\ D = a ++ b') \/ (b = [] /\ a = D ++ [n]).
Proof.
  intros E. destruct (rev b) as [|x rb] eqn:Eb.
  - right. assert (b = []) by (apply (f_equal (@rev A)) in Eb; rewrite rev_involutive in Eb; exact Eb).
    subst. rewrite app_nil_r in E. auto.
  - left. assert (Hb : b = rev rb ++ [x]).
    { apply (f_equal (@rev A)) in Eb. rewrite rev_involutive in Eb. cbn in Eb. exact Eb. }
    subst b. rewrite app_assoc in E. apply app_inj_tail in E as [E1 E2]. subst.
    exists (rev rb). auto.
Qed.

Lemma physdir_snoc fs D n : physdir fs D -> isdir_at fs (D ++ [n]) -> physdir fs (D ++ [n]).
Proof.
  intros HD Hn a b E Ha. apply app_snoc_split in E as [[b' [-> ->]] | [-> ->]].
  - apply (HD a b'); auto.
  - exact Hn.
Qed.

Lemma physdir_last fs D n : physdir fs (D ++ [n]) -> isdir_at fs (D ++ [n]).
Proof. intros H. apply (H (D ++ [n]) []); [rewrite app_nil_r; reflexivity | destruct D; discriminate]. Qed.

(* preservation: nothing at or above X changed kind *)
Lemma physdir_local fs fs' p X : local p fs fs' -> prefixb p X = false -> physdir fs X -> physdir fs' X.
Proof.
  intros Hl Hp HX a b E Ha. destruct (HX a b E Ha) as [m Hm]. exists m.
  rewrite Hl; [exact Hm|]. destruct (prefixb p a) eqn:Epa; [|reflexivity].
  assert (prefixb a X = true) by (subst X; apply prefixb_app).
  rewrite (prefixb_trans _ _ _ Epa H) in Hp. discriminate.
Qed.

(* directories stay directories *)
Definition mono (fs fs' : fsT) : Prop := forall q, isdir_at fs q -> isdir_at fs' q.

Lemma mono_refl fs : mono fs fs.
Proof. intros q H; exact H. Qed.

Lemma mono_trans a b c : mono a b -> mono b c -> mono a c.
Proof. intros H1 H2 q H. apply H2, H1, H. Qed.

Lemma physdir_mono fs fs' X : mono fs fs' -> physdir fs X -> physdir fs' X.
Proof. intros Hm HX a b E Ha. apply Hm. apply (HX a b E Ha). Qed.

(* ---- resolution along real directories ---- *)
Lemma walk_physdir fuel fs rest : forall cur,
  physdir fs (cur ++ rest) -> resolve fuel fs cur rest = ROk (cur ++ rest).
Proof.
  induction rest as [|c rest IH]; intros cur H.
  - destruct fuel; cbn; rewrite app_nil_r; reflexivity.
  - assert (Hd : isdir_at fs (cur ++ [c])).
    { apply (H (cur ++ [c]) rest); [rewrite <- app_assoc; reflexivity | destruct cur; discriminate]. }
    destruct Hd as [m Hm].
    assert (E : resolve fuel fs cur (c :: rest) = resolve fuel fs (cur ++ [c]) rest).
    { destruct fuel; cbn; rewrite Hm; reflexivity. }
    rewrite E, IH; rewrite <- app_assoc; [reflexivity | exact H].
Qed.

Lemma resolve_dir_physdir fs P : physdir fs P -> resolve_dir fs P = ROk P.
Proof. intros H. unfold resolve_dir. apply (walk_physdir link_fuel fs P []). exact H. Qed.

Lemma locate_snoc fs D n : physdir fs D -> locate fs (D ++ [n]) = ROk (D ++ [n]).
Proof.
  intros H. unfold locate. rewrite rev_unit, rev_involutive, (resolve_dir_physdir _ _ H). reflexivity.
Qed.

Lemma snoc_not_nil {A} (D : list A) n : D ++ [n] <> [].
Proof. destruct D; discriminate. Qed.

Lemma match_snoc {A B} (D : list A) n (x f : B) : match D ++ [n] with [] => x | _ :: _ => f end = f.
Proof. destruct D; reflexivity. Qed.

Lemma lstat_snoc fs D n : physdir fs D ->
  lstat fs (D ++ [n]) = match look fs (D ++ [n]) with Some e => LFound (D ++ [n]) e | None => LNoEnt end.
Proof.
  intros H. unfold lstat. rewrite (locate_snoc _ _ _ H). rewrite match_snoc. reflexivity.
Qed.

(* ---- primitive operations at D ++ [n] below a real directory D ---- *)
Lemma remove_snoc fs D n fs' s : physdir fs D -> remove fs (D ++ [n]) = (fs', s) ->
  (fs' = fs /\ s <> Ok) \/
  (fs' = del fs (D ++ [n]) /\ s = Ok /\ exists e, look fs (D ++ [n]) = Some e).
Proof.
  intros H. unfold remove. rewrite (lstat_snoc _ _ _ H).
  destruct (look fs (D ++ [n])) as [e|] eqn:El.
  - rewrite match_snoc.
    destruct (andb (is_dir e) (has_child fs (D ++ [n]))); intros R; inversion R; subst.
    + left; split; [reflexivity | discriminate].
    + right. split; [reflexivity|]. split; [reflexivity | exists e; reflexivity].
  - intros R; inversion R; subst. left; split; [reflexivity | discriminate].
Qed.

Lemma remove_local fs D n fs' s : physdir fs D -> remove fs (D ++ [n]) = (fs', s) -> local (D ++ [n]) fs fs'.
Proof.
  intros H R. apply (remove_snoc _ _ _ _ _ H) in R as [[-> _] | [-> _]]; [apply local_refl | apply local_del].
Qed.

Lemma create_snoc fs D n e fs' s : physdir fs D -> create fs (D ++ [n]) e = (fs', s) ->
  (fs' = fs /\ s <> Ok /\ look fs (D ++ [n]) <> None) \/
  (fs' = set fs (D ++ [n]) e /\ s = Ok /\ look fs (D ++ [n]) = None).
Proof.
  intros H. unfold create. rewrite (locate_snoc _ _ _ H). rewrite match_snoc.
  destruct (look fs (D ++ [n])) eqn:El; intros R; inversion R; subst.
  - left. repeat split; discriminate.
  - right. auto.
Qed.

Lemma create_local fs D n e fs' s : physdir fs D -> create fs (D ++ [n]) e = (fs', s) -> local (D ++ [n]) fs fs'.
Proof.
  intros H R. apply (create_snoc _ _ _ _ _ _ H) in R as [[-> _] | [-> _]]; [apply local_refl | apply local_set].
Qed.

Lemma remove_all_local fs D n fs' s : physdir fs D -> remove_all fs (D ++ [n]) = (fs', s) -> local (D ++ [n]) fs fs'.
Proof.
  intros H. unfold remove_all. rewrite (locate_snoc _ _ _ H). rewrite match_snoc.
  intros R; inversion R; subst. apply local_rmall.
Qed.

(* MkdirAll(D ++ [n]) below a real directory: either nothing changes or the directory is created *)
Lemma mkdirall_snoc fs D n : physdir fs D ->
  (exists s, mkdirall fs (D ++ [n]) = (fs, s) /\ (look fs (D ++ [n]) = None -> False)) \/
  (mkdirall fs (D ++ [n]) = (set fs (D ++ [n]) (EDir mode_dir_default), Ok) /\ look fs (D ++ [n]) = None).
Proof.
  intros H. unfold mkdirall. rewrite rev_unit. cbn [mkdirall_r].
  replace (rev (n :: rev D)) with (D ++ [n]) by (cbn; rewrite rev_involutive; reflexivity).
  destruct (resolve_dir fs (D ++ [n])) eqn:Er.
  - left. exists Ok. split; [reflexivity|]. intros Hn.
    unfold resolve_dir in Er.
    assert (E : resolve link_fuel fs [] (D ++ [n]) = RNoEnt).
    { clear Er. assert (G : forall fuel cur rest, physdir fs (cur ++ rest) -> look fs ((cur ++ rest) ++ [n]) = None ->
                  resolve fuel fs cur (rest ++ [n]) = RNoEnt).
      { intros fuel cur rest; revert cur; induction rest as [|c rest IH]; intros cur Hp Hl.
        - rewrite app_nil_r in Hl. destruct fuel; cbn; rewrite Hl; reflexivity.
        - assert (Hd : isdir_at fs (cur ++ [c])).
          { apply (Hp (cur ++ [c]) rest); [rewrite <- app_assoc; reflexivity | destruct cur; discriminate]. }
          destruct Hd as [m Hm].
          assert (E : resolve fuel fs cur ((c :: rest) ++ [n]) = resolve fuel fs (cur ++ [c]) (rest ++ [n])).
          { destruct fuel; cbn; rewrite Hm; reflexivity. }
          rewrite E. apply IH; replace ((cur ++ [c]) ++ rest) with (cur ++ c :: rest)
            by (rewrite <- app_assoc; reflexivity); assumption. }
      apply (G link_fuel [] D); assumption. }
    rewrite E in Er; discriminate.
  - (* RNoEnt: parent exists, so only the last component is created *)
    assert (Hpar : mkdirall_r fs (rev D) = (fs, Ok)).
    { destruct (rev D) eqn:ED; cbn [mkdirall_r]; rewrite <- ED, rev_involutive, (resolve_dir_physdir _ _ H); reflexivity. }
    rewrite Hpar.
    destruct (create fs (D ++ [n]) (EDir mode_dir_default)) as [fs2 s2] eqn:Ec.
    destruct (create_snoc _ _ _ _ _ _ H Ec) as [[-> [Hs Hl]] | [-> [-> Hl]]].
    + left. destruct s2; [exfalso; apply Hs; reflexivity | |];
        (destruct (lstat fs (D ++ [n])) as [q0 e0| |]; [destruct e0|..]; eexists; (split; [reflexivity | exact Hl])).
    + right. split; [reflexivity | exact Hl].
  - assert (Hpar : mkdirall_r fs (rev D) = (fs, Ok)).
    { destruct (rev D) eqn:ED; cbn [mkdirall_r]; rewrite <- ED, rev_involutive, (resolve_dir_physdir _ _ H); reflexivity. }
    rewrite Hpar.
    destruct (create fs (D ++ [n]) (EDir mode_dir_default)) as [fs2 s2] eqn:Ec.
    destruct (create_snoc _ _ _ _ _ _ H Ec) as [[-> [Hs Hl]] | [-> [-> Hl]]].
    + left. destruct s2; [exfalso; apply Hs; reflexivity | |];
        (destruct (lstat fs (D ++ [n])) as [q0 e0| |]; [destruct e0|..]; eexists; (split; [reflexivity | exact Hl])).
    + right. split; [reflexivity | exact Hl].
Qed.

(* ensureDir(D ++ [n]) below a real directory always succeeds, makes it a real directory, changes
   nothing else, keeps every directory a directory *)
Lemma remove_nondir fs D n e : physdir fs D -> look fs (D ++ [n]) = Some e -> is_dir e = false ->
  remove fs (D ++ [n]) = (del fs (D ++ [n]), Ok).
Proof.
  intros H El Hd. unfold remove. rewrite (lstat_snoc _ _ _ H), El, match_snoc, Hd. reflexivity.
Qed.

Lemma snoc_not_prefix (D : path) n : prefixb (D ++ [n]) D = false.
Proof.
  destruct (prefixb (D ++ [n]) D) eqn:E; [|reflexivity]. apply prefixb_length in E.
  rewrite app_length in E; cbn in E; lia.
Qed.

Lemma ensure_dir_snoc fs D n : physdir fs D ->
  exists fs', ensure_dir fs (D ++ [n]) = (fs', Ok) /\ local (D ++ [n]) fs fs' /\ mono fs fs' /\
              physdir fs' (D ++ [n]) /\
              (forall q, q <> D ++ [n] -> look fs' q = look fs q).
Proof.
  intros H. unfold ensure_dir. rewrite (lstat_snoc _ _ _ H).
  assert (Hcreate : forall f, physdir f D -> look f (D ++ [n]) = None ->
            (forall q, q <> D ++ [n] -> look f q = look fs q) ->
            mono fs (set f (D ++ [n]) (EDir mode_dir_default)) ->
            exists fs', mkdirall f (D ++ [n]) = (fs', Ok) /\ local (D ++ [n]) fs fs' /\ mono fs fs' /\
                        physdir fs' (D ++ [n]) /\
                        (forall q, q <> D ++ [n] -> look fs' q = look fs q)).
  { intros f Hf Hl Hq Hm. destruct (mkdirall_snoc f D n Hf) as [[s [_ Hc]] | [Hc _]]; [exfalso; auto|].
    exists (set f (D ++ [n]) (EDir mode_dir_default)). split; [exact Hc|].
    assert (Hq' : forall q, q <> D ++ [n] -> look (set f (D ++ [n]) (EDir mode_dir_default)) q = look fs q).
    { intros q Hne. rewrite look_set, path_eqb_neq by auto. apply Hq; exact Hne. }
    split; [|split; [exact Hm | split; [|exact Hq']]].
    - intros q Hp. apply Hq'. intros ->. rewrite prefixb_refl in Hp; discriminate.
    - apply physdir_snoc.
      + intros a b E Ha. destruct (H a b E Ha) as [m Hm']. exists m. rewrite Hq'; [exact Hm'|].
        intros ->. apply (f_equal (@length name)) in E. rewrite !app_length in E. cbn in E. lia.
      + exists mode_dir_default. rewrite look_set, path_eqb_refl. reflexivity. }
  assert (Hrepl : forall e, look fs (D ++ [n]) = Some e -> is_dir e = false ->
            exists fs', mkdirall (del fs (D ++ [n])) (D ++ [n]) = (fs', Ok) /\ local (D ++ [n]) fs fs' /\ mono fs fs' /\
                        physdir fs' (D ++ [n]) /\
                        (forall q, q <> D ++ [n] -> look fs' q = look fs q)).
  { intros e El Hd. apply Hcreate.
    - eapply physdir_local; [apply local_del | apply snoc_not_prefix | exact H].
    - rewrite look_del, path_eqb_refl; reflexivity.
    - intros q Hne. rewrite look_del, path_eqb_neq by auto. reflexivity.
    - intros q [m' Hq]. exists m'. rewrite look_set. destruct (path_eqb (D ++ [n]) q) eqn:E.
      + apply path_eqb_spec in E; subst q. rewrite El in Hq. inversion Hq; subst. discriminate.
      + rewrite look_del, E. exact Hq. }
  destruct (look fs (D ++ [n])) as [e|] eqn:El.
  - destruct (is_dir e) eqn:Hd.
    + destruct e as [m | | |]; try discriminate.
      assert (Hp : physdir fs (D ++ [n])) by (apply physdir_snoc; [exact H | exists m; exact El]).
      exists fs. split.
      * unfold mkdirall. rewrite rev_unit. cbn [mkdirall_r].
        replace (rev (n :: rev D)) with (D ++ [n]) by (cbn; rewrite rev_involutive; reflexivity).
        rewrite (resolve_dir_physdir _ _ Hp). reflexivity.
      * split; [apply local_refl|]. split; [apply mono_refl|]. split; [exact Hp | reflexivity].
    + rewrite (remove_nondir _ _ _ _ H El Hd). apply (Hrepl e); auto.
  - apply Hcreate; auto.
    intros q [m' Hq]. exists m'. rewrite look_set. destruct (path_eqb (D ++ [n]) q) eqn:E; [|exact Hq].
    apply path_eqb_spec in E; subst q. congruence.
Qed.

(* the chain below base *)
Lemma ensure_chain_ok rel : forall fs base, physdir fs base ->
  exists fs', ensure_chain fs base rel = (fs', Ok) /\ mono fs fs' /\ physdir fs' (base ++ rel) /\
              (forall q, prefixb base q = false \/ q = base -> look fs' q = look fs q).
Proof.
  induction rel as [|c rel IH]; intros fs base H.
  - exists fs. rewrite app_nil_r. cbn. repeat split; auto using mono_refl.
  - cbn [ensure_chain]. destruct (ensure_dir_snoc fs base c H) as [fs1 [E [Hl [Hm [Hp Hq]]]]].
    rewrite E. destruct (IH fs1 (base ++ [c]) Hp) as [fs2 [E2 [Hm2 [Hp2 Hq2]]]].
    exists fs2. split; [exact E2|]. split; [eapply mono_trans; eauto|].
    split; [rewrite <- app_assoc in Hp2; exact Hp2|].
    intros q Hc. rewrite Hq2, Hq; [reflexivity | |].
    + intros ->. destruct Hc as [Hc | Hc].
      * rewrite prefixb_app in Hc; discriminate.
      * apply (f_equal (@length name)) in Hc. rewrite app_length in Hc; cbn in Hc; lia.
    + destruct Hc as [Hc | ->].
      * left. eapply prefixb_false_trans; [apply prefixb_app | exact Hc].
      * left. destruct (prefixb (base ++ [c]) base) eqn:E3; [|reflexivity].
        apply prefixb_length in E3. rewrite app_length in E3; cbn in E3; lia.
Qed.
