From Restic Require Import Base.Prelude Model.S_Prune Proofs.S_Prunep Model.C09m Proofs.C09p Model.C11m.
Import SPrune C09m C11m.
Open Scope N_scope.

Definition SnapsOk (S : state) : Prop := forall s needs, In (s, needs) (snaps S) -> Consistent (repo_of S) needs.

Lemma snaps_okb_iff S : snaps_okb S = true <-> SnapsOk S.
Proof.
  unfold snaps_okb, SnapsOk. rewrite forallb_forall. split.
  - intros H s needs Hin. apply consistentb_iff. apply (H (s, needs) Hin).
  - intros H [s needs] Hin. apply consistentb_iff. eapply H; eassumption.
Qed.

(* saving never makes a loadable blob unloadable *)
Lemma resolvable_mono R R' h :
  (forall ix, In ix (idxs R) -> In ix (idxs R')) -> (forall pk, In pk (packs R) -> In pk (packs R')) ->
  resolvable R h -> resolvable R' h.
Proof.
  intros H1 H2 [i [es [p [bs [A [B [C D]]]]]]]. exists i, es, p, bs. repeat split; auto.
Qed.

Lemma bstep_preserves S o : bstep_ok S o = true -> SnapsOk S -> SnapsOk (bapply S o).
Proof.
  intros Hs Hok. destruct o as [p bs|i es|s needs|]; cbn [bapply bstep_ok] in *.
  - intros s needs Hin h Hh. cbn [repo_of snaps] in *. eapply resolvable_mono; [| |eapply Hok; eassumption].
    + cbn. auto.
    + cbn. intros pk Hp. right. exact Hp.
  - intros s needs Hin h Hh. cbn [repo_of snaps] in *. eapply resolvable_mono; [| |eapply Hok; eassumption].
    + cbn. intros ix Hx. right. exact Hx.
    + cbn. auto.
  - intros s' needs' Hin. cbn [repo_of snaps] in *. destruct Hin as [E|Hin].
    + inversion E; subst. apply consistentb_iff, Hs.
    + eapply Hok; eassumption.
  - discriminate.
Qed.

Theorem backup_prefix_safe tr : forall S, SnapsOk S -> ok_backup S tr = true ->
  forall n, SnapsOk (brun S (firstn n tr)).
Proof.
  induction tr as [|o tr IH]; intros S Hok Hr n.
  - destruct n; exact Hok.
  - destruct n; [exact Hok|]. cbn [firstn brun fold_left]. cbn [ok_backup] in Hr.
    apply andb_true_iff in Hr as [H1 H2]. apply IH; [apply bstep_preserves; assumption | exact H2].
Qed.

(* existing snapshots and everything they need stay untouched: no file present before disappears *)
Lemma bstep_keeps S o : bstep_ok S o = true ->
  (forall ix, In ix (idxs (repo_of S)) -> In ix (idxs (repo_of (bapply S o)))) /\
  (forall pk, In pk (packs (repo_of S)) -> In pk (packs (repo_of (bapply S o)))) /\
  (forall sn, In sn (snaps S) -> In sn (snaps (bapply S o))).
Proof.
  destruct o; cbn [bstep_ok bapply repo_of snaps apply idxs packs]; intros H; try discriminate;
    repeat split; intros; auto; right; assumption.
Qed.

Theorem backup_never_removes tr : forall S, ok_backup S tr = true -> forall n,
  (forall ix, In ix (idxs (repo_of S)) -> In ix (idxs (repo_of (brun S (firstn n tr))))) /\
  (forall pk, In pk (packs (repo_of S)) -> In pk (packs (repo_of (brun S (firstn n tr))))) /\
  (forall sn, In sn (snaps S) -> In sn (snaps (brun S (firstn n tr)))).
Proof.
  induction tr as [|o tr IH]; intros S Hr n.
  - destruct n; cbn; auto.
  - destruct n; [cbn; auto|]. cbn [firstn brun fold_left]. cbn [ok_backup] in Hr.
    apply andb_true_iff in Hr as [H1 H2]. destruct (bstep_keeps S o H1) as [K1 [K2 K3]].
    destruct (IH _ H2 n) as [J1 [J2 J3]]. repeat split; intros; auto.
Qed.

(* ---------- later operations on the state left by an interrupted backup ---------- *)
(* a later backup (complete or again interrupted anywhere) on the state left by a backup that was
   interrupted anywhere keeps all present snapshots closed under the index *)
Theorem backup_rerun_safe tr1 tr2 S n1 :
  SnapsOk S -> ok_backup S tr1 = true -> ok_backup (brun S (firstn n1 tr1)) tr2 = true ->
  forall n2, SnapsOk (brun (brun S (firstn n1 tr1)) (firstn n2 tr2)).
Proof.
  intros H0 H1 H2 n2. apply backup_prefix_safe; [apply backup_prefix_safe; assumption | exact H2].
Qed.

(* the blobs needed by the present snapshots = what prune must keep *)
Definition used_of (S : state) : list N := flat_map (fun sn => snd sn) (snaps S).

Lemma snaps_ok_consistent S : SnapsOk S -> Consistent (repo_of S) (used_of S).
Proof.
  intros H h Hh. unfold used_of in Hh. apply in_flat_map in Hh as [[s needs] [Hin Hn]]. cbn [snd] in Hn.
  eapply H; eassumption.
Qed.

(* a prune (any valid plan, any trace with the structure of Execute, interrupted anywhere) on the state
   left by a backup that was interrupted anywhere never loses a blob needed by a present snapshot *)
Theorem prune_after_interrupted_backup_safe tr S n1 pl ptr :
  SnapsOk S -> ok_backup S tr = true ->
  let S1 := brun S (firstn n1 tr) in
  valid_planb (repo_of S1) (used_of S1) pl = true -> run_ok pl PhA (repo_of S1) ptr = true ->
  forall n2, Consistent (run (repo_of S1) (firstn n2 ptr)) (used_of S1).
Proof.
  intros H0 H1 S1 Hv Hr n2. apply prune_prefix_safe with (pl := pl); [|exact Hv|exact Hr].
  apply snaps_ok_consistent. apply backup_prefix_safe; assumption.
Qed.

Lemma check_trace_sound S0 tr : check_case (CTrace S0 tr) = 0%nat ->
  forall n, SnapsOk (brun S0 (firstn n tr)).
Proof.
  cbn [check_case]. intros H.
  destruct (snaps_okb S0) eqn:E1; cbn [negb] in H; [|discriminate].
  destruct (ok_backup S0 tr) eqn:E2; cbn [negb] in H; [|discriminate].
  intros n. apply backup_prefix_safe; [apply snaps_okb_iff, E1 | exact E2].
Qed.

Lemma check_crash_sound S rep c1 c2 c3 :
  check_C11 (CCrash S rep c1 c2 c3) = true <-> SnapsOk S /\ rep = true /\ c1 = true /\ c2 = true /\ c3 = true.
Proof.
  unfold check_C11, check_case. rewrite <- snaps_okb_iff.
  destruct (snaps_okb S), rep, c1, c2, c3; cbn; split; intros H; try discriminate; try tauto;
    destruct H as [? [? [? [? ?]]]]; discriminate.
Qed.

(* non-vacuity: one old snapshot; the backup saves pack 2, its index, then the snapshot *)
Definition ex_S0 : state := mkSt (mkR [(1, [1])] [(1, [(1, 1)])]) [(1, [1])].
Example c11_nonvacuous :
  snaps_okb ex_S0 = true /\
  ok_backup ex_S0 [BSaveP 2 [2; 3]; BSaveI 2 [(2, 2); (2, 3)]; BSaveS 2 [1; 2; 3]] = true /\
  (* snapshot before the index that covers it: rejected *)
  ok_backup ex_S0 [BSaveP 2 [2; 3]; BSaveS 2 [1; 2; 3]; BSaveI 2 [(2, 2); (2, 3)]] = false /\
  (* index before its pack: rejected *)
  ok_backup ex_S0 [BSaveI 2 [(2, 2)]; BSaveP 2 [2; 3]] = false /\
  (* index naming a blob the pack does not contain: rejected *)
  ok_backup ex_S0 [BSaveP 2 [2]; BSaveI 2 [(2, 2); (2, 3)]] = false.
Proof. vm_compute. repeat split. Qed.
