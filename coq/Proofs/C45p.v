(* C45 proofs: the file writer emits the blobs in Content order under every loader schedule;
   the archive entries are the pre-order list of the file/dir/symlink nodes. *)
From Restic Require Import Base.Prelude Model.C45m.
Import C45m.

(* ---- writeNode ---- *)
Definition winv (bs : blobs) (content : list N) (st : wstate) : Prop :=
  w_out st ++ concat (map (bo bs) (map fst (w_queue st))) ++ concat (map (bo bs) (w_rest st))
  = file_bytes bs content /\
  (forall i, In i (map fst (w_queue st)) \/ In i (w_rest st) -> In i content).

Lemma fill_spec k : forall q i q', fill k q = Some (i, q') -> map fst q' = map fst q /\ In i (map fst q).
Proof.
  induction k as [|k IH]; intros [|[j b] q] i q' H; cbn [fill] in H; try discriminate.
  - destruct b; [discriminate|]. inversion H; subst. split; [reflexivity | left; reflexivity].
  - destruct (fill k q) as [[i0 r]|] eqn:E; [|discriminate]. inversion H; subst.
    destruct (IH _ _ _ E) as [H1 H2]. cbn [map fst]. split; [f_equal; exact H1 | right; exact H2].
Qed.

Lemma winit_inv bs content : winv bs content (winit content).
Proof. split; [reflexivity | intros i [[]|H]; exact H]. Qed.

Lemma wstep_inv bs content st e st' : winv bs content st -> wstep bs st e = WOk st' -> winv bs content st'.
Proof.
  intros [H1 H2] Hs. destruct e as [|k|]; cbn [wstep] in Hs.
  - destruct (w_rest st) as [|i r] eqn:Er; [discriminate|]. inversion Hs; subst st'. unfold winv. cbn [w_out w_queue w_rest].
    split.
    + rewrite <- H1. rewrite !map_app, concat_app. cbn [map concat]. rewrite app_nil_r, <- !app_assoc. reflexivity.
    + intros j [Hj|Hj]; apply H2.
      * rewrite map_app in Hj. apply in_app_or in Hj. destruct Hj as [Hj|[<-|[]]]; [left; exact Hj | right; left; reflexivity].
      * right; right; exact Hj.
  - destruct (fill k (w_queue st)) as [[i q]|] eqn:Ef; [|discriminate].
    destruct (blob_of bs i); [|discriminate]. inversion Hs; subst st'. unfold winv. cbn [w_out w_queue w_rest].
    destruct (fill_spec _ _ _ _ Ef) as [Hq _]. rewrite Hq. split; assumption.
  - destruct (w_queue st) as [|[i [|]] q] eqn:Eq; try discriminate. inversion Hs; subst st'. unfold winv.
    cbn [w_out w_queue w_rest map fst concat] in *. split.
    + rewrite <- H1, <- !app_assoc. reflexivity.
    + intros j [Hj|Hj]; apply H2; [left; right; exact Hj | right; exact Hj].
Qed.

Lemma wrun_inv bs content evs : forall st st', winv bs content st -> wrun bs st evs = WOk st' -> winv bs content st'.
Proof.
  induction evs as [|e evs IH]; intros st st' I H; cbn [wrun] in H.
  - inversion H; subst; exact I.
  - destruct (wstep bs st e) as [st1| |] eqn:Es; try discriminate.
    eapply IH; [eapply wstep_inv; eassumption | exact H].
Qed.

Lemma file_dump_exact bs content evs st :
  wrun bs (winit content) evs = WOk st -> wterminal st -> w_out st = file_bytes bs content.
Proof.
  intros H [Hr Hq]. destruct (wrun_inv bs content evs _ _ (winit_inv bs content) H) as [H1 _].
  rewrite Hr, Hq in H1. cbn [map concat] in H1. rewrite !app_nil_r in H1. exact H1.
Qed.

Lemma file_dump_error_only_if_missing bs content evs :
  wrun bs (winit content) evs = WErr -> exists i, In i content /\ blob_of bs i = None.
Proof.
  assert (G : forall evs st, winv bs content st -> wrun bs st evs = WErr ->
                             exists i, In i content /\ blob_of bs i = None).
  { clear evs. induction evs as [|e evs IH]; intros st I H; cbn [wrun] in H; [discriminate|].
    destruct (wstep bs st e) as [st1| |] eqn:Es; try discriminate.
    - eapply IH; [eapply wstep_inv; eassumption | exact H].
    - destruct e as [|k|]; cbn [wstep] in Es.
      + destruct (w_rest st); discriminate.
      + destruct (fill k (w_queue st)) as [[i q]|] eqn:Ef; [|discriminate].
        destruct (blob_of bs i) eqn:Eb; [discriminate|]. exists i. split; [|exact Eb].
        destruct I as [_ I2]. apply I2. left. apply (fill_spec _ _ _ _ Ef).
      + destruct (w_queue st) as [|[i [|]] q]; discriminate. }
  intros H. eapply G; [apply winit_inv | exact H].
Qed.

(* a complete run exists whenever all blobs are present (the writer is not starved) *)
Fixpoint seq_sched (content : list N) : list wev :=
  match content with [] => [] | _ :: r => Spawn :: Fill 0 :: Write :: seq_sched r end.

Lemma file_dump_complete bs content : all_present bs content = true ->
  exists st, wrun bs (winit content) (seq_sched content) = WOk st /\ wterminal st.
Proof.
  intros Hp. unfold winit.
  assert (G : forall content out, all_present bs content = true ->
            exists st, wrun bs (mkw content [] out) (seq_sched content) = WOk st /\ wterminal st).
  { clear. induction content as [|i r IH]; intros out Hp.
    - exists (mkw [] [] out). split; [reflexivity | split; reflexivity].
    - cbn [all_present forallb] in Hp. apply andb_true_iff in Hp. destruct Hp as [Hi Hr].
      cbn [seq_sched wrun wstep w_rest w_queue w_out app fill].
      destruct (blob_of bs i) eqn:Eb; [|discriminate]. cbn [w_rest w_queue w_out]. apply IH. exact Hr. }
  apply G; exact Hp.
Qed.

(* ---- entries ---- *)
Section node_ind'.
  Variable P : node -> Prop.
  Hypothesis H : forall n t m c l s, Forall P s -> P (Node n t m c l s).
  Fixpoint node_ind' (x : node) : P x :=
    match x with
    | Node n t m c l s =>
        H n t m c l s ((fix go (l0 : list node) : Forall P l0 :=
                          match l0 with
                          | [] => Forall_nil _
                          | y :: l' => Forall_cons _ (node_ind' y) (go l')
                          end) s)
    end.
End node_ind'.

Definition dmp (pn : list N * node) : bool := dumpable (snd pn).

Lemma filter_flat_map {A B} (f : B -> bool) (g : A -> list B) l :
  filter f (flat_map g l) = flat_map (fun x => filter f (g x)) l.
Proof.
  induction l as [|x l IH]; [reflexivity|]. cbn [flat_map]. rewrite filter_app, IH. reflexivity.
Qed.

Lemma flat_map_ext_Forall {A B} (f g : A -> list B) l :
  Forall (fun x => f x = g x) l -> flat_map f l = flat_map g l.
Proof. induction 1 as [|x l Hx _ IH]; [reflexivity|]. cbn [flat_map]. rewrite Hx, IH. reflexivity. Qed.

Lemma isdir_dumpable n : isdir n = true -> dumpable n = true.
Proof. unfold dumpable. intros ->. rewrite orb_true_r. reflexivity. Qed.

Lemma walk_node_spec n : forall prefix, walk_node prefix n = filter dmp (preorder prefix n).
Proof.
  induction n as [nm t m c l s IH] using node_ind'. intros prefix.
  cbn [walk_node preorder nname nsub]. destruct (isdir (Node nm t m c l s)) eqn:Ed.
  - cbn [filter]. unfold dmp at 1. cbn [snd]. rewrite (isdir_dumpable _ Ed). f_equal.
    rewrite filter_flat_map. apply flat_map_ext_Forall.
    eapply Forall_impl; [|exact IH]. intros a Ha. apply Ha.
  - cbn [filter]. unfold dmp. cbn [snd]. destruct (dumpable (Node nm t m c l s)); reflexivity.
Qed.

Lemma send_nodes_spec prefix n : send_nodes prefix n = filter dmp (preorder prefix n).
Proof.
  rewrite <- walk_node_spec. unfold send_nodes. destruct n as [nm t m c l s].
  cbn [walk_node nname nsub]. destruct (dumpable (Node nm t m c l s)) eqn:Edm; cbn [negb].
  - destruct (isdir (Node nm t m c l s)); reflexivity.
  - destruct (isdir (Node nm t m c l s)) eqn:Ed; [|reflexivity].
    rewrite (isdir_dumpable _ Ed) in Edm. discriminate.
Qed.

Lemma archive_entries root t : send_trees root t = spec_nodes root t.
Proof.
  unfold send_trees, spec_nodes. fold dmp. rewrite filter_flat_map.
  apply flat_map_ext_Forall. apply Forall_forall. intros n _. apply send_nodes_spec.
Qed.

Lemma no_other_types root t p n : In (p, n) (send_trees root t) ->
  isfile n = true \/ isdir n = true \/ issym n = true.
Proof.
  rewrite archive_entries. unfold spec_nodes. intros H. apply filter_In in H. destruct H as [_ H].
  cbn [snd] in H. unfold dumpable in H. apply orb_true_iff in H. destruct H as [H|H]; [|tauto].
  apply orb_true_iff in H. tauto.
Qed.

Lemma every_dumpable_node_listed root t p n : In (p, n) (flat_map (preorder root) t) ->
  dumpable n = true -> In (p, n) (send_trees root t).
Proof. intros H Hd. rewrite archive_entries. apply filter_In. split; [exact H | exact Hd]. Qed.

Lemma model_eq_expected c : model c = expected c.
Proof. unfold model, expected. rewrite archive_entries. reflexivity. Qed.

(* ---- header mapping ---- *)
Lemma tar_entry_faithful bs p n :
  e_ty (tar_entry bs p n) = nty n /\ e_slash (tar_entry bs p n) = isdir n /\
  e_content (tar_entry bs p n) = file_bytes bs (ncontent n) /\
  (issym n = true -> e_link (tar_entry bs p n) = nlink n) /\
  (issym n = false -> e_link (tar_entry bs p n) = []).
Proof. unfold tar_entry; cbn. repeat split; intros H; rewrite H; reflexivity. Qed.

Lemma zip_entry_faithful bs p n :
  e_ty (zip_entry bs p n) = nty n /\ e_slash (zip_entry bs p n) = isdir n /\
  (issym n = true -> e_content (zip_entry bs p n) = nlink n) /\
  (issym n = false -> e_content (zip_entry bs p n) = file_bytes bs (ncontent n)).
Proof. unfold zip_entry; cbn. repeat split; intros H; rewrite H; reflexivity. Qed.

(* ---- oracle ---- *)
Lemma ids_eqb_spec a b : ids_eqb a b = true <-> a = b.
Proof.
  revert b; induction a as [|x a IH]; intros [|y b]; cbn [ids_eqb]; split; intro H;
    try reflexivity; try discriminate.
  - apply andb_true_iff in H as [H1 H2]. apply N.eqb_eq in H1. apply IH in H2. subst; reflexivity.
  - inversion H; subst. apply andb_true_iff; split; [apply N.eqb_refl | apply IH; reflexivity].
Qed.

Lemma entry_eqb_spec a b : entry_eqb a b = true <-> a = b.
Proof.
  destruct a as [p s t m l c], b as [p' s' t' m' l' c']. unfold entry_eqb, shape_eqb.
  cbn [e_path e_slash e_ty e_mode e_link e_content]. split; intro H.
  - apply andb_true_iff in H. destruct H as [H Hm]. apply andb_true_iff in H. destruct H as [H Hl].
    apply andb_true_iff in H. destruct H as [H Hc]. apply andb_true_iff in H. destruct H as [H Ht].
    apply andb_true_iff in H. destruct H as [Hp Hs].
    apply ids_eqb_spec in Hp. apply eqb_prop in Hs. apply N.eqb_eq in Ht. apply ids_eqb_spec in Hc.
    apply ids_eqb_spec in Hl. apply N.eqb_eq in Hm. subst; reflexivity.
  - inversion H; subst. rewrite !(proj2 (ids_eqb_spec _ _) eq_refl), eqb_reflx, !N.eqb_refl. reflexivity.
Qed.

Lemma all2_entry_eqb a : forall b, all2 entry_eqb a b = true <-> a = b.
Proof.
  induction a as [|x a IH]; intros [|y b]; cbn [all2]; split; intro H; try reflexivity; try discriminate.
  - apply andb_true_iff in H. destruct H as [H1 H2]. apply entry_eqb_spec in H1. apply IH in H2. subst; reflexivity.
  - inversion H; subst. apply andb_true_iff. split; [apply entry_eqb_spec; reflexivity | apply IH; reflexivity].
Qed.

Lemma check_C45_iff c : check_C45 c = true <->
  (if forallb (all_present_tree (c_blobs c)) (c_tree c)
   then o_err c = false /\ o_entries c = expected c
   else o_err c = true).
Proof.
  unfold check_C45. destruct (forallb (all_present_tree (c_blobs c)) (c_tree c)); [|reflexivity].
  rewrite andb_true_iff, negb_true_iff, all2_entry_eqb. reflexivity.
Qed.

(* non-vacuity: nested dirs, a multi-blob file with a repeated blob, a symlink, a fifo at depth 0
   and deeper (both dropped), setuid + sticky bits *)
Definition ex_blobs : blobs := [(1%N, [65%N; 66%N]); (2%N, [67%N]); (3%N, [])].
Definition ex_tree : tree :=
  [Node 1 1 2147484141 [] [] [Node 1 0 8389028 [1%N; 2%N; 1%N; 3%N] [] []; Node 2 3 420 [] [] [];
                              Node 3 1 2148532717 [] [] [Node 1 2 134218239 [] [120%N] []]];
   Node 2 3 420 [] [] []; Node 3 0 384 [] [] []].

Example c45_nonvacuous :
  map (fun pn => (fst pn, nty (snd pn))) (send_trees [9%N] ex_tree) =
    [([9%N; 1%N], 1%N); ([9%N; 1%N; 1%N], 0%N); ([9%N; 1%N; 3%N], 1%N); ([9%N; 1%N; 3%N; 1%N], 2%N); ([9%N; 3%N], 0%N)]
  /\ map e_content (model (mk ex_blobs 0 [9%N] ex_tree false [])) = [[]; [65%N; 66%N; 67%N; 65%N; 66%N]; []; []; []]
  /\ map e_mode (model (mk ex_blobs 0 [9%N] ex_tree false [])) = [493%N; 2468%N; 1005%N; 511%N; 384%N]
  /\ check_case (mk ex_blobs 1 [9%N] ex_tree false (model (mk ex_blobs 1 [9%N] ex_tree false []))) = 0%nat
  /\ exists st, wrun ex_blobs (winit [1%N; 2%N; 1%N]) [Spawn; Spawn; Fill 1; Spawn; Fill 2; Fill 0; Write; Write; Write] = WOk st
                /\ wterminal st /\ w_out st = [65%N; 66%N; 67%N; 65%N; 66%N].
Proof. vm_compute. repeat split. eexists. repeat split. Qed.
