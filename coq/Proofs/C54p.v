From Restic Require Import Base.Prelude Model.C54m.
Import C54m.
Local Open Scope N_scope.

(* ---- entry count ---- *)

Lemma walk_length t : N.of_nat (length (walk t)) = entries t.
Proof.
  induction t as [|a sub IHs rest IHr]; cbn [walk entries length]; [reflexivity|].
  rewrite app_length, Nat2N.inj_succ, Nat2N.inj_add, IHr.
  destruct (is_dir a); cbn [length]; [rewrite IHs|]; lia.
Qed.

Lemma count_eq_entries snaps : s_count (run_stats snaps) = sumN (map entries snaps).
Proof.
  unfold run_stats; cbn [s_count]. induction snaps as [|t r IH]; cbn [map sumN fold_right]; [reflexivity|].
  unfold sumN in IH. rewrite IH. unfold stats_count_snap. rewrite walk_length. reflexivity.
Qed.

(* ---- the stats fold, read declaratively ---- *)

Definition lmatch (k : key) (b : attrs) : bool := linked b && key_eqb k (key_of b).

Lemma key_eqb_refl k : key_eqb k k = true.
Proof. unfold key_eqb. rewrite !N.eqb_refl. reflexivity. Qed.

Lemma key_eqb_eq x y : key_eqb x y = true <-> x = y.
Proof.
  unfold key_eqb. destruct x, y; cbn [fst snd]. rewrite andb_true_iff, !N.eqb_eq.
  split; [intros [-> ->]; reflexivity | intros H; inversion H; auto].
Qed.

Lemma key_eqb_sym x y : key_eqb x y = key_eqb y x.
Proof. unfold key_eqb. rewrite (N.eqb_sym (fst x)), (N.eqb_sym (snd x)). reflexivity. Qed.

Lemma sfold_spec l : forall pre idx tot,
  (forall k, has idx k = existsb (lmatch k) pre) ->
  snd (fold_left sstep l (idx, tot)) = tot + sum_counted pre l.
Proof.
  induction l as [|a r IH]; intros pre idx tot Hidx; cbn [fold_left sum_counted snd]; [lia|].
  unfold sstep at 2. unfold counted.
  assert (Hex : existsb (fun b => linked b && key_eqb (key_of a) (key_of b)) pre = has idx (key_of a))
    by (rewrite Hidx; reflexivity).
  rewrite Hex. unfold linked at 1.
  destruct (N.eqb (a_links a) 1) eqn:E1; cbn [orb negb andb].
  - rewrite (IH (a :: pre) idx (tot + a_size a)); [lia|].
    intros k. cbn [existsb]. unfold lmatch at 1, linked. rewrite E1. cbn [negb andb orb]. apply Hidx.
  - destruct (is_dir a) eqn:Ed; cbn [orb negb andb].
    + rewrite (IH (a :: pre) idx (tot + a_size a)); [lia|].
      intros k. cbn [existsb]. unfold lmatch at 1, linked. rewrite E1, Ed. cbn [negb andb orb]. apply Hidx.
    + assert (Hl : linked a = true) by (unfold linked; rewrite E1, Ed; reflexivity).
      destruct (N.eqb (a_inode a) 0) eqn:E0; destruct (has idx (key_of a)) eqn:Eh; cbn [orb negb].
      * rewrite (IH (a :: pre) (key_of a :: idx) (tot + a_size a)); [lia|].
        intros k. cbn [existsb has]. unfold has. cbn [existsb]. unfold lmatch at 1. rewrite Hl.
        cbn [andb]. f_equal. apply Hidx.
      * rewrite (IH (a :: pre) (key_of a :: idx) (tot + a_size a)); [lia|].
        intros k. unfold has. cbn [existsb]. unfold lmatch at 1. rewrite Hl.
        cbn [andb]. f_equal. apply Hidx.
      * rewrite (IH (a :: pre) idx tot); [lia|].
        intros k. cbn [existsb]. unfold lmatch at 1. rewrite Hl. cbn [andb].
        destruct (key_eqb k (key_of a)) eqn:Ek; cbn [orb]; [|apply Hidx].
        apply key_eqb_eq in Ek. subst k. exact Eh.
      * rewrite (IH (a :: pre) (key_of a :: idx) (tot + a_size a)); [lia|].
        intros k. unfold has. cbn [existsb]. unfold lmatch at 1. rewrite Hl.
        cbn [andb]. f_equal. apply Hidx.
Qed.

Lemma stats_size_counted l : stats_size_nodes l = sum_counted [] l.
Proof. unfold stats_size_nodes. rewrite (sfold_spec l [] [] 0); [lia | reflexivity]. Qed.

(* ---- the restore fold ---- *)

Definition rmatch (k : key) (b : attrs) : bool :=
  is_file b && N.ltb 1 (a_links b) && key_eqb k (key_of b).

Definition rcounted (pre : list attrs) (a : attrs) : bool :=
  is_file a && (negb (N.ltb 1 (a_links a)) || negb (existsb (rmatch (key_of a)) pre)).

Fixpoint rsum_counted (pre l : list attrs) : N :=
  match l with
  | [] => 0
  | a :: r => (if rcounted pre a then a_size a else 0) + rsum_counted (a :: pre) r
  end.

Lemma rfold_spec l : forall pre idx tot,
  (forall k, has idx k = existsb (rmatch k) pre) ->
  snd (fold_left rstep l (idx, tot)) = tot + rsum_counted pre l.
Proof.
  induction l as [|a r IH]; intros pre idx tot Hidx; cbn [fold_left rsum_counted snd]; [lia|].
  unfold rstep at 2. unfold rcounted. rewrite <- Hidx.
  destruct (is_file a) eqn:Ef; cbn [negb andb].
  - destruct (N.ltb 1 (a_links a)) eqn:El; cbn [negb orb].
    + destruct (has idx (key_of a)) eqn:Eh; cbn [negb].
      * rewrite (IH (a :: pre) idx tot); [lia|].
        intros k. cbn [existsb]. unfold rmatch at 1. rewrite Ef, El. cbn [andb].
        destruct (key_eqb k (key_of a)) eqn:Ek; cbn [orb]; [|apply Hidx].
        apply key_eqb_eq in Ek. subst k. exact Eh.
      * rewrite (IH (a :: pre) (key_of a :: idx) (tot + a_size a)); [lia|].
        intros k. unfold has. cbn [existsb]. unfold rmatch at 1. rewrite Ef, El.
        cbn [andb]. f_equal. apply Hidx.
    + rewrite (IH (a :: pre) idx (tot + a_size a)); [lia|].
      intros k. cbn [existsb]. unfold rmatch at 1. rewrite Ef, El. cbn [andb orb]. apply Hidx.
  - rewrite (IH (a :: pre) idx tot); [lia|].
    intros k. cbn [existsb]. unfold rmatch at 1. rewrite Ef. cbn [andb orb]. apply Hidx.
Qed.

Lemma restore_bytes_counted l : restore_bytes_nodes l = rsum_counted [] l.
Proof. unfold restore_bytes_nodes. rewrite (rfold_spec l [] [] 0); [lia | reflexivity]. Qed.

(* ---- stats size = restore bytes on well-formed snapshots ---- *)

Lemma existsb_ext_in {A} (f g : A -> bool) l :
  (forall x, In x l -> f x = g x) -> existsb f l = existsb g l.
Proof.
  induction l as [|x r IH]; intros H; cbn [existsb]; [reflexivity|].
  rewrite (H x (or_introl eq_refl)), IH; [reflexivity|]. intros y Hy; apply H; right; exact Hy.
Qed.

Lemma file_not_dir a : is_file a = true -> is_dir a = false.
Proof. unfold is_file, is_dir. destruct (a_type a); congruence. Qed.

Lemma ntype_eqb_eq x y : ntype_eqb x y = true -> x = y.
Proof. destruct x, y; cbn; congruence. Qed.

Section WF.
  Variable U : list attrs.
  Hypothesis Hnode : forall a, In a U -> wf_node a = true.
  Hypothesis Hpair : forall a b, In a U -> In b U -> wf_pair a b = true.

  Lemma counted_agree pre a : incl pre U -> In a U ->
    (if counted pre a then a_size a else 0) = (if rcounted pre a then a_size a else 0).
  Proof.
    intros Hpre Ha. pose proof (Hnode a Ha) as Wa. unfold wf_node in Wa.
    apply andb_true_iff in Wa as [Wa W3]. apply andb_true_iff in Wa as [W1 W2].
    unfold counted, rcounted.
    destruct (is_file a) eqn:Ef; cbn [andb orb negb] in *.
    - pose proof (file_not_dir a Ef) as Ed. unfold linked at 1. rewrite Ed. cbn [negb andb].
      apply N.leb_le in W2.
      destruct (N.eqb (a_links a) 1) eqn:E1.
      + apply N.eqb_eq in E1. assert (El : N.ltb 1 (a_links a) = false) by (apply N.ltb_ge; lia).
        rewrite El. reflexivity.
      + apply N.eqb_neq in E1. assert (El : N.ltb 1 (a_links a) = true) by (apply N.ltb_lt; lia).
        rewrite El in *. cbn [negb orb] in *. apply negb_true_iff in W3. rewrite W3. cbn [orb].
        rewrite (existsb_ext_in (fun b => linked b && key_eqb (key_of a) (key_of b)) (rmatch (key_of a)) pre);
          [reflexivity|].
        intros b Hb. unfold rmatch.
        destruct (key_eqb (key_of a) (key_of b)) eqn:Ek; [|rewrite !andb_false_r; reflexivity].
        rewrite !andb_true_r.
        destruct (linked b) eqn:Lb.
        * pose proof (Hpair a b Ha (Hpre b Hb)) as Wp. unfold wf_pair in Wp.
          assert (La : linked a = true).
          { unfold linked. rewrite Ed. apply N.eqb_neq in E1. rewrite E1. reflexivity. }
          rewrite La, Lb, Ek in Wp. cbn [andb negb orb] in Wp. apply ntype_eqb_eq in Wp.
          assert (Efb : is_file b = true) by (unfold is_file in *; rewrite <- Wp; exact Ef).
          rewrite Efb. cbn [andb]. symmetry. apply N.ltb_lt.
          pose proof (Hnode b (Hpre b Hb)) as Wb. unfold wf_node in Wb.
          apply andb_true_iff in Wb as [Wb _]. apply andb_true_iff in Wb as [_ Wb2].
          rewrite Efb in Wb2. cbn [negb orb] in Wb2. apply N.leb_le in Wb2.
          unfold linked in Lb. apply andb_true_iff in Lb as [Lb _]. apply negb_true_iff, N.eqb_neq in Lb. lia.
        * symmetry. destruct (is_file b) eqn:Efb; cbn [andb]; [|reflexivity].
          apply N.ltb_ge. unfold linked in Lb. rewrite (file_not_dir b Efb) in Lb. cbn [negb] in Lb.
          rewrite andb_true_r in Lb. apply negb_false_iff, N.eqb_eq in Lb. lia.
    - apply N.eqb_eq in W1. rewrite W1. destruct (_ || _ || _); reflexivity.
  Qed.

  Lemma sums_agree l : forall pre, incl pre U -> incl l U -> sum_counted pre l = rsum_counted pre l.
  Proof.
    induction l as [|a r IH]; intros pre Hpre Hl; cbn [sum_counted rsum_counted]; [reflexivity|].
    rewrite counted_agree; [|exact Hpre | apply Hl; left; reflexivity].
    rewrite IH; [reflexivity | |].
    - intros x [<-|Hx]; [apply Hl; left; reflexivity | apply Hpre; exact Hx].
    - intros x Hx; apply Hl; right; exact Hx.
  Qed.
End WF.

Lemma size_eq_restore_nodes l : wf_nodes l = true -> stats_size_nodes l = restore_bytes_nodes l.
Proof.
  intros W. unfold wf_nodes in W. apply andb_true_iff in W as [W1 W2].
  rewrite forallb_forall in W1, W2.
  rewrite stats_size_counted, restore_bytes_counted.
  apply (sums_agree l); [exact W1 | | intros x Hx; destruct Hx | apply incl_refl].
  intros a b Ha Hb. pose proof (W2 a Ha) as W. rewrite forallb_forall in W. apply W; exact Hb.
Qed.

Lemma size_eq_restore_bytes snaps :
  forallb wf_snap snaps = true ->
  s_size (run_stats snaps) = sumN (map restore_bytes_snap snaps).
Proof.
  unfold run_stats; cbn [s_size]. induction snaps as [|t r IH]; cbn [forallb map sumN fold_right]; [reflexivity|].
  intros W. apply andb_true_iff in W as [Wt Wr]. unfold sumN in IH. rewrite (IH Wr).
  unfold stats_size_snap, restore_bytes_snap. rewrite (size_eq_restore_nodes _ Wt). reflexivity.
Qed.

(* a node that is not part of hard-link bookkeeping always counts; a later link to an
   already seen (inode<>0, device) never counts *)
Lemma counted_unlinked pre a : linked a = false -> counted pre a = true.
Proof. intros H; unfold counted; rewrite H; reflexivity. Qed.

Lemma counted_repeat pre a b :
  linked a = true -> a_inode a <> 0 -> In b pre -> linked b = true -> key_of b = key_of a ->
  counted pre a = false.
Proof.
  intros La Hi Hb Lb Hk. unfold counted. rewrite La. apply N.eqb_neq in Hi. rewrite Hi. cbn [negb orb].
  apply negb_false_iff, existsb_exists. exists b. split; [exact Hb|]. rewrite Lb, Hk, key_eqb_refl. reflexivity.
Qed.

Lemma counted_first pre a :
  (forall b, In b pre -> linked b = true -> key_of b <> key_of a) -> counted pre a = true.
Proof.
  intros H. unfold counted. destruct (existsb _ pre) eqn:E; [|rewrite !orb_true_r; reflexivity].
  apply existsb_exists in E as [b [Hb Hm]]. apply andb_true_iff in Hm as [Lb Hk].
  apply key_eqb_eq in Hk. exfalso. apply (H b Hb Lb). symmetry; exact Hk.
Qed.

(* ---- oracle ---- *)

Definition restores_agree (s : stats) (rs : list robs) : Prop :=
  rs = [] \/
  (sumN (map r_files rs) = s_count s /\ sumN (map d_entries rs) = s_count s /\
   sumN (map r_bytes rs) = s_size s /\ sumN (map r_written rs) = s_size s /\
   sumN (map d_bytes rs) = s_size s).

Definition C54_holds (c : case) : Prop :=
  exists s, c_obs c = Some s
    /\ s_count s = sumN (map entries (c_snaps c))
    /\ s_snaps s = N.of_nat (length (c_snaps c))
    /\ (forallb wf_snap (c_snaps c) = true -> s_size s = sumN (map restore_bytes_snap (c_snaps c)))
    /\ restores_agree s (c_restores c).

Lemma check_C54_iff c : check_C54 c = true <-> C54_holds c.
Proof.
  unfold check_C54, C54_holds, count_ok, size_ok, restores_ok, restores_agree.
  destruct (c_obs c) as [s|].
  - split.
    + intros H. apply andb_true_iff in H as [H H3]. apply andb_true_iff in H as [H1 H2].
      apply andb_true_iff in H1 as [H1a H1b]. apply N.eqb_eq in H1a, H1b.
      exists s. repeat split; try assumption.
      * intros W. rewrite W in H2. apply N.eqb_eq in H2. exact H2.
      * destruct (c_restores c) as [|r rs]; [left; reflexivity|right].
        repeat (apply andb_true_iff in H3 as [H3 ?]). rewrite !N.eqb_eq in *. repeat split; assumption.
    + intros [s' [E [H1 [H2 [H3 H4]]]]]. inversion E; subst s'. clear E.
      apply andb_true_iff; split; [apply andb_true_iff; split|].
      * apply andb_true_iff; split; apply N.eqb_eq; assumption.
      * destruct (forallb wf_snap (c_snaps c)); [rewrite (H3 eq_refl); apply N.eqb_refl | reflexivity].
      * destruct (c_restores c) as [|r rs]; [reflexivity|].
        destruct H4 as [H4|[A [B [C [D E]]]]]; [discriminate|].
        rewrite A, B, C, D, E, !N.eqb_refl. reflexivity.
  - split; [intros H; discriminate | intros [s [E _]]; discriminate].
Qed.

Lemma model_meets_oracle snaps : check_C54 (mk snaps (Some (run_stats snaps)) []) = true.
Proof.
  apply check_C54_iff. exists (run_stats snaps). cbn [c_obs c_snaps c_restores].
  repeat split.
  - apply count_eq_entries.
  - apply size_eq_restore_bytes.
  - left; reflexivity.
Qed.

Lemma model_case_ok snaps : check_case (mk snaps (Some (run_stats snaps)) []) = 0%nat.
Proof.
  pose proof (model_meets_oracle snaps) as H. unfold check_C54 in H.
  apply andb_true_iff in H as [H H3]. apply andb_true_iff in H as [H1 H2].
  unfold check_case. rewrite H1, H2, H3. cbn [negb c_obs c_snaps].
  unfold stats_eqb. rewrite !N.eqb_refl. reflexivity.
Qed.

(* ---- non-vacuity ---- *)
Definition f (sz links ino : N) := mkA TFile sz links ino 7.
Definition d := mkA TDir 0 0 100 7.
(* /d/{a (1000, link group 5), b (1000, same group), c (30, single)}, e -> symlink, f (empty) *)
Definition ex_tree : tree :=
  Node d (Node (f 1000 2 5) Nil (Node (f 1000 2 5) Nil (Node (f 30 1 6) Nil Nil)))
    (Node (mkA TSymlink 0 1 8 7) Nil (Node (f 0 1 9) Nil Nil)).

Example c54_nonvacuous :
  wf_snap ex_tree = true
  /\ run_stats [ex_tree; ex_tree] = mkS 12 2060 2
  /\ restore_bytes_snap ex_tree = 1030
  /\ sumN (map a_size (filter is_file (walk ex_tree))) = 2030.
Proof. vm_compute. repeat split. Qed.

(* outside the well-formedness hypothesis the two really differ: Links = 0 on two files sharing an inode *)
Example c54_wf_needed :
  let t := Node (f 10 0 5) Nil (Node (f 10 0 5) Nil Nil) in
  wf_snap t = false /\ stats_size_snap t = 10 /\ restore_bytes_snap t = 20.
Proof. vm_compute. repeat split. Qed.
