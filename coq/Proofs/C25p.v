From Restic Require Import Base.Prelude Model.C25m.
From Coq Require Import Permutation.
Import C25m.

(* ------------------------------------------------------------------ basic boolean reflections *)
Lemma bytes_eqb_sym a b : bytes_eqb a b = bytes_eqb b a.
Proof.
  destruct (bytes_eqb a b) eqn:E1, (bytes_eqb b a) eqn:E2; try reflexivity.
  - apply bytes_eqb_spec in E1; subst. rewrite bytes_eqb_refl in E2; discriminate.
  - apply bytes_eqb_spec in E2; subst. rewrite bytes_eqb_refl in E1; discriminate.
Qed.

Lemma bytes_eqb_false a b : bytes_eqb a b = false <-> a <> b.
Proof.
  split.
  - intros H E; subst. rewrite bytes_eqb_refl in H; discriminate.
  - intros H. destruct (bytes_eqb a b) eqn:E; [apply bytes_eqb_spec in E; contradiction | reflexivity].
Qed.

Lemma mem_spec t l : mem t l = true <-> In t l.
Proof.
  unfold mem. rewrite existsb_exists. split.
  - intros [x [Hx E]]. apply bytes_eqb_spec in E; subst; exact Hx.
  - intros H. exists t. split; [exact H | apply bytes_eqb_refl].
Qed.

Lemma mem_false t l : mem t l = false <-> ~ In t l.
Proof.
  rewrite <- mem_spec. destruct (mem t l); split; intro H; try reflexivity; try discriminate.
  - exfalso; apply H; reflexivity.
Qed.

Lemma subset_spec a b : subset a b = true <-> (forall x, In x a -> In x b).
Proof.
  unfold subset. rewrite forallb_forall. split; intros H x Hx.
  - apply mem_spec, H, Hx.
  - apply mem_spec, H, Hx.
Qed.

Lemma set_eqb_spec a b : set_eqb a b = true <-> (forall x, In x a <-> In x b).
Proof.
  unfold set_eqb. rewrite andb_true_iff, !subset_spec. split.
  - intros [H1 H2] x; split; auto.
  - intros H; split; intros x; apply H.
Qed.

Lemma diff_spec a b x : In x (diff a b) <-> In x a /\ ~ In x b.
Proof.
  unfold diff. rewrite filter_In, negb_true_iff, mem_false. reflexivity.
Qed.

Lemma tags_eqb_spec a b : tags_eqb a b = true <-> a = b.
Proof. apply list_eqb_spec. exact bytes_eqb_spec. Qed.

Lemma optN_eqb_spec a b : optN_eqb a b = true <-> a = b.
Proof.
  destruct a, b; cbn; split; intro H; try reflexivity; try discriminate.
  - apply N.eqb_eq in H; subst; reflexivity.
  - inversion H; apply N.eqb_refl.
Qed.

Lemma is_nil_spec {A} (l : list A) : is_nil l = true <-> l = [].
Proof. destruct l; cbn; split; intro H; try reflexivity; discriminate. Qed.

(* ------------------------------------------------------------------ AddTags *)
Lemma add_tags_app tags A : exists X, fst (add_tags tags A) = tags ++ X /\ (forall x, In x X -> In x A).
Proof.
  revert tags; induction A as [|a A IH]; intros tags; cbn [add_tags].
  - exists []. rewrite app_nil_r. split; [reflexivity | intros x []].
  - destruct (mem a tags).
    + destruct (IH tags) as [X [E HX]]. exists X. split; [exact E | intros x Hx; right; apply HX, Hx].
    + cbn [fst]. destruct (IH (tags ++ [a])) as [X [E HX]]. exists (a :: X).
      rewrite E, <- app_assoc. split; [reflexivity|].
      intros x [<-|Hx]; [left; reflexivity | right; apply HX, Hx].
Qed.

Lemma add_tags_In tags A x : In x (fst (add_tags tags A)) <-> In x tags \/ In x A.
Proof.
  revert tags; induction A as [|a A IH]; intros tags; cbn [add_tags].
  - cbn. tauto.
  - destruct (mem a tags) eqn:E.
    + rewrite IH. apply mem_spec in E. cbn [In]. split; [tauto|].
      intros [H|[<-|H]]; tauto.
    + cbn [fst]. rewrite IH, in_app_iff. cbn [In]. tauto.
Qed.

Lemma add_tags_changed tags A : snd (add_tags tags A) = negb (subset A tags).
Proof.
  revert tags; induction A as [|a A IH]; intros tags; cbn [add_tags subset forallb]; [reflexivity|].
  destruct (mem a tags); cbn [snd andb negb]; [apply IH | reflexivity].
Qed.

Lemma add_tags_NoDup tags A : NoDup tags -> NoDup (fst (add_tags tags A)).
Proof.
  revert tags; induction A as [|a A IH]; intros tags Hn; cbn [add_tags]; [exact Hn|].
  destruct (mem a tags) eqn:E; [apply IH, Hn|]. cbn [fst]. apply IH.
  apply mem_false in E. apply (Permutation_NoDup (Permutation_cons_append tags a)). constructor; assumption.
Qed.

(* ------------------------------------------------------------------ RemoveTags *)
Lemma perm_filter {A} (p : A -> bool) l l' : Permutation l l' -> Permutation (filter p l) (filter p l').
Proof.
  induction 1; cbn [filter].
  - constructor.
  - destruct (p x); [constructor|]; assumption.
  - destruct (p x), (p y); try apply perm_swap; try apply Permutation_refl.
  - eapply Permutation_trans; eassumption.
Qed.

Lemma perm_last_removelast {A} (l : list A) d : l <> [] -> Permutation (last l d :: removelast l) l.
Proof.
  intros H. rewrite (app_removelast_last d H) at 3. apply Permutation_cons_append.
Qed.

Lemma length_last_removelast {A} (l : list A) d : l <> [] -> length (last l d :: removelast l) = length l.
Proof. intros H. apply Permutation_length, perm_last_removelast, H. Qed.

Definition keep (r : tag) (t : tag) : bool := negb (bytes_eqb t r).

Lemma rm_loop_perm fuel : forall done rest r ch, length rest <= fuel ->
  Permutation (fst (rm_loop fuel done rest r ch)) (done ++ filter (keep r) rest).
Proof.
  induction fuel as [|f IH]; intros done rest r ch Hl; cbn [rm_loop].
  - destruct rest; [|cbn in Hl; lia]. apply Permutation_refl.
  - destruct rest as [|t rest']; [cbn; rewrite app_nil_r; apply Permutation_refl|].
    cbn [length] in Hl. cbn [filter]. unfold keep at 1.
    destruct (negb (bytes_eqb t r)).
    + eapply Permutation_trans; [apply IH; lia|]. rewrite <- app_assoc. apply Permutation_refl.
    + destruct rest' as [|x l]; [cbn; rewrite app_nil_r; apply Permutation_refl|].
      assert (Hne : x :: l <> []) by discriminate.
      eapply Permutation_trans.
      * apply IH. rewrite length_last_removelast by exact Hne. lia.
      * apply Permutation_app_head, perm_filter, perm_last_removelast, Hne.
Qed.

Lemma rm_loop_true fuel : forall done rest r, snd (rm_loop fuel done rest r true) = true.
Proof.
  induction fuel as [|f IH]; intros done rest r; cbn [rm_loop]; [reflexivity|].
  destruct rest as [|t rest']; [reflexivity|].
  destruct (negb (bytes_eqb t r)); [apply IH|].
  destruct rest'; [reflexivity | apply IH].
Qed.

Lemma rm_loop_changed fuel : forall done rest r ch, length rest <= fuel ->
  snd (rm_loop fuel done rest r ch) = orb ch (mem r rest).
Proof.
  induction fuel as [|f IH]; intros done rest r ch Hl; cbn [rm_loop].
  - destruct rest; [|cbn in Hl; lia]. cbn. rewrite orb_false_r; reflexivity.
  - destruct rest as [|t rest']; [cbn; rewrite orb_false_r; reflexivity|].
    cbn [length] in Hl. unfold mem; cbn [existsb]. fold (mem r rest').
    rewrite (bytes_eqb_sym r t).
    destruct (bytes_eqb t r); cbn [negb orb].
    + rewrite orb_true_r. destruct rest'; [reflexivity | apply rm_loop_true].
    + apply IH; lia.
Qed.

Lemma remove_one_perm tags r ch : Permutation (fst (remove_one tags r ch)) (filter (keep r) tags).
Proof. unfold remove_one. apply (rm_loop_perm (length tags) [] tags r ch). lia. Qed.

Lemma remove_one_changed tags r ch : snd (remove_one tags r ch) = orb ch (mem r tags).
Proof. unfold remove_one. apply rm_loop_changed. lia. Qed.

Lemma keep_diff r tags : filter (keep r) tags = diff tags [r].
Proof.
  unfold diff. apply filter_ext. intros t. unfold keep, mem; cbn [existsb]. rewrite orb_false_r. reflexivity.
Qed.

Lemma mem_app x b c : mem x (b ++ c) = orb (mem x b) (mem x c).
Proof. unfold mem. apply existsb_app. Qed.

Lemma diff_diff a b c : diff (diff a b) c = diff a (b ++ c).
Proof.
  unfold diff. induction a as [|x a IH]; cbn [filter]; [reflexivity|].
  rewrite mem_app.
  destruct (mem x b); cbn [negb orb filter].
  - exact IH.
  - destruct (mem x c); cbn [negb]; rewrite IH; reflexivity.
Qed.

Lemma remove_tags_go_perm R : forall tags ch,
  Permutation (fst (remove_tags_go tags R ch)) (diff tags R).
Proof.
  induction R as [|r R IH]; intros tags ch; cbn [remove_tags_go].
  - cbn [fst]. unfold diff. rewrite (filter_ext _ (fun _ => true)) by reflexivity.
    clear. induction tags; cbn; [constructor | constructor; assumption].
  - destruct (remove_one tags r ch) as [t c] eqn:E.
    eapply Permutation_trans; [apply IH|].
    change (r :: R) with ([r] ++ R). rewrite <- diff_diff.
    apply (perm_filter (fun t0 => negb (mem t0 R))). rewrite <- keep_diff.
    pose proof (remove_one_perm tags r ch) as P. rewrite E in P. exact P.
Qed.

(* multiplicities of the remaining tags are untouched, all occurrences of removed tags go *)
Lemma remove_tags_perm tags R : Permutation (fst (remove_tags tags R)) (diff tags R).
Proof. apply remove_tags_go_perm. Qed.

Lemma remove_tags_In tags R x : In x (fst (remove_tags tags R)) <-> In x tags /\ ~ In x R.
Proof.
  rewrite <- diff_spec. split; apply Permutation_in;
    [ | apply Permutation_sym ]; apply remove_tags_perm.
Qed.

Lemma disjoint_spec a b : disjoint a b = true <-> (forall x, In x a -> ~ In x b).
Proof.
  unfold disjoint. rewrite forallb_forall. split; intros H x Hx.
  - apply mem_false. specialize (H x Hx). apply negb_true_iff in H. exact H.
  - apply negb_true_iff, mem_false, H, Hx.
Qed.

Lemma bool_eq_iff (a b : bool) : (a = true <-> b = true) -> a = b.
Proof. destruct a, b; intros [H1 H2]; try reflexivity; [symmetry; apply H1 | apply H2]; reflexivity. Qed.

Lemma remove_tags_go_changed R : forall tags ch,
  snd (remove_tags_go tags R ch) = orb ch (negb (disjoint R tags)).
Proof.
  induction R as [|r R IH]; intros tags ch; cbn [remove_tags_go].
  - cbn. rewrite orb_false_r; reflexivity.
  - destruct (remove_one tags r ch) as [t c] eqn:E. rewrite IH.
    pose proof (remove_one_changed tags r ch) as Hc. rewrite E in Hc; cbn [snd] in Hc. subst c.
    pose proof (remove_one_perm tags r ch) as P. rewrite E in P; cbn [fst] in P.
    unfold disjoint at 2. cbn [forallb]. fold (disjoint R tags).
    destruct (mem r tags) eqn:Em; cbn [negb andb]; [rewrite !orb_true_r; reflexivity|].
    rewrite orb_false_r. f_equal. f_equal.
    apply bool_eq_iff. rewrite !disjoint_spec.
    assert (Hin : forall x, In x t <-> In x tags).
    { intros x. split; intro Hx.
      - apply (Permutation_in _ P) in Hx. apply filter_In in Hx. tauto.
      - apply (Permutation_in _ (Permutation_sym P)). apply filter_In. split; [exact Hx|].
        unfold keep. apply negb_true_iff, bytes_eqb_false. intros ->.
        apply mem_false in Em. contradiction. }
    split; intros H x Hx Hx'; apply (H x Hx), Hin, Hx'.
Qed.

(* changed <-> some requested tag was present *)
Lemma remove_tags_changed tags R : snd (remove_tags tags R) = negb (disjoint R tags).
Proof. unfold remove_tags. rewrite remove_tags_go_changed. reflexivity. Qed.

(* ------------------------------------------------------------------ Flatten *)
Lemma flatten_In ls x : In x (flatten ls) <-> x <> [] /\ exists l, In l ls /\ In x l.
Proof.
  unfold flatten. rewrite in_flat_map. split.
  - intros [l [Hl Hx]]. apply filter_In in Hx as [Hx Hn]. split.
    + intros ->. discriminate.
    + exists l; tauto.
  - intros [Hn [l [Hl Hx]]]. exists l. split; [exact Hl|]. apply filter_In. split; [exact Hx|].
    destruct x; [contradiction | reflexivity].
Qed.

Lemma flatten_nonempty ls : Forall (fun t => t <> []) (flatten ls).
Proof. apply Forall_forall. intros x Hx. apply flatten_In in Hx. tauto. Qed.

(* ------------------------------------------------------------------ splitTagList *)
Fixpoint join_comma (ps : list bytes) : bytes :=
  match ps with
  | [] => []
  | [p] => p
  | p :: r => p ++ 44%N :: join_comma r
  end.

Lemma split_comma_nonnil s : split_comma s <> [].
Proof.
  induction s as [|c r IH]; cbn [split_comma]; [discriminate|].
  destruct (N.eqb c 44); [discriminate|]. destruct (split_comma r); discriminate.
Qed.

(* the pieces, joined by commas again, give back the flag value; no piece contains a comma *)
Lemma join_split s : join_comma (split_comma s) = s.
Proof.
  induction s as [|c r IH]; [reflexivity|]. cbn [split_comma].
  destruct (N.eqb_spec c 44) as [->|Hne].
  - pose proof (split_comma_nonnil r) as Hn. destruct (split_comma r) as [|p ps] eqn:E; [contradiction|].
    cbn [join_comma app]. rewrite <- IH. reflexivity.
  - pose proof (split_comma_nonnil r) as Hn. destruct (split_comma r) as [|p ps] eqn:E; [contradiction|].
    rewrite <- IH. destruct ps; reflexivity.
Qed.

Lemma split_no_comma s : forall p, In p (split_comma s) -> ~ In 44%N p.
Proof.
  induction s as [|c r IH]; cbn [split_comma]; intros p Hp.
  - destruct Hp as [<-|[]]. intros [].
  - destruct (N.eqb_spec c 44) as [->|Hne].
    + destruct Hp as [<-|Hp]; [intros [] | apply IH, Hp].
    + destruct (split_comma r) as [|q qs] eqn:E.
      * destruct Hp as [<-|[]]. intros [H|[]]. congruence.
      * destruct Hp as [<-|Hp].
        -- intros [H|H]; [congruence|]. apply (IH q (or_introl eq_refl)), H.
        -- apply IH. right. exact Hp.
Qed.

Lemma trim_left_spec s :
  exists pre, s = pre ++ trim_left s /\ Forall (fun c => is_space c = true) pre
              /\ (forall c r, trim_left s = c :: r -> is_space c = false).
Proof.
  induction s as [|c r IH]; cbn [trim_left].
  - exists []. repeat split; [constructor | intros c r H; discriminate].
  - destruct (is_space c) eqn:E.
    + destruct IH as [pre [H1 [H2 H3]]]. exists (c :: pre). split; [cbn; congruence|].
      split; [constructor; assumption | exact H3].
    + exists []. split; [reflexivity|]. split; [constructor|]. intros c' r' H. inversion H; subst. exact E.
Qed.

(* strings.TrimSpace (ASCII white space): the piece is  spaces ++ trimmed ++ spaces  and the
   trimmed part neither starts nor ends with white space *)
Lemma trim_spec s :
  exists pre post, s = pre ++ trim s ++ post
    /\ Forall (fun c => is_space c = true) pre /\ Forall (fun c => is_space c = true) post
    /\ (forall c r, trim s = c :: r -> is_space c = false)
    /\ (forall c r, trim s = r ++ [c] -> is_space c = false).
Proof.
  unfold trim. destruct (trim_left_spec s) as [pre [H1 [H2 H3]]].
  destruct (trim_left_spec (rev (trim_left s))) as [post' [K1 [K2 K3]]].
  set (m := trim_left (rev (trim_left s))) in *.
  assert (Hs : trim_left s = rev m ++ rev post').
  { rewrite <- rev_app_distr, <- K1, rev_involutive. reflexivity. }
  exists pre, (rev post'). split; [rewrite H1 at 1; rewrite Hs; reflexivity|].
  split; [exact H2|]. split; [apply Forall_rev, K2|]. split.
  - intros c r Hc. apply (H3 c (r ++ rev post')). rewrite Hs, Hc. reflexivity.
  - intros c r Hc. apply (K3 c (rev r)).
    rewrite <- (rev_involutive m), Hc, rev_app_distr. reflexivity.
Qed.

Lemma split_tag_list_spec s :
  length (split_tag_list s) = length (split_comma s)
  /\ join_comma (split_comma s) = s
  /\ forall t, In t (split_tag_list s) -> exists p, In p (split_comma s) /\ t = trim p /\ ~ In 44%N t.
Proof.
  unfold split_tag_list. split; [apply map_length|]. split; [apply join_split|].
  intros t Ht. apply in_map_iff in Ht as [p [<- Hp]]. exists p. split; [exact Hp|]. split; [reflexivity|].
  intros Hc. apply (split_no_comma s p Hp).
  destruct (trim_spec p) as [pre [post [E _]]]. rewrite E. apply in_or_app; right. apply in_or_app; left. exact Hc.
Qed.

(* ------------------------------------------------------------------ changeTags / runTag *)
Lemma change_tags_set tags setL addT remT : setL <> [] ->
  change_tags tags (set_arg setL) addT remT = (flatten setL, true).
Proof.
  intros Hne. unfold set_arg. pose proof (flatten_nonempty setL) as Hf.
  destruct setL as [|l0 ls]; [contradiction|]. cbn [is_nil negb andb].
  destruct (flatten (l0 :: ls)) as [|t s] eqn:E; cbn [is_nil change_tags]; [reflexivity|].
  destruct s; [|reflexivity]. inversion Hf as [|? ? Ht _]; subst.
  destruct t; [contradiction | reflexivity].
Qed.

Lemma change_tags_addrm tags addT remT x :
  In x (fst (change_tags tags [] addT remT)) <-> (In x tags \/ In x addT) /\ ~ In x remT.
Proof.
  cbn [change_tags]. destruct (add_tags tags addT) as [t1 c1] eqn:E1.
  destruct (remove_tags t1 remT) as [t2 c2] eqn:E2. cbn [fst].
  pose proof (remove_tags_In t1 remT x) as H2. rewrite E2 in H2; cbn [fst] in H2.
  pose proof (add_tags_In tags addT x) as H1. rewrite E1 in H1; cbn [fst] in H1.
  rewrite H2, H1. reflexivity.
Qed.

(* the changed flag of add/remove mode is true exactly when the tag SET must change *)
Lemma change_tags_flag tags addT remT :
  snd (change_tags tags [] addT remT) = false ->
  fst (change_tags tags [] addT remT) = tags.
Proof.
  cbn [change_tags]. destruct (add_tags tags addT) as [t1 c1] eqn:E1.
  destruct (remove_tags t1 remT) as [t2 c2] eqn:E2. cbn [fst snd]. intros H.
  apply orb_false_iff in H as [-> ->].
  (* nothing added *)
  assert (t1 = tags).
  { clear E2. revert tags t1 E1. induction addT as [|a A IH]; intros tags t1 E1; cbn [add_tags] in E1.
    - inversion E1; reflexivity.
    - destruct (mem a tags); [apply IH, E1 | inversion E1]. }
  subst t1. clear E1.
  (* nothing removed *)
  unfold remove_tags in E2. revert tags t2 E2.
  induction remT as [|r R IH]; intros tags t2 E2; cbn [remove_tags_go] in E2.
  - inversion E2; reflexivity.
  - destruct (remove_one tags r false) as [t c] eqn:E.
    assert (Hc : c = false).
    { pose proof (remove_tags_go_changed R t c) as Hs. rewrite E2 in Hs; cbn [snd] in Hs.
      destruct c; [discriminate | reflexivity]. }
    subst c. pose proof (remove_one_changed tags r false) as Hm. rewrite E in Hm; cbn in Hm.
    symmetry in Hm.
    assert (t = tags).
    { clear - E Hm. unfold remove_one in E. apply mem_false in Hm.
      assert (G : forall fuel done rest, ~ In r rest -> length rest <= fuel ->
                  rm_loop fuel done rest r false = (done ++ rest, false)).
      { induction fuel as [|f IHf]; intros done rest Hn Hl; cbn [rm_loop]; [reflexivity|].
        destruct rest as [|x rest']; [rewrite app_nil_r; reflexivity|].
        assert (bytes_eqb x r = false) as ->.
        { apply bytes_eqb_false. intros ->. apply Hn; left; reflexivity. }
        cbn [negb]. rewrite IHf; [rewrite <- app_assoc; reflexivity | | cbn in Hl; lia].
        intro; apply Hn; right; assumption. }
      rewrite (G (length tags) [] tags Hm (le_n _)) in E. inversion E; reflexivity. }
    subst t. apply IH, E2.
Qed.

Definition orig_after (sn : snap) : option N :=
  match s_orig sn with None => Some (s_id sn) | Some x => Some x end.

(* a selected snapshot: what the model of changeTags leaves *)
Lemma snap_fate_cases sn setT addT remT :
  (snap_fate sn setT addT remT = Same /\ snd (change_tags (s_tags sn) setT addT remT) = false)
  \/ (snap_fate sn setT addT remT = Replaced (fst (change_tags (s_tags sn) setT addT remT)) (orig_after sn)
      /\ snd (change_tags (s_tags sn) setT addT remT) = true).
Proof.
  unfold snap_fate, orig_after. destruct (change_tags (s_tags sn) setT addT remT) as [t ch].
  destruct ch; [right | left]; split; reflexivity.
Qed.

(* tags a snapshot carries after the command, given its fate *)
Definition tags_after (sn : snap) (f : fate) : list tag :=
  match f with Replaced t _ => t | _ => s_tags sn end.

Lemma snap_fate_tags sn setT addT remT :
  setT = [] \/ snd (change_tags (s_tags sn) setT addT remT) = true ->
  forall x, In x (tags_after sn (snap_fate sn setT addT remT)) <->
            In x (fst (change_tags (s_tags sn) setT addT remT)).
Proof.
  intros Hm x. destruct (snap_fate_cases sn setT addT remT) as [[-> Hf] | [-> Hf]]; cbn [tags_after].
  - destruct Hm as [-> | Ht]; [|rewrite Ht in Hf; discriminate].
    rewrite (change_tags_flag _ _ _ Hf). reflexivity.
  - reflexivity.
Qed.

(* ------------------------------------------------------------------ the property over run_tag *)

(* declarative statement of C25 for one command on one repository *)
Definition spec_snapshot (sn : snap) (selected : bool) (setL addL remL : list (list tag)) (f : fate) : Prop :=
  f <> Lost /\
  (selected = false -> f = Same) /\
  (selected = true ->
     (setL <> [] -> tags_after sn f = flatten setL) /\
     (setL = [] -> forall x, In x (tags_after sn f) <->
                     (In x (s_tags sn) \/ In x (flatten addL)) /\ ~ In x (flatten remL)) /\
     (forall t o, f = Replaced t o -> o = orig_after sn)).

Lemma run_tag_done repo sel setL addL remL fs :
  run_tag repo sel setL addL remL = Done fs ->
  (setL <> [] /\ addL = [] /\ remL = []) \/ (setL = [] /\ (addL <> [] \/ remL <> [])).
Proof.
  unfold run_tag. destruct setL, addL, remL; cbn; intros H; try discriminate;
    try (left; repeat split; try reflexivity; discriminate);
    right; split; try reflexivity; try (left; discriminate); right; discriminate.
Qed.

Lemma run_tag_fates repo sel setL addL remL fs :
  run_tag repo sel setL addL remL = Done fs ->
  fs = map (fun p : snap * bool => if snd p then snap_fate (fst p) (set_arg setL) (flatten addL) (flatten remL) else Same)
           (combine repo sel).
Proof.
  unfold run_tag.
  destruct (is_nil setL && (is_nil addL && is_nil remL))%bool; [discriminate|].
  destruct (negb (is_nil setL) && negb (is_nil addL && is_nil remL))%bool; [discriminate|].
  intros H; inversion H; reflexivity.
Qed.

Lemma set_arg_nil : set_arg [] = [].
Proof. reflexivity. Qed.

Lemma spec_selected sn setL addL remL :
  (setL <> [] /\ addL = [] /\ remL = []) \/ (setL = [] /\ (addL <> [] \/ remL <> [])) ->
  spec_snapshot sn true setL addL remL (snap_fate sn (set_arg setL) (flatten addL) (flatten remL)).
Proof.
  intros Hmode. unfold spec_snapshot.
  destruct (snap_fate_cases sn (set_arg setL) (flatten addL) (flatten remL)) as [[E Hf] | [E Hf]].
  - rewrite E. split; [discriminate|]. split; [reflexivity|]. intros _.
    destruct Hmode as [[Hs [-> ->]] | [-> _]].
    + rewrite (change_tags_set _ _ _ _ Hs) in Hf. discriminate.
    + split; [intros H; contradiction|]. split; [|intros t o H; discriminate].
      intros _ x. cbn [tags_after]. rewrite set_arg_nil in Hf.
      rewrite <- (change_tags_flag _ _ _ Hf) at 1. apply change_tags_addrm.
  - rewrite E. split; [discriminate|]. split; [discriminate|]. intros _. cbn [tags_after].
    split; [|split].
    + intros Hs. rewrite (change_tags_set _ _ _ _ Hs). reflexivity.
    + intros ->. intros x. rewrite set_arg_nil. apply change_tags_addrm.
    + intros t o H. inversion H; reflexivity.
Qed.

Theorem run_tag_spec repo sel setL addL remL fs :
  length sel = length repo ->
  run_tag repo sel setL addL remL = Done fs ->
  length fs = length repo /\
  forall i sn s f, nth_error repo i = Some sn -> nth_error sel i = Some s -> nth_error fs i = Some f ->
                   spec_snapshot sn s setL addL remL f.
Proof.
  intros Hl Hr. pose proof (run_tag_done _ _ _ _ _ _ Hr) as Hmode.
  apply run_tag_fates in Hr. subst fs. split.
  - rewrite map_length, combine_length, Hl. apply Nat.min_id.
  - revert sel Hl. induction repo as [|sn0 repo IH]; intros sel Hl i sn s f H1 H2 H3.
    + destruct i; discriminate.
    + destruct sel as [|s0 sel]; [discriminate|]. cbn [combine map] in H3.
      destruct i as [|i]; cbn [nth_error] in H1, H2, H3.
      * inversion H1; inversion H2; inversion H3; subst. cbn [snd fst].
        destruct s.
        -- apply spec_selected, Hmode.
        -- unfold spec_snapshot. split; [discriminate|]. split; [reflexivity | discriminate].
      * eapply IH; eauto.
Qed.

(* option checks *)
Lemma run_tag_nothing repo sel setL addL remL :
  run_tag repo sel setL addL remL = ENothing <-> setL = [] /\ addL = [] /\ remL = [].
Proof.
  unfold run_tag. destruct setL, addL, remL; cbn; split; intro H; try discriminate;
    try (repeat split; reflexivity); destruct H as [? [? ?]]; discriminate.
Qed.

Lemma run_tag_conflict repo sel setL addL remL :
  run_tag repo sel setL addL remL = EConflict <-> setL <> [] /\ (addL <> [] \/ remL <> []).
Proof.
  unfold run_tag. destruct setL, addL, remL; cbn; split; intro H; try discriminate;
    try (split; [discriminate|]; try (left; discriminate); right; discriminate);
    destruct H as [H1 H2]; try congruence; destruct H2; congruence.
Qed.

(* ------------------------------------------------------------------ oracle *)
Lemma tags_ok_spec old new setL addL remL :
  tags_ok old new setL addL remL = true <->
  (setL <> [] -> new = flatten setL) /\
  (setL = [] -> forall x, In x new <-> (In x old \/ In x (flatten addL)) /\ ~ In x (flatten remL)).
Proof.
  unfold tags_ok. destruct setL as [|l ls]; cbn [is_nil negb].
  - rewrite set_eqb_spec. split.
    + intros H. split; [intros C; contradiction|]. intros _ x. rewrite H, diff_spec, in_app_iff. reflexivity.
    + intros [_ H] x. rewrite (H eq_refl), diff_spec, in_app_iff. reflexivity.
  - rewrite tags_eqb_spec. split.
    + intros ->. split; [reflexivity | discriminate].
    + intros [H _]. apply H. discriminate.
Qed.

Lemma run_code_sound repo : forall sel fs setL addL remL,
  run_code repo sel fs setL addL remL = 0 ->
  length fs = length repo /\ length sel = length repo /\
  forall i sn s f, nth_error repo i = Some sn -> nth_error sel i = Some s -> nth_error fs i = Some f ->
                   spec_snapshot sn s setL addL remL f.
Proof.
  induction repo as [|sn0 repo IH]; intros sel fs setL addL remL H.
  - destruct sel, fs; cbn in H; try discriminate. split; [reflexivity|]. split; [reflexivity|].
    intros [|j] sn s f H1; discriminate.
  - destruct sel as [|s0 sel]; [discriminate|]. destruct fs as [|f0 fs]; [discriminate|].
    cbn [run_code] in H.
    assert (Hrest : run_code repo sel fs setL addL remL = 0 /\ spec_snapshot sn0 s0 setL addL remL f0).
    { destruct f0 as [| |t o]; [|discriminate|].
      - destruct s0; cbn [negb] in H.
        + cbn [fate_tags] in H. destruct (tags_ok (s_tags sn0) (s_tags sn0) setL addL remL) eqn:Et; [|discriminate].
          cbn [negb fate_orig_ok] in H. split; [exact H|].
          apply tags_ok_spec in Et as [E1 E2].
          split; [discriminate|]. split; [reflexivity|]. intros _. cbn [tags_after].
          split; [exact E1|]. split; [exact E2 | discriminate].
        + split; [exact H|]. split; [discriminate|]. split; [reflexivity | discriminate].
      - destruct s0; cbn [negb] in H; [|discriminate].
        cbn [fate_tags] in H. destruct (tags_ok (s_tags sn0) t setL addL remL) eqn:Et; [|discriminate].
        cbn [negb] in H. destruct (fate_orig_ok sn0 (Replaced t o)) eqn:Eo; [|discriminate].
        cbn [negb] in H. split; [exact H|].
        apply tags_ok_spec in Et as [E1 E2]. cbn [fate_orig_ok] in Eo. apply optN_eqb_spec in Eo.
        split; [discriminate|]. split; [discriminate|]. intros _. cbn [tags_after].
        split; [exact E1|]. split; [exact E2|]. intros t' o' Hx; inversion Hx as [[Ht Ho]]. rewrite <- Ho. exact Eo. }
    destruct Hrest as [Hr Hs]. destruct (IH _ _ _ _ _ Hr) as [L1 [L2 Hall]].
    split; [cbn; lia|]. split; [cbn; lia|].
    intros [|i] sn s f H1 H2 H3; cbn [nth_error] in *.
    + inversion H1; inversion H2; inversion H3; subst; exact Hs.
    + eapply Hall; eauto.
Qed.

(* oracle soundness for whole-command observations *)
Theorem oracle_run_sound repo sel setL addL remL extra obs :
  check_C25 (KRun repo sel setL addL remL extra obs) = true ->
  (obs = ENothing <-> setL = [] /\ addL = [] /\ remL = []) /\
  (obs = EConflict -> setL <> [] /\ (addL <> [] \/ remL <> [])) /\
  obs <> EOther /\
  forall fs, obs = Done fs ->
    extra = 0 /\ length fs = length repo /\
    forall i sn s f, nth_error repo i = Some sn -> nth_error sel i = Some s -> nth_error fs i = Some f ->
                     spec_snapshot sn s setL addL remL f.
Proof.
  unfold check_C25. intros H. apply Nat.eqb_eq in H. cbn [oracle_code] in H.
  destruct (opts_outcome_ok setL addL remL obs) eqn:Eo; [|discriminate]. cbn [negb] in H.
  split; [|split; [|split]].
  - destruct obs, setL, addL, remL; cbn in Eo; try discriminate; split; intro X;
      try reflexivity; try discriminate; try (repeat split; reflexivity);
      destruct X as [? [? ?]]; discriminate.
  - intros ->. destruct setL, addL, remL; cbn in Eo; try discriminate;
      (split; [discriminate|]); try (left; discriminate); right; discriminate.
  - intros ->. discriminate.
  - intros fs ->. destruct extra; [|discriminate]. split; [reflexivity|].
    apply run_code_sound in H as [L1 [L2 Hall]]. split; assumption.
Qed.

(* the model's own output always satisfies the oracle *)
Lemma run_code_model repo : forall sel setL addL remL,
  length sel = length repo ->
  (setL <> [] /\ addL = [] /\ remL = []) \/ (setL = [] /\ (addL <> [] \/ remL <> [])) ->
  run_code repo sel
    (map (fun p : snap * bool => if snd p then snap_fate (fst p) (set_arg setL) (flatten addL) (flatten remL) else Same)
         (combine repo sel)) setL addL remL = 0.
Proof.
  induction repo as [|sn repo IH]; intros sel setL addL remL Hl Hmode.
  - destruct sel; [reflexivity | discriminate].
  - destruct sel as [|s sel]; [discriminate|]. cbn [combine map fst snd run_code].
    injection Hl as Hl. specialize (IH sel setL addL remL Hl Hmode).
    destruct s; cbn [negb].
    + pose proof (spec_selected sn setL addL remL Hmode) as [Hnl [_ Hsel]].
      specialize (Hsel eq_refl) as [E1 [E2 E3]].
      destruct (snap_fate sn (set_arg setL) (flatten addL) (flatten remL)) as [| |t o] eqn:Ef;
        [| contradiction |]; cbn [fate_tags tags_after] in *.
      * assert (tags_ok (s_tags sn) (s_tags sn) setL addL remL = true) as -> by (apply tags_ok_spec; split; assumption).
        cbn [negb fate_orig_ok]. exact IH.
      * assert (tags_ok (s_tags sn) t setL addL remL = true) as -> by (apply tags_ok_spec; split; assumption).
        cbn [negb fate_orig_ok]. rewrite (E3 t o eq_refl).
        assert (optN_eqb (orig_after sn) (orig_after sn) = true) as Ho by (apply optN_eqb_spec; reflexivity).
        unfold orig_after in Ho. unfold orig_after. rewrite Ho. cbn [negb]. exact IH.
    + exact IH.
Qed.

Theorem model_satisfies_oracle repo sel setL addL remL :
  length sel = length repo ->
  check_C25 (KRun repo sel setL addL remL 0 (run_tag repo sel setL addL remL)) = true.
Proof.
  intros Hl. unfold check_C25. apply Nat.eqb_eq. cbn [oracle_code].
  destruct (run_tag repo sel setL addL remL) as [| | |fs] eqn:Er.
  - apply run_tag_nothing in Er as [-> [-> ->]]. reflexivity.
  - apply run_tag_conflict in Er as [H1 H2].
    destruct setL; [congruence|]. destruct addL, remL; cbn; try reflexivity. destruct H2; congruence.
  - unfold run_tag in Er.
    destruct (is_nil setL && (is_nil addL && is_nil remL))%bool; [discriminate|].
    destruct (negb (is_nil setL) && negb (is_nil addL && is_nil remL))%bool; discriminate.
  - pose proof (run_tag_done _ _ _ _ _ _ Er) as Hmode. pose proof (run_tag_fates _ _ _ _ _ _ Er) as ->.
    assert (opts_outcome_ok setL addL remL (Done (map (fun p : snap * bool => if snd p then snap_fate (fst p) (set_arg setL) (flatten addL) (flatten remL) else Same) (combine repo sel))) = true) as ->.
    { destruct Hmode as [[H1 [-> ->]] | [-> H2]].
      - destruct setL; [congruence | reflexivity].
      - destruct addL, remL; try reflexivity. destruct H2; congruence. }
    cbn [negb]. apply run_code_model; assumption.
Qed.

(* oracle soundness for the unit observations *)
Lemma oracle_add_sound tags A obs ch :
  check_C25 (KAdd tags A obs ch) = true -> forall x, In x obs <-> In x tags \/ In x A.
Proof.
  unfold check_C25. cbn [oracle_code]. destruct (set_eqb obs (tags ++ A)) eqn:E; [|discriminate].
  intros _ x. apply set_eqb_spec with (x := x) in E. rewrite E, in_app_iff. reflexivity.
Qed.

Lemma oracle_remove_sound tags R obs ch :
  check_C25 (KRemove tags R obs ch) = true -> forall x, In x obs <-> In x tags /\ ~ In x R.
Proof.
  unfold check_C25. cbn [oracle_code]. destruct (set_eqb obs (diff tags R)) eqn:E; [|discriminate].
  intros _ x. apply set_eqb_spec with (x := x) in E. rewrite E, diff_spec. reflexivity.
Qed.

(* ------------------------------------------------------------------ refused Saves *)
Lemma snap_fate_not_lost sn setT addT remT : snap_fate sn setT addT remT <> Lost.
Proof. destruct (snap_fate_cases sn setT addT remT) as [[-> _] | [-> _]]; discriminate. Qed.

(* whatever Saves the backend refuses: the number of snapshots is unchanged, no snapshot is lost
   (each is still itself or has exactly one retagged successor), a snapshot whose Save was refused
   stays untouched, every other one is as in the fault-free run *)
Theorem run_tag_f_no_loss repo sel fail setL addL remL fs' :
  length sel = length repo -> length fail = length repo ->
  run_tag_f repo sel fail setL addL remL = Done fs' ->
  length fs' = length repo /\ (forall f, In f fs' -> f <> Lost)
  /\ exists fs, run_tag repo sel setL addL remL = Done fs /\
       forall i b f, nth_error fail i = Some b -> nth_error fs i = Some f ->
                     nth_error fs' i = Some (if b then Same else f).
Proof.
  intros Hs Hf H. unfold run_tag_f in H.
  destruct (run_tag repo sel setL addL remL) as [| | |fs] eqn:Er; try discriminate.
  inversion H; subst fs'. clear H.
  destruct (run_tag_spec _ _ _ _ _ _ Hs Er) as [Hl _].
  pose proof (run_tag_fates _ _ _ _ _ _ Er) as Hfs.
  assert (Hnl : forall f, In f fs -> f <> Lost).
  { intros f Hin. rewrite Hfs in Hin. apply in_map_iff in Hin as [[sn s] [<- _]]. cbn [fst snd].
    destruct s; [apply snap_fate_not_lost | discriminate]. }
  split; [|split].
  - unfold apply_fail. rewrite map_length, combine_length, Hf, Hl. apply Nat.min_id.
  - intros f Hin. unfold apply_fail in Hin. apply in_map_iff in Hin as [[b g] [<- Hin]]. cbn [fst snd].
    destruct b; [discriminate|]. apply Hnl. apply in_combine_r in Hin. exact Hin.
  - exists fs. split; [reflexivity|]. clear. unfold apply_fail.
    revert fs. induction fail as [|b0 fail IH]; intros fs i b f H1 H2.
    + destruct i; discriminate.
    + destruct fs as [|f0 fs]; [destruct i; discriminate|].
      destruct i as [|i]; cbn in *.
      * inversion H1; inversion H2; subst. reflexivity.
      * apply (IH fs i b f H1 H2).
Qed.

(* ------------------------------------------------------------------ non-vacuity *)
From Coq Require Import String. Open Scope string_scope.
Example c25_nonvacuous :
  let a := str "a" in let b := str "b" in let c := str "c" in
  (* duplicate tags: every occurrence goes *)
  remove_tags [a; b; a; c; a] [a] = ([c; b], true)
  /\ add_tags [a; a] [b; a; b] = ([a; a; b], true)
  /\ run_tag [mkSnap 1 [a; a] None 1; mkSnap 2 [b] (Some 7%N) 2; mkSnap 3 [c] None 3] [true; true; false]
             [] [[b; []]] [[a]; [c]]
     = Done [Replaced [b] (Some 1%N); Same; Same]
  /\ run_tag [mkSnap 1 [a; a] None 1; mkSnap 2 [b] (Some 7%N) 2] [true; true] [[[]]] [] []
     = Done [Replaced [] (Some 1%N); Replaced [] (Some 7%N)]
  /\ run_tag [mkSnap 1 [a] None 1] [true] [[a; a]; [b]] [] [] = Done [Replaced [a; a; b] (Some 1%N)]
  /\ parse_flags [str " a , b b,,c "; str ""] = [[a; str "b b"; []; c]; [[]]]
  /\ run_tag_f [mkSnap 1 [a] None 1; mkSnap 2 [b] None 2] [true; true] [true; false] [[c]] [] []
     = Done [Same; Replaced [c] (Some 2%N)]
  /\ run_tag [] [] [[a]] [[b]] [] = EConflict
  /\ run_tag [] [] [] [] [] = ENothing.
Proof. vm_compute. repeat split. Qed.
