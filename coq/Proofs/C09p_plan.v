(* C09, plan derived from the planner model: the plan computed by the model of
   packInfoFromIndex + decidePackAction + the keepBlobs reduction (C10m.plan_prune, option point
   max-unused 0 / no repack limit, where every candidate is repacked) is a valid plan in the sense of
   C09m.valid_planb, for every index listing, used set and pack listing - provided the index is truthful
   for the pack files that exist.  Together with C09_prune_prefix_safe this gives: model plan + any
   run_ok trace => no used blob is lost at any crash prefix. *)
From Restic Require Import Base.Prelude Model.S_Prune Proofs.S_Prunep Model.C09m Proofs.C09p Model.C10m Proofs.C10p.
From Coq Require Import ZifyBool ZifyNat ZifyN.
Import SPrune.
Open Scope N_scope.

Lemma dedupN_In l : forall seen x, In x l -> ~ In x seen -> In x (dedupN l seen).
Proof.
  induction l as [|y l IH]; intros seen x Hin Hs; [destruct Hin|]. cbn [dedupN].
  destruct (memN y seen) eqn:E.
  - destruct Hin as [->|Hin]; [apply memN_In in E; contradiction | apply IH; assumption].
  - destruct (N.eq_dec x y) as [->|Hn]; [left; reflexivity|]. right.
    destruct Hin as [->|Hin]; [congruence|]. apply IH; [exact Hin|]. intros [->|H]; [congruence | contradiction].
Qed.

Lemma packs_of_In es e : In e es -> In (e_pack e) (packs_of es).
Proof. intros H. unfold packs_of. apply dedupN_In; [apply in_map, H | intros []]. Qed.

(* packs marked as seen by the decision loop come from the pack listing *)
Lemma d_step_seen o s pks tgt L d x :
  In (fst x) L -> (forall q, In q (C10m.d_seen d) -> In q L) ->
  forall q, In q (C10m.d_seen (C10m.d_step o s pks tgt d x)) -> In q L.
Proof.
  intros Hx Hd q. unfold C10m.d_step.
  repeat match goal with |- context [if ?b then _ else _] => destruct b end;
    cbn [C10m.d_seen]; intros H; try (apply Hd, H); destruct H as [<-|H]; auto.
Qed.

Lemma d_fold_seen o s pks tgt L l : forall d,
  incl (map fst l) L -> (forall q, In q (C10m.d_seen d) -> In q L) ->
  forall q, In q (C10m.d_seen (fold_left (C10m.d_step o s pks tgt) l d)) -> In q L.
Proof.
  induction l as [|x l IH]; intros d Hi Hd; [exact Hd|]. cbn [fold_left]. apply IH.
  - intros y Hy. apply Hi. right. exact Hy.
  - apply d_step_seen; [apply Hi; left; reflexivity | exact Hd].
Qed.

(* a plan exists only if every used blob is indexed *)
Lemma plan_all_indexed o used es listing f r p i k st h :
  C10m.plan_prune o used es listing = C10m.Plan f r p i k st -> In h used -> (1 <= cnt_h h es)%nat.
Proof.
  intros Hp Hh. destruct (cnt_h h es) eqn:E; [|lia]. exfalso.
  unfold C10m.plan_prune in Hp. rewrite (pack_info_incomplete C10m.kc used es h Hh E) in Hp. discriminate.
Qed.

(* an indexed pack that the plan does not ignore is a listed (existing) pack file *)
Lemma not_ignored_listed o used es listing f r p i k st pk :
  C10m.plan_prune o used es listing = C10m.Plan f r p i k st ->
  In pk (packs_of es) -> ~ In pk i -> In pk (map fst listing).
Proof.
  unfold C10m.plan_prune. destruct (pack_info C10m.kc used es) as [| |s]; try discriminate.
  set (pks := packs_of es). set (tgt := C10m.target_size o s pks).
  set (d := fold_left (C10m.d_step o s pks tgt) listing (C10m.mkD [] [] [] [] 0 0 0 0 0 0 0 0 [] [] false)).
  destruct (C10m.d_err d); [discriminate|].
  destruct (existsb _ (filter (fun q => negb (memN q (C10m.d_seen d))) pks)); [discriminate|].
  intros H Hpk Hni. inversion H; subst; clear H.
  destruct (memN pk (C10m.d_seen d)) eqn:E.
  - apply memN_In in E. revert E. apply (d_fold_seen o s pks tgt (map fst listing) listing).
    + apply incl_refl.
    + cbn. intros q [].
  - exfalso. apply Hni. apply filter_In. split; [exact Hpk|]. rewrite E. reflexivity.
Qed.

Lemma plan_keep_eq o used es listing f r p i k st :
  C10m.plan_prune o used es listing = C10m.Plan f r p i k st ->
  k = match p with [] => [] | _ => C10m.keep_blobs used es (r ++ p ++ i) end.
Proof.
  unfold C10m.plan_prune. destruct (pack_info C10m.kc used es) as [| |s]; try discriminate.
  match goal with |- context [C10m.d_err ?d] => destruct (C10m.d_err d); [discriminate|] end.
  match goal with |- context [existsb ?g ?l] => destruct (existsb g l); [discriminate|] end.
  intros H. inversion H; subst; clear H. reflexivity.
Qed.

Section ModelPlan.
Variables (o : C10m.dopts) (used : list N) (es : list entry) (listing : list (N * N)) (R0 : C09m.repo).
(* abstraction links between the index listing and the abstract repository *)
Hypothesis Hents : forall e, In e es -> In (e_pack e, e_h e) (C09m.ents_of R0).
(* the index is truthful for pack files that exist *)
Hypothesis Htruth : forall e, In e es -> In (e_pack e) (map fst listing) -> C09m.pack_has R0 (e_pack e) (e_h e) = true.

Lemma outside_excl_sres f r p i k st e :
  C10m.plan_prune o used es listing = C10m.Plan f r p i k st ->
  In e es -> ~ In (e_pack e) (r ++ p ++ i) ->
  C09m.sresb [] (r ++ p ++ i) R0 (e_h e) = true.
Proof.
  intros Hp He Hn. pose proof (Hents e He) as Hin. unfold C09m.ents_of in Hin.
  apply in_flat_map in Hin as [[ix ies] [Hix Hie]]. cbn [snd] in Hie.
  unfold C09m.sresb. apply existsb_exists. exists (ix, ies). split; [exact Hix|]. cbn [fst snd memN existsb].
  apply existsb_exists. exists (e_pack e, e_h e). split; [exact Hie|]. cbn [fst snd].
  rewrite N.eqb_refl. apply memN_false in Hn. rewrite Hn. apply Htruth; [exact He|].
  eapply not_ignored_listed; [exact Hp | apply packs_of_In, He|].
  intros X. apply memN_false in Hn. apply Hn. apply in_or_app. right. apply in_or_app. right. exact X.
Qed.

Theorem model_plan_valid f r p i k st ob :
  C10m.plan_prune o used es listing = C10m.Plan f r p i k st ->
  C09m.valid_planb R0 used (C09m.mkPl f (r ++ p) (r ++ p ++ i) k ob) = true.
Proof.
  intros Hp. unfold C09m.valid_planb. cbn [C09m.rm C09m.excl C09m.keep].
  apply andb_true_iff. split.
  - apply forallb_forall. intros q Hq. apply memN_In. rewrite app_assoc. apply in_or_app. left. exact Hq.
  - apply forallb_forall. intros h Hh. destruct (memN h k) eqn:Ek; [reflexivity|].
    apply memN_false in Ek.
    assert (Hidx : (1 <= cnt_h h es)%nat) by (eapply plan_all_indexed; eassumption).
    (* an entry of h outside the excluded packs *)
    assert (X : exists e, In e es /\ e_h e = h /\ ~ In (e_pack e) (r ++ p ++ i)).
    { pose proof (plan_keep_eq _ _ _ _ _ _ _ _ _ _ Hp) as Hk.
      destruct p as [|p0 p'].
      - destruct (used_blob_survives_removal _ _ _ _ _ _ _ _ _ _ h Hp Hh Hidx) as [e [H1 [H2 [H3 H4]]]].
        exists e. repeat split; try assumption. cbn [app]. intros Y. apply in_app_or in Y as [Y|Y]; contradiction.
      - rewrite Hk in Ek. unfold C10m.keep_blobs in Ek.
        destruct (existsb (fun e => if e_h e =? h then negb (memN (e_pack e) (r ++ (p0 :: p') ++ i)) else false) es) eqn:E.
        + apply existsb_exists in E as [e [He E]]. destruct (N.eqb_spec (e_h e) h) as [Eh|]; [|discriminate].
          exists e. repeat split; try assumption. apply memN_false. apply negb_true_iff in E. exact E.
        + exfalso. apply Ek. apply filter_In. split; [apply dedupN_In; [exact Hh | intros []]|]. rewrite E. reflexivity. }
    destruct X as [e [He [Eh Hn]]]. rewrite <- Eh. eapply outside_excl_sres; eassumption.
Qed.
End ModelPlan.
