(* C57: restic.Find (internal/restic/backend_find.go) — ID prefix resolution. Executable model only. *)
From Restic Require Import Base.Prelude.

Module C57m.

Inductive res := RFound (name : bytes) | RNoID | RMultiple | RPanic | ROther.

(* Go: len(name) >= len(prefix) && prefix == name[:len(prefix)] *)
Fixpoint is_prefix (p s : bytes) : bool :=
  match p, s with
  | [], _ => true
  | x :: p', y :: s' => andb (N.eqb x y) (is_prefix p' s')
  | _ :: _, [] => false
  end.

(* the List callback loop: [m] is the match found so far; a second match aborts the listing *)
Fixpoint find_go (ids : list bytes) (p : bytes) (m : option bytes) : res :=
  match ids with
  | [] => match m with Some i => RFound i | None => RNoID end
  | i :: r =>
      if is_prefix p i then
        match m with
        | None => find_go r p (Some i)
        | Some _ => RMultiple
        end
      else find_go r p m
  end.

Definition find (ids : list bytes) (p : bytes) : res := find_go ids p None.

(* the property, declaratively: the matching names decide *)
Definition spec (ids : list bytes) (p : bytes) : res :=
  match filter (is_prefix p) ids with
  | [] => RNoID
  | [i] => RFound i
  | _ => RMultiple
  end.

Definition res_eqb (a b : res) : bool :=
  match a, b with
  | RFound x, RFound y => bytes_eqb x y
  | RNoID, RNoID | RMultiple, RMultiple | RPanic, RPanic | ROther, ROther => true
  | _, _ => false
  end.

Record case := mk { c_ids : list bytes; c_prefix : bytes; c_obs : res }.

(* verified oracle: the observation is what the property demands *)
Definition check_C57 (c : case) : bool := res_eqb (c_obs c) (spec (c_ids c) (c_prefix c)).

Definition check_case (c : case) : nat :=
  if check_C57 c then
    if res_eqb (c_obs c) (find (c_ids c) (c_prefix c)) then 0 else 1
  else 2.

End C57m.
