(* C06: pack file codec (internal/repository/pack/pack.go): Packer.Add / Finalize / makeHeader /
   verifyHeader, readRecords / readHeader / List / parseHeaderEntry, HeaderFull.  Executable model only.

   Conventions: bytes = list N; sizes, offsets and lengths are Z.  Every Go slice expression is a guarded
   [sub] (None = the Go code would panic -> result [Panic]); uint32 / uint arithmetic that can wrap is
   written with an explicit [mod].  The authenticated encryption (crypto.Key.Seal/Open) is a function
   argument [seal]/[open] (nonce -> bytes -> ...); the numeric constants come from Gen/ParamsC06.v, which is
   regenerated from the running code.  The ReaderAt is an in-memory file (bytes.Reader semantics). *)
From Restic Require Import Base.Prelude Gen.ParamsC06.

Module C06m.
Open Scope Z_scope.

Definition entry_size := ParamsC06.entry_size.
Definition plain_entry_size := ParamsC06.plain_entry_size.
Definition header_size := ParamsC06.header_size.
Definition header_length_size := ParamsC06.header_length_size.
Definition eager_entries := ParamsC06.eager_entries.
Definition min_file_size := ParamsC06.min_file_size.
Definition max_header_size := ParamsC06.max_header_size.
Definition max_header_entries := ParamsC06.max_header_entries.
Definition crypto_extension := ParamsC06.crypto_extension.
Definition nonce_size := ParamsC06.nonce_size.
Definition mac_size := ParamsC06.mac_size.

Definition len (b : bytes) : Z := Z.of_nat (length b).

(* b[lo:hi]; None = slice bounds out of range (Go panics) *)
Definition sub (b : bytes) (lo hi : Z) : option bytes :=
  if (0 <=? lo) && (lo <=? hi) && (hi <=? len b)
  then Some (firstn (Z.to_nat (hi - lo)) (skipn (Z.to_nat lo) b)) else None.

Definition le32 (b : bytes) : Z :=
  match b with
  | [b0; b1; b2; b3] => Z.of_N b0 + 256 * Z.of_N b1 + 65536 * Z.of_N b2 + 16777216 * Z.of_N b3
  | _ => 0
  end.

(* binary.LittleEndian.PutUint32(uint32(n)) *)
Definition put32 (n : Z) : bytes :=
  [Z.to_N (n mod 256); Z.to_N ((n / 256) mod 256); Z.to_N ((n / 65536) mod 256); Z.to_N ((n / 16777216) mod 256)].

Inductive btype := BData | BTree | BInvalid.
Record blob := mkBlob { b_type : btype; b_id : bytes; b_len : Z; b_off : Z; b_ulen : Z }.

Inductive err := EInvalid (* pack.InvalidFileError *) | EOther.
Inductive res (A : Type) := Ok (a : A) | Err (e : err) | Panic.
Arguments Ok {A} a. Arguments Err {A} e. Arguments Panic {A}.

Definition two64 : Z := 18446744073709551616.
Definition two32 : Z := 4294967296.

(* ---------- reading ---------- *)

(* b := make([]byte, n); rd.ReadAt(b, off) on a bytes.Reader over f *)
Definition read_at (f : bytes) (n off : Z) : res bytes :=
  if n <? 0 then Panic
  else if (off <? 0) || (len f <=? off) || (len f <? off + n) then Err EOther
  else match sub f off (off + n) with Some b => Ok b | None => Panic end.

Definition read_records (f : bytes) (size bufsize : Z) : res (bytes * Z) :=
  let bufsize := if bufsize >? size then size else bufsize in
  match read_at f bufsize (size - bufsize) with
  | Ok b =>
      match sub b (len b - header_length_size) (len b), sub b 0 (len b - header_length_size) with
      | Some l4, Some b' =>
          let hlen := le32 l4 in
          if hlen =? 0 then Err EInvalid
          else if hlen <? crypto_extension then Err EInvalid
          else if hlen >? size - header_length_size then Err EInvalid
          else if hlen >? max_header_size - header_length_size then Err EInvalid
          else
            let total := (hlen + header_length_size) mod two32 in
            if total <? bufsize then
              match sub b' (len b' - hlen) (len b') with
              | Some b'' => Ok (b'', total)
              | None => Panic
              end
            else Ok (b', total)
      | _, _ => Panic
      end
  | Err e => Err e
  | Panic => Panic
  end.

Definition eager_size : Z := eager_entries * entry_size + header_size.

Definition read_header (f : bytes) (size : Z) : res bytes :=
  if size <? min_file_size then Err EInvalid
  else
    match read_records f size eager_size with
    | Ok (b, c) =>
        if c <=? eager_size then Ok b
        else match read_records f size c with
             | Ok (b2, _) => Ok b2
             | Err e => Err e
             | Panic => Panic
             end
    | Err e => Err e
    | Panic => Panic
    end.

(* copy(b.ID[:], p): the first 32 bytes of p, zero padded *)
Definition copy_id (p : bytes) : bytes := firstn 32 (p ++ repeat 0%N 32).

Definition is_comp_byte (t : N) : bool := (t =? 2)%N || (t =? 3)%N.
Definition type_of_byte (t : N) : option btype :=
  if (t =? 0)%N || (t =? 2)%N then Some BData
  else if (t =? 1)%N || (t =? 3)%N then Some BTree else None.

(* parseHeaderEntry: entry (offset not yet set) and its encoded size *)
Definition parse_entry (p : bytes) : res (blob * Z) :=
  let l := len p in
  if l <? plain_entry_size then Err EOther
  else match p with
       | [] => Panic
       | tpe :: _ =>
           match type_of_byte tpe with
           | None => Err EOther
           | Some ty =>
               match sub p 1 5, sub p 5 l with
               | Some l4, Some p5 =>
                   if is_comp_byte tpe then
                     if l <? entry_size then Err EOther
                     else match sub p5 0 4, sub p5 4 (len p5) with
                          | Some u4, Some p9 => Ok (mkBlob ty (copy_id p9) (le32 l4) 0 (le32 u4), entry_size)
                          | _, _ => Panic
                          end
                   else Ok (mkBlob ty (copy_id p5) (le32 l4) 0 0, plain_entry_size)
               | _, _ => Panic
               end
           end
       end.

Definition set_off (e : blob) (o : Z) : blob := mkBlob (b_type e) (b_id e) (b_len e) o (b_ulen e).

(* the entry loop of List; fuel = number of bytes (each round consumes >= 1 byte); fuel exhaustion = Panic,
   proved unreachable *)
Fixpoint parse_go (fuel : nat) (buf : bytes) (pos : Z) : res (list blob) :=
  match buf with
  | [] => Ok []
  | _ :: _ =>
      match fuel with
      | O => Panic
      | S fuel' =>
          match parse_entry buf with
          | Ok (e, sz) =>
              match sub buf sz (len buf) with
              | Some buf' =>
                  match parse_go fuel' buf' ((pos + b_len e) mod two64) with
                  | Ok es => Ok (set_off e pos :: es)
                  | Err x => Err x
                  | Panic => Panic
                  end
              | None => Panic
              end
          | Err x => Err x
          | Panic => Panic
          end
      end
  end.

Definition parse_entries (pt : bytes) : res (list blob) := parse_go (length pt) pt 0.

Definition opener := bytes -> bytes -> option bytes.   (* nonce -> ciphertext||mac -> plaintext *)
Definition sealer := bytes -> bytes -> bytes.           (* nonce -> plaintext -> ciphertext||mac *)

(* pack.List *)
Definition list_pack (open : opener) (f : bytes) (size : Z) : res (list blob * Z) :=
  match read_header f size with
  | Ok buf =>
      if len buf <? crypto_extension then Err EOther
      else
        let hdr := (header_length_size + len buf) mod two32 in
        match sub buf 0 nonce_size, sub buf nonce_size (len buf) with
        | Some nonce, Some ct =>
            match open nonce ct with
            | None => Err EOther
            | Some pt =>
                match parse_entries pt with
                | Ok es => Ok (es, hdr)
                | Err x => Err x
                | Panic => Panic
                end
            end
        | _, _ => Panic
        end
  | Err e => Err e
  | Panic => Panic
  end.

(* ---------- writing ---------- *)

Definition type_byte (b : blob) : option N :=
  match b_type b, b_ulen b =? 0 with
  | BData, true => Some 0%N
  | BTree, true => Some 1%N
  | BData, false => Some 2%N
  | BTree, false => Some 3%N
  | BInvalid, _ => None
  end.

Definition enc_entry (t : N) (b : blob) : bytes :=
  t :: put32 (b_len b) ++ (if b_ulen b =? 0 then [] else put32 (b_ulen b)) ++ b_id b.

Fixpoint make_header (bs : list blob) : option bytes :=
  match bs with
  | [] => Some []
  | b :: r =>
      match type_byte b, make_header r with
      | Some t, Some h => Some (enc_entry t b ++ h)
      | _, _ => None
      end
  end.

Record add_in := mkAdd { a_type : btype; a_id : bytes; a_data : bytes; a_ulen : Z }.
Record packer := mkPacker { p_blobs : list blob; p_bytes : Z; p_data : bytes }.
Definition new_packer : packer := mkPacker [] 0 [].

Definition entry_size_of (ulen : Z) : Z := if ulen =? 0 then plain_entry_size else entry_size.

(* Packer.Add on a writer that never fails: new state and the returned byte count *)
Definition padd (p : packer) (a : add_in) : packer * Z :=
  (mkPacker (p_blobs p ++ [mkBlob (a_type a) (a_id a) (len (a_data a)) (p_bytes p) (a_ulen a)])
            ((p_bytes p + len (a_data a)) mod two64)
            (p_data p ++ a_data a),
   len (a_data a) + entry_size_of (a_ulen a)).

Definition padds (p : packer) (l : list add_in) : packer := fold_left (fun p a => fst (padd p a)) l p.

Definition header_full (count : Z) : bool := header_size + (count + 1) * entry_size >? max_header_size.

Definition blob_eqb (x y : blob) : bool :=
  match b_type x, b_type y with
  | BData, BData | BTree, BTree | BInvalid, BInvalid => true
  | _, _ => false
  end && bytes_eqb (b_id x) (b_id y) && (b_len x =? b_len y) && (b_off x =? b_off y) && (b_ulen x =? b_ulen y).

(* Packer.Finalize incl. verifyHeader; result = the whole file *)
Definition finalize (seal : sealer) (open : opener) (nonce : bytes) (p : packer) : res bytes :=
  match make_header (p_blobs p) with
  | None => Err EOther
  | Some h =>
      let enc0 := nonce ++ seal nonce h in
      let enc := enc0 ++ put32 (len enc0) in
      match list_pack open enc (len enc) with
      | Ok (dec, hs) =>
          if (hs =? len enc mod two32) && list_eqb blob_eqb dec (p_blobs p)
          then Ok (p_data p ++ enc) else Err EOther
      | Err _ => Err EOther
      | Panic => Panic
      end
  end.

(* ---------- Add / Finalize on a writer that can fail: the packer becomes broken ---------- *)
(* outcome of one Write call: everything, n bytes without error (short write), n bytes and an error *)
Inductive wres := WFull | WShort (n : Z) | WErr (n : Z).
Definition write_out (w : wres) (d : bytes) : bytes * bool :=
  match w with
  | WFull => (d, true)
  | WShort n => if n >=? len d then (d, true) else (firstn (Z.to_nat n) d, false)
  | WErr n => (firstn (Z.to_nat n) d, false)
  end.
(* pf_err: p.err != nil; pf_nw: number of Write calls so far (index into the script) *)
Record packerF := mkPF { pf_p : packer; pf_err : bool; pf_nw : nat }.
Definition script := list wres.
Definition addF (sc : script) (pf : packerF) (a : add_in) : packerF * bool :=
  if pf_err pf then (pf, false)                                   (* ErrBroken, nothing is written *)
  else
    let '(w, full) := write_out (nth (pf_nw pf) sc WFull) (a_data a) in
    if full then (mkPF (fst (padd (pf_p pf) a)) false (S (pf_nw pf)), true)
    else (mkPF (mkPacker (p_blobs (pf_p pf)) (p_bytes (pf_p pf)) (p_data (pf_p pf) ++ w)) true (S (pf_nw pf)), false).
Fixpoint runF (sc : script) (pf : packerF) (l : list add_in) : packerF * list bool :=
  match l with
  | [] => (pf, [])
  | a :: r => let '(pf', ok) := addF sc pf a in let '(pf'', oks) := runF sc pf' r in (pf'', ok :: oks)
  end.
Definition finalizeF (seal : sealer) (open : opener) (nonce : bytes) (sc : script) (pf : packerF) : res bytes :=
  if pf_err pf then Err EOther
  else match finalize seal open nonce (pf_p pf) with
       | Ok f =>
           let enc := skipn (length (p_data (pf_p pf))) f in
           if snd (write_out (nth (pf_nw pf) sc WFull) enc) then Ok f else Err EOther
       | x => x
       end.

(* ---------- specification-side definitions ---------- *)

(* what List has to return for blobs written in this order: offsets are the running sum *)
Fixpoint with_offsets (bs : list blob) (pos : Z) : list blob :=
  match bs with
  | [] => []
  | b :: r => set_off b pos :: with_offsets r ((pos + b_len b) mod two64)
  end.

Fixpoint sum_len (bs : list blob) : Z := match bs with [] => 0 | b :: r => b_len b + sum_len r end.
Fixpoint hdr_len (bs : list blob) : Z :=   (* header incl. nonce, mac and length field *)
  match bs with [] => header_size | b :: r => entry_size_of (b_ulen b) + hdr_len r end.

Definition wf_blob (b : blob) : bool :=
  match b_type b with BInvalid => false | _ => true end
  && (len (b_id b) =? 32) && (0 <=? b_len b) && (b_len b <? two32) && (0 <=? b_ulen b) && (b_ulen b <? two32).
Definition wf_blobs (bs : list blob) : bool :=
  match bs with [] => false | _ => true end && forallb wf_blob bs && (hdr_len bs <=? max_header_size).

(* [es] is exactly the entry list encoded by the plaintext header [pt], offsets being running sums from pos *)
Fixpoint entries_match (es : list blob) (pt : bytes) (pos : Z) : bool :=
  match es with
  | [] => match pt with [] => true | _ => false end
  | e :: r =>
      match pt with
      | [] => false
      | t :: _ =>
          let sz := if is_comp_byte t then entry_size else plain_entry_size in
          match type_of_byte t, sub pt 1 5, sub pt (sz - 32) sz, sub pt sz (len pt) with
          | Some ty, Some l4, Some id, Some rest =>
              blob_eqb e (mkBlob ty id (le32 l4) pos
                                 (if is_comp_byte t then match sub pt 5 9 with Some u4 => le32 u4 | None => -1 end else 0))
              && entries_match r rest ((pos + b_len e) mod two64)
          | _, _, _, _ => false
          end
      end
  end.

(* the listing (es, hs) is what an authenticated header at the very end of the first [size] bytes of f says *)
Definition authentic (open : opener) (es : list blob) (hs : Z) (f : bytes) (size : Z) : bool :=
  (header_size <=? hs) && (hs <=? size) && (size <=? len f) &&
  match sub f (size - 4) size, sub f (size - hs) (size - hs + nonce_size), sub f (size - hs + nonce_size) (size - 4) with
  | Some l4, Some nonce, Some ct =>
      (le32 l4 =? hs - 4) &&
      match open nonce ct with
      | Some pt => entries_match es pt 0
      | None => false
      end
  | _, _, _ => false
  end.

(* ---------- cases ---------- *)

Definition tab := list (bytes * option bytes).   (* nonce ++ ciphertext -> result of the real Key.Open *)
Fixpoint tab_lookup (t : tab) (k : bytes) : option bytes :=
  match t with [] => None | (k', v) :: r => if bytes_eqb k k' then v else tab_lookup r k end.
Definition tab_open (t : tab) : opener := fun nonce ct => tab_lookup t (nonce ++ ct).

Definition res_eqb (a b : res (list blob * Z)) : bool :=
  match a, b with
  | Ok (x, h), Ok (y, g) => list_eqb blob_eqb x y && (h =? g)
  | Err EInvalid, Err EInvalid | Err EOther, Err EOther | Panic, Panic => true
  | _, _ => false
  end.

Inductive fres := FOk | FErr | FPanic.
Definition fres_eqb (a b : fres) := match a, b with FOk, FOk | FErr, FErr | FPanic, FPanic => true | _, _ => false end.

Inductive case :=
  (* CL written has_data file size tab obs:  obs = pack.List(key, file, size) of the real code.
     written = Some bs: the file is the Packer's (has_data = true: Add/Finalize with real data; false:
     header-only file built from makeHeader + Seal like Finalize does) output for the blobs bs (offsets ignored) *)
| CL (written : option (list blob)) (has_data : bool) (file : bytes) (size : Z) (t : tab)
     (obs : res (list blob * Z))
  (* CV bs obs: verifyHeader(makeHeader(bs) sealed) on arbitrary Blob values (lengths as metadata only) *)
| CV (bs : list blob) (fin : fres)
  (* CF over nplain ncomp stop fin listed hs: zero-length blobs are added, nplain uncompressed and ncomp
     compressed ones in total.  over = false: added until HeaderFull() (stop = Count() then);
     over = true: HeaderFull is ignored and stop = nplain+ncomp.  fin = Finalize result,
     listed/hs = len(List) and hdrSize (0 0 when not listed) *)
| CF (over : bool) (nplain ncomp stop : Z) (fin : fres) (listed hs : Z)
  (* CW seq sc items fin file t obs: Adds on one Packer whose writer follows the script sc (seq = true: one after
     the other, item order = call order) or from several goroutines at once (seq = false, no faults); every item
     = blob fields, the data given to Add, and whether Add returned without error; then Finalize, then List *)
| CW (seq : bool) (sc : script) (items : list (blob * bytes * bool)) (fin : fres) (file : bytes) (t : tab)
     (obs : res (list blob * Z)).

Definition is_panic {A} (r : res A) : bool := match r with Panic => true | _ => false end.

(* the model's verdict for verifyHeader on arbitrary blobs: header decodes to exactly these blobs *)
Definition verify_model (bs : list blob) : fres :=
  match bs with
  | [] => FErr
  | _ => if forallb (fun b => match b_type b with BInvalid => false | _ => true end) bs then
           if (hdr_len bs <=? max_header_size)
              && list_eqb blob_eqb (with_offsets bs 0) bs
              && forallb (fun b => (0 <=? b_len b) && (b_len b <? two32) && (0 <=? b_ulen b) && (b_ulen b <? two32)) bs
           then FOk else FErr
         else FErr
  end.

Definition cf_hdr (nplain ncomp : Z) : Z := header_size + plain_entry_size * nplain + entry_size * ncomp.
Definition cf_fin (nplain ncomp : Z) : fres :=
  if (0 <? nplain + ncomp) && (cf_hdr nplain ncomp <=? max_header_size) then FOk else FErr.

(* oracle; result 0 = property holds, >= 2 = violated clause *)
Definition oracle_code (c : case) : nat :=
  match c with
  | CL written has_data f size t obs =>
      if is_panic obs then 2%nat
      else if match written with
              | Some bs =>
                  if wf_blobs (with_offsets bs 0) then
                    negb (res_eqb obs (Ok (with_offsets bs 0, hdr_len bs))
                          && (negb has_data || ((hdr_len bs + sum_len bs =? size) && (size =? len f))))
                  else false
              | None => false
              end then 3%nat
      else match obs with
           | Ok (es, hs) => if authentic (tab_open t) es hs f size then 0%nat else 4%nat
           | _ => 0%nat
           end
  | CV bs fin =>
      match fin with
      | FPanic => 2%nat
      | FOk => if wf_blobs bs && list_eqb blob_eqb (with_offsets bs 0) bs then 0%nat else 5%nat
      | FErr => if wf_blobs bs && list_eqb blob_eqb (with_offsets bs 0) bs then 5%nat else 0%nat
      end
  | CF over nplain ncomp stop fin listed hs =>
      match fin with
      | FPanic => 2%nat
      | _ =>
        if over then
          (* a header that fits must be written and listed back; one that does not fit must be refused *)
          if cf_hdr nplain ncomp <=? max_header_size
          then (if fres_eqb fin FOk && (listed =? nplain + ncomp) && (hs =? cf_hdr nplain ncomp) then 0%nat else 6%nat)
          else (if fres_eqb fin FErr then 0%nat else 6%nat)
        else
          (* filling until HeaderFull: the pack must be writable and list back all entries *)
          if fres_eqb fin FOk && (listed =? stop) && (stop =? nplain + ncomp) && (hs =? cf_hdr nplain ncomp)
             && (hs <=? max_header_size) && (stop =? max_header_entries)
          then 0%nat else 6%nat
      end
  | CW _ _ _ _ _ _ _ => 0%nat
  end.

Definition it_blob (x : blob * bytes * bool) : blob := fst (fst x).
Definition it_data (x : blob * bytes * bool) : bytes := snd (fst x).
Definition it_ok (x : blob * bytes * bool) : bool := snd x.
Fixpoint find_item (id : bytes) (l : list (blob * bytes * bool)) : option (blob * bytes * bool) :=
  match l with [] => None | x :: r => if bytes_eqb (b_id (it_blob x)) id then Some x else find_item id r end.
Fixpoint count_bid (id : bytes) (l : list blob) : nat :=
  match l with [] => O | b :: r => ((if bytes_eqb (b_id b) id then 1 else 0) + count_bid id r)%nat end.
(* a failed Add followed by a successful one *)
Fixpoint ok_after_fail (failed : bool) (l : list bool) : bool :=
  match l with [] => false | ok :: r => (failed && ok) || ok_after_fail (failed || negb ok) r end.
Definition faultless (sc : script) : bool := forallb (fun w => match w with WFull => true | _ => false end) sc.
Definition btype_eqb (a b : btype) : bool :=
  match a, b with BData, BData | BTree, BTree | BInvalid, BInvalid => true | _, _ => false end.

(* what must hold of the listing of a finalized pack: exactly the successfully added blobs, running offsets, the
   bytes at each offset are the data given to Add, header + data = file *)
Definition listing_ok (seq : bool) (items : list (blob * bytes * bool)) (file : bytes) (es : list blob) (hs : Z) : bool :=
  (hs + sum_len es =? len file)
  && list_eqb blob_eqb (with_offsets es 0) es
  && Nat.eqb (length es) (length (filter it_ok items))
  && forallb (fun e =>
       Nat.eqb (count_bid (b_id e) es) 1 &&
       match find_item (b_id e) items with
       | Some it => it_ok it && (b_len e =? len (it_data it)) && (b_ulen e =? b_ulen (it_blob it))
                    && btype_eqb (b_type e) (b_type (it_blob it))
                    && match sub file (b_off e) (b_off e + b_len e) with Some d => bytes_eqb d (it_data it) | None => false end
       | None => false
       end) es
  && (negb seq || list_eqb bytes_eqb (map b_id es) (map (fun x => b_id (it_blob x)) (filter it_ok items))).

(* CW codes: 2 panic; 7 Finalize succeeded but the listing / offsets / contents / sizes are not those of the
   successfully added blobs; 8 a broken packer (failed Add) accepted a later Add or Finalize; 9 failure
   without any writer fault *)
Definition cw_code (seq : bool) (sc : script) (items : list (blob * bytes * bool)) (fin : fres) (file : bytes)
                   (obs : res (list blob * Z)) : nat :=
  let oks := map it_ok items in
  if is_panic obs || fres_eqb fin FPanic then 2%nat
  else if seq && (ok_after_fail false oks || (negb (forallb (fun b => b) oks) && fres_eqb fin FOk)) then 8%nat
  else if faultless sc && negb (forallb (fun b => b) oks && fres_eqb fin FOk) then 9%nat
  else if fres_eqb fin FOk then
    match obs with
    | Ok (es, hs) => if listing_ok seq items file es hs then 0%nat else 7%nat
    | _ => 7%nat
    end
  else 0%nat.

Definition oracle_code_all (c : case) : nat :=
  match c with
  | CW seq sc items fin file t obs => cw_code seq sc items fin file obs
  | _ => oracle_code c
  end.

Definition check_C06 (c : case) : bool := Nat.eqb (oracle_code_all c) 0.

Definition model_agrees (c : case) : bool :=
  match c with
  | CL written has_data f size t obs => res_eqb obs (list_pack (tab_open t) f size)
  | CV bs fin => fres_eqb fin (verify_model bs)
  | CF over nplain ncomp stop fin listed hs =>
      fres_eqb fin (cf_fin nplain ncomp)
      && (over || ((stop =? max_header_entries) && negb (header_full (stop - 1)) && header_full stop))
  | CW _ _ _ _ _ _ _ => true
  end.

Definition model_agrees_all (c : case) : bool :=
  match c with
  | CW seq sc items fin file t obs =>
      if seq then
        let adds := map (fun x => mkAdd (b_type (it_blob x)) (b_id (it_blob x)) (it_data x) (b_ulen (it_blob x))) items in
        let '(pf, oks) := runF sc (mkPF new_packer false 0) adds in
        list_eqb Bool.eqb oks (map it_ok items)
        && fres_eqb fin (if pf_err pf then FErr
                         else if snd (write_out (nth (pf_nw pf) sc WFull) (repeat 0%N (Z.to_nat (hdr_len (p_blobs (pf_p pf)))))) then verify_model (p_blobs (pf_p pf)) else FErr)
        && res_eqb obs (list_pack (tab_open t) file (len file))
      else res_eqb obs (list_pack (tab_open t) file (len file))
  | _ => model_agrees c
  end.

Definition check_case (c : case) : nat :=
  match oracle_code_all c with
  | O => if model_agrees_all c then 0%nat else 1%nat
  | n => n
  end.

End C06m.
