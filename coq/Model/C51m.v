(* C51: self-update (internal/selfupdate: download.go findHash / DownloadLatestStableRelease / extractToFile,
   github.go GitHubLatestRelease / getGithubDataFile, verify.go GPGVerify as a parameter).  Executable model only.

   check_case codes: 0 ok; 1 model <> implementation;
     2 target changed although the signature over the selected SHA256SUMS is not valid;
     3 target changed although SHA256SUMS has no first "<hex>  <exact name>" line for the downloaded file whose hex
       decodes to the archive's SHA-256;
     4 target changed to something else than the decompressed verified archive, changed/removed on an error return,
       or success reported without the verified payload in place. *)
From Restic Require Import Base.Prelude.
From Restic Require Import Gen.ParamsC51.

Module C51m.
Local Open Scope N_scope.

Definition LF : N := 10.
Definition CR : N := 13.
Definition SP : N := 32.

(* linear-time reverse (the cases contain lines of 64 KiB) *)
Definition frev (l : bytes) : bytes := rev_append l [].

(* a run of n copies of x (used by generated cases for long lines) *)
Definition nrepeat (x n : N) : bytes := repeat x (N.to_nat n).

(* ---------- bufio.Scanner with ScanLines ---------- *)
Definition drop_cr_rev (cur_rev : bytes) : bytes :=
  match cur_rev with
  | c :: r => if N.eqb c CR then frev r else frev cur_rev
  | [] => []
  end.

(* cur_rev: bytes of the current line so far (reversed), n = their number.  A line of max_token or more bytes
   (before its LF / EOF) ends the scan with ErrTooLong, which findHash ignores. *)
Fixpoint lines_go (max_token : N) (buf : bytes) (cur_rev : bytes) (n : N) : list bytes :=
  match buf with
  | [] => if N.eqb n 0 then [] else [drop_cr_rev cur_rev]
  | c :: r =>
      if N.eqb c LF then drop_cr_rev cur_rev :: lines_go max_token r [] 0
      else if N.leb max_token (n + 1) then []
      else lines_go max_token r (c :: cur_rev) (n + 1)
  end.

Definition max_token : N := Z.to_N ParamsC51.max_scan_token_size.

Definition scan_lines (buf : bytes) : list bytes := lines_go max_token buf [] 0.

(* ---------- strings.Split(s, "  ") ---------- *)
Fixpoint split2_go (s : bytes) (cur_rev : bytes) : list bytes :=
  match s with
  | [] => [frev cur_rev]
  | a :: t =>
      match t with
      | b :: r => if N.eqb a SP && N.eqb b SP then frev cur_rev :: split2_go r []
                  else split2_go t (a :: cur_rev)
      | [] => [frev (a :: cur_rev)]
      end
  end.

Definition split2 (s : bytes) : list bytes := split2_go s [].

(* ---------- hex.DecodeString ---------- *)
Definition hexdigit (c : N) : option N :=
  if N.leb 48 c && N.leb c 57 then Some (c - 48)
  else if N.leb 97 c && N.leb c 102 then Some (c - 87)
  else if N.leb 65 c && N.leb c 70 then Some (c - 55)
  else None.

Fixpoint hexdec (s : bytes) : option bytes :=
  match s with
  | [] => Some []
  | a :: t =>
      match t with
      | b :: r => match hexdigit a, hexdigit b, hexdec r with
                  | Some x, Some y, Some d => Some (16 * x + y :: d)
                  | _, _, _ => None
                  end
      | [] => None
      end
  end.

(* ---------- findHash ---------- *)
Inductive fh := FHFound (h : bytes) | FHBadHex | FHNotFound.

Fixpoint find_in_lines (ls : list bytes) (name : bytes) : fh :=
  match ls with
  | [] => FHNotFound
  | l :: r =>
      match split2 l with
      | [h; n] => if bytes_eqb n name
                  then match hexdec h with Some x => FHFound x | None => FHBadHex end
                  else find_in_lines r name
      | _ => find_in_lines r name
      end
  end.

Definition find_hash (buf name : bytes) : fh := find_in_lines (scan_lines buf) name.

(* ---------- release metadata ---------- *)
(* a_url: the asset's URL is non-empty; a_body: what the download returns, None = request fails / status <> 200 *)
Record asset := mkAsset { a_name : bytes; a_url : bool; a_body : option bytes }.

Fixpoint is_prefix (p s : bytes) : bool :=
  match p, s with
  | [], _ => true
  | x :: p', y :: s' => N.eqb x y && is_prefix p' s'
  | _ :: _, [] => false
  end.

Definition has_suffix (s suf : bytes) : bool := is_prefix (frev suf) (frev s).

(* getGithubDataFile: first asset whose name ends with suffix; empty URL = not found; then the download.
   Result: Some (name, body) or None; [reqs] counts the HTTP requests made *)
Fixpoint first_suffix (assets : list asset) (suf : bytes) : option asset :=
  match assets with
  | [] => None
  | a :: r => if has_suffix (a_name a) suf then Some a else first_suffix r suf
  end.

Inductive fetch := FNone                (* no such asset: no request *)
                 | FFail                (* request made, failed *)
                 | FOk (name body : bytes).

Definition get_file (assets : list asset) (suf : bytes) : fetch :=
  match first_suffix assets suf with
  | None => FNone
  | Some a => if a_url a then match a_body a with Some b => FOk (a_name a) b | None => FFail end else FNone
  end.

(* rel_tag = None: the release request fails (status, JSON) *)
Record release := mkRel { rel_tag : option bytes; rel_assets : list asset }.

Inductive outcome :=
| OUpToDate                       (* returns currentVersion, nil *)
| OInstalled (payload version : bytes)
| OErr.

(* the result together with the number of HTTP requests issued (release request included) *)
Definition result := (outcome * N)%type.

Section Pipeline.
Variable sigok : bytes -> bytes -> bool.     (* GPGVerify data sig: valid signature by the embedded key *)
Variable sha256 : bytes -> bytes.            (* sha256.Sum256 *)
Variable unpack : bytes -> option bytes.     (* bzip2 decompression of the whole archive, None = error *)
Variable sums_suffix sig_suffix arch_suffix : bytes.  (* "SHA256SUMS", "SHA256SUMS.asc", "<os>_<arch>.bz2" *)

Definition pipeline (current : bytes) (rel : release) : result :=
  match rel_tag rel with
  | None => (OErr, 1)
  | Some tag =>
      match tag with
      | [] => (OErr, 1)                                  (* tag name empty *)
      | c :: version =>
          if negb (N.eqb c 118) then (OErr, 1)           (* does not start with 'v' *)
          else if bytes_eqb version current then (OUpToDate, 1)
          else
            match get_file (rel_assets rel) sums_suffix with
            | FNone => (OErr, 1) | FFail => (OErr, 2)
            | FOk _ sums =>
                match get_file (rel_assets rel) sig_suffix with
                | FNone => (OErr, 2) | FFail => (OErr, 3)
                | FOk _ sig =>
                    if negb (sigok sums sig) then (OErr, 3)
                    else
                      match get_file (rel_assets rel) arch_suffix with
                      | FNone => (OErr, 3) | FFail => (OErr, 4)
                      | FOk fname buf =>
                          match find_hash sums fname with
                          | FHFound want =>
                              if bytes_eqb want (sha256 buf) then
                                match unpack buf with
                                | Some payload => (OInstalled payload version, 4)
                                | None => (OErr, 4)
                                end
                              else (OErr, 4)
                          | _ => (OErr, 4)
                          end
                      end
                end
            end
      end
  end.

(* target binary afterwards: (content, mode); old = None if it did not exist *)
Definition target_after (old : option (bytes * N)) (r : result) : option (bytes * N) :=
  match fst r with
  | OInstalled payload _ => Some (payload, match old with Some (_, m) => m | None => 493 (* 0755 *) end)
  | _ => old
  end.

End Pipeline.

(* ---------- finite tables observed by the harness ---------- *)
Fixpoint assoc_bytes {A} (t : list (bytes * A)) (k : bytes) : option A :=
  match t with
  | [] => None
  | (x, v) :: r => if bytes_eqb k x then Some v else assoc_bytes r k
  end.

(* sigs: signature body -> the data it validly signs under the trusted key *)
Definition tab_sigok (sigs : list (bytes * bytes)) (data sig : bytes) : bool :=
  match assoc_bytes sigs sig with Some d => bytes_eqb d data | None => false end.
Definition tab_sha (t : list (bytes * bytes)) (b : bytes) : bytes :=
  match assoc_bytes t b with Some h => h | None => [] end.
Definition tab_unpack (t : list (bytes * bytes)) (b : bytes) : option bytes := assoc_bytes t b.

Definition SUMS : bytes := [83;72;65;50;53;54;83;85;77;83]%N.           (* "SHA256SUMS" *)
Definition SUMS_ASC : bytes := SUMS ++ [46;97;115;99]%N.                  (* ".asc" *)

(* ---------- cases ---------- *)
Inductive obs_outcome := BUpToDate | BVersion (v : bytes) | BErr.   (* returned (version, err) *)

Inductive case :=
| CFind (buf name : bytes) (obs : fh)
| CRun (sigs : list (bytes * bytes)) (shas : list (bytes * bytes)) (unp : list (bytes * bytes))
       (arch_suffix : bytes) (current : bytes) (rel : release) (old : option (bytes * N))
       (obs : obs_outcome) (obs_reqs : N) (obs_target : option (bytes * N)).

Definition fh_eqb (a b : fh) : bool :=
  match a, b with
  | FHFound x, FHFound y => bytes_eqb x y
  | FHBadHex, FHBadHex | FHNotFound, FHNotFound => true
  | _, _ => false
  end.

Definition tgt_eqb (a b : option (bytes * N)) : bool :=
  option_eqb (fun x y => bytes_eqb (fst x) (fst y) && N.eqb (snd x) (snd y)) a b.

Definition content_eqb (a b : option (bytes * N)) : bool :=
  option_eqb (fun x y => bytes_eqb (fst x) (fst y)) a b.

(* the justification the property demands for the binary in place, computed from the release data alone;
   0 = justified, otherwise the code of the first missing piece *)
Definition just_code (sigok : bytes -> bytes -> bool) (sha256 : bytes -> bytes) (unpack : bytes -> option bytes)
                     (arch_suffix : bytes) (rel : release) (tgt : option (bytes * N)) : nat :=
  match tgt with
  | None => 4%nat                                     (* the binary disappeared *)
  | Some (cont, _) =>
      match get_file (rel_assets rel) SUMS, get_file (rel_assets rel) SUMS_ASC with
      | FOk _ sums, FOk _ sig =>
          if negb (sigok sums sig) then 2%nat
          else match get_file (rel_assets rel) arch_suffix with
               | FOk fname buf =>
                   match find_hash sums fname with
                   | FHFound want =>
                       if negb (bytes_eqb want (sha256 buf)) then 3%nat
                       else match unpack buf with
                            | Some p => if bytes_eqb p cont then 0%nat else 4%nat
                            | None => 4%nat
                            end
                   | _ => 3%nat
                   end
               | _ => 3%nat
               end
      | _, _ => 2%nat
      end
  end.

Definition is_version (o : obs_outcome) : bool := match o with BVersion _ => true | _ => false end.

(* unchanged content without a success report needs no justification; a changed binary or a reported
   installation must be justified *)
Definition oracle_code (c : case) : nat :=
  match c with
  | CFind _ _ _ => 0%nat
  | CRun sigs shas unp suf current rel old obs reqs tgt =>
      if content_eqb tgt old && negb (is_version obs) then 0%nat
      else just_code (tab_sigok sigs) (tab_sha shas) (tab_unpack unp) suf rel tgt
  end.

Definition check_C51 (c : case) : bool := Nat.eqb (oracle_code c) 0%nat.

Definition obs_of (current : bytes) (o : outcome) : obs_outcome :=
  match o with
  | OUpToDate => BUpToDate
  | OInstalled _ v => BVersion v
  | OErr => BErr
  end.

Definition obs_eqb (a b : obs_outcome) : bool :=
  match a, b with
  | BUpToDate, BUpToDate | BErr, BErr => true
  | BVersion x, BVersion y => bytes_eqb x y
  | _, _ => false
  end.

Definition model_agrees (c : case) : bool :=
  match c with
  | CFind buf name obs => fh_eqb obs (find_hash buf name)
  | CRun sigs shas unp suf current rel old obs reqs tgt =>
      let r := pipeline (tab_sigok sigs) (tab_sha shas) (tab_unpack unp) SUMS SUMS_ASC suf current rel in
      obs_eqb obs (obs_of current (fst r)) && N.eqb reqs (snd r) && tgt_eqb tgt (target_after old r)
  end.

Definition check_case (c : case) : nat :=
  match oracle_code c with
  | O => if model_agrees c then 0%nat else 1%nat
  | k => k
  end.

End C51m.
