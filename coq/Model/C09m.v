(* C09: prune never loses data referenced by a remaining snapshot - at every crash point.
   Executable model only:
   - abstract repository (pack files with their real content, index files), backend ops, apply;
   - the structural trace predicate run_ok of PrunePlan.Execute (internal/repository/prune.go),
     MasterIndex.Rewrite (index/master_index.go) and the repack step (repack.go):
       phase A  Remove(unindexed packs = removePacksFirst)
       phase B  Save(new packs) / Save(indexes naming only present packs with their real content)
       commit   every surviving obligation is covered by indexes that will not be deleted
       phase C  Remove(obsolete indexes) / Remove(pack) only when no present index names it;
   - packInfoFromIndex (shared model S_Prune) instantiated with the header constants of the code;
   - case record, oracle check_C09, check_case. *)
From Restic Require Import Base.Prelude Model.S_Prune Gen.ParamsC09.

Module C09m.
Import SPrune.
Open Scope N_scope.

Definition kc : consts :=
  mkC (Z.to_N ParamsC09.pack_header_size) (Z.to_N ParamsC09.pack_plain_entry_size) (Z.to_N ParamsC09.pack_entry_size).

(* ---------- abstract repository ---------- *)
Record repo := mkR { packs : list (N * list N); idxs : list (N * list (N * N)) }.
Inductive op := SaveP (p : N) (bs : list N) | SaveI (i : N) (es : list (N * N)) | RmP (p : N) | RmI (i : N).

Definition rm_key {A} (k : N) (l : list (N * A)) : list (N * A) := filter (fun x => negb (fst x =? k)) l.

Definition apply (R : repo) (o : op) : repo :=
  match o with
  | SaveP p bs => mkR ((p, bs) :: packs R) (idxs R)
  | SaveI i es => mkR (packs R) ((i, es) :: idxs R)
  | RmP p => mkR (rm_key p (packs R)) (idxs R)
  | RmI i => mkR (packs R) (rm_key i (idxs R))
  end.
Definition run (R : repo) (tr : list op) : repo := fold_left apply tr R.

Definition has_pack (R : repo) (p : N) : bool := existsb (fun x => fst x =? p) (packs R).
Definition has_idx (R : repo) (i : N) : bool := existsb (fun x => fst x =? i) (idxs R).
Definition pack_has (R : repo) (p h : N) : bool := existsb (fun x => (fst x =? p) && memN h (snd x)) (packs R).
Definition idx_names (R : repo) (p : N) : bool := existsb (fun ix => existsb (fun e => fst e =? p) (snd ix)) (idxs R).

(* h can be loaded: a present index lists it in a present pack that really contains it *)
Definition resolvableb (R : repo) (h : N) : bool :=
  existsb (fun ix => existsb (fun e => if snd e =? h then pack_has R (fst e) h else false) (snd ix)) (idxs R).
Definition consistentb (R : repo) (used : list N) : bool := forallb (resolvableb R) used.

(* ... through an index that is not going to be deleted and a pack that is not going to be deleted *)
Definition sresb (obs excl : list N) (R : repo) (h : N) : bool :=
  existsb (fun ix => if memN (fst ix) obs then false else
     existsb (fun e => if snd e =? h then (if memN (fst e) excl then false else pack_has R (fst e) h) else false) (snd ix)) (idxs R).

(* ---------- plan ---------- *)
(* rm_first = removePacksFirst; rm = removePacks + repackPacks; excl = rm + ignorePacks;
   keep = keepBlobs; obs = index files deleted by the run *)
Record plan := mkPl { rm_first : list N; rm : list N; excl : list N; keep : list N; obs : list N }.

Definition valid_planb (R0 : repo) (used : list N) (pl : plan) : bool :=
  forallb (fun p => memN p (excl pl)) (rm pl) &&
  forallb (fun h => if memN h (keep pl) then true else sresb [] (excl pl) R0 h) used.

(* PlanPrune's reduction of keepBlobs (prune.go, "if len(plan.repackPacks) != 0", as fixed by
   d2ae2f7f5): every handle with an index entry in a pack that is not excluded (removePacks +
   repackPacks + the missing ignorePacks) is dropped, the rest is kept for repacking.
   ents = index entries (pack, handle).  keep_blobs_old is the behaviour before the fix (finding
   F-C09-1): ignorePacks were not skipped. *)
Definition keep_blobs (used : list N) (ents : list (N * N)) (ex : list N) : list N :=
  filter (fun h => negb (existsb (fun e => if snd e =? h then negb (memN (fst e) ex) else false) ents)) used.
Definition keep_blobs_old (used : list N) (ents : list (N * N)) (rmrep : list N) : list N :=
  keep_blobs used ents rmrep.
Definition ents_of (R : repo) : list (N * N) := flat_map (fun ix => snd ix) (idxs R).
Definition subsetN (a b : list N) : bool := forallb (fun x => memN x b) a.

Definition pair_eqb (a b : N * N) : bool := (fst a =? fst b) && (snd a =? snd b).
Definition covered (pl : plan) (R : repo) (e : N * N) : bool :=
  existsb (fun ix => if memN (fst ix) (obs pl) then false else existsb (pair_eqb e) (snd ix)) (idxs R).
Definition commitb (pl : plan) (R : repo) : bool :=
  forallb (fun ix => if memN (fst ix) (obs pl)
                     then forallb (fun e => if memN (fst e) (excl pl) then true else covered pl R e) (snd ix)
                     else true) (idxs R)
  && forallb (sresb (obs pl) (excl pl) R) (keep pl).

Inductive phase := PhA | PhB | PhC.

Definition enter_c (pl : plan) (ph : phase) (R : repo) : bool :=
  match ph with PhC => true | _ => commitb pl R end.

Definition step_ok (pl : plan) (ph : phase) (R : repo) (o : op) : option phase :=
  match o with
  | SaveP p bs =>
      match ph with
      | PhC => None
      | _ => if has_pack R p then None else Some PhB
      end
  | SaveI i es =>
      match ph with
      | PhC => None
      | _ => if has_idx R i then None
             else if forallb (fun e => pack_has R (fst e) (snd e)) es then Some PhB else None
      end
  | RmP p =>
      let late := enter_c pl ph R && memN p (rm pl) && negb (idx_names R p) in
      match ph with
      | PhA => if memN p (rm_first pl) && negb (idx_names R p) then Some PhA
               else if late then Some PhC else None
      | _ => if late then Some PhC else None
      end
  | RmI i => if enter_c pl ph R && memN i (obs pl) then Some PhC else None
  end.

Fixpoint run_ok (pl : plan) (ph : phase) (R : repo) (tr : list op) : bool :=
  match tr with
  | [] => true
  | o :: r => match step_ok pl ph R o with
              | None => false
              | Some ph' => run_ok pl ph' (apply R o) r
              end
  end.

(* ---------- single-op faults: every op carries its outcome; a failed op leaves the state unchanged ----------
   Structure of Execute under backend errors: an error of a Save (repack upload, index of new packs,
   rewritten index) aborts prune before anything is deleted: after a failed Save no obsolete index and
   no old pack may be removed.  Failed removals need no rule (failed pack removals are ignored by
   prune, a failed index removal aborts it). *)
Definition fop := (op * bool)%type.
Definition frun (R : repo) (ftr : list fop) : repo :=
  fold_left (fun (r : repo) (x : fop) => if snd x then apply r (fst x) else r) ftr R.
Definition is_save (o : op) : bool := match o with SaveP _ _ | SaveI _ _ => true | _ => false end.

Definition is_rmi (o : op) : bool := match o with RmI _ => true | _ => false end.
Definition is_rmp (o : op) : bool := match o with RmP _ => true | _ => false end.

(* sf: a Save has failed; rif: the removal of an obsolete index has failed *)
Fixpoint run_okf2 (pl : plan) (ph : phase) (sf rif : bool) (R : repo) (ftr : list fop) : bool :=
  match ftr with
  | [] => true
  | x :: r =>
      if snd x then
        match step_ok pl ph R (fst x) with
        | None => false
        | Some ph' =>
            let late := match ph' with PhC => true | _ => false end in
            (* no removal of an obsolete index / old pack after a failed Save *)
            if sf && late then false
            (* no removal of an old pack after a failed removal of an obsolete index *)
            else if rif && late && is_rmp (fst x) then false
            else run_okf2 pl ph' sf rif (apply R (fst x)) r
        end
      else run_okf2 pl ph (sf || is_save (fst x)) (rif || is_rmi (fst x)) R r
  end.
Definition run_okf (pl : plan) (ph : phase) (sf : bool) (R : repo) (ftr : list fop) : bool :=
  run_okf2 pl ph sf false R ftr.

(* prune has to report an error when a Save or an index removal failed (failed pack removals are
   tolerated: leftover packs cannot damage the repository) *)
Definition must_report (ftr : list fop) : bool :=
  existsb (fun x => negb (snd x) && match fst x with RmP _ => false | _ => true end) ftr.

(* ---------- cases ---------- *)
(* observed pack info: (pack, pinfo) list + blob statistics *)
Inductive sel_obs := OIncomplete | OPanic | OOther | OOk (ps : list (N * pinfo)) (b : bstats).

Inductive case :=
  (* packInfoFromIndex on an ordered entry list *)
  | CSel (used : list N) (es : list entry) (o : sel_obs)
  (* one complete prune run: state before, used handles, plan, recorded trace; aborted = planning failed *)
  | CTrace (R0 : repo) (used : list N) (pl : plan) (aborted : bool) (tr : list op)
  (* a crashed / failed prune: decoded state afterwards + direct observations
     (check --read-data clean, all kept snapshots restore bit-identically, prune re-run + check clean) *)
  | CCrash (R : repo) (used : list N) (check_ok restore_ok rerun_ok : bool)
  (* one prune run in which exactly one backend modification fails permanently and everything else
     proceeds: state before, plan of that run, all attempted ops with their outcome, whether prune
     reported an error, and direct observations afterwards *)
  | CFault (R0 : repo) (used : list N) (pl : plan) (aborted : bool) (ftr : list fop)
           (reported check_ok restore_ok rerun_ok : bool).

Definition sumN (l : list N) : N := fold_left N.add l 0.

Definition sel_model_agrees (used : list N) (es : list entry) (o : sel_obs) : bool :=
  match pack_info kc used es, o with
  | RIncomplete, OIncomplete => true
  | RPanic, OPanic => true
  | ROk s, OOk ps b =>
      let pm := packs_of es in
      let po := map fst ps in
      bstats_eqb (sts s) b &&
      forallb (fun x => pinfo_eqb (ip s (fst x)) (snd x)) ps &&
      forallb (fun p => memN p po) pm &&
      forallb (fun p => memN p pm) po
  | _, _ => false
  end.

(* what the property needs of the selection: no panic; abort iff a used blob is unindexed; every used
   handle has an index entry in a pack with a positive used counter; counters add up *)
Definition sel_oracle (used : list N) (es : list entry) (o : sel_obs) : nat :=
  let missing := existsb (fun h => negb (existsb (fun e => e_h e =? h) es)) used in
  match o with
  | OPanic => 2%nat
  | OOther => 2%nat
  | OIncomplete => if missing then 0%nat else 3%nat
  | OOk ps b =>
      if missing then 3%nat else
      let ub := fun p => match find (fun x => fst x =? p) ps with Some x => usedB (snd x) | None => 0 end in
      if negb (forallb (fun h => existsb (fun e => if e_h e =? h then 0 <? ub (e_pack e) else false) es) used) then 4%nat
      else if negb (sumN (map (fun x => usedB (snd x)) ps) =? N.of_nat (length (dedupN used []))) then 4%nat
      else 0%nat
  end.

Definition check_case (c : case) : nat :=
  match c with
  | CSel used es o =>
      match sel_oracle used es o with
      | O => if sel_model_agrees used es o then 0%nat else 1%nat
      | n => n
      end
  | CTrace R0 used pl aborted tr =>
      if aborted then (match tr with [] => 0%nat | _ => 12%nat end)
      else if negb (consistentb R0 used) then 11%nat
      else if negb (valid_planb R0 used pl) then 9%nat
      else if negb (run_ok pl PhA R0 tr) then 10%nat
      else let k := keep_blobs used (ents_of R0) (excl pl) in
           if subsetN k (keep pl) && subsetN (keep pl) k then 0%nat else 1%nat
  | CFault R0 used pl aborted ftr rep c1 c2 c3 =>
      if aborted then (match filter (fun x => snd x) ftr with [] => 0%nat | _ => 12%nat end)
      else if negb (consistentb R0 used) then 11%nat
      else if negb (valid_planb R0 used pl) then 9%nat
      else if negb (run_okf pl PhA false R0 ftr) then 14%nat
      else if negb (consistentb (frun R0 ftr) used) then 5%nat
      else if must_report ftr && negb rep then 13%nat
      else if negb c1 then 6%nat else if negb c2 then 7%nat else if negb c3 then 8%nat else 0%nat
  | CCrash R used c1 c2 c3 =>
      if negb (consistentb R used) then 5%nat
      else if negb c1 then 6%nat else if negb c2 then 7%nat else if negb c3 then 8%nat else 0%nat
  end.

(* oracle proper (codes >= 2) *)
Definition check_C09 (c : case) : bool :=
  match c with
  | CSel used es o => Nat.eqb (sel_oracle used es o) 0
  | _ => Nat.eqb (check_case c) 0
  end.

End C09m.
