(* C40: incremental backups store the same tree as full backups.  Executable model only.
   Modelled code (internal/archiver/archiver.go):
     fileChanged (type, size, mtime, ctime / inode subject to ChangeIgnoreFlags),
     allBlobsPresent, the regular-file branch of save (reuse previous.Content with fresh metadata,
     otherwise re-read), the directory branch (loadSubtree of the previous node, saveDir: entries in
     ascending name order, previous node found with data.TreeFinder's forward cursor), other types;
     Snapshot's SkipIfUnchanged decision; cmd/restic/cmd_backup.go: --force => no parent,
     --ignore-inode / --ignore-ctime => ChangeIgnoreFlags.
   Abstractions: a file's content is represented by its true chunk list (what reading it yields);
   a tree ID is the tree itself (equal IDs <=> equal trees, C41 + SHA-256); metadata other than
   size/mtime/ctime/inode is taken from the current file in both paths and omitted. *)
From Restic Require Import Base.Prelude.

Module C40m.
Open Scope N_scope.

Record fmeta := mkm { size : N; mtime : N; ctime : N; inode : N }.

Inductive node :=
| NFile (m : fmeta) (content : list N)
| NDir (es : list (bytes * node))
| NOther.

Inductive item :=
| IFile (m : fmeta) (chunks : list N)   (* chunks = blob ids that reading the file yields now *)
| IDir (es : list (bytes * item))       (* entries in ascending name order (readdirnames + sort) *)
| IOther.                               (* symlink, device, fifo: metadata only *)

Record flags := mkfl { ign_ctime : bool; ign_inode : bool }.
(* cmd_backup.go: --ignore-inode sets both bits, --ignore-ctime only the ctime bit *)
Definition flags_of_cli (ignore_inode ignore_ctime : bool) : flags :=
  mkfl (ignore_inode || ignore_ctime) ignore_inode.

(* Go string comparison: bytewise lexicographic *)
Fixpoint name_cmp (a b : bytes) : comparison :=
  match a, b with
  | [], [] => Eq
  | [], _ :: _ => Lt
  | _ :: _, [] => Gt
  | x :: a', y :: b' => match N.compare x y with Eq => name_cmp a' b' | c => c end
  end.
Definition name_ltb (a b : bytes) : bool := match name_cmp a b with Lt => true | _ => false end.
Definition name_eqb (a b : bytes) : bool := match name_cmp a b with Eq => true | _ => false end.

(* fileChanged(fi, node, ignoreFlags); node = nil is handled by the caller (previous != nil) *)
Definition file_changed (fl : flags) (m : fmeta) (p : node) : bool :=
  match p with
  | NFile pm _ =>
      if negb (size m =? size pm) then true
      else if negb (mtime m =? mtime pm) then true
      else if negb (ign_ctime fl) && negb (ctime m =? ctime pm) then true
      else if negb (ign_inode fl) && negb (inode pm =? inode m) then true
      else false
  | _ => true (* type change *)
  end.

Definition content_of (p : node) : list N := match p with NFile _ c => c | _ => [] end.
Definition mem (h : N) (l : list N) : bool := existsb (N.eqb h) l.
(* allBlobsPresent: every content blob is in the index (idx = list of indexed/pending data blobs) *)
Definition all_blobs_present (idx : list N) (p : node) : bool := forallb (fun h => mem h idx) (content_of p).

(* loadSubtree: nil unless the previous node is a directory *)
Definition subtree_of (prev : option node) : list (bytes * node) :=
  match prev with Some (NDir es) => es | _ => [] end.

(* data.TreeFinder.Find on the remaining iterator: advance while current.Name < name *)
Fixpoint finder_find (cur : list (bytes * node)) (name : bytes) : option node * list (bytes * node) :=
  match cur with
  | [] => (None, [])
  | (n, x) :: t =>
      if name_ltb n name then finder_find t name
      else if name_eqb n name then (Some x, t)
      else (None, cur)
  end.

(* arch.save on one item with the node found for it in the parent tree *)
Fixpoint save (fl : flags) (idx : list N) (it : item) (prev : option node) : node :=
  match it with
  | IFile m c =>
      match prev with
      | Some p =>
          if negb (file_changed fl m p) && all_blobs_present idx p
          then NFile m (content_of p)      (* node from current file info, Content copied *)
          else NFile m c                   (* fileSaver reads the file *)
      | None => NFile m c
      end
  | IDir es =>
      NDir ((fix go (es : list (bytes * item)) (cur : list (bytes * node)) : list (bytes * node) :=
               match es with
               | [] => []
               | (n, ch) :: t => let '(f, cur') := finder_find cur n in (n, save fl idx ch f) :: go t cur'
               end) es (subtree_of prev))
  | IOther => NOther
  end.

(* --force: findParentSnapshot returns nil *)
Definition full (fl : flags) (idx : list N) (it : item) : node := save fl idx it None.

(* "the change detection inputs are truthful" along the pairing the archiver itself uses *)
Fixpoint truthfulb (fl : flags) (it : item) (prev : option node) : bool :=
  match it with
  | IFile m c =>
      match prev with
      | Some p => file_changed fl m p || list_eqb N.eqb (content_of p) c
      | None => true
      end
  | IDir es =>
      (fix go (es : list (bytes * item)) (cur : list (bytes * node)) : bool :=
         match es with
         | [] => true
         | (n, ch) :: t => let '(f, cur') := finder_find cur n in truthfulb fl ch f && go t cur'
         end) es (subtree_of prev)
  | IOther => true
  end.

(* Snapshot(): the snapshot is omitted iff a parent exists, --skip-if-unchanged, and the trees are equal *)
Definition snapshot_saved (has_parent skip_flag trees_equal : bool) : bool :=
  negb (has_parent && skip_flag && trees_equal).

Fixpoint node_eqb (a b : node) : bool :=
  match a, b with
  | NFile m c, NFile m' c' =>
      (size m =? size m') && (mtime m =? mtime m') && (ctime m =? ctime m') && (inode m =? inode m')
      && list_eqb N.eqb c c'
  | NDir es, NDir es' =>
      (fix go (x y : list (bytes * node)) : bool :=
         match x, y with
         | [], [] => true
         | (n, a') :: tx, (n', b') :: ty => bytes_eqb n n' && node_eqb a' b' && go tx ty
         | _, _ => false
         end) es es'
  | NOther, NOther => true
  | _, _ => false
  end.

(* cmd_backup.go findParentSnapshot + data.SnapshotFilter.findLatest (group-by host,paths; one host):
   --force: none; --parent ID: that snapshot, unfiltered; otherwise the latest snapshot whose path list
   contains every requested path.  snaps: (id, paths, time) *)
Definition subset (a b : list N) : bool := forallb (fun x => mem x b) a.
Fixpoint latest (snaps : list (N * list N * N)) (paths : list N) (best : option (N * N)) : option (N * N) :=
  match snaps with
  | [] => best
  | (i, ps, t) :: r =>
      if match best with Some (_, bt) => t <? bt | None => false end then latest r paths best
      else if subset paths ps then latest r paths (Some (i, t)) else latest r paths best
  end.
Definition select_parent (snaps : list (N * list N * N)) (paths : list N) (force : bool) (explicit : option N)
  : option N :=
  if force then None
  else match explicit with
       | Some i => Some i
       | None => option_map fst (latest snaps paths None)
       end.

(* ---- cases ---- *)
Inductive case :=
| CTree (fl : flags) (idx : list N) (src : item) (parent : option node)
        (obs_incr obs_full : node) (ids_equal : bool)
        (incr_complete : bool) (* every content blob of the incremental tree is indexed afterwards *)
| CSkip (has_parent skip_flag trees_equal : bool) (obs_saved : bool)
| CParent (snaps : list (N * list N * N)) (paths : list N) (force : bool) (explicit : option N)
          (obs_parent : option N).

(* verified oracle. codes: 2 = truthful inputs but incremental tree <> forced full tree,
   3 = snapshot kept/omitted against the skip-if-unchanged rule,
   4 = the incremental snapshot references a data blob that is not in the index,
   5 = a different parent snapshot was used than the selection rule names *)
Definition oracle_code (c : case) : nat :=
  match c with
  | CTree fl idx src parent oi of' ids compl =>
      if truthfulb fl src parent && negb (node_eqb oi of' && ids) then 2
      else if negb compl then 4 else 0
  | CSkip hp sf te saved => if Bool.eqb saved (snapshot_saved hp sf te) then 0 else 3
  | CParent snaps paths force expl obs =>
      if option_eqb N.eqb obs (select_parent snaps paths force expl) then 0 else 5
  end.
Definition check_C40 (c : case) : bool := Nat.eqb (oracle_code c) 0.

Definition check_case (c : case) : nat :=
  match oracle_code c with
  | O =>
    match c with
    | CTree fl idx src parent oi of' ids _ =>
        if node_eqb oi (save fl idx src parent) && node_eqb of' (full fl idx src)
           && Bool.eqb ids (node_eqb oi of')
        then 0%nat else 1%nat
    | CSkip _ _ _ _ => 0%nat
    | CParent _ _ _ _ _ => 0%nat
    end
  | n => n
  end.

End C40m.
