(* C47: bloblru.Cache (internal/bloblru/cache.go) on top of hashicorp simplelru.LRU.
   Executable model only.  ids and blob contents are [N] tokens, sizes are [Z] (Go int).
   The LRU list is kept OLDEST FIRST (the order of simplelru.Keys()): RemoveOldest pops the head,
   Add/MoveToFront append at the end. *)
From Restic Require Import Base.Prelude Gen.ParamsC47.

Module C47m.
Open Scope Z_scope.

Definition overhead : Z := ParamsC47.overhead.          (* len(restic.ID{}) + 64 *)
Record blob := mkB { b_cap : Z; b_val : N }.              (* cap(blob), content token *)
Definition lru := list (N * blob).
Record cache := mkC { c_lru : lru; c_free : Z; c_size : Z }.

Definition cost (b : blob) : Z := b_cap b + overhead.    (* cap(blob) + overhead *)
Definition max_entries (size : Z) : Z := size / overhead.

(* New: NewLRU errors (and New panics) if maxEntries <= 0 *)
Definition new (size : Z) : option cache :=
  if max_entries size <=? 0 then None else Some (mkC [] size size).

Fixpoint lookup (id : N) (l : lru) : option blob :=
  match l with [] => None | (k, b) :: r => if N.eqb k id then Some b else lookup id r end.
Fixpoint remove (id : N) (l : lru) : lru :=
  match l with [] => [] | (k, b) :: r => if N.eqb k id then r else (k, b) :: remove id r end.

(* for size > c.free { _, b, _ := c.c.RemoveOldest(); if cap(b) > cap(old) { old = b } }
   the evict callback does free += cap(b)+overhead.  [None]: RemoveOldest on an empty LRU changes
   nothing, the Go loop would spin forever. *)
Fixpoint evict_loop (l : lru) (free need old : Z) : option (lru * Z * Z) :=
  if need <=? free then Some (l, free, old) else
  match l with
  | [] => None
  | (_, b) :: r => evict_loop r (free + cost b) need (if b_cap b >? old then b_cap b else old)
  end.

Inductive add_res := ASkipBig | ASkipPresent | AAdded (old : Z) | AHang.

Definition add (c : cache) (id : N) (b : blob) : cache * add_res :=
  let size := cost b in
  if size >? c_size c then (c, ASkipBig) else
  match lookup id (c_lru c) with
  | Some _ => (c, ASkipPresent)          (* Contains: no recency update *)
  | None =>
      match evict_loop (c_lru c) (c_free c) size 0 with
      | None => (c, AHang)
      | Some (l, free, old) =>
          (* c.c.Add: PushFront, then the LRU's own eviction if Length() > maxEntries *)
          let l1 := l ++ [(id, b)] in
          let lf := if Z.of_nat (length l1) >? max_entries (c_size c)
                    then match l1 with
                         | [] => (l1, free)
                         | (_, b0) :: r => (r, free + cost b0)
                         end
                    else (l1, free) in
          (mkC (fst lf) (snd lf - size) (c_size c), AAdded old)
      end
  end.

(* c.c.Get: MoveToFront *)
Definition get (c : cache) (id : N) : cache * option blob :=
  match lookup id (c_lru c) with
  | Some b => (mkC (remove id (c_lru c) ++ [(id, b)]) (c_free c) (c_size c), Some b)
  | None => (c, None)
  end.

(* ---------- sequential scripts ---------- *)
Inductive op := OAdd (id : N) (b : blob) | OGet (id : N) | OGoc (id : N) (outcome : option blob).
(* result: add -> cap of the returned old buffer (0 = nil) ; get -> blob ; GetOrCompute -> (blob or
   error, compute was called) *)
Inductive res := RAdd (old : Z) | RGet (r : option blob) | RGoc (r : option blob) (computed : bool) | RHang.

Definition step (c : cache) (o : op) : cache * res :=
  match o with
  | OAdd id b => match add c id b with
                 | (c', AAdded old) => (c', RAdd old)
                 | (c', AHang) => (c', RHang)
                 | (c', _) => (c', RAdd 0)
                 end
  | OGet id => let '(c', r) := get c id in (c', RGet r)
  | OGoc id outcome =>
      match get c id with
      | (c', Some b) => (c', RGoc (Some b) false)
      | (c', None) =>                       (* the second get misses as well *)
          match outcome with
          | None => (c', RGoc None true)
          | Some b => match add c' id b with
                      | (c2, AHang) => (c2, RHang)
                      | (c2, _) => (c2, RGoc (Some b) true)
                      end
          end
      end
  end.

Fixpoint run (c : cache) (ops : list op) : cache * list (res * cache) :=
  match ops with
  | [] => (c, [])
  | o :: r => let '(c1, x) := step c o in let '(c2, xs) := run c1 r in (c2, (x, c1) :: xs)
  end.

(* ---------- concurrent GetOrCompute: atomic sections of each call ---------- *)
Inductive pc :=
| PGet1 | PReg | PWait (owner : nat) | PGet2 (own : bool) | PCompute (own : bool)
| PAdd (own : bool) (b : blob) | PUnreg (r : option blob) | PClose (r : option blob)
| PDone (r : option blob).
Record thread := mkT { t_id : N; t_out : option blob; t_pc : pc }.
Record gstate := mkG { g_c : cache; g_inprog : list (N * nat); g_closed : list nat;
                       g_thr : list thread; g_computes : list (nat * N); g_hang : bool }.

Fixpoint lookup_ip (id : N) (l : list (N * nat)) : option nat :=
  match l with [] => None | (k, o) :: r => if N.eqb k id then Some o else lookup_ip id r end.
Fixpoint remove_ip (id : N) (l : list (N * nat)) : list (N * nat) :=
  match l with [] => [] | (k, o) :: r => if N.eqb k id then remove_ip id r else (k, o) :: remove_ip id r end.
Fixpoint memnat (x : nat) (l : list nat) : bool :=
  match l with [] => false | y :: r => if Nat.eqb y x then true else memnat x r end.
Fixpoint upd {A} (l : list A) (i : nat) (x : A) : list A :=
  match l, i with [], _ => [] | _ :: r, O => x :: r | y :: r, S i' => y :: upd r i' x end.

Definition finish (own : bool) (r : option blob) : pc := if own then PUnreg r else PDone r.
Definition set_pc (g : gstate) (t : nat) (th : thread) (p : pc) : list thread :=
  upd (g_thr g) t (mkT (t_id th) (t_out th) p).

(* one atomic step of thread [t]; [None] = not enabled (blocked, finished, or no such thread) *)
Definition tstep (g : gstate) (t : nat) : option gstate :=
  match nth_error (g_thr g) t with
  | None => None
  | Some th =>
      let id := t_id th in
      match t_pc th with
      | PGet1 =>
          match get (g_c g) id with
          | (c', Some b) => Some (mkG c' (g_inprog g) (g_closed g) (set_pc g t th (PDone (Some b))) (g_computes g) (g_hang g))
          | (c', None) => Some (mkG c' (g_inprog g) (g_closed g) (set_pc g t th PReg) (g_computes g) (g_hang g))
          end
      | PReg =>
          match lookup_ip id (g_inprog g) with
          | Some o => Some (mkG (g_c g) (g_inprog g) (g_closed g) (set_pc g t th (PWait o)) (g_computes g) (g_hang g))
          | None => Some (mkG (g_c g) ((id, t) :: g_inprog g) (g_closed g) (set_pc g t th (PGet2 true)) (g_computes g) (g_hang g))
          end
      | PWait o =>
          if memnat o (g_closed g)
          then Some (mkG (g_c g) (g_inprog g) (g_closed g) (set_pc g t th (PGet2 false)) (g_computes g) (g_hang g))
          else None
      | PGet2 own =>
          match get (g_c g) id with
          | (c', Some b) => Some (mkG c' (g_inprog g) (g_closed g) (set_pc g t th (finish own (Some b))) (g_computes g) (g_hang g))
          | (c', None) => Some (mkG c' (g_inprog g) (g_closed g) (set_pc g t th (PCompute own)) (g_computes g) (g_hang g))
          end
      | PCompute own =>
          let p := match t_out th with None => finish own None | Some b => PAdd own b end in
          Some (mkG (g_c g) (g_inprog g) (g_closed g) (set_pc g t th p) ((t, id) :: g_computes g) (g_hang g))
      | PAdd own b =>
          let '(c', r) := add (g_c g) id b in
          Some (mkG c' (g_inprog g) (g_closed g) (set_pc g t th (finish own (Some b))) (g_computes g)
                    (match r with AHang => true | _ => g_hang g end))
      | PUnreg r => Some (mkG (g_c g) (remove_ip id (g_inprog g)) (g_closed g) (set_pc g t th (PClose r)) (g_computes g) (g_hang g))
      | PClose r => Some (mkG (g_c g) (g_inprog g) (t :: g_closed g) (set_pc g t th (PDone r)) (g_computes g) (g_hang g))
      | PDone _ => None
      end
  end.

(* a schedule is a list of thread choices; choosing a thread that is not enabled does nothing *)
Fixpoint sched (g : gstate) (s : list nat) : gstate :=
  match s with
  | [] => g
  | t :: r => sched (match tstep g t with Some g' => g' | None => g end) r
  end.

Definition ginit (c : cache) (calls : list (N * option blob)) : gstate :=
  mkG c [] [] (map (fun x => mkT (fst x) (snd x) PGet1) calls) [] false.

(* ---------- cases ---------- *)
(* observed state of the cache: free and the entries oldest first (id, cap, content token) *)
Record snap := mkS { s_free : Z; s_ents : list (N * blob) }.
Inductive case :=
| CSeq (size : Z) (ops : list op) (obs : list (res * snap))
| CWave (size : Z) (prefill : list op) (calls : list (N * option blob)) (schedule : list nat)
        (results : list (option (option blob))) (ncomputes : list (N * N)) (final : snap).

Definition blob_eqb (a b : blob) : bool := andb (Z.eqb (b_cap a) (b_cap b)) (N.eqb (b_val a) (b_val b)).
Definition ent_eqb (a b : N * blob) : bool := andb (N.eqb (fst a) (fst b)) (blob_eqb (snd a) (snd b)).
Definition oblob_eqb := option_eqb blob_eqb.
Definition res_eqb (a b : res) : bool :=
  match a, b with
  | RAdd x, RAdd y => Z.eqb x y
  | RGet x, RGet y => oblob_eqb x y
  | RGoc x cx, RGoc y cy => andb (oblob_eqb x y) (Bool.eqb cx cy)
  | RHang, RHang => true
  | _, _ => false
  end.

Definition total (l : lru) : Z := fold_right (fun e s => cost (snd e) + s) 0 l.
Fixpoint memN (x : N) (l : list N) : bool :=
  match l with [] => false | y :: r => if N.eqb y x then true else memN x r end.
Fixpoint nodupb (l : list N) : bool :=
  match l with [] => true | x :: r => if memN x r then false else nodupb r end.

(* budget clause on an observed snapshot *)
Definition snap_budget (size : Z) (s : snap) : bool :=
  andb (0 <=? s_free s) (andb (s_free s =? size - total (s_ents s)) (nodupb (map fst (s_ents s)))).

(* blobs legitimately produced for an id by the ops executed so far *)
Fixpoint produced (id : N) (b : blob) (ops : list op) : bool :=
  match ops with
  | [] => false
  | OAdd k x :: r => if andb (N.eqb k id) (blob_eqb x b) then true else produced id b r
  | OGoc k (Some x) :: r => if andb (N.eqb k id) (blob_eqb x b) then true else produced id b r
  | _ :: r => produced id b r
  end.

(* result clause: what a lookup returns is what the cache held for that id just before; a miss in
   GetOrCompute returns the computed outcome *)
Definition res_ok (prev : list (N * blob)) (o : op) (r : res) : bool :=
  match o, r with
  | OAdd _ _, RAdd _ => true
  | OGet id, RGet x => oblob_eqb x (lookup id prev)
  | OGoc id out, RGoc x computed =>
      match lookup id prev with
      | Some b => andb (oblob_eqb x (Some b)) (negb computed)
      | None => andb (oblob_eqb x out) computed
      end
  | _, _ => false
  end.

(* Codes: 2 budget broken (free < 0, free <> size - sum, duplicate key)   3 a cached blob was
   never produced for its id   4 lookup result wrong   5 wave: result not a value computed for
   the id / more than one compute although the first one was cached   6 hang/panic *)
Fixpoint seq_ok (size : Z) (done : list op) (prev : list (N * blob)) (ops : list op)
         (obs : list (res * snap)) : nat :=
  match ops, obs with
  | [], [] => 0
  | o :: ops', (r, s) :: obs' =>
      match r with RHang => 6 | _ =>
      if negb (snap_budget size s) then 2
      else if negb (forallb (fun e => produced (fst e) (snd e) (o :: done)) (s_ents s)) then 3
      else if negb (res_ok prev o r) then 4
      else seq_ok size (o :: done) (s_ents s) ops' obs'
      end
  | _, _ => 6
  end.

Definition wave_ok (size : Z) (prefill : list op) (calls : list (N * option blob))
           (results : list (option (option blob))) (final : snap) : nat :=
  if negb (snap_budget size final) then 2
  else if negb (forallb (fun e => orb (produced (fst e) (snd e) prefill)
                                      (existsb (fun cl => andb (N.eqb (fst cl) (fst e)) (oblob_eqb (snd cl) (Some (snd e)))) calls))
                        (s_ents final)) then 3
  else if negb (Nat.eqb (length results) (length calls)) then 6
  else if negb (forallb (fun cr =>
                  match snd cr with
                  | None => false                                  (* call did not return *)
                  | Some None => existsb (fun cl => andb (N.eqb (fst cl) (fst (fst cr))) (oblob_eqb (snd cl) None)) calls
                  | Some (Some b) => orb (produced (fst (fst cr)) b prefill)
                        (existsb (fun cl => andb (N.eqb (fst cl) (fst (fst cr))) (oblob_eqb (snd cl) (Some b))) calls)
                  end) (combine calls results)) then 5
  else 0.

Definition check_code (c : case) : nat :=
  match c with
  | CSeq size ops obs => seq_ok size [] [] ops obs
  | CWave size prefill calls _ results _ final => wave_ok size prefill calls results final
  end.
Definition check_C47 (c : case) : bool := Nat.eqb (check_code c) 0.

Definition snap_eqb (s : snap) (c : cache) : bool :=
  andb (Z.eqb (s_free s) (c_free c)) (list_eqb ent_eqb (s_ents s) (c_lru c)).

Fixpoint seq_model (obs : list (res * snap)) (m : list (res * cache)) : bool :=
  match obs, m with
  | [], [] => true
  | (r, s) :: obs', (r', c) :: m' => andb (res_eqb r r') (andb (snap_eqb s c) (seq_model obs' m'))
  | _, _ => false
  end.

Definition thread_result (t : thread) : option (option blob) :=
  match t_pc t with PDone r => Some r | _ => None end.
Fixpoint count_computes (id : N) (l : list (nat * N)) : N :=
  match l with [] => 0%N | (_, k) :: r => ((if N.eqb k id then 1 else 0) + count_computes id r)%N end.

Definition check_case (c : case) : nat :=
  match check_code c with
  | O =>
      match c with
      | CSeq size ops obs =>
          match new size with
          | None => 1
          | Some c0 => if seq_model obs (snd (run c0 ops)) then 0 else 1
          end
      | CWave size prefill calls schedule results ncomputes final =>
          match new size with
          | None => 1
          | Some c0 =>
              let g := sched (ginit (fst (run c0 prefill)) calls) schedule in
              if andb (list_eqb (option_eqb oblob_eqb) results (map thread_result (g_thr g)))
                 (andb (snap_eqb final (g_c g))
                 (andb (negb (g_hang g))
                       (forallb (fun x => N.eqb (snd x) (count_computes (fst x) (g_computes g))) ncomputes)))
              then 0 else 1
          end
      end
  | n => n
  end.

End C47m.
