(* C02: loaded data always matches its content address. Executable model only.

   Modelled Go code (current /repo):
     internal/repository/raw.go         LoadRaw (first fetch, hash test, cache.Forget, second fetch, ErrInvalidData)
     internal/repository/repository.go  LoadUnpacked (config id, LoadRaw, length test, Open, decompressUnpacked),
                                        LoadBlob / loadBlob (per index location: ReadAt, packBlobIterator.Next =
                                        length test, Open, decompress, hash comparison; forget-and-retry once),
                                        saveBlob (hash or zero-chunk shortcut) + saveAndEncrypt/verifyCiphertext,
                                        saveUnpacked (name = hash of the ciphertext, config = fixed name)
     internal/repository/packer_manager.go  savePacker (pack name = hash of the file)
   SHA-256, AES/Poly1305 and zstd are outside: [hash] is a Section variable (the theorems hold for every hash
   function), the outcome of decrypt+decompress of a fetched buffer is part of the backend's answer (the harness,
   which holds the master key, computes it independently), the backend is an arbitrary call-indexed function.
   In the generated cases contents are represented by their SHA-256 digests and [hash] is instantiated by the
   identity on digests.

   check_case codes: 0 ok; 1 model <> implementation (oracle holds);
     2 a read returned bytes whose hash is not the requested ID (LoadRaw / LoadUnpacked / LoadBlob);
     3 a stored file's name is not the hash of its bytes / a stored blob's ID is not the hash of its plaintext /
       saveBlob returned an ID that is not the hash of the buffer;
     4 more backend fetches than the protocol allows (> 2 for LoadRaw, > 2 per index location for LoadBlob). *)
From Restic Require Import Base.Prelude Gen.ParamsC02.

Module C02m.

Definition id := bytes.
Definition id_eqb := bytes_eqb.

Inductive ftype := FConfig | FOther.
Definition is_config (t : ftype) : bool := match t with FConfig => true | FOther => false end.

(* ---------- LoadRaw ---------- *)
(* one answer of loadRaw: the buffer it produced (possibly empty or partial) and whether it reported an error *)
Record raw_resp := mkraw { rr_buf : bytes; rr_err : bool }.
Inductive raw_res := RawOk (b : bytes) | RawInvalid (b : bytes) | RawErr.

Section WithHash.
Variable hash : bytes -> id.

(* returns the result, the number of backend fetches and the number of cache.Forget calls *)
Definition load_raw (fetch : nat -> raw_resp) (t : ftype) (i : id) : raw_res * nat * nat :=
  let r1 := fetch 0%nat in
  if negb (is_config t) && negb (id_eqb i (hash (rr_buf r1))) then
    let r2 := fetch 1%nat in
    if negb (rr_err r2) && negb (id_eqb i (hash (rr_buf r2))) then (RawInvalid (rr_buf r2), 2%nat, 1%nat)
    else if rr_err r2 then (RawErr, 2%nat, 1%nat)
    else (RawOk (rr_buf r2), 2%nat, 1%nat)
  else if rr_err r1 then (RawErr, 1%nat, 0%nat)
  else (RawOk (rr_buf r1), 1%nat, 0%nat).

(* ---------- LoadUnpacked ---------- *)
(* [dec] = Open with the master key, then decompressUnpacked (identity for the config file) *)
Variable dec : ftype -> bytes -> option bytes.
Variable zero_id : id.
Inductive unp_res := UnpOk (p : bytes) | UnpErr.

Definition load_unpacked (fetch : nat -> raw_resp) (t : ftype) (i : id) : unp_res :=
  let i' := if is_config t then zero_id else i in
  match fst (fst (load_raw fetch t i')) with
  | RawOk b =>
      if Nat.ltb (length b) (Z.to_nat ParamsC02.extension) then UnpErr
      else match dec t b with Some p => UnpOk p | None => UnpErr end
  | _ => UnpErr
  end.

(* ---------- LoadBlob ---------- *)
(* one answer to ReadAt + packBlobIterator.Next for one index location *)
Inductive blob_resp :=
| BErr                    (* backend error / short read *)
| BUndecodable            (* entry too short, MAC failure, decompression failure *)
| BPlain (p : bytes).     (* decrypted (and decompressed) plaintext *)

Inductive blob_res := BlobOk (p : bytes) | BlobErr.

(* loadBlob: walk the locations; [k] counts the backend fetches so far *)
Fixpoint load_blob_pass (fetch : nat -> blob_resp) (k nlocs : nat) (i : id) : blob_res * nat :=
  match nlocs with
  | O => (BlobErr, k)
  | S n =>
      match fetch k with
      | BPlain p => if id_eqb (hash p) i then (BlobOk p, S k) else load_blob_pass fetch (S k) n i
      | _ => load_blob_pass fetch (S k) n i
      end
  end.

(* LoadBlob: no location in the index = error without a fetch; one pass; on failure forget and a second pass *)
Definition load_blob (fetch : nat -> blob_resp) (nlocs : nat) (i : id) : blob_res * nat :=
  match nlocs with
  | O => (BlobErr, O)
  | _ =>
      match load_blob_pass fetch 0 nlocs i with
      | (BlobOk p, k) => (BlobOk p, k)
      | (BlobErr, k) => load_blob_pass fetch k nlocs i
      end
  end.

(* ---------- names given when saving ---------- *)
Definition min_size : nat := Z.to_nat ParamsC02.chunker_min_size.
Definition all_zero (b : bytes) : bool := forallb (N.eqb 0) b.
(* restic.ZeroPrefixLen(buf) == MinSize && len(buf) == MinSize *)
Definition is_zero_chunk (b : bytes) : bool := Nat.eqb (length b) min_size && all_zero b.

Inductive save_res := SaveOk (i : id) | SaveErr.
(* saveBlob with id = null (None) or a caller-supplied id, followed by verifyCiphertext of saveAndEncrypt
   (the sealed blob opens and decompresses to the buffer again: C05/zstd round trip) *)
(* [skip] = the ID was already known to the index and storeDuplicate is off: nothing is stored, the ID is
   returned unverified *)
Definition save_blob (b : bytes) (given : option id) (skip : bool) : save_res :=
  let newid := match given with
               | Some i => i
               | None => if is_zero_chunk b then hash (repeat 0%N min_size) else hash b
               end in
  if skip then SaveOk newid
  else if id_eqb (hash b) newid then SaveOk newid else SaveErr.

(* saveUnpacked / savePacker: the file name *)
Definition stored_name (t : ftype) (content : bytes) : id :=
  if is_config t then zero_id else hash content.

End WithHash.

(* ---------- cases: contents are digests, hash = identity ---------- *)
Definition hid (b : bytes) : id := b.

Inductive obs_raw := ORawOk (digest : id) | ORawInvalid (digest : id) | ORawErr.

Inductive case :=
| CRaw (t : ftype) (i : id) (script : list raw_resp) (obs : obs_raw) (fetches : nat)
    (* script: digest + error flag of the successive backend answers *)
| CUnp (t : ftype) (i : id) (script : list (raw_resp * bool * option id)) (obs : option id)
    (* per answer: raw digest/err, "shorter than 32 bytes", digest of the decoded plaintext if it decodes *)
| CBlob (i : id) (nlocs : nat) (script : list blob_resp) (obs : option id) (fetches : nat)
| CSaved (t : ftype) (name : id) (digest : id)           (* a file written to the backend *)
| CStoredBlob (i : id) (plain_digest : id)               (* an index entry, decoded by the harness *)
| CSaveBlob (digest : id) (len : Z) (zeros : bool) (given : option id) (skip : bool) (obs : option id) (zero_digest : id)
| CSavedLoad (digest : id) (ret : id) (loaded : option id).
    (* SaveBlob without a given ID returned [ret]; after the flush LoadBlob(ret) gave [loaded] (digest of the bytes) *)
    (* skip: SaveBlob reported the ID as already known (nothing stored) *)

Definition nth_raw (s : list raw_resp) (k : nat) : raw_resp := nth k s (mkraw [] true).
Definition nth_blob (s : list blob_resp) (k : nat) : blob_resp := nth k s BErr.

Definition obs_raw_eqb (a b : obs_raw) : bool :=
  match a, b with
  | ORawOk x, ORawOk y | ORawInvalid x, ORawInvalid y => bytes_eqb x y
  | ORawErr, ORawErr => true
  | _, _ => false
  end.
Definition to_obs (r : raw_res) : obs_raw :=
  match r with RawOk b => ORawOk b | RawInvalid b => ORawInvalid b | RawErr => ORawErr end.

Definition zero_name : id := repeat 0%N 32.

(* model of LoadUnpacked on abstracted answers: length test and decoding are part of the answer *)
Definition unp_model (t : ftype) (i : id) (script : list (raw_resp * bool * option id)) : option id :=
  let raws := map (fun x => fst (fst x)) script in
  let i' := if is_config t then zero_name else i in
  match fst (fst (load_raw hid (nth_raw raws) t i')) with
  | RawOk b =>
      (* which answer was returned: the one whose digest is b (first match) *)
      match find (fun x => bytes_eqb (rr_buf (fst (fst x))) b && negb (rr_err (fst (fst x)))) script with
      | Some (_, short, d) => if short then None else d
      | None => None
      end
  | _ => None
  end.

Definition blob_model (i : id) (nlocs : nat) (script : list blob_resp) : option id * nat :=
  match load_blob hid (nth_blob script) nlocs i with
  | (BlobOk p, k) => (Some p, k)
  | (BlobErr, k) => (None, k)
  end.

(* oracle *)
Definition check_C02 (c : case) : bool :=
  match c with
  | CRaw t i _ obs _ => match obs with ORawOk d => is_config t || bytes_eqb d i | _ => true end
  | CUnp t i script obs =>
      (* the plaintext handed out is the decoding of an answer whose raw digest is the requested ID *)
      match obs with
      | Some p => is_config t ||
                  existsb (fun x => bytes_eqb (rr_buf (fst (fst x))) i &&
                                    match snd x with Some d => bytes_eqb d p | None => false end) script
      | None => true
      end
  | CBlob i _ _ obs _ => match obs with Some d => bytes_eqb d i | None => true end
  | CSaved t name digest => is_config t || bytes_eqb name digest
  | CStoredBlob i d => bytes_eqb i d
  | CSaveBlob digest _ _ given skip obs _ =>
      (* without a given ID saveBlob always succeeds with the hash of the buffer (C02_save_blob_names_hash);
         with a caller-supplied ID whatever is actually stored is stored under the hash of the buffer *)
      match given, obs with
      | None, Some i => bytes_eqb i digest
      | None, None => false
      | Some _, Some i => if skip then true else bytes_eqb i digest
      | Some _, None => true
      end
  | CSavedLoad digest ret loaded =>
      bytes_eqb ret digest && match loaded with Some d => bytes_eqb d digest | None => false end
  end.

Definition fetch_bound_ok (c : case) : bool :=
  match c with
  | CRaw _ _ _ _ n => Nat.leb n 2
  | CBlob _ nlocs _ _ n => Nat.leb n (2 * nlocs)
  | _ => true
  end.

Definition option_id_eqb := option_eqb bytes_eqb.

Definition model_agrees (c : case) : bool :=
  match c with
  | CRaw t i script obs n =>
      let '(r, nf, _) := load_raw hid (nth_raw script) t i in obs_raw_eqb obs (to_obs r) && Nat.eqb n nf
  | CUnp t i script obs => option_id_eqb obs (unp_model t i script)
  | CBlob i nlocs script obs n =>
      let '(r, k) := blob_model i nlocs script in option_id_eqb obs r && Nat.eqb n k
  | CSaved t name digest => bytes_eqb name (stored_name hid zero_name t digest)
  | CStoredBlob i d => bytes_eqb i d
  | CSaveBlob digest len zeros given skip obs zd =>
      (* abstract run of save_blob: the zero-chunk test is evaluated on (len, zeros) *)
      let newid := match given with
                   | Some g => g
                   | None => if (len =? ParamsC02.chunker_min_size)%Z && zeros then zd else digest
                   end in
      option_id_eqb obs (if skip then Some newid else if bytes_eqb digest newid then Some newid else None)
  | CSavedLoad digest ret loaded => bytes_eqb ret digest && option_id_eqb loaded (Some digest)
  end.

Definition check_case (c : case) : nat :=
  if negb (check_C02 c) then
    match c with
    | CRaw _ _ _ _ _ | CUnp _ _ _ _ | CBlob _ _ _ _ _ => 2
    | _ => 3
    end
  else if negb (fetch_bound_ok c) then 4
  else if model_agrees c then 0 else 1.

End C02m.
