(* C17: content-defined chunking.  Executable model only.
   Modelled code:
     github.com/restic/chunker  BaseChunker.reset / nextSplitPoint   (chunker.go)
     internal/repository/chunker.go  baseChunker.Reset / NextSplitPoint (thin wrapper)
     internal/archiver/file_saver.go fileChunkState.reset / readNextChunk, the chunk loop of
       saveFile (chnker.Reset(); chunkState.reset(); loop until io.EOF), worker reuse,
     io.ReadFull over a reader that may return short reads.
   The rolling Rabin digest is abstracted to [hit : window -> bool] ("digest & splitmask = 0" as a
   function of the 64 window bytes); [rabin_hit] below is the naive (table-free) polynomial
   residue used for the byte-level correspondence. *)
From Restic Require Import Base.Prelude.

Module C17m.
Open Scope N_scope.

Record cfg := mkcfg { hit : bytes -> bool; mn : N; mx : N }.
Definition wsize : N := 64.

(* chunkerState: window (oldest byte first), pre, count.  digest = function of window. *)
Record st := mkst { win : bytes; pre : N; cnt : N }.

(* reset(): window zeroed, then slide(1): the byte 1 is the newest window byte *)
Definition init_win : bytes := repeat 0 63 ++ [1].
Definition reset_st (c : cfg) : st := mkst init_win (mn c - wsize) 0.

Definition push (w : bytes) (b : N) : bytes := tl w ++ [b].

(* if (digest&splitmask)==0 || add >= maxSize { if add < minSize {continue}; cut } *)
Definition cutcond (c : cfg) (w : bytes) (add : N) : bool :=
  if add <? mn c then false else (hit c w || (mx c <=? add)).

(* the for-loop of nextSplitPoint over buf (after the pre phase); i = loop index *)
Fixpoint nsp_loop (c : cfg) (w : bytes) (add : N) (buf : bytes) (i : N) : option N * bytes * N :=
  match buf with
  | [] => (None, w, add)
  | b :: t =>
      let w' := push w b in
      let add' := add + 1 in
      if cutcond c w' add' then (Some (i + 1), w', add') else nsp_loop c w' add' t (i + 1)
  end.

Definition blen (b : bytes) : N := N.of_nat (length b).

(* BaseChunker.nextSplitPoint: None = -1 *)
Definition nsp (c : cfg) (s : st) (buf : bytes) : option N * st :=
  if (0 <? pre s) && (blen buf <=? pre s) then
    (None, mkst (win s) (pre s - blen buf) (cnt s + blen buf))
  else
    let buf' := skipn (N.to_nat (pre s)) buf in
    let idx := pre s in
    let cnt0 := cnt s + pre s in
    match nsp_loop c (win s) cnt0 buf' 0 with
    | (Some k, _, _) => (Some (idx + k), reset_st c)
    | (None, w, _) => (None, mkst w 0 (cnt0 + blen buf'))
    end.

(* ---- per-byte reference semantics (no buffers): the specification ---- *)
Definition step1 (c : cfg) (s : st) (b : N) : bool * st :=
  if 0 <? pre s then (false, mkst (win s) (pre s - 1) (cnt s + 1))
  else
    let w' := push (win s) b in
    let add' := cnt s + 1 in
    if cutcond c w' add' then (true, reset_st c) else (false, mkst w' 0 add').

Definition fin (acc : bytes) : list bytes := match acc with [] => [] | _ => [acc] end.

Fixpoint spec_go (c : cfg) (s : st) (acc : bytes) (d : bytes) : list bytes :=
  match d with
  | [] => fin acc
  | b :: t => let '(cut, s') := step1 c s b in
              if cut then (acc ++ [b]) :: spec_go c s' [] t
              else spec_go c s' (acc ++ [b]) t
  end.
Definition spec (c : cfg) (d : bytes) : list bytes := spec_go c (reset_st c) [] d.

(* complete chunks cut inside d, and the state / partial chunk at the end of d *)
Fixpoint spec_cuts (c : cfg) (s : st) (acc : bytes) (d : bytes) : list bytes * (st * bytes) :=
  match d with
  | [] => ([], (s, acc))
  | b :: t => let '(cut, s') := step1 c s b in
              if cut then let '(ch, e) := spec_cuts c s' [] t in ((acc ++ [b]) :: ch, e)
              else spec_cuts c s' (acc ++ [b]) t
  end.

(* ---- reader with short reads + io.ReadFull ---- *)
Record rd := mkrd { rem : bytes; script : list nat }.

(* io.ReadFull(rd, buf[:want]): loops Read until want bytes or EOF; each Read returns
   min(script entry, space, available) bytes (0 allowed); script exhausted = full reads *)
Fixpoint read_full (sc : list nat) (rm : bytes) (want : nat) (acc : bytes) : bytes * rd :=
  match want with
  | O => (acc, mkrd rm sc)
  | _ =>
    match rm with
    | [] => (acc, mkrd [] sc)
    | _ =>
      match sc with
      | [] => (acc ++ firstn want rm, mkrd (skipn want rm) [])
      | k :: sc' => let n := Nat.min k want in
                    read_full sc' (skipn n rm) (want - n) (acc ++ firstn n rm)
      end
    end
  end.

(* fileChunkState: rbuf = readBuf[bpos:bmax] *)
Record cs := mkcs { rbuf : bytes; closed : bool }.
Inductive rres := RChunk (d : bytes) | REOF | RFuel.

(* fileChunkState.readNextChunk; one unit of fuel per loop iteration *)
Fixpoint rnc (c : cfg) (bufsz : nat) (fuel : nat) (r : rd) (k : cs) (s : st) (data : bytes)
  : rres * rd * cs * st :=
  match fuel with
  | O => (RFuel, r, k, s)
  | S f =>
    let '(stop, r1, k1) :=
      match rbuf k with
      | [] => (* bpos >= bmax: refill *)
        let '(got, r') := read_full (script r) (rem r) bufsz [] in
        match got with
        | [] => (* n = 0, err = io.EOF *)
          if negb (closed k)
          then (Some (match data with [] => REOF | _ => RChunk data end), r', mkcs [] true)
          else (Some REOF, r', k)
        | _ => (None, r', mkcs got (closed k))
        end
      | _ => (None, r, k)
      end in
    match stop with
    | Some res => (res, r1, k1, s)
    | None =>
      match nsp c s (rbuf k1) with
      | (None, s') => rnc c bufsz f r1 (mkcs [] (closed k1)) s' (data ++ rbuf k1)
      | (Some sp, s') =>
          (RChunk (data ++ firstn (N.to_nat sp) (rbuf k1)), r1,
           mkcs (skipn (N.to_nat sp) (rbuf k1)) (closed k1), s')
      end
    end
  end.

(* the chunk loop of saveFile *)
Fixpoint sf_loop (c : cfg) (bufsz : nat) (n fuel : nat) (r : rd) (k : cs) (s : st)
  : option (list bytes) * cs * st :=
  match n with
  | O => (None, k, s)
  | S n' =>
    match rnc c bufsz fuel r k s [] with
    | (RChunk d, r', k', s') =>
        let '(o, k2, s2) := sf_loop c bufsz n' fuel r' k' s' in (option_map (cons d) o, k2, s2)
    | (REOF, _, k', s') => (Some [], k', s')
    | (RFuel, _, k', s') => (None, k', s')
    end
  end.

(* saveFile with the worker's carried chunker / chunk state: chnker.Reset(); chunkState.reset() *)
Definition save_file (c : cfg) (bufsz : nat) (k0 : cs) (s0 : st) (data : bytes) (sc : list nat)
  : option (list bytes) * cs * st :=
  let s := reset_st c in
  let k := mkcs [] false in
  let n := (length data + 2)%nat in
  sf_loop c bufsz n n (mkrd data sc) k s.

(* one worker processing a sequence of files *)
Fixpoint worker (c : cfg) (bufsz : nat) (k : cs) (s : st) (files : list (bytes * list nat))
  : list (option (list bytes)) :=
  match files with
  | [] => []
  | (d, sc) :: t => let '(o, k', s') := save_file c bufsz k s d sc in o :: worker c bufsz k' s' t
  end.

(* state of a fresh worker: NewChunker() = NewBase (reset), chunkState zero value *)
Definition worker0 (c : cfg) (bufsz : nat) (files : list (bytes * list nat)) :=
  worker c bufsz (mkcs [] false) (reset_st c) files.

(* ---- naive Rabin fingerprint of a window (independent of the table-driven code) ---- *)
Fixpoint reduce (k : nat) (x pol d : N) : N :=
  match k with
  | O => x
  | S k' => let x' := if N.testbit x (d + N.of_nat k') then N.lxor x (N.shiftl pol (N.of_nat k')) else x in
            reduce k' x' pol d
  end.
Definition append_byte (pol d h b : N) : N := reduce 8 (N.lor (N.shiftl h 8) b) pol d.
Definition rabin (pol : N) (w : bytes) : N :=
  let d := N.log2 pol in fold_left (append_byte pol d) w 0.
Definition rabin_hit (pol mask : N) (w : bytes) : bool := N.land (rabin pol w) mask =? 0.

(* ---- position-level model: data abstracted to its length and the set of hit positions ----
   H = inclusive intervals of byte indices i such that the window ending at byte i hits *)
Definition ivs := list (N * N).
Definition hit_in (H : ivs) (lo hi : N) : bool :=
  (lo <=? hi) && existsb (fun ab => (fst ab <=? hi) && (lo <=? snd ab)) H.
Definition hit_at (H : ivs) (i : N) : bool := hit_in H i i.

Definition next_hit (H : ivs) (p : N) : option N :=
  fold_right (fun ab acc =>
      if p <=? snd ab then
        let h := N.max (fst ab) p in
        match acc with Some x => Some (N.min x h) | None => Some h end
      else acc) None H.

(* chunk lengths from position s of a file of n bytes *)
Fixpoint cuts (fuel : nat) (mn' mx' : N) (H : ivs) (s n : N) : list N :=
  match fuel with
  | O => []
  | S f =>
    if n <=? s then []
    else
      let e := match next_hit H (s + mn' - 1) with
               | Some h => N.min (h + 1) (s + mx')
               | None => s + mx'
               end in
      if e <=? n then (e - s) :: cuts f mn' mx' H e n else [n - s]
  end.

(* declarative, decidable: ls are the right chunk lengths for (n, H) from position s *)
Fixpoint good_cuts (mn' mx' : N) (H : ivs) (s n : N) (ls : list N) : bool :=
  match ls with
  | [] => s =? n
  | l :: t =>
    let e := s + l in
    (0 <? l) && (e <=? n) && (l <=? mx')
    && negb (hit_in H (s + mn' - 1) (e - 2)) (* no earlier cut possible: positions j-1, mn <= j-s < l *)
    && match t with
       | [] => (e =? n)
       | _ => (mn' <=? l) && ((l =? mx') || hit_at H (e - 1)) && good_cuts mn' mx' H e n t
       end
  end.

(* ---- cases ---- *)
Record sfile := mksf { f_data : bytes; f_script : list nat; f_obs : list bytes }.
Record bfile := mkbf { b_n : N; b_hits : ivs; b_obs : list N; b_lossless : bool }.

Inductive case :=
| CSmall (pol mask mn' mx' : N) (bufsz : nat) (files : list sfile)
| CBig (mn' mx' : N) (files : list bfile).

Definition lens (l : list bytes) : list N := map blen l.
Definition chunks_eqb := list_eqb bytes_eqb.
Definition nlist_eqb := list_eqb N.eqb.

Fixpoint all_but_last {A} (l : list A) : list A :=
  match l with [] => [] | [_] => [] | x :: t => x :: all_but_last t end.

Definition bounds_ok (mn' mx' : N) (ls : list N) : bool :=
  forallb (fun l => (mn' <=? l) && (l <=? mx')) (all_but_last ls)
  && forallb (fun l => (0 <? l) && (l <=? mx')) ls.

(* codes: 3 = not lossless, 4 = size bounds violated, 2 = cut points are not the content-defined ones *)
Definition small_code (c : cfg) (f : sfile) : nat :=
  if negb (bytes_eqb (concat (f_obs f)) (f_data f)) then 3
  else if negb (bounds_ok (mn c) (mx c) (lens (f_obs f))) then 4
  else if negb (chunks_eqb (f_obs f) (spec c (f_data f))) then 2
  else 0.

Definition big_code (mn' mx' : N) (f : bfile) : nat :=
  if negb (b_lossless f && (fold_right N.add 0 (b_obs f) =? b_n f)) then 3
  else if negb (bounds_ok mn' mx' (b_obs f)) then 4
  else if negb (good_cuts mn' mx' (b_hits f) 0 (b_n f) (b_obs f)) then 2
  else 0.

Definition first_code (l : list nat) : nat := fold_right (fun x acc => match x with O => acc | _ => x end) O l.

(* verified oracle *)
Definition check_C17 (cse : case) : bool :=
  match cse with
  | CSmall pol mask mn' mx' bufsz files =>
      let c := mkcfg (rabin_hit pol mask) mn' mx' in
      forallb (fun f => Nat.eqb (small_code c f) 0) files
  | CBig mn' mx' files => forallb (fun f => Nat.eqb (big_code mn' mx' f) 0) files
  end.

Fixpoint all2 {A B} (f : A -> B -> bool) (l1 : list A) (l2 : list B) : bool :=
  match l1, l2 with
  | [], [] => true
  | x :: t1, y :: t2 => f x y && all2 f t1 t2
  | _, _ => false
  end.

Definition opt_chunks_eqb (o : option (list bytes)) (obs : list bytes) : bool :=
  match o with Some l => chunks_eqb l obs | None => false end.

Definition check_case (cse : case) : nat :=
  match cse with
  | CSmall pol mask mn' mx' bufsz files =>
      let c := mkcfg (rabin_hit pol mask) mn' mx' in
      match first_code (map (small_code c) files) with
      | O =>
          let m := worker0 c bufsz (map (fun f => (f_data f, f_script f)) files) in
          if all2 (fun o f => opt_chunks_eqb o (f_obs f)) m files then 0%nat else 1%nat
      | n => n
      end
  | CBig mn' mx' files =>
      match first_code (map (big_code mn' mx') files) with
      | O =>
          if forallb (fun f => nlist_eqb (b_obs f)
                 (cuts (N.to_nat (b_n f / mn') + 2) mn' mx' (b_hits f) 0 (b_n f))) files
          then 0%nat else 1%nat
      | n => n
      end
  end.

End C17m.
