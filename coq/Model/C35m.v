(* C35: internal/backend/retry/backend_retry.go — the retry backend over a faulty inner backend.
   Executable model only.

   The inner backend is a scripted mock: a store (name -> bytes) and a fault script, one
   directive consumed per inner backend call.  The retry loop mirrors
   Backend.retry + backoff.RetryNotify (cenkalti/backoff v4):
     - pre-cancelled context: no attempt at all;
     - permanentErrorAttempts = 1 (5 with HasFlakyErrors), decremented for errors the backend
       calls permanent unless already wrapped by backoff.Permanent; at 0 the error is final;
     - an error wrapped by backoff.Permanent is final;
     - otherwise NextBackOff decides: the time budget is abstracted to [budget] = number of
       retries the backoff policy still grants (retryAtLeastOnce makes it >= 1 in restic);
   and the per-operation closures of Save (Rewind; Save; on error Remove unless
   HasAtomicReplace), Load (circuit breaker keyed by the handle without IsMetadata), Stat
   (not-exist is permanent and cancels the context), Remove, List (dedup map shared by the
   attempts, the callback error aborts and takes precedence).

   check_case codes: 0 ok; 1 model <> implementation; 2 retry_result (Ok value / frame);
   3 list_at_most_once; 4 failed Save left a partial file; 5 permanent error retried;
   6 Ok reported although the last attempt failed (or no attempt was made). *)
From Restic Require Import Base.Prelude.

Module C35m.

(* ---------- inner backend: store + fault script ---------- *)

Definition store := list (N * bytes).

Fixpoint sget (n : N) (s : store) : option bytes :=
  match s with
  | [] => None
  | (m, e) :: r => if N.eqb n m then Some e else sget n r
  end.

(* sorted insert with replacement (the harness prints the store sorted by name) *)
Fixpoint sput (n : N) (d : bytes) (s : store) : store :=
  match s with
  | [] => [(n, d)]
  | (m, e) :: r =>
      if N.ltb n m then (n, d) :: s
      else if N.eqb n m then (n, d) :: r
      else (m, e) :: sput n d r
  end.

Fixpoint sdel (n : N) (s : store) : store :=
  match s with
  | [] => []
  | (m, e) :: r => if N.eqb n m then sdel n r else (m, e) :: sdel n r
  end.

Definition keys (s : store) : list N := map fst s.

(* error classes of the mock: transient; permanent (IsPermanentError); not-exist (IsNotExist and
   IsPermanentError); already wrapped with backoff.Permanent by the inner backend *)
Inductive ecl := ETrans | EPerm | ENotEx | EWrap.

Inductive fault :=
| FNone                       (* behave correctly *)
| FBefore (e : ecl)           (* fail without any effect *)
| FPartial (k : nat) (e : ecl)(* fail after k bytes / k list entries *)
| FAfter (e : ecl).           (* full effect, but an error is returned *)

Inductive ikind := ISave | IRemove | ILoad | IStat | IList.
Inductive iout := IOk | IErr (e : ecl) | IFn.
(* one inner backend call: kind, name (0 for List), outcome, effect flag
   (Save: the complete content is stored afterwards; Remove: the name is absent afterwards) *)
Definition icall := (ikind * N * iout * bool)%type.

Record cfg := mkcfg { atomic : bool; flaky : bool }.

Record st := mkst { s_store : store; s_script : list fault; s_breaker : list N; s_noexpiry : bool }.
(* s_noexpiry = false: failedLoadExpiry is the normal hour; true: entries expire at once *)

Definition pop (sc : list fault) : fault * list fault :=
  match sc with [] => (FNone, []) | f :: r => (f, r) end.

Definition slice (d : bytes) (len off : nat) : bytes :=
  let t := skipn off d in
  match len with O => t | _ => firstn len t end.

Definition opt_bytes_eqb := option_eqb bytes_eqb.

Definition is_perm (e : ecl) : bool :=
  match e with EPerm | ENotEx => true | _ => false end.

(* ---------- the retry loop ---------- *)

Inductive aout := AOk | AErr (e : ecl) | AFn | AStatNotEx.
Inductive res := ROk | RErr (e : ecl) | RCtx | RBreaker | RFn | ROther.
(* ROther: an error the harness cannot classify; never produced by the model *)

Section Retry.
  Variable S : Type.
  Variable att : S -> S * aout.

  (* returns: state, result, number of failed attempts that were retried *)
  Fixpoint retry_loop (budget pa fails : nat) (s : S) : S * res * nat :=
    let '(s', a) := att s in
    match a with
    | AOk => (s', ROk, fails)
    | AStatNotEx => (s', RErr ENotEx, fails)
    | AFn => (s', RFn, fails)
    | AErr e =>
        let pa' := if is_perm e then pa - 1 else pa in
        if Nat.eqb pa' 0 then (s', RErr e, fails)
        else match e with
             | EWrap => (s', RErr e, fails)
             | _ => match budget with
                    | O => (s', RErr e, fails)
                    | Datatypes.S b => retry_loop b pa' (Datatypes.S fails) s'
                    end
             end
    end.
End Retry.

Definition perm_attempts (c : cfg) : nat := if flaky c then 5 else 1.

(* Report callback count and Success callback argument, derived as in retryNotifyErrorWithSuccess:
   one report per retried failure, one final report for an error unless the context was cancelled
   (by the caller, by Stat's not-exist, by List's callback error). *)
Definition reports_of (r : res) (statnotex : bool) (fails : nat) : nat :=
  match r with
  | RErr _ => if statnotex then fails else Datatypes.S fails
  | _ => fails
  end.
Definition succ_of (r : res) (fails : nat) : option nat :=
  match r, fails with
  | ROk, Datatypes.S _ => Some fails
  | _, _ => None
  end.

(* ---------- per-operation attempts; W = working state: st + reversed call trace (+ extras) ---------- *)

Definition W := (st * list icall)%type.

Definition with_store (s : st) (x : store) (sc : list fault) : st :=
  mkst x sc (s_breaker s) (s_noexpiry s).

Definition present (n : N) (x : store) : bool :=
  match sget n x with Some _ => true | None => false end.

(* inner Save *)
Definition inner_save (c : cfg) (n : N) (d : bytes) (w : W) : W * option ecl :=
  let '(s, tr) := w in
  let '(f, sc) := pop (s_script s) in
  match f with
  | FNone => ((with_store s (sput n d (s_store s)) sc, (ISave, n, IOk, true) :: tr), None)
  | FBefore e =>
      ((with_store s (s_store s) sc, (ISave, n, IErr e, opt_bytes_eqb (sget n (s_store s)) (Some d)) :: tr), Some e)
  | FPartial k e =>
      let x := if atomic c then s_store s else sput n (firstn k d) (s_store s) in
      ((with_store s x sc, (ISave, n, IErr e, opt_bytes_eqb (sget n x) (Some d)) :: tr), Some e)
  | FAfter e => ((with_store s (sput n d (s_store s)) sc, (ISave, n, IErr e, true) :: tr), Some e)
  end.

(* inner Remove *)
Definition inner_remove (n : N) (w : W) : W * option ecl :=
  let '(s, tr) := w in
  let '(f, sc) := pop (s_script s) in
  match f with
  | FNone =>
      if present n (s_store s)
      then ((with_store s (sdel n (s_store s)) sc, (IRemove, n, IOk, true) :: tr), None)
      else ((with_store s (s_store s) sc, (IRemove, n, IErr ENotEx, true) :: tr), Some ENotEx)
  | FBefore e | FPartial _ e =>
      ((with_store s (s_store s) sc, (IRemove, n, IErr e, negb (present n (s_store s))) :: tr), Some e)
  | FAfter e => ((with_store s (sdel n (s_store s)) sc, (IRemove, n, IErr e, true) :: tr), Some e)
  end.

(* one attempt of retry.Save's closure *)
Definition att_save (c : cfg) (n : N) (d : bytes) (w : W) : W * aout :=
  let '(w1, r) := inner_save c n d w in
  match r with
  | None => (w1, AOk)
  | Some e =>
      if atomic c then (w1, AErr e)
      else let '(w2, _) := inner_remove n w1 in (w2, AErr e)
  end.

Definition att_remove (n : N) (w : W) : W * aout :=
  let '(w1, r) := inner_remove n w in
  match r with None => (w1, AOk) | Some e => (w1, AErr e) end.

(* Load: working state additionally holds the data seen by the last consumer invocation *)
Definition WL := (W * bytes)%type.
Definition att_load (n : N) (len off : nat) (wl : WL) : WL * aout :=
  let '((s, tr), last) := wl in
  let '(f, sc) := pop (s_script s) in
  let s' := with_store s (s_store s) sc in
  match f, sget n (s_store s) with
  | FBefore e, _ => (((s', (ILoad, n, IErr e, false) :: tr), last), AErr e)
  | _, None => (((s', (ILoad, n, IErr ENotEx, false) :: tr), last), AErr ENotEx)
  | FNone, Some d => (((s', (ILoad, n, IOk, true) :: tr), slice d len off), AOk)
  | FPartial k e, Some d => (((s', (ILoad, n, IErr e, false) :: tr), firstn k (slice d len off)), AErr e)
  | FAfter e, Some d => (((s', (ILoad, n, IErr e, true) :: tr), slice d len off), AErr e)
  end.

Definition WS := (W * N)%type.
Definition att_stat (n : N) (ws : WS) : WS * aout :=
  let '((s, tr), last) := ws in
  let '(f, sc) := pop (s_script s) in
  let s' := with_store s (s_store s) sc in
  let fin (e : ecl) := (((s', (IStat, n, IErr e, false) :: tr), last),
                        match e with ENotEx => AStatNotEx | _ => AErr e end) in
  match f, sget n (s_store s) with
  | FNone, Some d => (((s', (IStat, n, IOk, true) :: tr), N.of_nat (length d)), AOk)
  | FNone, None => fin ENotEx
  | FBefore e, _ | FPartial _ e, _ | FAfter e, _ => fin e
  end.

(* List: [listed] = names already handed to fn, in call order (the dedup map);
   fn fails at its [fnfail]-th invocation (0 = never). *)
Fixpoint memN (x : N) (l : list N) : bool :=
  match l with [] => false | y :: r => orb (N.eqb x y) (memN x r) end.

(* returns the new listed and whether fn aborted *)
Fixpoint emit (fnfail : nat) (listed : list N) (names : list N) : list N * bool :=
  match names with
  | [] => (listed, false)
  | x :: r =>
      if memN x listed then emit fnfail listed r
      else let listed' := listed ++ [x] in
           if andb (negb (Nat.eqb fnfail 0)) (Nat.eqb (length listed') fnfail) then (listed', true)
           else emit fnfail listed' r
  end.

(* The order in which the inner backend lists its files is NOT stable: each attempt sees its own order
   (mem backend map iteration, object stores).  The mock derives the order of an attempt from the number
   of script directives left after this call's own directive: rotate by it, and reverse when it is odd —
   so consecutive attempts of one List see different orders, and padding the script changes them. *)
Definition lorder (j : nat) (l : list N) : list N :=
  let n := Nat.modulo j (length l) in
  let r := skipn n l ++ firstn n l in
  if Nat.odd j then rev r else r.

Definition WLi := (W * list N)%type.
Definition att_list (fnfail : nat) (wl : WLi) : WLi * aout :=
  let '((s, tr), listed) := wl in
  let '(f, sc) := pop (s_script s) in
  let s' := with_store s (s_store s) sc in
  let ks := lorder (length sc) (keys (s_store s)) in
  let '(toemit, e) := match f with
                      | FNone => (ks, None)
                      | FBefore e => ([], Some e)
                      | FPartial k e => (firstn k ks, Some e)
                      | FAfter e => (ks, Some e)
                      end in
  let '(listed', ab) := emit fnfail listed toemit in
  if ab then (((s', (IList, 0%N, IFn, false) :: tr), listed'), AFn)
  else match e with
       | None => (((s', (IList, 0%N, IOk, true) :: tr), listed'), AOk)
       | Some e => (((s', (IList, 0%N, IErr e, false) :: tr), listed'), AErr e)
       end.

(* ---------- operations through the retry backend ---------- *)

Inductive op :=
| OSave (n : N) (d : bytes)
| OLoad (n : N) (meta : bool) (len off : nat)   (* meta = Handle.IsMetadata: must not matter *)
| OStat (n : N)
| ORemove (n : N)
| OList (fnfail : nat)
| OExpiry (off : bool).      (* harness sets failedLoadExpiry to 1h (false) or below zero (true) *)

(* an operation request: op, budget (retries the backoff policy grants), context already cancelled *)
Record req := mkreq { r_op : op; r_budget : nat; r_cancelled : bool }.

Record obs := mkobs {
  o_res : res;
  o_data : bytes;          (* Load: data of the last consumer call if ROk, else [] *)
  o_size : N;              (* Stat: size if ROk, else 0 *)
  o_names : list N;        (* List: names handed to fn, in order *)
  o_calls : list icall;    (* inner backend calls of this operation, in order *)
  o_reports : nat;         (* Report callbacks *)
  o_succ : option nat;     (* Success callback argument *)
  o_store : store          (* inner store afterwards *)
}.

Definition fin (s : st) (r : res) (data : bytes) (size : N) (names : list N) (tr : list icall)
           (statnotex : bool) (fails : nat) : st * obs :=
  (s, mkobs r data size names (rev tr) (reports_of r statnotex fails) (succ_of r fails) (s_store s)).

Definition last_is_stat_notex (tr : list icall) : bool :=
  match tr with (IStat, _, IErr ENotEx, _) :: _ => true | _ => false end.

Definition run_op (c : cfg) (s : st) (q : req) : st * obs :=
  let b := r_budget q in
  let pa := perm_attempts c in
  match r_op q with
  | OExpiry off => fin (mkst (s_store s) (s_script s) (s_breaker s) off) ROk [] 0%N [] [] false 0
  | OLoad n _ len off =>
      (* circuit breaker first, even with a cancelled context *)
      let tripped := andb (memN n (s_breaker s)) (negb (s_noexpiry s)) in
      let s0 := if andb (memN n (s_breaker s)) (s_noexpiry s)
                then mkst (s_store s) (s_script s) (filter (fun x => negb (N.eqb x n)) (s_breaker s)) (s_noexpiry s)
                else s in
      if tripped then fin s RBreaker [] 0%N [] [] false 0
      else if r_cancelled q then fin s0 RCtx [] 0%N [] [] false 0
      else
        let '(((s1, tr), data), r, fails) := retry_loop _ (att_load n len off) b pa 0 ((s0, []), []) in
        let s2 := match r with
                  | RErr ETrans | RErr EWrap =>
                      if memN n (s_breaker s1) then s1
                      else mkst (s_store s1) (s_script s1) (n :: s_breaker s1) (s_noexpiry s1)
                  | _ => s1
                  end in
        fin s2 r (match r with ROk => data | _ => [] end) 0%N [] tr false fails
  | _ =>
      if r_cancelled q then fin s RCtx [] 0%N [] [] false 0
      else
        match r_op q with
        | OSave n d =>
            let '((s1, tr), r, fails) := retry_loop _ (att_save c n d) b pa 0 (s, []) in
            fin s1 r [] 0%N [] tr false fails
        | ORemove n =>
            let '((s1, tr), r, fails) := retry_loop _ (att_remove n) b pa 0 (s, []) in
            fin s1 r [] 0%N [] tr false fails
        | OStat n =>
            let '(((s1, tr), size), r, fails) := retry_loop _ (att_stat n) b pa 0 ((s, []), 0%N) in
            fin s1 r [] (match r with ROk => size | _ => 0%N end) [] tr (last_is_stat_notex tr) fails
        | OList fnfail =>
            let '(((s1, tr), names), r, fails) := retry_loop _ (att_list fnfail) b pa 0 ((s, []), []) in
            fin s1 r [] 0%N names tr false fails
        | _ => fin s ROk [] 0%N [] [] false 0
        end
  end.

Fixpoint run_ops (c : cfg) (s : st) (qs : list req) : list obs :=
  match qs with
  | [] => []
  | q :: r => let '(s', o) := run_op c s q in o :: run_ops c s' r
  end.

(* ---------- the verified oracle (independent of the retry loop) ---------- *)

Definition ecl_eqb (a b : ecl) : bool :=
  match a, b with
  | ETrans, ETrans | EPerm, EPerm | ENotEx, ENotEx | EWrap, EWrap => true
  | _, _ => false
  end.
Definition res_eqb (a b : res) : bool :=
  match a, b with
  | ROk, ROk | RCtx, RCtx | RBreaker, RBreaker | RFn, RFn | ROther, ROther => true
  | RErr x, RErr y => ecl_eqb x y
  | _, _ => false
  end.
Definition ikind_eqb (a b : ikind) : bool :=
  match a, b with
  | ISave, ISave | IRemove, IRemove | ILoad, ILoad | IStat, IStat | IList, IList => true
  | _, _ => false
  end.
Definition iout_eqb (a b : iout) : bool :=
  match a, b with
  | IOk, IOk | IFn, IFn => true
  | IErr x, IErr y => ecl_eqb x y
  | _, _ => false
  end.
Definition icall_eqb (a b : icall) : bool :=
  let '(k1, n1, o1, e1) := a in
  let '(k2, n2, o2, e2) := b in
  andb (andb (ikind_eqb k1 k2) (N.eqb n1 n2)) (andb (iout_eqb o1 o2) (Bool.eqb e1 e2)).

Definition entry_eqb (a b : N * bytes) : bool := andb (N.eqb (fst a) (fst b)) (bytes_eqb (snd a) (snd b)).
Definition store_eqb (a b : store) : bool := list_eqb entry_eqb a b.

(* [a] and [b] agree on every name except [n] *)
Definition frame_except (n : N) (a b : store) : bool :=
  forallb (fun k => orb (N.eqb k n) (opt_bytes_eqb (sget k a) (sget k b))) (keys a ++ keys b).
Definition same_store (a b : store) : bool :=
  forallb (fun k => opt_bytes_eqb (sget k a) (sget k b)) (keys a ++ keys b).

Fixpoint nodupb (l : list N) : bool :=
  match l with [] => true | x :: r => andb (negb (memN x r)) (nodupb r) end.
Definition subsetb (a b : list N) : bool := forallb (fun x => memN x b) a.

Definition primary (o : op) : ikind :=
  match o with
  | OSave _ _ => ISave | OLoad _ _ _ _ => ILoad | OStat _ => IStat | ORemove _ => IRemove
  | OList _ => IList | OExpiry _ => IList
  end.

Definition primary_calls (o : op) (cs : list icall) : list iout :=
  map (fun c => snd (fst c)) (filter (fun c : icall => ikind_eqb (fst (fst (fst c))) (primary o)) cs).

(* permanent errors are not retried: after a terminal outcome no further primary call *)
Fixpoint perm_ok (isstat : bool) (limit : nat) (cnt : nat) (outs : list iout) : bool :=
  match outs with
  | [] => true
  | o :: r =>
      let cnt' := match o with IErr e => if is_perm e then Datatypes.S cnt else cnt | _ => cnt end in
      let terminal := match o with
                      | IErr EWrap => true
                      | IErr ENotEx => orb isstat (Nat.leb limit cnt')
                      | IErr EPerm => Nat.leb limit cnt'
                      | IFn => true
                      | _ => false
                      end in
      if terminal then match r with [] => true | _ => false end
      else perm_ok isstat limit cnt' r
  end.

Definition last_out (outs : list iout) : option iout :=
  match rev outs with [] => None | o :: _ => Some o end.

Definition isstat (o : op) : bool := match o with OStat _ => true | _ => false end.

(* the code for one operation; [sb] = inner store before it *)
Definition check_op (c : cfg) (sb : store) (q : req) (o : obs) : nat :=
  let sa := o_store o in
  let outs := primary_calls (r_op q) (o_calls o) in
  let ok_res := match o_res o with ROk => true | _ => false end in
  (* 6: Ok only if the last attempt succeeded *)
  if andb ok_res (match r_op q with OExpiry _ => false | _ => true end)
     && negb (match last_out outs with Some IOk => true | _ => false end) then 6
  else if negb (perm_ok (isstat (r_op q)) (perm_attempts c) 0 outs) then 5
  else
  match r_op q with
  | OSave n d =>
      if negb (frame_except n sb sa) then 2
      else if ok_res then (if opt_bytes_eqb (sget n sa) (Some d) then 0 else 2)
      else
        match sget n sa with
        | None => 0
        | Some x => if orb (bytes_eqb x d) (opt_bytes_eqb (Some x) (sget n sb)) then 0 else 4
        end
  | ORemove n =>
      if negb (frame_except n sb sa) then 2
      else if ok_res then (match sget n sa with None => 0 | Some _ => 2 end)
      else (match sget n sa with
            | None => 0
            | Some x => if opt_bytes_eqb (Some x) (sget n sb) then 0 else 2
            end)
  | OLoad n _ len off =>
      if negb (same_store sb sa) then 2
      else if ok_res then
        (match sget n sb with
         | Some d => if bytes_eqb (o_data o) (slice d len off) then 0 else 2
         | None => 2
         end)
      else 0
  | OStat n =>
      if negb (same_store sb sa) then 2
      else if ok_res then
        (match sget n sb with
         | Some d => if N.eqb (o_size o) (N.of_nat (length d)) then 0 else 2
         | None => 2
         end)
      else 0
  | OList _ =>
      if negb (same_store sb sa) then 2
      else if negb (nodupb (o_names o)) then 3
      else if negb (subsetb (o_names o) (keys sb)) then 3
      else if andb ok_res (negb (subsetb (keys sb) (o_names o))) then 3
      else 0
  | OExpiry _ => if same_store sb sa then 0 else 2
  end.

Definition obs_eqb (a b : obs) : bool :=
  res_eqb (o_res a) (o_res b) && bytes_eqb (o_data a) (o_data b) && N.eqb (o_size a) (o_size b)
  && list_eqb N.eqb (o_names a) (o_names b) && list_eqb icall_eqb (o_calls a) (o_calls b)
  && Nat.eqb (o_reports a) (o_reports b) && option_eqb Nat.eqb (o_succ a) (o_succ b)
  && store_eqb (o_store a) (o_store b).

(* ---------- context cancelled during the back-off sleep ---------- *)
(* backoff.RetryNotify: after a failed, non-final attempt it notifies, starts the timer and waits for the
   timer or ctx.Done(); on cancellation it returns ctx.Err() and the final Report is suppressed.  An
   operation whose context is cancelled during the sleep after [r_budget] retries behaves exactly like the
   same operation stopped by the budget, except that the caller sees the context error, and Load does
   not record the file in the circuit breaker (ctx.Err() != nil). *)
Fixpoint count_perm (outs : list iout) : nat :=
  match outs with
  | [] => 0
  | IErr e :: r => (if is_perm e then 1 else 0) + count_perm r
  | _ :: r => count_perm r
  end.

Definition nonterminal_err (c : cfg) (q : req) (o : obs) : bool :=
  match o_res o with
  | RErr e =>
      negb (orb (match e with EWrap => true | _ => false end)
                (orb (andb (is_perm e) (Nat.leb (perm_attempts c) (count_perm (primary_calls (r_op q) (o_calls o)))))
                     (andb (isstat (r_op q)) (match e with ENotEx => true | _ => false end))))
  | _ => false
  end.

Definition run_op_c (c : cfg) (s : st) (qz : req * bool) : st * obs :=
  let '(q, cz) := qz in
  let '(s', o) := run_op c s q in
  if andb cz (nonterminal_err c q o) then
    (match r_op q with
     | OLoad n _ _ _ => mkst (s_store s') (s_script s') (filter (fun x => negb (N.eqb x n)) (s_breaker s')) (s_noexpiry s')
     | _ => s'
     end,
     mkobs RCtx (o_data o) (o_size o) (o_names o) (o_calls o) (o_reports o) (o_succ o) (o_store o))
  else (s', o).

Fixpoint run_ops_c (c : cfg) (s : st) (qs : list (req * bool)) : list obs :=
  match qs with
  | [] => []
  | q :: r => let '(s', o) := run_op_c c s q in o :: run_ops_c c s' r
  end.

Fixpoint zipb (qs : list req) (zs : list bool) : list (req * bool) :=
  match qs, zs with
  | q :: qr, z :: zr => (q, z) :: zipb qr zr
  | q :: qr, [] => (q, false) :: zipb qr []
  | [], _ => []
  end.

Record case := mk {
  c_cfg : cfg;
  c_store : store;
  c_script : list fault;
  c_reqs : list req;
  c_obs : list obs;
  c_sleepcancel : list bool   (* per request: the context is cancelled during the sleep after r_budget retries *)
}.

(* first non-zero oracle code along the sequence (stores threaded from the observations) *)
Fixpoint check_seq (c : cfg) (sb : store) (qs : list req) (os : list obs) : nat :=
  match qs, os with
  | [], [] => 0
  | q :: qr, o :: or =>
      match check_op c sb q o with
      | O => check_seq c (o_store o) qr or
      | n => n
      end
  | _, _ => 2
  end.

Definition check_C35 (c : case) : bool :=
  Nat.eqb (check_seq (c_cfg c) (c_store c) (c_reqs c) (c_obs c)) 0.

Definition check_case (c : case) : nat :=
  match check_seq (c_cfg c) (c_store c) (c_reqs c) (c_obs c) with
  | O =>
      if list_eqb obs_eqb (c_obs c)
           (run_ops_c (c_cfg c) (mkst (c_store c) (c_script c) [] false) (zipb (c_reqs c) (c_sleepcancel c)))
      then 0 else 1
  | n => n
  end.

End C35m.
