(* C13: lock refresh and expiry monitoring (internal/repository/lock.go: refreshLocks,
   monitorLockRefresh, tryRefreshStaleLock, unlocker; lock_file.go: refresh, refreshStaleLock).
   Executable model only.  Time is in ms (Z).

   The timed model has the two goroutines of a lock holder:
   - refresher: on its ticker, if now - lastRefresh <= R (lastRefresh = timestamp of the current lock
     file) it runs a regular refresh (RStart .. REndOk/REndFail); success is reported to the monitor
     over the unbuffered channel `refreshed`; on request it runs a forced refresh (FStart ..
     ForcedOk/ForcedFail, backend frozen);
   - monitor: polls every `poll`; when now - mon >= R (mon = time of the last report) and no request
     is outstanding it sends a forced-refresh request over the unbuffered channel `forceRefresh`
     (pending = Some t); failure of the forced refresh cancels the context.
   A regular refresh that ends successfully while the monitor is blocked sending its request blocks
   the refresher on `refreshed`: neither goroutine proceeds any more (stuck) -- that was the code before
   the fix of F-C13-1 (cfg.patched = false).  cfg.patched = true is the code as it is now: the monitor
   also receives `refreshed` while it waits to send, takes the report and withdraws its request.

   check_case codes: 0 ok; 1 the observed timeline is not a run of the model / final state differs;
   2 context alive while the newest own lock file is older than R + poll + 3D (D = longest observed
   operation); 3 holder alive without any own lock file although nobody removed it; 4 own lock file
   left behind after the holder finished; 5 lock file removed by others, forced refresh ran, but the
   context was not cancelled before the backend was unfrozen; 6 a forced refresh reported success
   (context alive when the backend was unfrozen) although the holder owns no lock file; 7 a forced refresh reported success although
   the holder's old lock file had been removed before the second existence check; 8 a regular refresh
   was started although the last successfully written lock was older than R. *)
From Restic Require Import Base.Prelude.

Module C13m.
Local Open Scope Z_scope.

Record cfg := mkCfg { R : Z; poll : Z; D : Z; patched : bool }.

Record st := mkSt {
  now : Z; ftime : Z; mon : Z; lasttick : Z;
  pending : option Z; rbusy : option Z; fstart : option Z;
  stuck : bool; alive : bool }.

Inductive ev :=
| Tick (t : Z) | RStart (t : Z) | REndFail (t : Z) | REndOk (t : Z)
| FStart (t : Z) | ForcedOk (t tc : Z) | ForcedFail (t : Z) | Cancel (t : Z).

Definition ev_time (e : ev) : Z :=
  match e with
  | Tick t | RStart t | REndFail t | REndOk t | FStart t | ForcedOk t _ | ForcedFail t | Cancel t => t
  end.

Definition isSome {A} (o : option A) : bool := match o with Some _ => true | None => false end.

(* timing assumptions: time moves forward; the poll ticker is never late; a regular or forced refresh
   takes at most D; an idle refresher takes up an outstanding request at once *)
Definition timing_ok (c : cfg) (s : st) (t : Z) : bool :=
  (now s <=? t) && (t <=? lasttick s + poll c) &&
  (match rbusy s with Some tc => t <=? tc + D c | None => true end) &&
  (match fstart s with Some tf => t <=? tf + D c | None => true end) &&
  (if isSome (pending s) && negb (isSome (rbusy s)) && negb (isSome (fstart s)) && negb (stuck s)
   then t =? now s else true).

Definition set_now (s : st) (t : Z) : st :=
  mkSt t (ftime s) (mon s) (lasttick s) (pending s) (rbusy s) (fstart s) (stuck s) (alive s).

Definition step (c : cfg) (s : st) (e : ev) : option st :=
  if negb (alive s && timing_ok c s (ev_time e)) then None else
  match e with
  | Tick t =>
      Some (mkSt t (ftime s) (mon s) t
              (match pending s with
               | None => if R c <=? t - mon s then Some t else None
               | p => p end)
              (rbusy s) (fstart s) (stuck s) true)
  | RStart t =>
      if isSome (rbusy s) || isSome (fstart s) || stuck s || negb (t - ftime s <=? R c) then None
      else Some (mkSt t (ftime s) (mon s) (lasttick s) (pending s) (Some t) None (stuck s) true)
  | REndFail t =>
      match rbusy s with
      | Some _ => Some (mkSt t (ftime s) (mon s) (lasttick s) (pending s) None (fstart s) (stuck s) true)
      | None => None
      end
  | REndOk t =>
      match rbusy s with
      | Some tc =>
          match pending s with
          | None => Some (mkSt t tc t (lasttick s) None None (fstart s) (stuck s) true)
          | Some tp =>
              if patched c then Some (mkSt t tc t (lasttick s) None None (fstart s) (stuck s) true)
              else Some (mkSt t tc (mon s) (lasttick s) (Some tp) None (fstart s) true true)
          end
      | None => None
      end
  | FStart t =>
      match pending s with
      | Some _ =>
          if isSome (rbusy s) || isSome (fstart s) || stuck s then None
          else Some (mkSt t (ftime s) (mon s) (lasttick s) (pending s) None (Some t) false true)
      | None => None
      end
  | ForcedOk t tc =>
      match fstart s with
      | Some tf => if (tf <=? tc) && (tc <=? t)
                   then Some (mkSt t tc t (lasttick s) None (rbusy s) None (stuck s) true) else None
      | None => None
      end
  | ForcedFail t =>
      match fstart s with
      | Some _ => Some (mkSt t (ftime s) (mon s) (lasttick s) (pending s) (rbusy s) (fstart s) (stuck s) false)
      | None => None
      end
  | Cancel t => Some (mkSt t (ftime s) (mon s) (lasttick s) (pending s) (rbusy s) (fstart s) (stuck s) false)
  end.

Fixpoint run (c : cfg) (s : st) (tr : list ev) : option st :=
  match tr with
  | [] => Some s
  | e :: r => match step c s e with Some s' => run c s' r | None => None end
  end.

(* n ideal poll ticks (1 s apart) after time a *)
Definition ticks (a : Z) (n : nat) : list ev := map (fun k => Tick (a + 1000 * Z.of_nat k)) (seq 1 n).

(* the holder right after Lock returned: the lock file carries the time newLock started (acq ms ago) *)
Definition init (acq : Z) : st := mkSt 0 (- acq) 0 0 None None None false true.

Definition bound (c : cfg) : Z := R c + poll c + 3 * D c.

(* the expiry poll interval of monitorLockRefresh *)
Definition poll_of (interval : Z) : Z := if interval <? 1000 then interval / 5 else 1000.

(* ---- tryRefreshStaleLock / refreshStaleLock as an operation sequence ---- *)
Inductive op := OFreeze | OList | OSave | OWait | ORemoveNew | ORemoveOld | OCancel | OUnfreeze.

(* ex1: own lock file listed before; saveok: replacement saved; ex2: own (old) lock file still
   listed after the wait.  (list errors behave like "not there" for the outcome: failure) *)
Definition forced (ex1 saveok ex2 : bool) : list op * bool :=
  if negb ex1 then ([OFreeze; OList; OCancel; OUnfreeze], false)
  else if negb saveok then ([OFreeze; OList; OSave; OCancel; OUnfreeze], false)
  else if negb ex2 then ([OFreeze; OList; OSave; OWait; OList; ORemoveNew; OCancel; OUnfreeze], false)
  else ([OFreeze; OList; OSave; OWait; OList; ORemoveOld; OUnfreeze], true).

(* a regular refresh *)
Definition regular (saveok : bool) : list op := if saveok then [OSave; ORemoveOld] else [OSave].

(* own lock files (old, new) present after each operation, starting with (old_present, false) *)
Definition apply_op (saveok : bool) (d : bool * bool) (o : op) : bool * bool :=
  match o with
  | OSave => (fst d, saveok)
  | ORemoveNew => (fst d, false)
  | ORemoveOld => (false, snd d)
  | _ => d
  end.

Fixpoint states (saveok : bool) (d : bool * bool) (l : list op) : list (bool * bool) :=
  match l with [] => [] | o :: r => let d' := apply_op saveok d o in d' :: states saveok d' r end.

Fixpoint before (a b : op -> bool) (l : list op) : bool :=   (* some a occurs, and before every b *)
  match l with
  | [] => false
  | o :: r => if a o then true else if b o then false else before a b r
  end.

Definition is_cancel (o : op) := match o with OCancel => true | _ => false end.
Definition is_unfreeze (o : op) := match o with OUnfreeze => true | _ => false end.

(* ---- cases ---- *)
(* one observed sample: time, context alive, timestamp of the newest own lock file present (None: no own
   file), whether somebody else removed lock files before this instant *)
Record sample := mkSample { s_t : Z; s_alive : bool; s_newest : option Z; s_extrem : bool }.

Record case := mkCase {
  c_cfg : cfg;                 (* R, poll from the running code; D = longest observed operation *)
  c_acq : Z;
  c_trace : list ev;           (* the observed timeline as model events, ideal poll ticks merged in *)
  c_alive_end : bool;          (* context alive at the end of the trace *)
  c_samples : list sample;
  c_left_behind : Z;           (* own lock files present after the holder finished *)
  c_forced_after_removal : list bool; (* per forced refresh that ran after an external removal:
                                         context cancelled before Unfreeze *)
  c_forced_ok_has_file : list bool;   (* per forced refresh that reported success (context alive at Unfreeze):
                                         the holder owns a lock file at that moment *)
  c_forced_ok_old_existed : list bool; (* ... and its OLD lock file was still there at both existence checks *)
  c_regular_in_time : list bool        (* per regular refresh started: the last SUCCESSFULLY written lock was
                                          not older than R at that moment (older locks go through the forced
                                          refresh with its existence checks) *)
}.

Definition sample_fresh (c : cfg) (x : sample) : bool :=
  if s_alive x then match s_newest x with Some f => s_t x - f <? bound c | None => true end else true.

Definition sample_has_file (x : sample) : bool :=
  if s_alive x && negb (s_extrem x) then isSome (s_newest x) else true.

Definition check_C13 (k : case) : bool :=
  forallb (sample_fresh (c_cfg k)) (c_samples k) &&
  forallb sample_has_file (c_samples k) &&
  (c_left_behind k =? 0) &&
  forallb (fun b => b) (c_forced_after_removal k) &&
  forallb (fun b => b) (c_forced_ok_has_file k) &&
  forallb (fun b => b) (c_forced_ok_old_existed k) &&
  forallb (fun b => b) (c_regular_in_time k).

Definition check_case (k : case) : nat :=
  if negb (forallb (sample_fresh (c_cfg k)) (c_samples k)) then 2
  else if negb (forallb sample_has_file (c_samples k)) then 3
  else if negb (c_left_behind k =? 0) then 4
  else if negb (forallb (fun b => b) (c_forced_after_removal k)) then 5
  else if negb (forallb (fun b => b) (c_forced_ok_has_file k)) then 6
  else if negb (forallb (fun b => b) (c_forced_ok_old_existed k)) then 7
  else if negb (forallb (fun b => b) (c_regular_in_time k)) then 8
  else match run (c_cfg k) (init (c_acq k)) (c_trace k) with
       | None => 1
       | Some s => if Bool.eqb (alive s) (c_alive_end k) then 0 else 1
       end.

End C13m.
