(* C03: corruption of stored files is reported by `check --read-data` and never silently used.
   Model of cmd/restic/cmd_check.go:runCheck (stage order, early exit after index errors),
   internal/repository/checker.go: Checker.LoadIndex / Packs / ReadPacks / checkPackInner,
   internal/checker/checker.go: Structure / checkTree, and repository.LoadBlob's candidate loop.
   Executable model only.

   Stored bytes are abstracted by *states relative to the original repository*: a file is Intact
   (same bytes), Gone, or Bad (different bytes).  "Different bytes have a different SHA-256 / fail
   the MAC" is the cryptographic assumption built into the meaning of Bad (see [wf_tamper]). *)
From Restic Require Import Base.Prelude.

Module C03m.
Open Scope N_scope.

Definition id := N.

(* the original (untampered) repository as restic wrote it *)
Record pack := Pk { pk_id : id; pk_size : N; pk_blobs : list id }.
Record idxf := Ix { ix_id : id; ix_packs : list id }.      (* index file: lists these packs completely *)
Record snap := Sn { sn_id : id; sn_trees : list id; sn_data : list id }.   (* reachable tree / data blobs *)
Record repo := Rp { r_packs : list pack; r_idx : list idxf; r_snaps : list snap }.

(* state of a pack file now: Bad (current size) (blobs whose stored bytes changed or were cut off)
   (first min(size,original size) bytes unchanged?) *)
Inductive pstate := PIntact | PGone | PBad (size : N) (damaged : list id) (prefix_ok : bool).
Inductive ustate := UIntact | UGone | UBad.
Record tamper := Tm { t_packs : list (id * pstate); t_idx : list (id * ustate); t_snaps : list (id * ustate);
                      t_open_bad : bool (* key or config damaged: the repository cannot be opened *) }.

Definition inl (x : N) (l : list N) : bool := existsb (N.eqb x) l.

Fixpoint pst (l : list (id * pstate)) (p : id) : pstate :=
  match l with [] => PIntact | (q, s) :: r => if q =? p then s else pst r p end.
Fixpoint ust (l : list (id * ustate)) (p : id) : ustate :=
  match l with [] => UIntact | (q, s) :: r => if q =? p then s else ust r p end.

Fixpoint find_pack (l : list pack) (p : id) : option pack :=
  match l with [] => None | k :: r => if pk_id k =? p then Some k else find_pack r p end.

Inductive err :=
  | EOpen | EIndex (i : id) | EMissing (p : id) | ESize (p : id) | EPackData (p : id)
  | ESnap (s : id) | ENotInIndex (s h : id) | ETree (s h : id).

Definition is_ubad (s : ustate) : bool := match s with UBad => true | _ => false end.
Definition is_uintact (s : ustate) : bool := match s with UIntact => true | _ => false end.

(* Checker.LoadIndex: every index file that is present but cannot be loaded is an error *)
Definition index_errs (R : repo) (t : tamper) : list err :=
  flat_map (fun f => if is_ubad (ust (t_idx t) (ix_id f)) then [EIndex (ix_id f)] else []) (r_idx R).

(* packs known to the loaded master index *)
Definition mem_packs (R : repo) (t : tamper) : list pack :=
  flat_map (fun f => if is_uintact (ust (t_idx t) (ix_id f))
                     then flat_map (fun p => match find_pack (r_packs R) p with Some k => [k] | None => [] end) (ix_packs f)
                     else []) (r_idx R).

(* Checker.Packs: missing packs and size mismatches are errors (orphaned packs are not) *)
Definition packs_errs (R : repo) (t : tamper) : list err :=
  flat_map (fun k => match pst (t_packs t) (pk_id k) with
                     | PGone => [EMissing (pk_id k)]
                     | PBad sz _ _ => if sz =? pk_size k then [] else [ESize (pk_id k)]
                     | PIntact => []
                     end) (mem_packs R t).

(* ReadPacks / checkPackInner on the first [pk_size] bytes: short read, blob errors or hash mismatch *)
Definition pack_data_bad (k : pack) (s : pstate) : bool :=
  match s with
  | PIntact => false
  | PGone => true
  | PBad sz _ ok => (sz <? pk_size k) || negb ok
  end.
Definition read_errs (R : repo) (t : tamper) : list err :=
  flat_map (fun k => if pack_data_bad k (pst (t_packs t) (pk_id k)) then [EPackData (pk_id k)] else []) (mem_packs R t).

Definition in_index (R : repo) (t : tamper) (h : id) : bool :=
  existsb (fun k => inl h (pk_blobs k)) (mem_packs R t).

(* LoadBlob: some indexed copy whose bytes are still there and unchanged *)
Definition copy_ok (s : pstate) (h : id) : bool :=
  match s with PIntact => true | PGone => false | PBad _ d _ => negb (inl h d) end.
Definition loadable (R : repo) (t : tamper) (h : id) : bool :=
  existsb (fun k => inl h (pk_blobs k) && copy_ok (pst (t_packs t) (pk_id k)) h) (mem_packs R t).

(* Checker.Structure for the snapshots that are still listed *)
Definition snap_errs (R : repo) (t : tamper) (s : snap) : list err :=
  match ust (t_snaps t) (sn_id s) with
  | UGone => []
  | UBad => [ESnap (sn_id s)]
  | UIntact =>
      flat_map (fun h => if loadable R t h then [] else [ETree (sn_id s) h]) (sn_trees s) ++
      flat_map (fun h => if in_index R t h then [] else [ENotInIndex (sn_id s) h]) (sn_data s)
  end.
Definition structure_errs (R : repo) (t : tamper) : list err := flat_map (snap_errs R t) (r_snaps R).

(* runCheck with --read-data: stops after index load errors *)
Definition check (R : repo) (t : tamper) : list err :=
  if t_open_bad t then [EOpen]
  else match index_errs R t with
       | [] => packs_errs R t ++ structure_errs R t ++ read_errs R t
       | es => es
       end.

(* restore of one snapshot succeeds iff everything it needs can be loaded *)
Definition restore_ok (R : repo) (t : tamper) (s : snap) : bool :=
  negb (t_open_bad t) &&
  match index_errs R t with [] => true | _ => false end &&
  is_uintact (ust (t_snaps t) (sn_id s)) &&
  forallb (loadable R t) (sn_trees s ++ sn_data s).

(* ---- the property, declaratively: when must check complain? ---- *)
Definition pintact (s : pstate) : bool := match s with PIntact => true | _ => false end.
Definition must_report (R : repo) (t : tamper) : bool :=
  t_open_bad t
  || existsb (fun f => is_ubad (ust (t_idx t) (ix_id f))) (r_idx R)
  || existsb (fun k => negb (pintact (pst (t_packs t) (pk_id k)))) (mem_packs R t)
  || existsb (fun s => is_ubad (ust (t_snaps t) (sn_id s))) (r_snaps R)
  || existsb (fun s => is_uintact (ust (t_snaps t) (sn_id s)) &&
                       negb (forallb (in_index R t) (sn_trees s ++ sn_data s))) (r_snaps R).

(* the tamper description is consistent with "changed bytes change the hash":
   a Bad pack of unchanged size has a changed prefix; damaged blobs imply a changed or shortened file *)
Definition wf_pstate (k : pack) (s : pstate) : bool :=
  match s with
  | PBad sz d ok => (negb (sz =? pk_size k) || negb ok) && (match d with [] => true | _ => (sz <? pk_size k) || negb ok end)
  | _ => true
  end.
Definition wf_tamper (R : repo) (t : tamper) : bool :=
  forallb (fun k => wf_pstate k (pst (t_packs t) (pk_id k))) (r_packs R).

(* error classes compared with the implementation: 0 open, 1 index, 2 pack missing/size, 3 pack data,
   4 snapshot, 5 tree / blob not in index *)
Definition cls (e : err) : N :=
  match e with
  | EOpen => 0 | EIndex _ => 1 | EMissing _ | ESize _ => 2 | EPackData _ => 3 | ESnap _ => 4
  | ENotInIndex _ _ | ETree _ _ => 5
  end.
Definition subset_n (a b : list N) : bool := forallb (fun x => inl x b) a.
Definition set_eqb_n (a b : list N) : bool := subset_n a b && subset_n b a.

(* ---- LoadBlob with real bytes: every candidate is decrypted, decompressed and hash-verified ---- *)
Section LoadBlob.
  Variable H : bytes -> N.                      (* SHA-256 of the plaintext *)
  Variable open_ : bytes -> option bytes.      (* nonce || ciphertext || MAC  ->  plaintext (Key.Open) *)
  Variable unz : bytes -> option bytes.        (* zstd decoder *)
  (* candidate = (bytes read from the pack at the indexed position (None: read failed), compressed?) *)
  Definition try_copy (h : N) (c : option bytes * bool) : option bytes :=
    match fst c with
    | None => None
    | Some ct =>
        match open_ ct with
        | None => None
        | Some pt =>
            let r := if snd c then unz pt else Some pt in
            match r with
            | Some b => if H b =? h then Some b else None
            | None => None
            end
        end
    end.
  Fixpoint load_blob (h : N) (cands : list (option bytes * bool)) : option bytes :=
    match cands with
    | [] => None
    | c :: r => match try_copy h c with Some b => Some b | None => load_blob h r end
    end.
End LoadBlob.

(* ---- observation of one tampered repository ---- *)
Record case := mk {
  c_repo : repo;
  c_t : tamper;
  c_check_failed : bool;                 (* `restic check --read-data` exit status != 0 *)
  c_classes : list N;                    (* classes of the errors the checker stages returned *)
  c_loads : list (id * N);               (* LoadBlob per needed blob: 0 original bytes, 1 error, 2 other bytes *)
  c_restores : list (id * (bool * bool)); (* restore per snapshot: (exit status ok, all files identical) *)
  c_reads : list (list id * N)           (* mounted-file reads (fuse openFile.Read) spanning these blobs:
                                            0 all requested bytes, original; 1 error; 2 success with other or fewer bytes *)
}.

Fixpoint find_snap (l : list snap) (s : id) : option snap :=
  match l with [] => None | k :: r => if sn_id k =? s then Some k else find_snap r s end.

Definition clause_reported (c : case) : bool :=
  if wf_tamper (c_repo c) (c_t c) && must_report (c_repo c) (c_t c) then c_check_failed c else true.
Definition clause_no_wrong_bytes (c : case) : bool :=
  forallb (fun x => negb (snd x =? 2)) (c_loads c) &&
  forallb (fun x => implb (fst (snd x)) (snd (snd x))) (c_restores c) &&
  forallb (fun x => negb (snd x =? 2)) (c_reads c).
Definition check_C03 (c : case) : bool := clause_reported c && clause_no_wrong_bytes c.

Definition bool_eqb (a b : bool) : bool := if a then b else negb b.
Definition model_loads_agree (c : case) : bool :=
  forallb (fun x => bool_eqb ((snd x =? 0) || (snd x =? 2))
                      (negb (t_open_bad (c_t c)) && match index_errs (c_repo c) (c_t c) with [] => true | _ => false end
                       && loadable (c_repo c) (c_t c) (fst x))) (c_loads c).
Definition model_restores_agree (c : case) : bool :=
  forallb (fun x => match find_snap (r_snaps (c_repo c)) (fst x) with
                    | Some s => bool_eqb (fst (snd x)) (restore_ok (c_repo c) (c_t c) s)
                    | None => false
                    end) (c_restores c).

(* a read of a mounted file succeeds iff the file can be opened and every blob it spans can be loaded *)
Definition read_ok (R : repo) (t : tamper) (bs : list id) : bool :=
  negb (t_open_bad t) && match index_errs R t with [] => true | _ => false end && forallb (loadable R t) bs.
Definition model_reads_agree (c : case) : bool :=
  forallb (fun x => bool_eqb (snd x =? 0) (read_ok (c_repo c) (c_t c) (fst x)) || (snd x =? 2)) (c_reads c).

(* codes: 0 ok; 1 model <> implementation (check verdict without tampering obligation, error classes,
   which blobs load, which restores succeed); 2 tampering of needed data not reported by check;
   3 wrong bytes delivered (LoadBlob returned other bytes / restore succeeded with different content /
   a mounted-file read succeeded with other or fewer bytes) *)
Definition check_case (c : case) : nat :=
  if negb (clause_reported c) then 2%nat
  else if negb (clause_no_wrong_bytes c) then 3%nat
  else if negb (wf_tamper (c_repo c) (c_t c)) then 1%nat
  else if negb (bool_eqb (c_check_failed c) (match check (c_repo c) (c_t c) with [] => false | _ => true end)) then 1%nat
  else if negb (set_eqb_n (c_classes c) (map cls (check (c_repo c) (c_t c)))) then 1%nat
  else if negb (model_loads_agree c) then 1%nat
  else if negb (model_restores_agree c) then 1%nat
  else if negb (model_reads_agree c) then 1%nat
  else 0%nat.

End C03m.
