(* C22: retention policies (data.ApplyPolicy).  Executable model only.

   Modelled Go code (current /repo, internal/data/snapshot_policy.go, snapshot.go):
     Snapshots.Less + sort.Stable (newest first, ties keep input order), findLatestTimestamp
     (future snapshots ignored; zero time when none), the bucket key functions
     always / ymdh / ymd / yw / ym / y (civil date, ISO week, in the snapshot's own zone offset),
     time.AddDate normalisation + Add(-hours) for the `within` thresholds (fixed-offset zones),
     Snapshot.HasTags (with its empty-tag early return), and the ApplyPolicy loop itself:
     per snapshot the tag lists, `within`, the six counted buckets (Count>0 or -1, Last = -1 at
     the start, "oldest" rule nr = len-1, decrement), the five within-buckets; reasons; counters.
   A time is (unix seconds, nanoseconds, zone offset in seconds).

   check_case codes: 0 ok; 1 model <> implementation (oracle holds);
     2 keep/remove is not the partition the documented rules demand (verified oracle false);
     3 the list was not sorted newest-first / not a permutation of the input;
     4 reasons missing or empty for a kept snapshot / counts differ from |keep|. *)
From Restic Require Import Base.Prelude.

Module C22m.
Open Scope Z_scope.

Definition tag := bytes.
Record tm := mkTm { t_sec : Z; t_nsec : Z; t_off : Z }.
Record snap := mkSn { sn_id : N; sn_time : tm; sn_tags : list tag }.

Definition inst (t : tm) : Z := t_sec t * 1000000000 + t_nsec t.
Definition after (a b : tm) : bool := inst a >? inst b.
Definition before (a b : tm) : bool := inst a <? inst b.

(* ---- sort.Stable(list) with Less(i,j) = list[i].Time.After(list[j].Time) ---- *)
Fixpoint insert (x : snap) (l : list snap) : list snap :=
  match l with
  | [] => [x]
  | y :: l' => if after (sn_time y) (sn_time x) then y :: insert x l' else x :: l
  end.
Definition sort (l : list snap) : list snap := fold_right insert [] l.

(* ---- calendar (proleptic Gregorian, days since 1970-01-01) ---- *)
Definition civil (days : Z) : Z * Z * Z :=
  let z := days + 719468 in
  let era := z / 146097 in
  let doe := z - era * 146097 in
  let yoe := (doe - doe / 1460 + doe / 36524 - doe / 146096) / 365 in
  let y := yoe + era * 400 in
  let doy := doe - (365 * yoe + yoe / 4 - yoe / 100) in
  let mp := (5 * doy + 2) / 153 in
  let d := doy - (153 * mp + 2) / 5 + 1 in
  let m := if mp <? 10 then mp + 3 else mp - 9 in
  ((if m <=? 2 then y + 1 else y), m, d).

Definition days_from_civil (y m d : Z) : Z :=
  let y' := if m <=? 2 then y - 1 else y in
  let era := y' / 400 in
  let yoe := y' - era * 400 in
  let doy := (153 * (if m >? 2 then m - 3 else m + 9) + 2) / 5 + d - 1 in
  let doe := yoe * 365 + yoe / 4 - yoe / 100 + doy in
  era * 146097 + doe - 719468.

Definition local_secs (t : tm) : Z := t_sec t + t_off t.
Definition local_days (t : tm) : Z := local_secs t / 86400.
Definition local_sod (t : tm) : Z := local_secs t mod 86400.

Definition year_of (t : tm) : Z := fst (fst (civil (local_days t))).
Definition month_of (t : tm) : Z := snd (fst (civil (local_days t))).
Definition day_of (t : tm) : Z := snd (civil (local_days t)).
Definition hour_of (t : tm) : Z := local_sod t / 3600.

(* time.Time.ISOWeek: the year and week of the Thursday of the Monday-based week *)
Definition iso_week (t : tm) : Z * Z :=
  let days := local_days t in
  let wd := (days + 4) mod 7 in            (* 0 = Sunday; 1970-01-01 was a Thursday *)
  let d := if 4 - wd =? 4 then -3 else 4 - wd in
  let th := days + d in
  let y := fst (fst (civil th)) in
  let yday := th - days_from_civil y 1 1 in
  (y, yday / 7 + 1).

(* bucket keys; index 0 = always (the position), 1 ymdh, 2 ymd, 3 yw, 4 ym, 5 y *)
Definition key (k : nat) (t : tm) (nr : Z) : Z :=
  match k with
  | 0%nat => nr
  | 1%nat => year_of t * 1000000 + month_of t * 10000 + day_of t * 100 + hour_of t
  | 2%nat => year_of t * 10000 + month_of t * 100 + day_of t
  | 3%nat => let '(y, w) := iso_week t in y * 100 + w
  | 4%nat => year_of t * 100 + month_of t
  | _ => year_of t
  end.

(* ---- durations and thresholds ---- *)
Record dur := mkDur { d_hours : Z; d_days : Z; d_months : Z; d_years : Z }.
Definition dur_zero (d : dur) : bool :=
  (d_years d =? 0) && (d_months d =? 0) && (d_days d =? 0) && (d_hours d =? 0).

(* t.AddDate(years, months, days): time.Date normalises month overflow into years, then
   counts days from the first of that month; clock and zone offset stay *)
Definition add_date (t : tm) (years months days : Z) : tm :=
  let y := year_of t + years in
  let m0 := month_of t - 1 + months in
  let y' := y + m0 / 12 in
  let m' := m0 mod 12 + 1 in
  let dd := days_from_civil y' m' 1 + (day_of t + days - 1) in
  mkTm (dd * 86400 + local_sod t - t_off t) (t_nsec t) (t_off t).

(* latest.AddDate(-Y,-M,-D).Add(-H hours) *)
Definition threshold (latest : tm) (d : dur) : tm :=
  let t := add_date latest (- d_years d) (- d_months d) (- d_days d) in
  mkTm (t_sec t - 3600 * d_hours d) (t_nsec t) (t_off t).

Definition zero_time : tm := mkTm (-62135596800) 0 0.

(* findLatestTimestamp: newest snapshot that is not in the future *)
Fixpoint find_latest_go (now : tm) (l : list snap) (latest : tm) : tm :=
  match l with
  | [] => latest
  | s :: l' =>
      find_latest_go now l'
        (if after (sn_time s) latest && before (sn_time s) now then sn_time s else latest)
  end.
Definition find_latest (now : tm) (l : list snap) : tm := find_latest_go now l zero_time.

(* ---- Snapshot.HasTags ---- *)
Definition is_nil {A} (l : list A) : bool := match l with [] => true | _ => false end.
Definition mem (t : tag) (l : list tag) : bool := existsb (bytes_eqb t) l.
Fixpoint has_tags (tags l : list tag) : bool :=
  match l with
  | [] => true
  | t :: l' => if is_nil t && is_nil tags then true
               else if mem t tags then has_tags tags l' else false
  end.

(* ---- the policy ---- *)
Record policy := mkPol {
  p_counts : list Z;            (* Last Hourly Daily Weekly Monthly Yearly *)
  p_within : dur;
  p_withins : list dur;         (* WithinHourly .. WithinYearly *)
  p_tags : list (list tag) }.

Inductive reason :=
| RTag (i : nat)                          (* "has tags <i-th list>" *)
| RWithin                                 (* "within D" *)
| RBucket (i : nat) (oldest : bool)       (* "[oldest ]last|hourly|... snapshot" *)
| RWBucket (i : nat) (oldest : bool).     (* "[oldest ]hourly|... within D" *)

(* one counted bucket on one snapshot: state (count, last) *)
Definition step_bucket (i : nat) (cur : snap) (nr : Z) (is_last : bool) (st : Z * Z)
  : (Z * Z) * list reason :=
  let '(count, last) := st in
  if (count >? 0) || (count =? -1) then
    let val := key i (sn_time cur) nr in
    if negb (val =? last) || is_last then
      ((if count >? 0 then count - 1 else count, val), [RBucket i ((val =? last) && is_last)])
    else (st, [])
  else (st, []).

(* one within-bucket: state last; bucket index i+1 selects the key function *)
Definition step_wbucket (latest : tm) (i : nat) (d : dur) (cur : snap) (nr : Z) (is_last : bool)
           (last : Z) : Z * list reason :=
  if negb (dur_zero d) then
    if after (sn_time cur) (threshold latest d) then
      let val := key (S i) (sn_time cur) nr in
      if negb (val =? last) || is_last then (val, [RWBucket i ((val =? last) && is_last)])
      else (last, [])
    else (last, [])
  else (last, []).

Fixpoint step_buckets (i : nat) (cur : snap) (nr : Z) (is_last : bool) (sts : list (Z * Z))
  : list (Z * Z) * list reason :=
  match sts with
  | [] => ([], [])
  | st :: r =>
      let '(st', rs) := step_bucket i cur nr is_last st in
      let '(r', rs') := step_buckets (S i) cur nr is_last r in
      (st' :: r', rs ++ rs')
  end.

Fixpoint step_wbuckets (latest : tm) (i : nat) (ds : list dur) (cur : snap) (nr : Z) (is_last : bool)
         (lasts : list Z) : list Z * list reason :=
  match ds, lasts with
  | d :: ds', l :: ls =>
      let '(l', rs) := step_wbucket latest i d cur nr is_last l in
      let '(ls', rs') := step_wbuckets latest (S i) ds' cur nr is_last ls in
      (l' :: ls', rs ++ rs')
  | _, _ => ([], [])
  end.

Fixpoint tag_reasons (i : nat) (cur : snap) (ls : list (list tag)) : list reason :=
  match ls with
  | [] => []
  | l :: r => (if has_tags (sn_tags cur) l then [RTag i] else []) ++ tag_reasons (S i) cur r
  end.

Definition within_reasons (latest : tm) (p : policy) (cur : snap) : list reason :=
  if negb (dur_zero (p_within p)) && after (sn_time cur) (threshold latest (p_within p))
  then [RWithin] else [].

(* per-snapshot result: the reasons (empty = removed) and the counters afterwards *)
Record verdict := mkV { v_snap : snap; v_reasons : list reason; v_counters : list Z }.

Fixpoint loop (latest : tm) (p : policy) (l : list snap) (nr : Z) (sts : list (Z * Z)) (lasts : list Z)
  : list verdict :=
  match l with
  | [] => []
  | cur :: l' =>
      let is_last := is_nil l' in
      let r1 := tag_reasons 0 cur (p_tags p) in
      let r2 := within_reasons latest p cur in
      let '(sts', r3) := step_buckets 0 cur nr is_last sts in
      let '(lasts', r4) := step_wbuckets latest 0 (p_withins p) cur nr is_last lasts in
      mkV cur (r1 ++ r2 ++ r3 ++ r4) (map fst sts') :: loop latest p l' (nr + 1) sts' lasts'
  end.

Definition kept (v : verdict) : bool := negb (is_nil (v_reasons v)).

Definition apply_policy (now : tm) (inp : list snap) (p : policy) : list verdict :=
  let l := sort inp in
  match l with
  | [] => []
  | _ => loop (find_latest now l) p l 0 (map (fun c => (c, -1)) (p_counts p))
              (map (fun _ => -1) (p_withins p))
  end.

(* ------------------------------------------------------------------ declarative rules *)
(* position-wise view of a (sorted) list: is [j] the head of a run of equal keys?
   Last starts at -1, so position 0 is a head iff its key is not -1 *)
Fixpoint keys_from (k : nat) (nr : Z) (l : list snap) : list Z :=
  match l with
  | [] => []
  | s :: r => key k (sn_time s) nr :: keys_from k (nr + 1) r
  end.
Definition keys_of (k : nat) (l : list snap) : list Z := keys_from k 0 l.

Fixpoint heads_go (prev : Z) (ks : list Z) : list bool :=
  match ks with
  | [] => []
  | v :: r => negb (v =? prev) :: heads_go v r
  end.
Definition heads (ks : list Z) : list bool := heads_go (-1) ks.

Definition count_true (l : list bool) : Z := Z.of_nat (length (filter (fun b => b) l)).

(* counted rule: keep-X n keeps position j iff (head j or j is the oldest) and fewer than n
   positions before j were kept by this rule (n = -1: no limit) *)
Fixpoint counted_go (n : Z) (hs : list bool) : list bool :=
  match hs with
  | [] => []
  | h :: r =>
      let k := ((n >? 0) || (n =? -1)) && (h || is_nil r) in
      k :: counted_go (if k && (n >? 0) then n - 1 else n) r
  end.
(* closed form used by the theorems: see C22p.counted_go_spec *)

Definition rule_counted (k : nat) (n : Z) (l : list snap) : list bool := counted_go n (heads (keys_of k l)).

(* heads among the in-window positions only (the others do not touch Last) *)
Fixpoint wheads_go (prev : Z) (ks : list Z) (win : list bool) : list bool :=
  match ks, win with
  | v :: r, w :: wr =>
      if w then negb (v =? prev) :: wheads_go v r wr
      else false :: wheads_go prev r wr
  | _, _ => []
  end.

Fixpoint or_last (hs win : list bool) : list bool :=
  match hs, win with
  | h :: r, w :: wr => (h || (w && is_nil r)) :: or_last r wr
  | _, _ => []
  end.

Definition in_window (latest : tm) (d : dur) (s : snap) : bool :=
  negb (dur_zero d) && after (sn_time s) (threshold latest d).

Definition rule_wbucket (latest : tm) (k : nat) (d : dur) (l : list snap) : list bool :=
  let win := map (in_window latest d) l in
  or_last (wheads_go (-1) (keys_of k l) win) win.

Definition rule_within (latest : tm) (d : dur) (l : list snap) : list bool := map (in_window latest d) l.
Definition rule_tags (ls : list (list tag)) (l : list snap) : list bool :=
  map (fun s => existsb (has_tags (sn_tags s)) ls) l.

Fixpoint orl (a b : list bool) : list bool :=
  match a, b with x :: a', y :: b' => (x || y) :: orl a' b' | _, _ => [] end.

Fixpoint counted_rules (k : nat) (cs : list Z) (l : list snap) : list bool :=
  match cs with
  | [] => map (fun _ => false) l
  | c :: r => orl (rule_counted k c l) (counted_rules (S k) r l)
  end.
Fixpoint wbucket_rules (latest : tm) (k : nat) (ds : list dur) (l : list snap) : list bool :=
  match ds with
  | [] => map (fun _ => false) l
  | d :: r => orl (rule_wbucket latest k d l) (wbucket_rules latest (S k) r l)
  end.

(* the documented keep set of a policy on a newest-first list: union of the single rules *)
Definition spec_keep (latest : tm) (p : policy) (l : list snap) : list bool :=
  orl (rule_tags (p_tags p) l)
   (orl (rule_within latest (p_within p) l)
    (orl (counted_rules 0 (p_counts p) l) (wbucket_rules latest 1 (p_withins p) l))).

(* ------------------------------------------------------------------ cases *)
Fixpoint sorted_desc (l : list snap) : bool :=
  match l with
  | [] => true
  | x :: r => match r with
              | [] => true
              | y :: _ => negb (after (sn_time y) (sn_time x)) && sorted_desc r
              end
  end.

Fixpoint remove_id (i : N) (l : list N) : option (list N) :=
  match l with
  | [] => None
  | x :: r => if N.eqb i x then Some r
              else match remove_id i r with Some r' => Some (x :: r') | None => None end
  end.
Fixpoint perm_ids (a b : list N) : bool :=
  match a with
  | [] => is_nil b
  | x :: a' => match remove_id x b with Some b' => perm_ids a' b' | None => false end
  end.

Definition ids_eqb (a b : list N) : bool := list_eqb N.eqb a b.

Record case := mkCase {
  c_now : tm;
  c_list : list snap;             (* input order *)
  c_pol : policy;
  c_order : list N;               (* ids in the order the implementation left the list in *)
  c_keep : list N;
  c_remove : list N;
  c_reasons : list (list reason); (* per kept snapshot *)
  c_counters : list (list Z) }.   (* per kept snapshot *)

Fixpoint lookup (i : N) (l : list snap) : option snap :=
  match l with
  | [] => None
  | s :: r => if N.eqb (sn_id s) i then Some s else lookup i r
  end.
Fixpoint reorder (ids : list N) (l : list snap) : option (list snap) :=
  match ids with
  | [] => Some []
  | i :: r => match lookup i l, reorder r l with
              | Some s, Some r' => Some (s :: r')
              | _, _ => None
              end
  end.

Fixpoint select (fl : list bool) (l : list snap) (want : bool) : list N :=
  match fl, l with
  | f :: fr, s :: r => if Bool.eqb f want then sn_id s :: select fr r want else select fr r want
  | _, _ => []
  end.

Definition oracle_code (c : case) : nat :=
  if negb (perm_ids (c_order c) (map sn_id (c_list c))) then 3%nat
  else match reorder (c_order c) (c_list c) with
       | None => 3%nat
       | Some l =>
           if negb (sorted_desc l) then 3%nat
           else
             let fl := match l with [] => [] | _ => spec_keep (find_latest (c_now c) l) (c_pol c) l end in
             if negb (ids_eqb (c_keep c) (select fl l true) && ids_eqb (c_remove c) (select fl l false)) then 2%nat
             else if negb ((length (c_reasons c) =? length (c_keep c))%nat
                           && forallb (fun r => negb (is_nil r)) (c_reasons c)) then 4%nat
             else 0%nat
       end.

Definition check_C22 (c : case) : bool := Nat.eqb (oracle_code c) 0.

Definition reason_eqb (a b : reason) : bool :=
  match a, b with
  | RTag i, RTag j => Nat.eqb i j
  | RWithin, RWithin => true
  | RBucket i o, RBucket j o' => Nat.eqb i j && Bool.eqb o o'
  | RWBucket i o, RWBucket j o' => Nat.eqb i j && Bool.eqb o o'
  | _, _ => false
  end.

Definition model_agrees (c : case) : bool :=
  let vs := apply_policy (c_now c) (c_list c) (c_pol c) in
  let ks := filter kept vs in
  ids_eqb (c_order c) (map (fun s => sn_id s) (sort (c_list c)))
  && ids_eqb (c_keep c) (map (fun v => sn_id (v_snap v)) ks)
  && ids_eqb (c_remove c) (map (fun v => sn_id (v_snap v)) (filter (fun v => negb (kept v)) vs))
  && list_eqb (list_eqb reason_eqb) (c_reasons c) (map v_reasons ks)
  && list_eqb (list_eqb Z.eqb) (c_counters c) (map v_counters ks).

Definition check_case (c : case) : nat :=
  match oracle_code c with
  | O => if model_agrees c then 0%nat else 1%nat
  | n => n
  end.

End C22m.
