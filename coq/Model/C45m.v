(* C45: dump (internal/dump/common.go, tar.go, zip.go; walker.Walk as used by sendNodes).
   Executable model only.

   Nodes carry their subtree by value; names are [N] (the harness uses names n%03d); types:
   0 file, 1 dir, 2 symlink, other codes = other node types; [mode] is the Go os.FileMode value.
   [write_node]: the ordered channel of blob futures as a machine (spawn loader / loader
   completes / writer takes the head future); [dump_entries]: sendTrees / sendNodes / walker
   pre-order with the type filter; [tar_entry], [zip_entry]: header mapping.

   check_case codes: 0 ok; 1 model <> implementation while the oracle holds; 2 the sequence of
   entry paths/types is not the pre-order list of file/dir/symlink nodes; 3 an entry's content is
   wrong; 4 an entry's link target is wrong; 5 permission bits wrong; 6 error status wrong. *)
From Restic Require Import Base.Prelude.

Module C45m.

Inductive node :=
  Node (name : N) (ty : N) (mode : N) (content : list N) (link : bytes) (sub : list node).
Definition tree := list node.

Definition nname (n : node) := match n with Node x _ _ _ _ _ => x end.
Definition nty (n : node) := match n with Node _ x _ _ _ _ => x end.
Definition nmode (n : node) := match n with Node _ _ x _ _ _ => x end.
Definition ncontent (n : node) := match n with Node _ _ _ x _ _ => x end.
Definition nlink (n : node) := match n with Node _ _ _ _ x _ => x end.
Definition nsub (n : node) := match n with Node _ _ _ _ _ x => x end.

Definition isfile (n : node) : bool := N.eqb (nty n) 0.
Definition isdir (n : node) : bool := N.eqb (nty n) 1.
Definition issym (n : node) : bool := N.eqb (nty n) 2.
(* "only files, directories and symlinks can be dumped" *)
Definition dumpable (n : node) : bool := isfile n || isdir n || issym n.

(* ---- blob store and the file writer ---- *)
Definition blobs := list (N * bytes).
Fixpoint blob_of (bs : blobs) (i : N) : option bytes :=
  match bs with
  | [] => None
  | (k, v) :: r => if N.eqb k i then Some v else blob_of r i
  end.
Definition bo (bs : blobs) (i : N) : bytes := match blob_of bs i with Some v => v | None => [] end.

Definition file_bytes (bs : blobs) (content : list N) : bytes := concat (map (bo bs) content).
Definition all_present (bs : blobs) (content : list N) : bool :=
  forallb (fun i => match blob_of bs i with Some _ => true | None => false end) content.

(* writeNode: [w_queue] = the channel of futures in send order (id, loaded yet?) *)
Record wstate := mkw { w_rest : list N; w_queue : list (N * bool); w_out : bytes }.
Inductive wev := Spawn | Fill (k : nat) | Write.
Inductive wres := WOk (st : wstate) | WErr | WStuck.

Fixpoint fill (k : nat) (q : list (N * bool)) : option (N * list (N * bool)) :=
  match q, k with
  | [], _ => None
  | (i, b) :: q', O => if b then None else Some (i, (i, true) :: q')
  | x :: q', S k' => match fill k' q' with Some (i, r) => Some (i, x :: r) | None => None end
  end.

Definition wstep (bs : blobs) (st : wstate) (e : wev) : wres :=
  match e with
  | Spawn => match w_rest st with
             | [] => WStuck
             | i :: r => WOk (mkw r (w_queue st ++ [(i, false)]) (w_out st))
             end
  | Fill k => match fill k (w_queue st) with
              | None => WStuck
              | Some (i, q) => match blob_of bs i with
                               | None => WErr          (* LoadBlob fails: the group is cancelled *)
                               | Some _ => WOk (mkw (w_rest st) q (w_out st))
                               end
              end
  | Write => match w_queue st with
             | (i, true) :: q => WOk (mkw (w_rest st) q (w_out st ++ bo bs i))
             | _ => WStuck
             end
  end.

Fixpoint wrun (bs : blobs) (st : wstate) (evs : list wev) : wres :=
  match evs with
  | [] => WOk st
  | e :: r => match wstep bs st e with WOk st' => wrun bs st' r | x => x end
  end.

Definition winit (content : list N) : wstate := mkw content [] [].
Definition wterminal (st : wstate) : Prop := w_rest st = [] /\ w_queue st = [].

(* ---- archive entries ---- *)
(* path, trailing slash, type (0 file, 1 dir, 2 symlink), 12 mode bits, link name, content *)
Record entry := mke { e_path : list N; e_slash : bool; e_ty : N; e_mode : N; e_link : bytes; e_content : bytes }.

(* Go FileMode -> USTAR mode: Perm() | ModeSetuid (1<<23) -> 04000 | ModeSetgid (1<<22) -> 02000
   | ModeSticky (1<<20) -> 01000 *)
Definition mode12 (m : N) : N :=
  (N.land m 511 + (if N.testbit m 23 then 2048 else 0) + (if N.testbit m 22 then 1024 else 0)
   + (if N.testbit m 20 then 512 else 0))%N.

Definition tar_entry (bs : blobs) (p : list N) (n : node) : entry :=
  mke p (isdir n) (nty n) (mode12 (nmode n)) (if issym n then nlink n else []) (file_bytes bs (ncontent n)).

Definition zip_entry (bs : blobs) (p : list N) (n : node) : entry :=
  mke p (isdir n) (nty n) (mode12 (nmode n)) []
      (if issym n then nlink n else file_bytes bs (ncontent n)).

(* walker.walk below a directory: every node is visited in order, directories before their
   children; the dump callback drops the other node types *)
Fixpoint walk_node (prefix : list N) (n : node) : list (list N * node) :=
  let p := prefix ++ [nname n] in
  if isdir n then (p, n) :: flat_map (walk_node p) (nsub n)
  else if dumpable n then [(p, n)] else [].

(* sendNodes for one node of the dumped tree *)
Definition send_nodes (prefix : list N) (root : node) : list (list N * node) :=
  if negb (dumpable root) then []
  else
    let p := prefix ++ [nname root] in
    (p, root) :: (if isdir root then flat_map (walk_node p) (nsub root) else []).

(* sendTrees *)
Definition send_trees (root : list N) (t : tree) : list (list N * node) := flat_map (send_nodes root) t.

(* specification: all nodes in pre-order, then the type filter *)
Fixpoint preorder (prefix : list N) (n : node) : list (list N * node) :=
  let p := prefix ++ [nname n] in
  (p, n) :: (if isdir n then flat_map (preorder p) (nsub n) else []).
Definition spec_nodes (root : list N) (t : tree) : list (list N * node) :=
  filter (fun pn => dumpable (snd pn)) (flat_map (preorder root) t).

Fixpoint all_present_tree (bs : blobs) (n : node) : bool :=
  all_present bs (ncontent n) && forallb (all_present_tree bs) (nsub n).

(* ---- cases ---- *)
Record case := mk {
  c_blobs : blobs;
  c_format : N;              (* 0 tar, 1 zip, 2 single file (WriteNode of the first node) *)
  c_root : list N;
  c_tree : tree;
  o_err : bool;
  o_entries : list entry
}.

Definition mk_entry (fmt : N) (bs : blobs) (pn : list N * node) : entry :=
  if N.eqb fmt 0 then tar_entry bs (fst pn) (snd pn) else zip_entry bs (fst pn) (snd pn).

Definition model (c : case) : list entry :=
  if N.eqb (c_format c) 2 then
    match c_tree c with
    | n :: _ => [mke [] false 0 0 [] (file_bytes (c_blobs c) (ncontent n))]
    | [] => []
    end
  else map (mk_entry (c_format c) (c_blobs c)) (send_trees (c_root c) (c_tree c)).

Definition expected (c : case) : list entry :=
  if N.eqb (c_format c) 2 then
    match c_tree c with
    | n :: _ => [mke [] false 0 0 [] (file_bytes (c_blobs c) (ncontent n))]
    | [] => []
    end
  else map (mk_entry (c_format c) (c_blobs c)) (spec_nodes (c_root c) (c_tree c)).

Fixpoint ids_eqb (a b : list N) : bool :=
  match a, b with
  | [], [] => true
  | x :: a', y :: b' => andb (N.eqb x y) (ids_eqb a' b')
  | _, _ => false
  end.

Definition shape_eqb (a b : entry) : bool :=
  ids_eqb (e_path a) (e_path b) && Bool.eqb (e_slash a) (e_slash b) && N.eqb (e_ty a) (e_ty b).

Fixpoint all2 (f : entry -> entry -> bool) (a b : list entry) : bool :=
  match a, b with
  | [], [] => true
  | x :: a', y :: b' => andb (f x y) (all2 f a' b')
  | _, _ => false
  end.

Definition entry_eqb (a b : entry) : bool :=
  shape_eqb a b && ids_eqb (e_content a) (e_content b) && ids_eqb (e_link a) (e_link b)
  && N.eqb (e_mode a) (e_mode b).

Definition check_code (c : case) : nat :=
  let ok := forallb (all_present_tree (c_blobs c)) (c_tree c) in
  if negb ok then (if o_err c then 0 else 6)
  else if o_err c then 6
  else
    let ex := expected c in
    if negb (all2 shape_eqb (o_entries c) ex) then 2
    else if negb (all2 (fun a b => ids_eqb (e_content a) (e_content b)) (o_entries c) ex) then 3
    else if negb (all2 (fun a b => ids_eqb (e_link a) (e_link b)) (o_entries c) ex) then 4
    else if negb (all2 (fun a b => N.eqb (e_mode a) (e_mode b)) (o_entries c) ex) then 5
    else if all2 entry_eqb (o_entries c) (model c) then 0 else 1.

Definition check_C45 (c : case) : bool :=
  if forallb (all_present_tree (c_blobs c)) (c_tree c)
  then negb (o_err c) && all2 entry_eqb (o_entries c) (expected c)
  else o_err c.

Definition check_case (c : case) : nat := check_code c.

End C45m.
