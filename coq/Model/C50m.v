(* C50: repository passwords embedded in locations are never displayed.  Executable model only.

   Modelled restic code (current /repo):
     internal/backend/location/location.go   extractScheme, StripPassword (dispatch on the scheme;
                                             every backend except "rest" registers the identity)
     internal/backend/rest/config.go         prepareURL, StripPassword
   Modelled part of Go's net/url that decides WHERE the password is (url.Parse up to and including
   parseAuthority's userinfo handling, Userinfo.String, the head of URL.String):
     control-byte check, '#' cut, getScheme (+ lower-casing), '?' cut, "//" authority test, authority
     = up to the next '/', LastIndex '@', validUserinfo, Cut ':', unescape (userinfo mode),
     escape (userinfo mode).
   NOT modelled (external, taken from the implementation as the input [post]): host / path / query /
   fragment validation and re-encoding, i.e. the part of u.String() after the '@' that ends the
   userinfo ([post] = None when url.Parse fails).

   check_case codes: 0 ok; 1 model <> implementation (oracle holds); 2 panic (the model never panics
   since the F-C50-1 fix: strings without the rest: prefix are returned unchanged); 3 two locations that
   differ only in the password are displayed differently (password-dependent output);
   4 an accepted location is displayed with the marker that occurs only inside its password. *)
From Restic Require Import Base.Prelude.

Module C50m.
Open Scope N_scope.

Definition is_empty {A} (s : list A) : bool := match s with [] => true | _ => false end.
Definition is_upper (c : N) : bool := (65 <=? c) && (c <=? 90).
Definition is_alpha (c : N) : bool := is_upper c || ((97 <=? c) && (c <=? 122)).
Definition is_digit (c : N) : bool := (48 <=? c) && (c <=? 57).
Definition is_alnum (c : N) : bool := is_alpha c || is_digit c.
Definition to_lower (c : N) : N := if is_upper c then c + 32 else c.
Definition is_ctl (c : N) : bool := (c <? 32) || (c =? 127).
Definition memN (c : N) (l : list N) : bool := existsb (N.eqb c) l.

(* strings.Cut(s, c): before, Some after / None when c does not occur *)
Fixpoint cut (c : N) (s : bytes) : bytes * option bytes :=
  match s with
  | [] => ([], None)
  | x :: r => if x =? c then ([], Some r) else let (a, b) := cut c r in (x :: a, b)
  end.

(* split at the LAST occurrence of c *)
Fixpoint split_last (c : N) (s : bytes) : option (bytes * bytes) :=
  match s with
  | [] => None
  | x :: r =>
      match split_last c r with
      | Some (a, b) => Some (x :: a, b)
      | None => if x =? c then Some ([], r) else None
      end
  end.

(* url.getScheme; [acc] = the scanned prefix, reversed *)
Inductive sres := SchErr | SchNone | Sch (sch rest : bytes).
Definition is_sch_other (c : N) : bool := is_digit c || (c =? 43) || (c =? 45) || (c =? 46).
Fixpoint scheme_go (s acc : bytes) : sres :=
  match s with
  | [] => SchNone
  | c :: r =>
      if is_alpha c then scheme_go r (c :: acc)
      else if is_sch_other c then (if is_empty acc then SchNone else scheme_go r (c :: acc))
      else if c =? 58 then (if is_empty acc then SchErr else Sch (rev acc) r)
      else SchNone
  end.
Definition get_scheme (s : bytes) : sres := scheme_go s [].

(* url.validUserinfo (this Go version accepts '@') *)
Definition ui_char_ok (c : N) : bool :=
  is_alnum c || memN c [45; 46; 95; 58; 126; 33; 36; 38; 39; 40; 41; 42; 43; 44; 59; 61; 37; 64].
Definition valid_userinfo (s : bytes) : bool := forallb ui_char_ok s.

Definition hexv (c : N) : option N :=
  if is_digit c then Some (c - 48)
  else if (97 <=? c) && (c <=? 102) then Some (c - 87)
  else if (65 <=? c) && (c <=? 70) then Some (c - 55)
  else None.

(* url.unescape(s, encodeUserPassword) *)
Fixpoint unescape (s : bytes) : option bytes :=
  match s with
  | [] => Some []
  | c :: r =>
      if c =? 37 then
        match r with
        | a :: b :: r' =>
            match hexv a, hexv b, unescape r' with
            | Some x, Some y, Some t => Some (16 * x + y :: t)
            | _, _, _ => None
            end
        | _ => None
        end
      else match unescape r with Some t => Some (c :: t) | None => None end
  end.

(* url.escape(s, encodeUserPassword): unreserved, and of the reserved set only $ & + , ; = stay *)
Definition keep_up (c : N) : bool := is_alnum c || memN c [45; 95; 46; 126; 36; 38; 43; 44; 59; 61].
Definition hexdigit (n : N) : N := if n <? 10 then 48 + n else 55 + n.
Fixpoint escape_up (s : bytes) : bytes :=
  match s with
  | [] => []
  | c :: r => if keep_up c then c :: escape_up r
              else 37 :: hexdigit (c / 16) :: hexdigit (c mod 16) :: escape_up r
  end.

Fixpoint is_prefix (p s : bytes) : bool :=
  match p, s with
  | [], _ => true
  | x :: p', y :: s' => (x =? y) && is_prefix p' s'
  | _ :: _, [] => false
  end.

(* strings.Replace(h, old, new, 1) for a non-empty [old] *)
Fixpoint replace_first (h old new : bytes) : bytes :=
  match h with
  | [] => []
  | c :: r => if is_prefix old h then new ++ skipn (length old) h else c :: replace_first r old new
  end.

(* where url.Parse finds user name and password *)
Inductive uinfo := UNone | UErr | UPw (pre user pw : bytes).

Definition strip2 (s : bytes) : option bytes :=
  match s with
  | a :: b :: r => if (a =? 47) && (b =? 47) then Some r else None
  | _ => None
  end.
Definition starts_slash (s : bytes) : bool := match s with c :: _ => c =? 47 | [] => false end.

Definition locate_auth (pre auth : bytes) : uinfo :=
  match split_last 64 auth with
  | None => UNone
  | Some (ui, _) =>
      if negb (valid_userinfo ui) then UErr
      else match cut 58 ui with
           | (_, None) => match unescape ui with Some _ => UNone | None => UErr end
           | (un, Some pw) =>
               match unescape un, unescape pw with
               | Some u, Some p => UPw pre u p
               | _, _ => UErr
               end
           end
  end.

Definition locate (s : bytes) : uinfo :=
  if existsb is_ctl s then UErr
  else
    let u0 := fst (cut 35 s) in                                   (* '#' *)
    match get_scheme u0 with
    | SchErr => UErr
    | r =>
        let (sch, rest) := match r with Sch a b => (a, b) | _ => ([], u0) end in
        let rest1 := fst (cut 63 rest) in                          (* '?' *)
        match strip2 rest1 with
        | None => UNone                                            (* opaque / path only: no userinfo *)
        | Some a =>
            if negb (is_empty sch) || negb (starts_slash a) then
              let pre := (if is_empty sch then [] else map to_lower sch ++ [58]) ++ [47; 47] in
              locate_auth pre (fst (cut 47 a))
            else UNone
        end
    end.

Definition mask : bytes := [58; 42; 42; 42; 64].        (* ":***@" *)
Definition rest_scheme : bytes := [114; 101; 115; 116]. (* "rest" *)

Fixpoint ends_slash (s : bytes) : bool :=
  match s with [] => false | [c] => c =? 47 | _ :: r => ends_slash r end.
Definition prepare (t : bytes) : bytes := if ends_slash t then t else t ++ [47].

Inductive res := ROut (o : bytes) | RPanic.

(* rest.StripPassword *)
Definition strip_rest (loc : bytes) (post : option bytes) : res :=
  if negb (is_prefix (rest_scheme ++ [58]) loc) then ROut loc     (* !strings.HasPrefix(s, "rest:") *)
  else
    let scheme := firstn 5 loc in
    let s := prepare (skipn 5 loc) in
    match post, locate s with
    | Some po, UPw pre u p =>
        let ustr := escape_up u ++ [58] ++ escape_up p in
        ROut (scheme ++ replace_first (pre ++ ustr ++ [64] ++ po) (ustr ++ [64]) (u ++ mask))
    | _, _ => ROut (scheme ++ s)
    end.

(* location.StripPassword: only the rest backend registers a non-identity function *)
Definition strip_location (loc : bytes) (post : option bytes) : res :=
  if bytes_eqb (fst (cut 58 loc)) rest_scheme then strip_rest loc post else ROut loc.

(* location.Parse: which strings restic ACCEPTS as a repository location.
   extractScheme = text before the first ':' (whole string without colon); a registered scheme hands the
   string to that backend's ParseConfig: for "rest" that is  HasPrefix(s,"rest:") && url.Parse(prepareURL(s))
   succeeds  ([post] = None iff url.Parse fails); for the other backends (and for the local fallback) the
   answer of their ParseConfig is the observed input [other_ok]; an unregistered scheme is accepted only as a
   local path: rejected when it is not path-like and contains a colon.  There is NO trimming of white space. *)
Definition has_colon (s : bytes) : bool := existsb (N.eqb 58) s.
Definition is_ws (c : N) : bool := (c =? 32) || ((9 <=? c) && (c <=? 13)).
Definition is_path (s : bytes) : bool :=
  is_prefix [46; 46; 47] s || is_prefix [46; 46; 92] s || is_prefix [47] s || is_prefix [92] s
  || match s with
     | d :: c :: x :: _ => is_alpha d && (c =? 58) && ((x =? 92) || (x =? 47))
     | _ => false
     end.
Definition is_some {A} (o : option A) : bool := match o with Some _ => true | None => false end.
Definition parse_accepts (loc : bytes) (post : option bytes) (registered other_ok : bool) : bool :=
  if bytes_eqb (fst (cut 58 loc)) rest_scheme then is_prefix (rest_scheme ++ [58]) loc && is_some post
  else if registered then other_ok
  else if negb (is_path loc) && has_colon loc then false
  else other_ok.

(* does [needle] occur in [h]? *)
Fixpoint contains (h needle : bytes) : bool :=
  match h with
  | [] => is_empty needle
  | _ :: r => is_prefix needle h || contains r needle
  end.

Definition res_eqb (a b : res) : bool :=
  match a, b with
  | ROut x, ROut y => bytes_eqb x y
  | RPanic, RPanic => true
  | _, _ => false
  end.

(* a case: a location; the part of u.String() after the userinfo's '@' (None = url.Parse error); the
   implementation's displayed form; what the real location.Parse says (accepted), whether the scheme is
   registered, and the answer of a non-rest backend's ParseConfig; optionally a twin location that differs
   only in the password; optionally a marker that occurs in the location only inside the intended password *)
Record case := mk {
  c_loc : bytes; c_post : option bytes; c_obs : res;
  c_haspw : bool;                       (* url.Parse succeeded and found a password (observed) *)
  c_accepted : bool;                    (* the real location.Parse accepts the string *)
  c_registered : bool;                  (* registry.Lookup(extractScheme(loc)) != nil *)
  c_other_ok : bool;                    (* ParseConfig answer of a non-rest backend / the local fallback *)
  c_twin : option (bytes * res);        (* same location with another password (also parsed with a password) *)
  c_marker : option bytes }.            (* occurs in the location only inside the intended password *)

Definition is_panic (r : res) : bool := match r with RPanic => true | _ => false end.
Definition twin_ok (c : case) : bool :=
  match c_twin c with
  | Some (_, o2) => if c_haspw c then res_eqb (c_obs c) o2 else true
  | None => true
  end.
(* an ACCEPTED location must not show the marker that sits inside its password *)
Definition marker_ok (c : case) : bool :=
  match c_marker c, c_obs c with
  | Some m, ROut o => if (c_accepted c || c_haspw c) then negb (contains o m) else true
  | _, _ => true
  end.

Definition check_C50 (c : case) : bool :=
  negb (is_panic (c_obs c)) && twin_ok c && marker_ok c.

Definition check_case (c : case) : nat :=
  if is_panic (c_obs c) then 2
  else if negb (twin_ok c) then 3
  else if negb (marker_ok c) then 4
  else if res_eqb (c_obs c) (strip_location (c_loc c) (c_post c))
          && Bool.eqb (c_accepted c) (parse_accepts (c_loc c) (c_post c) (c_registered c) (c_other_ok c))
       then 0 else 1.

End C50m.
