(* C32: cmd/restic/cmd_copy.go — copy.  Executable model only.

   Two layers.
   (a) Selection: which source snapshots a run copies (collectAllSnapshots: a source snapshot is
       skipped iff the destination holds a snapshot registered under the source's persistent id
       (Original, else its own id) that is similar (all fields except Parent/Original equal, same
       tree)), and what copySaveSnapshot writes (Original := persistent id, same fields and tree).
   (b) Destination write trace: Save(pack) / Save(index) / Save(snapshot) operations in the order
       they complete; a crash leaves the state of a prefix.  A snapshot present in the destination
       must have every blob it needs resolvable: listed by a present index entry as part of a present
       pack that really contains it.  copyTreeBatched = [packs and indexes of the batch (flush inside
       WithBlobUploader)] then [snapshots of the batch].

   check_case codes: 0 ok; 1 model <> implementation (selection / snapshot fields);
   2 after the run a selected snapshot has no faithful copy (same tree, persistent id, fields) or its
     data is not resolvable; 3 a second run is not idle (selects or writes something);
   4 at some prefix of the destination's write trace a present snapshot misses data;
   5 a skipped snapshot has no similar copy in the destination. *)
From Restic Require Import Base.Prelude.

Module C32m.

(* ---------- (a) selection ---------- *)
Record snap := mksnap { s_id : N; s_orig : option N; s_key : N; s_tree : N }.
(* s_key: number standing for the tuple of all fields compared by similarSnapshots except the tree *)

(* The field set behind s_key, pinned.  similarSnapshots is probed field by field by the harness on every
   run (one struct field of data.Snapshot changed at a time; result in Gen/ParamsC32.similar_mask, bit i =
   struct field i matters).  The model assumes exactly: Time, Tree, Paths, Hostname, Username, UID, GID,
   Excludes, Tags matter (bits 0,2,3,4,5,6,7,8,9); Parent, Original, ProgramVersion, Summary and the
   cached id do not.  Paths and Tags are compared as sets (order-insensitive), Excludes in order — the
   harness canonicalises s_key accordingly. *)
Definition expected_similar_mask : Z := 1021.
Definition expected_field_count : Z := 14.

Definition persistent (s : snap) : N := match s_orig s with Some o => o | None => s_id s end.
Definition similar (a b : snap) : bool := andb (N.eqb (s_key a) (s_key b)) (N.eqb (s_tree a) (s_tree b)).
Definition registered_under (d : snap) (k : N) : bool :=
  orb (option_eqb N.eqb (s_orig d) (Some k)) (N.eqb (s_id d) k).
Definition is_copied (dst : list snap) (s : snap) : bool :=
  existsb (fun d => andb (registered_under d (persistent s)) (similar d s)) dst.
Definition select (src dst : list snap) : list snap := filter (fun s => negb (is_copied dst s)) src.

(* the snapshot written for s; its id is chosen by the destination (content hash) *)
Definition copy_of (newid : N) (s : snap) : snap := mksnap newid (Some (persistent s)) (s_key s) (s_tree s).

(* one run: ids for the new snapshots are supplied (one per selected snapshot) *)
Fixpoint zip_copy (ids : list N) (sel : list snap) : list snap :=
  match ids, sel with
  | i :: ir, s :: sr => copy_of i s :: zip_copy ir sr
  | _, _ => []
  end.
Definition copy_run (ids : list N) (src dst : list snap) : list snap := dst ++ zip_copy ids (select src dst).

(* ---------- (b) destination write trace ---------- *)
Inductive dop :=
| DPack (pid : N) (blobs : list N)
| DIndex (entries : list (N * N))          (* (pack, blob) *)
| DSnap (sid : N) (needs : list N)
| DOther.                                   (* any other successful modification: nothing is concluded *)

Record dstate := mkd { d_packs : list (N * list N); d_idx : list (N * N); d_snaps : list (N * list N); d_unknown : bool }.

Definition dapply (st : dstate) (o : dop) : dstate :=
  match o with
  | DPack p bl => mkd ((p, bl) :: d_packs st) (d_idx st) (d_snaps st) (d_unknown st)
  | DIndex es => mkd (d_packs st) (es ++ d_idx st) (d_snaps st) (d_unknown st)
  | DSnap s needs => mkd (d_packs st) (d_idx st) ((s, needs) :: d_snaps st) (d_unknown st)
  | DOther => mkd (d_packs st) (d_idx st) (d_snaps st) true
  end.

Fixpoint drun (st : dstate) (t : list dop) : dstate :=
  match t with [] => st | o :: r => drun (dapply st o) r end.

Fixpoint memN (x : N) (l : list N) : bool :=
  match l with [] => false | y :: r => orb (N.eqb x y) (memN x r) end.

Definition pack_has (st : dstate) (p h : N) : bool :=
  existsb (fun e : N * list N => andb (N.eqb (fst e) p) (memN h (snd e))) (d_packs st).
Definition resolvable (st : dstate) (h : N) : bool :=
  existsb (fun e : N * N => andb (N.eqb (snd e) h) (pack_has st (fst e) h)) (d_idx st).
Definition consistentb (st : dstate) : bool :=
  andb (negb (d_unknown st)) (forallb (fun s : N * list N => forallb (resolvable st) (snd s)) (d_snaps st)).

(* every prefix consistent, single pass *)
Fixpoint run_ok (st : dstate) (t : list dop) : bool :=
  andb (consistentb st) (match t with [] => true | o :: r => run_ok (dapply st o) r end).

(* the shape copyTreeBatched produces for one batch *)
Definition is_data_op (o : dop) : bool := match o with DPack _ _ | DIndex _ => true | _ => false end.
Definition is_snap_op (o : dop) : bool := match o with DSnap _ _ => true | _ => false end.

(* ---------- (c) copyTree / CopyBlobs: which blobs a run uploads ---------- *)
(* Source tree graph: tree id -> (subtree ids, data blob ids of its files).  copyTree walks the trees
   below a snapshot root with data.StreamTrees; the skip callback consults and extends visitedTrees
   (shared by all snapshots of the run) BEFORE the tree is loaded; every loaded tree enqueues its own
   blob and its files' data blobs unless dstRepo.LookupBlobSize knows them (destination index incl.
   blobs uploaded earlier in this run); CopyBlobs then uploads exactly the enqueued set.  StreamTrees
   visits concurrently; the sets computed do not depend on the order, the model walks depth-first. *)
Definition graph := list (N * (list N * list N)).

Fixpoint glookup (g : graph) (t : N) : option (list N * list N) :=
  match g with
  | [] => None
  | (k, v) :: r => if N.eqb t k then Some v else glookup r t
  end.

(* copyBlobs.Insert for every blob of [bs] the destination does not know *)
Fixpoint add_missing (dst acc bs : list N) : list N :=
  match bs with
  | [] => acc
  | b :: r => add_missing dst (if orb (memN b dst) (memN b acc) then acc else acc ++ [b]) r
  end.

Inductive wres := WOk (visited acc : list N) | WErr | WFuel.

Fixpoint walk (g : graph) (dst : list N) (fuel : nat) (work visited acc : list N) : wres :=
  match fuel with
  | O => WFuel
  | S f =>
      match work with
      | [] => WOk visited acc
      | t :: rest =>
          if memN t visited then walk g dst f rest visited acc
          else match glookup g t with
               | None => WErr                          (* LoadTree error: copy aborts *)
               | Some (subs, datas) =>
                   walk g dst f (subs ++ rest) (t :: visited) (add_missing dst acc (t :: datas))
               end
      end
  end.

(* one copyTree + CopyBlobs: new visited set, new destination blob set *)
Definition copy_tree (g : graph) (fuel : nat) (st : list N * list N) (root : N) : option (list N * list N) :=
  let '(visited, dst) := st in
  match walk g dst fuel [root] visited [] with
  | WOk v acc => Some (v, dst ++ acc)
  | _ => None
  end.

Fixpoint copy_trees (g : graph) (fuel : nat) (st : list N * list N) (roots : list N) : option (list N * list N) :=
  match roots with
  | [] => Some st
  | r :: rest => match copy_tree g fuel st r with
                 | Some st' => copy_trees g fuel st' rest
                 | None => None
                 end
  end.

Definition graph_fuel (g : graph) (nroots : nat) : nat :=
  fold_right (fun e n => (2 + length (fst (snd e)) + n)%nat) (2 + nroots)%nat g.

(* ---------- cases ---------- *)
Definition snap_eqb (a b : snap) : bool :=
  andb (andb (N.eqb (s_id a) (s_id b)) (option_eqb N.eqb (s_orig a) (s_orig b)))
       (andb (N.eqb (s_key a) (s_key b)) (N.eqb (s_tree a) (s_tree b))).

Record case := mk {
  c_src : list snap;                 (* snapshots the source filter yields, in order *)
  c_dst0 : list snap;                (* destination snapshots before the run *)
  c_state0 : dstate;                 (* destination packs / index / snapshots (with needs) before the run *)
  c_trace : list dop;                (* destination modifications of the run, completion order *)
  c_dst1 : list snap;                (* destination snapshots after the run *)
  c_needs : list (N * list N);       (* tree id -> blobs needed (closure computed on the source) *)
  c_trace2 : list dop;               (* destination modifications of an immediate second run *)
  c_dst2 : list snap;                (* destination snapshots after the second run *)
  c_graph : graph;                   (* source trees below the chosen snapshots *)
  c_dstblobs : list N                (* blobs the destination index knew before the run *)
}.

(* blobs the run uploaded, read off the observed trace *)
Definition uploaded (t : list dop) : list N :=
  flat_map (fun o => match o with DPack _ bl => bl | _ => [] end) t.
Definition subsetN (a b : list N) : bool := forallb (fun x => memN x b) a.

(* model: the blobs copy uploads for the selected snapshots, in order *)
Definition model_uploaded (c : case) : option (list N) :=
  let roots := map s_tree (select (c_src c) (c_dst0 c)) in
  match copy_trees (c_graph c) (graph_fuel (c_graph c) (length roots)) ([], c_dstblobs c) roots with
  | Some (_, d) => Some (skipn (length (c_dstblobs c)) d)
  | None => None
  end.

Definition needs_of (c : case) (tree : N) : list N :=
  match filter (fun e : N * list N => N.eqb (fst e) tree) (c_needs c) with e :: _ => snd e | [] => [] end.

(* new snapshots = those of dst1 not in dst0 (by id) *)
Definition new_snaps (a b : list snap) : list snap :=
  filter (fun s => negb (existsb (fun d => N.eqb (s_id d) (s_id s)) a)) b.

Definition has_faithful_copy (dst : list snap) (s : snap) : bool :=
  existsb (fun d => andb (option_eqb N.eqb (s_orig d) (Some (persistent s))) (similar d s)) dst.

Definition oracle_code (c : case) : nat :=
  let st1 := drun (c_state0 c) (c_trace c) in
  if negb (run_ok (c_state0 c) (c_trace c)) then 4
  else if negb (forallb (fun s => orb (is_copied (c_dst0 c) s)
                 (andb (has_faithful_copy (new_snaps (c_dst0 c) (c_dst1 c)) s)
                       (forallb (resolvable st1) (needs_of c (s_tree s))))) (c_src c)) then 2
  else if negb (forallb (fun s => orb (negb (is_copied (c_dst0 c) s))
                 (existsb (fun d => similar d s) (c_dst0 c))) (c_src c)) then 5
  else if negb (andb (match c_trace2 c with [] => true | _ => false end)
                     (list_eqb snap_eqb (c_dst1 c) (c_dst2 c))) then 3
  else 0.

Definition check_C32 (c : case) : bool := Nat.eqb (oracle_code c) 0.

(* model vs implementation: the new snapshots are exactly the copies of the selected ones (ids taken
   from the observation), in order; the trace is data ops followed by snapshot ops *)
Definition shape_ok (t : list dop) : bool :=
  let fix go (phase_snap : bool) (t : list dop) : bool :=
    match t with
    | [] => true
    | o :: r => if is_snap_op o then go true r
                else if is_data_op o then andb (negb phase_snap) (go phase_snap r)
                else false
    end in go false t.

Definition check_case (c : case) : nat :=
  match oracle_code c with
  | O =>
      let news := new_snaps (c_dst0 c) (c_dst1 c) in
      if andb (list_eqb snap_eqb news (zip_copy (map s_id news) (select (c_src c) (c_dst0 c))))
              (andb (andb (Nat.eqb (length news) (length (select (c_src c) (c_dst0 c)))) (shape_ok (c_trace c)))
                    (match model_uploaded c with
                     | Some up => andb (subsetN up (uploaded (c_trace c))) (subsetN (uploaded (c_trace c)) up)
                     | None => false
                     end))
      then 0 else 1
  | n => n
  end.

End C32m.
