(* C04: repository contents leak no plaintext and never reuse a nonce. Executable model only.

   Modelled Go code (current /repo): the use of randomness and of crypto.Key.Seal on every write path
     internal/repository/repository.go   saveAndEncrypt (nonce := NewRandomNonce; nonce ‖ Seal), saveUnpacked (same)
     internal/repository/pack/pack.go    Packer.Finalize (nonce ‖ Seal(header) ‖ uint32 LE length of the two)
     internal/repository/key.go          AddKey (NewSalt, optionally NewRandomKey, nonce ‖ Seal_user(master JSON),
                                         public JSON around salt and data)
   Every call of crypto/rand (NewRandomNonce 16 bytes, NewSalt 64 bytes, NewRandomKey 3 reads) is one draw from
   a stream [rng : nat -> bytes] at an explicit position.  [seal], the pack header encoding, the key-file JSON
   encoding and the KDF are Section variables: the theorems hold for all of them.
   Secrecy of a sealed segment (IND-CPA of AES-CTR) is NOT modelled; the model states where plaintext can
   occur at all (only as an argument of [seal]) and that no (key, nonce) pair is used twice.

   Concurrency: the ops of several goroutines (blob savers, pack uploaders, index/snapshot savers) interleave;
   [run] takes ANY list of ops, so every interleaving at op granularity is covered — PROVIDED each draw claims
   its stream position atomically (draws are linearisable).  That hypothesis is made explicit by the generator
   model [gstep] below: an atomic draw ([EAtomic], what crypto/rand.Read provides) versus a generator whose
   read-position and advance steps can interleave ([ERead]/[EAdvance], e.g. an unsynchronised user-space PRNG).
   The stress family of the engine (concurrent NewRandomNonce draws, concurrent SaveBlobAsync savers) is the
   check of that hypothesis on the real code: code 5.

   check_case codes: 0 ok; 1 scanner control failed (the deliberately public key-file markers were not found);
     2 a stored file is not completely made of sealed segments / nonces / the header length field / key-file
       public JSON (a byte outside any segment, a segment that does not authenticate, an unknown key-file field);
     3 a nonce occurs twice or is all-zero;  4 a plaintext marker occurs in the stored bytes;
     5 concurrent draws / concurrent savers produced a repeated nonce (draws are not linearisable) or fewer
       objects than were saved. *)
From Restic Require Import Base.Prelude.

Module C04m.

Inductive keyclass := KMaster | KUser (salt_idx : nat).

Inductive op :=
| OpSaveBlob (payload : bytes)
| OpFinalize
| OpSaveUnpacked (payload : bytes)
| OpAddKey (fresh_master : bool) (pub : bytes).

(* what a stored file is made of *)
Inductive seg :=
| GNonce (i : nat)                                   (* the i-th draw of the stream *)
| GSealed (k : keyclass) (i : nat) (pt : bytes)      (* Seal_k(nonce = i-th draw, pt): ciphertext ‖ tag *)
| GLen (n : N)                                       (* 4-byte little-endian length of the encrypted header *)
| GKeyJson (pub : bytes) (salt_idx : nat) (data : list seg).   (* key file: public fields, salt, data *)

Fixpoint le_bytes (n : nat) (x : N) : bytes :=
  match n with O => [] | S n' => N.land x 255 :: le_bytes n' (N.shiftr x 8) end.

Section Generic.
Variable rng : nat -> bytes.
Variable seal : keyclass -> bytes -> bytes -> bytes.          (* key, nonce, plaintext -> ciphertext ‖ tag *)
Variable header_of : list N -> bytes.                          (* pack header for blobs of the given lengths *)
Variable keyjson : bytes -> bytes -> bytes -> bytes.           (* public fields, salt, data -> file *)
Variable master_json : bytes.                                  (* JSON of the master key *)

Fixpoint render (s : seg) : bytes :=
  match s with
  | GNonce i => rng i
  | GSealed k i pt => seal k (rng i) pt
  | GLen n => le_bytes 4 n
  | GKeyJson pub si data => keyjson pub (rng si) (concat (map render data))
  end.
Definition render_all (l : list seg) : bytes := concat (map render l).

Record state := mkst {
  calls : nat;                        (* number of draws so far *)
  packbuf : bytes;                    (* the open packer's file content *)
  packlay : list seg;
  packlens : list N;                  (* lengths of the blobs in the open packer *)
  files : list (bytes * list seg);    (* files handed to the backend, with their layout *)
  uses : list (keyclass * nat);       (* (key, draw index) of every Seal call *)
  others : list nat                   (* draw indices used for salts and key material *)
}.
Definition init : state := mkst 0 [] [] [] [] [] [].

Definition step (st : state) (o : op) : state :=
  let c := calls st in
  match o with
  | OpSaveBlob p =>
      (* nonce := NewRandomNonce(); ciphertext = nonce ‖ Seal(nonce, p); appended to the packer *)
      let seg := rng c ++ seal KMaster (rng c) p in
      mkst (S c) (packbuf st ++ seg) (packlay st ++ [GNonce c; GSealed KMaster c p])
           (packlens st ++ [N.of_nat (length seg)]) (files st) ((KMaster, c) :: uses st) (others st)
  | OpFinalize =>
      let h := header_of (packlens st) in
      let enc := rng c ++ seal KMaster (rng c) h in
      let f := packbuf st ++ enc ++ le_bytes 4 (N.of_nat (length enc)) in
      mkst (S c) [] [] []
           ((f, packlay st ++ [GNonce c; GSealed KMaster c h; GLen (N.of_nat (length enc))]) :: files st)
           ((KMaster, c) :: uses st) (others st)
  | OpSaveUnpacked p =>
      mkst (S c) (packbuf st) (packlay st) (packlens st)
           ((rng c ++ seal KMaster (rng c) p, [GNonce c; GSealed KMaster c p]) :: files st)
           ((KMaster, c) :: uses st) (others st)
  | OpAddKey fresh pub =>
      (* salt := NewSalt(); [master := NewRandomKey() = 3 draws]; nonce := NewRandomNonce() *)
      let k := if fresh then 3 else 0 in
      let ni := (S c + k)%nat in
      let data := [GNonce ni; GSealed (KUser c) ni master_json] in
      mkst (S ni) (packbuf st) (packlay st) (packlens st)
           ((keyjson pub (rng c) (rng ni ++ seal (KUser c) (rng ni) master_json), [GKeyJson pub c data]) :: files st)
           ((KUser c, ni) :: uses st)
           (c :: (if fresh then [S c; S (S c); S (S (S c))] else []) ++ others st)
  end.

Definition run (ops : list op) : state := fold_left step ops init.

(* the nonce actually used by each Seal call *)
Definition used_pairs (st : state) : list (keyclass * bytes) := map (fun u => (fst u, rng (snd u))) (uses st).

End Generic.

(* ---------- the random generator under concurrency ---------- *)
Inductive gev :=
| EAtomic (g : nat)        (* goroutine g draws: position claimed and advanced in one indivisible step *)
| ERead (g : nat)          (* non-atomic generator: g reads the current position ... *)
| EAdvance (g : nat).      (* ... and later stores position+1 and returns the bytes at the position it read *)

Record gstate := mkg {
  gnext : nat;                       (* the generator's position *)
  gpend : list (nat * nat);          (* goroutine -> position it has read but not yet advanced *)
  ggot : list (nat * nat)            (* (goroutine, position) of every completed draw *)
}.
Definition ginit : gstate := mkg 0 [] [].

Fixpoint pend_find (g : nat) (l : list (nat * nat)) : option nat :=
  match l with [] => None | (h, p) :: r => if Nat.eqb h g then Some p else pend_find g r end.
Fixpoint pend_remove (g : nat) (l : list (nat * nat)) : list (nat * nat) :=
  match l with [] => [] | (h, p) :: r => if Nat.eqb h g then pend_remove g r else (h, p) :: pend_remove g r end.

Definition gstep (st : gstate) (e : gev) : gstate :=
  match e with
  | EAtomic g => mkg (S (gnext st)) (gpend st) ((g, gnext st) :: ggot st)
  | ERead g => mkg (gnext st) ((g, gnext st) :: pend_remove g (gpend st)) (ggot st)
  | EAdvance g =>
      match pend_find g (gpend st) with
      | Some p => mkg (S p) (pend_remove g (gpend st)) ((g, p) :: ggot st)
      | None => st
      end
  end.
Definition grun (sched : list gev) : gstate := fold_left gstep sched ginit.
Definition atomic_only (sched : list gev) : bool :=
  forallb (fun e => match e with EAtomic _ => true | _ => false end) sched.

(* ---------- observed repositories ---------- *)
(* tiling of a pack file by its header entries (offset, length), in offset order *)
Fixpoint tiles (pos : N) (entries : list (N * N)) : option N :=
  match entries with
  | [] => Some pos
  | (off, len) :: r => if ((off =? pos) && (32 <=? len))%N then tiles (pos + len)%N r else None
  end.
Definition pack_ok (L hlen : N) (entries : list (N * N)) : bool :=
  match tiles 0 entries with
  | Some e => ((e + hlen + 4 =? L) && (32 <=? hlen))%N
  | None => false
  end.

Inductive fobs :=
| FPack (L hlen : N) (entries : list (N * N * bool * bytes)) (hdr_ok : bool) (hdr_nonce : bytes) (hdr_lists_same : bool)
    (* entries: offset, length, "nonce ‖ rest opens under the master key", nonce; header: opens, nonce,
       and its decoded entry list has exactly these offsets/lengths *)
| FSealed (L : N) (ok : bool) (nonce : bytes)       (* config / index / snapshot / lock file: nonce ‖ sealed *)
| FKey (fields_ok : bool) (saltlen : N) (data_ok : bool) (nonce : bytes).
    (* key file: exactly the documented JSON fields; data = nonce ‖ sealed under the user key *)

Record case := mkcase {
  c_files : list fobs;
  c_hits : list (bool * bool);     (* marker found: (in a key file?, is it a key-file public-info marker?) *)
  c_public_expected : nat;         (* number of public markers deliberately put into key files *)
  c_conc : list (N * N * N * list bytes)
    (* concurrency families: (objects expected at least, nonces collected, distinct nonces, sample of repeated nonces) *)
}.

Definition file_ok (f : fobs) : bool :=
  match f with
  | FPack L hlen entries hok _ same =>
      pack_ok L hlen (map (fun e => (fst (fst (fst e)), snd (fst (fst e)))) entries) && hok && same &&
      forallb (fun e => snd (fst e)) entries
  | FSealed L ok _ => (32 <=? L)%N && ok
  | FKey fok sl dok _ => fok && (sl =? 64)%N && dok
  end.

Definition file_nonces (f : fobs) : list bytes :=
  match f with
  | FPack _ _ entries _ hn _ => map snd entries ++ [hn]
  | FSealed _ _ n => [n]
  | FKey _ _ _ n => [n]
  end.
Definition all_nonces (c : case) : list bytes := flat_map file_nonces (c_files c).

Fixpoint memb (x : bytes) (l : list bytes) : bool :=
  match l with [] => false | y :: r => bytes_eqb x y || memb x r end.
Fixpoint nodupb (l : list bytes) : bool :=
  match l with [] => true | x :: r => negb (memb x r) && nodupb r end.
Definition nonzero_nonce (n : bytes) : bool := Nat.eqb (length n) 16 && existsb (fun b => negb (b =? 0)%N) n.

Definition layout_ok (c : case) : bool := forallb file_ok (c_files c).
Definition nonces_ok (c : case) : bool := nodupb (all_nonces c) && forallb nonzero_nonce (all_nonces c).
Definition no_leak (c : case) : bool := forallb (fun h => fst h && snd h) (c_hits c).

(* the linearisability hypothesis, checked: concurrent draws never return the same bytes *)
Definition conc_ok (c : case) : bool :=
  forallb (fun o => match o with
                    | (expected, collected, distinct, dups) =>
                        ((expected <=? collected) && (collected =? distinct))%N &&
                        match dups with [] => true | _ => false end
                    end) (c_conc c).

Definition check_C04 (c : case) : bool := layout_ok c && nonces_ok c && no_leak c && conc_ok c.

Definition check_case (c : case) : nat :=
  if negb (layout_ok c) then 2
  else if negb (nonces_ok c) then 3
  else if negb (no_leak c) then 4
  else if negb (conc_ok c) then 5
  else if Nat.eqb (length (c_hits c)) (c_public_expected c) then 0 else 1.

End C04m.
