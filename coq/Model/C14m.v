(* C14: readers never see a snapshot whose data is not yet indexed.
   Model: writers (backup, copy, ... under a non-exclusive lock: no removals) are operation streams
   SavePack / SaveIdx / SaveSnap; a stream is disciplined (wfb) when every index entry names a pack saved
   before and every snapshot needs only blobs that are indexed before (repository.Flush: packs then
   index; archiver: SaveSnapshot after the blob uploader finished).  The repository sees an arbitrary
   interleaving (run_sched).  A reader lists snapshots at t1 and index files at t2.
   Executable model + the oracles for the observed reader / writer traces.

   check_case codes: 0 ok; 2 a reader lists/loads the index before it lists the snapshots (or loads a
   snapshot it did not list before the index); 3 a writer saved a pack after its last index or the
   snapshot before the last index / pack, or (decoded uploads) an index entry naming a pack not saved
   before / a snapshot needing a blob that no index saved before lists in an existing pack; 4 a reader failed although every writer was disciplined
   (a backup ran between the reader's two listings, or the reader ran between two uploads of a backup). *)
From Restic Require Import Base.Prelude.

Module C14m.

Definition blob := nat.
Definition pack := nat.

Inductive op :=
| SavePack (p : pack)
| SaveIdx (es : list (blob * pack))
| SaveSnap (needs : list blob).

Record view := mkView { v_packs : list pack; v_idx : list (blob * pack) }.

Definition apply (v : view) (o : op) : view :=
  match o with
  | SavePack p => mkView (p :: v_packs v) (v_idx v)
  | SaveIdx es => mkView (v_packs v) (es ++ v_idx v)
  | SaveSnap _ => v
  end.

Definition memn (x : nat) (l : list nat) : bool := existsb (Nat.eqb x) l.

Definition indexedb (v : view) (b : blob) : bool :=
  existsb (fun e => andb (Nat.eqb (fst e) b) (memn (snd e) (v_packs v))) (v_idx v).

(* guard of one operation under the files present so far *)
Definition okb (v : view) (o : op) : bool :=
  match o with
  | SavePack _ => true
  | SaveIdx es => forallb (fun e => memn (snd e) (v_packs v)) es
  | SaveSnap ns => forallb (indexedb v) ns
  end.

Fixpoint wfb (v : view) (tr : list op) : bool :=
  match tr with
  | [] => true
  | o :: r => andb (okb v o) (wfb (apply v o) r)
  end.

Definition view_of (v : view) (tr : list op) : view := fold_left apply tr v.

(* arbitrary scheduler: sched names the writer that moves next *)
Fixpoint set_nth {A} (n : nat) (x : A) (l : list A) : list A :=
  match l, n with
  | [], _ => []
  | _ :: r, O => x :: r
  | y :: r, S k => y :: set_nth k x r
  end.

Fixpoint run_sched (streams : list (list op)) (sched : list nat) : list op :=
  match sched with
  | [] => []
  | w :: r =>
      match nth_error streams w with
      | Some (o :: rest) => o :: run_sched (set_nth w rest streams) r
      | _ => run_sched streams r
      end
  end.

Fixpoint snaps_of (tr : list op) : list (list blob) :=
  match tr with
  | [] => []
  | SaveSnap ns :: r => ns :: snaps_of r
  | _ :: r => snaps_of r
  end.

(* what a reader gets: snapshots listed after t1 operations, index (and packs) after t2 operations *)
Definition reader_ok (v : view) (tr : list op) (t1 t2 : nat) : bool :=
  forallb (fun ns => forallb (indexedb (view_of v (firstn t2 tr))) ns) (snaps_of (firstn t1 tr)).

(* ---- observed traces ---- *)
Inductive rop := RListSnap | RListIdx | RLoadSnap (n : nat) | RLoadIdx (n : nat) | RUse | ROther.
(* RUse: a pack file is read (trees / data of some snapshot) *)

(* listed: snapshot ids listed so far (ids are given by the harness as the position in the listing order:
   an id >= nlisted was not in a listing); after the index listing no new snapshot may be used *)
Fixpoint reader_orderb (seen_snaplist seen_idxlist : bool) (tr : list rop) : bool :=
  match tr with
  | [] => true
  | RListSnap :: r => if seen_idxlist then false else reader_orderb true seen_idxlist r
  | RListIdx :: r => if seen_snaplist then reader_orderb seen_snaplist true r else false
  | RLoadIdx _ :: r => if seen_snaplist then reader_orderb seen_snaplist seen_idxlist r else false
  | RLoadSnap _ :: r => if seen_snaplist then reader_orderb seen_snaplist seen_idxlist r else false
  | RUse :: r => reader_orderb seen_snaplist seen_idxlist r
  | ROther :: r => reader_orderb seen_snaplist seen_idxlist r
  end.

(* long-running readers (mount) list snapshots again and again and reload the index after each listing
   that brought something new: whenever repository data is used, the index must have been listed after the
   most recent snapshot listing (fresh) *)
Fixpoint reader_freshb (fresh : bool) (tr : list rop) : bool :=
  match tr with
  | [] => true
  | RListSnap :: r => reader_freshb false r
  | RListIdx :: r => reader_freshb true r
  | RUse :: r => if fresh then reader_freshb fresh r else false
  | _ :: r => reader_freshb fresh r
  end.

Inductive wop := WPack | WIdx | WSnap | WOther.

(* type-level shape of a writer's uploads (backup, copy, rewrite, tag, ...): whenever a snapshot is saved,
   every pack saved before it is followed by an index upload (dirty = a pack was saved since the last
   index).  Later batches may upload packs again (copy saves one batch of snapshots after the other). *)
Fixpoint writer_orderb (dirty : bool) (tr : list wop) : bool :=
  match tr with
  | [] => true
  | WPack :: r => writer_orderb true r
  | WIdx :: r => writer_orderb false r
  | WSnap :: r => if dirty then false else writer_orderb dirty r
  | WOther :: r => writer_orderb dirty r
  end.

Inductive case :=
| CReader (tr : list rop) (failed : bool)
| CMount (tr : list rop) (failed : bool)     (* mount: index, root listing, every snapshot directory read *)
| CWriter (tr : list wop) (reader_failures : nat)
| CWriterSem (v0 : view) (tr : list op).   (* decoded uploads of one backup: packs, index contents, snapshot needs *)

Definition check_C14 (c : case) : bool :=
  match c with
  | CReader tr failed => andb (reader_orderb false false tr) (negb failed)
  | CMount tr failed => andb (reader_freshb true tr) (negb failed)
  | CWriter tr n => andb (writer_orderb false tr) (Nat.eqb n 0)
  | CWriterSem v0 tr => wfb v0 tr
  end.

Definition check_case (c : case) : nat :=
  match c with
  | CReader tr failed => if negb (reader_orderb false false tr) then 2 else if failed then 4 else 0
  | CMount tr failed => if negb (reader_freshb true tr) then 2 else if failed then 4 else 0
  | CWriter tr n => if negb (writer_orderb false tr) then 3 else if Nat.eqb n 0 then 0 else 4
  | CWriterSem v0 tr => if wfb v0 tr then 0 else 3
  end.

End C14m.
