(* C10: a full prune (max-unused 0, no repack limit) leaves no waste and reports accurate statistics.
   Executable model of decidePackAction + the totals of PlanPrune (internal/repository/prune.go) at
   that option point, on top of the shared packInfoFromIndex model; ground-truth oracle over the
   index/pack listings before and after. *)
From Restic Require Import Base.Prelude Model.S_Prune Gen.ParamsC10.

Module C10m.
Import SPrune.
Open Scope N_scope.

Definition kc : consts :=
  mkC (Z.to_N ParamsC10.pack_header_size) (Z.to_N ParamsC10.pack_plain_entry_size) (Z.to_N ParamsC10.pack_entry_size).
Definition min_pack : N := Z.to_N ParamsC10.min_pack_size.

Record dopts := mkO { o_version : N; o_small : N; o_cacheable : bool; o_uncomp : bool }.

(* insertion sort, ascending *)
Fixpoint ins (x : N) (l : list N) : list N :=
  match l with [] => [x] | y :: r => if x <=? y then x :: l else y :: ins x r end.
Definition sortN (l : list N) : list N := fold_right ins [] l.

(* calculateTargetPacksize *)
Definition target_size (o : dopts) (s : st) (pks : list N) : N :=
  let t := match pks with
           | [] => 0
           | _ => let sizes := sortN (map (fun p => usedS (ip s p) + unusedS (ip s p)) pks) in
                  let i := N.to_nat (N.of_nat (length pks) * 3 / 100) in
                  N.max min_pack (nth i sizes 0) * 4 / 5
           end in
  if 0 <? o_small o then o_small o else t.

Record dst := mkD {
  d_first : list N; d_remove : list N; d_cand : list (N * pinfo); d_small : list (N * pinfo);
  d_unref : N; d_pused : N; d_punused : N; d_ppartly : N; d_uncomp : N; d_keep : N;
  d_brem : N; d_srem : N; d_seen : list N; d_kept : list N; d_err : bool }.

Definition total (p : pinfo) : N := unusedS p + usedS p.

Definition d_step (o : dopts) (s : st) (pks : list N) (tgt : N) (d : dst) (x : N * N) : dst :=
  let id := fst x in let size := snd x in
  if negb (memN id pks) then
    mkD (id :: d_first d) (d_remove d) (d_cand d) (d_small d) (d_unref d + size) (d_pused d) (d_punused d)
        (d_ppartly d) (d_uncomp d) (d_keep d) (d_brem d) (d_srem d) (d_seen d) (d_kept d) (d_err d)
  else
  let p := ip s id in
  if negb (total p =? size) && negb (usedB p =? 0) then
    mkD (d_first d) (d_remove d) (d_cand d) (d_small d) (d_unref d) (d_pused d) (d_punused d)
        (d_ppartly d) (d_uncomp d) (d_keep d) (d_brem d) (d_srem d) (id :: d_seen d) (d_kept d) true
  else
  let pu := if usedB p =? 0 then 0 else if unusedB p =? 0 then 1 else 0 in
  let pn := if usedB p =? 0 then 1 else 0 in
  let pp := if usedB p =? 0 then 0 else if unusedB p =? 0 then 0 else 1 in
  let un := if uncomp p then total p else 0 in
  let mustc := (2 <=? o_version o) && ((tpe p =? 2) || o_uncomp o) && uncomp p in
  let d1 := mkD (d_first d) (d_remove d) (d_cand d) (d_small d) (d_unref d) (d_pused d + pu) (d_punused d + pn)
                (d_ppartly d + pp) (d_uncomp d + un) (d_keep d) (d_brem d) (d_srem d) (id :: d_seen d) (d_kept d) (d_err d) in
  if usedB p =? 0 then
    mkD (d_first d1) (id :: d_remove d1) (d_cand d1) (d_small d1) (d_unref d1) (d_pused d1) (d_punused d1)
        (d_ppartly d1) (d_uncomp d1) (d_keep d1) (d_brem d1 + unusedB p) (d_srem d1 + unusedS p) (d_seen d1) (d_kept d1) (d_err d1)
  else if o_cacheable o && (tpe p =? 1) then
    mkD (d_first d1) (d_remove d1) (d_cand d1) (d_small d1) (d_unref d1) (d_pused d1) (d_punused d1)
        (d_ppartly d1) (d_uncomp d1) (d_keep d1 + 1) (d_brem d1) (d_srem d1) (d_seen d1) (id :: d_kept d1) (d_err d1)
  else if (unusedB p =? 0) && negb (tpe p =? 0) && negb mustc then
    if tgt <=? size then
      mkD (d_first d1) (d_remove d1) (d_cand d1) (d_small d1) (d_unref d1) (d_pused d1) (d_punused d1)
          (d_ppartly d1) (d_uncomp d1) (d_keep d1 + 1) (d_brem d1) (d_srem d1) (d_seen d1) (id :: d_kept d1) (d_err d1)
    else
      mkD (d_first d1) (d_remove d1) (d_cand d1) ((id, p) :: d_small d1) (d_unref d1) (d_pused d1) (d_punused d1)
          (d_ppartly d1) (d_uncomp d1) (d_keep d1) (d_brem d1) (d_srem d1) (d_seen d1) (d_kept d1) (d_err d1)
  else
    mkD (d_first d1) (d_remove d1) ((id, p) :: d_cand d1) (d_small d1) (d_unref d1) (d_pused d1) (d_punused d1)
        (d_ppartly d1) (d_uncomp d1) (d_keep d1) (d_brem d1) (d_srem d1) (d_seen d1) (d_kept d1) (d_err d1).

Inductive outcome :=
  | EIncomplete | EPanic | ESize | EMissing
  | Plan (first remove repack ignore keep : list N) (stats : list N).

Definition sumN (l : list N) : N := fold_left N.add l 0.
Definition lenN {A} (l : list A) : N := N.of_nat (length l).

(* keepBlobs as PlanPrune computes it (ex = removePacks + repackPacks + ignorePacks, fix d2ae2f7f5) *)
Definition keep_blobs (used : list N) (es : list entry) (rmrep : list N) : list N :=
  filter (fun h => negb (existsb (fun e => if e_h e =? h then negb (memN (e_pack e) rmrep) else false) es))
         (dedupN used []).

Definition plan_prune (o : dopts) (used : list N) (es : list entry) (listing : list (N * N)) : outcome :=
  match pack_info kc used es with
  | RIncomplete => EIncomplete
  | RPanic => EPanic
  | ROk s =>
    let pks := packs_of es in
    let tgt := target_size o s pks in
    let d := fold_left (d_step o s pks tgt) listing
               (mkD [] [] [] [] 0 0 0 0 0 0 0 0 [] [] false) in
    if d_err d then ESize else
    let missing := filter (fun p => negb (memN p (d_seen d))) pks in
    if existsb (fun p => negb (usedB (ip s p) =? 0)) missing then EMissing else
    let ignore := missing in
    let brem := d_brem d + sumN (map (fun p => unusedB (ip s p)) missing) in
    let srem := d_srem d + sumN (map (fun p => unusedS (ip s p)) missing) in
    let few := N.of_nat (length (d_small d)) <? 10 in
    let keepn := if few then d_keep d + N.of_nat (length (d_small d)) else d_keep d in
    let cands := if few then d_cand d else d_cand d ++ d_small d in
    let kept := if few then map fst (d_small d) ++ d_kept d else d_kept d in
    let b_repack := sumN (map (fun c => unusedB (snd c) + usedB (snd c)) cands) in
    let s_repack := sumN (map (fun c => total (snd c)) cands) in
    let b_repackrm := sumN (map (fun c => unusedB (snd c)) cands) in
    let s_repackrm := sumN (map (fun c => unusedS (snd c)) cands) in
    let uncompressed := d_uncomp d - sumN (map (fun c => if uncomp (snd c) then total (snd c) else 0) cands) in
    let uncompressed := if o_version o <? 2 then 0 else uncompressed in
    let b := sts s in
    let repack := map fst cands in
    let b_total := s_usedB b + s_unusedB b + s_dupB b in
    let b_rmtotal := brem + b_repackrm in
    let s_total := s_usedS b + s_dupS b + s_unusedS b + d_unref d in
    let s_rmtotal := srem + s_repackrm + d_unref d in
    let p_unref := lenN (d_first d) in
    let keep := match repack with [] => [] | _ => keep_blobs used es (d_remove d ++ repack ++ ignore) end in
    Plan (d_first d) (d_remove d) repack ignore keep
      [ (* Blobs *) s_usedB b; s_dupB b; s_unusedB b; b_total; b_repack; b_repackrm; brem; b_rmtotal; b_total - b_rmtotal;
        (* Size *) s_usedS b; s_dupS b; s_unusedS b; d_unref d; uncompressed; s_total; s_repack; s_repackrm; srem;
                   s_rmtotal; s_total - s_rmtotal; s_dupS b + s_unusedS b - srem - s_repackrm;
        (* Packs *) d_pused d; d_punused d; d_ppartly d; p_unref; d_pused d + d_ppartly d + d_punused d + p_unref;
                    keepn; lenN repack; lenN (d_remove d); p_unref + lenN (d_remove d) ]
  end.

(* ---------- comparison of projected observables ---------- *)
Definition subsetN (a b : list N) : bool := forallb (fun x => memN x b) a.
Definition seteqN (a b : list N) : bool := subsetN a b && subsetN b a.
Fixpoint listN_eqb (a b : list N) : bool :=
  match a, b with
  | [], [] => true
  | x :: a', y :: b' => (x =? y) && listN_eqb a' b'
  | _, _ => false
  end.

Definition outcome_eqb (a b : outcome) : bool :=
  match a, b with
  | EIncomplete, EIncomplete | EPanic, EPanic | ESize, ESize | EMissing, EMissing => true
  | Plan f1 r1 p1 i1 k1 s1, Plan f2 r2 p2 i2 k2 s2 =>
      seteqN f1 f2 && seteqN r1 r2 && seteqN p1 p2 && seteqN i1 i2 && seteqN k1 k2 && listN_eqb s1 s2
  | _, _ => false
  end.

(* ---------- case + ground-truth oracle ---------- *)
(* after = index entries / pack listing after the completed prune (empty when planning failed) *)
Record case := mk {
  c_opts : dopts; c_used : list N; c_es : list entry; c_listing : list (N * N);
  c_obs : outcome; c_after_es : list entry; c_after_packs : list N }.

Fixpoint nodupb (l : list N) : bool :=
  match l with [] => true | x :: r => negb (memN x r) && nodupb r end.

Definition st_nth (s : list N) (i : nat) : N := nth i s 0.

(* lengths preserved by repacking: every after entry has a before entry with the same handle and
   length, and no handle has before entries of different lengths *)
Definition len_preserved (es after : list entry) : bool :=
  forallb (fun a => existsb (fun e => (e_h e =? e_h a) && (e_len e =? e_len a)) es) after &&
  forallb (fun e => forallb (fun e' => if e_h e =? e_h e' then e_len e =? e_len e' else true) es) es.

Definition oracle (c : case) : nat :=
  match c_obs c with
  | EPanic => 2%nat
  | EIncomplete | ESize | EMissing => 0%nat
  | Plan first remove repack ignore keep s =>
      let es := c_es c in let after := c_after_es c in
      let used := c_used c in
      let full := negb (o_cacheable (c_opts c)) in
      let idxpacks := packs_of es in
      let listed := map fst (c_listing c) in
      let unref := filter (fun x => negb (memN (fst x) idxpacks)) (c_listing c) in
      let apacks := packs_of after in
      let gone := filter (fun p => negb (memN p (c_after_packs c))) listed in
      let survive := filter (fun p => memN p (c_after_packs c)) listed in
      (* index after: only used blobs, each once; packs = indexed packs *)
      if full && negb (forallb (fun e => memN (e_h e) used) after) then 2%nat
      else if full && negb (nodupb (map e_h after)) then 3%nat
      else if negb (seteqN apacks (c_after_packs c)) then 4%nat
      else if negb (forallb (fun h => existsb (fun e => e_h e =? h) after) used) then 4%nat
      (* statistics "before" *)
      else if negb (st_nth s 3 =? lenN es) then 5%nat
      else if negb (st_nth s 0 =? lenN (dedupN used [])) then 5%nat
      else if negb (st_nth s 25 =? lenN (c_listing c)) then 5%nat
      else if negb (st_nth s 24 =? lenN unref) then 5%nat
      else if negb (st_nth s 12 =? sumN (map snd unref)) then 5%nat
      else if negb (st_nth s 14 =? sumN (map e_len es) + sumN (map snd unref)) then 5%nat
      (* statistics "after" *)
      else if full && negb (st_nth s 8 =? lenN after) then 6%nat
      else if full && negb (st_nth s 26 =? lenN survive) then 6%nat
      else if full && negb (st_nth s 29 + st_nth s 27 =? lenN gone) then 6%nat
      else if full && negb (st_nth s 20 =? 0) then 6%nat
      else if full && len_preserved es after && negb (st_nth s 19 =? sumN (map e_len after)) then 6%nat
      else 0%nat
  end.

Definition check_C10 (c : case) : bool := Nat.eqb (oracle c) 0.

Definition check_case (c : case) : nat :=
  match oracle c with
  | O => if outcome_eqb (c_obs c) (plan_prune (c_opts c) (c_used c) (c_es c) (c_listing c)) then 0%nat else 1%nat
  | n => n
  end.

End C10m.
