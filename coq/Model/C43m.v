(* C43: streamPack / streamPackPart / packBlobIterator (internal/repository/repository.go). Executable model only.

   A request is a pack.Blob reduced to (id label, offset, length).  The environment says which (id, offset,
   length) triples are intact blobs really stored in the pack (only those decrypt and hash to their id),
   how long the pack file is, which backend loads fail, for which ids the fallback loadBlobFn succeeds (or
   that there is no fallback), and which invocation of the callback returns an error.  Observables: the
   ranges requested from the backend, the callback invocations (id, outcome) in order, and the result. *)
From Restic Require Import Base.Prelude Gen.ParamsC43.

Module C43m.
Open Scope Z_scope.

Definition max_chunk_size := ParamsC43.max_chunk_size.     (* maxChunkSize = 2 * DefaultPackSize *)
Definition max_unused_range := ParamsC43.max_unused_range. (* maxUnusedRange *)
Definition nonce_size := ParamsC43.nonce_size.

Record req := mkReq { r_id : N; r_off : Z; r_len : Z }.

(* blobs.Sort(): by offset (insertion sort; requests with equal offsets are never both delivered) *)
Fixpoint insert (x : req) (l : list req) : list req :=
  match l with
  | [] => [x]
  | y :: r => if r_off x <? r_off y then x :: l else y :: insert x r
  end.
Fixpoint sort (l : list req) : list req := match l with [] => [] | x :: r => insert x (sort r) end.

Record env := mkEnv {
  e_good : list req;        (* intact blobs stored in the pack *)
  e_size : Z;               (* pack size: a load reaching beyond it comes back short *)
  e_loadfail : list nat;    (* indices of the backend loads that fail *)
  e_fb : option (list N);   (* None: loadBlobFn == nil; Some ids: the fallback load succeeds for these ids *)
  e_cbfail : option nat     (* index of the handleBlobFn invocation that returns an error *)
}.

(* callback outcomes: 0 = error passed, 1 = correct plaintext, 2 = no error but wrong plaintext *)
Record tr := mkTr { t_loads : list (Z * Z); t_cbs : list (N * N) }.
Inductive result := ROk | RErr | RPanic.

Definition req_eqb (a b : req) : bool := (r_id a =? r_id b)%N && (r_off a =? r_off b) && (r_len a =? r_len b).
Definition mem_req (x : req) (l : list req) : bool := existsb (req_eqb x) l.
Definition mem_N (x : N) (l : list N) : bool := existsb (N.eqb x) l.
Definition mem_nat (x : nat) (l : list nat) : bool := existsb (Nat.eqb x) l.
Definition fb_ok (e : env) (id : N) : bool := match e_fb e with Some ids => mem_N id ids | None => false end.

(* handleBlobFn(handle, buf, err): records the invocation; true = the callback returned an error *)
Definition callback (e : env) (t : tr) (id : N) (ok : bool) : tr * bool :=
  (mkTr (t_loads t) (t_cbs t ++ [(id, if ok then 1%N else 0%N)]),
   match e_cbfail e with Some j => Nat.eqb j (length (t_cbs t)) | None => false end).

(* the loop over the blobs of a part after a failed download *)
Fixpoint fallback_all (e : env) (t : tr) (part : list req) : tr * result :=
  match part with
  | [] => (t, ROk)
  | b :: r => let '(t', cerr) := callback e t (r_id b) (fb_ok e (r_id b)) in
              if cerr then (t', RErr) else fallback_all e t' r
  end.

(* packBlobIterator.Next + the body of streamPackPart's loop; cur = currentOffset, dend = end of the buffer *)
Fixpoint iterate (e : env) (t : tr) (cur dend : Z) (part : list req) : tr * result :=
  match part with
  | [] => (t, ROk)
  | b :: r =>
      let skip := r_off b - cur in
      if skip <? 0 then (t, RErr)                       (* overlapping blobs *)
      else if dend - cur <? skip then (t, RErr)         (* Discard beyond the buffer *)
      else if dend - r_off b <? r_len b then (t, RErr)  (* ReadFull beyond the buffer *)
      else if r_len b <=? nonce_size then (t, RErr)     (* invalid blob length *)
      else
        let intact := mem_req b (e_good e) in
        let ok := intact || fb_ok e (r_id b) in         (* damaged: try the fallback copy *)
        let '(t', cerr) := callback e t (r_id b) ok in
        if cerr then (t', RErr) else iterate e t' (r_off b + r_len b) dend r
  end.

Definition stream_part (e : env) (t : tr) (part : list req) : tr * result :=
  match part with
  | [] => (t, RPanic)                                    (* blobs[0] *)
  | first :: _ =>
      let lst := last part first in
      let start := r_off first in
      let dend := r_off lst + r_len lst in
      if dend - start <? 0 then (t, RPanic)              (* make([]byte, negative) *)
      else
        let k := length (t_loads t) in
        let t1 := mkTr (t_loads t ++ [(start, dend - start)]) (t_cbs t) in
        if mem_nat k (e_loadfail e) || (e_size e <? dend) then
          match e_fb e with
          | None => (t1, RErr)
          | Some _ => fallback_all e t1 part
          end
        else iterate e t1 start dend part
  end.

(* the loop of streamPack: cur = blobs[lowerIdx:i] (current part), lower = its first offset, lastpos *)
Fixpoint stream_go (e : env) (t : tr) (cur : list req) (lower lastpos : Z) (l : list req) : tr * result :=
  match l with
  | [] => stream_part e t cur
  | b :: r =>
      if r_off b <? lastpos then (t, RErr)               (* overlapping blobs in pack *)
      else
        let lower' := match cur with [] => r_off b | _ => lower end in
        let after := r_off b + r_len b - lower' in
        let split := (match cur with [] => false | _ => true end && (after >=? max_chunk_size))
                     || (r_off b - lastpos >? max_unused_range) in
        if split then
          match stream_part e t cur with
          | (t', ROk) => stream_go e t' [b] (r_off b) (r_off b + r_len b) r
          | (t', x) => (t', x)
          end
        else stream_go e t (cur ++ [b]) lower' (r_off b + r_len b) r
  end.

Definition stream_pack (e : env) (reqs : list req) : tr * result :=
  match sort reqs with
  | [] => (mkTr [] [], ROk)
  | first :: rest => stream_go e (mkTr [] []) [] (r_off first) (r_off first) (first :: rest)
  end.

(* ---------- Repository.LoadBlob / loadBlob: the per-copy loop used as streamPackPart's fallback ---------- *)
(* one index entry (copy) of a blob: pack label, offset, stored length, size of that pack file, whether the
   stored bytes are intact, whether downloads from that pack fail *)
Record copy := mkCopy { cp_pack : N; cp_off : Z; cp_len : Z; cp_psize : Z; cp_intact : bool; cp_dlfail : bool }.
Inductive lres := LOk | LErr.

(* loadBlob: blen/bcap = len(buf)/cap(buf); the buffer is re-sized for every copy from that copy's length *)
Fixpoint load_go (cs : list copy) (blen bcap : Z) : lres :=
  match cs with
  | [] => LErr                                        (* lastError / "loading ... failed" *)
  | c :: r =>
      let '(blen', bcap') :=
        if bcap <? cp_len c then (cp_len c, cp_len c)             (* buf = make([]byte, Length) *)
        else if negb (blen =? cp_len c) then (cp_len c, bcap)     (* buf = buf[:Length] *)
        else (blen, bcap) in
      if cp_dlfail c || (cp_psize c <? cp_off c + blen') then load_go r blen' bcap'   (* backend.ReadAt fails *)
      else if blen' <? cp_len c then load_go r blen' bcap'        (* iterator: ReadFull(Length) beyond the buffer *)
      else if cp_len c <=? nonce_size then load_go r blen' bcap'  (* invalid blob length *)
      else if cp_intact c then LOk                                (* decrypt, decompress, hash *)
      else load_go r blen' bcap'
  end.

(* LoadBlob: index lookup (no entry: error), first pass, on error a second pass with a fresh buffer *)
Definition load_blob (cs : list copy) (blen bcap : Z) : lres :=
  match cs with
  | [] => LErr
  | _ => match load_go cs blen bcap with LOk => LOk | LErr => load_go cs 0 0 end
  end.

Definition usable (c : copy) : bool :=
  cp_intact c && negb (cp_dlfail c) && (cp_off c + cp_len c <=? cp_psize c) && (nonce_size <? cp_len c).

(* blobsInPack: for a requested handle, the first index entry that lies in the pack (then break) *)
Fixpoint first_in_pack (pk : N) (cs : list copy) : option copy :=
  match cs with [] => None | c :: r => if (cp_pack c =? pk)%N then Some c else first_in_pack pk r end.

(* LoadBlobsFromPack(pack, [handle]) of a blob with these copies: streamPack with the real LoadBlob as fallback *)
Definition stream_one (cs : list copy) (pk : N) : option (tr * result) :=
  match first_in_pack pk cs with
  | None => None                                      (* "blob not found in pack": error before streaming *)
  | Some c =>
      let good := map (fun x => mkReq 1 (cp_off x) (cp_len x))
                      (filter (fun x => (cp_pack x =? pk)%N && cp_intact x) cs) in
      let e := mkEnv good (cp_psize c) (if cp_dlfail c then [0%nat] else [])
                     (Some (match load_blob cs 0 0 with LOk => [1%N] | LErr => [] end)) None in
      Some (stream_pack e [mkReq 1 (cp_off c) (cp_len c)])
  end.

(* ---------- cases ---------- *)
Record scase := mkCase { c_env : env; c_reqs : list req; c_loads : list (Z * Z); c_cbs : list (N * N); c_res : result }.

Definition res_eqb (a b : result) : bool :=
  match a, b with ROk, ROk | RErr, RErr | RPanic, RPanic => true | _, _ => false end.
Definition ids (l : list req) : list N := map r_id l.
Definition N_list_eqb (a b : list N) : bool := list_eqb N.eqb a b.

(* no download can fail: no scripted failure and every request lies inside the pack *)
Definition no_load_failure (e : env) (reqs : list req) : bool :=
  match e_loadfail e with [] => forallb (fun b => r_off b + r_len b <=? e_size e) reqs | _ => false end.

(* oracle: 0 holds; 2 a blob was called back twice / out of order / not requested; 3 success although a
   requested blob got no callback; 4 a blob whose fallback copy is loadable was reported as error;
   5 plaintext delivered without error is not the blob's content, or an unavailable blob reported ok; 6 panic;
   7 no download failed, yet an intact (or fallback-loadable) blob was reported as error; 8 callbacks continued
   after the callback returned an error, or that error was swallowed *)
Definition soracle (c : scase) : nat :=
  let sorted := sort (c_reqs c) in
  let n := length (c_cbs c) in
  match c_res c with
  | RPanic => 6%nat
  | _ =>
    if negb (N_list_eqb (map fst (c_cbs c)) (ids (firstn n sorted)) && Nat.leb n (length sorted)) then 2%nat
    else if res_eqb (c_res c) ROk && negb (Nat.eqb n (length sorted)) then 3%nat
    else if negb (forallb (fun cb => negb (fb_ok (c_env c) (fst cb)) || (snd cb =? 1)%N) (c_cbs c)) then 4%nat
    else if negb (forallb (fun p => match snd (snd p) with
                                    | 0%N => true
                                    | 1%N => mem_req (fst p) (e_good (c_env c)) || fb_ok (c_env c) (fst (snd p))
                                    | _ => false
                                    end) (combine (firstn n sorted) (c_cbs c))) then 5%nat
    else if no_load_failure (c_env c) (c_reqs c)
            && negb (forallb (fun p => negb (snd (snd p) =? 0)%N
                                       || negb (mem_req (fst p) (e_good (c_env c)) || fb_ok (c_env c) (fst (snd p))))
                             (combine (firstn n sorted) (c_cbs c))) then 7%nat
    else if negb (match e_cbfail (c_env c) with
                  | Some j => Nat.leb n (S j) && (negb (Nat.ltb j n) || res_eqb (c_res c) RErr)
                  | None => true
                  end) then 8%nat
    else 0%nat
  end.


Definition pair_eqb (a b : Z * Z) : bool := (fst a =? fst b) && (snd a =? snd b).
Definition cb_eqb (a b : N * N) : bool := (fst a =? fst b)%N && (snd a =? snd b)%N.
Definition smodel_agrees (c : scase) : bool :=
  let '(t, r) := stream_pack (c_env c) (c_reqs c) in
  list_eqb pair_eqb (t_loads t) (c_loads c) && list_eqb cb_eqb (t_cbs t) (c_cbs c) && res_eqb r (c_res c).


Inductive case :=
| CS (s : scase)
  (* CL copies pk lb cbs res: a real repository holds one blob in these copies (index lookup order);
     lb = outcome of Repository.LoadBlob (0 error, 1 correct plaintext, 2 wrong plaintext);
     cbs/res = callback outcomes and result of Repository.LoadBlobsFromPack(pack pk, [blob]) *)
| CL (cs : list copy) (pk : N) (lb : N) (cbs : list (N * N)) (res : result).

(* oracle clauses for CL: 9 LoadBlob fails although a usable copy exists (or succeeds without one, or returns
   wrong data); 10 LoadBlobsFromPack does not call back exactly once with the blob (or an error iff no copy
   is usable) *)
Definition oracle_code (c : case) : nat :=
  match c with
  | CS s => soracle s
  | CL cs pk lb cbs res =>
      let want := if existsb usable cs then 1%N else 0%N in
      if negb (lb =? want)%N then 9%nat
      else match first_in_pack pk cs with
           | None => 0%nat
           | Some _ =>
               match cbs, res with
               | [(i, o)], ROk => if (i =? 1)%N && (o =? want)%N then 0%nat else 10%nat
               | _, _ => 10%nat
               end
           end
  end.

Definition check_C43 (c : case) : bool := Nat.eqb (oracle_code c) 0.

Definition model_agrees (c : case) : bool :=
  match c with
  | CS s => smodel_agrees s
  | CL cs pk lb cbs res =>
      (lb =? (match load_blob cs 0 0 with LOk => 1 | LErr => 0 end))%N
      && match stream_one cs pk with
         | None => true
         | Some (t, r) => list_eqb cb_eqb (t_cbs t) cbs && res_eqb r res
         end
  end.

Definition check_case (c : case) : nat :=
  match oracle_code c with
  | O => if model_agrees c then 0%nat else 1%nat
  | n => n
  end.

End C43m.
