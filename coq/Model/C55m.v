(* C55: outcome of `restic backup` over per-item read results.
   Anchors: cmd/restic/cmd_backup.go (filterExisting/collectTargets, arch.Error -> success=false ->
   ErrInvalidSourceData), cmd/restic/main.go (exit code switch), internal/archiver/archiver.go
   (save: filterNotExist/filterError, saveDir/dirToNodeAndEntries, saveTree leaf handling),
   internal/archiver/tree_saver.go (errFn on failed futures).  Executable model only. *)
From Restic Require Import Base.Prelude.

Module C55m.

Inductive kind := KFile | KDir | KOther | KSocket.

(* where the file system answers with an error for this item (at most one per item) *)
Inductive fault :=
  | Ok
  | VanishOpen      (* OpenFile(metadata) -> not exist: vanished since readdir *)
  | VanishStat      (* first Stat -> not exist: vanished since readdir *)
  | ErrOpen         (* OpenFile(metadata) -> other error *)
  | ErrStat         (* first Stat -> other error (e.g. EACCES) *)
  | ErrReopen       (* MakeReadable fails (EACCES on a 000 file/dir as non-root) *)
  | GoneReopen      (* MakeReadable -> not exist: the item was lstat'ed, then removed *)
  | ErrRestat       (* Stat on the opened file fails *)
  | TypeChanged     (* the opened item is no longer a regular file / directory *)
  | ErrNode         (* ToNode fails without a node (nodeFromFileInfo) *)
  | ErrReaddir      (* Readdirnames fails without returning a name *)
  | ErrReaddirPartial (* Readdirnames returns a non-empty prefix of the names AND an error (listing breaks
                         off part-way): dirToNodeAndEntries rejects the whole directory, nothing of it is saved *)
  | ErrRead.        (* reading the file content fails (fileSaver -> future error -> treeSaver errFn) *)

(* directory contents as first-child / next-sibling *)
Inductive tree := Nil | Node (id : N) (k : kind) (f : fault) (sub rest : tree).

Inductive outcome := Saved | Skipped | Failed.   (* in snapshot | silently left out | arch.Error called *)

(* Archiver.save for one directory entry / target: what happens to the item itself *)
Definition save_outcome (k : kind) (f : fault) : outcome :=
  match f with
  | VanishOpen | VanishStat => Skipped            (* filterError (filterNotExist err) *)
  | ErrOpen | ErrStat => Failed
  | _ =>
    match k with
    | KFile => match f with
               | ErrReopen | GoneReopen | ErrRestat | TypeChanged | ErrNode | ErrRead => Failed
               | _ => Saved
               end
    | KDir => match f with
              | ErrReopen | GoneReopen | ErrNode | TypeChanged | ErrReaddir | ErrReaddirPartial => Failed
              | _ => Saved
              end
    | KSocket => Skipped                           (* "is a socket, ignoring" *)
    | KOther => match f with ErrNode => Failed | _ => Saved end
    end
  end.

(* saveDir / saveTree: entries in order; a failed or skipped entry is left out and the loop
   continues (arch.Error returned nil); children of a directory are visited only when the
   directory itself is saved.  Result: ids in the snapshot, ids reported through arch.Error. *)
Fixpoint walk (t : tree) : list N * list N :=
  match t with
  | Nil => ([], [])
  | Node id k f sub rest =>
      let '(sr, er) := walk rest in
      match save_outcome k f with
      | Saved =>
          match k with
          | KDir => let '(ss, es) := walk sub in (id :: ss ++ sr, es ++ er)
          | _ => (id :: sr, er)
          end
      | Skipped => (sr, er)
      | Failed => (sr, id :: er)
      end
  end.

(* command line targets: does Lstat succeed in filterExisting, and the item itself *)
Record target := mkT { t_exists : bool; t_tree : tree }.

Inductive errclass := ENone | EInvalidSource | EFatal | EOtherErr.

Record result := mkRes {
  r_err : errclass;           (* what runBackup returns *)
  r_snapshot : bool;          (* a snapshot was saved *)
  r_saved : list N;           (* source items in it *)
  r_errors : list N           (* items reported through arch.Error *)
}.

Fixpoint walk_targets (ts : list target) : list N * list N :=
  match ts with
  | [] => ([], [])
  | t :: r => let '(s1, e1) := if t_exists t then walk (t_tree t) else ([], []) in
              let '(s2, e2) := walk_targets r in (s1 ++ s2, e1 ++ e2)
  end.

(* runBackup: collectTargets/filterExisting, then the archiver; success flag *)
Definition backup (ts : list target) : result :=
  if forallb (fun t => negb (t_exists t)) ts then mkRes EFatal false [] []      (* ErrNoSourceData *)
  else
    let '(saved, errs) := walk_targets ts in
    let success := forallb t_exists ts && match errs with [] => true | _ => false end in
    mkRes (if success then ENone else EInvalidSource) true saved errs.

(* main(): exit code switch *)
Definition exit_code (e : errclass) : N :=
  match e with ENone => 0 | EInvalidSource => 3 | EFatal => 1 | EOtherErr => 1 end.

(* ---- declarative side ---- *)

(* the item [id] is reached with (kind, fault): every ancestor directory was saved *)
Fixpoint reached (t : tree) (id : N) (k : kind) (f : fault) : Prop :=
  match t with
  | Nil => False
  | Node i k' f' sub rest =>
      (i = id /\ k' = k /\ f' = f)
      \/ (k' = KDir /\ save_outcome k' f' = Saved /\ reached sub id k f)
      \/ reached rest id k f
  end.

Definition reached_ts (ts : list target) (id : N) (k : kind) (f : fault) : Prop :=
  exists t, In t ts /\ t_exists t = true /\ reached (t_tree t) id k f.

(* ---- correspondence cases ---- *)

Record case := mk {
  c_targets : list target;
  c_err : errclass;            (* error class returned by the command *)
  c_exit : option N;           (* process exit status, when run as a subprocess *)
  c_snapshot : bool;           (* a new snapshot exists *)
  c_saved : list N;            (* ids of source items listed in the snapshot, ascending *)
  c_errors : option (list N)   (* ids of items in "error" messages, ascending, if observed *)
}.

Fixpoint insert (x : N) (l : list N) : list N :=
  match l with
  | [] => [x]
  | y :: r => if N.leb x y then x :: l else y :: insert x r
  end.
Definition sortN (l : list N) : list N := fold_right insert [] l.

Definition nlist_eqb (a b : list N) : bool := list_eqb N.eqb a b.

Definition errclass_eqb (a b : errclass) : bool :=
  match a, b with
  | ENone, ENone | EInvalidSource, EInvalidSource | EFatal, EFatal | EOtherErr, EOtherErr => true
  | _, _ => false
  end.

(* some target is missing or some reached item has a failing fault *)
Definition incomplete (ts : list target) : bool :=
  negb (forallb t_exists ts) || match snd (walk_targets ts) with [] => false | _ => true end.

(* verified oracle: status and snapshot contents demanded by the property *)
Definition status_ok (c : case) : bool :=
  if forallb (fun t => negb (t_exists t)) (c_targets c) then
    errclass_eqb (c_err c) EFatal && negb (c_snapshot c)
  else
    errclass_eqb (c_err c) (if incomplete (c_targets c) then EInvalidSource else ENone) && c_snapshot c.

Definition exit_ok (c : case) : bool :=
  match c_exit c with None => true | Some x => N.eqb x (exit_code (c_err c)) end.

Definition saved_ok (c : case) : bool :=
  nlist_eqb (c_saved c) (sortN (fst (walk_targets (c_targets c)))).

Definition check_C55 (c : case) : bool := status_ok c && exit_ok c && saved_ok c.

(* 0 ok; 1 error reports differ from the model; 2 wrong status; 3 wrong exit code; 4 wrong snapshot contents *)
Definition check_case (c : case) : nat :=
  if negb (status_ok c) then 2
  else if negb (exit_ok c) then 3
  else if negb (saved_ok c) then 4
  else match c_errors c with
       | None => 0
       | Some es => if nlist_eqb es (sortN (r_errors (backup (c_targets c)))) then 0 else 1
       end.

End C55m.
