(* C18: restore never touches anything outside the target directory.
   Executable model only (no proofs):
   - a file system with symbolic links: physical paths -> entries, Linux/Go resolution rules
     (every intermediate component follows symlinks; Lstat/Remove/Mkdir/Symlink/open(O_NOFOLLOW)
     do not follow the last component; Stat/MkdirAll/chmod do),
   - internal/restorer/restorer.go: traverseTreeInner as a generator of visitor events
     (order/duplicate check, name check, socket skip, SelectFilter, hasRestored, file name tracking),
     RestoreTo pass 1 (ensureDirBelow/ensureDir, shouldOverwrite), restoreFiles/createFile at path level
     (internal/restorer/fileswriter.go), pass 2 (restoreNodeTo, restoreNodeMetadataTo -> chmod follows
     symlinks, removeUnexpectedFiles), with the CLI's error callback (errors are reported and ignored).
   Restore runs as root: an operation fails only for structural reasons (ENOENT, ENOTDIR, ELOOP,
   ENOTEMPTY, EEXIST, EISDIR). File content is an abstract content number. *)
From Restic Require Import Base.Prelude.

Module C18m.

Definition name := bytes.
Definition path := list name.

Definition path_eqb (p q : path) : bool := list_eqb bytes_eqb p q.

Fixpoint prefixb (p q : path) : bool :=
  match p, q with
  | [], _ => true
  | x :: p', y :: q' => andb (bytes_eqb x y) (prefixb p' q')
  | _ :: _, [] => false
  end.

Inductive entry :=
| EDir (m : N)
| EFile (c m : N)
| ELink (t : path)
| ESpec (m : N).

(* physical path -> entry; first binding wins; [None] = deleted *)
Definition fsT := list (path * option entry).

Fixpoint look (fs : fsT) (p : path) : option entry :=
  match fs with
  | [] => None
  | (q, e) :: r => if path_eqb q p then e else look r p
  end.

Definition set (fs : fsT) (p : path) (e : entry) : fsT := (p, Some e) :: fs.
Definition del (fs : fsT) (p : path) : fsT := (p, None) :: fs.
(* remove p and everything below it *)
Definition rmall (fs : fsT) (p : path) : fsT :=
  filter (fun b => negb (prefixb p (fst b))) fs.

Definition present (fs : fsT) (p : path) : bool :=
  match look fs p with Some _ => true | None => false end.

(* some present entry strictly below p *)
Definition has_child (fs : fsT) (p : path) : bool :=
  existsb (fun b => andb (andb (prefixb p (fst b)) (negb (path_eqb p (fst b)))) (present fs (fst b))) fs.

Fixpoint mem_name (n : name) (l : list name) : bool :=
  match l with [] => false | x :: r => orb (bytes_eqb n x) (mem_name n r) end.

Fixpoint dedup (l : list name) : list name :=
  match l with [] => [] | x :: r => if mem_name x r then dedup r else x :: dedup r end.

(* names of the entries directly below directory p (first component below p of any present descendant) *)
Definition children (fs : fsT) (p : path) : list name :=
  dedup (flat_map (fun b =>
     if andb (andb (prefixb p (fst b)) (negb (path_eqb p (fst b)))) (present fs (fst b))
     then match skipn (length p) (fst b) with n :: _ => [n] | [] => [] end
     else []) fs).

(* ---- path resolution ---- *)
Inductive rres := ROk (p : path) | RNoEnt | RErr.

Definition link_fuel : nat := 40.

(* resolve a path all of whose components must be (symlinks to) directories.
   [walk cur rest]: cur = physical directory reached so far. *)
Fixpoint resolve (fuel : nat) (fs : fsT) : path -> path -> rres :=
  fix walk (cur rest : path) : rres :=
    match rest with
    | [] => ROk cur
    | c :: rest' =>
        match look fs (cur ++ [c]) with
        | Some (EDir _) => walk (cur ++ [c]) rest'
        | Some (ELink t) =>
            match fuel with
            | O => RErr
            | S f => resolve f fs [] (t ++ rest')
            end
        | Some _ => RErr
        | None => RNoEnt
        end
    end.

Definition resolve_dir (fs : fsT) (p : path) : rres := resolve link_fuel fs [] p.

(* physical location of the last component (not followed) *)
Definition locate (fs : fsT) (p : path) : rres :=
  match rev p with
  | [] => ROk []
  | n :: rpar =>
      match resolve_dir fs (rev rpar) with
      | ROk q => ROk (q ++ [n])
      | r => r
      end
  end.

Inductive lres := LFound (q : path) (e : entry) | LNoEnt | LErr.

Definition lstat (fs : fsT) (p : path) : lres :=
  match p with
  | [] => LFound [] (EDir 0)
  | _ =>
    match locate fs p with
    | ROk q => match look fs q with Some e => LFound q e | None => LNoEnt end
    | RNoEnt => LNoEnt
    | RErr => LErr
    end
  end.

Inductive st := Ok | NoEnt | Err.

Definition is_dir (e : entry) : bool := match e with EDir _ => true | _ => false end.

(* os.Remove *)
Definition remove (fs : fsT) (p : path) : fsT * st :=
  match lstat fs p with
  | LFound q e =>
      match p with
      | [] => (fs, Err)
      | _ => if andb (is_dir e) (has_child fs q) then (fs, Err) else (del fs q, Ok)
      end
  | LNoEnt => (fs, NoEnt)
  | LErr => (fs, Err)
  end.

(* create a new entry at p (Mkdir, Symlink, Mknod, open(O_CREAT|O_EXCL)): fails if something exists *)
Definition create (fs : fsT) (p : path) (e : entry) : fsT * st :=
  match p with
  | [] => (fs, Err)
  | _ =>
    match locate fs p with
    | ROk q => match look fs q with Some _ => (fs, Err) | None => (set fs q e, Ok) end
    | RNoEnt => (fs, NoEnt)
    | RErr => (fs, Err)
    end
  end.

Definition mode_dir_default : N := 448.   (* 0700 *)
Definition mode_file_default : N := 384.  (* 0600 *)

(* os.MkdirAll on the reversed path *)
Fixpoint mkdirall_r (fs : fsT) (rp : path) : fsT * st :=
  match resolve_dir fs (rev rp) with
  | ROk _ => (fs, Ok)
  | _ =>
      match rp with
      | [] => (fs, Err)
      | _ :: rpar =>
          match mkdirall_r fs rpar with
          | (fs1, Ok) =>
              match create fs1 (rev rp) (EDir mode_dir_default) with
              | (fs2, Ok) => (fs2, Ok)
              | (fs2, _) =>
                  match lstat fs2 (rev rp) with
                  | LFound _ (EDir _) => (fs2, Ok)
                  | _ => (fs2, Err)
                  end
              end
          | r => r
          end
      end
  end.

Definition mkdirall (fs : fsT) (p : path) : fsT * st := mkdirall_r fs (rev p).

(* Restorer.ensureDir *)
Definition ensure_dir (fs : fsT) (p : path) : fsT * st :=
  match lstat fs p with
  | LErr => (fs, Err)
  | LNoEnt => mkdirall fs p
  | LFound _ e =>
      if is_dir e then mkdirall fs p
      else match remove fs p with
           | (fs1, Ok) => mkdirall fs1 p
           | (fs1, _) => (fs1, Err)
           end
  end.

(* Restorer.ensureDirBelow(base, base/rel): every directory from base downwards, in order;
   rel = [] is ensureDir(base). *)
Fixpoint ensure_chain (fs : fsT) (base : path) (rel : path) : fsT * st :=
  match rel with
  | [] => (fs, Ok)
  | c :: rel' =>
      match ensure_dir fs (base ++ [c]) with
      | (fs1, Ok) => ensure_chain fs1 (base ++ [c]) rel'
      | r => r
      end
  end.

Definition ensure_below (fs : fsT) (base rel : path) : fsT * st :=
  match rel with
  | [] => ensure_dir fs base
  | _ => ensure_chain fs base rel
  end.

(* physical path of the entry p refers to when the last component is followed too (chmod, stat) *)
Fixpoint follow (k : nat) (fs : fsT) (p : path) : option path :=
  match locate fs p with
  | ROk q =>
      match q with
      | [] => Some []
      | _ =>
        match look fs q with
        | Some (ELink t) => match k with O => None | S k' => follow k' fs t end
        | Some _ => Some q
        | None => None
        end
      end
  | _ => None
  end.

Definition with_mode (e : entry) (m : N) : entry :=
  match e with
  | EDir _ => EDir m
  | EFile c _ => EFile c m
  | ESpec _ => ESpec m
  | ELink t => ELink t
  end.

(* os.Chmod: follows symlinks *)
Definition chmod (fs : fsT) (p : path) (m : N) : fsT :=
  match follow link_fuel fs p with
  | Some q => match look fs q with Some e => set fs q (with_mode e m) | None => fs end
  | None => fs
  end.

(* Restorer.restoreNodeMetadataTo for a non-symlink node: refuses when a symlink sits at the path
   (Lstat), otherwise chmod *)
Definition restore_meta (fs : fsT) (p : path) (m : N) : fsT :=
  match lstat fs p with
  | LFound _ (ELink _) => fs
  | _ => chmod fs p m
  end.

(* os.Link: the last component of old is not followed; the new name gets a copy of the entry (the shared
   inode is modelled by applying later metadata changes to both names, see restore_hardlink) *)
Definition link (fs : fsT) (old new : path) : fsT * st :=
  match lstat fs old with
  | LFound _ e => if is_dir e then (fs, Err) else create fs new e
  | _ => (fs, Err)
  end.

(* os.RemoveAll: last component not followed; missing = ok *)
Definition remove_all (fs : fsT) (p : path) : fsT * st :=
  match p with
  | [] => (fs, Err)
  | _ =>
    match locate fs p with
    | ROk q => (rmall fs q, Ok)
    | RNoEnt => (fs, Ok)
    | RErr => (fs, Err)
    end
  end.

(* fileswriter.go createFile followed by the blob writes: the file at p ends with content c.
   open(O_CREATE|O_WRONLY|O_NOFOLLOW): regular file -> reused (mode kept), absent -> created 0600,
   symlink (ELOOP) / directory (EISDIR) / special -> removed (Remove, or RemoveAll with --delete)
   and created with O_EXCL. *)
Definition restore_file (fs : fsT) (p : path) (c : N) (allow_rec : bool) : fsT * st :=
  match p with
  | [] => (fs, Err)
  | _ =>
    match locate fs p with
    | ROk q =>
        match look fs q with
        | None => (set fs q (EFile c mode_file_default), Ok)
        | Some (EFile _ m) => (set fs q (EFile c m), Ok)
        | Some _ =>
            match (if allow_rec then remove_all fs p else remove fs p) with
            | (fs1, Ok) =>
                match create fs1 p (EFile c mode_file_default) with
                | (fs2, Ok) => (fs2, Ok)
                | (fs2, _) => (fs2, Err)
                end
            | (fs1, _) => (fs1, Err)
            end
        end
    | RNoEnt => (fs, NoEnt)
    | RErr => (fs, Err)
    end
  end.

(* ---- snapshot trees ---- *)
Inductive node :=
| NFile (n : name) (c m : N)
| NDir (n : name) (m : N) (sub : list node)
| NLink (n : name) (t : path)
| NSpec (n : name) (m : N)
| NSock (n : name)
| NHard (n : name) (c m ino : N).   (* regular file with Links > 1; ino identifies its inode in the snapshot *)

Definition node_name (nd : node) : name :=
  match nd with
  | NFile n _ _ | NDir n _ _ | NLink n _ | NSpec n _ | NSock n | NHard n _ _ _ => n
  end.

(* byte-wise string order, Go: a <= b *)
Fixpoint bytes_leb (a b : bytes) : bool :=
  match a, b with
  | [], _ => true
  | _ :: _, [] => false
  | x :: a', y :: b' => if N.ltb x y then true else if N.ltb y x then false else bytes_leb a' b'
  end.

(* filepath.Base(filepath.Join("/", name)) == name: non-empty, no separator, not "." or ".." *)
Definition valid_name (n : name) : bool :=
  match n with
  | [] => false
  | _ =>
    andb (negb (existsb (N.eqb 47) n))
         (andb (negb (bytes_eqb n [46%N])) (negb (bytes_eqb n [46%N; 46%N])))
  end.

(* visitor events of traverseTree; directories are given relative to the restore target *)
Inductive ev :=
| EvEnter (d : path)
| EvVisit (d : path) (nd : node) (loc : path)
| EvLeave (d : path) (m : option N) (loc : path) (keep : list name).

(* SelectFilter(location, isDir) = (selectedForRestore, childMayBeSelected) *)
Definition selT := path -> bool -> bool * bool.

Record tres := mkT { t_evs : list ev; t_names : list name; t_restored : bool; t_invalid : bool }.

(* the loop of traverseTreeInner over the nodes of one tree; [f] handles one accepted node
   (recursion into subtrees is passed in so that the nested recursion is structural) *)
Definition tloop (f : node -> tres) : list node -> bool -> name -> tres :=
  fix go (l : list node) (first : bool) (last : name) : tres :=
    match l with
    | [] => mkT [] [] false false
    | nd :: r =>
        let n := node_name nd in
        if andb (negb first) (bytes_leb n last) then
          let t := go r first last in mkT (t_evs t) (t_names t) (t_restored t) true
        else
          let t := go r false n in
          if negb (valid_name n) then mkT (t_evs t) (n :: t_names t) (t_restored t) true
          else
            let x := f nd in
            mkT (t_evs x ++ t_evs t) (n :: t_names t)
                (orb (t_restored x) (t_restored t)) (orb (t_invalid x) (t_invalid t))
    end.

Fixpoint tnode (sel : selT) (d loc : path) (nd : node) {struct nd} : tres :=
  let n := node_name nd in
  let d' := d ++ [n] in
  let loc' := loc ++ [n] in
  match nd with
  | NSock _ => mkT [] [] false false
  | NDir _ m sub =>
      let '(s, ch) := sel loc' true in
      let t := if ch then tloop (tnode sel d' loc') sub true [] else mkT [] [] false false in
      let enter := if s then [EvEnter d'] else [] in
      let leave := if orb s (t_restored t) then [EvLeave d' (Some m) loc' (t_names t)] else [] in
      mkT (enter ++ t_evs t ++ leave) [] (orb s (t_restored t)) (t_invalid t)
  | _ =>
      let '(s, _) := sel loc' false in
      mkT (if s then [EvVisit d nd loc'] else []) [] s false
  end.

Definition traverse (sel : selT) (tree : list node) : tres :=
  let t := tloop (tnode sel [] []) tree true [] in
  mkT (EvEnter [] :: t_evs t ++ (if t_restored t then [EvLeave [] None [] (t_names t)] else []))
      (t_names t) (t_restored t) (t_invalid t).

(* ---- RestoreTo ---- *)
Record opts := mkO {
  o_delete : bool;
  o_always : bool;     (* --overwrite always / if-changed: shouldOverwrite is true without looking *)
  o_existing : bool    (* otherwise: overwrite an existing destination? (if-newer with newer nodes: true;
                          if-newer with older nodes, never: false) *)
}.

(* shouldOverwrite: None = Lstat failed with something other than ENOENT *)
Definition should_overwrite (o : opts) (fs : fsT) (p : path) : option bool :=
  if o_always o then Some true
  else match lstat fs p with
       | LNoEnt => Some true
       | LErr => None
       | LFound _ _ => Some (o_existing o)
       end.

(* content number of files whose data pack is missing: the download fails, createFile is never reached *)
Definition bad_content : N := 5.

Record p1state := mkP { p_fs : fsT; p_files : list (path * N); p_tracked : list path;
                        p_idx : list (N * path) (* HardlinkIndex: inode -> first location *) }.

Fixpoint idx_find (ino : N) (l : list (N * path)) : option path :=
  match l with
  | [] => None
  | (i, v) :: r => if N.eqb i ino then Some v else idx_find ino r
  end.

(* the regular-file part of pass 1's visitNode: overwrite check, registration with the file restorer *)
Definition reg_file (o : opts) (T : path) (fs1 : fsT) (s : p1state) (idx : list (N * path))
           (d : path) (n : name) (c : N) (loc : path) : p1state :=
  match should_overwrite o fs1 (T ++ d ++ [n]) with
  | Some true => mkP fs1 (p_files s ++ [(T ++ d ++ [n], c)]) (loc :: p_tracked s) idx
  | _ => mkP fs1 (p_files s) (p_tracked s) idx
  end.

Definition pass1_ev (o : opts) (T : path) (s : p1state) (e : ev) : p1state :=
  match e with
  | EvEnter d => mkP (fst (ensure_below (p_fs s) T d)) (p_files s) (p_tracked s) (p_idx s)
  | EvVisit d nd loc =>
      match ensure_below (p_fs s) T d with
      | (fs1, Ok) =>
          match nd with
          | NFile n c _ => reg_file o T fs1 s (p_idx s) d n c loc
          | NHard n c _ ino =>
              match idx_find ino (p_idx s) with
              | Some _ => mkP fs1 (p_files s) (p_tracked s) (p_idx s)   (* later link of a known inode *)
              | None => reg_file o T fs1 s ((ino, loc) :: p_idx s) d n c loc
              end
          | _ => mkP fs1 (p_files s) (p_tracked s) (p_idx s)
          end
      | (fs1, _) => mkP fs1 (p_files s) (p_tracked s) (p_idx s)
      end
  | EvLeave _ _ _ _ => s
  end.

Definition restore_files (allow_rec : bool) (fs : fsT) (files : list (path * N)) : fsT :=
  fold_left (fun f pc => if N.eqb (snd pc) bad_content then f
                         else fst (restore_file f (fst pc) (snd pc) allow_rec)) files fs.

Fixpoint mem_path (p : path) (l : list path) : bool :=
  match l with [] => false | x :: r => orb (path_eqb p x) (mem_path p r) end.

(* restoreNodeTo: Remove (ENOENT ignored), create, metadata *)
Definition restore_node (fs : fsT) (p : path) (e : entry) (chm : option N) : fsT :=
  match remove fs p with
  | (fs1, Err) => fs1
  | (fs1, _) =>
      match create fs1 p e with
      | (fs2, Ok) => match chm with Some m => restore_meta fs2 p m | None => fs2 end
      | (fs2, _) => fs2
      end
  end.

(* restoreHardlinkAt: Remove, Link to the first location, metadata (on the shared inode) *)
Definition restore_hardlink (fs : fsT) (old new : path) (m : N) : fsT :=
  match remove fs new with
  | (fs1, Err) => fs1
  | (fs1, _) =>
      match link fs1 old new with
      | (fs2, Ok) => restore_meta (restore_meta fs2 new m) old m
      | (fs2, _) => fs2
      end
  end.

(* removeUnexpectedFiles(target, location, keep) *)
Definition remove_unexpected (sel : selT) (fs : fsT) (p loc : path) (keep : list name) : fsT * st :=
  match lstat fs p with
  | LNoEnt => (fs, Ok)
  | LErr => (fs, Err)
  | LFound q e =>
      if is_dir e then
        (fold_left (fun f n =>
            if mem_name n keep then f
            else if fst (sel (loc ++ [n]) false) then fst (remove_all f (p ++ [n])) else f)
          (children fs q) fs, Ok)
      else (fs, Err)
  end.

Definition pass2_ev (o : opts) (sel : selT) (delete2 : bool) (T : path) (tracked : list path)
           (idx : list (N * path)) (fs : fsT) (e : ev) : fsT :=
  match e with
  | EvEnter _ => fs
  | EvVisit d nd loc =>
      let p := T ++ d ++ [node_name nd] in
      match nd with
      | NLink _ t =>
          match should_overwrite o fs p with
          | Some true => restore_node fs p (ELink t) None
          | _ => fs
          end
      | NSpec _ m =>
          match should_overwrite o fs p with
          | Some true => restore_node fs p (ESpec mode_file_default) (Some m)
          | _ => fs
          end
      | NFile _ _ m => if mem_path loc tracked then restore_meta fs p m else fs
      | NHard _ _ m ino =>
          match idx_find ino idx with
          | Some v =>
              if path_eqb v loc then (if mem_path loc tracked then restore_meta fs p m else fs)
              else match should_overwrite o fs p with
                   | Some true => restore_hardlink fs (T ++ v) p m
                   | _ => fs
                   end
          | None => if mem_path loc tracked then restore_meta fs p m else fs
          end
      | _ => fs
      end
  | EvLeave d mo loc keep =>
      let p := T ++ d in
      match (if delete2 then remove_unexpected sel fs p loc keep else (fs, Ok)) with
      | (fs1, Ok) => match mo with Some m => restore_meta fs1 p m | None => fs1 end
      | (fs1, _) => fs1
      end
  end.

Definition restore (o : opts) (sel : selT) (T : path) (tree : list node) (fs : fsT) : fsT :=
  match mkdirall fs T with
  | (fs0, Ok) =>
      let t := traverse sel tree in
      let s1 := fold_left (pass1_ev o T) (t_evs t) (mkP fs0 [] [] []) in
      let fs2 := restore_files (o_delete o) (p_fs s1) (p_files s1) in
      let delete2 := andb (o_delete o) (negb (t_invalid t)) in
      fold_left (pass2_ev o sel delete2 T (p_tracked s1) (p_idx s1)) (t_evs t) fs2
  | (fs0, _) => fs0
  end.

(* ---- cases: whole scratch world W; target T below it; everything else is "outside" ---- *)
(* observable view: the listed paths with their entries *)
Definition view := list (path * entry).

Definition entry_eqb (a b : entry) : bool :=
  match a, b with
  | EDir m, EDir m' => N.eqb m m'
  | EFile c m, EFile c' m' => andb (N.eqb c c') (N.eqb m m')
  | ELink t, ELink t' => path_eqb t t'
  | ESpec m, ESpec m' => N.eqb m m'
  | _, _ => false
  end.

Definition fs_of_view (v : view) : fsT := map (fun b => (fst b, Some (snd b))) v.

(* all present paths of fs (deduplicated by lookup) *)
Definition keys (fs : fsT) : list path :=
  fold_right (fun b acc => if mem_path (fst b) acc then acc else fst b :: acc) [] fs.

Definition opt_entry_eqb := option_eqb entry_eqb.

(* fs and the observed view agree on every path either mentions, restricted by [keep] *)
Definition agree_on (keep : path -> bool) (fs : fsT) (v : fsT) : bool :=
  forallb (fun p => orb (negb (keep p)) (opt_entry_eqb (look fs p) (look v p)))
          (keys fs ++ keys v).

(* filter table: (location, isDir) -> (selected, childMayBeSelected); default = not selected *)
Definition ftab := list (path * bool * (bool * bool)).
Fixpoint sel_of (all : bool) (tab : ftab) (loc : path) (isdir : bool) : bool * bool :=
  match tab with
  | [] => if all then (true, true) else (false, false)
  | (l, d, r) :: rest => if andb (path_eqb l loc) (Bool.eqb d isdir) then r else sel_of all rest loc isdir
  end.

Record case := mk {
  c_T : path;                 (* restore target (relative to the scratch world root) *)
  c_pre : view;               (* whole world before *)
  c_tree : list node;
  c_opts : opts;
  c_all : bool;               (* no include/exclude filter *)
  c_tab : ftab;               (* SelectFilter answers observed from the real filter functions *)
  c_post : view;              (* whole world after (observed) *)
  c_out_xattr : bool          (* observed: some entry outside the target carries an extended attribute afterwards
                                 (none does before) *)
}.

(* static well-formedness of an event list *)
Definition ev_dir (e : ev) : path :=
  match e with EvEnter d => d | EvVisit d _ _ => d | EvLeave d _ _ _ => d end.

Definition leaf_of (e : ev) : list path :=
  match e with EvVisit d nd _ => [d ++ [node_name nd]] | _ => [] end.
Definition leaves (evs : list ev) : list path := flat_map leaf_of evs.

Fixpoint nodup_paths (l : list path) : bool :=
  match l with [] => true | x :: r => andb (negb (mem_path x r)) (nodup_paths r) end.

Definition wf_ev (used lvs ensured : list path) (e : ev) : bool :=
  match e with
  | EvEnter _ => true
  | EvVisit d nd loc =>
      andb (forallb (fun y => negb (prefixb (d ++ [node_name nd]) y)) used)
           (path_eqb loc (d ++ [node_name nd]))
  | EvLeave d _ _ keep =>
      andb (forallb (fun y =>
              orb (orb (negb (prefixb d y)) (path_eqb d y))
                  (match skipn (length d) y with n :: _ => mem_name n keep | [] => true end)) (used ++ lvs))
           (existsb (fun y => prefixb d y) ensured)
  end.

Definition ensured_of (evs : list ev) : list path :=
  flat_map (fun e => match e with EvEnter d => [d] | EvVisit d _ _ => [d] | EvLeave _ _ _ _ => [] end) evs.

(* leaves never sit above a used directory and are pairwise distinct; deletions never hit a used
   directory or a leaf; every left directory has an ensured descendant-or-self *)
Definition wf_events (evs : list ev) : bool :=
  andb (forallb (wf_ev (map ev_dir evs) (leaves evs) (ensured_of evs)) evs)
       (nodup_paths (leaves evs)).

Definition outside (T : path) (p : path) : bool := negb (prefixb T p).

(* verified oracle: everything outside the target is exactly as before *)
Definition check_C18 (c : case) : bool :=
  andb (agree_on (outside (c_T c)) (fs_of_view (c_pre c)) (fs_of_view (c_post c)))
       (negb (c_out_xattr c)).

(* codes: 0 ok; 1 model <> implementation (whole world compared); 2 outside of the target changed;
   3 the traversal events of this case are not well-formed (proof hypothesis not met) *)
Definition check_case (c : case) : nat :=
  if check_C18 c then
    let sel := sel_of (c_all c) (c_tab c) in
    if wf_events (t_evs (traverse sel (c_tree c))) then
      if agree_on (fun _ => true)
           (restore (c_opts c) sel (c_T c) (c_tree c) (fs_of_view (c_pre c)))
           (fs_of_view (c_post c))
      then 0 else 1
    else 3
  else 2.

End C18m.
