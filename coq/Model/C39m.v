(* C39: dry runs and lock-free reads never modify the repository.
   Model of internal/backend/dryrun/dry_backend.go (modifying requests are answered without reaching the
   wrapped backend, reads pass through), of cmd/restic/lock.go (internalOpenWithLocked and its three
   wrappers) and of the per-command decision which opener is called with which flag.
   Executable model only.

   check_case codes: 0 ok; 1 model <> implementation (answers of the dry backend, lock taken / dry-run
   mode / rejection differ from the decision table);
   2 the store behind the dry backend changed; 3 an opener asked for dry-run/no-lock returned a repository
   that is not in dry-run mode or wrote a lock file; 4 a dry-run / no-lock command let a Save or Remove of a
   non-lock file reach the backend; 5 repository files differ before/after; 6 a lock file was nleft behind. *)
From Restic Require Import Base.Prelude.

Module C39m.

Definition handle := (nat * nat)%type.           (* file type, name *)
Definition store := list (handle * nat).         (* content id *)

Inductive op :=
| OSave (h : handle) (valid : bool) (d : nat)    (* valid = Handle.Valid() succeeds *)
| ORemove (h : handle)
| ODelete
| OLoad (h : handle)
| OStat (h : handle)
| OList (t : nat).

Inductive res := ROk | RErr | RData (d : nat) | RNames (l : list nat).

Definition handle_eqb (a b : handle) : bool := andb (Nat.eqb (fst a) (fst b)) (Nat.eqb (snd a) (snd b)).

Fixpoint lookup (s : store) (h : handle) : option nat :=
  match s with
  | [] => None
  | (k, d) :: r => if handle_eqb k h then Some d else lookup r h
  end.

Definition modifying (o : op) : bool :=
  match o with OSave _ _ _ | ORemove _ | ODelete => true | _ => false end.

(* a read request on the wrapped backend *)
Definition read (s : store) (o : op) : res :=
  match o with
  | OLoad h => match lookup s h with Some d => RData d | None => RErr end
  | OStat h => match lookup s h with Some _ => ROk | None => RErr end
  | OList t => RNames (map (fun e => snd (fst e)) (filter (fun e => Nat.eqb (fst (fst e)) t) s))
  | _ => ROk
  end.

(* dryrun.Backend: Save checks the handle and drops the data, Remove / Delete do nothing *)
Definition dry_step (s : store) (o : op) : store * res :=
  match o with
  | OSave _ valid _ => (s, if valid then ROk else RErr)
  | ORemove _ | ODelete => (s, ROk)
  | _ => (s, read s o)
  end.

Fixpoint dry_run (s : store) (l : list op) : store * list res :=
  match l with
  | [] => (s, [])
  | o :: r => let '(s1, x) := dry_step s o in let '(s2, xs) := dry_run s1 r in (s2, x :: xs)
  end.

(* the wrapper over an arbitrary backend step function *)
Definition wrap {S} (inner : S -> op -> S * res) (s : S) (o : op) : S * res :=
  match o with
  | OSave _ valid _ => (s, if valid then ROk else RErr)
  | ORemove _ | ODelete => (s, ROk)
  | _ => inner s o
  end.

(* ---- command wiring ---- *)
Inductive opener := ReadLock | AppendLock | ExclusiveLock.

Record wres := mkW { w_lock : bool; w_excl : bool; w_dry : bool }.

(* internalOpenWithLocked(dryRun := flag, exclusive) *)
Definition open_with (o : opener) (flag : bool) : wres :=
  if flag then mkW false false true
  else mkW true (match o with ExclusiveLock => true | _ => false end) false.

Inductive cmd := CBackup | CForget | CPrune | CRewrite (forget : bool) | CRepairSnapshots | CCheck | CReadOnly.

(* None = the command line is rejected before the repository is opened *)
Definition cmd_open (c : cmd) (dry nolock : bool) : option wres :=
  match c with
  | CBackup => Some (open_with AppendLock dry)
  | CForget | CPrune =>
      if andb nolock (negb dry) then None else Some (open_with ExclusiveLock (andb dry nolock))
  | CRewrite f => Some (open_with (if f then ExclusiveLock else AppendLock) dry)
  | CRepairSnapshots => Some (open_with ExclusiveLock dry)
  | CCheck => Some (open_with ExclusiveLock nolock)
  | CReadOnly => Some (open_with ReadLock nolock)
  end.

(* ---- cases ---- *)
Definition res_eqb (a b : res) : bool :=
  match a, b with
  | ROk, ROk | RErr, RErr => true
  | RData x, RData y => Nat.eqb x y
  | RNames x, RNames y => list_eqb Nat.eqb x y
  | _, _ => false
  end.

Definition store_eqb (a b : store) : bool :=
  list_eqb (fun x y => andb (handle_eqb (fst x) (fst y)) (Nat.eqb (snd x) (snd y))) a b.

Inductive case :=
| CDry (s0 : store) (ops : list op) (obs : list res) (s1 : store)
| CWire (o : opener) (flag : bool) (lock_taken lock_excl is_dry : bool) (locks_left : nat)
| CCmd (c : cmd) (dry nolock : bool) (rejected lock_taken : bool) (mods : nat) (same : bool) (locks_left : nat).

Definition check_C39 (k : case) : bool :=
  match k with
  | CDry s0 _ _ s1 => store_eqb s0 s1
  | CWire _ flag lock_taken _ is_dry nleft =>
      andb (if flag then andb is_dry (negb lock_taken) else true) (Nat.eqb nleft 0)
  | CCmd _ _ _ _ _ mods same nleft => andb (andb (Nat.eqb mods 0) same) (Nat.eqb nleft 0)
  end.

Definition check_case (k : case) : nat :=
  match k with
  | CDry s0 ops obs s1 =>
      if negb (store_eqb s0 s1) then 2
      else if list_eqb res_eqb (snd (dry_run s0 ops)) obs then 0 else 1
  | CWire o flag lt le isd nleft =>
      if negb (if flag then andb isd (negb lt) else true) then 3
      else if negb (Nat.eqb nleft 0) then 6
      else let m := open_with o flag in
           if andb (Bool.eqb (w_lock m) lt) (andb (Bool.eqb (w_excl m) le) (Bool.eqb (w_dry m) isd)) then 0 else 1
  | CCmd c dry nolock rej lt mods same nleft =>
      if negb (Nat.eqb mods 0) then 4
      else if negb same then 5
      else if negb (Nat.eqb nleft 0) then 6
      else match cmd_open c dry nolock with
           | None => if rej then 0 else 1
           | Some m => if andb (negb rej) (Bool.eqb (w_lock m) lt) then 0 else 1
           end
  end.

End C39m.
