(* C48: AssociatedSet (internal/repository/index/associated_data.go), for one blob type
   (the Go code keeps one value/isSet array pair per blob type, selected by bh.Type, and one
   overflow map keyed by the whole handle; the engine projects its observations per type).
   Executable model only. Handles and values are [N].
   The MasterIndex is abstracted to what AssociatedSet uses: [main] = handles of the entries of
   idx[0] in position order (duplicates allowed: the same blob stored in several packs),
   [rest] = handles of the entries of the other (not yet merged) indexes; Values() = main ++ rest,
   blobIndex(h) = 1 + position of the first entry for h in [main] (the stable first index proved in
   C56), -1 (None) if absent; len(value) = the array capacity fixed when the set was made. *)
From Restic Require Import Base.Prelude.
From Coq Require Import PeanoNat.

Module C48m.

Fixpoint upd {A} (l : list A) (i : nat) (x : A) : list A :=
  match l, i with
  | [], _ => []
  | _ :: r, O => x :: r
  | y :: r, S i' => y :: upd r i' x
  end.

Fixpoint find_from (k : nat) (l : list N) (h : N) : option nat :=
  match l with [] => None | x :: r => if N.eqb x h then Some k else find_from (S k) r h end.
Definition bidx (main : list N) (h : N) : option nat := find_from 1 main h.

(* the overflow map *)
Fixpoint assoc (h : N) (o : list (N * N)) : option N :=
  match o with [] => None | (k, v) :: r => if N.eqb k h then Some v else assoc h r end.
Fixpoint assoc_set (h v : N) (o : list (N * N)) : list (N * N) :=
  match o with
  | [] => [(h, v)]
  | (k, w) :: r => if N.eqb k h then (k, v) :: r else (k, w) :: assoc_set h v r
  end.
Fixpoint assoc_del (h : N) (o : list (N * N)) : list (N * N) :=
  match o with
  | [] => []
  | (k, w) :: r => if N.eqb k h then r else (k, w) :: assoc_del h r
  end.

(* value/isSet arrays as one list of options *)
Record aset := mkS { s_arr : list (option N); s_over : list (N * N) }.

Definition new_set (cap : nat) : aset := mkS (repeat None cap) [].

Fixpoint memn (i : nat) (l : list nat) : bool :=
  match l with [] => false | j :: r => if Nat.eqb j i then true else memn i r end.

Section WithIndex.
Variables main rest : list N.

(* idx := blobIndex(bh); idx >= len(bt.value) || idx == -1  => no slot *)
Definition slot (a : aset) (h : N) : option nat :=
  match bidx main h with
  | Some i => if i <? length (s_arr a) then Some i else None
  | None => None
  end.

Definition get (a : aset) (h : N) : option N :=
  match assoc h (s_over a) with
  | Some v => Some v
  | None => match slot a h with Some i => nth i (s_arr a) None | None => None end
  end.

Definition set (a : aset) (h v : N) : aset :=
  match assoc h (s_over a) with
  | Some _ => mkS (s_arr a) (assoc_set h v (s_over a))
  | None => match slot a h with
            | Some i => mkS (upd (s_arr a) i (Some v)) (s_over a)
            | None => mkS (s_arr a) (assoc_set h v (s_over a))
            end
  end.

Definition delete (a : aset) (h : N) : aset :=
  match assoc h (s_over a) with
  | Some _ => mkS (s_arr a) (assoc_del h (s_over a))
  | None => match slot a h with
            | Some i => mkS (upd (s_arr a) i None) (s_over a)
            | None => a
            end
  end.

(* the loop of All() over idx.Values(); [seen] models the seen[] bool array *)
Fixpoint scan (a : aset) (vals : list N) (seen : list nat) : list (N * N) :=
  match vals with
  | [] => []
  | h :: r =>
      match assoc h (s_over a) with
      | Some _ => scan a r seen
      | None =>
          match slot a h with
          | None => scan a r seen
          | Some i =>
              match nth i (s_arr a) None with
              | None => scan a r seen
              | Some v => if memn i seen then scan a r seen else (h, v) :: scan a r (i :: seen)
              end
          end
      end
  end.

Definition all (a : aset) : list (N * N) := s_over a ++ scan a (main ++ rest) [].
Definition len (a : aset) : nat := length (all a).

(* Intersect / Sub with [keep h] = other.Has(h) resp. !other.Has(h) *)
Definition restrict (a : aset) (keep : N -> bool) : aset :=
  fold_left (fun r hv => if keep (fst hv)
                         then set r (fst hv) (match get a (fst hv) with Some v => v | None => 0%N end)
                         else r)
            (all a) (new_set (S (length main))).

Inductive op := OSet (h v : N) | ODel (h : N).
Definition apply (a : aset) (o : op) : aset :=
  match o with OSet h v => set a h v | ODel h => delete a h end.
Definition run (a : aset) (ops : list op) : aset := fold_left apply ops a.

End WithIndex.

(* ---------- cases ---------- *)
(* a set made when idx[0] held [c_cap - 1] entries (c_cap - 1 <= length c_main), then [c_ops];
   observed: Len(), the (key,value) pairs of All(), Get for some handles, and the keys of
   Intersect / Sub with another set given as the list of handles it holds *)
Record case := mk { c_main : list N; c_rest : list N; c_cap : nat; c_ops : list op;
                    c_len : N; c_all : list (N * N); c_gets : list (N * option N);
                    c_other : list N; c_inter : list (N * N); c_sub : list (N * N) }.

Fixpoint memN (x : N) (l : list N) : bool :=
  match l with [] => false | y :: r => if N.eqb y x then true else memN x r end.
Fixpoint nodupb (l : list N) : bool :=
  match l with [] => true | x :: r => if memN x r then false else nodupb r end.
Definition pair_eqb (a b : N * N) : bool := andb (N.eqb (fst a) (fst b)) (N.eqb (snd a) (snd b)).
Definition optN_eqb := option_eqb N.eqb.

(* the abstract content: replay the ops on an association list *)
Definition ref_apply (m : list (N * N)) (o : op) : list (N * N) :=
  match o with OSet h v => assoc_set h v m | ODel h => assoc_del h m end.
Definition ref_run (ops : list op) : list (N * N) := fold_left ref_apply ops [].

(* [obs] lists exactly the bindings of [m], each key once *)
Definition same_map (obs m : list (N * N)) : bool :=
  andb (nodupb (map fst obs))
   (andb (Nat.eqb (length obs) (length m))
         (forallb (fun hv => optN_eqb (assoc (fst hv) m) (Some (snd hv))) obs)).

(* verified oracle. Codes: 2 All() reports a member twice  3 Len() <> number of distinct members
   4 All() is not the content  5 Get wrong  6 Intersect wrong  7 Sub wrong *)
Definition check_code (c : case) : nat :=
  let m := ref_run (c_ops c) in
  if negb (nodupb (map fst (c_all c))) then 2
  else if negb (N.eqb (c_len c) (N.of_nat (length m))) then 3
  else if negb (same_map (c_all c) m) then 4
  else if negb (forallb (fun g => optN_eqb (snd g) (assoc (fst g) m)) (c_gets c)) then 5
  else if negb (same_map (c_inter c) (filter (fun hv => memN (fst hv) (c_other c)) m)) then 6
  else if negb (same_map (c_sub c) (filter (fun hv => negb (memN (fst hv) (c_other c))) m)) then 7
  else 0.
Definition check_C48 (c : case) : bool := Nat.eqb (check_code c) 0.

Fixpoint sorted_ins (x : N * N) (l : list (N * N)) : list (N * N) :=
  match l with [] => [x] | y :: r => if N.leb (fst x) (fst y) then x :: l else y :: sorted_ins x r end.
Definition sortp (l : list (N * N)) : list (N * N) := fold_right sorted_ins [] l.

Definition check_case (c : case) : nat :=
  match check_code c with
  | O =>
      let a := run (c_main c) (new_set (c_cap c)) (c_ops c) in
      let keep := fun h => memN h (c_other c) in
      if andb (list_eqb pair_eqb (sortp (c_all c)) (sortp (all (c_main c) (c_rest c) a)))
         (andb (N.eqb (c_len c) (N.of_nat (len (c_main c) (c_rest c) a)))
         (andb (forallb (fun g => optN_eqb (snd g) (get (c_main c) a (fst g))) (c_gets c))
         (andb (list_eqb pair_eqb (sortp (c_inter c))
                  (sortp (all (c_main c) (c_rest c) (restrict (c_main c) (c_rest c) a keep))))
               (list_eqb pair_eqb (sortp (c_sub c))
                  (sortp (all (c_main c) (c_rest c) (restrict (c_main c) (c_rest c) a (fun h => negb (keep h)))))))))
      then 0 else 1
  | n => n
  end.


(* ================= two blob types (data = false, tree = true) =================
   The Go set keeps one value/isSet array pair per blob type (a.byType[bh.Type]) and one overflow
   map keyed by the whole handle; All() walks the overflow map and then MasterIndex.Values(), whose
   order is the concatenation over the sub-indexes (merged idx[0] first, then the not yet merged /
   in-memory ones), each sub-index listing its data entries and then its tree entries; seen[] is
   kept per type.  [main2] = entries of idx[0], [rest2] = entries of the other indexes, both in
   enumeration order with their types.  Each component [aset] is the per-type part (array pair +
   the overflow entries of that type). *)
Definition handle2 := (bool * N)%type.
Record aset2 := mkS2 { a_data : aset; a_tree : aset }.
Definition sel (a : aset2) (t : bool) : aset := if t then a_tree a else a_data a.
Definition upd_sel (a : aset2) (t : bool) (x : aset) : aset2 :=
  if t then mkS2 (a_data a) x else mkS2 x (a_tree a).
Definition proj (t : bool) (l : list handle2) : list N :=
  map snd (filter (fun h => Bool.eqb (fst h) t) l).
Definition new_set2 (capD capT : nat) : aset2 := mkS2 (new_set capD) (new_set capT).

Inductive op2 := OSet2 (h : handle2) (v : N) | ODel2 (h : handle2).

Section WithIndex2.
Variables main2 rest2 : list handle2.

Definition get2 (a : aset2) (h : handle2) : option N :=
  get (proj (fst h) main2) (sel a (fst h)) (snd h).
Definition set2 (a : aset2) (h : handle2) (v : N) : aset2 :=
  upd_sel a (fst h) (set (proj (fst h) main2) (sel a (fst h)) (snd h) v).
Definition delete2 (a : aset2) (h : handle2) : aset2 :=
  upd_sel a (fst h) (delete (proj (fst h) main2) (sel a (fst h)) (snd h)).

(* the Values() loop of All() with seen[type][idx] *)
Fixpoint scan2 (a : aset2) (vals : list handle2) (seenD seenT : list nat) : list (handle2 * N) :=
  match vals with
  | [] => []
  | h :: r =>
      let s := sel a (fst h) in
      match assoc (snd h) (s_over s) with
      | Some _ => scan2 a r seenD seenT
      | None =>
          match slot (proj (fst h) main2) s (snd h) with
          | None => scan2 a r seenD seenT
          | Some i =>
              match nth i (s_arr s) None with
              | None => scan2 a r seenD seenT
              | Some v =>
                  if memn i (if fst h then seenT else seenD) then scan2 a r seenD seenT
                  else (h, v) :: (if fst h then scan2 a r seenD (i :: seenT)
                                  else scan2 a r (i :: seenD) seenT)
              end
          end
      end
  end.

Definition all2 (a : aset2) : list (handle2 * N) :=
  map (fun e => ((false, fst e), snd e)) (s_over (a_data a)) ++
  map (fun e => ((true, fst e), snd e)) (s_over (a_tree a)) ++
  scan2 a (main2 ++ rest2) [] [].
Definition len2 (a : aset2) : nat := length (all2 a).

Definition apply2 (a : aset2) (o : op2) : aset2 :=
  match o with OSet2 h v => set2 a h v | ODel2 h => delete2 a h end.
Definition run2 (a : aset2) (ops : list op2) : aset2 := fold_left apply2 ops a.
End WithIndex2.

(* per-type views *)
Definition projr (t : bool) (l : list (handle2 * N)) : list (N * N) :=
  map (fun e => (snd (fst e), snd e)) (filter (fun e => Bool.eqb (fst (fst e)) t) l).
Fixpoint ops_of (t : bool) (ops : list op2) : list op :=
  match ops with
  | [] => []
  | OSet2 h v :: r => if Bool.eqb (fst h) t then OSet (snd h) v :: ops_of t r else ops_of t r
  | ODel2 h :: r => if Bool.eqb (fst h) t then ODel (snd h) :: ops_of t r else ops_of t r
  end.

(* a mixed-type observation: Len() and All() of one set over one MasterIndex *)
Record case2 := mk2 { c2_main : list handle2; c2_rest : list handle2; c2_capD : nat; c2_capT : nat;
                      c2_ops : list op2; c2_len : N; c2_all : list (handle2 * N) }.

Definition enc (h : handle2) : N := (2 * snd h + (if fst h then 1 else 0))%N.
Definition encl (l : list (handle2 * N)) : list (N * N) := map (fun e => (enc (fst e), snd e)) l.

(* Codes as for [check_code]: 2 a member reported twice, 3 Len() <> number of distinct members,
   4 All() is not the content (per type) *)
Definition check_code2 (c : case2) : nat :=
  let mD := ref_run (ops_of false (c2_ops c)) in
  let mT := ref_run (ops_of true (c2_ops c)) in
  if negb (nodupb (map fst (encl (c2_all c)))) then 2
  else if negb (N.eqb (c2_len c) (N.of_nat (length mD + length mT))) then 3
  else if negb (same_map (projr false (c2_all c)) mD) then 4
  else if negb (same_map (projr true (c2_all c)) mT) then 4
  else 0.
Definition check_C48_2 (c : case2) : bool := Nat.eqb (check_code2 c) 0.

Definition check_case2 (c : case2) : nat :=
  match check_code2 c with
  | O =>
      let a := run2 (c2_main c) (new_set2 (c2_capD c) (c2_capT c)) (c2_ops c) in
      if andb (list_eqb pair_eqb (sortp (encl (c2_all c))) (sortp (encl (all2 (c2_main c) (c2_rest c) a))))
              (N.eqb (c2_len c) (N.of_nat (len2 (c2_main c) (c2_rest c) a)))
      then 0 else 1
  | n => n
  end.

(* what the engine emits: per-type projections (K1) and whole mixed-type sets (K2) *)
Inductive anycase := K1 (c : case) | K2 (c : case2).
Definition check_any (c : anycase) : nat :=
  match c with K1 c1 => check_case c1 | K2 c2 => check_case2 c2 end.

End C48m.
