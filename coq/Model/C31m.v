(* C31: upgrading a repository to format v2 preserves all data.  Executable model only.
   Anchors: internal/repository/upgrade_repo.go (UpgradeRepo, upgradeRepository, re-upload of the
   old config), internal/migrations/upgrade_repo_v2.go.

   check_case codes: 0 ok; 1 model <> implementation (operations, result class, final config);
   2 no config file is left (or it does not open as version 1 or 2);
   3 a file other than the config was written, removed or changed; 4 after a successful upgrade the
   data is not restorable unchanged / check reports errors. *)
From Restic Require Import Base.Prelude.

Module C31m.

Inductive cfg := CNone | C1 | C2.            (* no config / the old (v1) file / the new (v2) file *)
Inductive cop := CRemove | CSave1 | CSave2.  (* operations on the config handle *)
Inductive result := ROk | RRecovered | RLost | RNotV1.
(* nil / error with successful re-upload / error with failed re-upload / "only upgrades from version 1" *)

Definition cfg_eqb (a b : cfg) : bool :=
  match a, b with CNone, CNone | C1, C1 | C2, C2 => true | _, _ => false end.
Definition cop_eqb (a b : cop) : bool :=
  match a, b with CRemove, CRemove | CSave1, CSave1 | CSave2, CSave2 => true | _, _ => false end.
Definition result_eqb (a b : result) : bool :=
  match a, b with ROk, ROk | RRecovered, RRecovered | RLost, RLost | RNotV1, RNotV1 => true | _, _ => false end.

Definition apply (st : cfg) (o : cop) : cfg :=
  match o with CRemove => CNone | CSave1 => C1 | CSave2 => C2 end.
Definition run (st : cfg) (tr : list cop) : cfg := fold_left apply tr st.

Definition take_fault (fs : list bool) : bool * list bool :=
  match fs with [] => (false, []) | b :: r => (b, r) end.

(* one attempted operation: fails when the fault pattern says so, or naturally (removing a file
   that does not exist) *)
Definition attempt (o : cop) (st : cfg) (fs : list bool) : bool * cfg * list bool :=
  let '(b, fs') := take_fault fs in
  let natural := match o, st with CRemove, CNone => true | _, _ => false end in
  if b || natural then (false, st, fs') else (true, apply st o, fs').

(* the contingency path of UpgradeRepo on backends without atomic replace: remove (result ignored),
   save the old raw config *)
Definition recover (st : cfg) (fs : list bool) (tr : list cop) : list cop * cfg * result :=
  let '(ok3, st3, fs3) := attempt CRemove st fs in
  let tr3 := if ok3 then tr ++ [CRemove] else tr in
  let '(ok4, st4, _) := attempt CSave1 st3 fs3 in
  if ok4 then (tr3 ++ [CSave1], st4, RRecovered) else (tr3, st4, RLost).

(* UpgradeRepo on a version-1 repository: successful operations in order, final config, result.
   fs: for each attempted modifying operation in order, does it fail (a crash after k operations
   is the pattern false^k true^inf) *)
Definition upgrade (atomic : bool) (fs : list bool) : list cop * cfg * result :=
  if atomic then
    (* atomic replace: a failed upload leaves the old config in place; no contingency (70c3c2bee) *)
    let '(ok2, st2, _) := attempt CSave2 C1 fs in
    if ok2 then ([CSave2], st2, ROk) else ([], st2, RRecovered)
  else
    let '(ok1, st1, fs1) := attempt CRemove C1 fs in
    if ok1 then
      let '(ok2, st2, fs2) := attempt CSave2 st1 fs1 in
      if ok2 then ([CRemove; CSave2], st2, ROk) else recover st2 fs2 [CRemove]
    else recover st1 fs1 [].

Definition trace_of (x : list cop * cfg * result) : list cop := fst (fst x).
Definition final_of (x : list cop * cfg * result) : cfg := snd (fst x).
Definition result_of (x : list cop * cfg * result) : result := snd x.

Fixpoint count_true (l : list bool) : nat :=
  match l with [] => O | true :: r => S (count_true r) | false :: r => count_true r end.

(* ---------- one correspondence case ---------- *)
Record case := mk {
  c_atomic : bool;                (* backend reports HasAtomicReplace *)
  c_v1 : bool;                    (* the repository is version 1 before *)
  c_faults : list bool;           (* injected: does the k-th attempted modifying operation fail *)
  c_trace : list cop;             (* observed successful operations on the config handle *)
  c_other_ops : nat;              (* observed modifying operations on any other file *)
  c_others_unchanged : bool;      (* every other file is byte-identical afterwards *)
  c_final : cfg;                  (* observed: the repository opens as v1 / v2 / not at all *)
  c_result : result;              (* observed result class of UpgradeRepo *)
  c_data_ok : bool }.             (* after success: check --read-data clean and restore = source (else true) *)

Definition clause_config (c : case) : bool := negb (cfg_eqb (c_final c) CNone).
Definition clause_untouched (c : case) : bool := Nat.eqb (c_other_ops c) 0 && c_others_unchanged c.
Definition clause_data (c : case) : bool := c_data_ok c.

Definition check_C31 (c : case) : bool := clause_config c && clause_untouched c && clause_data c.

Definition model_agrees (c : case) : bool :=
  if c_v1 c then
    let m := upgrade (c_atomic c) (c_faults c) in
    list_eqb cop_eqb (trace_of m) (c_trace c) && cfg_eqb (final_of m) (c_final c) &&
    result_eqb (result_of m) (c_result c) && cfg_eqb (run C1 (c_trace c)) (c_final c)
  else
    match c_trace c with [] => result_eqb (c_result c) RNotV1 && cfg_eqb (c_final c) C2 | _ => false end.

Definition check_case (c : case) : nat :=
  if negb (clause_config c) then 2
  else if negb (clause_untouched c) then 3
  else if negb (clause_data c) then 4
  else if model_agrees c then 0 else 1.

End C31m.
