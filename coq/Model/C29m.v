(* C29: a repository opens with exactly the passwords of its current keys.  Executable model only.
   Anchors: internal/repository/key.go (openKey, searchKey, AddKey, RemoveKey),
   cmd/restic/cmd_key_add.go (addKey, switchToNewKeyAndRemoveIfBroken),
   cmd/restic/cmd_key_passwd.go (changePassword), cmd/restic/cmd_key_remove.go (deleteKey),
   internal/global/global.go (maxKeys = 20).

   check_case codes: 0 ok; 1 model <> implementation (search result class, operation sequence);
   2 search: a password opened without a key for it / did not open although a key for it exists
     (<= maxKeys keys or hinted) / a different master key came out;
   3 key command: at some prefix of the operations neither the key in use nor the new key exists,
     or the key in use was removed by key remove;
   4 key files / opening passwords after the run differ from the replayed operations;
   5 hypotheses (fresh id, key in use present) do not hold;
   6 lock-out: after the command no known password opens the repository, or the command reported
     success for a new password that does not open it. *)
From Restic Require Import Base.Prelude Gen.ParamsC29.

Module C29m.
Local Open Scope N_scope.

Definition max_keys : nat := Z.to_nat ParamsC29.max_keys.

Record key := mkK { k_id : N; k_pw : N; k_master : N; k_good : bool }.
(* k_good = false: the file is not a usable key file (openKey fails with an error that is not
   ErrUnauthenticated: bad JSON, unsupported KDF, short data) *)

Inductive kres := KOk (master : N) | KUnauth | KErr.
(* openKey with an ideal authenticated encryption: the user key derived from a different password
   fails authentication *)
Definition open_key (k : key) (pw : N) : kres :=
  if negb (k_good k) then KErr else if N.eqb (k_pw k) pw then KOk (k_master k) else KUnauth.

Inductive sres := SFound (id master : N) | SNoKey | SMaxKeys | SErr.

(* the List callback of searchKey *)
Fixpoint search_list (keys : list key) (pw : N) (maxk checked : nat) : sres :=
  match keys with
  | [] => SNoKey
  | k :: r =>
      let checked' := S checked in
      if Nat.ltb 0 maxk && Nat.ltb maxk checked' then SMaxKeys
      else match open_key k pw with
           | KOk m => SFound (k_id k) m
           | KUnauth => search_list r pw maxk checked'
           | KErr => SErr
           end
  end.

Fixpoint lookup (keys : list key) (id : N) : option key :=
  match keys with [] => None | k :: r => if N.eqb (k_id k) id then Some k else lookup r id end.

(* hint: the ids whose name starts with the hint (restic.Find succeeds iff exactly one) *)
Definition search_key (keys : list key) (pw : N) (maxk : nat) (hint_given : bool) (hint_matches : list N) : sres :=
  let fallback := search_list keys pw maxk 0 in
  if hint_given then
    match hint_matches with
    | [id] =>
        match lookup keys id with
        | Some k => match open_key k pw with KOk m => SFound (k_id k) m | _ => fallback end
        | None => fallback
        end
    | _ => fallback
    end
  else fallback.

(* ---------- key commands ---------- *)
Inductive kop := KSave (id pw : N) | KRemove (id : N).
Definition kop_eqb (a b : kop) : bool :=
  match a, b with
  | KSave i p, KSave j q => N.eqb i j && N.eqb p q
  | KRemove i, KRemove j => N.eqb i j
  | _, _ => false
  end.

Inductive cmd := CAdd (newpw : N) | CPasswd (newpw : N) | CRemove (target : N).

(* cur: id of the key the session was opened with; newid: id of the key file AddKey writes;
   verify_ok: does switchToNewKeyAndRemoveIfBroken find the new key usable *)
Definition cmd_ops (cur newid : N) (verify_ok : bool) (c : cmd) : list kop :=
  match c with
  | CAdd pw => if verify_ok then [KSave newid pw] else [KSave newid pw; KRemove newid]
  | CPasswd pw => if verify_ok then [KSave newid pw; KRemove cur] else [KSave newid pw; KRemove newid]
  | CRemove t => if N.eqb t cur then [] else [KRemove t]
  end.

(* switchToNewKeyAndRemoveIfBroken looked at more closely: the verification is
   SearchKey(newpw, no limit, hint = new key) on the listing after the Save.  If the new key file
   cannot be read (k_good = false in [listing]) the search goes on through the listing and may
   succeed with ANOTHER key that has the same password; the session then uses that key, and
   RemoveKey's guard compares with it. *)
Definition cmd_ops_listing (listing : list key) (cur newid : N) (c : cmd) : list kop :=
  match c with
  | CAdd pw =>
      match search_key listing pw 0 true [newid] with
      | SFound _ _ => [KSave newid pw]
      | _ => [KSave newid pw; KRemove newid]
      end
  | CPasswd pw =>
      match search_key listing pw 0 true [newid] with
      | SFound found _ => if N.eqb found cur then [KSave newid pw] else [KSave newid pw; KRemove cur]
      | _ => [KSave newid pw; KRemove newid]
      end
  | CRemove t => if N.eqb t cur then [] else [KRemove t]
  end.

Definition kstate := list key.
Definition kapply (master : N) (s : kstate) (o : kop) : kstate :=
  match o with
  | KSave id pw => s ++ [mkK id pw master true]
  | KRemove id => filter (fun k => negb (N.eqb (k_id k) id)) s
  end.
Definition krun (master : N) (s : kstate) (tr : list kop) : kstate := fold_left (kapply master) tr s.
Definition has_key (s : kstate) (id : N) : bool := existsb (fun k => N.eqb (k_id k) id) s.

(* the property at one state: the key in use or the new key is there *)
Definition alive (cur newid : N) (s : kstate) : bool := has_key s cur || has_key s newid.
Fixpoint alive_all_prefixes (master cur newid : N) (s : kstate) (tr : list kop) : bool :=
  alive cur newid s &&
  match tr with [] => true | o :: r => alive_all_prefixes master cur newid (kapply master s o) r end.

(* ---------- correspondence cases ---------- *)
Record scase := mkS {
  s_keys : list key;           (* key files in listing order *)
  s_pw : N; s_hint_given : bool; s_hint_matches : list N;
  s_obs : sres;                (* observed: class, id of the key found, master (1 = the repository's) *) }.

Record hcase := mkH {
  h_before : list key; h_master : N;
  h_cur : N; h_cmd : cmd; h_newid : N;        (* newid: observed id of the saved key file, 0 if none *)
  h_cut : bool;                               (* run with the backend cut / a failing operation *)
  h_vok : bool;                               (* the verification read of the new key was not made to fail *)
  h_trace : list kop;                         (* successful Save/Remove of key files, in order *)
  h_keys_after : list N;                      (* key files afterwards *)
  h_opens_after : list (N * bool);            (* for each pool password: does it open (<= maxKeys keys) *)
  h_same_master : bool;                       (* every password that opens yields the original master key *)
  h_order : N;                                (* unreadable new key file: 1 = listed after all other keys, 2 = before, 0 = as it comes *)
  h_ret_ok : bool }.                          (* the command returned without error *)

Inductive case := CS (c : scase) | CH (c : hcase).

Definition sres_class_eqb (a b : sres) : bool :=
  match a, b with
  | SFound i m, SFound j n => N.eqb i j && N.eqb m n
  | SNoKey, SNoKey | SMaxKeys, SMaxKeys | SErr, SErr => true
  | _, _ => false
  end.

Definition all_good (keys : list key) : bool := forallb k_good keys.
Definition pw_present (keys : list key) (pw : N) : bool := existsb (fun k => N.eqb (k_pw k) pw) keys.
Definition hinted_right (c : scase) : bool :=
  s_hint_given c &&
  match s_hint_matches c with
  | [id] => match lookup (s_keys c) id with Some k => k_good k && N.eqb (k_pw k) (s_pw c) | None => false end
  | _ => false
  end.

(* oracle for searches (all key files good): found => a key with that password and master exists;
   <= maxKeys keys or rightly hinted => found iff the password is present *)
Definition check_search (c : scase) : bool :=
  if negb (all_good (s_keys c)) then true else
  match s_obs c with
  | SFound id m =>
      existsb (fun k => N.eqb (k_id k) id && N.eqb (k_pw k) (s_pw c) && N.eqb (k_master k) m) (s_keys c)
  | SNoKey => negb (pw_present (s_keys c) (s_pw c))
  | SMaxKeys => Nat.ltb max_keys (length (s_keys c)) && negb (hinted_right c)
  | SErr => false
  end.

Definition set_eqb (a b : list N) : bool :=
  forallb (fun x => existsb (N.eqb x) b) a && forallb (fun x => existsb (N.eqb x) a) b.

Definition h_wf (c : hcase) : bool :=
  has_key (h_before c) (h_cur c) && negb (has_key (h_before c) (h_newid c)) &&
  negb (N.eqb (h_newid c) (h_cur c)) && forallb (fun k => N.eqb (k_master k) (h_master c)) (h_before c).

Definition h_safe (c : hcase) : bool :=
  alive_all_prefixes (h_master c) (h_cur c) (h_newid c) (h_before c) (h_trace c) &&
  (* key remove never removes the key in use *)
  match h_cmd c with CRemove _ => has_key (krun (h_master c) (h_before c) (h_trace c)) (h_cur c) | _ => true end.

Definition h_after_ok (c : hcase) : bool :=
  let st := krun (h_master c) (h_before c) (h_trace c) in
  set_eqb (map k_id st) (h_keys_after c) &&
  forallb (fun pb => Bool.eqb (snd pb) (pw_present st (fst pb))) (h_opens_after c) &&
  h_same_master c.

(* after ANY run (complete, cut, faulty) some known password still opens the repository; and when
   key add / key passwd reports success, the new password opens it *)
Definition cmd_newpw (c : cmd) : option N := match c with CAdd pw | CPasswd pw => Some pw | CRemove _ => None end.
Definition h_no_lockout (c : hcase) : bool :=
  existsb (fun pb => snd pb) (h_opens_after c) &&
  (if h_ret_ok c then
     match cmd_newpw (h_cmd c) with
     | Some pw => existsb (fun pb => N.eqb (fst pb) pw && snd pb) (h_opens_after c)
     | None => true
     end
   else true).

Fixpoint is_prefix_of (p l : list kop) : bool :=
  match p, l with
  | [], _ => true
  | x :: p', y :: l' => kop_eqb x y && is_prefix_of p' l'
  | _ :: _, [] => false
  end.

(* unreadable new key, password shared with an existing key: which branch is taken depends on the
   listing order (is the unreadable file listed before a key with the password) *)
Definition shared_pw_traces (c : hcase) : list (list kop) :=
  let n := h_newid c in let cur := h_cur c in
  match h_cmd c with
  | CAdd pw => [[KSave n pw]; [KSave n pw; KRemove n]]
  | CPasswd pw =>
      [[KSave n pw; KRemove n]] ++
      (if existsb (fun k => N.eqb (k_id k) cur && N.eqb (k_pw k) pw && k_good k) (h_before c) then [[KSave n pw]] else []) ++
      (if existsb (fun k => negb (N.eqb (k_id k) cur) && N.eqb (k_pw k) pw && k_good k) (h_before c)
       then [[KSave n pw; KRemove cur]] else [])
  | CRemove _ => [cmd_ops cur n true (h_cmd c)]
  end.
Definition bad_listing (c : hcase) (pw : N) : list key :=
  let bad := mkK (h_newid c) pw (h_master c) false in
  if N.eqb (h_order c) 1 then h_before c ++ [bad] else bad :: h_before c.

Definition h_model_agrees (c : hcase) : bool :=
  (* unreadable new key at a known listing position: the listing-based model is exact *)
  if negb (h_vok c) && negb (h_cut c) && negb (N.eqb (h_order c) 0) then
    match cmd_newpw (h_cmd c) with
    | Some pw => list_eqb kop_eqb (h_trace c) (cmd_ops_listing (bad_listing c pw) (h_cur c) (h_newid c) (h_cmd c))
    | None => list_eqb kop_eqb (h_trace c) (cmd_ops (h_cur c) (h_newid c) true (h_cmd c))
    end
  else
  if negb (h_vok c) && negb (h_cut c) &&
     match cmd_newpw (h_cmd c) with Some pw => pw_present (h_before c) pw | None => false end
  then existsb (fun t => list_eqb kop_eqb (h_trace c) t) (shared_pw_traces c) else
  let nominal := cmd_ops (h_cur c) (h_newid c) (h_vok c) (h_cmd c) in
  if h_cut c then is_prefix_of (h_trace c) nominal
  else list_eqb kop_eqb (h_trace c) nominal.

Definition check_C29 (c : case) : bool :=
  match c with
  | CS s => check_search s
  | CH h => h_wf h && h_safe h && h_after_ok h && h_no_lockout h
  end.

Definition check_case (c : case) : nat :=
  match c with
  | CS s =>
      if negb (check_search s) then 2%nat
      else if sres_class_eqb (s_obs s) (search_key (s_keys s) (s_pw s) max_keys (s_hint_given s) (s_hint_matches s))
      then 0%nat else 1%nat
  | CH h =>
      if negb (h_wf h) then 5%nat
      else if negb (h_safe h) then 3%nat
      else if negb (h_no_lockout h) then 6%nat
      else if negb (h_after_ok h) then 4%nat
      else if h_model_agrees h then 0%nat else 1%nat
  end.

End C29m.
