(* C44: packerManager (internal/repository/packer_manager.go): SaveBlob / pickPacker / forgetPacker /
   mergePackers / Flush, the upload queue, and the index entries StorePack derives from a packer.
   Executable model only.

   A packer is the list of blobs added to it, in order (id label, ciphertext length); its Size() is the sum
   of the lengths, Count() the number of blobs, HeaderFull() as in pack.go with the constants of
   Gen/ParamsC44.v.  The random slot choice of pickPacker is an input of SaveBlob.  SaveBlob and Flush hold
   the manager's mutex for their whole duration, so every concurrent execution is a sequence of these
   operations; the theorems quantify over all sequences and all choices. *)
From Restic Require Import Base.Prelude Gen.ParamsC44.

Module C44m.
Open Scope Z_scope.

Definition entry_size := ParamsC44.entry_size.
Definition header_size := ParamsC44.header_size.
Definition max_header_size := ParamsC44.max_header_size.
Definition max_header_entries := ParamsC44.max_header_entries.

Record pblob := mkPB { pb_id : N; pb_tree : bool; pb_len : N }.   (* pb_len: ciphertext length (uint) *)
Definition packer := list pblob.

Fixpoint psize (p : packer) : Z := match p with [] => 0 | b :: r => Z.of_N (pb_len b) + psize r end.
Definition pcount (p : packer) : Z := Z.of_nat (length p).
Definition header_full (n : Z) : bool := header_size + (n + 1) * entry_size >? max_header_size.

(* "packer.Size() < r.packSize && !packer.HeaderFull()": the packer stays open *)
Definition nonfull (ps : Z) (p : packer) : bool := (psize p <? ps) && negb (header_full (pcount p)).

Record st := mkSt { slots : list (option packer); queued : list packer }.
Definition init (n : nat) : st := mkSt (repeat None n) [].

Fixpoint set_nth {A} (l : list A) (i : nat) (x : A) : list A :=
  match l, i with
  | [], _ => []
  | _ :: r, O => x :: r
  | y :: r, S i' => y :: set_nth r i' x
  end.

(* SaveBlob; choice = result of randomInt(len(r.packers)); None = choice out of range (cannot happen) *)
Definition save_blob (ps : Z) (s : st) (b : pblob) (choice : nat) : option st :=
  if Z.of_N (pb_len b) >=? ps then
    (* pickPacker: own packer for an oversized blob; it is not entered into the list *)
    let p := [b] in
    if nonfull ps p then Some s (* packer dropped: unreachable, see theorem *)
    else Some (mkSt (slots s) (queued s ++ [p]))
  else
    match nth_error (slots s) choice with
    | None => None
    | Some slot =>
        let p := match slot with Some p => p | None => [] end ++ [b] in
        if nonfull ps p then Some (mkSt (set_nth (slots s) choice (Some p)) (queued s))
        else Some (mkSt (set_nth (slots s) choice None) (queued s ++ [p]))   (* forgetPacker + queueFn *)
    end.

(* mergePackers: acc = the packer currently being filled (p in the Go code) *)
Fixpoint merge_go (ps : Z) (acc : option packer) (l : list (option packer)) : list packer :=
  match l with
  | [] => match acc with Some p => [p] | None => [] end
  | None :: r => merge_go ps acc r
  | Some q :: r =>
      match acc with
      | None => merge_go ps (Some q) r
      | Some p =>
          if (psize p + psize q <? ps) && (pcount p + pcount q <=? max_header_entries)
          then merge_go ps (Some (p ++ q)) r
          else p :: merge_go ps (Some q) r
      end
  end.

Definition flush (ps : Z) (s : st) : st :=
  mkSt (map (fun _ => None) (slots s)) (queued s ++ merge_go ps None (slots s)).

Inductive op := OSave (b : pblob) (choice : nat) | OFlush.

Fixpoint run (ps : Z) (s : st) (ops : list op) : option st :=
  match ops with
  | [] => Some s
  | OSave b c :: r => match save_blob ps s b c with Some s' => run ps s' r | None => None end
  | OFlush :: r => run ps (flush ps s) r
  end.

Fixpoint accepted (ops : list op) : list pblob :=
  match ops with [] => [] | OSave b _ :: r => b :: accepted r | OFlush :: r => accepted r end.

(* saveAndEncrypt routes by blob type to one of two managers *)
Definition st2 := (st * st)%type.   (* (tree manager, data manager) *)
Definition save2 (ps : Z) (s : st2) (b : pblob) (choice : nat) : option st2 :=
  if pb_tree b then match save_blob ps (fst s) b choice with Some t => Some (t, snd s) | None => None end
  else match save_blob ps (snd s) b choice with Some d => Some (fst s, d) | None => None end.

Fixpoint run2 (ps : Z) (s : st2) (ops : list op) : option st2 :=
  match ops with
  | [] => Some s
  | OSave b c :: r => match save2 ps s b c with Some s' => run2 ps s' r | None => None end
  | OFlush :: r => run2 ps (flush ps (fst s), flush ps (snd s)) r   (* flushPackUploader: tree manager, then data manager *)
  end.

(* ---------- what is uploaded and indexed ---------- *)
(* savePacker: the pack is saved, then StorePack enters one index entry per blob with the packer's offsets *)
Record ientry := mkIE { ie_id : N; ie_tree : bool; ie_pack : nat; ie_off : Z; ie_len : Z }.
Fixpoint entries_of (k : nat) (p : packer) (pos : Z) : list ientry :=
  match p with
  | [] => []
  | b :: r => mkIE (pb_id b) (pb_tree b) k pos (Z.of_N (pb_len b)) :: entries_of k r (pos + Z.of_N (pb_len b))
  end.
Fixpoint index_of (k : nat) (packs : list packer) : list ientry :=
  match packs with [] => [] | p :: r => entries_of k p 0 ++ index_of (S k) r end.

(* ---------- specification side ---------- *)
(* no blob was added to the pack after it was full: every proper non-empty prefix is non-full *)
Definition ok_pack (ps : Z) (p : packer) : bool :=
  forallb (fun k => nonfull ps (firstn k p)) (seq 1 (length p - 1)).
Definition pack_ok (ps : Z) (p : packer) : bool :=
  match p with [] => false | _ => true end && ok_pack ps p && (pcount p <=? max_header_entries).

Definition pblob_eqb (a b : pblob) : bool :=
  (pb_id a =? pb_id b)%N && Bool.eqb (pb_tree a) (pb_tree b) && (pb_len a =? pb_len b)%N.
Fixpoint count_id (i : N) (l : list pblob) : nat :=
  match l with [] => O | b :: r => ((if (pb_id b =? i)%N then 1 else 0) + count_id i r)%nat end.
Fixpoint find_blob (i : N) (l : list pblob) : option pblob :=
  match l with [] => None | b :: r => if (pb_id b =? i)%N then Some b else find_blob i r end.

(* every accepted blob (distinct ids) is in exactly one pack, unchanged; nothing else is in the packs *)
Definition exactly_once (acc : list pblob) (packs : list packer) : bool :=
  let all := concat packs in
  Nat.eqb (length acc) (length all)
  && forallb (fun b => Nat.eqb (count_id (pb_id b) acc) 1 && Nat.eqb (count_id (pb_id b) all) 1
                       && match find_blob (pb_id b) all with Some b' => pblob_eqb b b' | None => false end) acc.

Definition uniform (tree : bool) (p : packer) : bool := forallb (fun b => Bool.eqb (pb_tree b) tree) p.

(* ---------- cases ---------- *)
Fixpoint counts_go (ps : Z) (acc : option (Z * Z)) (l : list (Z * Z)) : list (Z * Z) :=   (* (size, count) projection of merge_go *)
  match l with
  | [] => match acc with Some p => [p] | None => [] end
  | q :: r =>
      match acc with
      | None => counts_go ps (Some q) r
      | Some p =>
          if (fst p + fst q <? ps) && (snd p + snd q <=? max_header_entries)
          then counts_go ps (Some (fst p + fst q, snd p + snd q)) r
          else p :: counts_go ps (Some q) r
      end
  end.
Definition counts_merge (ps : Z) (l : list (Z * Z)) : list (Z * Z) := counts_go ps None l.

Inductive bop := BSavePack (k : nat) | BSaveIndex (ks : list nat).   (* successful backend saves, in order *)

Inductive case :=
  (* one manager driven sequentially: ops with the observed slot choices; observed slots and queue at the
     end (ops end with a Flush); fin = Finalize succeeded for every queued packer *)
| CP (ps : Z) (n : nat) (tree : bool) (ops : list op) (oslots : list (option packer)) (oqueued : list packer) (fin : bool)
  (* concurrent savers on one manager, then Flush: only the final queue is observed *)
| CC (ps : Z) (tree : bool) (acc : list pblob) (oqueued : list packer) (fin : bool)
  (* many zero-length blobs: (size,count) of the packers queued by SaveBlob, of the open packers before
     Flush, and of the packers queued by Flush *)
| CB (ps : Z) (early : list (Z * Z)) (before : list (Z * Z)) (after : list (Z * Z)) (fin : bool)
  (* whole repository, WithBlobUploader with concurrent SaveBlob: acc = saved blobs (stored length unknown: 0),
     packs = listing of every uploaded pack file (k = position in upload order), idx = entries of the
     repository index after the session, bops = order of successful pack / index uploads, ok = session result,
     mem = pack numbers (9999 = never uploaded) the in-memory index of the repository object refers to after
     the session (failed or not) *)
| CR (ps : Z) (acc : list pblob) (packs : list (list ientry)) (idx : list ientry) (bops : list bop) (ok : bool)
     (mem : list nat).

Definition packer_eqb (a b : packer) : bool := list_eqb pblob_eqb a b.

Definition model_agrees (c : case) : bool :=
  match c with
  | CP ps n tree ops oslots oqueued fin =>
      match run ps (init n) ops with
      | Some s => list_eqb (option_eqb packer_eqb) (slots s) oslots && list_eqb packer_eqb (queued s) oqueued
      | None => false
      end
  | CB ps early before after fin =>
      list_eqb (fun a b => (fst a =? fst b) && (snd a =? snd b)) (counts_merge ps before) after
      && forallb (fun a => negb ((fst a <? ps) && negb (header_full (snd a)))) early
  | _ => true
  end.

Definition ie_blob (e : ientry) : pblob := mkPB (ie_id e) (ie_tree e) (Z.to_N (ie_len e)).
Definition ientry_eqb (a b : ientry) : bool :=
  (ie_id a =? ie_id b)%N && Bool.eqb (ie_tree a) (ie_tree b) && Nat.eqb (ie_pack a) (ie_pack b)
  && (ie_off a =? ie_off b) && (ie_len a =? ie_len b).
Fixpoint offsets_ok (l : list ientry) (pos : Z) : bool :=
  match l with [] => true | e :: r => (ie_off e =? pos) && offsets_ok r (pos + ie_len e) end.
Fixpoint mem_nat (x : nat) (l : list nat) : bool := match l with [] => false | y :: r => Nat.eqb x y || mem_nat x r end.
(* every index upload only mentions packs uploaded before it *)
Fixpoint order_ok (seen : list nat) (l : list bop) : bool :=
  match l with
  | [] => true
  | BSavePack k :: r => order_ok (k :: seen) r
  | BSaveIndex ks :: r => forallb (fun k => mem_nat k seen) ks && order_ok seen r
  end.
Fixpoint uploaded (l : list bop) : list nat :=
  match l with [] => [] | BSavePack k :: r => k :: uploaded r | _ :: r => uploaded r end.
Definition same_ids (acc : list pblob) (l : list ientry) : bool :=
  Nat.eqb (length acc) (length l)
  && forallb (fun b => Nat.eqb (count_id (pb_id b) acc) 1 && Nat.eqb (count_id (pb_id b) (map ie_blob l)) 1
                       && match find_blob (pb_id b) (map ie_blob l) with Some b' => Bool.eqb (pb_tree b) (pb_tree b') | None => false end) acc.

(* oracle; 0 = holds; 2 blob lost/duplicated/altered; 3 tree and data mixed; 4 blob added to a full pack;
   5 header limit exceeded / Finalize fails; 6 index entry does not match the uploaded pack / pack not
   uploaded before being indexed; 7 the in-memory index refers to a pack whose upload did not succeed *)
Definition oracle_code (c : case) : nat :=
  match c with
  | CP ps n tree ops oslots oqueued fin =>
      if negb (exactly_once (accepted ops) oqueued) then 2%nat
      else if negb (forallb (uniform tree) oqueued) then 3%nat
      else if negb (forallb (fun p => match p with [] => false | _ => true end && ok_pack ps p) oqueued) then 4%nat
      else if negb (forallb (fun p => pcount p <=? max_header_entries) oqueued && fin) then 5%nat
      else 0%nat
  | CC ps tree acc oqueued fin =>
      if negb (exactly_once acc oqueued) then 2%nat
      else if negb (forallb (uniform tree) oqueued) then 3%nat
      else if negb (forallb (fun p => match p with [] => false | _ => true end && ok_pack ps p) oqueued) then 4%nat
      else if negb (forallb (fun p => pcount p <=? max_header_entries) oqueued && fin) then 5%nat
      else 0%nat
  | CB ps early before after fin =>
      if negb ((fold_right Z.add 0 (map snd before) =? fold_right Z.add 0 (map snd after))
               && (fold_right Z.add 0 (map fst before) =? fold_right Z.add 0 (map fst after))) then 2%nat
      else if negb (forallb (fun a => snd a <=? max_header_entries) (early ++ after) && fin) then 5%nat
      else 0%nat
  | CR ps acc packs idx bops ok mem =>
      if negb (forallb (fun k => mem_nat k (uploaded bops)) mem) then 7%nat else
      if ok then
        if negb (same_ids acc (concat packs) && same_ids acc idx) then 2%nat
        else if negb (forallb (fun p => match p with [] => true | e :: _ => forallb (fun x => Bool.eqb (ie_tree x) (ie_tree e)) p end) packs) then 3%nat
        else if negb (forallb (fun p => ok_pack ps (map ie_blob p)) packs) then 4%nat
        else if negb (forallb (fun p => pcount (map ie_blob p) <=? max_header_entries) packs) then 5%nat
        else if negb (forallb (fun p => offsets_ok p 0) packs
                      && forallb (fun e => existsb (ientry_eqb e) (concat packs)) idx
                      && order_ok [] bops) then 6%nat
        else 0%nat
      else
        (* failed session: whatever index was written only mentions packs that were uploaded, in order *)
        if negb (forallb (fun e => mem_nat (ie_pack e) (uploaded bops)) idx && order_ok [] bops) then 6%nat else 0%nat
  end.

Definition check_C44 (c : case) : bool := Nat.eqb (oracle_code c) 0.

Definition check_case (c : case) : nat :=
  match oracle_code c with
  | O => if model_agrees c then 0%nat else 1%nat
  | n => n
  end.

End C44m.
